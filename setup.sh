#!/bin/sh
# Run once after a fresh restore, offline: warm the Go build cache by building the harness
# against /repo (the checks rebuild from /repo's working tree on every run anyway).
cd "$(dirname "$0")" || exit 1
export GOFLAGS=-mod=mod GOPROXY=off GOSUMDB=off GOTOOLCHAIN=local GOWORK=off
python3 tools/warm.py
