// Package iewalk is a hand-written, tag-independent reader for the NGAP messages a gNB
// sends to an AMF (TS 38.413 clauses 9.2, 9.3, 9.4), on top of its own ALIGNED PER
// (ITU-T X.691) bit cursor. Nothing in this package looks at the code under test: the
// schema knowledge (bounds, extension markers, optional counts, identifiers,
// criticalities) is typed in from the specification. Standard library only.
//
// Entry points:
//
//	ParsePDU(b)                      NGAP-PDU framing + ProtocolIE-Container walk
//	(*PDU).Spec(), CheckMandatory()  table of the messages the emulator sends
//	Decode…(ieValue)                 typed decoders for the IEs on the gNB side
package iewalk

import (
	"errors"
	"fmt"
)

// ----------------------------------------------------------------------------------
// bit cursor (X.691 ALIGNED variant)

// R is a read cursor over an ALIGNED PER encoding.
type R struct {
	b   []byte
	pos int // bit position
}

func NewR(b []byte) *R { return &R{b: b} }

var ErrTruncated = errors.New("iewalk: encoding truncated")

func (r *R) Remaining() int { return 8*len(r.b) - r.pos }
func (r *R) Pos() int       { return r.pos }

func (r *R) Bit() (uint64, error) {
	if r.pos >= 8*len(r.b) {
		return 0, ErrTruncated
	}
	v := (r.b[r.pos/8] >> uint(7-r.pos%8)) & 1
	r.pos++
	return uint64(v), nil
}

func (r *R) Bits(n int) (uint64, error) {
	if n > 64 {
		return 0, fmt.Errorf("iewalk: %d-bit field", n)
	}
	if r.Remaining() < n {
		return 0, ErrTruncated
	}
	var v uint64
	for i := 0; i < n; i++ {
		b, _ := r.Bit()
		v = v<<1 | b
	}
	return v, nil
}

func (r *R) Align() { r.pos = (r.pos + 7) &^ 7 }

func (r *R) Octets(n int) ([]byte, error) {
	r.Align()
	if n < 0 || r.Remaining() < 8*n {
		return nil, ErrTruncated
	}
	out := append([]byte{}, r.b[r.pos/8:r.pos/8+n]...)
	r.pos += 8 * n
	return out, nil
}

// BitField reads n bits (not aligned first) and returns them left-justified in octets.
func (r *R) BitField(n int) ([]byte, error) {
	if r.Remaining() < n {
		return nil, ErrTruncated
	}
	out := make([]byte, (n+7)/8)
	for i := 0; i < n; i++ {
		b, _ := r.Bit()
		out[i/8] |= byte(b) << uint(7-i%8)
	}
	return out, nil
}

func bitsFor(maxVal uint64) int {
	n := 0
	for maxVal > 0 {
		n++
		maxVal >>= 1
	}
	return n
}

// Constrained reads a constrained whole number lb..ub (X.691 10.5.7, aligned variant).
func (r *R) Constrained(lb, ub int64) (int64, error) {
	rng := uint64(ub-lb) + 1
	switch {
	case rng == 1:
		return lb, nil
	case rng <= 255:
		v, err := r.Bits(bitsFor(rng - 1))
		if err != nil {
			return 0, err
		}
		if v > rng-1 {
			return 0, fmt.Errorf("iewalk: value %d outside range of %d", v, rng)
		}
		return lb + int64(v), nil
	case rng == 256:
		r.Align()
		v, err := r.Bits(8)
		return lb + int64(v), err
	case rng <= 65536:
		r.Align()
		v, err := r.Bits(16)
		if err != nil {
			return 0, err
		}
		if v > rng-1 {
			return 0, fmt.Errorf("iewalk: value %d outside range of %d", v, rng)
		}
		return lb + int64(v), nil
	}
	// indefinite-length case: length (in octets) is itself constrained 1..ceil(log256(range))
	maxOct := 1
	for x := rng - 1; x > 0xff; x >>= 8 {
		maxOct++
	}
	l, err := r.Bits(bitsFor(uint64(maxOct - 1)))
	if err != nil {
		return 0, err
	}
	n := int(l) + 1
	if n > maxOct {
		return 0, fmt.Errorf("iewalk: integer length %d > %d octets", n, maxOct)
	}
	r.Align()
	v, err := r.Bits(8 * n)
	if err != nil {
		return 0, err
	}
	if v > rng-1 {
		return 0, fmt.Errorf("iewalk: value %d outside %d..%d", int64(v)+lb, lb, ub)
	}
	return lb + int64(v), nil
}

// Length reads a general length determinant (X.691 10.9.3.5-10.9.3.8). Fragmented
// lengths (>= 16K) never occur in the messages read here and are refused.
func (r *R) Length() (int, error) {
	r.Align()
	b0, err := r.Bits(8)
	if err != nil {
		return 0, err
	}
	if b0&0x80 == 0 {
		return int(b0), nil
	}
	if b0&0x40 == 0 {
		b1, err := r.Bits(8)
		if err != nil {
			return 0, err
		}
		return int(b0&0x3f)<<8 | int(b1), nil
	}
	return 0, fmt.Errorf("iewalk: fragmented length determinant (0x%02x) not supported", b0)
}

// OpenType reads an open type: general length + that many octets.
func (r *R) OpenType() ([]byte, error) {
	n, err := r.Length()
	if err != nil {
		return nil, err
	}
	return r.Octets(n)
}

// OctetString with SIZE(lb..ub) (no extension marker).
func (r *R) OctetString(lb, ub int) ([]byte, error) {
	if lb == ub {
		if ub <= 2 {
			return r.BitField(8 * ub)
		}
		return r.Octets(ub)
	}
	n, err := r.Constrained(int64(lb), int64(ub))
	if err != nil {
		return nil, err
	}
	return r.Octets(int(n))
}

// OctetStringUnbounded: OCTET STRING without a size constraint.
func (r *R) OctetStringUnbounded() ([]byte, error) {
	n, err := r.Length()
	if err != nil {
		return nil, err
	}
	return r.Octets(n)
}

// BitStringFixed: BIT STRING (SIZE(n)), n < 64K.
func (r *R) BitStringFixed(n int) ([]byte, error) {
	if n > 16 {
		r.Align()
	}
	return r.BitField(n)
}

// BitStringRange: BIT STRING (SIZE(lb..ub[, ...])), ub < 64K.
func (r *R) BitStringRange(lb, ub int, ext bool) ([]byte, int, error) {
	if ext {
		e, err := r.Bit()
		if err != nil {
			return nil, 0, err
		}
		if e == 1 {
			return nil, 0, fmt.Errorf("iewalk: size extension of BIT STRING not supported")
		}
	}
	n, err := r.Constrained(int64(lb), int64(ub))
	if err != nil {
		return nil, 0, err
	}
	r.Align()
	b, err := r.BitField(int(n))
	return b, int(n), err
}

// Enumerated with root values 0..rootMax and optional extension marker.
func (r *R) Enumerated(rootMax int, ext bool) (val int, extended bool, err error) {
	if ext {
		e, err := r.Bit()
		if err != nil {
			return 0, false, err
		}
		if e == 1 {
			// normally small non-negative whole number (10.6)
			s, err := r.Bit()
			if err != nil {
				return 0, true, err
			}
			if s == 0 {
				v, err := r.Bits(6)
				return int(v), true, err
			}
			return 0, true, fmt.Errorf("iewalk: large enumeration extension not supported")
		}
	}
	v, err := r.Constrained(0, int64(rootMax))
	return int(v), false, err
}

// SeqPreamble reads the extension bit (if the SEQUENCE is extensible) and nOpt presence
// bits. Extension additions are refused (the gNB side under test never sends any).
func (r *R) SeqPreamble(extensible bool, nOpt int) ([]bool, error) {
	if extensible {
		e, err := r.Bit()
		if err != nil {
			return nil, err
		}
		if e == 1 {
			return nil, fmt.Errorf("iewalk: SEQUENCE extension additions not supported")
		}
	}
	out := make([]bool, nOpt)
	for i := range out {
		b, err := r.Bit()
		if err != nil {
			return nil, err
		}
		out[i] = b == 1
	}
	return out, nil
}

// Choice reads the index of a CHOICE with n root alternatives.
func (r *R) Choice(n int, extensible bool) (int, error) {
	if extensible {
		e, err := r.Bit()
		if err != nil {
			return 0, err
		}
		if e == 1 {
			return 0, fmt.Errorf("iewalk: CHOICE extension alternative not supported")
		}
	}
	v, err := r.Constrained(0, int64(n-1))
	return int(v), err
}

// End verifies that an open-type value was consumed completely: fewer than 8 bits left.
func (r *R) End() error {
	if r.Remaining() >= 8 {
		return fmt.Errorf("iewalk: %d unread octets after the value", r.Remaining()/8)
	}
	return nil
}

// ----------------------------------------------------------------------------------
// NGAP-PDU framing

const (
	ClassInitiating   = 0
	ClassSuccessful   = 1
	ClassUnsuccessful = 2
)

const (
	CritReject = 0
	CritIgnore = 1
	CritNotify = 2
)

var critNames = []string{"reject", "ignore", "notify"}

func CritName(c int) string {
	if c >= 0 && c < 3 {
		return critNames[c]
	}
	return fmt.Sprintf("criticality(%d)", c)
}

var classNames = []string{"initiatingMessage", "successfulOutcome", "unsuccessfulOutcome"}

func ClassName(c int) string {
	if c >= 0 && c < 3 {
		return classNames[c]
	}
	return fmt.Sprintf("class(%d)", c)
}

// IE is one ProtocolIE-Field: the value is the content of its open type.
type IE struct {
	ID          int
	Criticality int
	Value       []byte
}

// PDU is a parsed NGAP-PDU down to the list of protocol IEs.
type PDU struct {
	Class         int
	ProcedureCode int
	Criticality   int
	IEs           []IE
}

// ParsePDU reads NGAP-PDU ::= CHOICE {initiatingMessage, successfulOutcome,
// unsuccessfulOutcome, ...}, each SEQUENCE {procedureCode INTEGER(0..255), criticality
// ENUMERATED{reject,ignore,notify}, value OPEN TYPE}, where every message of TS 38.413 is
// SEQUENCE {protocolIEs ProtocolIE-Container, ...}. The whole datagram must be consumed.
func ParsePDU(b []byte) (*PDU, error) {
	r := NewR(b)
	cls, err := r.Choice(3, true)
	if err != nil {
		return nil, fmt.Errorf("NGAP-PDU choice: %w", err)
	}
	p := &PDU{Class: cls}
	pc, err := r.Constrained(0, 255)
	if err != nil {
		return nil, fmt.Errorf("procedureCode: %w", err)
	}
	p.ProcedureCode = int(pc)
	c, err := r.Constrained(0, 2)
	if err != nil {
		return nil, fmt.Errorf("criticality: %w", err)
	}
	p.Criticality = int(c)
	val, err := r.OpenType()
	if err != nil {
		return nil, fmt.Errorf("message open type: %w", err)
	}
	if r.Remaining() != 0 {
		return nil, fmt.Errorf("iewalk: %d octets after the NGAP-PDU", r.Remaining()/8)
	}
	ies, err := ParseIEContainer(val, true)
	if err != nil {
		return nil, err
	}
	p.IEs = ies
	return p, nil
}

// ParseIEContainer reads SEQUENCE { protocolIEs ProtocolIE-Container {{…}}, ... } (when
// wrapped is true: with the extension bit of the enclosing message/transfer SEQUENCE) or a
// bare ProtocolIE-Container. ProtocolIE-Container ::= SEQUENCE (SIZE(0..65535)) OF
// SEQUENCE { id INTEGER(0..65535), criticality, value OPEN TYPE }.
func ParseIEContainer(val []byte, wrapped bool) ([]IE, error) {
	r := NewR(val)
	if wrapped {
		if _, err := r.SeqPreamble(true, 0); err != nil {
			return nil, fmt.Errorf("message SEQUENCE: %w", err)
		}
	}
	n, err := r.Constrained(0, 65535)
	if err != nil {
		return nil, fmt.Errorf("ProtocolIE-Container count: %w", err)
	}
	var out []IE
	for i := 0; i < int(n); i++ {
		id, err := r.Constrained(0, 65535)
		if err != nil {
			return nil, fmt.Errorf("IE %d id: %w", i, err)
		}
		c, err := r.Constrained(0, 2)
		if err != nil {
			return nil, fmt.Errorf("IE %d criticality: %w", i, err)
		}
		v, err := r.OpenType()
		if err != nil {
			return nil, fmt.Errorf("IE %d (id %d) value: %w", i, id, err)
		}
		out = append(out, IE{ID: int(id), Criticality: int(c), Value: v})
	}
	if r.Remaining() >= 8 {
		return nil, fmt.Errorf("iewalk: %d unread octets after the ProtocolIE-Container", r.Remaining()/8)
	}
	return out, nil
}

// Find returns the first IE with the given id, or nil.
func (p *PDU) Find(id int) *IE {
	for i := range p.IEs {
		if p.IEs[i].ID == id {
			return &p.IEs[i]
		}
	}
	return nil
}

// Count returns how many IEs carry the given id.
func (p *PDU) Count(id int) int {
	n := 0
	for _, ie := range p.IEs {
		if ie.ID == id {
			n++
		}
	}
	return n
}

// ----------------------------------------------------------------------------------
// constants of TS 38.413 clause 9.4.7

const (
	ProcAMFConfigurationUpdate                = 0
	ProcAMFStatusIndication                   = 1
	ProcCellTrafficTrace                      = 2
	ProcDeactivateTrace                       = 3
	ProcDownlinkNASTransport                  = 4
	ProcDownlinkNonUEAssociatedNRPPaTransport = 5
	ProcDownlinkRANConfigurationTransfer      = 6
	ProcDownlinkRANStatusTransfer             = 7
	ProcDownlinkUEAssociatedNRPPaTransport    = 8
	ProcErrorIndication                       = 9
	ProcHandoverCancel                        = 10
	ProcHandoverNotification                  = 11
	ProcHandoverPreparation                   = 12
	ProcHandoverResourceAllocation            = 13
	ProcInitialContextSetup                   = 14
	ProcInitialUEMessage                      = 15
	ProcLocationReportingControl              = 16
	ProcLocationReportingFailureIndication    = 17
	ProcLocationReport                        = 18
	ProcNASNonDeliveryIndication              = 19
	ProcNGReset                               = 20
	ProcNGSetup                               = 21
	ProcOverloadStart                         = 22
	ProcOverloadStop                          = 23
	ProcPaging                                = 24
	ProcPathSwitchRequest                     = 25
	ProcPDUSessionResourceModify              = 26
	ProcPDUSessionResourceModifyIndication    = 27
	ProcPDUSessionResourceRelease             = 28
	ProcPDUSessionResourceSetup               = 29
	ProcPDUSessionResourceNotify              = 30
	ProcPrivateMessage                        = 31
	ProcPWSCancel                             = 32
	ProcPWSFailureIndication                  = 33
	ProcPWSRestartIndication                  = 34
	ProcRANConfigurationUpdate                = 35
	ProcRerouteNASRequest                     = 36
	ProcRRCInactiveTransitionReport           = 37
	ProcTraceFailureIndication                = 38
	ProcTraceStart                            = 39
	ProcUEContextModification                 = 40
	ProcUEContextRelease                      = 41
	ProcUEContextReleaseRequest               = 42
	ProcUERadioCapabilityCheck                = 43
	ProcUERadioCapabilityInfoIndication       = 44
	ProcUETNLABindingRelease                  = 45
	ProcUplinkNASTransport                    = 46
	ProcUplinkNonUEAssociatedNRPPaTransport   = 47
	ProcUplinkRANConfigurationTransfer        = 48
	ProcUplinkRANStatusTransfer               = 49
	ProcUplinkUEAssociatedNRPPaTransport      = 50
	ProcWriteReplaceWarning                   = 51
)

const (
	IDAllowedNSSAI                               = 0
	IDAMFName                                    = 1
	IDAMFSetID                                   = 3
	IDAMFUENGAPID                                = 10
	IDCause                                      = 15
	IDCriticalityDiagnostics                     = 19
	IDDefaultPagingDRX                           = 21
	IDFiveGSTMSI                                 = 26
	IDGlobalRANNodeID                            = 27
	IDGUAMI                                      = 28
	IDInfoOnRecommendedCellsAndRANNodesForPaging = 32
	IDNASPDU                                     = 38
	IDPDUSessionResourceFailedToSetupListCxtRes  = 55
	IDPDUSessionResourceFailedToSetupListSURes   = 58
	IDPDUSessionResourceListCxtRelCpl            = 60
	IDPDUSessionResourceReleasedListRelRes       = 70
	IDPDUSessionResourceSetupListCxtRes          = 72
	IDPDUSessionResourceSetupListSURes           = 75
	IDRANNodeName                                = 82
	IDRANUENGAPID                                = 85
	IDRRCEstablishmentCause                      = 90
	IDSupportedTAList                            = 102
	IDUEContextRequest                           = 112
	IDUserLocationInformation                    = 121
)

// ----------------------------------------------------------------------------------
// message table (TS 38.413 clause 9.2: presence and assigned criticality)

// IESpec is one row of a message's IE table.
type IESpec struct {
	ID          int
	Name        string
	Mandatory   bool
	Criticality int
}

// MsgSpec describes one message: where it sits in the elementary procedure and its IEs.
type MsgSpec struct {
	Name          string
	Class         int
	ProcedureCode int
	Criticality   int // criticality of the elementary procedure (clause 9.4.3 / 9.4.4)
	IEs           []IESpec
}

func m(id int, n string, c int) IESpec { return IESpec{ID: id, Name: n, Mandatory: true, Criticality: c} }
func o(id int, n string, c int) IESpec { return IESpec{ID: id, Name: n, Mandatory: false, Criticality: c} }

// Sent lists the seven messages the emulator sends, with their complete IE tables.
var Sent = []MsgSpec{
	{"NGSetupRequest", ClassInitiating, ProcNGSetup, CritReject, []IESpec{
		m(IDGlobalRANNodeID, "GlobalRANNodeID", CritReject),
		o(IDRANNodeName, "RANNodeName", CritIgnore),
		m(IDSupportedTAList, "SupportedTAList", CritReject),
		m(IDDefaultPagingDRX, "DefaultPagingDRX", CritIgnore),
	}},
	{"InitialUEMessage", ClassInitiating, ProcInitialUEMessage, CritIgnore, []IESpec{
		m(IDRANUENGAPID, "RAN-UE-NGAP-ID", CritReject),
		m(IDNASPDU, "NAS-PDU", CritReject),
		m(IDUserLocationInformation, "UserLocationInformation", CritReject),
		m(IDRRCEstablishmentCause, "RRCEstablishmentCause", CritIgnore),
		o(IDFiveGSTMSI, "FiveG-S-TMSI", CritReject),
		o(IDAMFSetID, "AMFSetID", CritIgnore),
		o(IDUEContextRequest, "UEContextRequest", CritIgnore),
		o(IDAllowedNSSAI, "AllowedNSSAI", CritReject),
	}},
	{"UplinkNASTransport", ClassInitiating, ProcUplinkNASTransport, CritIgnore, []IESpec{
		m(IDAMFUENGAPID, "AMF-UE-NGAP-ID", CritReject),
		m(IDRANUENGAPID, "RAN-UE-NGAP-ID", CritReject),
		m(IDNASPDU, "NAS-PDU", CritReject),
		m(IDUserLocationInformation, "UserLocationInformation", CritIgnore),
	}},
	{"InitialContextSetupResponse", ClassSuccessful, ProcInitialContextSetup, CritReject, []IESpec{
		m(IDAMFUENGAPID, "AMF-UE-NGAP-ID", CritIgnore),
		m(IDRANUENGAPID, "RAN-UE-NGAP-ID", CritIgnore),
		o(IDPDUSessionResourceSetupListCxtRes, "PDUSessionResourceSetupListCxtRes", CritIgnore),
		o(IDPDUSessionResourceFailedToSetupListCxtRes, "PDUSessionResourceFailedToSetupListCxtRes", CritIgnore),
		o(IDCriticalityDiagnostics, "CriticalityDiagnostics", CritIgnore),
	}},
	{"PDUSessionResourceSetupResponse", ClassSuccessful, ProcPDUSessionResourceSetup, CritReject, []IESpec{
		m(IDAMFUENGAPID, "AMF-UE-NGAP-ID", CritIgnore),
		m(IDRANUENGAPID, "RAN-UE-NGAP-ID", CritIgnore),
		o(IDPDUSessionResourceSetupListSURes, "PDUSessionResourceSetupListSURes", CritIgnore),
		o(IDPDUSessionResourceFailedToSetupListSURes, "PDUSessionResourceFailedToSetupListSURes", CritIgnore),
		o(IDCriticalityDiagnostics, "CriticalityDiagnostics", CritIgnore),
	}},
	{"PDUSessionResourceReleaseResponse", ClassSuccessful, ProcPDUSessionResourceRelease, CritReject, []IESpec{
		m(IDAMFUENGAPID, "AMF-UE-NGAP-ID", CritIgnore),
		m(IDRANUENGAPID, "RAN-UE-NGAP-ID", CritIgnore),
		m(IDPDUSessionResourceReleasedListRelRes, "PDUSessionResourceReleasedListRelRes", CritIgnore),
		o(IDUserLocationInformation, "UserLocationInformation", CritIgnore),
		o(IDCriticalityDiagnostics, "CriticalityDiagnostics", CritIgnore),
	}},
	{"UEContextReleaseComplete", ClassSuccessful, ProcUEContextRelease, CritReject, []IESpec{
		m(IDAMFUENGAPID, "AMF-UE-NGAP-ID", CritIgnore),
		m(IDRANUENGAPID, "RAN-UE-NGAP-ID", CritIgnore),
		o(IDUserLocationInformation, "UserLocationInformation", CritIgnore),
		o(IDInfoOnRecommendedCellsAndRANNodesForPaging, "InfoOnRecommendedCellsAndRANNodesForPaging", CritIgnore),
		o(IDPDUSessionResourceListCxtRelCpl, "PDUSessionResourceListCxtRelCpl", CritReject),
		o(IDCriticalityDiagnostics, "CriticalityDiagnostics", CritIgnore),
	}},
}

// Lookup returns the table entry for (class, procedure code) among the messages the
// emulator sends, or nil.
func Lookup(class, proc int) *MsgSpec {
	for i := range Sent {
		if Sent[i].Class == class && Sent[i].ProcedureCode == proc {
			return &Sent[i]
		}
	}
	return nil
}

// Spec is Lookup for a parsed PDU.
func (p *PDU) Spec() *MsgSpec { return Lookup(p.Class, p.ProcedureCode) }

// Name of the message ("NGSetupRequest"), or "class/procedure" when it is not in Sent.
func (p *PDU) Name() string {
	if s := p.Spec(); s != nil {
		return s.Name
	}
	if n, ok := builderMessages[[2]int{p.Class, p.ProcedureCode}]; ok {
		return n
	}
	return fmt.Sprintf("%s/procedure%d", ClassName(p.Class), p.ProcedureCode)
}

// Finding is one deviation of a PDU from its table entry.
type Finding struct {
	Kind string // "missing", "duplicate", "unknown-ie", "criticality", "pdu-criticality", "order"
	ID   int
	Text string
}

// Check compares a PDU with its table entry: mandatory IEs present, no IE twice, no IE
// foreign to the message, assigned criticalities, table order. It returns nil for
// messages that are not in Sent.
func (p *PDU) Check() []Finding {
	s := p.Spec()
	if s == nil {
		return nil
	}
	var out []Finding
	if p.Criticality != s.Criticality {
		out = append(out, Finding{"pdu-criticality", -1, fmt.Sprintf("%s: procedure criticality %s, specified %s", s.Name, CritName(p.Criticality), CritName(s.Criticality))})
	}
	pos := map[int]int{}
	for i, e := range s.IEs {
		pos[e.ID] = i
	}
	seen := map[int]int{}
	last := -1
	for _, ie := range p.IEs {
		i, ok := pos[ie.ID]
		if !ok {
			out = append(out, Finding{"unknown-ie", ie.ID, fmt.Sprintf("%s: IE id %d is not part of the message", s.Name, ie.ID)})
			continue
		}
		seen[ie.ID]++
		if seen[ie.ID] == 2 {
			out = append(out, Finding{"duplicate", ie.ID, fmt.Sprintf("%s: IE %s appears more than once", s.Name, s.IEs[i].Name)})
		}
		if ie.Criticality != s.IEs[i].Criticality {
			out = append(out, Finding{"criticality", ie.ID, fmt.Sprintf("%s: IE %s sent with criticality %s, specified %s", s.Name, s.IEs[i].Name, CritName(ie.Criticality), CritName(s.IEs[i].Criticality))})
		}
		if i < last {
			out = append(out, Finding{"order", ie.ID, fmt.Sprintf("%s: IE %s out of table order", s.Name, s.IEs[i].Name)})
		}
		if i > last {
			last = i
		}
	}
	for _, e := range s.IEs {
		if e.Mandatory && seen[e.ID] == 0 {
			out = append(out, Finding{"missing", e.ID, fmt.Sprintf("%s: mandatory IE %s (id %d) missing", s.Name, e.Name, e.ID)})
		}
	}
	return out
}

// builderMessages: (class, procedure code) → message name for every message a gNB-side
// builder can produce (by procedure code and class only).
var builderMessages = map[[2]int]string{
	{ClassInitiating, ProcNGSetup}:                            "NGSetupRequest",
	{ClassInitiating, ProcNGReset}:                            "NGReset",
	{ClassSuccessful, ProcNGReset}:                            "NGResetAcknowledge",
	{ClassInitiating, ProcInitialUEMessage}:                   "InitialUEMessage",
	{ClassInitiating, ProcErrorIndication}:                    "ErrorIndication",
	{ClassInitiating, ProcUEContextReleaseRequest}:            "UEContextReleaseRequest",
	{ClassSuccessful, ProcUEContextRelease}:                   "UEContextReleaseComplete",
	{ClassSuccessful, ProcUEContextModification}:              "UEContextModificationResponse",
	{ClassUnsuccessful, ProcUEContextModification}:            "UEContextModificationFailure",
	{ClassInitiating, ProcUplinkNASTransport}:                 "UplinkNASTransport",
	{ClassSuccessful, ProcInitialContextSetup}:                "InitialContextSetupResponse",
	{ClassUnsuccessful, ProcInitialContextSetup}:              "InitialContextSetupFailure",
	{ClassInitiating, ProcPathSwitchRequest}:                  "PathSwitchRequest",
	{ClassSuccessful, ProcHandoverResourceAllocation}:         "HandoverRequestAcknowledge",
	{ClassUnsuccessful, ProcHandoverResourceAllocation}:       "HandoverFailure",
	{ClassSuccessful, ProcPDUSessionResourceRelease}:          "PDUSessionResourceReleaseResponse",
	{ClassUnsuccessful, ProcAMFConfigurationUpdate}:           "AMFConfigurationUpdateFailure",
	{ClassSuccessful, ProcAMFConfigurationUpdate}:             "AMFConfigurationUpdateAcknowledge",
	{ClassInitiating, ProcUERadioCapabilityCheck}:             "UERadioCapabilityCheckRequest",
	{ClassSuccessful, ProcUERadioCapabilityCheck}:             "UERadioCapabilityCheckResponse",
	{ClassInitiating, ProcHandoverCancel}:                     "HandoverCancel",
	{ClassInitiating, ProcLocationReportingFailureIndication}: "LocationReportingFailureIndication",
	{ClassSuccessful, ProcPDUSessionResourceSetup}:            "PDUSessionResourceSetupResponse",
	{ClassSuccessful, ProcPDUSessionResourceModify}:           "PDUSessionResourceModifyResponse",
	{ClassInitiating, ProcPDUSessionResourceNotify}:           "PDUSessionResourceNotify",
	{ClassInitiating, ProcPDUSessionResourceModifyIndication}: "PDUSessionResourceModifyIndication",
	{ClassInitiating, ProcRRCInactiveTransitionReport}:        "RRCInactiveTransitionReport",
	{ClassInitiating, ProcHandoverNotification}:               "HandoverNotify",
	{ClassInitiating, ProcUplinkRANStatusTransfer}:            "UplinkRANStatusTransfer",
	{ClassInitiating, ProcNASNonDeliveryIndication}:           "NASNonDeliveryIndication",
	{ClassInitiating, ProcRANConfigurationUpdate}:             "RANConfigurationUpdate",
	{ClassSuccessful, ProcRANConfigurationUpdate}:             "RANConfigurationUpdateAcknowledge",
	{ClassUnsuccessful, ProcRANConfigurationUpdate}:           "RANConfigurationUpdateFailure",
	{ClassInitiating, ProcUplinkRANConfigurationTransfer}:     "UplinkRANConfigurationTransfer",
	{ClassInitiating, ProcUplinkUEAssociatedNRPPaTransport}:   "UplinkUEAssociatedNRPPaTransport",
	{ClassInitiating, ProcUplinkNonUEAssociatedNRPPaTransport}: "UplinkNonUEAssociatedNRPPaTransport",
	{ClassInitiating, ProcLocationReport}:                     "LocationReport",
	{ClassInitiating, ProcUERadioCapabilityInfoIndication}:    "UERadioCapabilityInfoIndication",
	{ClassInitiating, ProcAMFConfigurationUpdate}:             "AMFConfigurationUpdate",
	{ClassInitiating, ProcHandoverPreparation}:                "HandoverRequired",
	{ClassInitiating, ProcCellTrafficTrace}:                   "CellTrafficTrace",
	{ClassSuccessful, ProcNGSetup}:                            "NGSetupResponse",
	{ClassSuccessful, ProcPDUSessionResourceModifyIndication}: "PDUSessionResourceModifyConfirm",
	{ClassInitiating, ProcPDUSessionResourceRelease}:          "PDUSessionResourceReleaseCommand",
	{ClassInitiating, ProcOverloadStart}:                      "OverloadStart",
	{ClassInitiating, ProcOverloadStop}:                       "OverloadStop",
	{ClassInitiating, ProcAMFStatusIndication}:                "AMFStatusIndication",
	{ClassInitiating, ProcUETNLABindingRelease}:               "UETNLABindingReleaseRequest",
	{ClassInitiating, ProcDownlinkNASTransport}:               "DownlinkNASTransport",
	{ClassInitiating, ProcInitialContextSetup}:                "InitialContextSetupRequest",
	{ClassInitiating, ProcPDUSessionResourceSetup}:            "PDUSessionResourceSetupRequest",
	{ClassInitiating, ProcUEContextRelease}:                   "UEContextReleaseCommand",
}

// MessageName maps (class, procedure code) to the message name, "" if unknown.
func MessageName(class, proc int) string { return builderMessages[[2]int{class, proc}] }

// ----------------------------------------------------------------------------------
// typed decoders. Each takes the content of an IE's open type (or of a transfer OCTET
// STRING) and requires it to be consumed completely.

func fin(r *R, err error) error {
	if err != nil {
		return err
	}
	return r.End()
}

// AMF-UE-NGAP-ID ::= INTEGER (0..1099511627775)
func DecodeAMFUENGAPID(v []byte) (uint64, error) {
	r := NewR(v)
	x, err := r.Constrained(0, 1099511627775)
	return uint64(x), fin(r, err)
}

// RAN-UE-NGAP-ID ::= INTEGER (0..4294967295)
func DecodeRANUENGAPID(v []byte) (uint64, error) {
	r := NewR(v)
	x, err := r.Constrained(0, 4294967295)
	return uint64(x), fin(r, err)
}

// NAS-PDU ::= OCTET STRING
func DecodeNASPDU(v []byte) ([]byte, error) {
	r := NewR(v)
	b, err := r.OctetStringUnbounded()
	return b, fin(r, err)
}

// PLMN is the 3-octet PLMNIdentity (TS 38.413 9.3.3.5, coding of TS 24.008/24.501).
type PLMN [3]byte

// Digits returns MCC and MNC digit strings (MNC of 2 digits when digit 3 is the filler 0xF).
func (p PLMN) Digits() (mcc, mnc string) {
	d := func(n byte) string {
		if n <= 9 {
			return string('0' + n)
		}
		return fmt.Sprintf("<%X>", n)
	}
	mcc = d(p[0]&0xf) + d(p[0]>>4) + d(p[1]&0xf)
	mnc = d(p[2]&0xf) + d(p[2]>>4)
	if p[1]>>4 != 0xf {
		mnc += d(p[1] >> 4)
	}
	return
}
func (p PLMN) String() string { a, b := p.Digits(); return a + "/" + b }

// EncodePLMN builds the 3 octets from digit strings (mnc of 2 or 3 digits).
func EncodePLMN(mcc, mnc string) (PLMN, error) {
	if len(mcc) != 3 || (len(mnc) != 2 && len(mnc) != 3) {
		return PLMN{}, fmt.Errorf("iewalk: mcc %q mnc %q", mcc, mnc)
	}
	for _, c := range mcc + mnc {
		if c < '0' || c > '9' {
			return PLMN{}, fmt.Errorf("iewalk: mcc %q mnc %q", mcc, mnc)
		}
	}
	n := func(c byte) byte { return c - '0' }
	var p PLMN
	p[0] = n(mcc[1])<<4 | n(mcc[0])
	if len(mnc) == 3 {
		p[1] = n(mnc[2])<<4 | n(mcc[2])
	} else {
		p[1] = 0xf0 | n(mcc[2])
	}
	p[2] = n(mnc[1])<<4 | n(mnc[0])
	return p, nil
}

func readPLMN(r *R) (p PLMN, err error) {
	b, err := r.OctetString(3, 3)
	if err != nil {
		return p, err
	}
	copy(p[:], b)
	return p, nil
}

// ULINR is UserLocationInformationNR.
type ULINR struct {
	NRCGIPLMN    PLMN
	NRCellID     []byte // 36 bits, left-justified in 5 octets
	TAIPLMN      PLMN
	TAC          [3]byte
	HasTimeStamp bool
	TimeStamp    [4]byte
}

// ULI is UserLocationInformation; only the NR alternative is decoded in depth.
type ULI struct {
	Kind int // 0 EUTRA, 1 NR, 2 N3IWF
	NR   *ULINR
}

// UserLocationInformation ::= CHOICE {eUTRA, nR, n3IWF, choice-Extensions}
// UserLocationInformationNR ::= SEQUENCE {nR-CGI, tAI, timeStamp OPTIONAL, iE-Extensions OPTIONAL, ...}
// NR-CGI ::= SEQUENCE {pLMNIdentity, nRCellIdentity BIT STRING(SIZE(36)), iE-Extensions OPTIONAL, ...}
// TAI ::= SEQUENCE {pLMNIdentity, tAC OCTET STRING(SIZE(3)), iE-Extensions OPTIONAL, ...}
func DecodeUserLocationInformation(v []byte) (*ULI, error) {
	r := NewR(v)
	k, err := r.Choice(4, false)
	if err != nil {
		return nil, err
	}
	u := &ULI{Kind: k}
	if k != 1 {
		return u, nil // other alternatives are not decoded (never sent by the emulator)
	}
	opt, err := r.SeqPreamble(true, 2)
	if err != nil {
		return nil, err
	}
	if opt[1] {
		return nil, fmt.Errorf("iewalk: UserLocationInformationNR.iE-Extensions present (no extension is defined)")
	}
	nr := &ULINR{}
	o1, err := r.SeqPreamble(true, 1)
	if err != nil {
		return nil, err
	}
	if o1[0] {
		return nil, fmt.Errorf("iewalk: NR-CGI.iE-Extensions present")
	}
	if nr.NRCGIPLMN, err = readPLMN(r); err != nil {
		return nil, err
	}
	if nr.NRCellID, err = r.BitStringFixed(36); err != nil {
		return nil, err
	}
	o2, err := r.SeqPreamble(true, 1)
	if err != nil {
		return nil, err
	}
	if o2[0] {
		return nil, fmt.Errorf("iewalk: TAI.iE-Extensions present")
	}
	if nr.TAIPLMN, err = readPLMN(r); err != nil {
		return nil, err
	}
	tac, err := r.OctetString(3, 3)
	if err != nil {
		return nil, err
	}
	copy(nr.TAC[:], tac)
	if opt[0] {
		ts, err := r.OctetString(4, 4)
		if err != nil {
			return nil, err
		}
		nr.HasTimeStamp = true
		copy(nr.TimeStamp[:], ts)
	}
	u.NR = nr
	return u, r.End()
}

// RRCEstablishmentCause ::= ENUMERATED {emergency, highPriorityAccess, mt-Access,
// mo-Signalling, mo-Data, mo-VoiceCall, mo-VideoCall, mo-SMS, mps-PriorityAccess,
// mcs-PriorityAccess, ..., notAvailable}
func DecodeRRCEstablishmentCause(v []byte) (val int, extended bool, err error) {
	r := NewR(v)
	val, extended, err = r.Enumerated(9, true)
	return val, extended, fin(r, err)
}

// UEContextRequest ::= ENUMERATED {requested, ...}
func DecodeUEContextRequest(v []byte) (int, error) {
	r := NewR(v)
	val, _, err := r.Enumerated(0, true)
	return val, fin(r, err)
}

// PagingDRX ::= ENUMERATED {v32, v64, v128, v256, ...}
func DecodePagingDRX(v []byte) (int, error) {
	r := NewR(v)
	val, _, err := r.Enumerated(3, true)
	return val, fin(r, err)
}

// FiveGSTMSI ::= SEQUENCE {aMFSetID BIT STRING(SIZE(10)), aMFPointer BIT STRING(SIZE(6)),
// fiveG-TMSI OCTET STRING(SIZE(4)), iE-Extensions OPTIONAL, ...}
type FiveGSTMSI struct {
	AMFSetID   uint16
	AMFPointer uint8
	TMSI       [4]byte
}

func DecodeFiveGSTMSI(v []byte) (*FiveGSTMSI, error) {
	r := NewR(v)
	opt, err := r.SeqPreamble(true, 1)
	if err != nil {
		return nil, err
	}
	if opt[0] {
		return nil, fmt.Errorf("iewalk: FiveG-S-TMSI.iE-Extensions present")
	}
	s, err := r.Bits(10)
	if err != nil {
		return nil, err
	}
	p, err := r.Bits(6)
	if err != nil {
		return nil, err
	}
	t, err := r.OctetString(4, 4)
	if err != nil {
		return nil, err
	}
	out := &FiveGSTMSI{AMFSetID: uint16(s), AMFPointer: uint8(p)}
	copy(out.TMSI[:], t)
	return out, r.End()
}

// GlobalGNBID is the globalGNB-ID alternative of GlobalRANNodeID.
type GlobalGNBID struct {
	Kind   int // alternative of GlobalRANNodeID: 0 gNB, 1 ng-eNB, 2 N3IWF
	PLMN   PLMN
	GNBID  []byte // BitLen bits, left-justified
	BitLen int
}

// GlobalRANNodeID ::= CHOICE {globalGNB-ID, globalNgENB-ID, globalN3IWF-ID, choice-Extensions}
// GlobalGNB-ID ::= SEQUENCE {pLMNIdentity, gNB-ID GNB-ID, iE-Extensions OPTIONAL, ...}
// GNB-ID ::= CHOICE {gNB-ID BIT STRING (SIZE(22..32)), choice-Extensions}
func DecodeGlobalRANNodeID(v []byte) (*GlobalGNBID, error) {
	r := NewR(v)
	k, err := r.Choice(4, false)
	if err != nil {
		return nil, err
	}
	g := &GlobalGNBID{Kind: k}
	if k != 0 {
		return g, nil
	}
	opt, err := r.SeqPreamble(true, 1)
	if err != nil {
		return nil, err
	}
	if opt[0] {
		return nil, fmt.Errorf("iewalk: GlobalGNB-ID.iE-Extensions present")
	}
	if g.PLMN, err = readPLMN(r); err != nil {
		return nil, err
	}
	c, err := r.Choice(2, false)
	if err != nil {
		return nil, err
	}
	if c != 0 {
		return nil, fmt.Errorf("iewalk: GNB-ID choice-Extensions")
	}
	g.GNBID, g.BitLen, err = r.BitStringRange(22, 32, false)
	return g, fin(r, err)
}

// RANNodeName ::= PrintableString (SIZE(1..150, ...))
func DecodeRANNodeName(v []byte) (string, error) {
	r := NewR(v)
	e, err := r.Bit()
	if err != nil {
		return "", err
	}
	if e == 1 {
		return "", fmt.Errorf("iewalk: RANNodeName size extension not supported")
	}
	n, err := r.Constrained(1, 150)
	if err != nil {
		return "", err
	}
	b, err := r.Octets(int(n)) // ub*8 > 16: aligned, 8 bits per character
	return string(b), fin(r, err)
}

// SNSSAI ::= SEQUENCE {sST OCTET STRING(SIZE(1)), sD OCTET STRING(SIZE(3)) OPTIONAL, iE-Extensions OPTIONAL, ...}
type SNSSAI struct {
	SST   byte
	HasSD bool
	SD    [3]byte
}

func readSNSSAI(r *R) (s SNSSAI, err error) {
	opt, err := r.SeqPreamble(true, 2)
	if err != nil {
		return s, err
	}
	if opt[1] {
		return s, fmt.Errorf("iewalk: S-NSSAI.iE-Extensions present")
	}
	b, err := r.OctetString(1, 1)
	if err != nil {
		return s, err
	}
	s.SST = b[0]
	if opt[0] {
		sd, err := r.OctetString(3, 3)
		if err != nil {
			return s, err
		}
		s.HasSD = true
		copy(s.SD[:], sd)
	}
	return s, nil
}

type BroadcastPLMN struct {
	PLMN   PLMN
	Slices []SNSSAI
}
type SupportedTA struct {
	TAC   [3]byte
	PLMNs []BroadcastPLMN
}

// SupportedTAList ::= SEQUENCE (SIZE(1..256)) OF SupportedTAItem
// SupportedTAItem ::= SEQUENCE {tAC, broadcastPLMNList, iE-Extensions OPTIONAL, ...}
// BroadcastPLMNList ::= SEQUENCE (SIZE(1..12)) OF BroadcastPLMNItem
// BroadcastPLMNItem ::= SEQUENCE {pLMNIdentity, tAISliceSupportList, iE-Extensions OPTIONAL, ...}
// SliceSupportList ::= SEQUENCE (SIZE(1..1024)) OF SliceSupportItem {s-NSSAI, iE-Extensions OPTIONAL, ...}
func DecodeSupportedTAList(v []byte) ([]SupportedTA, error) {
	r := NewR(v)
	n, err := r.Constrained(1, 256)
	if err != nil {
		return nil, err
	}
	var out []SupportedTA
	for i := 0; i < int(n); i++ {
		opt, err := r.SeqPreamble(true, 1)
		if err != nil {
			return nil, err
		}
		if opt[0] {
			return nil, fmt.Errorf("iewalk: SupportedTAItem.iE-Extensions present")
		}
		var ta SupportedTA
		tac, err := r.OctetString(3, 3)
		if err != nil {
			return nil, err
		}
		copy(ta.TAC[:], tac)
		np, err := r.Constrained(1, 12)
		if err != nil {
			return nil, err
		}
		for j := 0; j < int(np); j++ {
			o1, err := r.SeqPreamble(true, 1)
			if err != nil {
				return nil, err
			}
			if o1[0] {
				return nil, fmt.Errorf("iewalk: BroadcastPLMNItem.iE-Extensions present")
			}
			var bp BroadcastPLMN
			if bp.PLMN, err = readPLMN(r); err != nil {
				return nil, err
			}
			ns, err := r.Constrained(1, 1024)
			if err != nil {
				return nil, err
			}
			for k := 0; k < int(ns); k++ {
				o2, err := r.SeqPreamble(true, 1)
				if err != nil {
					return nil, err
				}
				if o2[0] {
					return nil, fmt.Errorf("iewalk: SliceSupportItem.iE-Extensions present")
				}
				s, err := readSNSSAI(r)
				if err != nil {
					return nil, err
				}
				bp.Slices = append(bp.Slices, s)
			}
			ta.PLMNs = append(ta.PLMNs, bp)
		}
		out = append(out, ta)
	}
	return out, r.End()
}

// SessionItem is one element of the PDU session resource lists a gNB sends:
// {pDUSessionID INTEGER(0..255), <transfer> OCTET STRING, iE-Extensions OPTIONAL, ...}.
type SessionItem struct {
	PDUSessionID int
	Transfer     []byte // nil for PDUSessionResourceItemCxtRelCpl
}

func decodeSessionList(v []byte, withTransfer bool) ([]SessionItem, error) {
	r := NewR(v)
	n, err := r.Constrained(1, 256)
	if err != nil {
		return nil, err
	}
	var out []SessionItem
	for i := 0; i < int(n); i++ {
		opt, err := r.SeqPreamble(true, 1)
		if err != nil {
			return nil, err
		}
		if opt[0] {
			return nil, fmt.Errorf("iewalk: session list item iE-Extensions present")
		}
		id, err := r.Constrained(0, 255)
		if err != nil {
			return nil, err
		}
		it := SessionItem{PDUSessionID: int(id)}
		if withTransfer {
			if it.Transfer, err = r.OctetStringUnbounded(); err != nil {
				return nil, err
			}
			if it.Transfer == nil {
				it.Transfer = []byte{}
			}
		}
		out = append(out, it)
	}
	return out, r.End()
}

// PDUSessionResourceSetupListSURes / …CxtRes (items carry a PDUSessionResourceSetupResponseTransfer)
func DecodePDUSessionResourceSetupListSURes(v []byte) ([]SessionItem, error) {
	return decodeSessionList(v, true)
}
func DecodePDUSessionResourceSetupListCxtRes(v []byte) ([]SessionItem, error) {
	return decodeSessionList(v, true)
}

// PDUSessionResourceFailedToSetupListSURes / …CxtRes (items carry a …SetupUnsuccessfulTransfer)
func DecodePDUSessionResourceFailedToSetupListSURes(v []byte) ([]SessionItem, error) {
	return decodeSessionList(v, true)
}
func DecodePDUSessionResourceFailedToSetupListCxtRes(v []byte) ([]SessionItem, error) {
	return decodeSessionList(v, true)
}

// PDUSessionResourceReleasedListRelRes (items carry a PDUSessionResourceReleaseResponseTransfer)
func DecodePDUSessionResourceReleasedListRelRes(v []byte) ([]SessionItem, error) {
	return decodeSessionList(v, true)
}

// PDUSessionResourceListCxtRelCpl (items carry only the identity)
func DecodePDUSessionResourceListCxtRelCpl(v []byte) ([]SessionItem, error) {
	return decodeSessionList(v, false)
}

// GTPTunnel ::= SEQUENCE {transportLayerAddress BIT STRING(SIZE(1..160, ...)),
// gTP-TEID OCTET STRING(SIZE(4)), iE-Extensions OPTIONAL, ...}
type GTPTunnel struct {
	Address    []byte // AddressBits bits, left-justified
	AddressLen int    // in bits: 32 IPv4, 128 IPv6, 160 both
	TEID       [4]byte
}

type AssociatedQosFlow struct {
	QFI               int
	HasMappingInd     bool
	MappingIndication int
}

// SetupResponseTransfer is PDUSessionResourceSetupResponseTransfer as far as the gNB side fills it.
type SetupResponseTransfer struct {
	Tunnel                    GTPTunnel
	Flows                     []AssociatedQosFlow
	HasAdditionalTNL          bool
	HasSecurityResult         bool
	HasQosFlowFailedToSetup   bool
	UndecodedOptionalsPresent bool
}

func readUPTransportLayerInformation(r *R) (t GTPTunnel, err error) {
	// UPTransportLayerInformation ::= CHOICE {gTPTunnel, choice-Extensions}
	c, err := r.Choice(2, false)
	if err != nil {
		return t, err
	}
	if c != 0 {
		return t, fmt.Errorf("iewalk: UPTransportLayerInformation choice-Extensions")
	}
	opt, err := r.SeqPreamble(true, 1)
	if err != nil {
		return t, err
	}
	if opt[0] {
		return t, fmt.Errorf("iewalk: GTPTunnel.iE-Extensions present")
	}
	t.Address, t.AddressLen, err = r.BitStringRange(1, 160, true)
	if err != nil {
		return t, err
	}
	teid, err := r.OctetString(4, 4)
	if err != nil {
		return t, err
	}
	copy(t.TEID[:], teid)
	return t, nil
}

// PDUSessionResourceSetupResponseTransfer ::= SEQUENCE {qosFlowPerTNLInformation,
// additionalQosFlowPerTNLInformation OPTIONAL, securityResult OPTIONAL,
// qosFlowFailedToSetupList OPTIONAL, iE-Extensions OPTIONAL, ...}
// QosFlowPerTNLInformation ::= SEQUENCE {uPTransportLayerInformation, associatedQosFlowList, iE-Extensions OPTIONAL, ...}
// AssociatedQosFlowList ::= SEQUENCE (SIZE(1..64)) OF AssociatedQosFlowItem {qosFlowIdentifier
// INTEGER(0..63, ...), qosFlowMappingIndication ENUMERATED{ul, dl, ...} OPTIONAL, iE-Extensions OPTIONAL, ...}
// Only the first (mandatory) component is decoded; when later optional components are
// present the remainder is left unread and flagged.
func DecodePDUSessionResourceSetupResponseTransfer(v []byte) (*SetupResponseTransfer, error) {
	r := NewR(v)
	opt, err := r.SeqPreamble(true, 4)
	if err != nil {
		return nil, err
	}
	t := &SetupResponseTransfer{HasAdditionalTNL: opt[0], HasSecurityResult: opt[1], HasQosFlowFailedToSetup: opt[2]}
	if opt[3] {
		return nil, fmt.Errorf("iewalk: PDUSessionResourceSetupResponseTransfer.iE-Extensions present")
	}
	o1, err := r.SeqPreamble(true, 1)
	if err != nil {
		return nil, err
	}
	if o1[0] {
		return nil, fmt.Errorf("iewalk: QosFlowPerTNLInformation.iE-Extensions present")
	}
	if t.Tunnel, err = readUPTransportLayerInformation(r); err != nil {
		return nil, err
	}
	n, err := r.Constrained(1, 64)
	if err != nil {
		return nil, err
	}
	for i := 0; i < int(n); i++ {
		o2, err := r.SeqPreamble(true, 2)
		if err != nil {
			return nil, err
		}
		if o2[1] {
			return nil, fmt.Errorf("iewalk: AssociatedQosFlowItem.iE-Extensions present")
		}
		e, err := r.Bit() // QosFlowIdentifier ::= INTEGER (0..63, ...)
		if err != nil {
			return nil, err
		}
		if e == 1 {
			return nil, fmt.Errorf("iewalk: QosFlowIdentifier outside the root not supported")
		}
		q, err := r.Constrained(0, 63)
		if err != nil {
			return nil, err
		}
		f := AssociatedQosFlow{QFI: int(q)}
		if o2[0] {
			mi, _, err := r.Enumerated(1, true)
			if err != nil {
				return nil, err
			}
			f.HasMappingInd, f.MappingIndication = true, mi
		}
		t.Flows = append(t.Flows, f)
	}
	if opt[0] || opt[1] || opt[2] {
		t.UndecodedOptionalsPresent = true
		return t, nil
	}
	return t, r.End()
}

// Cause ::= CHOICE {radioNetwork, transport, nas, protocol, misc, choice-Extensions}; each
// alternative an extensible ENUMERATED with 45 / 2 / 4 / 7 / 6 root values.
type Cause struct {
	Group    int // 0 radioNetwork, 1 transport, 2 nas, 3 protocol, 4 misc
	Value    int
	Extended bool
}

var causeRootMax = []int{44, 1, 3, 6, 5}

func readCause(r *R) (c Cause, err error) {
	g, err := r.Choice(6, false)
	if err != nil {
		return c, err
	}
	if g == 5 {
		return c, fmt.Errorf("iewalk: Cause choice-Extensions")
	}
	c.Group = g
	c.Value, c.Extended, err = r.Enumerated(causeRootMax[g], true)
	return c, err
}

func DecodeCause(v []byte) (Cause, error) {
	r := NewR(v)
	c, err := readCause(r)
	return c, fin(r, err)
}

var causeGroups = []string{"radioNetwork", "transport", "nas", "protocol", "misc"}

func (c Cause) String() string {
	return fmt.Sprintf("%s:%d", causeGroups[c.Group], c.Value)
}
