package ev

import (
	"fmt"
	"runtime"
	"strings"
)

// PanicSite returns "pkg.Func" of the innermost frame that belongs to the code under
// test (free5gclib, tglib, stgutg), to be called from a deferred function after recover().
// Line numbers are deliberately left out so that unrelated edits do not change the key.
func PanicSite(skip int) string {
	pcs := make([]uintptr, 64)
	n := runtime.Callers(skip, pcs)
	frames := runtime.CallersFrames(pcs[:n])
	first := ""
	for {
		f, more := frames.Next()
		fn := f.Function
		if strings.HasPrefix(fn, "free5gclib/") || strings.HasPrefix(fn, "tglib") || strings.HasPrefix(fn, "stgutg") {
			return fn
		}
		if first == "" && !strings.HasPrefix(fn, "runtime.") && fn != "" {
			first = fn
		}
		if !more {
			break
		}
	}
	return first
}

// Guard runs f and converts a panic into an error carrying the panic site.
func Guard(f func() error) (err error, site string) {
	defer func() {
		if e := recover(); e != nil {
			site = PanicSite(3)
			err = fmt.Errorf("panic at %s: %v", site, e)
		}
	}()
	return f(), ""
}
