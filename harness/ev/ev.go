// Package ev is the counting / evidence / failure-file plumbing shared by all property
// tests. A property test creates one *Rec, runs its cases through Run (rapid-driven) or
// calls Case/Fail itself (enumerations, child-process conversations), and Flush()es at
// the end. The driver (/verif/check) merges the per-shard files into the evidence file.
package ev

import (
	"encoding/binary"
	"encoding/json"
	"fmt"
	"hash/fnv"
	"os"
	"path/filepath"
	"runtime"
	"sort"
	"strconv"
	"strings"
	"sync"
	"sync/atomic"
	"testing"
	"time"

	"pgregory.net/rapid"
)

// Verdict is what an oracle says about one case.
type Verdict struct {
	NT      bool     // non-trivial by the property's stated rule
	Hash    uint64   // canonical hash of the case (0 = hash of its JSON form)
	Classes []string // labels for the class histogram
	Err     error    // nil = property held on this case
	Key     string   // root-cause signature of the failure (matched against KNOWN_FINDINGS.json)
	Skip    bool     // case is outside the property's domain (counted, asserted nothing)
}

type knownEntry struct {
	Property string `json:"property"`
	Status   string `json:"status"` // "known" | "fixed"
	Key      string `json:"key"`
	What     string `json:"what"`
	Commit   string `json:"commit,omitempty"`
}

type Rec struct {
	mu       sync.Mutex
	Prop     string
	Test     string
	shard    string
	out      string
	evals    int64
	skipped  int64
	nt       map[uint64]struct{}
	classes  map[string]int64
	samples  []json.RawMessage
	seenS    int64
	known    map[string]bool  // key -> listed as known
	knownHit map[string]int64 // key -> hits this run
	notes    []string
	fails    int
	extra    map[string]interface{}
	// ReplayAs: test name written into failure files (a fuzz target's crashers are replayed
	// through the corresponding rapid test's oracle)
	ReplayAs string
}

func envOr(k, d string) string {
	if v := os.Getenv(k); v != "" {
		return v
	}
	return d
}

// Tier returns "quick" or "thorough".
func Tier() string { return envOr("VERIF_TIER", "quick") }

// N picks a case count by tier; VERIF_SCALE (float) scales both.
func N(quick, thorough int) int {
	n := quick
	if Tier() == "thorough" {
		n = thorough
	}
	if s, err := strconv.ParseFloat(os.Getenv("VERIF_SCALE"), 64); err == nil && s > 0 {
		n = int(float64(n) * s)
		if n < 1 {
			n = 1
		}
	}
	// sharded runs divide the work
	if ns := NShards(); ns > 1 {
		n = (n + ns - 1) / ns
	}
	return n
}

func Shard() int   { v, _ := strconv.Atoi(envOr("VERIF_SHARD", "0")); return v }
func NShards() int { v, _ := strconv.Atoi(envOr("VERIF_NSHARDS", "1")); return max(v, 1) }

// Seed is the per-shard seed the driver derived from VERIF_SEED (never 0).
func Seed() uint64 {
	v, _ := strconv.ParseUint(envOr("VERIF_SHARD_SEED", "1"), 10, 64)
	if v == 0 {
		v = 1
	}
	return v
}

// BaseSeed is VERIF_SEED itself (the same in every shard of a run).
func BaseSeed() uint64 {
	v, _ := strconv.ParseUint(envOr("VERIF_SEED", "1"), 10, 64)
	return v
}

func BinDir() string  { return envOr("VERIF_BIN", ".") }
func WorkDir() string { return envOr("VERIF_WORK", os.TempDir()) }
func Replay() string  { return os.Getenv("VERIF_REPLAY") }

func New(t testing.TB, prop, test string) *Rec {
	r := &Rec{Prop: prop, Test: test, shard: envOr("VERIF_SHARD", "0"), out: os.Getenv("VERIF_OUT"),
		nt: map[uint64]struct{}{}, classes: map[string]int64{}, known: map[string]bool{}, knownHit: map[string]int64{},
		extra: map[string]interface{}{}}
	if p := os.Getenv("VERIF_KNOWN"); p != "" {
		if b, err := os.ReadFile(p); err == nil {
			var f struct {
				Findings []knownEntry `json:"findings"`
			}
			if err := json.Unmarshal(b, &f); err != nil {
				t.Fatalf("KNOWN_FINDINGS.json unreadable: %v", err)
			}
			for _, e := range f.Findings {
				if e.Property == prop && e.Status == "known" {
					r.known[e.Key] = true
				}
			}
		}
	}
	return r
}

func HashJSON(v interface{}) uint64 {
	b, _ := json.Marshal(v)
	return HashBytes(b)
}
func HashBytes(b []byte) uint64 {
	h := fnv.New64a()
	h.Write(b)
	x := h.Sum64()
	if x == 0 {
		x = 1
	}
	return x
}

// IsKnown reports whether a failure key is listed as a known finding for this property.
func (r *Rec) IsKnown(key string) bool { return key != "" && r.known[key] }

// Case counts one evaluated case.
func (r *Rec) Case(c interface{}, v Verdict) {
	r.mu.Lock()
	defer r.mu.Unlock()
	r.evals++
	if v.Skip {
		r.skipped++
	}
	for _, cl := range v.Classes {
		r.classes[cl]++
	}
	if v.NT && !v.Skip {
		h := v.Hash
		if h == 0 {
			h = HashJSON(c)
		}
		r.nt[h] = struct{}{}
	}
	// reservoir-free sampling: first 3, then cases 10, 100, 1000, ... and non-trivial ones first
	r.seenS++
	if c != nil && (len(r.samples) < 3 || (v.NT && len(r.samples) < 8 && isPow10(r.seenS))) {
		if b, err := json.Marshal(c); err == nil {
			if len(b) > 3000 && r.seenS < 200 {
				return // prefer a smaller case as a sample while the run is young
			}
			if len(b) > 3000 {
				b, _ = json.Marshal(map[string]interface{}{"truncated_json_prefix": string(b[:3000]), "json_len": len(b)})
			}
			r.samples = append(r.samples, b)
		}
	}
}

func isPow10(n int64) bool {
	for n >= 10 && n%10 == 0 {
		n /= 10
	}
	return n == 1
}

func (r *Rec) Note(format string, a ...interface{}) {
	r.mu.Lock()
	r.notes = append(r.notes, fmt.Sprintf(format, a...))
	r.mu.Unlock()
}
func (r *Rec) Class(cl string, n int64) { r.mu.Lock(); r.classes[cl] += n; r.mu.Unlock() }
func (r *Rec) Extra(k string, v interface{}) {
	r.mu.Lock()
	r.extra[k] = v
	r.mu.Unlock()
}
func (r *Rec) KnownHit(key string) { r.mu.Lock(); r.knownHit[key]++; r.mu.Unlock() }

// Fail writes the failing case (the last one written is the minimal one after shrinking).
func (r *Rec) Fail(c interface{}, v Verdict) {
	r.mu.Lock()
	defer r.mu.Unlock()
	r.fails++
	if r.out == "" {
		return
	}
	tn := r.Test
	if r.ReplayAs != "" {
		tn = r.ReplayAs
	}
	doc := map[string]interface{}{"property": r.Prop, "test": tn, "key": v.Key, "error": fmt.Sprint(v.Err), "case": c}
	b, _ := json.MarshalIndent(doc, "", " ")
	_ = os.WriteFile(filepath.Join(r.out, fmt.Sprintf("fail-%s-%s.json", r.Test, r.shard)), b, 0644)
}

// Flush writes this shard's counters.
func (r *Rec) Flush() {
	r.mu.Lock()
	defer r.mu.Unlock()
	if r.out == "" {
		return
	}
	hs := make([]uint64, 0, len(r.nt))
	for h := range r.nt {
		hs = append(hs, h)
	}
	sort.Slice(hs, func(i, j int) bool { return hs[i] < hs[j] })
	hb := make([]byte, 8*len(hs))
	for i, h := range hs {
		binary.LittleEndian.PutUint64(hb[8*i:], h)
	}
	base := filepath.Join(r.out, fmt.Sprintf("part-%s-%s", r.Test, r.shard))
	_ = os.WriteFile(base+".nt", hb, 0644)
	doc := map[string]interface{}{"property": r.Prop, "test": r.Test, "shard": r.shard, "evaluations": r.evals, "skipped": r.skipped,
		"nontrivial": len(hs), "classes": r.classes, "samples": r.samples, "known_hits": r.knownHit, "notes": r.notes,
		"fails": r.fails, "extra": r.extra}
	b, _ := json.Marshal(doc)
	_ = os.WriteFile(base+".json", b, 0644)
}

// Run drives gen/oracle with rapid (case count and seed come from -rapid.checks/-rapid.seed
// set by the driver), or replays one saved case when VERIF_REPLAY is set.
func Run[C any](t *testing.T, r *Rec, gen func(*rapid.T) C, oracle func(C) Verdict) {
	defer r.Flush()
	if p := Replay(); p != "" {
		var doc struct {
			Test string          `json:"test"`
			Case json.RawMessage `json:"case"`
		}
		b, err := os.ReadFile(p)
		if err != nil {
			t.Fatalf("replay: %v", err)
		}
		if err := json.Unmarshal(b, &doc); err != nil {
			t.Fatalf("replay: %v", err)
		}
		if doc.Test != "" && doc.Test != r.Test {
			t.Skipf("replay file is for %s", doc.Test)
		}
		var c C
		if err := json.Unmarshal(doc.Case, &c); err != nil {
			t.Fatalf("replay: case does not parse: %v", err)
		}
		v := SafeOracle(oracle, c)
		r.Case(c, v)
		if v.Err != nil {
			if r.IsKnown(v.Key) {
				r.KnownHit(v.Key)
				t.Logf("replay reproduces KNOWN finding %s: %v", v.Key, v.Err)
				return
			}
			r.Fail(c, v)
			t.Fatalf("replay reproduces: [%s] %v", v.Key, v.Err)
		}
		t.Logf("replay: property holds on this case")
		return
	}
	rapid.Check(t, func(rt *rapid.T) {
		c := safeGen(r, rt, gen)
		r.trace(c)
		v := SafeOracle(oracle, c)
		r.Case(c, v)
		if v.Err != nil {
			if r.IsKnown(v.Key) {
				r.KnownHit(v.Key)
				return
			}
			r.Fail(c, v)
			rt.Fatalf("[%s] %v", v.Key, v.Err)
		}
	})
}

// Each is Run for enumerated (non-rapid) cases: call it per case; returns false after the
// first unknown failure so that enumerations stop early.
func (r *Rec) Each(t *testing.T, c interface{}, v Verdict) bool {
	r.Case(c, v)
	if v.Err != nil {
		if r.IsKnown(v.Key) {
			r.KnownHit(v.Key)
			return true
		}
		r.Fail(c, v)
		t.Errorf("[%s] %v", v.Key, v.Err)
		return false
	}
	return true
}

// SafeOracle turns a panic inside the oracle (i.e. inside the code under test) into a
// failing verdict keyed by the panic message.
func SafeOracle[C any](oracle func(C) Verdict, c C) (v Verdict) {
	defer func() {
		if e := recover(); e != nil {
			v = Verdict{Err: fmt.Errorf("panic: %v", e), Key: "panic:" + PanicSite(3)}
		}
	}()
	return oracle(c)
}

// trace (VERIF_TRACE=1, used by the driver when a shard died without naming a case)
// records the case about to be evaluated.
func (r *Rec) trace(c interface{}) {
	if os.Getenv("VERIF_TRACE") == "" || r.out == "" {
		return
	}
	doc := map[string]interface{}{"property": r.Prop, "test": r.Test, "case": c}
	b, _ := json.Marshal(doc)
	_ = os.WriteFile(filepath.Join(r.out, fmt.Sprintf("cur-%s-%s.json", r.Test, r.shard)), b, 0644)
}

// Trace is trace for tests that do not go through Run.
func (r *Rec) Trace(c interface{}) { r.trace(c) }

// Watchdog guards one evaluation of code that may not terminate: if stop() is not called
// within d, the case is written as a failing case (key "hang:<what>") and the whole test
// process exits with status 3 (a spinning goroutine cannot be killed, so no shrinking).
func (r *Rec) Watchdog(c interface{}, what string, d time.Duration) (stop func()) {
	ch := make(chan struct{})
	go func() {
		select {
		case <-ch:
		case <-time.After(d):
			r.Fail(c, Verdict{Key: "hang:" + what, Err: fmt.Errorf("%s did not return within %v", what, d)})
			r.Flush()
			os.Exit(3)
		}
	}()
	return func() { close(ch) }
}

// safeGen: a panic inside a generator is a bug in the harness, never a verdict about the
// code under test. It is recorded in a marker file that makes the driver exit 2.
func safeGen[C any](r *Rec, rt *rapid.T, gen func(*rapid.T) C) C {
	defer func() {
		if e := recover(); e != nil {
			if isRapidControl(e) {
				panic(e)
			}
			if r.out != "" {
				buf := make([]byte, 8192)
				buf = buf[:runtime.Stack(buf, false)]
				_ = os.WriteFile(filepath.Join(r.out, fmt.Sprintf("harnessbug-%s-%s.txt", r.Test, r.shard)),
					[]byte(fmt.Sprintf("generator panicked: %v\n%s", e, buf)), 0644)
			}
			panic(e)
		}
	}()
	return gen(rt)
}

// rapid signals Skip/Fatal/invalid data with its own panic values; let them through.
func isRapidControl(e interface{}) bool {
	s := fmt.Sprintf("%T", e)
	return strings.HasPrefix(s, "rapid.") || strings.HasPrefix(s, "*rapid.")
}

// FuzzCount counts an event inside a native fuzz target. Fuzz workers are separate processes that never flush a
// Rec, so the count is kept per process in $VERIF_OUT/fuzzcount-<name>-<pid>.txt (rewritten every 64 events);
// the driver sums the files into the evidence.
var fuzzCounts sync.Map // name -> *int64

func FuzzCount(name string) {
	out := os.Getenv("VERIF_OUT")
	if out == "" {
		return
	}
	p, _ := fuzzCounts.LoadOrStore(name, new(int64))
	n := atomic.AddInt64(p.(*int64), 1)
	if n == 1 || n%64 == 0 {
		_ = os.WriteFile(filepath.Join(out, fmt.Sprintf("fuzzcount-%s-%d.txt", name, os.Getpid())), []byte(strconv.FormatInt(n, 10)), 0644)
	}
}
