package main

func main() {}
