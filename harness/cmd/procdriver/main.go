// procdriver: scripted driver around the exported procedures of package stgutg (level
// L-proc of DESIGN.md 2.3). It runs as a child process of the test, so that os.Exit or a
// panic inside a procedure is an observable outcome of the case instead of the death of
// the test runner.
//
// stdin: one JSON document {"ops":[{"op":...}, ...]}. The association with the reference
// AMF is file descriptor 3 (an AF_UNIX SOCK_SEQPACKET socket), adopted with
// sctp.NewSCTPConn(3, nil). For every operation one line "@@PD {json}" is written to
// stdout when the procedure has returned; library code also prints to stdout, so result
// lines always start on a fresh line.
//
//	ngsetup    {gnb_id (hex), imsi, mnc, bitlength, name}
//	create     {i, imsi, k, opc, op}                 → supi, ran_id
//	register   {i, mnc, mcc}                         → amf_id, ul_count, nas (hex), ngap_present
//	establish  {i, sst, sd, gnb_gtp}                 → ip, teid, upf
//	service    {i, gnb_gtp}                          → nas (hex)
//	release    {i, sst, sd}                          → nas (hex)
//	deregister {i, mnc}
//	config     {dir}      chdir + Conf.GetConfiguration() → every field (strings as hex)
//	mode                  GetMode(os.Args) with the real argument vector of this process
//	encodesuci {imsi, mnc_len}                       → buffer (hex)
package main

import (
	"encoding/hex"
	"encoding/json"
	"fmt"
	"io"
	"os"
	"reflect"

	"github.com/ishidawataru/sctp"

	"stgutg"
	"tglib"
)

type op struct {
	Op        string `json:"op"`
	I         int    `json:"i"`
	GnbID     string `json:"gnb_id"`
	IMSI      string `json:"imsi"`
	MNC       string `json:"mnc"`
	MCC       string `json:"mcc"`
	BitLength uint64 `json:"bitlength"`
	Name      string `json:"name"`
	K         string `json:"k"`
	OPC       string `json:"opc"`
	OP        string `json:"op_key"`
	SST       int32  `json:"sst"`
	SD        string `json:"sd"`
	GnbGTP    string `json:"gnb_gtp"`
	Dir       string `json:"dir"`
	MNCLen    int    `json:"mnc_len"`
}

func emit(v map[string]interface{}) {
	b, _ := json.Marshal(v)
	fmt.Printf("\n@@PD %s\n", b)
	os.Stdout.Sync()
}

func main() {
	in, err := io.ReadAll(os.Stdin)
	if err != nil {
		fmt.Println("procdriver: stdin:", err)
		os.Exit(90)
	}
	var script struct {
		Ops []op `json:"ops"`
	}
	if err := json.Unmarshal(in, &script); err != nil {
		fmt.Println("procdriver: script:", err)
		os.Exit(90)
	}
	var conn *sctp.SCTPConn
	needConn := func() *sctp.SCTPConn {
		if conn == nil {
			conn = sctp.NewSCTPConn(3, nil)
		}
		return conn
	}
	ues := map[int]*tglib.RanUeContext{}
	regPdu := map[int][]byte{}
	for n, o := range script.Ops {
		res := map[string]interface{}{"n": n, "op": o.Op, "i": o.I}
		switch o.Op {
		case "ngsetup":
			id, err := hex.DecodeString(o.GnbID)
			if err != nil {
				fmt.Println("procdriver: gnb_id:", err)
				os.Exit(90)
			}
			stgutg.ManageNGSetup(needConn(), string(id), o.IMSI, o.MNC, o.BitLength, o.Name)
		case "create":
			ue := stgutg.CreateUE(o.IMSI, o.I, o.K, o.OPC, o.OP)
			ues[o.I] = ue
			res["supi"] = ue.Supi
			res["ran_id"] = ue.RanUeNgapId
		case "register":
			ue, pdu, ngapPdu := stgutg.RegisterUE(ues[o.I], o.MNC, o.MCC, needConn())
			ues[o.I] = ue
			regPdu[o.I] = pdu
			res["amf_id"] = ue.AmfUeNgapId
			res["ul_count"] = ue.ULCount.Get()
			res["nas"] = hex.EncodeToString(pdu)
			if ngapPdu != nil {
				res["ngap_present"] = ngapPdu.Present
			}
		case "establish":
			ip, teid, upf := stgutg.EstablishPDU(o.SST, o.SD, ues[o.I], needConn(), o.GnbGTP)
			res["ip"] = hex.EncodeToString(ip)
			res["teid"] = teid
			res["upf"] = hex.EncodeToString(upf)
		case "service":
			pdu := stgutg.ServiceRequest(regPdu[o.I], ues[o.I], needConn(), o.GnbGTP)
			res["nas"] = hex.EncodeToString(pdu)
		case "release":
			pdu := stgutg.ReleasePDU(o.SST, o.SD, ues[o.I], needConn())
			res["nas"] = hex.EncodeToString(pdu)
		case "deregister":
			stgutg.DeregisterUE(ues[o.I], o.MNC, needConn())
		case "config":
			if err := os.Chdir(o.Dir); err != nil {
				fmt.Println("procdriver: chdir:", err)
				os.Exit(90)
			}
			var c stgutg.Conf
			c.GetConfiguration()
			v := reflect.ValueOf(c.Configuration)
			fields := map[string]interface{}{}
			for i := 0; i < v.NumField(); i++ {
				f := v.Field(i)
				name := v.Type().Field(i).Name
				switch f.Kind() {
				case reflect.String:
					fields[name] = map[string]interface{}{"s": hex.EncodeToString([]byte(f.String()))}
				case reflect.Int, reflect.Int32, reflect.Int64:
					fields[name] = map[string]interface{}{"i": fmt.Sprint(f.Int())}
				case reflect.Uint, reflect.Uint32, reflect.Uint64:
					fields[name] = map[string]interface{}{"u": fmt.Sprint(f.Uint())}
				default:
					fields[name] = map[string]interface{}{"other": fmt.Sprint(f.Interface())}
				}
			}
			res["fields"] = fields
		case "mode":
			res["mode"] = stgutg.GetMode(os.Args)
			res["argv"] = os.Args[1:]
		case "encodesuci":
			m := stgutg.EncodeSuci([]byte(o.IMSI), o.MNCLen)
			res["buffer"] = hex.EncodeToString(m.Buffer)
			res["len"] = m.Len
		case "close":
			if conn != nil {
				conn.Close()
			}
		default:
			fmt.Println("procdriver: unknown op", o.Op)
			os.Exit(90)
		}
		emit(res)
	}
	emit(map[string]interface{}{"op": "end"})
}
