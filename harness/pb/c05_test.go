package pb

import (
	"bytes"
	"encoding/hex"
	"fmt"
	"regexp"
	"strings"
	"testing"

	"pgregory.net/rapid"
	"tglib"

	"verifh/ev"
	"verifh/refcrypto"
	"verifh/refsec"
)

// C05 — RES* and the NAS key hierarchy equal what the network derives.
//
// Case: one 5G-AKA run. The UE side is tglib.RanUeContext.DeriveRESstarAndSetKey on a fresh context that was
// prepared exactly as stgutg.CreateUE / RegisterUE prepare it (SUPI "imsi-"+digits, GetAuthSubscription(K, OPc, OP),
// serving network name built from the configured MNC/MCC strings the way RegisterUE does). The network side is
// refcrypto (Milenage f2..f5 → RES*, K_AUSF → K_SEAF → K_AMF → K_NASenc / K_NASint) with the serving network name
// of TS 24.501 §9.12.1 built independently.

type c05Case struct {
	K      []byte `json:"k"`
	OP     []byte `json:"op"`
	Mode   string `json:"mode"`  // "op-only" | "opc-only" | "both"  — which of OP / OPc the configuration carries
	Upper  bool   `json:"upper"` // hex strings in upper case
	RAND   []byte `json:"rand"`
	AUTN   []byte `json:"autn"` // any 16 octets: the UE never verifies it
	MCC    string `json:"mcc"`
	MNC    string `json:"mnc"`     // 2 or 3 digits
	MSIN   string `json:"msin"`    // SUPI digits = MCC || MNC || MSIN, 5..15 digits in total
	EncAlg uint8  `json:"enc_alg"` // 0..3, used only as the algorithm-key distinguisher
	IntAlg uint8  `json:"int_alg"`
	// Label: the SUPI label of the context: "imsi-" (what CreateUE writes) or "supi-" (which the library accepts as well)
	Label string `json:"supi_label,omitempty"`
	// Stored: what the context's own AuthenticationSubs holds while the derivation is called with the credentials of
	// THIS case as its argument: "" = the same subscription (as RegisterUE does), "other" = another subscriber's
	// (K', OPc'), "other-op" = (K', OP' only), "none" = nil. The argument decides.
	Stored   string `json:"stored_subscription,omitempty"`
	// Literal: the context is written as a struct literal (&tglib.RanUeContext{Supi: ..., CipheringAlg: ..., IntegrityAlg: ...})
	// instead of coming from NewRanUeContext - the type is exported with exported fields, and the derivation needs
	// nothing else of it
	Literal bool `json:"literal_context,omitempty"`
	StoredK  []byte `json:"stored_k,omitempty"`
	StoredOP []byte `json:"stored_op,omitempty"`
}

var c05Modes = []string{"op-only", "opc-only", "both"}

func genDigits(t *rapid.T, n int, label string) string {
	d := rapid.SliceOfN(rapid.IntRange(0, 9), n, n).Draw(t, label)
	var sb strings.Builder
	for _, x := range d {
		sb.WriteByte(byte('0' + x))
	}
	return sb.String()
}

func genC05(t *rapid.T) c05Case {
	c := c05Case{
		K:      gen128(t, "k"),
		OP:     gen128(t, "op"),
		Mode:   rapid.SampledFrom(c05Modes).Draw(t, "mode"),
		Upper:  rapid.Bool().Draw(t, "upper"),
		RAND:   gen128(t, "rand"),
		EncAlg: uint8(rapid.IntRange(0, 3).Draw(t, "enc")),
		IntAlg: uint8(rapid.IntRange(0, 3).Draw(t, "int")),
	}
	switch rapid.IntRange(0, 7).Draw(t, "autn_kind") {
	case 0:
		c.AUTN = make([]byte, 16)
	case 1:
		c.AUTN = bytes.Repeat([]byte{0xff}, 16)
	default:
		c.AUTN = genBytes(t, 16, "autn")
	}
	c.MCC = genDigits(t, 3, "mcc")
	c.MNC = genDigits(t, rapid.IntRange(2, 3).Draw(t, "mnclen"), "mnc")
	// IMSI ≤ 15 digits (precondition every real configuration respects); SUPI 5..15 digits
	maxMsin := 15 - 3 - len(c.MNC)
	var n int
	switch rapid.IntRange(0, 5).Draw(t, "msin_kind") {
	case 0:
		n = 0
	case 1:
		n = maxMsin
	default:
		n = rapid.IntRange(0, maxMsin).Draw(t, "msinlen")
	}
	c.MSIN = genDigits(t, n, "msin")
	c.Label = rapid.SampledFrom([]string{"imsi-", "imsi-", "imsi-", "supi-"}).Draw(t, "supi_label")
	c.Literal = rapid.IntRange(0, 3).Draw(t, "literal_context") == 2
	c.Stored = rapid.SampledFrom([]string{"", "", "", "other", "other-op", "none"}).Draw(t, "stored")
	if c.Stored == "other" || c.Stored == "other-op" {
		c.StoredK, c.StoredOP = gen128(t, "stored_k"), gen128(t, "stored_op")
	}
	return c
}

var snnRe = regexp.MustCompile(`^5G:mnc[0-9]{3}\.mcc[0-9]{3}\.3gppnetwork\.org$`)

// callerSNN replicates, character for character, what stgutg.RegisterUE (src/stgutg/ue.go) passes as snName.
func callerSNN(mnc, mcc string) string {
	if len(mnc) == 2 {
		return "5G:mnc0" + mnc + ".mcc" + mcc + ".3gppnetwork.org"
	}
	return "5G:mnc" + mnc + ".mcc" + mcc + ".3gppnetwork.org"
}

type c05Out struct {
	res     []byte
	kamf    []byte
	enc, in [16]byte
}

func c05Run(c c05Case, opcHex, opHex string, snn string) c05Out {
	enc := func(b []byte) string {
		s := hex.EncodeToString(b)
		if c.Upper {
			s = strings.ToUpper(s)
		}
		return s
	}
	label := c.Label
	if label == "" {
		label = "imsi-"
	}
	supi := label + c.MCC + c.MNC + c.MSIN
	ue := tglib.NewRanUeContext(supi, 1, c.EncAlg, c.IntAlg)
	if c.Literal {
		ue = &tglib.RanUeContext{Supi: supi, RanUeNgapId: 1, CipheringAlg: c.EncAlg, IntegrityAlg: c.IntAlg}
	}
	arg := tglib.GetAuthSubscription(enc(c.K), opcHex, opHex)
	switch c.Stored {
	case "other":
		k, op := a16(c.StoredK), a16(c.StoredOP)
		opc := refcrypto.OPc(k, op)
		ue.AuthenticationSubs = tglib.GetAuthSubscription(enc(c.StoredK), enc(opc[:]), enc(c.StoredOP))
	case "other-op":
		ue.AuthenticationSubs = tglib.GetAuthSubscription(enc(c.StoredK), "", enc(c.StoredOP))
	case "none":
	default:
		ue.AuthenticationSubs = arg
	}
	var autn [16]byte
	copy(autn[:], c.AUTN)
	rnd := append([]byte{}, c.RAND...)
	res := ue.DeriveRESstarAndSetKey(arg, autn, rnd, snn, c.MNC, c.MCC)
	return c05Out{res: res, kamf: ue.Kamf, enc: ue.KnasEnc, in: ue.KnasInt}
}

func c05Oracle(c c05Case) ev.Verdict {
	v := ev.Verdict{NT: true}
	v.Classes = []string{c.Mode, fmt.Sprintf("mnc%d", len(c.MNC)), fmt.Sprintf("alg enc=%d int=%d", c.EncAlg, c.IntAlg),
		fmt.Sprintf("supi-digits=%d", 3+len(c.MNC)+len(c.MSIN)), "label:" + c.Label, "stored-subscription:" + c.Stored, fmt.Sprintf("literal-context:%v", c.Literal)}
	if len(c.K) != 16 || len(c.OP) != 16 || len(c.RAND) != 16 || len(c.AUTN) != 16 || len(c.MCC) != 3 || (len(c.MNC) != 2 && len(c.MNC) != 3) ||
		len(c.MSIN) > 15-3-len(c.MNC) || c.EncAlg > 3 || c.IntAlg > 3 {
		v.Skip = true // would make the library call fatal.Fatalf / is outside the configuration domain
		return v
	}
	fail := func(key, f string, a ...interface{}) ev.Verdict {
		v.Key, v.Err = key, fmt.Errorf(f, a...)
		return v
	}
	hexs := func(b []byte) string {
		s := hex.EncodeToString(b)
		if c.Upper {
			s = strings.ToUpper(s)
		}
		return s
	}
	// --- network side
	k, op, rnd := a16(c.K), a16(c.OP), a16(c.RAND)
	opc := refcrypto.OPc(k, op)
	mil := refcrypto.Milenage(k, opc, rnd, [6]byte{}, [2]byte{})
	snnSpec, err := refsec.SNN(c.MCC, c.MNC)
	if err != nil {
		v.Skip = true
		return v
	}
	supiDigits := c.MCC + c.MNC + c.MSIN
	want := refcrypto.Derive5G(mil.CK, mil.IK, mil.Res, rnd, a6(c.AUTN[:6]), snnSpec, supiDigits, c.EncAlg, c.IntAlg)

	// --- the serving network name the caller hands to the derivation
	snn := callerSNN(c.MNC, c.MCC)
	if !snnRe.MatchString(snn) || len(snn) != 32 || snn != snnSpec {
		return fail("snn-format", "serving network name %q built the way RegisterUE builds it is not the TS 24.501 §9.12.1 form %q", snn, snnSpec)
	}

	// --- UE side, in the configuration forms the property names
	type run struct {
		name       string
		opc, opstr string
	}
	var runs []run
	switch c.Mode {
	case "op-only":
		runs = []run{{"op-only", "", hexs(c.OP)}, {"opc-only", hexs(opc[:]), ""}}
	case "opc-only":
		runs = []run{{"opc-only", hexs(opc[:]), ""}, {"op-only", "", hexs(c.OP)}}
	default:
		runs = []run{{"both", hexs(opc[:]), hexs(c.OP)}, {"op-only", "", hexs(c.OP)}}
	}
	var outs []c05Out
	type miss struct{ key, text string }
	var misses [][]miss
	for _, r := range runs {
		got := c05Run(c, r.opc, r.opstr, snn)
		outs = append(outs, got)
		var m []miss
		if !bytes.Equal(got.res, want.ResStar) {
			m = append(m, miss{"resstar", fmt.Sprintf("[%s] RES* %x, a conformant AUSF expects XRES* %x (TS 33.501 A.4)", r.name, got.res, want.ResStar)})
		}
		if !bytes.Equal(got.kamf, want.Kamf) {
			m = append(m, miss{"kamf", fmt.Sprintf("[%s] K_AMF %x, network derives %x (K_AUSF→K_SEAF→K_AMF with SNN %q, SUPI %q, ABBA 0000)", r.name, got.kamf, want.Kamf, snnSpec, supiDigits)})
		} else {
			// the algorithm keys are only judged on their own when their parent key is right
			if got.enc != want.KnasEnc {
				m = append(m, miss{"knasenc", fmt.Sprintf("[%s] K_NASenc %x, network derives %x (A.8, distinguisher 01, algorithm %d)", r.name, got.enc, want.KnasEnc, c.EncAlg)})
			}
			if got.in != want.KnasInt {
				m = append(m, miss{"knasint", fmt.Sprintf("[%s] K_NASint %x, network derives %x (A.8, distinguisher 02, algorithm %d)", r.name, got.in, want.KnasInt, c.IntAlg)})
			}
		}
		misses = append(misses, m)
	}
	for i, m := range misses {
		if len(m) == 0 {
			continue
		}
		// root-cause key: the first wrong output; qualified by the configuration form only if the other form is right
		key := m[0].key
		if len(misses[1-i]) == 0 {
			key += ":" + runs[i].name
		}
		text := m[0].text
		for _, x := range m[1:] {
			text += "; " + x.text
		}
		return fail(key, "%s", text)
	}
	// OP-only and OPc configurations give the same result (follows from both being equal to the reference; stated
	// separately because the property states it separately)
	if !bytes.Equal(outs[0].res, outs[1].res) || !bytes.Equal(outs[0].kamf, outs[1].kamf) || outs[0].enc != outs[1].enc || outs[0].in != outs[1].in {
		return fail("op-vs-opc", "configuration %s and %s give different results", runs[0].name, runs[1].name)
	}
	return v
}

func TestC05_KeyHierarchy(t *testing.T) {
	r := ev.New(t, "C05", "TestC05_KeyHierarchy")
	ev.Run(t, r, genC05, c05Oracle)
}

// TestC05_Grid: the finite parts of the domain exhaustively — every (ciphering id, integrity id) pair × MNC length ×
// every SUPI length 5..15 × the three configuration forms — with fresh random 128-bit values drawn per VERIF seed.
func TestC05_Grid(t *testing.T) {
	r := ev.New(t, "C05", "TestC05_Grid")
	defer r.Flush()
	reps := ev.N(2, 40)
	for rep := 0; rep < reps; rep++ {
		cases := rapid.Custom(func(rt *rapid.T) []c05Case {
			var out []c05Case
			for enc := 0; enc < 4; enc++ {
				for in := 0; in < 4; in++ {
					for mncLen := 2; mncLen <= 3; mncLen++ {
						for msin := 0; msin <= 15-3-mncLen; msin++ {
							l := fmt.Sprintf("%d_%d_%d_%d_", enc, in, mncLen, msin)
							out = append(out, c05Case{K: genBytes(rt, 16, l+"k"), OP: genBytes(rt, 16, l+"op"), Mode: c05Modes[(enc+in+msin)%3],
								Upper: msin%2 == 1, RAND: genBytes(rt, 16, l+"rand"), AUTN: genBytes(rt, 16, l+"autn"), MCC: genDigits(rt, 3, l+"mcc"),
								MNC: genDigits(rt, mncLen, l+"mnc"), MSIN: genDigits(rt, msin, l+"msin"), EncAlg: uint8(enc), IntAlg: uint8(in)})
						}
					}
				}
			}
			return out
		}).Example(int(ev.Seed()) + rep*7919)
		for _, c := range cases {
			if !r.Each(t, c, ev.SafeOracle(c05Oracle, c)) {
				return
			}
		}
	}
}
