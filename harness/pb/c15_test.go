package pb

import (
	"bytes"
	"fmt"
	"testing"

	"free5gclib/milenage"
	"pgregory.net/rapid"

	"verifh/ev"
	"verifh/refcrypto"
	"verifh/refsec"
)

// C15 — the copied Milenage library implements TS 35.206 and accepts exactly valid AUTNs.
//
// Case: one subscriber/challenge (K, OP, RAND, AMF) with a pair of sequence numbers (network, UE). The oracle
// evaluates, for that base case: f1/f1*/f2..f5*/OPc against refcrypto; MilenageGenerate against the reference AUTN;
// Milenage_check on the valid AUTN and on EVERY single-bit corruption (128), one single-octet corruption per octet
// (16, drawn xor masks) and a wholly random MAC; Milenage_auts on the valid AUTS and on every single-bit (112) and
// one single-octet corruption per octet (14) of it. What the right answer is comes from the reference USIM/HSS in
// refsec (TS 33.102 §6.3.3/§6.3.5), which decides "MAC right" and "SQN fresh" exactly, not probabilistically.

type c15Case struct {
	K       []byte `json:"k"`
	OP      []byte `json:"op"`
	RAND    []byte `json:"rand"`
	AMF     []byte `json:"amf"`
	SQNNet  []byte `json:"sqn_net"`
	SQNUE   []byte `json:"sqn_ue"`
	Pair    string `json:"pair"`     // how the pair was drawn (label only)
	AutnXor []byte `json:"autn_xor"` // 16 non-zero masks: single-octet corruption i is AUTN[i] ^= AutnXor[i]
	AutsXor []byte `json:"auts_xor"` // 14 non-zero masks
	RandMAC []byte `json:"rand_mac"` // 8 octets replacing MAC-A altogether
	PairXor []byte `json:"pair_xor"` // 2 non-zero masks for the two-octet corruptions of MAC-A / MAC-S
	// history: after this evaluation the library is used for a VARIANT that shares some of the inputs (same K and
	// RAND under another OP, same OP and RAND under another K, same K and OP with another RAND), then for this
	// case again — the results must be those of the arguments of each call
	Variant      string `json:"variant,omitempty"` // "" | other-op | other-k | other-rand
	// AutsBuf: what the caller's AUTS memory holds. Milenage_check writes the token into it (its previous contents —
	// a token of an earlier resynchronisation, a pool pattern — are not part of the token) and Milenage_auts reads the
	// token from its first 14 octets (a 128-bit scratch buffer, the rest of a message). Empty = a fresh 14-octet buffer.
	AutsBuf []byte `json:"auts_buf,omitempty"`
	VariantBytes []byte `json:"variant_bytes,omitempty"`
}

func add48(b []byte, d int64) ([]byte, bool) {
	var v uint64
	for _, x := range b {
		v = v<<8 | uint64(x)
	}
	nv := int64(v) + d
	if nv < 0 || nv >= 1<<48 {
		return nil, false
	}
	out := make([]byte, 6)
	for i := 5; i >= 0; i-- {
		out[i] = byte(nv)
		nv >>= 8
	}
	return out, true
}

var c15Pairs = []string{"equal", "net=ue+1", "net=ue-1", "octet0-only", "octet5-only", "octet0+tail", "carry", "random"}

func genSQN(t *rapid.T, label string) []byte {
	switch rapid.IntRange(0, 7).Draw(t, label+"_kind") {
	case 0:
		return make([]byte, 6)
	case 1:
		return bytes.Repeat([]byte{0xff}, 6)
	}
	return genBytes(t, 6, label)
}

func genNonZero(t *rapid.T, n int, label string) []byte {
	return rapid.SliceOfN(rapid.ByteRange(1, 255), n, n).Draw(t, label)
}

func genC15(t *rapid.T) c15Case {
	c := c15Case{K: gen128(t, "k"), OP: gen128(t, "op"), RAND: gen128(t, "rand"), AMF: genBytes(t, 2, "amf"),
		AutnXor: genNonZero(t, 16, "autn_xor"), AutsXor: genNonZero(t, 14, "auts_xor"), RandMAC: genBytes(t, 8, "rand_mac"),
		PairXor: genNonZero(t, 2, "pair_xor")}
	if rapid.IntRange(0, 2).Draw(t, "history") == 0 {
		c.Variant = rapid.SampledFrom([]string{"other-op", "other-op", "other-k", "other-rand"}).Draw(t, "variant")
		c.VariantBytes = gen128(t, "variant_bytes")
	}
	if rapid.IntRange(0, 2).Draw(t, "auts_buf_kind") != 1 {
		c.AutsBuf = genBytes(t, rapid.SampledFrom([]int{14, 14, 16, 15, 32}).Draw(t, "auts_buf_len"), "auts_buf")
	}
	c.Pair = rapid.SampledFrom(c15Pairs).Draw(t, "pair")
	ue := genSQN(t, "sqn_ue")
	net := append([]byte{}, ue...)
	switch c.Pair {
	case "equal":
	case "net=ue+1":
		if n, ok := add48(ue, 1); ok {
			net = n
		} else {
			ue, _ = add48(net, -1)
		}
	case "net=ue-1":
		if n, ok := add48(ue, -1); ok {
			net = n
		} else {
			ue, _ = add48(net, 1)
		}
	case "octet0-only":
		net[0] ^= rapid.ByteRange(1, 255).Draw(t, "d0")
	case "octet5-only":
		net[5] ^= rapid.ByteRange(1, 255).Draw(t, "d5")
	case "octet0+tail": // first octet differs one way, the rest the other way
		net[0] ^= rapid.ByteRange(1, 255).Draw(t, "d0")
		copy(net[1:], genBytes(t, 5, "tail"))
	case "carry": // ...00ff vs ...0100 style neighbours
		i := rapid.IntRange(1, 5).Draw(t, "carry_at")
		for j := i; j < 6; j++ {
			ue[j] = 0xff
		}
		if ue[i-1] == 0xff {
			ue[i-1] = 0x7f
		}
		net, _ = add48(ue, 1)
		if rapid.Bool().Draw(t, "swap") {
			ue, net = net, ue
		}
	default:
		net = genSQN(t, "sqn_net")
	}
	c.SQNNet, c.SQNUE = net, ue
	return c
}

// what the library returned for one Milenage_check call
type chkOut struct {
	rc          int
	res, ck, ik []byte
	resLen      uint
	auts        []byte
}

func libCheck(opc, k, sqnUE, rnd, autn, autsBuf []byte) chkOut {
	o := chkOut{res: make([]byte, 8), ck: make([]byte, 16), ik: make([]byte, 16), auts: make([]byte, 14)}
	if len(autsBuf) >= 14 {
		o.auts = append([]byte{}, autsBuf...)
	}
	es := []*embedded{emb(opc), emb(k), emb(sqnUE), emb(rnd), emb(autn)}
	o.rc = milenage.Milenage_check(es[0].s(), es[1].s(), es[2].s(), es[3].s(), es[4].s(), o.ik, o.ck, o.res, &o.resLen, o.auts)
	for _, e := range es {
		if !e.intact() {
			o.rc = -99 // an argument (or the memory behind it) was modified
		}
	}
	return o
}

// d15Predict: return code the library would give if its comparison returned ±(index of first difference) — used
// only to label a failure with its root cause.
func d15Predict(r refsec.AKAResult, k, opc, rnd [16]byte, autn [16]byte, sqnUE [6]byte) int {
	bug := func(a, b []byte) int {
		for i := range a {
			if a[i] < b[i] {
				return -i
			}
			if a[i] > b[i] {
				return i
			}
		}
		return 0
	}
	if bug(r.RxSQN[:], sqnUE[:]) <= 0 {
		return -2
	}
	x := refcrypto.Milenage(k, opc, rnd, r.RxSQN, [2]byte{autn[6], autn[7]})
	if bug(x.MacA[:], autn[8:16]) != 0 {
		return -1
	}
	return 0
}

func c15Oracle(r *ev.Rec) func(c15Case) ev.Verdict {
	one := c15One(r)
	return func(c c15Case) ev.Verdict {
		v := one(c)
		if v.Err != nil || v.Skip || c.Variant == "" || len(c.VariantBytes) != 16 {
			return v
		}
		w := c
		w.Variant = ""
		switch c.Variant {
		case "other-op":
			w.OP = c.VariantBytes
		case "other-k":
			w.K = c.VariantBytes
		case "other-rand":
			w.RAND = c.VariantBytes
		}
		for step, x := range []c15Case{w, c} {
			if vv := one(x); vv.Err != nil {
				vv.Key = "history:" + vv.Key
				vv.Err = fmt.Errorf("evaluation %d of the history (this case, then the same with %s, then this case again): %v", step+2, c.Variant, vv.Err)
				vv.Classes = v.Classes
				return vv
			}
		}
		v.Classes = append(v.Classes, "history:"+c.Variant)
		return v
	}
}

// emb hands a value to the library the way callers hold it: as a slice of a larger buffer (a subscriber record, a
// receive buffer) whose following octets belong to something else. The check function reports whether the value and
// the octets behind it are still what they were.
type embedded struct {
	buf  []byte
	n    int
	want []byte
}

func emb(b []byte) *embedded {
	e := &embedded{buf: make([]byte, len(b)+24), n: len(b), want: append([]byte{}, b...)}
	copy(e.buf, b)
	for i := len(b); i < len(e.buf); i++ {
		e.buf[i] = 0xa5 ^ byte(i)
	}
	return e
}
func (e *embedded) s() []byte { return e.buf[:e.n] }
func (e *embedded) intact() bool {
	if !bytes.Equal(e.buf[:e.n], e.want) {
		return false
	}
	for i := e.n; i < len(e.buf); i++ {
		if e.buf[i] != 0xa5^byte(i) {
			return false
		}
	}
	return true
}

func c15One(r *ev.Rec) func(c15Case) ev.Verdict {
	return func(c c15Case) ev.Verdict {
		v := ev.Verdict{NT: true, Classes: []string{"pair:" + c.Pair}}
		if len(c.K) != 16 || len(c.OP) != 16 || len(c.RAND) != 16 || len(c.AMF) != 2 || len(c.SQNNet) != 6 || len(c.SQNUE) != 6 ||
			len(c.AutnXor) != 16 || len(c.AutsXor) != 14 || len(c.RandMAC) != 8 || len(c.PairXor) != 2 {
			v.Skip = true
			return v
		}
		fail := func(key, f string, a ...interface{}) ev.Verdict {
			v.Key, v.Err = key, fmt.Errorf(f, a...)
			return v
		}
		k, op, rnd := a16(c.K), a16(c.OP), a16(c.RAND)
		sqnNet, sqnUE := a6(c.SQNNet), a6(c.SQNUE)
		amf := [2]byte{c.AMF[0], c.AMF[1]}
		opc := refcrypto.OPc(k, op)
		ref := refcrypto.Milenage(k, opc, rnd, sqnNet, amf)

		// --- OPc, f1, f1*, f2, f3, f4, f5, f5*
		gotOpc, err := milenage.GenerateOPC(append([]byte{}, c.K...), append([]byte{}, c.OP...))
		if err != nil || !bytes.Equal(gotOpc, opc[:]) {
			return fail("opc", "GenerateOPC = %x (err %v), TS 35.206 OPc = %x", gotOpc, err, opc)
		}
		macA, macS := make([]byte, 8), make([]byte, 8)
		eOpc, eK, eRand, eSqn, eAmf := emb(opc[:]), emb(c.K), emb(c.RAND), emb(c.SQNNet), emb(c.AMF)
		inputsIntact := func(where string) *ev.Verdict {
			for n, e := range map[string]*embedded{"OPc": eOpc, "K": eK, "RAND": eRand, "SQN": eSqn, "AMF": eAmf} {
				if !e.intact() {
					vv := fail("input-memory-modified:"+where, "%s wrote into (or behind) its %s argument: the buffer holding it reads %x, it was %x followed by other data", where, n, e.buf[:e.n+8], e.want)
					return &vv
				}
			}
			return nil
		}
		if err := milenage.F1(eOpc.s(), eK.s(), eRand.s(), eSqn.s(), eAmf.s(), macA, macS); err != nil || !bytes.Equal(macA, ref.MacA[:]) || !bytes.Equal(macS, ref.MacS[:]) {
			return fail("f1", "F1: MAC-A %x MAC-S %x (err %v), TS 35.206 f1 %x f1* %x", macA, macS, err, ref.MacA, ref.MacS)
		}
		if f := inputsIntact("F1"); f != nil {
			return *f
		}
		res, ck, ik, ak, aks := make([]byte, 8), make([]byte, 16), make([]byte, 16), make([]byte, 6), make([]byte, 6)
		if err := milenage.F2345(eOpc.s(), eK.s(), eRand.s(), res, ck, ik, ak, aks); err != nil {
			return fail("f2345", "F2345 error %v", err)
		}
		if f := inputsIntact("F2345"); f != nil {
			return *f
		}
		// every combination of requested outputs (nil = not wanted): what is requested must be the TS 35.206 value
		for mask := 1; mask < 32; mask++ {
			outs := [5][]byte{make([]byte, 8), make([]byte, 16), make([]byte, 16), make([]byte, 6), make([]byte, 6)}
			wants := [5][]byte{ref.Res[:], ref.CK[:], ref.IK[:], ref.AK[:], ref.AKs[:]}
			var args [5][]byte
			for j := 0; j < 5; j++ {
				if mask&(1<<uint(j)) != 0 {
					args[j] = outs[j]
				}
			}
			err, site := ev.Guard(func() error { return milenage.F2345(eOpc.s(), eK.s(), eRand.s(), args[0], args[1], args[2], args[3], args[4]) })
			if site != "" || err != nil {
				return fail("f2345:outputs-subset", "F2345 with outputs %05b requested: %v", mask, err)
			}
			for j := 0; j < 5; j++ {
				if args[j] != nil && !bytes.Equal(args[j], wants[j]) {
					return fail("f2345:outputs-subset", "F2345 with only the outputs %05b (res,ck,ik,ak,ak*) requested: output %d = %x, TS 35.206 gives %x", mask, j, args[j], wants[j])
				}
			}
		}
		for _, x := range []struct {
			n         string
			got, want []byte
		}{{"f2", res, ref.Res[:]}, {"f3", ck, ref.CK[:]}, {"f4", ik, ref.IK[:]}, {"f5", ak, ref.AK[:]}, {"f5*", aks, ref.AKs[:]}} {
			if !bytes.Equal(x.got, x.want) {
				return fail(x.n, "F2345: %s = %x, TS 35.206 gives %x", x.n, x.got, x.want)
			}
		}
		// --- AUTN generation
		wantAutn := refsec.AUTN(k, opc, rnd, sqnNet, amf)
		{
			autn, gik, gck, gak, gres := make([]byte, 16), make([]byte, 16), make([]byte, 16), make([]byte, 6), make([]byte, 8)
			rl := uint(8)
			milenage.MilenageGenerate(eOpc.s(), eAmf.s(), eK.s(), eSqn.s(), eRand.s(), autn, gik, gck, gak, gres, &rl)
			if f := inputsIntact("MilenageGenerate"); f != nil {
				return *f
			}
			if rl != 8 || !bytes.Equal(autn, wantAutn[:]) {
				return fail("generate:autn", "MilenageGenerate: AUTN %x (res_len %d), want (SQN^AK)||AMF||f1 = %x", autn, rl, wantAutn)
			}
			if !bytes.Equal(gik, ref.IK[:]) || !bytes.Equal(gck, ref.CK[:]) || !bytes.Equal(gak, ref.AK[:]) || !bytes.Equal(gres, ref.Res[:]) {
				return fail("generate:keys", "MilenageGenerate: IK/CK/AK/RES differ from f4/f3/f5/f2")
			}
		}

		// --- the same, the caller having laid SQN || AMF out in the token buffer itself: the SQN is concealed and the
		// MAC written in place (sqn = autn[0:6], amf = autn[6:8]) - the function reads its inputs before it writes
		{
			autn, gik, gck, gak, gres := make([]byte, 16), make([]byte, 16), make([]byte, 16), make([]byte, 6), make([]byte, 8)
			copy(autn[0:6], sqnNet[:])
			copy(autn[6:8], amf[:])
			rl := uint(8)
			milenage.MilenageGenerate(append([]byte{}, opc[:]...), autn[6:8], append([]byte{}, k[:]...), autn[0:6], append([]byte{}, rnd[:]...), autn, gik, gck, gak, gres, &rl)
			if rl != 8 || !bytes.Equal(autn, wantAutn[:]) {
				return fail("generate-in-place:autn", "MilenageGenerate with sqn = autn[0:6], amf = autn[6:8]: AUTN %x (res_len %d), want (SQN^AK)||AMF||f1 = %x", autn, rl, wantAutn)
			}
			if !bytes.Equal(gik, ref.IK[:]) || !bytes.Equal(gck, ref.CK[:]) || !bytes.Equal(gak, ref.AK[:]) || !bytes.Equal(gres, ref.Res[:]) {
				return fail("generate-in-place:keys", "MilenageGenerate (in place): IK/CK/AK/RES differ from f4/f3/f5/f2")
			}
		}

		// --- checking: valid token and every corruption
		wantAuts := refsec.AUTS(k, opc, rnd, sqnUE)
		check := func(what string, autn [16]byte) *ev.Verdict {
			usim := refsec.USIM(k, opc, rnd, autn, sqnUE)
			got := libCheck(opc[:], c.K, c.SQNUE, c.RAND, autn[:], c.AutsBuf)
			var allowed []int
			switch {
			case usim.MacOK && usim.Fresh:
				allowed = []int{0}
			case usim.MacOK && !usim.Fresh:
				allowed = []int{-2}
			case !usim.MacOK && usim.Fresh:
				allowed = []int{-1}
			default:
				// MAC wrong AND sequence number not fresh: the property only says "not accepted". TS 33.102 §6.3.3
				// checks the MAC first (→ −1); the library, like the hostap code it was ported from, checks the
				// sequence number first (→ −2). Either refusal is inside the property; recorded as an observation.
				allowed = []int{-1, -2}
				r.Class(fmt.Sprintf("observation: wrong MAC + stale SQN → rc=%d", got.rc), 1)
			}
			ok := false
			for _, a := range allowed {
				ok = ok || got.rc == a
			}
			if got.rc == -99 {
				vv := fail("input-memory-modified:Milenage_check", "Milenage_check(%s) wrote into (or behind) one of its input arguments", what)
				return &vv
			}
			if !ok {
				key := fmt.Sprintf("check:want%d:got%d", allowed[0], got.rc)
				if d15Predict(usim, k, opc, rnd, autn, sqnUE) == got.rc {
					key = "D15:os_memcmp-returns-index"
				}
				vv := fail(key, "Milenage_check(%s) returned %d, want %v: MAC-A %s, SQN in AUTN %x %s SQN_UE %x (AUTN %x)", what, got.rc, allowed,
					map[bool]string{true: "right", false: "WRONG"}[usim.MacOK], usim.RxSQN, map[bool]string{true: ">", false: "<="}[usim.Fresh], sqnUE, autn)
				return &vv
			}
			switch got.rc {
			case 0:
				if got.resLen != 8 || !bytes.Equal(got.res, usim.Res[:]) || !bytes.Equal(got.ck, usim.CK[:]) || !bytes.Equal(got.ik, usim.IK[:]) {
					vv := fail("check:outputs", "Milenage_check(%s) accepted but RES/CK/IK are not f2/f3/f4", what)
					return &vv
				}
			case -2:
				if !bytes.Equal(got.auts[:14], wantAuts[:]) {
					vv := fail("check:auts", "Milenage_check(%s): AUTS %x, want (SQN_UE^AK*)||f1*(SQN_UE,AMF=0) = %x (the AUTS memory held %x before the call)", what, got.auts[:14], wantAuts, c.AutsBuf)
					return &vv
				}
				if len(got.auts) > 14 && !bytes.Equal(got.auts[14:], c.AutsBuf[14:]) {
					vv := fail("check:auts-behind", "Milenage_check(%s) wrote behind the 112 bits of AUTS: %x, before the call %x", what, got.auts, c.AutsBuf)
					return &vv
				}
				back := make([]byte, 6)
				if rc := milenage.Milenage_auts(opc[:], c.K, c.RAND, got.auts, back); rc != 0 || !bytes.Equal(back, c.SQNUE) {
					vv := fail("auts:roundtrip", "Milenage_auts on the token Milenage_check produced: rc %d, SQN %x, want 0 and %x", rc, back, c.SQNUE)
					return &vv
				}
			}
			return nil
		}
		if f := check("valid AUTN, "+c.Pair, wantAutn); f != nil {
			return *f
		}
		r.Class("check:valid-autn", 1)
		for bit := 0; bit < 128; bit++ {
			a := wantAutn
			a[bit/8] ^= 0x80 >> uint(bit%8)
			part := "sqn"
			if bit >= 64 {
				part = "mac"
			} else if bit >= 48 {
				part = "amf"
			}
			if f := check(fmt.Sprintf("AUTN bit %d flipped (%s octet %d)", bit, part, bit/8), a); f != nil {
				return *f
			}
		}
		r.Class("check:autn-bitflip", 128)
		for i := 0; i < 16; i++ {
			a := wantAutn
			a[i] ^= c.AutnXor[i]
			if f := check(fmt.Sprintf("AUTN octet %d ^= %02x", i, c.AutnXor[i]), a); f != nil {
				return *f
			}
		}
		r.Class("check:autn-octet", 16)
		// two octets of MAC-A corrupted at once: every pair of positions, once with the same mask on both and once
		// with two different masks
		for i := 8; i < 16; i++ {
			for j := i + 1; j < 16; j++ {
				for _, m := range [][2]byte{{c.PairXor[0], c.PairXor[0]}, {c.PairXor[0], c.PairXor[1]}} {
					a := wantAutn
					a[i] ^= m[0]
					a[j] ^= m[1]
					if f := check(fmt.Sprintf("AUTN octets %d,%d ^= %02x,%02x", i, j, m[0], m[1]), a); f != nil {
						return *f
					}
				}
			}
		}
		r.Class("check:autn-mac-octet-pair", 56)
		{
			a := wantAutn
			copy(a[8:], c.RandMAC)
			if f := check("AUTN with an unrelated MAC", a); f != nil {
				return *f
			}
			r.Class("check:autn-random-mac", 1)
		}

		// --- AUTS validation on the network side
		hss := func(what string, auts [14]byte) *ev.Verdict {
			wantSQN, ok := refsec.HSSCheckAUTS(k, opc, rnd, auts)
			got := make([]byte, 6)
			in := append([]byte{}, auts[:]...)
			if len(c.AutsBuf) > 14 {
				in = append(in, c.AutsBuf[14:]...) // the token at the start of a longer buffer
			}
			rc := milenage.Milenage_auts(opc[:], c.K, c.RAND, in, got)
			if ok && (rc != 0 || !bytes.Equal(got, wantSQN[:])) {
				vv := fail("auts:valid-rejected", "Milenage_auts(%s) = %d with SQN %x, want 0 and SQN_UE %x", what, rc, got, wantSQN)
				return &vv
			}
			if !ok && rc != -1 {
				vv := fail("auts:corrupt-accepted", "Milenage_auts(%s) = %d, want -1 (MAC-S does not verify); AUTS %x", what, rc, auts)
				return &vv
			}
			return nil
		}
		if f := hss("valid AUTS", wantAuts); f != nil {
			return *f
		}
		for bit := 0; bit < 112; bit++ {
			a := wantAuts
			a[bit/8] ^= 0x80 >> uint(bit%8)
			if f := hss(fmt.Sprintf("AUTS bit %d flipped", bit), a); f != nil {
				return *f
			}
		}
		r.Class("auts:bitflip", 112)
		for i := 0; i < 14; i++ {
			a := wantAuts
			a[i] ^= c.AutsXor[i]
			if f := hss(fmt.Sprintf("AUTS octet %d ^= %02x", i, c.AutsXor[i]), a); f != nil {
				return *f
			}
		}
		r.Class("auts:octet", 14)
		for i := 6; i < 14; i++ {
			for j := i + 1; j < 14; j++ {
				for _, m := range [][2]byte{{c.PairXor[0], c.PairXor[0]}, {c.PairXor[0], c.PairXor[1]}} {
					a := wantAuts
					a[i] ^= m[0]
					a[j] ^= m[1]
					if f := hss(fmt.Sprintf("AUTS octets %d,%d ^= %02x,%02x", i, j, m[0], m[1]), a); f != nil {
						return *f
					}
				}
			}
		}
		r.Class("auts:mac-octet-pair", 56)
		// tokens whose MAC-S was computed over another AMF than the dummy 00 00 that TS 33.102 6.3.3 prescribes (the
		// separation bit alone, the AMF of the challenge, all ones): not valid tokens, however "nearly right"
		for _, am := range [][2]byte{{0x80, 0x00}, amf, {0xff, 0xff}, {0x00, 0x01}} {
			if am == [2]byte{0, 0} {
				continue
			}
			o := refcrypto.Milenage(k, opc, rnd, sqnUE, am)
			a := wantAuts
			copy(a[6:], o.MacS[:])
			if f := hss(fmt.Sprintf("AUTS with MAC-S over AMF %x", am), a); f != nil {
				return *f
			}
		}
		r.Class("auts:mac-s-over-another-amf", 4)
		usim := refsec.USIM(k, opc, rnd, wantAutn, sqnUE)
		if usim.Fresh {
			v.Classes = append(v.Classes, "valid:fresh")
			if c.SQNNet[0] != c.SQNUE[0] {
				v.Classes = append(v.Classes, "valid:fresh, first octets differ")
			}
		} else {
			v.Classes = append(v.Classes, "valid:stale-or-equal")
		}
		return v
	}
}

func TestC15_Milenage(t *testing.T) {
	r := ev.New(t, "C15", "TestC15_Milenage")
	ev.Run(t, r, genC15, c15Oracle(r))
}

// TestC15_KnownAnswers: the library on the published TS 35.208 test set 1 (the reference is validated on the same
// vectors in TestSelf…; this ties the library to the publication directly, without the reference in between).
func TestC15_KnownAnswers(t *testing.T) {
	r := ev.New(t, "C15", "TestC15_KnownAnswers")
	defer r.Flush()
	type kat struct{ Name, K, OP, OPc, RAND, SQN, AMF, F1, F1s, F2, F3, F4, F5, F5s string }
	set1 := kat{"TS 35.208 set 1", "465b5ce8b199b49faa5f0a2ee238a6bc", "cdc202d5123e20f62b6d676ac72cb318", "cd63cb71954a9f4e48a5994e37a02baf",
		"23553cbe9637a89d218ae64dae47bf35", "ff9bb4d0b607", "b9b9", "4a9ffac354dfafb3", "01cfaf9ec4e871e9", "a54211d5e3ba50bf",
		"b40ba9a3c58b2a05bbf0d987b21bf8cb", "f769bcd751044604127672711c6d3441", "aa689c648370", "451e8beca43b"}
	oracle := func(s kat) ev.Verdict {
		v := ev.Verdict{NT: true, Classes: []string{"known-answer"}}
		opc, err := milenage.GenerateOPC(hx(s.K), hx(s.OP))
		if err != nil || fmt.Sprintf("%x", opc) != s.OPc {
			v.Key, v.Err = "kat:opc", fmt.Errorf("%s: OPc %x want %s", s.Name, opc, s.OPc)
			return v
		}
		macA, macS := make([]byte, 8), make([]byte, 8)
		res, ck, ik, ak, aks := make([]byte, 8), make([]byte, 16), make([]byte, 16), make([]byte, 6), make([]byte, 6)
		_ = milenage.F1(opc, hx(s.K), hx(s.RAND), hx(s.SQN), hx(s.AMF), macA, macS)
		_ = milenage.F2345(opc, hx(s.K), hx(s.RAND), res, ck, ik, ak, aks)
		got := fmt.Sprintf("%x %x %x %x %x %x %x", macA, macS, res, ck, ik, ak, aks)
		want := fmt.Sprintf("%s %s %s %s %s %s %s", s.F1, s.F1s, s.F2, s.F3, s.F4, s.F5, s.F5s)
		if got != want {
			v.Key, v.Err = "kat:f", fmt.Errorf("%s: f1 f1* f2 f3 f4 f5 f5* = %s want %s", s.Name, got, want)
		}
		return v
	}
	r.Each(t, set1, ev.SafeOracle(oracle, set1))
}
