package pb

import (
	"bytes"
	"crypto/aes"
	"encoding/binary"
	"fmt"
	"testing"

	"free5gclib/nas"
	"pgregory.net/rapid"
	"tglib"

	"verifh/ev"
	"verifh/refcrypto"
	"verifh/refsec"
)

// TestC10_SpecialMAC: correctly protected downlink messages whose 32-bit MAC has a value that looks like something
// else — 00000000 (what the null integrity algorithm produces), FFFFFFFF, the MAC of the previous message, the
// first octets of a plain message. Such a MAC occurs once in 2^32 messages; instead of waiting for it the message is
// CONSTRUCTED: AES-CMAC (128-NIA2) is inverted for the last block of the MAC input, which lies inside the opaque
// payload container of a DL NAS TRANSPORT (choose the tag, decipher it with the integrity key, remove the chaining
// value and the subkey K1). The message is then exactly what a conformant AMF sends for that payload: its MAC is
// verified with the reference CMAC before it is used. The UE must recover the message and keep counting.

type c10MacCase struct {
	Enc    []byte `json:"knas_enc"`
	Int    []byte `json:"knas_int"`
	EA     uint8  `json:"ea"`
	Count  uint32 `json:"count"`  // downlink NAS COUNT of the constructed message (the UE has received Count-1)
	Blocks int    `json:"blocks"` // size of the MAC input in 16-octet blocks
	Target []byte `json:"target_mac"`
	Fill   uint64 `json:"fill"`
	Via    string `json:"via"`
}

func genC10Mac(t *rapid.T) c10MacCase {
	c := c10MacCase{Enc: gen128(t, "enc"), Int: gen128(t, "int"), EA: uint8(rapid.IntRange(0, 2).Draw(t, "ea")),
		Count: rapid.Uint32Range(1, 0xfffff0).Draw(t, "count"), Blocks: rapid.IntRange(3, 20).Draw(t, "blocks"),
		Fill: rapid.Uint64().Draw(t, "fill"), Via: rapid.SampledFrom([]string{"NASDecode", "GetNasPdu"}).Draw(t, "via")}
	c.Target = rapid.SampledFrom([][]byte{{0, 0, 0, 0}, {0, 0, 0, 0}, {0xff, 0xff, 0xff, 0xff}, {0x7e, 0x00, 0x68, 0x01}, {0x7e, 0x02, 0x00, 0x00}, {0, 0, 0, 1}, {0x80, 0, 0, 0}}).Draw(t, "target")
	return c
}

// forgeCMAC rewrites the last 16 octets of m (len(m) a positive multiple of 16) so that AES-CMAC(key, m) begins with
// the four target octets.
func forgeCMAC(key [16]byte, m []byte, target []byte, fill uint64) {
	blk, _ := aes.NewCipher(key[:])
	var zero, l [16]byte
	blk.Encrypt(l[:], zero[:])
	k1 := c10dbl(l)
	var x [16]byte
	n := len(m) / 16
	for i := 0; i < n-1; i++ {
		for j := 0; j < 16; j++ {
			x[j] ^= m[16*i+j]
		}
		blk.Encrypt(x[:], x[:])
	}
	var tag, pre [16]byte
	copy(tag[:], target)
	binary.BigEndian.PutUint64(tag[4:], fill)
	binary.BigEndian.PutUint32(tag[12:], uint32(fill>>7))
	blk.Decrypt(pre[:], tag[:])
	for j := 0; j < 16; j++ {
		m[16*(n-1)+j] = pre[j] ^ x[j] ^ k1[j]
	}
}

func c10dbl(b [16]byte) (r [16]byte) {
	for i := 0; i < 16; i++ {
		r[i] = b[i] << 1
		if i < 15 {
			r[i] |= b[i+1] >> 7
		}
	}
	if b[0]&0x80 != 0 {
		r[15] ^= 0x87
	}
	return
}

func c10MacOracle(c c10MacCase) ev.Verdict {
	v := ev.Verdict{NT: true}
	if len(c.Enc) != 16 || len(c.Int) != 16 || c.EA > 2 || len(c.Target) != 4 || c.Blocks < 3 || c.Blocks > 200 || c.Count < 1 || c.Count > 0xfffff0 {
		v.Skip = true
		return v
	}
	ctx := refsec.Ctx{KnasEnc: a16(c.Enc), KnasInt: a16(c.Int), EA: c.EA, IA: 2}
	// MAC input: COUNT(4) BEARER|DIR(1) 000000(3) | SQN | message; the message is a DL NAS TRANSPORT that ends with its
	// payload container (N1 SM information): 7e 00 68 01 LL LL <container>
	total := 16 * c.Blocks
	msgLen := total - 9
	contLen := msgLen - 6
	plain := append([]byte{0x7e, 0x00, 0x68, 0x01, byte(contLen >> 8), byte(contLen)}, expandBytes(c.Fill, contLen)...)
	body, err := ctx.Cipher(c.Count, refsec.DirDownlink, plain)
	if err != nil {
		v.Skip = true
		return v
	}
	in := make([]byte, 8, total)
	binary.BigEndian.PutUint32(in, c.Count)
	in[4] = byte(refsec.Bearer3GPP<<3 | refsec.DirDownlink<<2)
	in = append(append(in, byte(c.Count)), body...)
	forgeCMAC(ctx.KnasInt, in, c.Target, c.Fill)
	body = in[9:]
	if mac := refcrypto.EIA2(ctx.KnasInt, c.Count, refsec.Bearer3GPP, refsec.DirDownlink, in[8:]); !bytes.Equal(mac[:], c.Target) {
		panic(fmt.Sprintf("harness error: constructed message has MAC %x, wanted %x", mac, c.Target))
	}
	plain, _ = ctx.Cipher(c.Count, refsec.DirDownlink, body) // what the AMF protected: the same message with another container tail
	wire := append(append([]byte{0x7e, 0x02}, c.Target...), in[8:]...)
	v.Classes = append(v.Classes, fmt.Sprintf("mac=%x", c.Target), fmt.Sprintf("NEA%d", c.EA), "via:"+c.Via)

	ue := tglib.NewRanUeContext("imsi-2089300000001", 1, c.EA, 2)
	ue.KnasEnc, ue.KnasInt = ctx.KnasEnc, ctx.KnasInt
	last := c.Count - 1
	ue.DLCount.Set(uint16(last>>8), uint8(last))
	recv := func(step string, count uint32, pdu, want []byte) *ev.Verdict {
		var got *nas.Message
		var derr error
		perr, site := ev.Guard(func() error {
			in := append([]byte{}, pdu...)
			if c.Via == "GetNasPdu" {
				got = tglib.GetNasPdu(ue, buildDLTransport(in, 2, 3))
				if got == nil {
					derr = fmt.Errorf("GetNasPdu returned nil")
				}
			} else {
				got, derr = tglib.NASDecode(ue, nas.GetSecurityHeaderType(in), in)
			}
			return nil
		})
		if g := ue.DLCount.Get(); g != count {
			v.Key, v.Err = "special-mac:dlcount", fmt.Errorf("%s (MAC %x, DL NAS COUNT %#x): the UE's downlink COUNT is %#x afterwards", step, pdu[2:6], count, g)
			return &v
		}
		var enc []byte
		if site == "" && derr == nil && got != nil {
			enc, derr = got.PlainNasEncode()
		}
		if site != "" || derr != nil || !bytes.Equal(enc, want) {
			v.Key, v.Err = "special-mac:payload", fmt.Errorf("%s (MAC %x, DL NAS COUNT %#x): the UE returns %x (error %v, panic %v %s), the AMF protected %x", step, pdu[2:6], count, trunc(enc, 40), derr, perr, site, trunc(want, 40))
			return &v
		}
		return nil
	}
	if _, canon, err := plainCanonical(plain); err != nil || !bytes.Equal(canon, plain) {
		v.Skip = true
		return v
	}
	if r := recv("constructed message", c.Count, wire, plain); r != nil {
		return *r
	}
	// and the one after it
	next := []byte{0x7e, 0x00, 0x68, 0x01, 0x00, 0x04, 0x2e, 0x01, 0x00, 0xc9}
	if _, canon, err := plainCanonical(next); err == nil && bytes.Equal(canon, next) {
		pdu, err := ctx.Protect(2, c.Count+1, refsec.DirDownlink, next)
		if err == nil {
			if r := recv("the message after the constructed one", c.Count+1, pdu, next); r != nil {
				return *r
			}
		}
	}
	return v
}

func expandBytes(seed uint64, n int) []byte {
	out := make([]byte, n)
	x := seed
	for i := range out {
		x = x*6364136223846793005 + 1442695040888963407
		out[i] = byte(x >> 33)
	}
	return out
}

func trunc(b []byte, n int) []byte {
	if len(b) > n {
		return b[:n]
	}
	return b
}

func TestC10_SpecialMAC(t *testing.T) {
	r := ev.New(t, "C10", "TestC10_SpecialMAC")
	ev.Run(t, r, genC10Mac, c10MacOracle)
}
