package pb

import (
	"bytes"
	"fmt"
	"testing"

	"free5gclib/UeauCommon"
	"pgregory.net/rapid"
	"tglib"

	"verifh/ev"
	"verifh/refcrypto"
)

// C05 — the TS 33.220 B.2 KDF itself, over call HISTORIES.
//
// A case is a short sequence of GetKDFValue calls. Keys and parameters live the way callers keep them: in
// buffers that are written anew between calls (the key of a call may sit in the same backing array as the key of
// an earlier call, with other contents; a key may be the result of the previous call, as in K_AUSF -> K_SEAF ->
// K_AMF). Every result must be HMAC-SHA-256(key, FC || P0 || L0 || ...) of the arguments of THAT call, and the
// arguments must come back unmodified. The last steps re-derive the algorithm keys of a RanUeContext whose K_AMF
// was replaced in place (tglib.RanUeContext.DerivateAlgKey, the public step of TS 33.501 A.8).

type kdfStep struct {
	KeyFrom string   `json:"key_from"` // fresh | buf0 | buf1 | prev (result of the previous call)
	Key     []byte   `json:"key"`      // the key contents of this call (ignored for prev)
	FC      byte     `json:"fc"`
	Params  [][]byte `json:"params"`
}
type kdfCase struct {
	Steps   []kdfStep `json:"steps"`
	Rekey   [][]byte  `json:"rekey"` // K_AMF values written in place into one context, algorithm keys re-derived after each
	EncAlg  uint8     `json:"enc_alg"`
	IntAlg  uint8     `json:"int_alg"`
	InPlace bool      `json:"in_place"`
}

var kdfFCs = []byte{0x20, 0x69, 0x6a, 0x6b, 0x6c, 0x6d, 0x6e, 0x6f}

func genKDFCase(t *rapid.T) kdfCase {
	var c kdfCase
	n := rapid.IntRange(1, 8).Draw(t, "n")
	keyLen := rapid.SampledFrom([]int{16, 32, 32, 32, 64, 1, 65}).Draw(t, "keylen")
	for i := 0; i < n; i++ {
		l := fmt.Sprintf("s%d_", i)
		s := kdfStep{KeyFrom: rapid.SampledFrom([]string{"fresh", "buf0", "buf0", "buf1", "prev"}).Draw(t, l+"from")}
		if i == 0 && s.KeyFrom == "prev" {
			s.KeyFrom = "fresh"
		}
		kl := keyLen
		if rapid.IntRange(0, 5).Draw(t, l+"otherlen") == 0 {
			kl = rapid.IntRange(1, 80).Draw(t, l+"kl")
		}
		s.Key = genBytes(t, kl, l+"key")
		if rapid.IntRange(0, 3).Draw(t, l+"fc_known") != 0 {
			s.FC = rapid.SampledFrom(kdfFCs).Draw(t, l+"fc")
		} else {
			s.FC = rapid.Byte().Draw(t, l+"fc_any")
		}
		np := rapid.IntRange(0, 4).Draw(t, l+"np")
		for j := 0; j < np; j++ {
			pl := rapid.IntRange(0, 40).Draw(t, fmt.Sprintf("%sp%d_len", l, j))
			if rapid.IntRange(0, 19).Draw(t, fmt.Sprintf("%sp%d_big", l, j)) == 0 {
				pl = rapid.SampledFrom([]int{255, 256, 257, 300, 1000}).Draw(t, fmt.Sprintf("%sp%d_biglen", l, j))
			}
			s.Params = append(s.Params, genBytes(t, pl, fmt.Sprintf("%sp%d", l, j)))
		}
		c.Steps = append(c.Steps, s)
	}
	nr := rapid.IntRange(0, 3).Draw(t, "nrekey")
	for i := 0; i < nr; i++ {
		c.Rekey = append(c.Rekey, genBytes(t, 32, fmt.Sprintf("kamf%d", i)))
	}
	c.EncAlg = uint8(rapid.IntRange(0, 3).Draw(t, "enc"))
	c.IntAlg = uint8(rapid.IntRange(0, 3).Draw(t, "int"))
	c.InPlace = rapid.Bool().Draw(t, "in_place")
	return c
}

func kdfOracle(c kdfCase) ev.Verdict {
	v := ev.Verdict{NT: len(c.Steps) >= 2 || len(c.Rekey) >= 2}
	bufs := [2][]byte{make([]byte, 0, 128), make([]byte, 0, 128)}
	var prev []byte
	reused := false
	for i, s := range c.Steps {
		var key []byte
		switch s.KeyFrom {
		case "fresh":
			key = append([]byte{}, s.Key...)
		case "buf0", "buf1":
			j := int(s.KeyFrom[3] - '0')
			if len(bufs[j]) > 0 {
				reused = true
			}
			bufs[j] = append(bufs[j][:0], s.Key...) // same backing array, new contents
			key = bufs[j]
		case "prev":
			key = prev
		}
		want := refcrypto.KDF(append([]byte{}, key...), s.FC, s.Params...)
		keySnap := append([]byte{}, key...)
		var args [][]byte
		var snaps [][]byte
		var embs []*embedded
		for _, p := range s.Params {
			e := emb(p) // a parameter is usually a slice of something larger (RAND inside a message, a name inside a buffer)
			embs = append(embs, e)
			pp := e.s()
			args = append(args, pp, UeauCommon.KDFLen(pp))
			snaps = append(snaps, append([]byte{}, p...))
		}
		var got []byte
		if err, site := ev.Guard(func() error { got = UeauCommon.GetKDFValue(key, fmt.Sprintf("%02X", s.FC), args...); return nil }); site != "" {
			v.Key, v.Err = "kdf:panic:"+site, err
			return v
		}
		if !bytes.Equal(got, want) {
			v.Key = "kdf:value"
			if i > 0 {
				v.Key = "kdf:value-depends-on-earlier-calls"
			}
			v.Err = fmt.Errorf("call %d (key from %s, %d octets, FC %02x, %d parameters): GetKDFValue = %x, TS 33.220 B.2 gives %x", i, s.KeyFrom, len(key), s.FC, len(s.Params), got, want)
			return v
		}
		if !bytes.Equal(key, keySnap) {
			v.Key, v.Err = "kdf:key-modified", fmt.Errorf("call %d modified its key", i)
			return v
		}
		for j := range snaps {
			if !embs[j].intact() {
				v.Key, v.Err = "kdf:param-memory-modified", fmt.Errorf("call %d wrote into or behind parameter %d", i, j)
				return v
			}
			if !bytes.Equal(args[2*j], snaps[j]) {
				v.Key, v.Err = "kdf:param-modified", fmt.Errorf("call %d modified parameter %d", i, j)
				return v
			}
			if l := args[2*j+1]; len(l) != 2 || int(l[0])<<8|int(l[1]) != len(snaps[j]) {
				v.Key, v.Err = "kdf:len", fmt.Errorf("KDFLen of %d octets = %x", len(snaps[j]), l)
				return v
			}
		}
		prev = got
		v.Classes = append(v.Classes, "kdf-key:"+s.KeyFrom)
	}
	if reused {
		v.Classes = append(v.Classes, "kdf:key-buffer-rewritten-between-calls")
	}
	// algorithm keys re-derived after K_AMF changed (TS 33.501 A.8: P0 = algorithm type distinguisher, P1 = algorithm id)
	if len(c.Rekey) > 0 {
		ue := tglib.NewRanUeContext("imsi-00101000000001", 1, c.EncAlg, c.IntAlg)
		for i, kamf := range c.Rekey {
			if c.InPlace && len(ue.Kamf) == len(kamf) {
				copy(ue.Kamf, kamf)
				v.Classes = append(v.Classes, "kamf:replaced-in-place")
			} else {
				ue.Kamf = append([]byte{}, kamf...)
			}
			if err, site := ev.Guard(func() error { ue.DerivateAlgKey(); return nil }); site != "" {
				v.Key, v.Err = "algkey:panic:"+site, err
				return v
			}
			wantEnc := refcrypto.KDF(kamf, 0x69, []byte{0x01}, []byte{c.EncAlg})[16:]
			wantInt := refcrypto.KDF(kamf, 0x69, []byte{0x02}, []byte{c.IntAlg})[16:]
			if !bytes.Equal(ue.KnasEnc[:], wantEnc) || !bytes.Equal(ue.KnasInt[:], wantInt) {
				v.Key = "algkey"
				if i > 0 {
					v.Key = "algkey:depends-on-earlier-derivation"
				}
				v.Err = fmt.Errorf("derivation %d of the algorithm keys (K_AMF %x, enc %d, int %d): K_NASenc %x K_NASint %x, TS 33.501 A.8 gives %x / %x", i, kamf, c.EncAlg, c.IntAlg, ue.KnasEnc, ue.KnasInt, wantEnc, wantInt)
				return v
			}
		}
	}
	return v
}

func TestC05_KDF(t *testing.T) {
	r := ev.New(t, "C05", "TestC05_KDF")
	ev.Run(t, r, genKDFCase, kdfOracle)
}
