package pb

import (
	"io"

	naslogger "free5gclib/nas/logger"
	"github.com/sirupsen/logrus"
	"bytes"
	"encoding/base64"
	"encoding/hex"
	"fmt"
	"os"

	"free5gclib/nas"
	"free5gclib/nas/nasMessage"
	"free5gclib/nas/nasTestpacket"
	"free5gclib/nas/nasType"
	"free5gclib/openapi/models"
	"pgregory.net/rapid"
)

func hx(s string) []byte {
	b, err := hex.DecodeString(s)
	if err != nil {
		panic(err)
	}
	return b
}

func genBytes(t *rapid.T, n int, label string) []byte {
	return rapid.SliceOfN(rapid.Byte(), n, n).Draw(t, label)
}


// genPayload: message octets. Mostly uniform; one case in five structured the way real NAS contents are — long runs of
// one value (zero padding, 0xFF fillers), a few non-zero octets in a zero field, the same block repeated — so that
// whole 4/8/16-octet blocks are zero or equal to their neighbours.
func genPayload(t *rapid.T, n int, label string) []byte {
	if n == 0 {
		return []byte{}
	}
	switch rapid.IntRange(0, 9).Draw(t, label+"_shape") {
	case 0:
		b := make([]byte, n)
		fill := rapid.SampledFrom([]byte{0x00, 0x00, 0xff, 0x2b}).Draw(t, label+"_fill")
		for i := range b {
			b[i] = fill
		}
		k := rapid.IntRange(0, 6).Draw(t, label+"_marks")
		for i := 0; i < k; i++ {
			b[rapid.IntRange(0, n-1).Draw(t, label+"_markpos")] = rapid.Byte().Draw(t, label+"_mark")
		}
		if rapid.Bool().Draw(t, label+"_head") {
			b[0] = rapid.ByteRange(1, 255).Draw(t, label+"_head0")
		}
		return b
	case 1:
		blk := rapid.SliceOfN(rapid.Byte(), 1, 16).Draw(t, label+"_blk")
		b := make([]byte, n)
		for i := range b {
			b[i] = blk[i%len(blk)]
		}
		return b
	}
	return rapid.SliceOfN(rapid.Byte(), n, n).Draw(t, label)
}

// withNASLogLevel runs f with the NAS library's logger at the given logrus level (output discarded) and restores it.
// The emulator never changes the level; the results of the library must not depend on it all the same.
func withNASLogLevel(level string, f func()) {
	lg := naslogger.SecurityLog.Logger
	old, oldOut := lg.GetLevel(), lg.Out
	if lv, err := logrus.ParseLevel(level); err == nil && level != "" {
		lg.SetLevel(lv)
		lg.SetOutput(io.Discard)
		defer func() { lg.SetLevel(old); lg.SetOutput(oldOut) }()
	}
	f()
}

var logLevels = []string{"", "", "", "", "", "debug", "trace", "error"}

// gen128: uniform 128-bit value plus the edge patterns named in DESIGN §5 (all-00, all-FF, single bit).
func gen128(t *rapid.T, label string) []byte {
	switch rapid.IntRange(0, 11).Draw(t, label+"_kind") {
	case 0:
		return make([]byte, 16)
	case 1:
		return bytes.Repeat([]byte{0xff}, 16)
	case 2:
		k := make([]byte, 16)
		b := rapid.IntRange(0, 127).Draw(t, label+"_bit")
		k[b/8] = 0x80 >> uint(b%8)
		return k
	}
	return genBytes(t, 16, label)
}

func a16(b []byte) (r [16]byte) { copy(r[:], b); return }
func a6(b []byte) (r [6]byte)   { copy(r[:], b); return }

// 24-bit NAS COUNT model: the n-th message (n counted from 0) uses COUNT n mod 2^24.
func modelCount(n uint64) uint32 { return uint32(n & 0xffffff) }

// estimateCount is the receiver-side NAS COUNT estimate of TS 24.501 §4.4.3.1 / TS 33.501 §6.4.3.1:
// same overflow unless the received sequence number is smaller than the last one, then overflow+1.
func estimateCount(prev uint32, sqn uint8) uint32 {
	ov := prev >> 8
	if uint8(prev) > sqn {
		ov++
	}
	return (ov<<8 | uint32(sqn)) & 0xffffff
}

// payload lengths: mostly small (uniform ⇒ every residue mod 4/8/16), sometimes up to 600, sometimes around
// multiples of 16.
func genPadLen(t *rapid.T, label string) int {
	if rapid.IntRange(0, 29).Draw(t, label+"_long") == 0 {
		// long containers (TLV-E / LV-E hold up to 65535 octets): around the powers of two, where keystream
		// blocks, block counters and two-octet lengths carry
		if rapid.Bool().Draw(t, label+"_pow") {
			return (1 << uint(rapid.IntRange(10, 15).Draw(t, label+"_p"))) + rapid.IntRange(-20, 20).Draw(t, label+"_pd")
		}
		return rapid.IntRange(601, 40000).Draw(t, label+"_l")
	}
	switch rapid.IntRange(0, 9).Draw(t, label+"_kind") {
	case 0, 1, 2, 3, 4, 5:
		return rapid.IntRange(0, 48).Draw(t, label)
	case 6, 7:
		return rapid.IntRange(49, 200).Draw(t, label)
	case 8:
		return 16*rapid.IntRange(1, 30).Draw(t, label+"_b") + rapid.IntRange(-8, 8).Draw(t, label+"_d")
	}
	return rapid.IntRange(201, 600).Draw(t, label)
}

// ---------------------------------------------------------------------------------------
// Uplink plain messages: built with the library's own constructors (free5gclib/nas/nasTestpacket), arguments drawn.

type ulMsgSpec struct {
	Kind   string `json:"kind"`
	A      uint8  `json:"a,omitempty"`
	B      uint8  `json:"b,omitempty"`
	C      uint8  `json:"c,omitempty"`
	S      string `json:"s,omitempty"`
	Bytes1 []byte `json:"bytes1,omitempty"`
	Bytes2 []byte `json:"bytes2,omitempty"`
	Opt    int    `json:"opt,omitempty"`
}

var ulKinds = []string{
	"RegistrationRequest", "RegistrationComplete", "SecurityModeComplete", "AuthenticationResponse", "AuthenticationResponseEAP",
	"AuthenticationFailure", "ServiceRequest", "DeregistrationRequest", "DeregistrationAccept", "ConfigurationUpdateComplete",
	"IdentityResponse", "SecurityModeReject", "Status5GMM",
	"ULNAS_EstablishmentRequest", "ULNAS_ReleaseRequest", "ULNAS_ReleaseComplete", "ULNAS_Common", "ULNAS_Status5GSM",
	"GSM_EstablishmentRequest", "GSM_ReleaseRequest", "GSM_ReleaseComplete", "GSM_ModificationRequest", "GSM_Status", "GSM_AuthenticationComplete",
}

// the variable-length kinds get most of the weight (the envelope is length sensitive, the message type is not)
var ulKindGen = rapid.OneOf(
	rapid.SampledFrom([]string{"RegistrationComplete", "SecurityModeComplete", "RegistrationRequest", "ULNAS_EstablishmentRequest", "AuthenticationResponseEAP", "IdentityResponse"}),
	rapid.SampledFrom([]string{"RegistrationComplete", "SecurityModeComplete", "RegistrationRequest", "ULNAS_EstablishmentRequest", "AuthenticationResponseEAP", "IdentityResponse"}),
	rapid.SampledFrom(ulKinds),
)

var commonTypes = []string{nasTestpacket.PDUSesModiReq, nasTestpacket.PDUSesModiCmp, nasTestpacket.PDUSesModiCmdRej, nasTestpacket.PDUSesRelReq,
	nasTestpacket.PDUSesRelCmp, nasTestpacket.PDUSesRelRej, nasTestpacket.PDUSesAuthCmp}

func genSuci(t *rapid.T, label string) []byte {
	// 5GS mobile identity, SUCI / IMSI / null scheme: type octet, PLMN(3), routing indicator(2), scheme, key id, MSIN BCD
	n := rapid.IntRange(1, 5).Draw(t, label+"_msin")
	b := []byte{0x01}
	b = append(b, genBytes(t, 3, label+"_plmn")...)
	b = append(b, 0xf0, 0xff, 0x00, 0x00)
	return append(b, genBytes(t, n, label+"_digits")...)
}

func genULMsg(t *rapid.T, label string) ulMsgSpec {
	m := ulMsgSpec{Kind: ulKindGen.Draw(t, label+"kind")}
	u8 := func(l string) uint8 { return rapid.Uint8().Draw(t, label+l) }
	switch m.Kind {
	case "RegistrationRequest":
		m.A = uint8(rapid.IntRange(1, 4).Draw(t, label+"regtype"))
		m.Bytes1 = genSuci(t, label+"suci")
		m.Opt = rapid.IntRange(0, 3).Draw(t, label+"opt") // bit0: 5GMM capability, bit1: NAS message container
		m.B, m.C = u8("cap0"), u8("cap1")
		if m.Opt&2 != 0 {
			m.Bytes2 = genPayload(t, genPadLen(t, label+"pad"), label+"container")
		}
	case "RegistrationComplete", "SecurityModeComplete":
		m.Opt = rapid.IntRange(0, 4).Draw(t, label+"opt") // 0: no container
		if m.Opt != 0 {
			m.Bytes1 = genPayload(t, genPadLen(t, label+"pad"), label+"container")
		}
	case "AuthenticationResponse":
		m.Bytes1 = genBytes(t, 16, label+"res")
	case "AuthenticationResponseEAP":
		m.Bytes1 = genPayload(t, 1+genPadLen(t, label+"pad"), label+"eap")
	case "AuthenticationFailure":
		m.A = rapid.SampledFrom([]uint8{nasMessage.Cause5GMMSynchFailure, nasMessage.Cause5GMMMACFailure, nasMessage.Cause5GMMngKSIAlreadyInUse}).Draw(t, label+"cause")
		m.Bytes1 = genBytes(t, 14, label+"auts")
	case "ServiceRequest":
		m.A = uint8(rapid.IntRange(0, 3).Draw(t, label+"svc"))
	case "DeregistrationRequest":
		m.A = uint8(rapid.IntRange(1, 3).Draw(t, label+"access"))
		m.B = uint8(rapid.IntRange(0, 1).Draw(t, label+"switchoff"))
		m.C = uint8(rapid.IntRange(0, 7).Draw(t, label+"ksi"))
		m.Bytes1 = genSuci(t, label+"suci")
	case "IdentityResponse":
		m.Bytes1 = genBytes(t, 1+genPadLen(t, label+"pad")%64, label+"id")
	case "SecurityModeReject", "Status5GMM":
		m.A = u8("cause")
	case "ULNAS_EstablishmentRequest", "ULNAS_ReleaseComplete":
		m.A, m.B = u8("psi"), uint8(rapid.IntRange(1, 5).Draw(t, label+"reqtype"))
		m.S = rapid.StringOfN(rapid.RuneFrom([]rune("abcdefghijklmnopqrstuvwxyz0123456789.-")), 0, 60, -1).Draw(t, label+"dnn")
		m.Opt = rapid.IntRange(0, 2).Draw(t, label+"snssai") // 0 none, 1 sst only ("" sd), 2 sst+sd
		m.C = u8("sst")
		m.Bytes1 = genBytes(t, 3, label+"sd")
	case "ULNAS_ReleaseRequest", "GSM_EstablishmentRequest", "GSM_ReleaseRequest", "GSM_ReleaseComplete", "GSM_ModificationRequest", "GSM_AuthenticationComplete":
		m.A = u8("psi")
	case "ULNAS_Common":
		m.A = u8("psi")
		m.Opt = rapid.IntRange(0, len(commonTypes)-1).Draw(t, label+"type")
	case "ULNAS_Status5GSM", "GSM_Status":
		m.A, m.B = u8("psi"), u8("cause")
	}
	return m
}

func (m ulMsgSpec) snssai() *models.Snssai {
	switch m.Opt {
	case 1:
		return &models.Snssai{Sst: int32(m.C)}
	case 2:
		return &models.Snssai{Sst: int32(m.C), Sd: hex.EncodeToString(m.Bytes1)}
	}
	return nil
}

// build calls the library constructor named by Kind.
func (m ulMsgSpec) build() []byte {
	switch m.Kind {
	case "RegistrationRequest":
		id := nasType.MobileIdentity5GS{Len: uint16(len(m.Bytes1)), Buffer: append([]byte{}, m.Bytes1...)}
		sc := &nasType.UESecurityCapability{Iei: nasMessage.RegistrationRequestUESecurityCapabilityType, Len: 2, Buffer: []byte{m.B, m.C}}
		var cap5 *nasType.Capability5GMM
		if m.Opt&1 != 0 {
			cap5 = &nasType.Capability5GMM{Iei: nasMessage.RegistrationRequestCapability5GMMType, Len: 1, Octet: [13]uint8{m.B & 0x07}}
		}
		var cont []byte
		if m.Opt&2 != 0 {
			cont = append([]byte{}, m.Bytes2...)
		}
		return nasTestpacket.GetRegistrationRequest(m.A, id, nil, sc, cap5, cont, nil)
	case "RegistrationComplete":
		if m.Opt == 0 {
			return nasTestpacket.GetRegistrationComplete(nil)
		}
		return nasTestpacket.GetRegistrationComplete(append([]byte{}, m.Bytes1...))
	case "SecurityModeComplete":
		if m.Opt == 0 {
			return nasTestpacket.GetSecurityModeComplete(nil)
		}
		return nasTestpacket.GetSecurityModeComplete(append([]byte{}, m.Bytes1...))
	case "AuthenticationResponse":
		return nasTestpacket.GetAuthenticationResponse(append([]byte{}, m.Bytes1...), "")
	case "AuthenticationResponseEAP":
		return nasTestpacket.GetAuthenticationResponse(nil, base64.StdEncoding.EncodeToString(m.Bytes1))
	case "AuthenticationFailure":
		return nasTestpacket.GetAuthenticationFailure(m.A, append([]byte{}, m.Bytes1...))
	case "ServiceRequest":
		return nasTestpacket.GetServiceRequest(m.A)
	case "DeregistrationRequest":
		id := nasType.MobileIdentity5GS{Len: uint16(len(m.Bytes1)), Buffer: append([]byte{}, m.Bytes1...)}
		return nasTestpacket.GetDeregistrationRequest(m.A, m.B, m.C, id)
	case "DeregistrationAccept":
		return nasTestpacket.GetDeregistrationAccept()
	case "ConfigurationUpdateComplete":
		return nasTestpacket.GetConfigurationUpdateComplete()
	case "IdentityResponse":
		return nasTestpacket.GetIdentityResponse(nasType.MobileIdentity{Len: uint16(len(m.Bytes1)), Buffer: append([]byte{}, m.Bytes1...)})
	case "SecurityModeReject":
		return nasTestpacket.GetSecurityModeReject(m.A)
	case "Status5GMM":
		return nasTestpacket.GetStatus5GMM(m.A)
	case "ULNAS_EstablishmentRequest":
		return nasTestpacket.GetUlNasTransport_PduSessionEstablishmentRequest(m.A, m.B, m.S, m.snssai())
	case "ULNAS_ReleaseComplete":
		return nasTestpacket.GetUlNasTransport_PduSessionReleaseComplete(m.A, m.B, m.S, m.snssai())
	case "ULNAS_ReleaseRequest":
		return nasTestpacket.GetUlNasTransport_PduSessionReleaseRequest(m.A)
	case "ULNAS_Common":
		return nasTestpacket.GetUlNasTransport_PduSessionCommonData(m.A, commonTypes[m.Opt%len(commonTypes)])
	case "ULNAS_Status5GSM":
		return nasTestpacket.GetUlNasTransport_Status5GSM(m.A, m.B)
	case "GSM_EstablishmentRequest":
		return nasTestpacket.GetPduSessionEstablishmentRequest(m.A)
	case "GSM_ReleaseRequest":
		return nasTestpacket.GetPduSessionReleaseRequest(m.A)
	case "GSM_ReleaseComplete":
		return nasTestpacket.GetPduSessionReleaseComplete(m.A)
	case "GSM_ModificationRequest":
		return nasTestpacket.GetPduSessionModificationRequest(m.A)
	case "GSM_Status":
		return nasTestpacket.GetStatus5GSM(m.A, m.B)
	case "GSM_AuthenticationComplete":
		return nasTestpacket.GetPduSessionAuthenticationComplete(m.A)
	}
	panic("harness: unknown uplink message kind " + m.Kind)
}

// plainCanonical: decode a copy of the bytes with the plain codec and re-encode. The plain codec is not what
// C06/C10 are about (C08/C09 are); it defines which nas.Message value a byte string denotes.
func plainCanonical(pdu []byte) (msg *nas.Message, enc []byte, err error) {
	cp := append([]byte{}, pdu...)
	msg = nas.NewMessage()
	if err = msg.PlainNasDecode(&cp); err != nil {
		return nil, nil, err
	}
	enc, err = msg.PlainNasEncode()
	return msg, enc, err
}

// ---------------------------------------------------------------------------------------
// Downlink plain messages: written octet by octet from TS 24.501 §8.2 / §8.3 (the library has no constructors for
// them). A generated message is only used if the library's plain codec maps it to itself (decode → encode gives the
// same octets), i.e. if it is a message PlainNasDecode accepts losslessly; anything else is counted as out of domain.

type dlMsgSpec struct {
	Kind   string `json:"kind"`
	A      uint8  `json:"a,omitempty"`
	B      uint8  `json:"b,omitempty"`
	C      uint8  `json:"c,omitempty"`
	Bytes1 []byte `json:"bytes1,omitempty"`
	Bytes2 []byte `json:"bytes2,omitempty"`
	Opt    int    `json:"opt,omitempty"`
}

var dlKinds = []string{
	"AuthenticationRequest", "SecurityModeCommand", "RegistrationAccept", "ConfigurationUpdateCommand", "DLNASTransport", "ServiceAccept",
	"DeregistrationAccept", "DeregistrationRequestUETerminated", "IdentityRequest", "AuthenticationReject", "RegistrationReject",
	"ServiceReject", "Status5GMM", "Notification",
	"GSM_EstablishmentAccept", "GSM_ReleaseCommand", "GSM_EstablishmentReject", "GSM_Status",
}

var dlVarKinds = []string{"DLNASTransport", "RegistrationAccept", "ConfigurationUpdateCommand", "GSM_EstablishmentAccept", "SecurityModeCommand"}

var dlKindGen = rapid.OneOf(rapid.SampledFrom(dlVarKinds), rapid.SampledFrom(dlVarKinds), rapid.SampledFrom(dlKinds))

func genDLMsg(t *rapid.T, label string) dlMsgSpec {
	m := dlMsgSpec{Kind: dlKindGen.Draw(t, label+"kind")}
	u8 := func(l string) uint8 { return rapid.Uint8().Draw(t, label+l) }
	switch m.Kind {
	case "AuthenticationRequest":
		m.A = uint8(rapid.IntRange(0, 14).Draw(t, label+"ksi"))
		m.Bytes1, m.Bytes2 = genBytes(t, 16, label+"rand"), genBytes(t, 16, label+"autn")
	case "SecurityModeCommand":
		m.A = uint8(rapid.IntRange(0, 2).Draw(t, label+"ea"))<<4 | uint8(rapid.IntRange(0, 2).Draw(t, label+"ia"))
		m.B = uint8(rapid.IntRange(0, 14).Draw(t, label+"ksi"))
		m.Bytes1 = genBytes(t, rapid.IntRange(2, 8).Draw(t, label+"caplen"), label+"cap")
		m.Opt = rapid.IntRange(0, 7).Draw(t, label+"opt")
		m.C = u8("c")
	case "RegistrationAccept":
		m.A = uint8(rapid.IntRange(1, 3).Draw(t, label+"result"))
		m.Opt = rapid.IntRange(0, 31).Draw(t, label+"opt")
		m.Bytes1 = genBytes(t, 10, label+"guti")
		m.B, m.C = u8("sst"), u8("timer")
		if m.Opt&16 != 0 {
			m.Bytes2 = genPayload(t, 1+genPadLen(t, label+"pad"), label+"sor")
		}
	case "ConfigurationUpdateCommand":
		m.Opt = rapid.IntRange(0, 15).Draw(t, label+"opt")
		m.Bytes1 = genBytes(t, 10, label+"guti")
		m.B = u8("tz")
		if m.Opt&4 != 0 {
			m.Bytes2 = genBytes(t, 1+genPadLen(t, label+"pad")%200, label+"name")
		}
	case "DLNASTransport":
		m.A = uint8(rapid.IntRange(1, 6).Draw(t, label+"ctype"))
		m.Bytes1 = genPayload(t, 1+genPadLen(t, label+"pad"), label+"container")
		m.Opt = rapid.IntRange(0, 15).Draw(t, label+"opt")
		m.B, m.C = u8("psi"), u8("cause")
		if m.Opt&2 != 0 {
			m.Bytes2 = genBytes(t, rapid.IntRange(1, 20).Draw(t, label+"ailen"), label+"ai")
		}
	case "ServiceAccept":
		m.Opt = rapid.IntRange(0, 3).Draw(t, label+"opt")
		m.Bytes1 = genBytes(t, 4, label+"status")
	case "DeregistrationRequestUETerminated":
		m.A = uint8(rapid.IntRange(0, 15).Draw(t, label+"type"))
		m.Opt = rapid.IntRange(0, 1).Draw(t, label+"opt")
		m.C = u8("cause")
	case "IdentityRequest":
		m.A = uint8(rapid.IntRange(1, 5).Draw(t, label+"idtype"))
	case "RegistrationReject":
		m.A = u8("cause")
		m.Opt = rapid.IntRange(0, 1).Draw(t, label+"opt")
		m.C = u8("timer")
	case "ServiceReject", "Status5GMM":
		m.A = u8("cause")
	case "Notification":
		m.A = uint8(rapid.IntRange(1, 2).Draw(t, label+"access"))
	case "GSM_EstablishmentAccept":
		m.A, m.B = u8("psi"), u8("pti")
		m.C = uint8(rapid.IntRange(1, 3).Draw(t, label+"ssc"))<<4 | uint8(rapid.IntRange(1, 5).Draw(t, label+"ptype"))
		m.Bytes1 = genPayload(t, 1+genPadLen(t, label+"pad"), label+"qos")
		m.Bytes2 = genBytes(t, 11, label+"ambr_cause_addr")
		m.Opt = rapid.IntRange(0, 3).Draw(t, label+"opt")
	case "GSM_ReleaseCommand", "GSM_EstablishmentReject", "GSM_Status":
		m.A, m.B, m.C = u8("psi"), u8("pti"), u8("cause")
		m.Opt = rapid.IntRange(0, 1).Draw(t, label+"opt")
	}
	return m
}

func (m dlMsgSpec) build() []byte {
	guti := func() []byte { // TLV-E 0x77, 11 octets: type-of-identity octet 0xF2 (5G-GUTI) + PLMN(3) + AMF id(3) + 5G-TMSI(4)
		return append([]byte{0x77, 0x00, 0x0b, 0xf2}, pad(m.Bytes1, 10)...)
	}
	switch m.Kind {
	case "AuthenticationRequest": // §8.2.1: ngKSI (half octet + spare), ABBA LV, RAND TV 0x21, AUTN TLV 0x20
		b := []byte{0x7e, 0x00, 0x56, m.A & 0x0f, 0x02, 0x00, 0x00, 0x21}
		b = append(b, pad(m.Bytes1, 16)...)
		b = append(b, 0x20, 0x10)
		return append(b, pad(m.Bytes2, 16)...)
	case "SecurityModeCommand": // §8.2.25: selected NAS security algorithms V, ngKSI half octet, replayed UE security capabilities LV
		b := []byte{0x7e, 0x00, 0x5d, m.A, m.B & 0x0f, byte(len(m.Bytes1))}
		b = append(b, m.Bytes1...)
		if m.Opt&1 != 0 {
			b = append(b, 0xe1) // IMEISV request, TV half octet, "IMEISV requested"
		}
		if m.Opt&2 != 0 {
			b = append(b, 0x57, m.C&0x77) // selected EPS NAS security algorithms TV
		}
		if m.Opt&4 != 0 {
			b = append(b, 0x36, 0x01, m.C&0x03) // additional 5G security information TLV
		}
		return b
	case "RegistrationAccept": // §8.2.7: 5GS registration result LV, then optional IEs in table order
		b := []byte{0x7e, 0x00, 0x42, 0x01, m.A}
		if m.Opt&1 != 0 {
			b = append(b, guti()...)
		}
		if m.Opt&2 != 0 { // TAI list: one list of type 00 with one element
			b = append(b, 0x54, 0x07, 0x00)
			b = append(b, pad(m.Bytes1, 6)...)
		}
		if m.Opt&4 != 0 { // allowed NSSAI: one S-NSSAI with SST only
			b = append(b, 0x15, 0x02, 0x01, m.B)
		}
		if m.Opt&8 != 0 { // T3512 value, GPRS timer 3, TLV
			b = append(b, 0x5e, 0x01, m.C)
		}
		if m.Opt&16 != 0 { // SOR transparent container TLV-E
			b = append(b, 0x73, byte(len(m.Bytes2)>>8), byte(len(m.Bytes2)))
			b = append(b, m.Bytes2...)
		}
		return b
	case "ConfigurationUpdateCommand": // §8.2.19
		b := []byte{0x7e, 0x00, 0x54}
		if m.Opt&1 != 0 {
			b = append(b, 0xd1) // configuration update indication: ACK requested
		}
		if m.Opt&2 != 0 {
			b = append(b, guti()...)
		}
		if m.Opt&4 != 0 { // full name for network TLV
			b = append(b, 0x43, byte(len(m.Bytes2)))
			b = append(b, m.Bytes2...)
		}
		if m.Opt&8 != 0 { // local time zone TV
			b = append(b, 0x46, m.B)
		}
		return b
	case "DLNASTransport": // §8.2.11: payload container type half octet, payload container LV-E, optional IEs
		b := []byte{0x7e, 0x00, 0x68, m.A & 0x0f, byte(len(m.Bytes1) >> 8), byte(len(m.Bytes1))}
		b = append(b, m.Bytes1...)
		if m.Opt&1 != 0 {
			b = append(b, 0x12, m.B)
		}
		if m.Opt&2 != 0 {
			b = append(b, 0x24, byte(len(m.Bytes2)))
			b = append(b, m.Bytes2...)
		}
		if m.Opt&4 != 0 {
			b = append(b, 0x58, m.C)
		}
		if m.Opt&8 != 0 {
			b = append(b, 0x37, 0x01, m.C)
		}
		return b
	case "ServiceAccept": // §8.2.17
		b := []byte{0x7e, 0x00, 0x4e}
		if m.Opt&1 != 0 {
			b = append(b, 0x50, 0x02)
			b = append(b, pad(m.Bytes1, 4)[:2]...)
		}
		if m.Opt&2 != 0 {
			b = append(b, 0x26, 0x02)
			b = append(b, pad(m.Bytes1, 4)[2:]...)
		}
		return b
	case "DeregistrationAccept": // UE originating, §8.2.13
		return []byte{0x7e, 0x00, 0x46}
	case "DeregistrationRequestUETerminated": // §8.2.14
		b := []byte{0x7e, 0x00, 0x47, m.A & 0x0f}
		if m.Opt&1 != 0 {
			b = append(b, 0x58, m.C)
		}
		return b
	case "IdentityRequest":
		return []byte{0x7e, 0x00, 0x5b, m.A & 0x07}
	case "AuthenticationReject":
		return []byte{0x7e, 0x00, 0x58}
	case "RegistrationReject":
		b := []byte{0x7e, 0x00, 0x44, m.A}
		if m.Opt&1 != 0 {
			b = append(b, 0x5f, 0x01, m.C)
		}
		return b
	case "ServiceReject":
		return []byte{0x7e, 0x00, 0x4d, m.A}
	case "Status5GMM":
		return []byte{0x7e, 0x00, 0x64, m.A}
	case "Notification":
		return []byte{0x7e, 0x00, 0x65, m.A & 0x03}
	case "GSM_EstablishmentAccept": // §8.3.2: selected PDU session type + SSC mode, authorized QoS rules LV-E, session AMBR LV
		amb := pad(m.Bytes2, 11)
		b := []byte{0x2e, m.A, m.B, 0xc2, m.C, byte(len(m.Bytes1) >> 8), byte(len(m.Bytes1))}
		b = append(b, m.Bytes1...)
		b = append(b, 0x06)
		b = append(b, amb[:6]...)
		if m.Opt&1 != 0 {
			b = append(b, 0x59, amb[6])
		}
		if m.Opt&2 != 0 { // PDU address, IPv4
			b = append(b, 0x29, 0x05, 0x01)
			b = append(b, amb[7:11]...)
		}
		return b
	case "GSM_ReleaseCommand":
		b := []byte{0x2e, m.A, m.B, 0xd3, m.C}
		if m.Opt&1 != 0 {
			b = append(b, 0x37, 0x01, m.C)
		}
		return b
	case "GSM_EstablishmentReject":
		return []byte{0x2e, m.A, m.B, 0xc3, m.C}
	case "GSM_Status":
		return []byte{0x2e, m.A, m.B, 0xd6, m.C}
	}
	panic("harness: unknown downlink message kind " + m.Kind)
}

func pad(b []byte, n int) []byte {
	out := make([]byte, n)
	copy(out, b)
	return out
}

func lenClasses(prefix string, n int) []string {
	return []string{fmt.Sprintf("%slen%%16=%d", prefix, n%16)}
}

// captureStdout runs f with os.Stdout redirected into a pipe and returns what f printed (tglib.NASDecode reports
// the outcome of its MAC verification only by printing). The tests are single-threaded, so the swap is safe.
func captureStdout(f func()) string {
	old := os.Stdout
	rd, wr, err := os.Pipe()
	if err != nil {
		f()
		return ""
	}
	done := make(chan []byte, 1)
	go func() {
		b, _ := io.ReadAll(rd)
		done <- b
	}()
	os.Stdout = wr
	func() {
		defer func() {
			os.Stdout = old
			wr.Close()
		}()
		f()
	}()
	b := <-done
	rd.Close()
	return string(b)
}
