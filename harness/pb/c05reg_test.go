package pb

import (
	"bytes"
	"encoding/hex"
	"fmt"
	"strings"
	"syscall"
	"testing"
	"time"

	"free5gclib/ngap"
	"free5gclib/ngap/ngapType"
	"github.com/ishidawataru/sctp"
	"pgregory.net/rapid"
	"stgutg"

	"verifh/ev"
	"verifh/refcrypto"
	"verifh/refsec"
)

// C05, caller level — the part of the property that lives in stgutg.RegisterUE: which serving network name and
// which MNC/MCC strings the caller hands to the derivation. The real RegisterUE runs in-process on one end of an
// AF_UNIX SOCK_SEQPACKET socketpair (message boundaries like SCTP; sctp.NewSCTPConn is public API); the other end is
// a minimal scripted AMF in this file that always answers with decodable NGAP PDUs, so that RegisterUE runs to its
// normal return (it would os.Exit on any read/decode error). What the network side checks:
//   * Authentication Response carries RES* = XRES* (reference, SNN of TS 24.501 §9.12.1)
//   * Security Mode Complete (header type 4, COUNT 0) and Registration Complete (type 2, COUNT 1) verify under
//     K_NASint derived by the reference from K_AUSF(SNN) → K_SEAF → K_AMF(SUPI) — i.e. the UE installed the keys a
//     conformant AMF holds; NEA0/NIA2 are what CreateUE announces.
// NGAP framing uses the library's own codec on the harness side (subject of C03/C04, not of this property).

type c05RegCase struct {
	K     []byte `json:"k"`
	OP    []byte `json:"op"`
	Mode  string `json:"mode"`
	RAND  []byte `json:"rand"`
	AUTN  []byte `json:"autn"`
	MCC   string `json:"mcc"`
	MNC   string `json:"mnc"`
	MSIN  string `json:"msin"` // at least one digit
	AmfID int64  `json:"amf_ue_ngap_id"`
}

func genC05Reg(t *rapid.T) c05RegCase {
	c := c05RegCase{K: gen128(t, "k"), OP: gen128(t, "op"), Mode: rapid.SampledFrom(c05Modes).Draw(t, "mode"), RAND: gen128(t, "rand"),
		AUTN: genBytes(t, 16, "autn"), MCC: genDigits(t, 3, "mcc")}
	c.MNC = genDigits(t, rapid.IntRange(2, 3).Draw(t, "mnclen"), "mnc")
	c.MSIN = genDigits(t, rapid.IntRange(1, 15-3-len(c.MNC)).Draw(t, "msinlen"), "msin")
	c.AmfID = rapid.SampledFrom([]int64{0, 1, 1 << 32, 1<<40 - 1}).Draw(t, "amfid")
	return c
}

func dlNasTransportPDU(amfID, ranID int64, nasPdu []byte) ([]byte, error) {
	var pdu ngapType.NGAPPDU
	pdu.Present = ngapType.NGAPPDUPresentInitiatingMessage
	pdu.InitiatingMessage = new(ngapType.InitiatingMessage)
	im := pdu.InitiatingMessage
	im.ProcedureCode.Value = ngapType.ProcedureCodeDownlinkNASTransport
	im.Criticality.Value = ngapType.CriticalityPresentIgnore
	im.Value.Present = ngapType.InitiatingMessagePresentDownlinkNASTransport
	im.Value.DownlinkNASTransport = new(ngapType.DownlinkNASTransport)
	l := &im.Value.DownlinkNASTransport.ProtocolIEs
	ie := ngapType.DownlinkNASTransportIEs{}
	ie.Id.Value = ngapType.ProtocolIEIDAMFUENGAPID
	ie.Criticality.Value = ngapType.CriticalityPresentReject
	ie.Value.Present = ngapType.DownlinkNASTransportIEsPresentAMFUENGAPID
	ie.Value.AMFUENGAPID = &ngapType.AMFUENGAPID{Value: amfID}
	l.List = append(l.List, ie)
	ie = ngapType.DownlinkNASTransportIEs{}
	ie.Id.Value = ngapType.ProtocolIEIDRANUENGAPID
	ie.Criticality.Value = ngapType.CriticalityPresentReject
	ie.Value.Present = ngapType.DownlinkNASTransportIEsPresentRANUENGAPID
	ie.Value.RANUENGAPID = &ngapType.RANUENGAPID{Value: ranID}
	l.List = append(l.List, ie)
	ie = ngapType.DownlinkNASTransportIEs{}
	ie.Id.Value = ngapType.ProtocolIEIDNASPDU
	ie.Criticality.Value = ngapType.CriticalityPresentReject
	ie.Value.Present = ngapType.DownlinkNASTransportIEsPresentNASPDU
	ie.Value.NASPDU = &ngapType.NASPDU{Value: nasPdu}
	l.List = append(l.List, ie)
	return ngap.Encoder(pdu)
}

// uplinkNasPdu extracts the NAS-PDU of an UplinkNASTransport.
func uplinkNasPdu(b []byte) ([]byte, error) {
	p, err := ngap.Decoder(b)
	if err != nil {
		return nil, err
	}
	if p.Present != ngapType.NGAPPDUPresentInitiatingMessage || p.InitiatingMessage == nil || p.InitiatingMessage.Value.UplinkNASTransport == nil {
		return nil, fmt.Errorf("not an UplinkNASTransport")
	}
	for _, ie := range p.InitiatingMessage.Value.UplinkNASTransport.ProtocolIEs.List {
		if ie.Id.Value == ngapType.ProtocolIEIDNASPDU && ie.Value.NASPDU != nil {
			return []byte(ie.Value.NASPDU.Value), nil
		}
	}
	return nil, fmt.Errorf("UplinkNASTransport without NAS-PDU")
}

type regSeen struct {
	authResp, smComplete, regComplete []byte
	errs                              []string
}

func c05RegOracle(r *ev.Rec) func(c c05RegCase) ev.Verdict {
	return func(c c05RegCase) (v ev.Verdict) {
		v.NT = true
		v.Classes = []string{"reg:" + c.Mode, fmt.Sprintf("reg:mnc%d", len(c.MNC))}
		if len(c.K) != 16 || len(c.OP) != 16 || len(c.RAND) != 16 || len(c.AUTN) != 16 || len(c.MCC) != 3 || (len(c.MNC) != 2 && len(c.MNC) != 3) ||
			len(c.MSIN) < 1 || len(c.MSIN) > 15-3-len(c.MNC) || c.AmfID < 0 || c.AmfID >= 1<<40 {
			v.Skip = true
			return v
		}
		fail := func(key, f string, a ...interface{}) ev.Verdict {
			v.Key, v.Err = key, fmt.Errorf(f, a...)
			return v
		}
		// --- network side values
		k, op, rnd := a16(c.K), a16(c.OP), a16(c.RAND)
		opc := refcrypto.OPc(k, op)
		mil := refcrypto.Milenage(k, opc, rnd, [6]byte{}, [2]byte{})
		snn, err := refsec.SNN(c.MCC, c.MNC)
		if err != nil {
			v.Skip = true
			return v
		}
		imsi := c.MCC + c.MNC + c.MSIN
		want := refcrypto.Derive5G(mil.CK, mil.IK, mil.Res, rnd, a6(c.AUTN[:6]), snn, imsi, 0, 2) // CreateUE: NEA0 / NIA2
		ctx := refsec.Ctx{KnasEnc: want.KnasEnc, KnasInt: want.KnasInt, EA: 0, IA: 2}

		fds, err := syscall.Socketpair(syscall.AF_UNIX, syscall.SOCK_SEQPACKET, 0)
		if err != nil {
			v.Skip = true // no such socket type here: infrastructure, not a verdict
			return v
		}
		ueFd, amfFd := fds[0], fds[1]
		defer syscall.Close(amfFd)
		defer syscall.Close(ueFd)

		var opcHex, opHex string
		switch c.Mode {
		case "op-only":
			opHex = hex.EncodeToString(c.OP)
		case "opc-only":
			opcHex = hex.EncodeToString(opc[:])
		default:
			opcHex, opHex = hex.EncodeToString(opc[:]), strings.ToUpper(hex.EncodeToString(c.OP))
		}
		ue := stgutg.CreateUE(imsi, 0, hex.EncodeToString(c.K), opcHex, opHex)

		// --- the scripted AMF. It never closes the socket and always answers with a decodable PDU: an error on its
		// side becomes part of the verdict, not the death of the process.
		done := make(chan regSeen, 1)
		go func() {
			var s regSeen
			buf := make([]byte, 8192)
			read := func() []byte {
				n, err := syscall.Read(amfFd, buf)
				if err != nil || n <= 0 {
					s.errs = append(s.errs, fmt.Sprintf("read: n=%d err=%v", n, err))
					return nil
				}
				return append([]byte{}, buf[:n]...)
			}
			send := func(nasPdu []byte) {
				b, err := dlNasTransportPDU(c.AmfID, ue.RanUeNgapId, nasPdu)
				if err != nil {
					s.errs = append(s.errs, "harness: cannot encode DownlinkNASTransport: "+err.Error())
					return
				}
				if _, err := syscall.Write(amfFd, b); err != nil {
					s.errs = append(s.errs, "write: "+err.Error())
				}
			}
			nasOf := func(b []byte) []byte {
				if b == nil {
					return nil
				}
				p, err := uplinkNasPdu(b)
				if err != nil {
					s.errs = append(s.errs, err.Error())
				}
				return p
			}
			if read() == nil { // InitialUEMessage (Registration Request)
				done <- s
				return
			}
			send(dlMsgSpec{Kind: "AuthenticationRequest", A: 0, Bytes1: c.RAND, Bytes2: c.AUTN}.build())
			s.authResp = nasOf(read())
			smc, _ := ctx.Protect(refsec.HTIntegrityNew, 0, refsec.DirDownlink, dlMsgSpec{Kind: "SecurityModeCommand", A: 0x02, B: 0, Bytes1: []byte{0x80, 0x20}}.build())
			send(smc)
			s.smComplete = nasOf(read())
			ra, _ := ctx.Protect(refsec.HTIntegrityCiphered, 1, refsec.DirDownlink, dlMsgSpec{Kind: "RegistrationAccept", A: 1}.build())
			send(ra)
			read() // InitialContextSetupResponse
			s.regComplete = nasOf(read())
			cuc, _ := ctx.Protect(refsec.HTIntegrityCiphered, 2, refsec.DirDownlink, dlMsgSpec{Kind: "ConfigurationUpdateCommand"}.build())
			send(cuc)
			done <- s
		}()

		stop := r.Watchdog(c, "stgutg.RegisterUE against the scripted AMF", 60*time.Second)
		conn := sctp.NewSCTPConn(ueFd, nil)
		perr, site := ev.Guard(func() error {
			_ = captureStdout(func() { stgutg.RegisterUE(ue, c.MNC, c.MCC, conn) })
			return nil
		})
		var seen regSeen
		select {
		case seen = <-done:
		case <-time.After(30 * time.Second):
			seen.errs = append(seen.errs, "scripted AMF still waiting 30 s after RegisterUE returned")
		}
		stop()
		if perr != nil {
			return fail("panic:"+site, "RegisterUE: %v (AMF side: %v)", perr, seen.errs)
		}
		if len(seen.errs) > 0 {
			return fail("reg:conversation", "conversation did not run as scripted: %v", seen.errs)
		}
		// --- Authentication Response: 7e 00 57 | 2d 10 RES*
		ar := seen.authResp
		if len(ar) != 21 || ar[0] != 0x7e || ar[1] != 0 || ar[2] != 0x57 || ar[3] != 0x2d || ar[4] != 0x10 {
			return fail("reg:authresp-format", "Authentication Response %x is not 7e 00 57 2d 10 <RES*>", ar)
		}
		if !bytes.Equal(ar[5:], want.ResStar) {
			return fail("reg:resstar", "RES* sent by RegisterUE %x, AUSF expects %x (SNN %q from MCC %q MNC %q)", ar[5:], want.ResStar, snn, c.MCC, c.MNC)
		}
		// --- keys in use: Security Mode Complete (type 4, COUNT 0), Registration Complete (type 2, COUNT 1)
		if _, what, err := ctx.Open(seen.smComplete, refsec.HTIntegrityCipherNew, 0, refsec.DirUplink); err != nil {
			key := "reg:smc-" + what
			if what == "mac" {
				key = "reg:keys" // the MAC of the first protected message does not verify under the network's K_NASint
			}
			return fail(key, "Security Mode Complete does not verify under the keys the network derived (SNN %q, SUPI %q): %v", snn, imsi, err)
		}
		if _, what, err := ctx.Open(seen.regComplete, refsec.HTIntegrityCiphered, 1, refsec.DirUplink); err != nil {
			return fail("reg:regcomplete-"+what, "Registration Complete does not verify under the network's keys at COUNT 1: %v", err)
		}
		// and the context the caller got back holds exactly those keys
		if !bytes.Equal(ue.Kamf, want.Kamf) || ue.KnasInt != want.KnasInt || ue.KnasEnc != want.KnasEnc {
			return fail("reg:context-keys", "UE context after RegisterUE: K_AMF %x, network %x", ue.Kamf, want.Kamf)
		}
		return v
	}
}

func TestC05_RegisterUE(t *testing.T) {
	r := ev.New(t, "C05", "TestC05_RegisterUE")
	ev.Run(t, r, genC05Reg, c05RegOracle(r))
}
