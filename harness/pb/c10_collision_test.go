package pb

import (
	"bytes"
	"crypto/aes"
	"encoding/binary"
	"fmt"
	"runtime"
	"sync"
	"sync/atomic"
	"testing"

	"free5gclib/nas"
	"tglib"

	"verifh/ev"
	"verifh/refcrypto"
	"verifh/refsec"
)

// TestC10_MacCollision (a search of about 2^32 AES pairs on all cores; one case in the quick tier, two in the thorough): the first message after a wrap of
// the sequence number whose 32-bit MAC happens to be the same under the COUNT the AMF used (overflow+1) and under the
// COUNT a receiver would get WITHOUT the wrap (overflow). TS 24.501 4.4.3.1 has the receiver estimate the COUNT from
// the sequence number alone: a smaller sequence number means the overflow counter went up. A receiver that first
// tries the old overflow counter "in case the message was overtaken" and believes a MAC that verifies picks the wrong
// COUNT once in 2^32 wraps - and then deciphers with it. The message is found by search: the last block of the MAC
// input (inside an opaque payload container) is varied until both tags agree in their first four octets.

type c10CollCase struct {
	Int   []byte `json:"knas_int"`
	Enc   []byte `json:"knas_enc"`
	EA    uint8  `json:"ea"`
	Count uint32 `json:"count"` // the AMF's COUNT of the message (first after a wrap: sequence number small)
	Tail  []byte `json:"container_tail"`
}

func TestC10_MacCollision(t *testing.T) {
	r := ev.New(t, "C10", "TestC10_MacCollision")
	defer r.Flush()
	var cases []c10CollCase
	if p := ev.Replay(); p != "" {
		t.Skip("replay of a collision case goes through its own search; nothing to replay from a file")
	}
	seed := uint64(ev.Seed())*0x9E3779B97F4A7C15 + 12345
	next := func() uint64 {
		seed += 0x9E3779B97F4A7C15
		z := seed
		z = (z ^ (z >> 30)) * 0xBF58476D1CE4E5B9
		z = (z ^ (z >> 27)) * 0x94D049BB133111EB
		return z ^ (z >> 31)
	}
	key := func() []byte {
		b := make([]byte, 16)
		binary.BigEndian.PutUint64(b, next())
		binary.BigEndian.PutUint64(b[8:], next())
		return b
	}
	for _, ea := range []uint8{2, 0} {
		cases = append(cases, c10CollCase{Int: key(), Enc: key(), EA: ea, Count: 0x000200 + uint32(next()%4)})
	}
	if ev.Tier() != "thorough" {
		cases = cases[:1] // one search (about ten seconds on sixteen cores) in the quick tier
	}
	for _, c := range cases {
		v := c10Collision(&c)
		if !r.Each(t, c, v) {
			return
		}
	}
}

func c10Collision(c *c10CollCase) ev.Verdict {
	v := ev.Verdict{NT: true, Classes: []string{fmt.Sprintf("NEA%d", c.EA)}}
	ctx := refsec.Ctx{KnasEnc: a16(c.Enc), KnasInt: a16(c.Int), EA: c.EA, IA: 2}
	cTrue := c.Count      // what the AMF used
	cOld := c.Count - 256 // what a receiver gets that does not count the wrap
	const blocks = 4
	total := 16 * blocks
	contLen := total - 9 - 6
	mk := func(count uint32, body []byte) []byte {
		in := make([]byte, 8, total)
		binary.BigEndian.PutUint32(in, count)
		in[4] = byte(refsec.Bearer3GPP<<3 | refsec.DirDownlink<<2)
		return append(append(in, byte(c.Count)), body...)
	}
	plain0 := append([]byte{0x7e, 0x00, 0x68, 0x01, byte(contLen >> 8), byte(contLen)}, expandBytes(uint64(c.Count)+7, contLen)...)
	body, err := ctx.Cipher(cTrue, refsec.DirDownlink, plain0)
	if err != nil {
		v.Skip = true
		return v
	}
	blk, _ := aes.NewCipher(c.Int)
	var zero, l [16]byte
	blk.Encrypt(l[:], zero[:])
	k1 := c10dbl(l)
	chain := func(m []byte) (x [16]byte) {
		for i := 0; i < blocks-1; i++ {
			for j := 0; j < 16; j++ {
				x[j] ^= m[16*i+j]
			}
			blk.Encrypt(x[:], x[:])
		}
		return
	}
	x1, x2 := chain(mk(cOld, body)), chain(mk(cTrue, body))
	var d [16]byte
	for j := range d {
		d[j] = x1[j] ^ x2[j]
	}
	// search A with trunc32(E(A)) == trunc32(E(A xor D))
	var found atomic.Value
	var stop int32
	var wg sync.WaitGroup
	nw := runtime.NumCPU()
	per := uint64(1) << 35 / uint64(nw) // expected 2^32 trials in total; give up after 8 times that
	for w := 0; w < nw; w++ {
		wg.Add(1)
		go func(w int) {
			defer wg.Done()
			b, _ := aes.NewCipher(c.Int)
			var a, a2, e1, e2 [16]byte
			binary.BigEndian.PutUint64(a[8:], uint64(w)<<48|uint64(c.Count))
			for i := uint64(0); i < per; i++ {
				if i&0xfffff == 0 && atomic.LoadInt32(&stop) != 0 {
					return
				}
				binary.BigEndian.PutUint64(a[:8], i)
				for j := 0; j < 16; j++ {
					a2[j] = a[j] ^ d[j]
				}
				b.Encrypt(e1[:], a[:])
				b.Encrypt(e2[:], a2[:])
				if e1[0] == e2[0] && e1[1] == e2[1] && e1[2] == e2[2] && e1[3] == e2[3] {
					found.Store(a)
					atomic.StoreInt32(&stop, 1)
					return
				}
			}
		}(w)
	}
	wg.Wait()
	fa, ok := found.Load().([16]byte)
	if !ok {
		v.Skip = true
		v.Classes = append(v.Classes, "search-budget-exhausted")
		return v
	}
	in := mk(cTrue, body)
	for j := 0; j < 16; j++ {
		in[total-16+j] = fa[j] ^ x1[j] ^ k1[j]
	}
	body = in[9:]
	macTrue := refcrypto.EIA2(ctx.KnasInt, cTrue, refsec.Bearer3GPP, refsec.DirDownlink, in[8:])
	macOld := refcrypto.EIA2(ctx.KnasInt, cOld, refsec.Bearer3GPP, refsec.DirDownlink, in[8:])
	if macTrue != macOld {
		panic(fmt.Sprintf("harness error: the message found has MAC %x at COUNT %#x and %x at COUNT %#x", macTrue, cTrue, macOld, cOld))
	}
	c.Tail = append([]byte{}, in[total-16:]...)
	plain, _ := ctx.Cipher(cTrue, refsec.DirDownlink, body)
	if _, canon, err := plainCanonical(plain); err != nil || !bytes.Equal(canon, plain) {
		v.Skip = true
		return v
	}
	wire := append(append([]byte{0x7e, 0x02}, macTrue[:]...), in[8:]...)
	ue := tglib.NewRanUeContext("imsi-2089300000001", 1, c.EA, 2)
	ue.KnasEnc, ue.KnasInt = ctx.KnasEnc, ctx.KnasInt
	last := cOld + 0xf0 // the UE has received up to sequence number (sqn+0xf0) of the previous cycle
	if last >= cTrue {
		last = cTrue - 1
	}
	ue.DLCount.Set(uint16(last>>8), uint8(last))
	var got *nas.Message
	var derr error
	perr, site := ev.Guard(func() error {
		got, derr = tglib.NASDecode(ue, nas.GetSecurityHeaderType(wire), append([]byte{}, wire...))
		return nil
	})
	if g := ue.DLCount.Get(); g != cTrue {
		v.Key, v.Err = "mac-collision:dlcount", fmt.Errorf("first message after the wrap (sequence number %d, previous COUNT %#x, MAC %x valid at COUNT %#x and, by coincidence, at %#x): the UE's downlink COUNT is %#x afterwards, the AMF used %#x", byte(cTrue), last, macTrue, cTrue, cOld, g, cTrue)
		return v
	}
	var enc []byte
	if site == "" && derr == nil && got != nil {
		enc, derr = got.PlainNasEncode()
	}
	if site != "" || derr != nil || !bytes.Equal(enc, plain) {
		v.Key, v.Err = "mac-collision:payload", fmt.Errorf("first message after the wrap (MAC %x valid at COUNT %#x and at %#x): the UE returns %x (error %v, panic %v %s), the AMF protected %x", macTrue, cTrue, cOld, trunc(enc, 40), derr, perr, site, trunc(plain, 40))
		return v
	}
	return v
}
