package pb

import (
	"bytes"
	"testing"

	"verifh/refcrypto"
	"verifh/refsec"
)

// The driver runs ^TestSelf before every check: if a reference fails its own known answers nothing it
// would say about the code under test could be believed (exit 2, never a verdict).

func TestSelfCrypto(t *testing.T) {
	if err := refcrypto.SelfTest(); err != nil {
		t.Fatal(err)
	}
}

func TestSelfRefsec(t *testing.T) {
	if err := refsec.SelfTest(); err != nil {
		t.Fatal(err)
	}
}

// The counter model of C06/C10 and the hand-written downlink message builders are new code too.
func TestSelfModels(t *testing.T) {
	// 24-bit NAS COUNT model
	for _, c := range []struct {
		n        uint64
		cnt      uint32
		sqn      uint8
		overflow uint16
	}{{0, 0, 0, 0}, {255, 255, 255, 0}, {256, 256, 0, 1}, {0xffffff, 0xffffff, 0xff, 0xffff}, {0x1000000, 0, 0, 0}, {0x1000001, 1, 1, 0}} {
		m := modelCount(c.n)
		if m != c.cnt || uint8(m) != c.sqn || uint16(m>>8) != c.overflow {
			t.Fatalf("modelCount(%d) = %#x", c.n, m)
		}
	}
	// UE-side downlink COUNT estimate (TS 24.501 §4.4.3.1) used as the *model* in C10
	for _, c := range []struct{ prev, sqn, want uint32 }{{0, 0, 0}, {0, 5, 5}, {0xfe, 0x03, 0x103}, {0x1ff, 0x00, 0x200}, {0x100, 0xff, 0x1ff}, {0xfffe, 0x01, 0x10001}} {
		if got := estimateCount(c.prev, uint8(c.sqn)); got != c.want {
			t.Fatalf("estimateCount(%#x,%#x) = %#x want %#x", c.prev, c.sqn, got, c.want)
		}
	}
	// hand-written downlink messages: fixed octets of TS 24.501 §8.2.1 (Authentication Request) and
	// §8.2.25 (Security Mode Command), table 9.7.1 message types
	ar := dlMsgSpec{Kind: "AuthenticationRequest", A: 3, Bytes1: bytes.Repeat([]byte{0x11}, 16), Bytes2: bytes.Repeat([]byte{0x22}, 16)}.build()
	want := append(append([]byte{0x7e, 0x00, 0x56, 0x03, 0x02, 0x00, 0x00, 0x21}, bytes.Repeat([]byte{0x11}, 16)...), append([]byte{0x20, 0x10}, bytes.Repeat([]byte{0x22}, 16)...)...)
	if !bytes.Equal(ar, want) {
		t.Fatalf("AuthenticationRequest builder: %x", ar)
	}
	smc := dlMsgSpec{Kind: "SecurityModeCommand", A: 0x02, B: 1, Bytes1: []byte{0x80, 0x20}}.build()
	if !bytes.Equal(smc, []byte{0x7e, 0x00, 0x5d, 0x02, 0x01, 0x02, 0x80, 0x20}) {
		t.Fatalf("SecurityModeCommand builder: %x", smc)
	}
	dl := dlMsgSpec{Kind: "DLNASTransport", A: 1, Bytes1: []byte{1, 2, 3}, B: 5, Opt: 1}.build()
	if !bytes.Equal(dl, []byte{0x7e, 0x00, 0x68, 0x01, 0x00, 0x03, 1, 2, 3, 0x12, 0x05}) {
		t.Fatalf("DLNASTransport builder: %x", dl)
	}
}
