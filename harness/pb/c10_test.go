package pb

import (
	"bytes"
	"fmt"
	"reflect"
	"strings"
	"testing"

	"free5gclib/nas"
	"free5gclib/nas/nasTestpacket"
	"free5gclib/ngap/ngapType"
	"pgregory.net/rapid"
	"tglib"

	"verifh/ev"
	"verifh/refsec"
)

// C10 — downlink NAS messages from a conformant AMF are recovered exactly.
//
// Case: a whole downlink history as data. The AMF side (refsec on refcrypto) protects each drawn plain message with a
// drawn header type 0..4 at its DL NAS COUNT, may skip sequence numbers before a message (gap < 256), wraps the 8-bit
// sequence number, and starts new security contexts (header types 3/4: COUNT restarts at 0, possibly new keys).
// The UE side is tglib.NASDecode(ue, nas.GetSecurityHeaderType(pdu), pdu) or tglib.GetNasPdu on a
// DownlinkNASTransport value with the NAS-PDU IE at a drawn position among other IEs.
// Domain limits taken from the property: NIA0 excluded, gaps < 256, no replays, COUNT never wraps at 2^24 (a
// conformant AMF re-keys before that).

type c10Op struct {
	Msg   dlMsgSpec `json:"msg"`
	HT    uint8     `json:"ht"`              // 0..4
	Skip  int       `json:"skip,omitempty"`  // sequence numbers the AMF skips before this message
	Via   string    `json:"via"`             // NASDecode | GetNasPdu
	Pos   int       `json:"pos,omitempty"`   // GetNasPdu: index of the NAS-PDU IE
	Other int       `json:"other,omitempty"` // GetNasPdu: bit mask of the other IEs present
	// new context (header types 3/4 only): if set, the new context has these keys/algorithms
	Enc []byte `json:"knas_enc,omitempty"`
	Int []byte `json:"knas_int,omitempty"`
	EA  uint8  `json:"ea,omitempty"`
	IA  uint8  `json:"ia,omitempty"`
	// Retx (header types 3/4 only, effective when the previous message also had such a header type): the AMF
	// retransmits the first message of the new context (T3560 expired) - same header type, but the downlink NAS
	// COUNT is not reset a second time: it is incremented as for every retransmitted message (TS 24.501 4.4.3.1)
	Retx bool `json:"retransmission,omitempty"`
	// ReAuth: before this message arrives the UE answers a new authentication challenge (DeriveRESstarAndSetKey on the
	// same context: K_AUSF..K_AMF and the algorithm keys of the NEXT, still partial context). The context in use - and
	// with it the downlink COUNT - stays what it is until a Security Mode Command takes the new one into use
	// (TS 33.501 6.9.4). Only effective under NEA0: the emulator overwrites K_NASenc at once, so a ciphered
	// message of the old context could not be read by the unchanged tree either.
	ReAuth bool `json:"re_authentication_before,omitempty"`
	// UL: before this message arrives the UE sends an uplink message through tglib.EncodeNasPduWithSecurity: "plain"
	// (an AUTHENTICATION RESPONSE without security context, as RegisterUE sends it) or "protected" (integrity protected
	// and ciphered under the context in use). Uplink traffic uses the uplink COUNT; the downlink estimate is not its
	// business.
	UL string `json:"uplink_before,omitempty"`
}

type c10Case struct {
	Log string `json:"nas_log_level,omitempty"` // logrus level of the NAS library's logger during the history ("" = default)
	Enc   []byte  `json:"knas_enc"`
	Int   []byte  `json:"knas_int"`
	EA    uint8   `json:"ea"`
	IA    uint8   `json:"ia"`
	// Kamf: the context holds a K_AMF, as every context does that registered (RegisterUE derives it); the tests set the
	// algorithm keys directly, which leaves it empty otherwise
	Kamf  bool    `json:"has_kamf,omitempty"`
	Last  uint32  `json:"last_count"` // DL NAS COUNT of the last message the UE received in this context (0: none yet)
	ULCnt uint32  `json:"ul_count"`   // UE's uplink counter (must not be touched by downlink processing)
	Ops   []c10Op `json:"ops"`
}

func genSkip(t *rapid.T, label string) int {
	switch rapid.IntRange(0, 9).Draw(t, label+"_kind") {
	case 0, 1, 2, 3, 4:
		return 0
	case 5, 6:
		return rapid.IntRange(1, 40).Draw(t, label)
	case 7:
		return rapid.IntRange(41, 254).Draw(t, label)
	case 8:
		return 254
	}
	return rapid.IntRange(100, 254).Draw(t, label)
}

func genC10Op(skipHeavy bool) func(t *rapid.T) c10Op {
	return func(t *rapid.T) c10Op {
		op := c10Op{Msg: genDLMsg(t, ""), Via: rapid.SampledFrom([]string{"NASDecode", "GetNasPdu"}).Draw(t, "via")}
		// header types: mostly 1/2 (the steady state), sometimes plain, sometimes a new context
		op.HT = rapid.SampledFrom([]uint8{0, 1, 1, 1, 2, 2, 2, 2, 3, 4}).Draw(t, "ht")
		if op.Msg.Kind == "SecurityModeCommand" && rapid.Bool().Draw(t, "smc3") {
			op.HT = 3 // as every real AMF sends it
		}
		if op.HT == 0 && op.Msg.Kind[:4] == "GSM_" {
			// a bare 5GSM message is never an N1 message of its own (TS 24.501 §8.3: it rides in a DL NAS TRANSPORT);
			// as the *inner* message of a protected one it merely exercises the other EPD of the plain codec
			op.HT = 2
		}
		if op.HT == 1 || op.HT == 2 {
			if skipHeavy {
				op.Skip = rapid.IntRange(0, 254).Draw(t, "skip")
			} else {
				op.Skip = genSkip(t, "skip")
			}
		}
		if rapid.IntRange(0, 11).Draw(t, "reauth") == 5 {
			op.ReAuth = true
		}
		if rapid.IntRange(0, 7).Draw(t, "uplink") == 3 {
			op.UL = rapid.SampledFrom([]string{"plain", "plain", "protected"}).Draw(t, "uplink_kind")
		}
		if op.HT >= 3 && rapid.IntRange(0, 2).Draw(t, "retx") == 1 {
			op.Retx = true
		}
		if op.HT >= 3 && !op.Retx && rapid.Bool().Draw(t, "newkeys") {
			op.Enc, op.Int = gen128(t, "enc"), gen128(t, "int")
			op.EA, op.IA = uint8(rapid.IntRange(0, 2).Draw(t, "ea")), uint8(rapid.IntRange(1, 2).Draw(t, "ia"))
		}
		if op.Via == "GetNasPdu" {
			op.Other = rapid.IntRange(0, 127).Draw(t, "other")
			op.Pos = rapid.IntRange(0, 7).Draw(t, "pos")
		}
		return op
	}
}

func genC10N(minOps, maxOps int, skipHeavy bool) func(t *rapid.T) c10Case {
	return func(t *rapid.T) c10Case {
		c := c10Case{Enc: gen128(t, "enc"), Int: gen128(t, "int"), EA: uint8(rapid.IntRange(0, 2).Draw(t, "ea")), IA: uint8(rapid.IntRange(1, 2).Draw(t, "ia")),
			ULCnt: genCount24(t, "ul")}
		switch rapid.IntRange(0, 5).Draw(t, "last_kind") {
		case 0, 1, 2:
			c.Last = 0
		case 3:
			c.Last = rapid.SampledFrom([]uint32{0xf0, 0xfe, 0xff, 0xfff0, 0xfffe, 0xffff, 0x0100, 0xfeff00, 0x7fffff}).Draw(t, "last_edge")
		default:
			c.Last = rapid.Uint32Range(0, 0xff0000).Draw(t, "last")
		}
		// the history is one rapid slice value: rapid can drop and simplify single operations when shrinking
		c.Ops = rapid.SliceOfN(rapid.Custom(genC10Op(skipHeavy)), minOps, maxOps).Draw(t, "ops")
		c.Log = rapid.SampledFrom(logLevels).Draw(t, "nas_log_level")
		c.Kamf = rapid.Bool().Draw(t, "has_kamf")
		return c
	}
}

// buildDLTransport: an ngapType.DownlinkNASTransport value with the NAS-PDU IE at index pos (clamped) among the other
// IEs of TS 38.413 §9.2.5.2 selected by the mask.
func buildDLTransport(pdu []byte, pos, mask int) *ngapType.DownlinkNASTransport {
	mk := func(id int64, present int, set func(v *ngapType.DownlinkNASTransportIEsValue)) ngapType.DownlinkNASTransportIEs {
		ie := ngapType.DownlinkNASTransportIEs{}
		ie.Id.Value = id
		ie.Criticality.Value = ngapType.CriticalityPresentReject
		ie.Value.Present = present
		set(&ie.Value)
		return ie
	}
	var others []ngapType.DownlinkNASTransportIEs
	if mask&1 != 0 {
		others = append(others, mk(ngapType.ProtocolIEIDAMFUENGAPID, ngapType.DownlinkNASTransportIEsPresentAMFUENGAPID, func(v *ngapType.DownlinkNASTransportIEsValue) {
			v.AMFUENGAPID = &ngapType.AMFUENGAPID{Value: 1<<40 - 1}
		}))
	}
	if mask&2 != 0 {
		others = append(others, mk(ngapType.ProtocolIEIDRANUENGAPID, ngapType.DownlinkNASTransportIEsPresentRANUENGAPID, func(v *ngapType.DownlinkNASTransportIEsValue) {
			v.RANUENGAPID = &ngapType.RANUENGAPID{Value: 38} // a value equal to the NAS-PDU IE id
		}))
	}
	if mask&4 != 0 {
		others = append(others, mk(ngapType.ProtocolIEIDOldAMF, ngapType.DownlinkNASTransportIEsPresentOldAMF, func(v *ngapType.DownlinkNASTransportIEsValue) {
			v.OldAMF = &ngapType.AMFName{Value: "amf.old"}
		}))
	}
	if mask&8 != 0 {
		others = append(others, mk(ngapType.ProtocolIEIDRANPagingPriority, ngapType.DownlinkNASTransportIEsPresentRANPagingPriority, func(v *ngapType.DownlinkNASTransportIEsValue) {
			v.RANPagingPriority = &ngapType.RANPagingPriority{Value: 38}
		}))
	}
	if mask&16 != 0 {
		others = append(others, mk(ngapType.ProtocolIEIDIndexToRFSP, ngapType.DownlinkNASTransportIEsPresentIndexToRFSP, func(v *ngapType.DownlinkNASTransportIEsValue) {
			v.IndexToRFSP = &ngapType.IndexToRFSP{Value: 1}
		}))
	}
	if mask&32 != 0 {
		others = append(others, mk(ngapType.ProtocolIEIDUEAggregateMaximumBitRate, ngapType.DownlinkNASTransportIEsPresentUEAggregateMaximumBitRate, func(v *ngapType.DownlinkNASTransportIEsValue) {
			v.UEAggregateMaximumBitRate = &ngapType.UEAggregateMaximumBitRate{UEAggregateMaximumBitRateDL: ngapType.BitRate{Value: 1000}, UEAggregateMaximumBitRateUL: ngapType.BitRate{Value: 1000}}
		}))
	}
	if mask&64 != 0 {
		others = append(others, mk(ngapType.ProtocolIEIDAllowedNSSAI, ngapType.DownlinkNASTransportIEsPresentAllowedNSSAI, func(v *ngapType.DownlinkNASTransportIEsValue) {
			v.AllowedNSSAI = &ngapType.AllowedNSSAI{List: []ngapType.AllowedNSSAIItem{{}}}
		}))
	}
	nasIE := mk(ngapType.ProtocolIEIDNASPDU, ngapType.DownlinkNASTransportIEsPresentNASPDU, func(v *ngapType.DownlinkNASTransportIEsValue) {
		v.NASPDU = &ngapType.NASPDU{Value: pdu}
	})
	if pos > len(others) {
		pos = len(others)
	}
	if pos < 0 {
		pos = 0
	}
	t := &ngapType.DownlinkNASTransport{}
	t.ProtocolIEs.List = append(t.ProtocolIEs.List, others[:pos]...)
	t.ProtocolIEs.List = append(t.ProtocolIEs.List, nasIE)
	t.ProtocolIEs.List = append(t.ProtocolIEs.List, others[pos:]...)
	return t
}

// what the UE handed back, reduced to octets
type plainOutcome struct {
	failed bool
	enc    []byte
}

func c10Oracle(c c10Case) (v ev.Verdict) {
	withNASLogLevel(c.Log, func() { v = c10Oracle0(c) })
	if c.Log != "" {
		v.Classes = append(v.Classes, "nas-log-level:"+c.Log)
		if v.Err != nil {
			v.Key = "loglevel-" + c.Log + ":" + v.Key
		}
	}
	return v
}

func c10Oracle0(c c10Case) (v ev.Verdict) {
	if len(c.Enc) != 16 || len(c.Int) != 16 || c.EA > 2 || c.IA < 1 || c.IA > 2 || c.Last > 0xffffff || c.ULCnt > 0xffffff {
		v.Skip = true
		return v
	}
	cls := map[string]bool{}
	defer func() {
		for k := range cls {
			v.Classes = append(v.Classes, k)
		}
	}()
	fail := func(step int, key, f string, a ...interface{}) ev.Verdict {
		v.Key, v.Err = key, fmt.Errorf("step %d: %s", step, fmt.Sprintf(f, a...))
		return v
	}
	ctx := refsec.Ctx{KnasEnc: a16(c.Enc), KnasInt: a16(c.Int), EA: c.EA, IA: c.IA}
	ue := tglib.NewRanUeContext("imsi-2089300000001", 1, c.EA, c.IA)
	ue.KnasEnc, ue.KnasInt = ctx.KnasEnc, ctx.KnasInt
	ue.DLCount.Set(uint16(c.Last>>8), uint8(c.Last))
	ue.ULCount.Set(uint16(c.ULCnt>>8), uint8(c.ULCnt))
	if c.Kamf {
		ue.Kamf = bytes.Repeat([]byte{0x5a}, 32)
		cls["context-holds-a-kamf"] = true
	}
	// AMF state
	last := c.Last    // COUNT of the last protected message sent in this context
	next := uint32(0) // COUNT of the next one
	if c.Last > 0 {
		next = c.Last + 1
	}
	wraps, skipAcrossWrap, ht13cipher := 0, false, false
	wantUL := c.ULCnt
	prevNew := false // the previous protected message carried a "new security context" header type
	cls[fmt.Sprintf("alg NIA%d/NEA%d", c.IA, c.EA)] = true

	for i, op := range c.Ops {
		plain := op.Msg.build()
		refMsg, canon, err := plainCanonical(plain)
		if err != nil || !bytes.Equal(canon, plain) {
			// not a message the plain codec carries losslessly: outside this property (C08/C09 look at the codec)
			cls["out-of-domain: "+op.Msg.Kind+" is not a fixed point of the plain codec"] = true
			v.Skip = true
			return v
		}
		cls["msg:"+op.Msg.Kind] = true
		cls[fmt.Sprintf("plain len%%16=%d", len(plain)%16)] = true
		if len(plain) >= 256 {
			cls["plain len>=256"] = true
		}
		if op.HT > 4 || (op.HT == 0 && plain[0] != refsec.EPD5GMM) {
			// (octet 2 of a 5GSM message is the PDU session identity, not a security header type)
			v.Skip = true
			return v
		}
		cls[fmt.Sprintf("ht%d", op.HT)] = true
		if op.ReAuth && ctx.EA == 0 && ue.CipheringAlg == 0 {
			ulBefore, dlBefore := ue.ULCount.Get(), ue.DLCount.Get()
			_, site := ev.Guard(func() error {
				subs := tglib.GetAuthSubscription("465b5ce8b199b49faa5f0a2ee238a6bc", "cd63cb71954a9f4e48a5994e37a02baf", "")
				var autn [16]byte
				autn[3] = byte(i)
				ue.DeriveRESstarAndSetKey(subs, autn, bytes.Repeat([]byte{byte(0x40 + i)}, 16), "5G:mnc093.mcc208.3gppnetwork.org", "93", "208")
				return nil
			})
			if site != "" {
				return fail(i, "reauth:panic:"+site, "DeriveRESstarAndSetKey on a context in use panicked")
			}
			if g, h := ue.ULCount.Get(), ue.DLCount.Get(); g != ulBefore || h != dlBefore {
				return fail(i, "reauth:counts-of-the-context-in-use-changed", "answering an authentication challenge changed the NAS COUNTs of the context in use: UL %#06x -> %#06x, DL %#06x -> %#06x (the new context only starts with the Security Mode Command)", ulBefore, g, dlBefore, h)
			}
			cls["re-authentication between downlink messages"] = true
		}
		if op.UL == "plain" || op.UL == "protected" {
			dlBefore := ue.DLCount.Get()
			var uerr error
			_, site := ev.Guard(func() error {
				if op.UL == "plain" {
					_, uerr = tglib.EncodeNasPduWithSecurity(ue, nasTestpacket.GetAuthenticationResponse(bytes.Repeat([]byte{byte(i)}, 16), ""), nas.SecurityHeaderTypePlainNas, false, false)
				} else {
					_, uerr = tglib.EncodeNasPduWithSecurity(ue, nasTestpacket.GetConfigurationUpdateComplete(), nas.SecurityHeaderTypeIntegrityProtectedAndCiphered, true, false)
				}
				return nil
			})
			if site != "" || uerr != nil {
				return fail(i, "uplink:"+op.UL+":refused", "sending a %s uplink message between downlink messages: error %v, panic at %q", op.UL, uerr, site)
			}
			if op.UL == "protected" {
				wantUL = (wantUL + 1) & 0xffffff
			}
			if g, h := ue.ULCount.Get(), ue.DLCount.Get(); g != wantUL || h != dlBefore {
				return fail(i, "uplink:"+op.UL+":counts", "a %s uplink message left UL NAS COUNT %#06x (want %#06x) and DL NAS COUNT %#06x (before: %#06x)", op.UL, g, wantUL, h, dlBefore)
			}
			cls["uplink message ("+op.UL+") between downlink messages"] = true
			if dlBefore >= 256 {
				cls["uplink message between downlink messages, DL overflow >= 1"] = true
			}
		}
		var pdu []byte
		used := last
		protected := op.HT != 0
		if !protected {
			pdu = append([]byte{}, plain...)
		} else {
			if refsec.NewContext(op.HT) && op.Retx && prevNew && next >= 1 && next <= 4 {
				used = next
				cls["new-context header retransmitted (COUNT not reset again)"] = true
			} else if refsec.NewContext(op.HT) {
				if op.Enc != nil {
					if len(op.Enc) != 16 || len(op.Int) != 16 || op.EA > 2 || op.IA < 1 || op.IA > 2 {
						v.Skip = true
						return v
					}
					ctx = refsec.Ctx{KnasEnc: a16(op.Enc), KnasInt: a16(op.Int), EA: op.EA, IA: op.IA}
					// what DeriveRESstarAndSetKey + the negotiated algorithms leave in the UE context
					ue.KnasEnc, ue.KnasInt, ue.CipheringAlg, ue.IntegrityAlg = ctx.KnasEnc, ctx.KnasInt, op.EA, op.IA
					cls["new-context: new keys"] = true
					cls[fmt.Sprintf("alg NIA%d/NEA%d", op.IA, op.EA)] = true
				}
				used = 0
				cls["new-context"] = true
			} else {
				if op.Skip < 0 {
					v.Skip = true
					return v
				}
				used = next + uint32(op.Skip)
				if used > 0xffffff {
					cls["out-of-domain: COUNT would wrap at 2^24"] = true
					v.Skip = true
					return v
				}
				// domain: a receiver that follows TS 24.501 §4.4.3.1 can track this sender (gap < 256, no replay)
				if estimateCount(last, uint8(used)) != used {
					cls["out-of-domain: gap >= 256"] = true
					v.Skip = true
					return v
				}
				if used>>8 != last>>8 {
					wraps++
					if op.Skip > 0 && next>>8 == last>>8 {
						skipAcrossWrap = true
					}
				}
				if op.Skip > 0 {
					cls["skip>0"] = true
				}
			}
			pdu, err = ctx.Protect(op.HT, used, refsec.DirDownlink, plain)
			if err != nil {
				v.Skip = true
				return v
			}
			if !refsec.Ciphered(op.HT) && ctx.EA != 0 {
				ht13cipher = true
			}
		}
		// --- UE side
		wire := append([]byte{}, pdu...)
		var got *nas.Message
		var derr error
		cls["via:"+op.Via] = true
		var perr error
		var site string
		printed := captureStdout(func() {
			perr, site = ev.Guard(func() error {
				if op.Via == "GetNasPdu" {
					got = tglib.GetNasPdu(ue, buildDLTransport(wire, op.Pos, op.Other))
					if got == nil {
						derr = fmt.Errorf("GetNasPdu returned nil")
					}
				} else {
					got, derr = tglib.NASDecode(ue, nas.GetSecurityHeaderType(wire), wire)
				}
				return nil
			})
		})
		// Observation only (the property is about the recovered message and the COUNT, and NASDecode does not return
		// the outcome of its MAC check): does the UE *report* a MAC failure for a message whose MAC is right?
		if protected && strings.Contains(printed, "NAS MAC verification failed") {
			cls["observation: UE printed 'NAS MAC verification failed' for a correctly protected message"] = true
		}
		desc := fmt.Sprintf("%s, header type %d, DL NAS COUNT %#06x (previous %#06x), NIA%d/NEA%d", op.Msg.Kind, op.HT, used, last, ctx.IA, ctx.EA)
		// the COUNT estimate first: a wrong estimate is the root cause of whatever happens to the payload
		if g := ue.DLCount.Get(); g != used {
			key := "dlcount"
			switch {
			case refsec.NewContext(op.HT) && g == estimateCount(last, uint8(used)):
				key = "dlcount:no-reset-on-new-context"
			case g == (used-256)&0xffffff:
				key = "dlcount:overflow-not-incremented"
			case g == (used+256)&0xffffff:
				key = "dlcount:overflow-incremented-wrongly"
			case !protected:
				key = "dlcount:changed-by-plain-message"
			}
			return fail(i, key, "%s: UE's DL NAS COUNT is %#06x afterwards, the AMF used %#06x (panic: %v)", desc, g, used, perr)
		}
		var gotOut plainOutcome
		if perr != nil || derr != nil || got == nil {
			gotOut.failed = true
		} else {
			enc, e := func() (b []byte, e error) {
				defer func() {
					if r := recover(); r != nil {
						e = fmt.Errorf("PlainNasEncode of the returned message panics: %v", r)
					}
				}()
				return got.PlainNasEncode()
			}()
			if e != nil {
				gotOut.failed = true
				derr = e
			} else {
				gotOut.enc = enc
			}
		}
		if gotOut.failed || !bytes.Equal(gotOut.enc, plain) {
			key := fmt.Sprintf("payload:ht%d:NEA%d", op.HT, ctx.EA)
			if protected && ctx.EA != 0 && len(wire) == len(pdu) {
				// Root-cause label. NASDecode deciphers in place, so the buffer handed to it shows what it did to
				// the payload; compare that with what particular wrong computations would have produced. (If a
				// future implementation stops working in place nothing matches and the generic key stays.)
				body, after := pdu[7:], wire[7:]
				is := func(cnt uint32, dir uint32) bool {
					p, _ := ctx.Cipher(cnt, dir, body)
					return bytes.Equal(p, after)
				}
				switch {
				case !refsec.Ciphered(op.HT) && !bytes.Equal(after, body):
					key = "D14:integrity-only-message-deciphered"
				case !refsec.Ciphered(op.HT):
				case is(used, refsec.DirUplink):
					key = "D2:deciphered-with-direction-uplink"
				case bytes.Equal(after, body):
					key = "cipher:not-deciphered"
				case is(used&0xff, refsec.DirDownlink):
					key = "cipher:count-without-overflow"
				case is((used+1)&0xffffff, refsec.DirDownlink), is((used-1)&0xffffff, refsec.DirDownlink):
					key = "cipher:count-off-by-one"
				case is(last, refsec.DirDownlink):
					key = "cipher:count-of-previous-message"
				}
			}
			if perr != nil && key[0] != 'D' {
				key = "panic:" + site
			}
			return fail(i, key, "%s: UE returns %x (error: %v, panic: %v), the AMF protected the plain message %x; on the wire %x",
				desc, gotOut.enc, derr, perr, plain, pdu)
		}
		// field-wise as well
		if !reflect.DeepEqual(got.GmmMessage, refMsg.GmmMessage) || !reflect.DeepEqual(got.GsmMessage, refMsg.GsmMessage) {
			return fail(i, "fields", "%s: same octets but the returned message value differs from the plain decoding", desc)
		}
		if g := ue.ULCount.Get(); g != wantUL {
			return fail(i, "ulcount-touched", "%s: UL NAS COUNT changed from %#06x to %#06x", desc, wantUL, g)
		}
		if protected {
			last, next = used, used+1
			prevNew = refsec.NewContext(op.HT)
		}
	}
	if wraps > 0 {
		cls["history: SQN wrap"] = true
	}
	if wraps > 1 {
		cls["history: >=2 SQN wraps"] = true
	}
	if skipAcrossWrap {
		cls["history: skip across a wrap"] = true
	}
	if ht13cipher {
		cls["history: integrity-only message with non-null cipher"] = true
	}
	v.NT = wraps > 0 || skipAcrossWrap || ht13cipher
	return v
}

func TestC10_Histories(t *testing.T) {
	r := ev.New(t, "C10", "TestC10_Histories")
	ev.Run(t, r, genC10N(1, 40, false), c10Oracle)
}

// TestC10_Wraps: longer histories with large skips, so that the 8-bit sequence number wraps several times.
func TestC10_Wraps(t *testing.T) {
	r := ev.New(t, "C10", "TestC10_Wraps")
	ev.Run(t, r, genC10N(20, 60, true), c10Oracle)
}

// ---------------------------------------------------------------------------------------
// Ciphertexts that look like something else. What the UE does with a ciphered message must not depend on what the
// CIPHERTEXT happens to look like: here the ciphering key is searched (by the harness, with the reference cipher)
// so that the ciphertext of the AMF's message begins like a plain 5GMM message (7E 00 <message type>), like a
// security-protected one (7E 01..04), or like a 5GSM message (2E .. C1..D6). With uniformly drawn keys such
// ciphertexts appear once in 10^4..10^6 messages.

type c10PrefixCase struct {
	Seed   uint64    `json:"seed"`
	EA     uint8     `json:"ea"` // 1 | 2
	IA     uint8     `json:"ia"`
	HT     uint8     `json:"ht"` // 2 | 4
	Target string    `json:"target"`
	Msg    dlMsgSpec `json:"msg"`
	Int    []byte    `json:"knas_int"`
}

func looksLike(target string, c []byte) bool {
	if len(c) < 3 {
		return false
	}
	switch target {
	case "plain-5gmm":
		return c[0] == 0x7e && c[1] == 0x00 && c[2] >= 0x41 && c[2] <= 0x68
	case "protected-5gmm":
		return c[0] == 0x7e && c[1] >= 1 && c[1] <= 4
	case "5gsm":
		return c[0] == 0x2e && c[2] >= 0xc1 && c[2] <= 0xd6
	}
	return false
}

func c10PrefixOracle(c c10PrefixCase) ev.Verdict {
	plain := c.Msg.build()
	if _, canon, err := plainCanonical(plain); err != nil || !bytes.Equal(canon, plain) || len(plain) < 3 || c.EA < 1 || c.EA > 2 || len(c.Int) != 16 {
		return ev.Verdict{Skip: true}
	}
	// search the ciphering key: K_i = splitmix(seed, i); the first message of a new context is ciphered at COUNT 0
	x := c.Seed
	next := func() uint64 {
		x += 0x9E3779B97F4A7C15
		z := x
		z = (z ^ (z >> 30)) * 0xBF58476D1CE4E5B9
		z = (z ^ (z >> 27)) * 0x94D049BB133111EB
		return z ^ (z >> 31)
	}
	budget := 3000000
	if c.EA == 1 {
		budget = 400000
	}
	var key [16]byte
	found := false
	for i := 0; i < budget && !found; i++ {
		a, b := next(), next()
		for j := 0; j < 8; j++ {
			key[j], key[8+j] = byte(a>>(8*uint(j))), byte(b>>(8*uint(j)))
		}
		ctx := refsec.Ctx{KnasEnc: key, EA: c.EA, IA: c.IA}
		ct, err := ctx.Cipher(0, refsec.DirDownlink, plain[:3])
		found = err == nil && looksLike(c.Target, ct)
	}
	if !found {
		return ev.Verdict{Skip: true, Classes: []string{"prefix-search:budget-exhausted"}}
	}
	hc := c10Case{Enc: key[:], Int: c.Int, EA: c.EA, IA: c.IA, Ops: []c10Op{{Msg: c.Msg, HT: c.HT, Via: "NASDecode"}}}
	v := c10Oracle(hc)
	v.NT = true
	v.Classes = append(v.Classes, "ciphertext-looks-like:"+c.Target, fmt.Sprintf("prefix NEA%d", c.EA))
	if v.Err != nil {
		v.Key = "ciphertext-looks-like-" + c.Target + ":" + v.Key
	}
	return v
}

func TestC10_CiphertextPrefix(t *testing.T) {
	r := ev.New(t, "C10", "TestC10_CiphertextPrefix")
	ev.Run(t, r, func(t *rapid.T) c10PrefixCase {
		c := c10PrefixCase{Seed: rapid.Uint64().Draw(t, "seed"), EA: uint8(rapid.IntRange(1, 2).Draw(t, "ea")), IA: uint8(rapid.IntRange(1, 2).Draw(t, "ia")),
			HT: rapid.SampledFrom([]uint8{2, 2, 4}).Draw(t, "ht"), Int: gen128(t, "int")}
		c.Target = rapid.SampledFrom([]string{"plain-5gmm", "protected-5gmm", "5gsm"}).Draw(t, "target")
		if c.EA == 1 && c.Target == "plain-5gmm" && rapid.IntRange(0, 3).Draw(t, "cheap") != 0 {
			c.Target = "protected-5gmm" // the SNOW 3G search is slow: mostly the 2^-14 targets
		}
		for i := 0; i < 20; i++ {
			c.Msg = genDLMsg(t, fmt.Sprintf("m%d", i))
			if len(c.Msg.Kind) < 4 || c.Msg.Kind[:4] != "GSM_" {
				break
			}
		}
		return c
	}, c10PrefixOracle)
}
