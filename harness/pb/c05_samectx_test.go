package pb

import (
	"bytes"
	"encoding/hex"
	"fmt"
	"strings"
	"testing"

	"pgregory.net/rapid"
	"tglib"

	"verifh/ev"
	"verifh/refcrypto"
	"verifh/refsec"
)

// TestC05_SameContext: several authentications of ONE UE context. RES* and the keys are a function of this run's
// K, OP/OPc, RAND, AUTN, serving network, SUPI and algorithm identifiers — whatever the same context answered
// before. Each step keeps the inputs of the previous step except for one dimension (or none: an exact repetition,
// as when the network retransmits the AUTHENTICATION REQUEST, or replays a fixed vector); in particular RAND and
// AUTN stay the same while something else changes, and the other way round.

type c05Step struct {
	Change string `json:"change"` // none | rand | autn | credentials | network | algorithms | supi
	RAND   []byte `json:"rand,omitempty"`
	AUTN   []byte `json:"autn,omitempty"`
	K      []byte `json:"k,omitempty"`
	OP     []byte `json:"op,omitempty"`
	Mode   string `json:"mode,omitempty"`
	MCC    string `json:"mcc,omitempty"`
	MNC    string `json:"mnc,omitempty"`
	MSIN   string `json:"msin,omitempty"`
	EncAlg uint8  `json:"enc_alg,omitempty"`
	IntAlg uint8  `json:"int_alg,omitempty"`
}

type c05CtxCase struct {
	Base  c05Case   `json:"first"`
	Steps []c05Step `json:"then"`
}

func genC05Ctx(t *rapid.T) c05CtxCase {
	c := c05CtxCase{Base: genC05(t)}
	c.Base.Stored, c.Base.StoredK, c.Base.StoredOP = "", nil, nil
	n := rapid.IntRange(1, 5).Draw(t, "steps")
	for i := 0; i < n; i++ {
		l := fmt.Sprintf("s%d_", i)
		s := c05Step{Change: rapid.SampledFrom([]string{"none", "rand", "autn", "credentials", "credentials", "network", "network", "algorithms", "algorithms", "supi"}).Draw(t, l+"change")}
		switch s.Change {
		case "rand":
			s.RAND = gen128(t, l+"rand")
		case "autn":
			s.AUTN = genBytes(t, 16, l+"autn")
		case "credentials":
			s.K, s.OP = gen128(t, l+"k"), gen128(t, l+"op")
			if rapid.Bool().Draw(t, l+"same_k") {
				s.K = nil // only the operator key differs
			}
			s.Mode = rapid.SampledFrom(c05Modes).Draw(t, l+"mode")
		case "network":
			s.MCC = genDigits(t, 3, l+"mcc")
			s.MNC = genDigits(t, len(c.Base.MNC), l+"mnc") // the SUPI keeps its digits; another serving network of the same MNC length
		case "algorithms":
			s.EncAlg, s.IntAlg = uint8(rapid.IntRange(0, 3).Draw(t, l+"enc")), uint8(rapid.IntRange(0, 3).Draw(t, l+"int"))
		case "supi":
			s.MSIN = genDigits(t, len(c.Base.MSIN), l+"msin")
		}
		c.Steps = append(c.Steps, s)
	}
	return c
}

func c05CtxOracle(c c05CtxCase) ev.Verdict {
	v := ev.Verdict{NT: true}
	b := c.Base
	if len(b.K) != 16 || len(b.OP) != 16 || len(b.RAND) != 16 || len(b.AUTN) != 16 || len(b.MCC) != 3 || (len(b.MNC) != 2 && len(b.MNC) != 3) ||
		len(b.MSIN) > 15-3-len(b.MNC) || b.EncAlg > 3 || b.IntAlg > 3 {
		v.Skip = true
		return v
	}
	hexs := func(x []byte) string {
		s := hex.EncodeToString(x)
		if b.Upper {
			s = strings.ToUpper(s)
		}
		return s
	}
	label := b.Label
	if label == "" {
		label = "imsi-"
	}
	// current inputs; the SUPI's own PLMN digits stay those of the first run, the serving network may change
	cur := b
	homeMCC, homeMNC := b.MCC, b.MNC
	ue := tglib.NewRanUeContext(label+homeMCC+homeMNC+cur.MSIN, 1, cur.EncAlg, cur.IntAlg)
	step := func(i int, what string) *ev.Verdict {
		k, op, rnd := a16(cur.K), a16(cur.OP), a16(cur.RAND)
		opc := refcrypto.OPc(k, op)
		mil := refcrypto.Milenage(k, opc, rnd, [6]byte{}, [2]byte{})
		snnSpec, err := refsec.SNN(cur.MCC, cur.MNC)
		if err != nil {
			v.Skip = true
			return &v
		}
		supiDigits := homeMCC + homeMNC + cur.MSIN
		want := refcrypto.Derive5G(mil.CK, mil.IK, mil.Res, rnd, a6(cur.AUTN[:6]), snnSpec, supiDigits, cur.EncAlg, cur.IntAlg)
		opcHex, opHex := hexs(opc[:]), hexs(cur.OP)
		switch cur.Mode {
		case "op-only":
			opcHex = ""
		case "opc-only":
			opHex = ""
		}
		arg := tglib.GetAuthSubscription(hexs(cur.K), opcHex, opHex)
		ue.AuthenticationSubs = arg
		ue.Supi = label + supiDigits
		ue.CipheringAlg, ue.IntegrityAlg = cur.EncAlg, cur.IntAlg
		var autn [16]byte
		copy(autn[:], cur.AUTN)
		res := ue.DeriveRESstarAndSetKey(arg, autn, append([]byte{}, cur.RAND...), callerSNN(cur.MNC, cur.MCC), cur.MNC, cur.MCC)
		bad := ""
		switch {
		case !bytes.Equal(res, want.ResStar):
			bad = fmt.Sprintf("RES* %x, the network expects %x", res, want.ResStar)
		case !bytes.Equal(ue.Kamf, want.Kamf):
			bad = fmt.Sprintf("K_AMF %x, the network derives %x", ue.Kamf, want.Kamf)
		case ue.KnasEnc != want.KnasEnc:
			bad = fmt.Sprintf("K_NASenc %x, the network derives %x (algorithm %d)", ue.KnasEnc, want.KnasEnc, cur.EncAlg)
		case ue.KnasInt != want.KnasInt:
			bad = fmt.Sprintf("K_NASint %x, the network derives %x (algorithm %d)", ue.KnasInt, want.KnasInt, cur.IntAlg)
		}
		if bad != "" {
			if i == 0 {
				v.Key = "first-run"
			} else {
				v.Key = "same-context:after-change-of-" + what
			}
			v.Err = fmt.Errorf("authentication %d on the same UE context (%s changed since the previous one): %s", i+1, what, bad)
			return &v
		}
		return nil
	}
	if r := step(0, "nothing"); r != nil {
		return *r
	}
	for i, s := range c.Steps {
		switch s.Change {
		case "rand":
			if len(s.RAND) != 16 {
				v.Skip = true
				return v
			}
			cur.RAND = s.RAND
		case "autn":
			if len(s.AUTN) != 16 {
				v.Skip = true
				return v
			}
			cur.AUTN = s.AUTN
		case "credentials":
			if s.K != nil {
				if len(s.K) != 16 {
					v.Skip = true
					return v
				}
				cur.K = s.K
			}
			if len(s.OP) != 16 {
				v.Skip = true
				return v
			}
			cur.OP = s.OP
			if s.Mode != "" {
				cur.Mode = s.Mode
			}
		case "network":
			if len(s.MCC) != 3 || len(s.MNC) != len(homeMNC) {
				v.Skip = true
				return v
			}
			cur.MCC, cur.MNC = s.MCC, s.MNC
		case "algorithms":
			if s.EncAlg > 3 || s.IntAlg > 3 {
				v.Skip = true
				return v
			}
			cur.EncAlg, cur.IntAlg = s.EncAlg, s.IntAlg
		case "supi":
			if len(s.MSIN) != len(b.MSIN) {
				v.Skip = true
				return v
			}
			cur.MSIN = s.MSIN
		case "none":
		default:
			v.Skip = true
			return v
		}
		v.Classes = append(v.Classes, "then:"+s.Change)
		if r := step(i+1, s.Change); r != nil {
			return *r
		}
	}
	return v
}

func TestC05_SameContext(t *testing.T) {
	r := ev.New(t, "C05", "TestC05_SameContext")
	ev.Run(t, r, genC05Ctx, c05CtxOracle)
}
