package pb

import (
	"bytes"
	"fmt"
	"testing"

	"free5gclib/nas"
	"free5gclib/nas/security"
	"pgregory.net/rapid"
	"tglib"

	"verifh/ev"
	"verifh/refcrypto"
	"verifh/refsec"
)

// C06 — uplink NAS protection is correct over any message history.
//
// Case: a whole history, generated as data and interpreted by the oracle against a model (state-machine test):
//   send(msg, header type 1..4, newCtx, via NASEncode | EncodeNasPduWithSecurity)
//   plain(msg)                       no security context: the message must go out unchanged
//   jump(ul, dl)                     position the counters with the public Count.Set (legitimised by the exhaustive
//                                    counter test below): "the context has already carried ul messages"
//   rekey(keys, algorithms)          a new security context was negotiated; the next send takes it into use (newCtx)
// Model: the n-th message since the context was taken into use carries NAS COUNT n−1 mod 2^24.
// Judge: an independent receiver (refsec on refcrypto) that holds the same keys.

type c06Op struct {
	Op     string     `json:"op"`
	Msg    *ulMsgSpec `json:"msg,omitempty"`
	HT     uint8      `json:"ht,omitempty"`
	NewCtx bool       `json:"new_ctx,omitempty"`
	Via    string     `json:"via,omitempty"`
	UL     uint32     `json:"ul,omitempty"`
	DL     uint32     `json:"dl,omitempty"`
	Enc    []byte     `json:"knas_enc,omitempty"`
	Int    []byte     `json:"knas_int,omitempty"`
	EA     uint8      `json:"ea,omitempty"`
	IA     uint8      `json:"ia,omitempty"`
}

type c06Case struct {
	Log string `json:"nas_log_level,omitempty"` // logrus level of the NAS library's logger during the history ("" = default)
	Enc     []byte  `json:"knas_enc"`
	Int     []byte  `json:"knas_int"`
	EA      uint8   `json:"ea"` // 0..2
	IA      uint8   `json:"ia"` // 1..2
	StartUL uint32  `json:"start_ul"`
	StartDL uint32  `json:"start_dl"`
	Ops     []c06Op `json:"ops"`
}

var jumpTargets = []uint32{0x0000fe, 0x0000ff, 0x00fffe, 0x00ffff, 0xfffffe, 0xffffff, 0x0001fd, 0x7ffffe}

func genCount24(t *rapid.T, label string) uint32 {
	switch rapid.IntRange(0, 3).Draw(t, label+"_kind") {
	case 0:
		return 0
	case 1:
		return rapid.SampledFrom(jumpTargets).Draw(t, label+"_edge")
	}
	return rapid.Uint32Range(0, 0xffffff).Draw(t, label)
}

func genC06Op(t *rapid.T) c06Op {
	switch k := rapid.IntRange(0, 21).Draw(t, "kind"); {
	case k >= 20:
		// the UE RECEIVES a downlink message in between (protected by a conformant AMF under the same keys, header
		// type 1..4 — types 3/4 are what a Security Mode Command carries); uplink counting goes on regardless
		return c06Op{Op: "recv", HT: uint8(rapid.IntRange(1, 4).Draw(t, "dl_ht")), DL: uint32(rapid.IntRange(1, 3).Draw(t, "dl_step"))}
	case k == 0:
		m := genULMsg(t, "")
		return c06Op{Op: "plain", Msg: &m, NewCtx: rapid.Bool().Draw(t, "ignored_flag")}
	case k == 1 || k == 2:
		return c06Op{Op: "jump", UL: rapid.SampledFrom(jumpTargets).Draw(t, "ul"), DL: genCount24(t, "dl")}
	case k == 4:
		// an attempt that cannot succeed: a message value with neither a 5GMM nor a 5GSM body, or of a type the codec does
		// not know. Nothing is sent, so nothing may have been counted
		return c06Op{Op: "refused", HT: uint8(rapid.IntRange(1, 2).Draw(t, "ht_refused")), UL: uint32(rapid.IntRange(0, 1).Draw(t, "refused_kind"))}
	case k == 3:
		return c06Op{Op: "rekey", Enc: gen128(t, "enc"), Int: gen128(t, "int"), EA: uint8(rapid.IntRange(0, 2).Draw(t, "ea")), IA: uint8(rapid.IntRange(1, 2).Draw(t, "ia"))}
	}
	m := genULMsg(t, "")
	op := c06Op{Op: "send", Msg: &m, HT: uint8(rapid.IntRange(1, 4).Draw(t, "ht")),
		Via: rapid.SampledFrom([]string{"NASEncode", "EncodeNasPduWithSecurity"}).Draw(t, "via")}
	// header types 3/4 announce a new context: usually together with the newCtx flag, sometimes not (the API
	// keeps the two apart, so does the generator)
	p := 1
	if op.HT >= 3 {
		p = 7
	}
	op.NewCtx = rapid.IntRange(0, 9).Draw(t, "newctx") < p
	return op
}

func genC06N(maxOps int) func(t *rapid.T) c06Case {
	return func(t *rapid.T) c06Case {
		c := c06Case{Enc: gen128(t, "enc"), Int: gen128(t, "int"), EA: uint8(rapid.IntRange(0, 2).Draw(t, "ea")), IA: uint8(rapid.IntRange(1, 2).Draw(t, "ia"))}
		if rapid.IntRange(0, 2).Draw(t, "fresh") != 0 {
			c.StartUL, c.StartDL = 0, 0
		} else {
			c.StartUL, c.StartDL = genCount24(t, "start_ul"), genCount24(t, "start_dl")
		}
		// the history is one rapid slice value: rapid can drop and simplify single operations when shrinking
		c.Ops = rapid.SliceOfN(rapid.Custom(genC06Op), 1, maxOps).Draw(t, "ops")
		c.Log = rapid.SampledFrom(logLevels).Draw(t, "nas_log_level")
		return c
	}
}

// label a MAC mismatch with the first alternative computation that reproduces what the library sent
func c06MacKey(ctx refsec.Ctx, count uint32, pdu []byte) string {
	got := pdu[2:6]
	try := func(c refsec.Ctx, cnt uint32, dir uint32, msg []byte) bool {
		m, err := c.MAC(cnt, dir, msg)
		return err == nil && bytes.Equal(m[:], got)
	}
	switch {
	case try(ctx, count, refsec.DirUplink, pdu[7:]):
		return "mac:sequence-number-not-covered"
	case try(ctx, count, refsec.DirDownlink, pdu[6:]):
		return "mac:direction-downlink"
	case try(ctx, (count+1)&0xffffff, refsec.DirUplink, pdu[6:]):
		return "mac:count+1"
	case try(ctx, (count-1)&0xffffff, refsec.DirUplink, pdu[6:]):
		return "mac:count-1"
	case try(ctx, count&0xffff, refsec.DirUplink, pdu[6:]):
		return "mac:count-truncated-to-16-bits"
	case try(ctx, count&0xff, refsec.DirUplink, pdu[6:]):
		return "mac:count-without-overflow"
	}
	var b0 [4]byte
	if ctx.IA == 1 {
		b0 = refcrypto.EIA1(ctx.KnasInt, count, 0, refsec.DirUplink, pdu[6:], 8*len(pdu[6:]))
	} else {
		b0 = refcrypto.EIA2(ctx.KnasInt, count, 0, refsec.DirUplink, pdu[6:])
	}
	if bytes.Equal(b0[:], got) {
		return "mac:bearer-0"
	}
	return "mac"
}

func c06Oracle(c c06Case) (v ev.Verdict) {
	withNASLogLevel(c.Log, func() { v = c06Oracle0(c) })
	if c.Log != "" {
		v.Classes = append(v.Classes, "nas-log-level:"+c.Log)
		if v.Err != nil {
			v.Key = "loglevel-" + c.Log + ":" + v.Key
		}
	}
	return v
}

func c06Oracle0(c c06Case) (v ev.Verdict) {
	if len(c.Enc) != 16 || len(c.Int) != 16 || c.EA > 2 || c.IA < 1 || c.IA > 2 || c.StartUL > 0xffffff || c.StartDL > 0xffffff {
		v.Skip = true
		return v
	}
	cls := map[string]bool{}
	defer func() {
		for k := range cls {
			v.Classes = append(v.Classes, k)
		}
	}()
	fail := func(step int, key, f string, a ...interface{}) ev.Verdict {
		v.Key, v.Err = key, fmt.Errorf("step %d: %s", step, fmt.Sprintf(f, a...))
		return v
	}
	ctx := refsec.Ctx{KnasEnc: a16(c.Enc), KnasInt: a16(c.Int), EA: c.EA, IA: c.IA}
	ue := tglib.NewRanUeContext("imsi-2089300000001", 1, c.EA, c.IA)
	ue.KnasEnc, ue.KnasInt = ctx.KnasEnc, ctx.KnasInt
	ue.ULCount.Set(uint16(c.StartUL>>8), uint8(c.StartUL))
	ue.DLCount.Set(uint16(c.StartDL>>8), uint8(c.StartDL))
	n := uint64(c.StartUL) // number of messages the context has carried so far
	dl := c.StartDL
	pendingRekey := false
	sends, sinceCtx := 0, 0
	resetBetween, wrapSQN, wrap24, ht13cipher := false, false, false, false
	cls[fmt.Sprintf("alg NIA%d/NEA%d", c.IA, c.EA)] = true

	for i, op := range c.Ops {
		switch op.Op {
		case "jump":
			if op.UL > 0xffffff || op.DL > 0xffffff {
				v.Skip = true
				return v
			}
			ue.ULCount.Set(uint16(op.UL>>8), uint8(op.UL))
			ue.DLCount.Set(uint16(op.DL>>8), uint8(op.DL))
			n, dl = uint64(op.UL), op.DL
			cls["op:jump"] = true
		case "rekey":
			if len(op.Enc) != 16 || len(op.Int) != 16 || op.EA > 2 || op.IA < 1 || op.IA > 2 {
				v.Skip = true
				return v
			}
			ctx = refsec.Ctx{KnasEnc: a16(op.Enc), KnasInt: a16(op.Int), EA: op.EA, IA: op.IA}
			ue.KnasEnc, ue.KnasInt, ue.CipheringAlg, ue.IntegrityAlg = ctx.KnasEnc, ctx.KnasInt, op.EA, op.IA
			pendingRekey = true
			cls["op:rekey"] = true
			cls[fmt.Sprintf("alg NIA%d/NEA%d", op.IA, op.EA)] = true
		case "refused":
			if pendingRekey {
				continue
			}
			m := nas.NewMessage()
			if op.UL == 1 {
				m.GmmMessage = nas.NewGmmMessage()
				m.GmmHeader.SetMessageType(0x7f) // not a 5GMM message type
			}
			ulBefore, dlBefore := ue.ULCount.Get(), ue.DLCount.Get()
			var out []byte
			var eerr error
			if e, site := ev.Guard(func() error { out, eerr = tglib.NASEncode(ue, m, true, false); return nil }); site != "" {
				return fail(i, "refused:panic:"+site, "NASEncode of a message without a body panicked: %v", e)
			}
			if eerr == nil {
				// the library found something to send after all: outside what this operation is about
				_ = out
				v.Skip = true
				return v
			}
			if g := ue.ULCount.Get(); g != ulBefore {
				return fail(i, "count-consumed-by-a-refused-message", "NASEncode refused the message (%v) and nothing was sent, yet the UL NAS COUNT went from %#06x to %#06x", eerr, ulBefore, g)
			}
			if g := ue.DLCount.Get(); g != dlBefore {
				return fail(i, "dlcount-changed-by-send", "a refused NASEncode changed the DL NAS COUNT from %#06x to %#06x", dlBefore, g)
			}
			cls["op:refused"] = true
		case "recv":
			if op.HT < 1 || op.HT > 4 || pendingRekey {
				// (after a re-keying the UE first has to take the new context into use with its next uplink message)
				continue
			}
			cnt := (dl + op.DL) & 0xffffff
			if refsec.NewContext(op.HT) {
				cnt = 0
			}
			if uint8(cnt) < uint8(dl) && !refsec.NewContext(op.HT) && cnt>>8 == dl>>8 {
				continue
			}
			plainDL := []byte{0x7e, 0x00, 0x64, 0x6f} // 5GMM STATUS, cause #111
			pdu, perr := ctx.Protect(op.HT, cnt, refsec.DirDownlink, plainDL)
			if perr != nil {
				return fail(i, "harness:protect", "reference AMF: %v", perr)
			}
			ulBefore := ue.ULCount.Get()
			var m *nas.Message
			var derr error
			if e, site := ev.Guard(func() error { m, derr = tglib.NASDecode(ue, nas.GetSecurityHeaderType(pdu), pdu); return nil }); site != "" {
				return fail(i, "recv:panic:"+site, "NASDecode panicked: %v", e)
			}
			if derr != nil || m == nil {
				// whether the downlink message is recovered is C10's business; here only the uplink side matters
				cls["op:recv(not recovered: see C10)"] = true
			}
			if g := ue.ULCount.Get(); g != ulBefore {
				return fail(i, "ulcount-changed-by-receiving", "receiving a downlink message (header type %d) changed the UL NAS COUNT from %#06x to %#06x", op.HT, ulBefore, g)
			}
			dl = ue.DLCount.Get() // downlink counting is C10's claim; the model follows the UE here
			cls[fmt.Sprintf("op:recv ht%d", op.HT)] = true
		case "plain", "send":
			if op.Msg == nil {
				v.Skip = true
				return v
			}
			raw := op.Msg.build()
			msg, plain, err := plainCanonical(raw)
			if err != nil {
				return fail(i, "harness:constructor", "constructor output for %s does not pass the plain codec: %v", op.Msg.Kind, err)
			}
			cls["msg:"+op.Msg.Kind] = true
			cls[fmt.Sprintf("plain len%%16=%d", len(plain)%16)] = true
			if len(plain) >= 256 {
				cls["plain len>=256"] = true
			}
			if op.Op == "plain" {
				ulB, dlB := ue.ULCount.Get(), ue.DLCount.Get()
				out, err := tglib.NASEncode(ue, msg, false, op.NewCtx)
				if err != nil || !bytes.Equal(out, plain) {
					return fail(i, "plain-path", "without a security context NASEncode returned %x (err %v), want the plain message %x", out, err, plain)
				}
				if ue.ULCount.Get() != ulB || ue.DLCount.Get() != dlB {
					return fail(i, "plain-path:counters", "a plain send changed the counters: UL %#x→%#x DL %#x→%#x", ulB, ue.ULCount.Get(), dlB, ue.DLCount.Get())
				}
				cls["op:plain"] = true
				continue
			}
			if op.HT < 1 || op.HT > 4 {
				v.Skip = true
				return v
			}
			newCtx := op.NewCtx || pendingRekey
			pendingRekey = false
			if newCtx {
				n, dl = 0, 0
				if sends > 0 {
					resetBetween = true
				}
				sinceCtx = 0
				cls["newctx"] = true
			}
			count := modelCount(n)
			var out []byte
			switch op.Via {
			case "EncodeNasPduWithSecurity":
				out, err = tglib.EncodeNasPduWithSecurity(ue, append([]byte{}, raw...), op.HT, true, newCtx)
			default:
				msg.SecurityHeader = nas.SecurityHeader{ProtocolDiscriminator: refsec.EPD5GMM, SecurityHeaderType: op.HT}
				out, err = tglib.NASEncode(ue, msg, true, newCtx)
			}
			if err != nil {
				return fail(i, "error", "%s returned error %v", op.Via, err)
			}
			cls[fmt.Sprintf("ht%d", op.HT)] = true
			cls["via:"+op.Via] = true
			// --- the conformant receiver
			got, what, rerr := ctx.Open(out, op.HT, count, refsec.DirUplink)
			if rerr != nil {
				key := what
				if what == "mac" {
					key = c06MacKey(ctx, count, out)
				}
				return fail(i, key, "message %d of the context (NAS COUNT %#06x, header type %d, NIA%d/NEA%d): %v", sinceCtx+1, count, op.HT, ctx.IA, ctx.EA, rerr)
			}
			if !bytes.Equal(got, plain) {
				key := fmt.Sprintf("payload:ht%d:NEA%d", op.HT, ctx.EA)
				if !refsec.Ciphered(op.HT) {
					if ciph, _ := ctx.Cipher(count, refsec.DirUplink, plain); bytes.Equal(ciph, got) {
						key = "D3:ciphered-under-integrity-only-header-type"
					}
				} else {
					for _, alt := range []struct {
						k   string
						cnt uint32
						dir uint32
					}{{"cipher:direction-downlink", count, refsec.DirDownlink}, {"cipher:count+1", (count + 1) & 0xffffff, 0}, {"cipher:count-1", (count - 1) & 0xffffff, 0},
						{"cipher:count-truncated-to-16-bits", count & 0xffff, 0}} {
						if p, _ := ctx.Cipher(alt.cnt, alt.dir, out[7:]); bytes.Equal(p, plain) {
							key = alt.k
						}
					}
					if bytes.Equal(out[7:], plain) {
						key = "cipher:not-applied"
					}
				}
				return fail(i, key, "message %d of the context (COUNT %#06x, header type %d = %s, NEA%d): receiver recovers %x, submitted plain message is %x",
					sinceCtx+1, count, op.HT, map[bool]string{true: "integrity protected and ciphered", false: "integrity protected only, payload must be in clear"}[refsec.Ciphered(op.HT)],
					ctx.EA, got, plain)
			}
			// --- counters afterwards
			want := modelCount(n + 1)
			if g := ue.ULCount.Get(); g != want || ue.ULCount.SQN() != uint8(want) || ue.ULCount.Overflow() != uint16(want>>8) {
				return fail(i, "ulcount-after-send", "UL NAS COUNT after the message is %#06x (SQN %#x overflow %#x), want %#06x", g, ue.ULCount.SQN(), ue.ULCount.Overflow(), want)
			}
			if g := ue.DLCount.Get(); g != dl {
				k := "dlcount-changed-by-send"
				if newCtx {
					k = "dlcount-not-reset-by-new-context"
				}
				return fail(i, k, "DL NAS COUNT after the message is %#06x, want %#06x (newCtx=%v)", g, dl, newCtx)
			}
			if !refsec.Ciphered(op.HT) && ctx.EA != 0 {
				ht13cipher = true
			}
			if uint8(count) == 0xff {
				wrapSQN = true
			}
			if count == 0xffffff {
				wrap24 = true
			}
			n++
			sends++
			sinceCtx++
		default:
			v.Skip = true
			return v
		}
	}
	if wrapSQN {
		cls["history: SQN wrap"] = true
	}
	if wrap24 {
		cls["history: COUNT wrap at 2^24"] = true
	}
	if resetBetween {
		cls["history: new context between two sends"] = true
	}
	if ht13cipher {
		cls["history: integrity-only header with non-null cipher"] = true
	}
	v.NT = wrapSQN || resetBetween || ht13cipher
	return v
}

func TestC06_Histories(t *testing.T) {
	r := ev.New(t, "C06", "TestC06_Histories")
	ev.Run(t, r, genC06N(40), c06Oracle)
}

// TestC06_LongHistories: up to 300 steps, so that the sequence number wraps without any help from jump.
func TestC06_LongHistories(t *testing.T) {
	r := ev.New(t, "C06", "TestC06_LongHistories")
	sendOp := rapid.Custom(func(t *rapid.T) c06Op {
		if rapid.IntRange(0, 599).Draw(t, "rekey") == 0 { // in about 40% of the histories: a re-keying somewhere
			return c06Op{Op: "rekey", Enc: gen128(t, "enc"), Int: gen128(t, "int"), EA: uint8(rapid.IntRange(0, 2).Draw(t, "ea")), IA: uint8(rapid.IntRange(1, 2).Draw(t, "ia"))}
		}
		m := genULMsg(t, "")
		return c06Op{Op: "send", Msg: &m, HT: uint8(rapid.IntRange(1, 2).Draw(t, "ht")), Via: rapid.SampledFrom([]string{"NASEncode", "EncodeNasPduWithSecurity"}).Draw(t, "via")}
	})
	ev.Run(t, r, func(t *rapid.T) c06Case {
		c := c06Case{Enc: gen128(t, "enc"), Int: gen128(t, "int"), EA: uint8(rapid.IntRange(0, 2).Draw(t, "ea")), IA: uint8(rapid.IntRange(1, 2).Draw(t, "ia"))}
		m := genULMsg(t, "first_")
		first := c06Op{Op: "send", Msg: &m, HT: uint8(rapid.IntRange(3, 4).Draw(t, "first_ht")), NewCtx: true, Via: "EncodeNasPduWithSecurity"}
		c.Ops = append([]c06Op{first}, rapid.SliceOfN(sendOp, 257, 300).Draw(t, "ops")...)
		return c
	}, c06Oracle)
}

// ---------------------------------------------------------------------------------------
// The counter type, exhaustively.

type c06CounterCase struct {
	Start uint32 `json:"start"` // 24-bit value the counter holds before the operation
	Op    string `json:"op"`    // AddOne | Set | SetSQN | SetOverflow
	Ov    uint16 `json:"overflow,omitempty"`
	Sqn   uint8  `json:"sqn,omitempty"`
}

func counterCheck(cnt *security.Count, want uint32) error {
	if g, s, o := cnt.Get(), cnt.SQN(), cnt.Overflow(); g != want || s != uint8(want) || o != uint16(want>>8) {
		return fmt.Errorf("Get()=%#x SQN()=%#x Overflow()=%#x, want %#06x / %#02x / %#04x", g, s, o, want, uint8(want), uint16(want>>8))
	}
	return nil
}

func c06CounterOracle(c c06CounterCase) ev.Verdict {
	v := ev.Verdict{NT: true, Classes: []string{"counter:" + c.Op}}
	if c.Start > 0xffffff {
		v.Skip = true
		return v
	}
	var cnt security.Count
	cnt.Set(uint16(c.Start>>8), uint8(c.Start))
	if err := counterCheck(&cnt, c.Start); err != nil {
		v.Key, v.Err = "counter:Set", fmt.Errorf("after Set(%#x,%#x): %v", c.Start>>8, uint8(c.Start), err)
		return v
	}
	var want uint32
	switch c.Op {
	case "AddOne":
		cnt.AddOne()
		want = (c.Start + 1) & 0xffffff
	case "Set":
		cnt.Set(c.Ov, c.Sqn)
		want = uint32(c.Ov)<<8 | uint32(c.Sqn)
	case "SetSQN":
		cnt.SetSQN(c.Sqn)
		want = c.Start&0xffff00 | uint32(c.Sqn)
	case "SetOverflow":
		cnt.SetOverflow(c.Ov)
		want = uint32(c.Ov)<<8 | c.Start&0xff
	default:
		v.Skip = true
		return v
	}
	if err := counterCheck(&cnt, want); err != nil {
		v.Key, v.Err = "counter:"+c.Op, fmt.Errorf("%s on %#06x (ov %#x sqn %#x): %v", c.Op, c.Start, c.Ov, c.Sqn, err)
	}
	return v
}

func TestC06_CounterExhaustive(t *testing.T) {
	r := ev.New(t, "C06", "TestC06_CounterExhaustive")
	defer r.Flush()
	report := func(c c06CounterCase, stepErr error) {
		v := ev.SafeOracle(c06CounterOracle, c)
		if v.Err == nil { // only visible as part of the running history
			v = ev.Verdict{NT: true, Key: "counter:" + c.Op + ":history", Err: fmt.Errorf("in the running sweep: %v", stepErr)}
		}
		r.Each(t, c, v)
	}
	// (1) 2^24+2 AddOne steps from a zero-value counter, compared with the model at every step
	var cnt security.Count
	if err := counterCheck(&cnt, 0); err != nil {
		report(c06CounterCase{Start: 0, Op: "Set"}, err)
		return
	}
	const steps = 1<<24 + 2
	for i := uint64(1); i <= steps; i++ {
		cnt.AddOne()
		if err := counterCheck(&cnt, modelCount(i)); err != nil {
			report(c06CounterCase{Start: modelCount(i - 1), Op: "AddOne"}, err)
			return
		}
	}
	r.Class("exhaustive: AddOne steps compared with the model", steps)
	// (2) Set / SetSQN / SetOverflow over all 2^16 × 2^8 values, on a counter that keeps its previous contents
	var c2 security.Count
	for ov := 0; ov < 1<<16; ov++ {
		for sqn := 0; sqn < 1<<8; sqn++ {
			val := uint32(ov)<<8 | uint32(sqn)
			prev := c2.Get()
			c2.Set(uint16(ov), uint8(sqn))
			if err := counterCheck(&c2, val); err != nil {
				report(c06CounterCase{Start: prev, Op: "Set", Ov: uint16(ov), Sqn: uint8(sqn)}, err)
				return
			}
			ns := ^uint8(sqn)
			c2.SetSQN(ns)
			if err := counterCheck(&c2, uint32(ov)<<8|uint32(ns)); err != nil {
				report(c06CounterCase{Start: val, Op: "SetSQN", Sqn: ns}, err)
				return
			}
			no := uint16(ov*40503 + sqn) // some other overflow value
			c2.SetOverflow(no)
			if err := counterCheck(&c2, uint32(no)<<8|uint32(ns)); err != nil {
				report(c06CounterCase{Start: uint32(ov)<<8 | uint32(ns), Op: "SetOverflow", Ov: no}, err)
				return
			}
		}
	}
	r.Class("exhaustive: Set/SetSQN/SetOverflow round trips", 3<<24)
	r.Extra("exhaustive_counter", "AddOne: 2^24+2 consecutive steps; Set, SetSQN, SetOverflow: all 2^24 (overflow, sqn) values")
	// (3) the boundary cases once more as individual, replayable cases (these are what the evidence samples show)
	for _, s := range []uint32{0, 1, 0xfe, 0xff, 0x100, 0xfffe, 0xffff, 0x10000, 0xfffffe, 0xffffff, 0x7fffff, 0x800000} {
		for _, op := range []c06CounterCase{{Op: "AddOne"}, {Op: "Set", Ov: 0xffff, Sqn: 0xff}, {Op: "Set"}, {Op: "SetSQN", Sqn: 0xff}, {Op: "SetSQN"},
			{Op: "SetOverflow", Ov: 0xffff}, {Op: "SetOverflow"}, {Op: "SetOverflow", Ov: 0x0100}} {
			op.Start = s
			if !r.Each(t, op, ev.SafeOracle(c06CounterOracle, op)) {
				return
			}
		}
	}
}
