package pe

// Process-level runners: spawn the real emulator (L-main, built with -tags verif) or the
// scripted procedure driver (L-proc) as a child process whose N2 association is one end
// of an AF_UNIX SOCK_SEQPACKET socketpair; the other end is served by the reference AMF
// (refamf) inside the test process. Message boundaries are preserved exactly as SCTP
// preserves them.

import (
	"encoding/base64"
	"bytes"
	"encoding/hex"
	"encoding/json"
	"fmt"
	"os"
	"os/exec"
	"path/filepath"
	"regexp"
	"strings"
	"sync"
	"sync/atomic"
	"syscall"
	"testing"
	"time"

	"verifh/ev"
	"verifh/refamf"
)

// emuConfig: the 24 documented keys of config.yaml, in the types the documentation gives them.
type emuConfig struct {
	AmfNgapIP   string `json:"amf_ngap_ip"`
	AmfNgapPort int64  `json:"amf_ngap_port"`
	GnbGtpIP    string `json:"gnb_gtp_ip"`
	StgNgapIP   string `json:"stg_ngap_ip"`
	StgNgapPort int64  `json:"stg_ngap_port"`
	InitialIMSI string `json:"initial_imsi"`
	MCC         string `json:"mcc"`
	MNC         string `json:"mnc"`
	GnbID       string `json:"gnb_id"` // the octets, as a Go string
	// GnbIDBin: when set, the gNB id in hexadecimal, written into the file as a !!binary scalar (the only YAML spelling
	// for octets above 0x7f: "\x80" in a double-quoted scalar is the code point U+0080, two octets) - GnbID is unused then
	GnbIDBin string `json:"gnb_id_binary_hex,omitempty"`
	GnbBitLen   uint64 `json:"gnb_bitlength"`
	GnbName     string `json:"gnb_name"`
	K           string `json:"k"`
	OPC         string `json:"opc"`
	OP          string `json:"op"`
	SST         int64  `json:"sst"`
	SD          string `json:"sd"`
	DLIface     string `json:"downlink_iface"`
	ULIface     string `json:"uplink_iface"`
	UeNumber    int64  `json:"ue_number"`
	Reg         int64  `json:"ue_registration"`
	Pdu         int64  `json:"ue_pdu"`
	Service     int64  `json:"ue_service"`
	Release     int64  `json:"ue_pdu_release"`
	Dereg       int64  `json:"ue_deregistration"`
	PlainIPs    bool   `json:"plain_ips,omitempty"` // write the IP addresses as plain scalars, as the shipped file does
	// Syntax: how the same mapping is written down - nothing here changes a value
	Syntax fileSyntax `json:"file_syntax,omitempty"`
}

// fileSyntax: equivalent ways of writing the same YAML mapping (what editors, templates and other tools produce).
type fileSyntax struct {
	Order          []int `json:"key_order,omitempty"`        // permutation of the 24 keys (nil: the order of the shipped file)
	NoFinalNewline bool  `json:"no_final_newline,omitempty"` // the last line is not terminated
	CRLF           bool  `json:"crlf,omitempty"`             // DOS line ends
	Comments       bool  `json:"comments,omitempty"`         // comment lines and blank lines between the keys
	Indent         int   `json:"indent,omitempty"`           // blanks in front of the keys (0: two)
	DocStart       bool  `json:"document_start,omitempty"`   // "---" in front
	// Extra: further keys in the "configuration" mapping that are NOT among the 24 documented ones (names an older
	// README, another tool or a colleague's file uses): ignored, whatever they are called and whatever they hold
	Extra [][2]string `json:"extra_keys,omitempty"`
	// Kind: what kind of file system object ./config.yaml is: "" a regular file, "symlink" / "symlink-chain" a symbolic
	// link (chain) to a regular file elsewhere (a mounted ConfigMap, a link into src/), "fifo" a named pipe fed in two
	// writes by another process (a generated configuration)
	Kind string `json:"file_kind,omitempty"`
	// Header: the free-form "info" mapping in front of the configuration (version, description) — no procedure reads it:
	// 0 as shipped (version 0.9.0), 1 no such section, 2 version: 0.9, 3 version: "0.9", 4 version: 1.2.3, 5 version: 2,
	// 6 a description only, 7 the section behind the configuration
	Header int `json:"header,omitempty"`
}

// gnbOctets: the octets of the configured gNB id.
func (c emuConfig) gnbOctets() []byte {
	if c.GnbIDBin != "" {
		b, _ := hex.DecodeString(c.GnbIDBin)
		return b
	}
	return []byte(c.GnbID)
}

// yamlQuote writes a YAML double-quoted scalar; everything outside printable ASCII is escaped.
func yamlQuote(s string) string {
	var b strings.Builder
	b.WriteByte('"')
	for _, r := range s {
		switch {
		case r == '"':
			b.WriteString(`\"`)
		case r == '\\':
			b.WriteString(`\\`)
		case r >= 0x20 && r <= 0x7e:
			b.WriteRune(r)
		case r <= 0xff:
			fmt.Fprintf(&b, `\x%02x`, r)
		case r <= 0xffff:
			fmt.Fprintf(&b, `\u%04x`, r)
		default:
			fmt.Fprintf(&b, `\U%08x`, r)
		}
	}
	b.WriteByte('"')
	return b.String()
}

// YAML renders the configuration file with the harness's own emitter.
func (c emuConfig) YAML() string {
	ind := strings.Repeat(" ", 2)
	if c.Syntax.Indent > 0 {
		ind = strings.Repeat(" ", c.Syntax.Indent)
	}
	var lines []string
	str := func(k, v string) { lines = append(lines, fmt.Sprintf("%s%s: %s", ind, k, yamlQuote(v))) }
	ip := func(k, v string) {
		if c.PlainIPs {
			lines = append(lines, fmt.Sprintf("%s%s: %s", ind, k, v))
		} else {
			str(k, v)
		}
	}
	num := func(k string, v interface{}) { lines = append(lines, fmt.Sprintf("%s%s: %d", ind, k, v)) }
	ip("amf_ngap_ip", c.AmfNgapIP)
	num("amf_ngap_port", c.AmfNgapPort)
	ip("gnb_gtp_ip", c.GnbGtpIP)
	ip("stg_ngap_ip", c.StgNgapIP)
	num("stg_ngap_port", c.StgNgapPort)
	str("initial_imsi", c.InitialIMSI)
	str("mcc", c.MCC)
	str("mnc", c.MNC)
	if c.GnbIDBin != "" {
		lines = append(lines, fmt.Sprintf("%sgnb_id: !!binary %s", ind, base64.StdEncoding.EncodeToString(c.gnbOctets())))
	} else {
		str("gnb_id", c.GnbID)
	}
	num("gnb_bitlength", c.GnbBitLen)
	str("gnb_name", c.GnbName)
	str("k", c.K)
	str("opc", c.OPC)
	str("op", c.OP)
	num("sst", c.SST)
	str("sd", c.SD)
	str("downlink_iface", c.DLIface)
	str("uplink_iface", c.ULIface)
	num("ue_number", c.UeNumber)
	num("ue_registration", c.Reg)
	num("ue_pdu", c.Pdu)
	num("ue_service", c.Service)
	num("ue_pdu_release", c.Release)
	num("ue_deregistration", c.Dereg)
	nDocumented := len(lines)
	if o := c.Syntax.Order; len(o) == len(lines) {
		seen := make([]bool, len(lines))
		var perm []string
		for _, i := range o {
			if i >= 0 && i < len(lines) && !seen[i] {
				seen[i] = true
				perm = append(perm, lines[i])
			}
		}
		if len(perm) == len(lines) {
			lines = perm
		}
	}
	for i, kv := range c.Syntax.Extra {
		l := fmt.Sprintf("%s%s: %s", ind, kv[0], yamlQuote(kv[1]))
		at := (i*7 + len(kv[0])) % (len(lines) + 1)
		lines = append(lines[:at], append([]string{l}, lines[at:]...)...)
	}
	_ = nDocumented
	var out []string
	if c.Syntax.DocStart {
		out = append(out, "---")
	}
	info := []string{"info:", ind + "version: 0.9.0", ind + "description: generated by the verification harness", ""}
	switch c.Syntax.Header {
	case 1:
		info = nil
	case 2:
		info[1] = ind + "version: 0.9"
	case 3:
		info[1] = ind + `version: "0.9"`
	case 4:
		info[1] = ind + "version: 1.2.3"
	case 5:
		info[1] = ind + "version: 2"
	case 6:
		info = []string{"info:", ind + "description: site copy, do not edit", ""}
	}
	if c.Syntax.Header != 7 {
		out = append(out, info...)
	}
	out = append(out, "configuration:")
	for i, l := range lines {
		if c.Syntax.Comments && i%5 == 2 {
			out = append(out, "", ind+"# "+strings.Repeat("-", 3+i)+" section "+fmt.Sprint(i)+": ue_number: 77")
		}
		out = append(out, l)
	}
	if c.Syntax.Header == 7 {
		out = append(out, "")
		out = append(out, info[:3]...)
	}
	nl := "\n"
	if c.Syntax.CRLF {
		nl = "\r\n"
	}
	text := strings.Join(out, nl)
	if !c.Syntax.NoFinalNewline {
		text += nl
	}
	return text
}

// Provision: what the operator of the core enters for this configuration.
func (c emuConfig) Provision() refamf.Provision {
	p := refamf.Provision{MCC: c.MCC, MNC: c.MNC, IMSI: c.InitialIMSI, K: c.K, OP: c.OP, OPc: c.OPC, SST: int(c.SST), SD: c.SD, GnbGTP: c.GnbGtpIP, AMFName: "refamf"}
	if n := 3 + len(c.MNC); len(c.InitialIMSI) > n && c.InitialIMSI[:n] != c.MCC+c.MNC {
		// the keys mcc/mnc name another network than the one the IMSI belongs to (C18: a value is a value): the
		// subscriber's home PLMN is what its IMSI says, the serving network - whose name goes into RES*, K_SEAF
		// and everything below - is what the keys mcc and mnc say
		p.MCC, p.MNC = c.InitialIMSI[:3], c.InitialIMSI[3:n]
		p.ServingMCC, p.ServingMNC = c.MCC, c.MNC
	}
	return p
}

func pos(x int64) int {
	if x < 0 {
		return 0
	}
	return int(x)
}
func min64(a, b int64) int64 {
	if a > b {
		return b
	}
	return a
}

// clamps: the numbers main prints and iterates over, recomputed by the harness.
type clamps struct{ R, E, S, L, D int64 }

func (c emuConfig) clamps() clamps {
	var k clamps
	k.R = c.Reg
	k.E = min64(c.Reg, c.Pdu)
	k.S = min64(k.E, c.Service)
	k.L = min64(k.E, c.Release)
	k.D = min64(c.Reg, c.Dereg)
	return k
}

// expectedEvents: the procedures a conformant run shows to the AMF, in main's order.
func (k clamps) expectedEvents() []refamf.Event {
	out := []refamf.Event{{Kind: "ngsetup", UE: -1}}
	for _, x := range []struct {
		kind string
		n    int64
	}{{"register", k.R}, {"establish", k.E}, {"service", k.S}, {"release", k.L}, {"deregister", k.D}} {
		for i := 0; i < pos(x.n); i++ {
			out = append(out, refamf.Event{Kind: x.kind, UE: i})
		}
	}
	return out
}

// sleepBudget: sum of the fixed sleeps of a test-mode run (main + procedures), the base of
// the only wall-clock bound used (C19) and of the infrastructure time-out elsewhere.
func (k clamps) sleepBudget() time.Duration {
	ms := 1000*pos(k.R) + 1000*pos(k.E) + 2000*pos(k.S) + 2110*pos(k.L) + 1500*pos(k.D)
	return time.Duration(ms) * time.Millisecond
}

func bound(sleeps time.Duration) time.Duration { return 3*sleeps + 20*time.Second }

func b2i(b bool) int {
	if b {
		return 1
	}
	return 0
}

// op of an L-proc script (mirrors cmd/procdriver).
type procOp struct {
	Op        string `json:"op"`
	I         int    `json:"i"`
	GnbID     string `json:"gnb_id,omitempty"`
	IMSI      string `json:"imsi,omitempty"`
	MNC       string `json:"mnc,omitempty"`
	MCC       string `json:"mcc,omitempty"`
	BitLength uint64 `json:"bitlength,omitempty"`
	Name      string `json:"name,omitempty"`
	K         string `json:"k,omitempty"`
	OPC       string `json:"opc,omitempty"`
	OP        string `json:"op_key,omitempty"`
	SST       int32  `json:"sst,omitempty"`
	SD        string `json:"sd,omitempty"`
	GnbGTP    string `json:"gnb_gtp,omitempty"`
	Dir       string `json:"dir,omitempty"`
	MNCLen    int    `json:"mnc_len,omitempty"`
}

// procScript builds the L-proc equivalent of main's test mode for the given counts (what
// main passes to each procedure, argument by argument).
func (c emuConfig) procScript(k clamps) []procOp {
	ops := []procOp{{Op: "ngsetup", GnbID: hex.EncodeToString(c.gnbOctets()), IMSI: c.InitialIMSI, MNC: c.MNC, BitLength: c.GnbBitLen, Name: c.GnbName}}
	for i := 0; i < pos(k.R); i++ {
		ops = append(ops, procOp{Op: "create", I: i, IMSI: c.InitialIMSI, K: c.K, OPC: c.OPC, OP: c.OP})
		ops = append(ops, procOp{Op: "register", I: i, MNC: c.MNC, MCC: c.MCC})
	}
	for i := 0; i < pos(k.E); i++ {
		ops = append(ops, procOp{Op: "establish", I: i, SST: int32(c.SST), SD: c.SD, GnbGTP: c.GnbGtpIP})
	}
	for i := 0; i < pos(k.S); i++ {
		ops = append(ops, procOp{Op: "service", I: i, GnbGTP: c.GnbGtpIP})
	}
	for i := 0; i < pos(k.L); i++ {
		ops = append(ops, procOp{Op: "release", I: i, SST: int32(c.SST), SD: c.SD})
	}
	for i := 0; i < pos(k.D); i++ {
		ops = append(ops, procOp{Op: "deregister", I: i, MNC: c.MNC})
	}
	return ops
}

// procSleepBudget: fixed sleeps inside the procedures of a script.
func procSleepBudget(ops []procOp) time.Duration {
	var ms int
	for _, o := range ops {
		switch o.Op {
		case "service":
			ms += 1000
		case "release":
			ms += 1110
		case "deregister":
			ms += 500
		}
	}
	return time.Duration(ms) * time.Millisecond
}

// convResult: everything observable about one conversation.
type convResult struct {
	AMF        *refamf.AMF
	Started    bool
	Exited     bool
	ExitCode   int
	Signal     string
	TimedOut   bool
	Elapsed    time.Duration
	Stdout     string
	ConnectLog string // content of the hook's connect log, "" if the file does not exist
	HasConnLog bool
	FaultDone  bool // the scenario's fault was injected
	ULAtFault  int  // uplink PDUs handled when the fault was injected
	DLAtFault  int  // downlink PDUs sent before the association was closed
	ULTotal    int
	SocketErr  string
	ProcLines  []map[string]interface{}
	StartErr   error
}

type spawn struct {
	Bin   string
	Args  []string
	Dir   string
	Stdin []byte
	Env   []string
	Argv0 string // argv[0] of the child if not the path of the binary
}

var caseSeq int64

// caseDir makes a fresh per-case directory under the run's work directory.
func caseDir(test string) (string, error) {
	n := atomic.AddInt64(&caseSeq, 1)
	d := filepath.Join(ev.WorkDir(), "pe-cases", fmt.Sprintf("%s-%d-%d-%d", test, ev.Shard(), os.Getpid(), n))
	return d, os.MkdirAll(d, 0755)
}

// cucDelay: if downlink PDU number dl of the conversation is a message the scenario has the network send late —
// the Configuration Update Command of a UE whose generic UE configuration update is started by timer, or the PDU
// Session Resource Setup Request of a UE whose SMF takes its time — the delay. Whatever other UEs ask for in the
// meantime is answered first: the order in which a network finishes the procedures of DIFFERENT UEs is its own.
func cucDelay(amf *refamf.AMF, sc refamf.Scenario, dl int) (time.Duration, int) {
	for i := len(amf.Transcript) - 1; i >= 0; i-- {
		e := amf.Transcript[i]
		if e.Dir == "dl" && e.Idx == dl {
			cuc := strings.Contains(e.What, "ConfigurationUpdateCommand")
			setup := strings.HasPrefix(e.What, "PDUSessionResourceSetupRequest")
			if !cuc && !setup {
				return 0, -1
			}
			for k, u := range sc.UEs {
				if !strings.Contains(e.What, fmt.Sprintf("ue=%d", k)) {
					continue
				}
				if cuc && u.CUCDelayMs > 0 {
					return time.Duration(u.CUCDelayMs) * time.Millisecond, -1
				}
				if setup && u.SetupDelayMs > 0 {
					return time.Duration(u.SetupDelayMs) * time.Millisecond, k
				}
			}
			return 0, -1
		}
	}
	return 0, -1
}

func trunc64(b []byte) []byte {
	if len(b) > 64 {
		return b[:64]
	}
	return b
}

// garble builds undecodable-by-construction bytes from a correct downlink PDU.
func garble(f refamf.Fault, good, prev []byte) []byte {
	switch f.Garbage {
	case "failure-truncated":
		// the beginning of an UNSUCCESSFUL OUTCOME of the procedure this message belongs to (same procedure code; for
		// NG Setup: a cut-off NG SETUP FAILURE): triple, length determinant and the start of a Cause IE, cut after
		// PrefixLen octets - the length determinant promises more than the datagram holds
		pc := byte(0x15)
		if len(good) > 1 {
			pc = good[1]
		}
		full := []byte{0x40, pc, 0x00, 0x0a, 0x00, 0x00, 0x01, 0x00, 0x0f, 0x40, 0x02, 0x05, 0x00, 0x00}
		n := f.PrefixLen
		if n < 3 {
			n = 3
		}
		if n > len(full)-1 {
			n = len(full) - 1
		}
		return full[:n]
	case "frag-zero":
		// the message's own header, then a length determinant of C0: "zero fragments of 16K follow", which X.691 10.9.3.8
		// does not allow - a length walker that advances by the fragment size stands still on it
		hd := []byte{0x00, 0x1d, 0x00}
		if len(good) >= 3 {
			hd = append([]byte{}, good[:3]...)
		}
		tail := []byte{0x00, 0x00, 0x01, 0x00, 0x0a, 0x00, 0x02, 0x00, 0x01}
		if len(good) > 5 {
			tail = good[4:]
		}
		return append(append(hd, 0xc0), tail...)
	case "cause-ext-enum":
		// a message of the expected class and procedure whose IE list announces two elements and holds one: a Cause
		// (id 15) whose enumerated value has its extension bit set (a value of a later release) - a decoder stops there
		// with "unsupported value", and nothing behind it was ever looked at
		hd := []byte{0x00, 0x29, 0x00}
		if len(good) >= 3 {
			hd = append([]byte{}, good[:3]...)
		}
		return append(hd, 0x09, 0x00, 0x00, 0x02, 0x00, 0x0f, 0x40, 0x02, 0x10, 0x00)
	case "stale-prefix":
		src := prev
		if len(src) < 4 {
			src = good
		}
		n := f.PrefixLen
		if n < 1 {
			n = 1
		}
		if n > 3 {
			n = 3
		}
		return append([]byte{}, src[:n]...)
	case "choice3":
		// NGAP-PDU is a CHOICE of three root alternatives + extension marker: extension bit 0, index 3 does not exist
		out := append([]byte{}, good...)
		out[0] = (out[0] & 0x1f) | 0x60
		return out
	case "length":
		// outer open type: octet 3 onwards holds the length determinant of the message value; claim more than the datagram holds
		out := append([]byte{}, good...)
		if out[3]&0x80 == 0 {
			if len(good) < 120 {
				out[3] = 0x7f // up to 127 octets of content claimed, fewer present
			} else {
				out = append(append([]byte{}, good[:3]...), 0xbf, 0xff) // two-octet form: 16383 octets claimed
				out = append(out, good[4:]...)
			}
		} else {
			out[3], out[4] = 0xbf, 0xff
		}
		return out
	case "otherproc":
		// initiatingMessage, procedure code PrefixLen, criticality ignore, a length of 48 octets, 3 octets present
		return []byte{0x00, byte(f.PrefixLen), 0x40, 0x30, 0x00, 0x00, 0x01}
	case "oversize2048", "oversize4096":
		// longer than (or exactly as long as) the emulator's receive buffer, undecodable from the first octet on
		// (extension bit of the NGAP-PDU CHOICE set; the library knows no extension alternatives)
		n := 2048
		if f.Garbage == "oversize4096" {
			n = 4096
		}
		return bytes.Repeat([]byte{0xff}, n)
	default: // "prefix": a strict, non-empty prefix
		n := f.PrefixLen
		if n < 1 {
			n = 1
		}
		if n > len(good)-1 {
			n = len(good) - 1
		}
		return append([]byte{}, good[:n]...)
	}
}

// converse runs one child against a fresh reference AMF for the scenario.
func converse(sp spawn, sc refamf.Scenario, limit time.Duration) *convResult {
	res := &convResult{ULAtFault: -1}
	amf, err := refamf.New(sc)
	if err != nil {
		res.StartErr = err
		return res
	}
	res.AMF = amf
	for _, u := range sc.UEs {
		// messages the network sends late: the time they are held back (plus the polling interval) is not the emulator's
		limit += time.Duration(u.CUCDelayMs+u.SetupDelayMs)*time.Millisecond + 400*time.Millisecond*time.Duration(b2i(u.CUCDelayMs > 0)+b2i(u.SetupDelayMs > 0))
	}
	limit += time.Duration(sc.Fault.DelayMs) * time.Millisecond
	fds, err := syscall.Socketpair(syscall.AF_UNIX, syscall.SOCK_SEQPACKET|syscall.SOCK_CLOEXEC, 0)
	if err != nil {
		res.StartErr = fmt.Errorf("socketpair: %v", err)
		return res
	}
	amfFd := fds[0]
	childEnd := os.NewFile(uintptr(fds[1]), "n2")
	connLog := filepath.Join(sp.Dir, "connect.log")
	os.Remove(connLog)
	cmd := exec.Command(sp.Bin, sp.Args...)
	if sp.Argv0 != "" {
		cmd.Args[0] = sp.Argv0
	}
	cmd.Dir = sp.Dir
	cmd.ExtraFiles = []*os.File{childEnd}
	cmd.Env = append(append(os.Environ(), "STGUTG_VERIF_AMF_FD=3", "STGUTG_VERIF_CONNECT_LOG="+connLog), sp.Env...)
	var out bytes.Buffer
	cmd.Stdout = &out
	cmd.Stderr = &out
	if sp.Stdin != nil {
		cmd.Stdin = bytes.NewReader(sp.Stdin)
	}
	t0 := time.Now()
	if err := cmd.Start(); err != nil {
		childEnd.Close()
		syscall.Close(amfFd)
		res.StartErr = fmt.Errorf("start %s: %v", sp.Bin, err)
		return res
	}
	res.Started = true
	childEnd.Close()
	done := make(chan error, 1)
	go func() { done <- cmd.Wait() }()
	deadline := t0.Add(limit)
	closed := false
	closeAMF := func() {
		if !closed {
			syscall.Close(amfFd)
			closed = true
		}
	}
	tv := syscall.Timeval{Sec: 0, Usec: 200000}
	syscall.SetsockoptTimeval(amfFd, syscall.SOL_SOCKET, syscall.SO_RCVTIMEO, &tv)
	buf := make([]byte, 65536)
	var waitErr error
	exited := false
	resets := 0
	type heldDL struct {
		b   []byte
		due time.Time
		ue  int // >= 0: the setup request of this UE (the AMF is told when it leaves)
	}
	var held []heldDL
	var prevDL []byte // the downlink message sent before the current one
	faultHeld := false // a delayed undecodable answer is (or was) queued: later downlink messages queue behind it
loop:
	for {
		n, err := syscall.Read(amfFd, buf)
		if err == syscall.EAGAIN || err == syscall.EWOULDBLOCK || err == syscall.EINTR {
			if time.Now().After(deadline) {
				break loop
			}
			// downlink messages the AMF sends by timer (a delayed Configuration Update Command)
			for len(held) > 0 && !time.Now().Before(held[0].due) {
				if _, werr := syscall.Write(amfFd, held[0].b); werr != nil {
					res.SocketErr = "write: " + werr.Error()
					break loop
				}
				if held[0].ue >= 0 {
					amf.Release(held[0].ue)
				}
				held = held[1:]
			}
			continue
		}
		if err == syscall.ECONNRESET && resets < 4 {
			// the peer closed with unread data in its own queue: the error is reported once, ahead of
			// the datagrams that are still queued here; keep reading until end of file
			resets++
			res.SocketErr = err.Error()
			continue
		}
		if err != nil {
			res.SocketErr = err.Error()
			break loop
		}
		if n == 0 {
			break loop // peer closed
		}
		ul := append([]byte{}, buf[:n]...)
		dls, v := amf.Handle(ul)
		if v != nil {
			break loop
		}
		f := sc.Fault
		if f.Kind == "close" && amf.ULCount()-1 == f.Index {
			res.FaultDone, res.ULAtFault, res.DLAtFault = true, amf.ULCount(), amf.DLCount()-len(dls)
			amf.Note("fault", fmt.Sprintf("association closed after receiving uplink %d, before answering", f.Index))
			break loop
		}
		base := amf.DLCount() - len(dls)
		for i, d := range dls {
			if i > 0 {
				prevDL = dls[i-1]
			}
			if f.Kind == "garbage" && base+i == f.Index {
				g := garble(f, d, prevDL)
				if base+i == 0 {
					amf.NGSetupAnswerLost()
				}
				res.FaultDone, res.ULAtFault = true, amf.ULCount()
				amf.Note("fault", fmt.Sprintf("downlink %d replaced by undecodable bytes (%s): %x", f.Index, f.Garbage, trunc64(g)))
				d = g
			}
			if f.Kind == "close-after-dl" && base+i == f.Index {
				// the AMF sends this answer and is gone. To make the outcome independent of scheduling the receive
				// side is shut down BEFORE the answer is sent: from the moment the emulator can read the answer every
				// write of it fails (EPIPE), and after the answer it reads end-of-file.
				_ = syscall.Shutdown(amfFd, syscall.SHUT_RD)
				_, werr := syscall.Write(amfFd, d)
				res.FaultDone, res.ULAtFault, res.DLAtFault = true, amf.ULCount(), base+i+1
				amf.Note("fault", fmt.Sprintf("association closed right after downlink %d was sent (write error: %v)", f.Index, werr))
				break loop
			}
			if f.Kind == "garbage" && f.DelayMs > 0 && (base+i == f.Index || faultHeld) {
				// the late undecodable answer, and whatever follows it, in order
				due := time.Now()
				if base+i == f.Index {
					due = due.Add(time.Duration(f.DelayMs) * time.Millisecond)
				}
				held = append(held, heldDL{append([]byte{}, d...), due, -1})
				faultHeld = true
				continue
			}
			if delay, k := cucDelay(amf, sc, base+i); delay > 0 && f.Kind == "" {
				held = append(held, heldDL{append([]byte{}, d...), time.Now().Add(delay), k})
				if k >= 0 {
					amf.Hold(k)
				}
				continue
			}
			if _, err := syscall.Write(amfFd, d); err != nil {
				res.SocketErr = "write: " + err.Error()
				break loop
			}
		}
		if len(dls) > 0 {
			prevDL = dls[len(dls)-1]
		}
	}
	closeAMF()
	res.ULTotal = amf.ULCount()
	select {
	case waitErr = <-done:
		exited = true
	case <-time.After(time.Until(deadline)):
	}
	if !exited {
		res.TimedOut = true
		cmd.Process.Kill()
		waitErr = <-done
	}
	res.Elapsed = time.Since(t0)
	res.Exited = exited
	if ee, ok := waitErr.(*exec.ExitError); ok {
		res.ExitCode = ee.ExitCode()
		if ws, ok := ee.Sys().(syscall.WaitStatus); ok && ws.Signaled() {
			res.Signal = ws.Signal().String()
		}
	} else if waitErr != nil {
		res.ExitCode = -1
		res.SocketErr += " wait: " + waitErr.Error()
	}
	res.Stdout = out.String()
	if b, err := os.ReadFile(connLog); err == nil {
		res.ConnectLog, res.HasConnLog = string(b), true
	}
	for _, line := range strings.Split(res.Stdout, "\n") {
		if strings.HasPrefix(line, "@@PD ") {
			var m map[string]interface{}
			if json.Unmarshal([]byte(line[5:]), &m) == nil {
				res.ProcLines = append(res.ProcLines, m)
			}
		}
	}
	return res
}

var errLine = regexp.MustCompile(`(?m)^(Error[^:\n]*):`)
var panicFrame = regexp.MustCompile(`(?m)^((?:stgutg|tglib|free5gclib|main)[A-Za-z0-9_./]*\.[A-Za-z0-9_.()*]+)\(`)

// exitKey classifies how the child ended, for root-cause keys.
func exitKey(res *convResult) string {
	if res.TimedOut {
		return "stall"
	}
	if strings.Contains(res.Stdout, "panic:") || strings.Contains(res.Stdout, "fatal error:") {
		if m := panicFrame.FindStringSubmatch(res.Stdout[strings.Index(res.Stdout, "goroutine "):]); m != nil {
			return "emulator-panic:" + m[1]
		}
		return "emulator-panic"
	}
	if ms := errLine.FindAllStringSubmatch(res.Stdout, -1); len(ms) > 0 {
		return fmt.Sprintf("emulator-exit%d:%s", res.ExitCode, ms[len(ms)-1][1])
	}
	return fmt.Sprintf("emulator-exit%d", res.ExitCode)
}

func tailStr(s string, n int) string {
	lines := strings.Split(strings.TrimRight(s, "\n"), "\n")
	if len(lines) > n {
		lines = lines[len(lines)-n:]
	}
	return strings.Join(lines, "\n")
}

// describe renders the end of a conversation for failure messages.
func describe(res *convResult) string {
	var b strings.Builder
	fmt.Fprintf(&b, "child: exited=%v code=%d signal=%q timed_out=%v elapsed=%v; AMF handled %d uplink / sent %d downlink PDUs", res.Exited, res.ExitCode, res.Signal, res.TimedOut, res.Elapsed.Round(time.Millisecond), res.AMF.ULCount(), res.AMF.DLCount())
	if p := res.AMF.Pending(); len(p) > 0 {
		fmt.Fprintf(&b, "; AMF still waits for: %s", strings.Join(p, ", "))
	}
	fmt.Fprintf(&b, "\n--- last lines of the child's output:\n%s", tailStr(res.Stdout, 12))
	return b.String()
}

// ----------------------------------------------------------------------------------
// running many sleep-bound conversations concurrently

// evalResult is a verdict plus the request to re-run the case alone (time-outs are only
// believed when they reproduce without concurrent load).
type evalResult struct {
	V     ev.Verdict
	Retry bool
}

func workers() int {
	if ev.Tier() == "thorough" {
		return 64
	}
	return 48
}

// runParallel evaluates the cases with a bounded worker pool, re-runs time-outs alone,
// then funnels the verdicts through r.Each in case order. With VERIF_REPLAY set it
// evaluates the saved case only.
func runParallel[C any](t *testing.T, r *ev.Rec, cases []C, eval func(C) evalResult) {
	defer r.Flush()
	if p := ev.Replay(); p != "" {
		var doc struct {
			Test string          `json:"test"`
			Case json.RawMessage `json:"case"`
		}
		b, err := os.ReadFile(p)
		if err != nil {
			t.Fatalf("replay: %v", err)
		}
		if err := json.Unmarshal(b, &doc); err != nil {
			t.Fatalf("replay: %v", err)
		}
		if doc.Test != "" && doc.Test != r.Test {
			t.Skipf("replay file is for %s", doc.Test)
		}
		var c C
		if err := json.Unmarshal(doc.Case, &c); err != nil {
			t.Fatalf("replay: case does not parse: %v", err)
		}
		res := eval(c)
		if res.Retry {
			res = eval(c)
		}
		if r.Each(t, c, res.V) && res.V.Err == nil {
			t.Logf("replay: property holds on this case")
		}
		return
	}
	out := make([]evalResult, len(cases))
	sem := make(chan struct{}, workers())
	var wg sync.WaitGroup
	for i := range cases {
		wg.Add(1)
		sem <- struct{}{}
		go func(i int) {
			defer wg.Done()
			defer func() { <-sem }()
			out[i] = safeEval(eval, cases[i])
		}(i)
	}
	wg.Wait()
	for i := range cases {
		if out[i].Retry {
			// a time-out under concurrent load is only believed when it reproduces alone
			r.Class("rerun-alone-after-timeout", 1)
			if out[i].V.Err != nil {
				msg := out[i].V.Err.Error()
				if len(msg) > 600 {
					msg = msg[:600]
				}
				cj, _ := json.Marshal(cases[i])
				if len(cj) > 2500 {
					cj = cj[:2500]
				}
				r.Note("case %d timed out under concurrent load and was re-run alone; first run: [%s] %s\ncase: %s", i, out[i].V.Key, msg, cj)
			}
			out[i] = safeEval(eval, cases[i])
		}
		if out[i].V.Err != nil && !r.IsKnown(out[i].V.Key) {
			break // reporting stops at the first failure in case order; no need to re-run later time-outs
		}
	}
	for i := range cases {
		if !r.Each(t, cases[i], out[i].V) {
			return
		}
	}
}

func safeEval[C any](eval func(C) evalResult, c C) (res evalResult) {
	defer func() {
		if e := recover(); e != nil {
			res = evalResult{V: ev.Verdict{Err: fmt.Errorf("harness panic: %v", e), Key: "harness-panic"}}
		}
	}()
	return eval(c)
}

func binPath(name string) string { return filepath.Join(ev.BinDir(), name) }

func haveBins(t *testing.T, names ...string) {
	for _, n := range names {
		if _, err := os.Stat(binPath(n)); err != nil {
			t.Fatalf("binary %s not built (the checks.d fragment must set needs_proc/needs_main): %v", n, err)
		}
	}
}

func writeFile(path, content string) error { return os.WriteFile(path, []byte(content), 0644) }

// writeConfig puts the configuration of a case into dir as ./config.yaml, as the kind of object the case asks for.
func writeConfig(dir string, c emuConfig) error {
	text := c.YAML()
	switch c.Syntax.Kind {
	case "symlink", "symlink-chain":
		if err := os.MkdirAll(filepath.Join(dir, "mounted", "..data"), 0755); err != nil {
			return err
		}
		if err := writeFile(filepath.Join(dir, "mounted", "..data", "stg.yaml"), text); err != nil {
			return err
		}
		target := filepath.Join("mounted", "..data", "stg.yaml")
		if c.Syntax.Kind == "symlink-chain" {
			if err := os.Symlink(filepath.Join("..data", "stg.yaml"), filepath.Join(dir, "mounted", "stg.yaml")); err != nil {
				return err
			}
			target = filepath.Join("mounted", "stg.yaml")
		}
		return os.Symlink(target, filepath.Join(dir, "config.yaml"))
	case "fifo":
		path := filepath.Join(dir, "config.yaml")
		if err := syscall.Mkfifo(path, 0644); err != nil {
			return err
		}
		go func() {
			// the writer side: waits (without blocking for ever) until somebody opens the pipe for reading
			deadline := time.Now().Add(30 * time.Second)
			for time.Now().Before(deadline) {
				fd, err := syscall.Open(path, syscall.O_WRONLY|syscall.O_NONBLOCK|syscall.O_CLOEXEC, 0)
				if err == syscall.ENOENT || err == syscall.ENOTDIR {
					return // the case is over, its directory is gone
				}
				if err != nil {
					// nobody reads yet (ENXIO), or a passing shortage (EINTR, EMFILE under many parallel cases): try again
					time.Sleep(3 * time.Millisecond)
					continue
				}
				_ = syscall.SetNonblock(fd, false)
				f := os.NewFile(uintptr(fd), path)
				half := len(text) / 2
				_, _ = f.Write([]byte(text[:half]))
				time.Sleep(15 * time.Millisecond)
				_, _ = f.Write([]byte(text[half:]))
				_ = f.Close()
				return
			}
		}()
		return nil
	}
	return writeFile(filepath.Join(dir, "config.yaml"), text)
}
func removeAll(dir string)                 { os.RemoveAll(dir) }

// retryOnce wraps an evaluation for the rapid-driven (sequential) tests: the first time-out
// seen in this process is re-run once before it is believed; while rapid shrinks a
// confirmed time-out, later ones are taken at face value (each costs the full bound).
var stallConfirmed int32

func retryOnce[C any](eval func(C) evalResult) func(C) ev.Verdict {
	return func(c C) ev.Verdict {
		res := eval(c)
		if res.Retry && atomic.LoadInt32(&stallConfirmed) == 0 {
			res = eval(c)
			if res.Retry {
				atomic.StoreInt32(&stallConfirmed, 1)
			}
		}
		return res.V
	}
}

// Per-case seeds: the driver derives shard seeds as base + shard*7919, so the per-case
// offsets use other primes (15485863, 32452843); with the same step, shard i case k would
// repeat shard i-1 case k+1.
