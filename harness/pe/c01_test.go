package pe

// C01 — NG Setup + UE registration is accepted by a conformant AMF.
//
// Case: one configuration (the documented keys) × the network's choices for every UE.
// The emulator runs as a child (L-main: the real main in test mode with registration
// only; L-proc: the exported procedures through procdriver, no sleeps) against refamf.

import (
	"encoding/json"
	"fmt"
	"regexp"
	"strconv"
	"strings"
	"testing"

	"pgregory.net/rapid"

	"verifh/ev"
	"verifh/refamf"
)

// peCase is the replayable unit of every conversation-level test of this package.
type peCase struct {
	Level      string          `json:"level"` // "main" | "proc"
	Cfg        emuConfig       `json:"config"`
	Sc         refamf.Scenario `json:"scenario"`
	Script     []procOp        `json:"script,omitempty"`
	Argv       []string        `json:"argv,omitempty"`
	Transcript []refamf.Entry  `json:"transcript,omitempty"` // filled in when the case fails
	Stdout     string          `json:"child_output_tail,omitempty"`
}

func (c *peCase) hash() uint64 {
	cp := *c
	cp.Transcript, cp.Stdout = nil, ""
	return ev.HashJSON(&cp)
}

// attach stores the evidence of a failed conversation in the case (it becomes the replay file).
func (c *peCase) attach(res *convResult) {
	if res == nil || res.AMF == nil {
		return
	}
	c.Transcript = res.AMF.Transcript
	c.Stdout = tailStr(res.Stdout, 25)
}

// spawnFor prepares the child of a case: directory with config.yaml, binary, arguments, script.
func (c *peCase) spawnFor(test string) (spawn, error) {
	dir, err := caseDir(test)
	if err != nil {
		return spawn{}, err
	}
	if err := writeConfig(dir, c.Cfg); err != nil {
		return spawn{}, err
	}
	if c.Level == "proc" {
		in, _ := json.Marshal(map[string]interface{}{"ops": c.Script})
		return spawn{Bin: binPath("procdriver"), Dir: dir, Stdin: in, Args: c.Argv}, nil
	}
	args := c.Argv
	if args == nil {
		args = []string{"-t"}
	}
	return spawn{Bin: binPath("stgutg_verif"), Dir: dir, Args: args}, nil
}

// conversationVerdict: the checks every fault-free conversation shares — the reference
// AMF raised no violation, the child ended with status 0, the procedures the harness
// expects were all seen in main's order, (L-main) the completion banner was printed,
// (L-proc) every scripted procedure returned.
func conversationVerdict(c *peCase, res *convResult, want []refamf.Event) (v ev.Verdict, retry bool) {
	if res.StartErr != nil {
		return ev.Verdict{Err: fmt.Errorf("harness: %v", res.StartErr), Key: "harness"}, false
	}
	a := res.AMF
	if a.Violation != nil {
		c.attach(res)
		return ev.Verdict{Err: fmt.Errorf("reference AMF: %s\n%s", a.Violation.Msg, describe(res)), Key: a.Violation.Key}, false
	}
	if res.TimedOut {
		c.attach(res)
		return ev.Verdict{Err: fmt.Errorf("conversation stalled: the emulator did not finish within %v\n%s", res.Elapsed, describe(res)), Key: "stall"}, true
	}
	if res.ExitCode != 0 {
		c.attach(res)
		key, hint := exitKey(res), ""
		// root cause D10: a SUPI-derived PDU session identity above 255 goes into the one-octet NAS fields
		// truncated, while the NGAP builder receives it untruncated and the encoder refuses INTEGER (0..255)
		for k := 0; k < a.NumUEs(); k++ {
			u := a.UE(k)
			if len(u.SUPI) >= 4 && strings.Contains(res.Stdout, "larger than upperbound") {
				if suffix, _ := strconv.Atoi(u.SUPI[len(u.SUPI)-4:]); suffix > 255 && !u.Active && containsStr(a.Pending(), fmt.Sprintf("ue %d: PDUSessionResourceSetupResponse", k)) {
					key = "psi>255:ngap-refused"
					hint = fmt.Sprintf("\nUE %d (imsi-%s): the PDU session identity derived from the SUPI is %d; the 5GSM message and the UL NAS TRANSPORT carried %d (one octet), the NGAP response needs INTEGER (0..255) and was refused by the encoder: no single identity is used consistently", k, u.SUPI, suffix, u.PSI)
				}
			}
		}
		return ev.Verdict{Err: fmt.Errorf("the emulator ended with exit status %d before the conversation was complete%s\n%s", res.ExitCode, hint, describe(res)), Key: key}, false
	}
	if cv := a.CountReuse(); cv != nil {
		c.attach(res)
		return ev.Verdict{Err: cv, Key: cv.Key}, false
	}
	got := a.Events
	if len(got) != len(want) {
		c.attach(res)
		return ev.Verdict{Err: fmt.Errorf("procedures seen by the AMF %s, expected from the configuration %s\n%s", fmtEvents(got), fmtEvents(want), describe(res)), Key: "procedures:" + firstDiff(got, want)}, false
	}
	for i := range got {
		if got[i] != want[i] {
			c.attach(res)
			return ev.Verdict{Err: fmt.Errorf("procedures seen by the AMF %s, expected from the configuration %s", fmtEvents(got), fmtEvents(want)), Key: "procedures:" + firstDiff(got, want)}, false
		}
	}
	if p := a.Pending(); len(p) > 0 {
		c.attach(res)
		return ev.Verdict{Err: fmt.Errorf("the emulator finished but the AMF still waits for: %s", strings.Join(p, ", ")), Key: "incomplete:" + strings.SplitN(p[0], ": ", 2)[len(strings.SplitN(p[0], ": ", 2))-1]}, false
	}
	if c.Level == "main" {
		if !strings.Contains(res.Stdout, ">> All tests finished") {
			c.attach(res)
			return ev.Verdict{Err: fmt.Errorf("exit status 0 without the completion banner\n%s", describe(res)), Key: "no-banner"}, false
		}
	} else {
		if len(res.ProcLines) != len(c.Script)+1 {
			c.attach(res)
			return ev.Verdict{Err: fmt.Errorf("%d of %d scripted procedures returned\n%s", len(res.ProcLines), len(c.Script), describe(res)), Key: "proc-no-return"}, false
		}
	}
	return ev.Verdict{}, false
}

func fmtEvents(l []refamf.Event) string {
	var s []string
	for _, e := range l {
		if e.UE < 0 {
			s = append(s, e.Kind)
		} else {
			s = append(s, fmt.Sprintf("%s(%d)", e.Kind, e.UE))
		}
	}
	return "[" + strings.Join(s, " ") + "]"
}

func firstDiff(got, want []refamf.Event) string {
	for i := 0; i < len(got) || i < len(want); i++ {
		switch {
		case i >= len(got):
			return "missing-" + want[i].Kind
		case i >= len(want):
			return "extra-" + got[i].Kind
		case got[i] != want[i]:
			return "order-" + got[i].Kind
		}
	}
	return "same"
}

// ----------------------------------------------------------------------------------

func genC01(level string, maxUEs int) func(t *rapid.T) *peCase {
	return func(t *rapid.T) *peCase {
		n := rapid.IntRange(1, maxUEs).Draw(t, "n_ues")
		cfg := genConfig(t, cfgOpts{maxUEs: n, smallPSI: rapid.Bool().Draw(t, "small_suffix")})
		cfg.Reg = int64(n)
		c := &peCase{Level: level, Cfg: cfg}
		c.Sc = genScenario(t, cfg, n, refamf.Policy{})
		if level == "proc" {
			c.Script = cfg.procScript(clamps{R: int64(n)})
		}
		return c
	}
}

func c01NT(c *peCase) bool {
	cfg := c.Cfg
	if len(cfg.MNC) == 3 || (len(cfg.InitialIMSI)-3-len(cfg.MNC))%2 == 1 || cfg.GnbBitLen != 24 || cfg.OPC == "" {
		return true
	}
	for _, u := range c.Sc.UEs {
		if u.AMFUEID >= 1<<32 || u.Options&refamf.NGAPOptionMask != 0 {
			return true
		}
	}
	return false
}

func evalC01(test string) func(c *peCase) evalResult {
	return func(c *peCase) evalResult {
		sp, err := c.spawnFor(test)
		if err != nil {
			return evalResult{V: ev.Verdict{Err: err, Key: "harness"}}
		}
		defer removeAll(sp.Dir)
		k := c.Cfg.clamps()
		limit := bound(k.sleepBudget())
		res := converse(sp, c.Sc, limit)
		v, retry := conversationVerdict(c, res, clamps{R: k.R}.expectedEvents())
		v.Classes = append(append(configClasses(c.Cfg), scenarioClasses(c.Sc)...), "level:"+c.Level, fmt.Sprintf("ues=%d", len(c.Sc.UEs)))
		v.Hash = c.hash()
		if v.Err == nil {
			v.NT = c01NT(c)
			// L-proc: RegisterUE returned the context the AMF assigned
			if c.Level == "proc" {
				for _, l := range res.ProcLines {
					if l["op"] == "register" {
						i := int(l["i"].(float64))
						if got, want := uint64(l["amf_id"].(float64)), c.Sc.UEs[i].AMFUEID; want < 1<<53 && got != want {
							c.attach(res)
							v.Err, v.Key = fmt.Errorf("RegisterUE returned a context with AMF-UE-NGAP-ID %d, the AMF assigned %d", got, want), "proc-amf-id"
						}
						if got := int(l["ul_count"].(float64)); got != 2 {
							c.attach(res)
							v.Err, v.Key = fmt.Errorf("uplink NAS COUNT after registration is %d, expected 2 (Security Mode Complete 0, Registration Complete 1)", got), "proc-ul-count"
						}
					}
				}
			}
		}
		return evalResult{V: v, Retry: retry}
	}
}

// TestC01_Proc: L-proc, no sleeps — rapid-driven with shrinking.
func TestC01_Proc(t *testing.T) {
	haveBins(t, "procdriver")
	r := ev.New(t, "C01", "TestC01_Proc")
	eval := evalC01("TestC01_Proc")
	ev.Run(t, r, genC01("proc", 3), retryOnce(eval))
}

// TestC01_Main: the real main in test mode, registration only; conversations are
// sleep-bound, so they run concurrently.
func TestC01_Main(t *testing.T) {
	haveBins(t, "stgutg_verif")
	r := ev.New(t, "C01", "TestC01_Main")
	n := ev.N(64, 3000)
	gen := rapid.Custom(genC01("main", 3))
	var cases []*peCase
	if ev.Replay() == "" {
		for k := 0; k < n; k++ {
			cases = append(cases, gen.Example(int(ev.Seed())+k*15485863))
		}
	}
	runParallel(t, r, cases, evalC01("TestC01_Main"))
}

func containsStr(l []string, x string) bool {
	for _, y := range l {
		if y == x {
			return true
		}
	}
	return false
}

var neLabel = regexp.MustCompile(`^not enforced \[([^\]]+)\]`)

// observedClasses: which of the deliberately unjudged deviations a conversation showed
// (once per conversation), for the class histogram of the evidence.
func observedClasses(a *refamf.AMF) []string {
	seen := map[string]bool{}
	var out []string
	for _, e := range a.Transcript {
		for _, o := range e.Obs {
			if m := neLabel.FindStringSubmatch(o); m != nil && !seen[m[1]] {
				seen[m[1]] = true
				out = append(out, "observed-not-judged:"+m[1])
			}
		}
	}
	return out
}
