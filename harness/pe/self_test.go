package pe

// Self-tests of the oracles of this package (run by the driver before every check):
// refcrypto against published vectors; iewalk against bytes analysed by hand and against
// the independent encoder refper; the NAS reader against hand-derived bytes; and the
// reference AMF against a conformant UE/gNB written by hand for this test (so that the
// AMF is known to accept conformant behaviour that differs from the emulator's habits).

import (
	"bytes"
	"encoding/hex"
	"fmt"
	"strings"
	"testing"

	"free5gclib/aper"
	"free5gclib/ngap/ngapType"

	"verifh/iewalk"
	"verifh/refamf"
	"verifh/refcrypto"
	"verifh/refper"
)

func unhex(s string) []byte {
	b, err := hex.DecodeString(strings.ReplaceAll(s, " ", ""))
	if err != nil {
		panic(err)
	}
	return b
}

func TestSelfCrypto(t *testing.T) {
	if err := refcrypto.SelfTest(); err != nil {
		t.Fatal(err)
	}
}

// The NG Setup Request of the shipped configuration, analysed by hand against X.691 and
// TS 38.413 (DESIGN.md 3.6): gNB id 000102/24 bits, PLMN 001/01, name "open5gs".
const ngSetupHand = "00 15 00 35" + // initiatingMessage, procedureCode 21, criticality reject, 53 octets
	"00 00 04" + // NGSetupRequest: extension bit; 4 IEs
	"00 1b 00 08" + "00 00 f1 10 10 00 01 02" + // GlobalRANNodeID: choice 0, GlobalGNB-ID{ext,opt}=0; PLMN; gNB-ID choice 0, length 24-22=2 in 4 bits; 24 bits
	"00 52 40 09" + "03 00 6f 70 65 6e 35 67 73" + // RANNodeName: size ext 0, length 7-1 in 8 bits, aligned; 7 characters
	"00 66 00 10" + "00 00 00 00 01 00 00 f1 10 00 00 10 08 01 02 03" + // SupportedTAList: 1 item; TAC; 1 PLMN; 1 slice: sd present, sst 1, sd 010203
	"00 15 40 01" + "40" // DefaultPagingDRX v128

func TestSelfIewalkHandAnalysed(t *testing.T) {
	p, err := iewalk.ParsePDU(unhex(ngSetupHand))
	if err != nil {
		t.Fatal(err)
	}
	if p.Class != iewalk.ClassInitiating || p.ProcedureCode != 21 || p.Criticality != iewalk.CritReject || len(p.IEs) != 4 || p.Name() != "NGSetupRequest" {
		t.Fatalf("framing: %+v", p)
	}
	if f := p.Check(); len(f) != 0 {
		t.Fatalf("table check: %v", f)
	}
	g, err := iewalk.DecodeGlobalRANNodeID(p.Find(iewalk.IDGlobalRANNodeID).Value)
	if err != nil || g.Kind != 0 || g.PLMN != (iewalk.PLMN{0x00, 0xf1, 0x10}) || g.BitLen != 24 || !bytes.Equal(g.GNBID, []byte{0, 1, 2}) {
		t.Fatalf("GlobalRANNodeID: %+v %v", g, err)
	}
	if mcc, mnc := g.PLMN.Digits(); mcc != "001" || mnc != "01" {
		t.Fatalf("PLMN digits %s %s", mcc, mnc)
	}
	n, err := iewalk.DecodeRANNodeName(p.Find(iewalk.IDRANNodeName).Value)
	if err != nil || n != "open5gs" {
		t.Fatalf("RANNodeName %q %v", n, err)
	}
	tas, err := iewalk.DecodeSupportedTAList(p.Find(iewalk.IDSupportedTAList).Value)
	if err != nil || len(tas) != 1 || tas[0].TAC != [3]byte{0, 0, 1} || len(tas[0].PLMNs) != 1 || tas[0].PLMNs[0].PLMN != (iewalk.PLMN{0x00, 0xf1, 0x10}) ||
		len(tas[0].PLMNs[0].Slices) != 1 || tas[0].PLMNs[0].Slices[0] != (iewalk.SNSSAI{SST: 1, HasSD: true, SD: [3]byte{1, 2, 3}}) {
		t.Fatalf("SupportedTAList %+v %v", tas, err)
	}
	d, err := iewalk.DecodePagingDRX(p.Find(iewalk.IDDefaultPagingDRX).Value)
	if err != nil || d != 2 {
		t.Fatalf("PagingDRX %d %v", d, err)
	}
	// every strict prefix is refused, and so are the three garbage families of C19
	good := unhex(ngSetupHand)
	for i := 0; i < len(good); i++ {
		if _, err := iewalk.ParsePDU(good[:i]); err == nil {
			t.Fatalf("prefix of %d octets accepted", i)
		}
	}
	// later-release IEs appended by the AMF model: the hand-written reader finds the original IEs unchanged and n more
	if p0, err := iewalk.ParsePDU(good); err != nil {
		t.Fatal(err)
	} else {
		for n := 1; n <= 3; n++ {
			ext, err := refamf.WithLaterIEs(good, n, n)
			if err != nil {
				t.Fatal(err)
			}
			p1, err := iewalk.ParsePDU(ext)
			if err != nil || len(p1.IEs) != len(p0.IEs)+n {
				t.Fatalf("message with %d later-release IEs: %v (%d IEs, originally %d)", n, err, len(p1.IEs), len(p0.IEs))
			}
			for i := range p0.IEs {
				if p0.IEs[i].ID != p1.IEs[i].ID || !bytes.Equal(p0.IEs[i].Value, p1.IEs[i].Value) {
					t.Fatalf("IE %d changed by the extension", i)
				}
			}
			for _, ie := range p1.IEs[len(p0.IEs):] {
				if ie.ID < 300 || ie.ID > 60299 || ie.Criticality != 1 {
					t.Fatalf("later-release IE id %d criticality %d", ie.ID, ie.Criticality)
				}
			}
		}
	}
	for _, fam := range []string{"choice3", "length", "stale-prefix", "oversize2048", "otherproc", "failure-truncated", "cause-ext-enum", "frag-zero"} {
		if _, err := iewalk.ParsePDU(garble(refamf.Fault{Garbage: fam, PrefixLen: 3}, good, good)); err == nil {
			t.Fatalf("garbage family %s accepted", fam)
		}
	}
	// hand-derived integers: AMF-UE-NGAP-ID 2^32 = length 5 (100 in 3 bits), aligned, 01 00 00 00 00
	if v, err := iewalk.DecodeAMFUENGAPID(unhex("80 01 00 00 00 00")); err != nil || v != 1<<32 {
		t.Fatalf("AMF-UE-NGAP-ID %d %v", v, err)
	}
	if v, err := iewalk.DecodeAMFUENGAPID(unhex("00 00")); err != nil || v != 0 {
		t.Fatalf("AMF-UE-NGAP-ID %d %v", v, err)
	}
	if v, err := iewalk.DecodeRANUENGAPID(unhex("40 01 00")); err != nil || v != 256 {
		t.Fatalf("RAN-UE-NGAP-ID %d %v", v, err)
	}
	if _, err := iewalk.DecodeRANUENGAPID(unhex("40 01 00 00")); err == nil {
		t.Fatalf("trailing octet accepted")
	}
	// RRCEstablishmentCause mt-Access (2): extension bit 0, 4 bits 0010
	if v, ext, err := iewalk.DecodeRRCEstablishmentCause(unhex("10")); err != nil || v != 2 || ext {
		t.Fatalf("RRCEstablishmentCause %d %v %v", v, ext, err)
	}
}

// ---- a hand-written gNB/UE side (values built with the ngapType data structures, bytes by refper)

type testUE struct {
	ran, amf uint64
	supi     string
	k, opc   [16]byte
	keys     refcrypto.Keys5G
	ul, dl   uint32
	plmn     [3]byte
	psi      int
	gtp      [4]byte
	guti     []byte
	enc, int int // selected algorithms (0 = NEA0; integrity 2 unless set to 1)
}

func (u *testUE) crypt(count, dir uint32, in []byte) []byte {
	switch u.enc {
	case 1:
		return refcrypto.EEA1(u.keys.KnasEnc, count, 1, dir, in, 8*len(in))
	case 2:
		return refcrypto.EEA2(u.keys.KnasEnc, count, 1, dir, in)
	}
	return in
}

func (u *testUE) mac(count, dir uint32, p []byte) [4]byte {
	if u.int == 1 {
		return refcrypto.EIA1(u.keys.KnasInt, count, 1, dir, p, 8*len(p))
	}
	return refcrypto.EIA2(u.keys.KnasInt, count, 1, dir, p)
}

func uli(plmn [3]byte) *ngapType.UserLocationInformation {
	u := &ngapType.UserLocationInformation{Present: ngapType.UserLocationInformationPresentUserLocationInformationNR, UserLocationInformationNR: new(ngapType.UserLocationInformationNR)}
	u.UserLocationInformationNR.NRCGI.PLMNIdentity.Value = aper.OctetString(plmn[:])
	u.UserLocationInformationNR.NRCGI.NRCellIdentity.Value = aper.BitString{Bytes: []byte{1, 2, 3, 4, 0x50}, BitLength: 36}
	u.UserLocationInformationNR.TAI.PLMNIdentity.Value = aper.OctetString(plmn[:])
	u.UserLocationInformationNR.TAI.TAC.Value = aper.OctetString{0, 0, 7}
	return u
}

func enc(t testing.TB, p ngapType.NGAPPDU) []byte {
	b, _, err := refper.Encode(p, "valueExt,valueLB:0,valueUB:2")
	if err != nil {
		t.Fatalf("refper: %v", err)
	}
	return b
}

func initMsg(proc int64, crit aper.Enumerated) (ngapType.NGAPPDU, *ngapType.InitiatingMessage) {
	var p ngapType.NGAPPDU
	p.Present = ngapType.NGAPPDUPresentInitiatingMessage
	p.InitiatingMessage = new(ngapType.InitiatingMessage)
	p.InitiatingMessage.ProcedureCode.Value = proc
	p.InitiatingMessage.Criticality.Value = crit
	return p, p.InitiatingMessage
}
func succMsg(proc int64) (ngapType.NGAPPDU, *ngapType.SuccessfulOutcome) {
	var p ngapType.NGAPPDU
	p.Present = ngapType.NGAPPDUPresentSuccessfulOutcome
	p.SuccessfulOutcome = new(ngapType.SuccessfulOutcome)
	p.SuccessfulOutcome.ProcedureCode.Value = proc
	p.SuccessfulOutcome.Criticality.Value = ngapType.CriticalityPresentReject
	return p, p.SuccessfulOutcome
}

const rj, ig = ngapType.CriticalityPresentReject, ngapType.CriticalityPresentIgnore

func ngSetupRequest(t testing.TB, plmn [3]byte, gnbID []byte, bits uint64, name string) []byte {
	p, im := initMsg(ngapType.ProcedureCodeNGSetup, rj)
	im.Value.Present = ngapType.InitiatingMessagePresentNGSetupRequest
	im.Value.NGSetupRequest = new(ngapType.NGSetupRequest)
	l := &im.Value.NGSetupRequest.ProtocolIEs
	ie := ngapType.NGSetupRequestIEs{}
	ie.Id.Value, ie.Criticality.Value, ie.Value.Present = ngapType.ProtocolIEIDGlobalRANNodeID, rj, ngapType.NGSetupRequestIEsPresentGlobalRANNodeID
	ie.Value.GlobalRANNodeID = &ngapType.GlobalRANNodeID{Present: ngapType.GlobalRANNodeIDPresentGlobalGNBID, GlobalGNBID: &ngapType.GlobalGNBID{
		PLMNIdentity: ngapType.PLMNIdentity{Value: aper.OctetString(plmn[:])},
		GNBID:        ngapType.GNBID{Present: ngapType.GNBIDPresentGNBID, GNBID: &aper.BitString{Bytes: gnbID, BitLength: bits}}}}
	l.List = append(l.List, ie)
	if name != "" {
		ie = ngapType.NGSetupRequestIEs{}
		ie.Id.Value, ie.Criticality.Value, ie.Value.Present = ngapType.ProtocolIEIDRANNodeName, ig, ngapType.NGSetupRequestIEsPresentRANNodeName
		ie.Value.RANNodeName = &ngapType.RANNodeName{Value: name}
		l.List = append(l.List, ie)
	}
	ie = ngapType.NGSetupRequestIEs{}
	ie.Id.Value, ie.Criticality.Value, ie.Value.Present = ngapType.ProtocolIEIDSupportedTAList, rj, ngapType.NGSetupRequestIEsPresentSupportedTAList
	ta := ngapType.SupportedTAItem{}
	ta.TAC.Value = aper.OctetString{0, 0, 7}
	bp := ngapType.BroadcastPLMNItem{PLMNIdentity: ngapType.PLMNIdentity{Value: aper.OctetString(plmn[:])}}
	bp.TAISliceSupportList.List = []ngapType.SliceSupportItem{{SNSSAI: ngapType.SNSSAI{SST: ngapType.SST{Value: aper.OctetString{9}}}}}
	ta.BroadcastPLMNList.List = []ngapType.BroadcastPLMNItem{bp}
	ie.Value.SupportedTAList = &ngapType.SupportedTAList{List: []ngapType.SupportedTAItem{ta}}
	l.List = append(l.List, ie)
	ie = ngapType.NGSetupRequestIEs{}
	ie.Id.Value, ie.Criticality.Value, ie.Value.Present = ngapType.ProtocolIEIDDefaultPagingDRX, ig, ngapType.NGSetupRequestIEsPresentDefaultPagingDRX
	ie.Value.DefaultPagingDRX = &ngapType.PagingDRX{Value: ngapType.PagingDRXPresentV32}
	l.List = append(l.List, ie)
	return enc(t, p)
}

func (u *testUE) initialUE(t testing.TB, nas []byte) []byte {
	p, im := initMsg(ngapType.ProcedureCodeInitialUEMessage, ig)
	im.Value.Present = ngapType.InitiatingMessagePresentInitialUEMessage
	im.Value.InitialUEMessage = new(ngapType.InitialUEMessage)
	l := &im.Value.InitialUEMessage.ProtocolIEs
	type V = ngapType.InitialUEMessageIEsValue
	add := func(id int64, c aper.Enumerated, pr int, f func(v *V)) {
		ie := ngapType.InitialUEMessageIEs{}
		ie.Id.Value, ie.Criticality.Value, ie.Value.Present = id, c, pr
		f(&ie.Value)
		l.List = append(l.List, ie)
	}
	add(ngapType.ProtocolIEIDRANUENGAPID, rj, ngapType.InitialUEMessageIEsPresentRANUENGAPID, func(v *V) { v.RANUENGAPID = &ngapType.RANUENGAPID{Value: int64(u.ran)} })
	add(ngapType.ProtocolIEIDNASPDU, rj, ngapType.InitialUEMessageIEsPresentNASPDU, func(v *V) { v.NASPDU = &ngapType.NASPDU{Value: nas} })
	add(ngapType.ProtocolIEIDUserLocationInformation, rj, ngapType.InitialUEMessageIEsPresentUserLocationInformation, func(v *V) { v.UserLocationInformation = uli(u.plmn) })
	add(ngapType.ProtocolIEIDRRCEstablishmentCause, ig, ngapType.InitialUEMessageIEsPresentRRCEstablishmentCause, func(v *V) {
		v.RRCEstablishmentCause = &ngapType.RRCEstablishmentCause{Value: ngapType.RRCEstablishmentCausePresentMoSignalling}
	})
	return enc(t, p)
}

func (u *testUE) uplinkNAS(t testing.TB, nas []byte) []byte {
	p, im := initMsg(ngapType.ProcedureCodeUplinkNASTransport, ig)
	im.Value.Present = ngapType.InitiatingMessagePresentUplinkNASTransport
	im.Value.UplinkNASTransport = new(ngapType.UplinkNASTransport)
	l := &im.Value.UplinkNASTransport.ProtocolIEs
	type V = ngapType.UplinkNASTransportIEsValue
	add := func(id int64, c aper.Enumerated, pr int, f func(v *V)) {
		ie := ngapType.UplinkNASTransportIEs{}
		ie.Id.Value, ie.Criticality.Value, ie.Value.Present = id, c, pr
		f(&ie.Value)
		l.List = append(l.List, ie)
	}
	add(ngapType.ProtocolIEIDAMFUENGAPID, rj, ngapType.UplinkNASTransportIEsPresentAMFUENGAPID, func(v *V) { v.AMFUENGAPID = &ngapType.AMFUENGAPID{Value: int64(u.amf)} })
	add(ngapType.ProtocolIEIDRANUENGAPID, rj, ngapType.UplinkNASTransportIEsPresentRANUENGAPID, func(v *V) { v.RANUENGAPID = &ngapType.RANUENGAPID{Value: int64(u.ran)} })
	add(ngapType.ProtocolIEIDNASPDU, rj, ngapType.UplinkNASTransportIEsPresentNASPDU, func(v *V) { v.NASPDU = &ngapType.NASPDU{Value: nas} })
	add(ngapType.ProtocolIEIDUserLocationInformation, ig, ngapType.UplinkNASTransportIEsPresentUserLocationInformation, func(v *V) { v.UserLocationInformation = uli(u.plmn) })
	return enc(t, p)
}

func (u *testUE) transfer(t testing.TB) []byte {
	var tr ngapType.PDUSessionResourceSetupResponseTransfer
	q := &tr.QosFlowPerTNLInformation
	q.UPTransportLayerInformation.Present = ngapType.UPTransportLayerInformationPresentGTPTunnel
	q.UPTransportLayerInformation.GTPTunnel = &ngapType.GTPTunnel{
		TransportLayerAddress: ngapType.TransportLayerAddress{Value: aper.BitString{Bytes: u.gtp[:], BitLength: 32}},
		GTPTEID:               ngapType.GTPTEID{Value: aper.OctetString{0xde, 0xad, 0xbe, 0xef}}}
	q.AssociatedQosFlowList.List = []ngapType.AssociatedQosFlowItem{{QosFlowIdentifier: ngapType.QosFlowIdentifier{Value: 9}}, {QosFlowIdentifier: ngapType.QosFlowIdentifier{Value: 63}}}
	b, _, err := refper.Encode(tr, "valueExt")
	if err != nil {
		t.Fatalf("refper: %v", err)
	}
	return b
}

func (u *testUE) idsOutcome(t testing.TB, proc int64, present int, extra func(so *ngapType.SuccessfulOutcome)) []byte {
	p, so := succMsg(proc)
	so.Value.Present = present
	extra(so)
	return enc(t, p)
}

func (u *testUE) icsResponse(t testing.TB, withSession bool) []byte {
	return u.idsOutcome(t, ngapType.ProcedureCodeInitialContextSetup, ngapType.SuccessfulOutcomePresentInitialContextSetupResponse, func(so *ngapType.SuccessfulOutcome) {
		so.Value.InitialContextSetupResponse = new(ngapType.InitialContextSetupResponse)
		l := &so.Value.InitialContextSetupResponse.ProtocolIEs
		ie := ngapType.InitialContextSetupResponseIEs{}
		ie.Id.Value, ie.Criticality.Value, ie.Value.Present = ngapType.ProtocolIEIDAMFUENGAPID, ig, ngapType.InitialContextSetupResponseIEsPresentAMFUENGAPID
		ie.Value.AMFUENGAPID = &ngapType.AMFUENGAPID{Value: int64(u.amf)}
		l.List = append(l.List, ie)
		ie = ngapType.InitialContextSetupResponseIEs{}
		ie.Id.Value, ie.Criticality.Value, ie.Value.Present = ngapType.ProtocolIEIDRANUENGAPID, ig, ngapType.InitialContextSetupResponseIEsPresentRANUENGAPID
		ie.Value.RANUENGAPID = &ngapType.RANUENGAPID{Value: int64(u.ran)}
		l.List = append(l.List, ie)
		if withSession {
			ie = ngapType.InitialContextSetupResponseIEs{}
			ie.Id.Value, ie.Criticality.Value, ie.Value.Present = ngapType.ProtocolIEIDPDUSessionResourceSetupListCxtRes, ig, ngapType.InitialContextSetupResponseIEsPresentPDUSessionResourceSetupListCxtRes
			it := ngapType.PDUSessionResourceSetupItemCxtRes{PDUSessionResourceSetupResponseTransfer: u.transfer(t)}
			it.PDUSessionID.Value = int64(u.psi)
			ie.Value.PDUSessionResourceSetupListCxtRes = &ngapType.PDUSessionResourceSetupListCxtRes{List: []ngapType.PDUSessionResourceSetupItemCxtRes{it}}
			l.List = append(l.List, ie)
		}
	})
}

func (u *testUE) setupResponse(t testing.TB) []byte {
	return u.idsOutcome(t, ngapType.ProcedureCodePDUSessionResourceSetup, ngapType.SuccessfulOutcomePresentPDUSessionResourceSetupResponse, func(so *ngapType.SuccessfulOutcome) {
		so.Value.PDUSessionResourceSetupResponse = new(ngapType.PDUSessionResourceSetupResponse)
		l := &so.Value.PDUSessionResourceSetupResponse.ProtocolIEs
		ie := ngapType.PDUSessionResourceSetupResponseIEs{}
		ie.Id.Value, ie.Criticality.Value, ie.Value.Present = ngapType.ProtocolIEIDAMFUENGAPID, ig, ngapType.PDUSessionResourceSetupResponseIEsPresentAMFUENGAPID
		ie.Value.AMFUENGAPID = &ngapType.AMFUENGAPID{Value: int64(u.amf)}
		l.List = append(l.List, ie)
		ie = ngapType.PDUSessionResourceSetupResponseIEs{}
		ie.Id.Value, ie.Criticality.Value, ie.Value.Present = ngapType.ProtocolIEIDRANUENGAPID, ig, ngapType.PDUSessionResourceSetupResponseIEsPresentRANUENGAPID
		ie.Value.RANUENGAPID = &ngapType.RANUENGAPID{Value: int64(u.ran)}
		l.List = append(l.List, ie)
		ie = ngapType.PDUSessionResourceSetupResponseIEs{}
		ie.Id.Value, ie.Criticality.Value, ie.Value.Present = ngapType.ProtocolIEIDPDUSessionResourceSetupListSURes, ig, ngapType.PDUSessionResourceSetupResponseIEsPresentPDUSessionResourceSetupListSURes
		it := ngapType.PDUSessionResourceSetupItemSURes{PDUSessionResourceSetupResponseTransfer: u.transfer(t)}
		it.PDUSessionID.Value = int64(u.psi)
		ie.Value.PDUSessionResourceSetupListSURes = &ngapType.PDUSessionResourceSetupListSURes{List: []ngapType.PDUSessionResourceSetupItemSURes{it}}
		l.List = append(l.List, ie)
	})
}

func (u *testUE) releaseResponse(t testing.TB) []byte {
	return u.idsOutcome(t, ngapType.ProcedureCodePDUSessionResourceRelease, ngapType.SuccessfulOutcomePresentPDUSessionResourceReleaseResponse, func(so *ngapType.SuccessfulOutcome) {
		so.Value.PDUSessionResourceReleaseResponse = new(ngapType.PDUSessionResourceReleaseResponse)
		l := &so.Value.PDUSessionResourceReleaseResponse.ProtocolIEs
		ie := ngapType.PDUSessionResourceReleaseResponseIEs{}
		ie.Id.Value, ie.Criticality.Value, ie.Value.Present = ngapType.ProtocolIEIDAMFUENGAPID, ig, ngapType.PDUSessionResourceReleaseResponseIEsPresentAMFUENGAPID
		ie.Value.AMFUENGAPID = &ngapType.AMFUENGAPID{Value: int64(u.amf)}
		l.List = append(l.List, ie)
		ie = ngapType.PDUSessionResourceReleaseResponseIEs{}
		ie.Id.Value, ie.Criticality.Value, ie.Value.Present = ngapType.ProtocolIEIDRANUENGAPID, ig, ngapType.PDUSessionResourceReleaseResponseIEsPresentRANUENGAPID
		ie.Value.RANUENGAPID = &ngapType.RANUENGAPID{Value: int64(u.ran)}
		l.List = append(l.List, ie)
		ie = ngapType.PDUSessionResourceReleaseResponseIEs{}
		ie.Id.Value, ie.Criticality.Value, ie.Value.Present = ngapType.ProtocolIEIDPDUSessionResourceReleasedListRelRes, ig, ngapType.PDUSessionResourceReleaseResponseIEsPresentPDUSessionResourceReleasedListRelRes
		it := ngapType.PDUSessionResourceReleasedItemRelRes{PDUSessionResourceReleaseResponseTransfer: aper.OctetString{0x00}}
		it.PDUSessionID.Value = int64(u.psi)
		ie.Value.PDUSessionResourceReleasedListRelRes = &ngapType.PDUSessionResourceReleasedListRelRes{List: []ngapType.PDUSessionResourceReleasedItemRelRes{it}}
		l.List = append(l.List, ie)
	})
}

func (u *testUE) ctxReleaseComplete(t testing.TB) []byte {
	return u.idsOutcome(t, ngapType.ProcedureCodeUEContextRelease, ngapType.SuccessfulOutcomePresentUEContextReleaseComplete, func(so *ngapType.SuccessfulOutcome) {
		so.Value.UEContextReleaseComplete = new(ngapType.UEContextReleaseComplete)
		l := &so.Value.UEContextReleaseComplete.ProtocolIEs
		ie := ngapType.UEContextReleaseCompleteIEs{}
		ie.Id.Value, ie.Criticality.Value, ie.Value.Present = ngapType.ProtocolIEIDAMFUENGAPID, ig, ngapType.UEContextReleaseCompleteIEsPresentAMFUENGAPID
		ie.Value.AMFUENGAPID = &ngapType.AMFUENGAPID{Value: int64(u.amf)}
		l.List = append(l.List, ie)
		ie = ngapType.UEContextReleaseCompleteIEs{}
		ie.Id.Value, ie.Criticality.Value, ie.Value.Present = ngapType.ProtocolIEIDRANUENGAPID, ig, ngapType.UEContextReleaseCompleteIEsPresentRANUENGAPID
		ie.Value.RANUENGAPID = &ngapType.RANUENGAPID{Value: int64(u.ran)}
		l.List = append(l.List, ie)
		ie = ngapType.UEContextReleaseCompleteIEs{}
		ie.Id.Value, ie.Criticality.Value, ie.Value.Present = ngapType.ProtocolIEIDPDUSessionResourceListCxtRelCpl, rj, ngapType.UEContextReleaseCompleteIEsPresentPDUSessionResourceListCxtRelCpl
		it := ngapType.PDUSessionResourceItemCxtRelCpl{}
		it.PDUSessionID.Value = int64(u.psi)
		ie.Value.PDUSessionResourceListCxtRelCpl = &ngapType.PDUSessionResourceListCxtRelCpl{List: []ngapType.PDUSessionResourceItemCxtRelCpl{it}}
		l.List = append(l.List, ie)
	})
}

// protect: security protected 5GS NAS message, integrity NIA2 (BEARER 1, DIRECTION uplink), null ciphering.
func (u *testUE) protect(ht byte, plain []byte) []byte {
	if ht == 3 || ht == 4 {
		u.ul = 0
	}
	if ht == 2 || ht == 4 {
		plain = u.crypt(u.ul, 0, plain)
	}
	p := append([]byte{byte(u.ul)}, plain...)
	mac := u.mac(u.ul, 0, p)
	u.ul++
	return append(append([]byte{0x7e, ht}, mac[:]...), p...)
}

func bcd(d string) []byte {
	var out []byte
	for i := 0; i < len(d); i += 2 {
		hi := byte(0xf)
		if i+1 < len(d) {
			hi = d[i+1] - '0'
		}
		out = append(out, hi<<4|(d[i]-'0'))
	}
	return out
}

// dlNAS extracts (AMF-UE-NGAP-ID, NAS-PDU) from a downlink PDU with the generic reader.
func dlNAS(t testing.TB, dl []byte) (uint64, []byte) {
	p, err := iewalk.ParsePDU(dl)
	if err != nil {
		t.Fatalf("downlink PDU unreadable: %v (%x)", err, dl)
	}
	var id uint64
	var nas []byte
	if ie := p.Find(iewalk.IDAMFUENGAPID); ie != nil {
		if id, err = iewalk.DecodeAMFUENGAPID(ie.Value); err != nil {
			t.Fatal(err)
		}
	}
	if ie := p.Find(iewalk.IDNASPDU); ie != nil {
		if nas, err = iewalk.DecodeNASPDU(ie.Value); err != nil {
			t.Fatal(err)
		}
	}
	return id, nas
}

// TestSelfAMFAcceptsConformantUE: a complete life of two UEs played by the hand-written
// gNB/UE above, with the liberties a conformant implementation may take (Registration
// Complete before the Initial Context Setup Response, Release Complete before the Release
// Response, integrity-only Service Request, GUTI in the de-registration, no RAN node name,
// PDU session identity 5, 3-digit MNC, AMF-UE-NGAP-ID above 2^32).
func TestSelfAMFAcceptsConformantUE(t *testing.T) {
	for _, variant0 := range []int{0, 1, 2, 3} {
		// variants 2 and 3: the AMF's own priority lists select NEA2/NIA1 and NEA1/NIA2 out of
		// what the UE announces, and the UE ciphers accordingly
		variant := variant0 % 2
		enc, intg := 0, 2
		if variant0 == 2 {
			enc, intg = 2, 1
		} else if variant0 == 3 {
			enc, intg = 1, 2
		}
		prov := refamf.Provision{MCC: "901", MNC: "070", IMSI: "901070000000009", K: "465b5ce8b199b49faa5f0a2ee238a6bc", OP: "cdc202d5123e20f62b6d676ac72cb318", SST: 9, SD: "", GnbGTP: "10.9.8.7"}
		if variant == 1 {
			prov = refamf.Provision{MCC: "001", MNC: "01", IMSI: "00101012345", K: "465b5ce8b199b49faa5f0a2ee238a6bc", OPc: "cd63cb71954a9f4e48a5994e37a02baf", SST: 1, SD: "0a0b0c", GnbGTP: "192.168.0.1"}
		}
		snMCC, snMNC := prov.MCC, prov.MNC
		if variant0 == 3 {
			// a serving network other than the subscriber's home network: only the serving network name changes
			prov.ServingMCC, prov.ServingMNC = "999", "70"
			snMCC, snMNC = "999", "70"
		}
		sc := refamf.Scenario{Prov: prov, Policy: refamf.Policy{DistinctSUPI: true},
			NGSetup: refamf.NGSetupChoice{RelativeCapacity: 255, AMFRegion: 2, AMFSet: 1023, AMFPointer: 63, ExtraGUAMIs: 1, ExtraSlices: 2}}
		for i := 0; i < 2; i++ {
			sc.UEs = append(sc.UEs, refamf.UEChoice{RAND: "23553cbe9637a89d218ae64dae47bf35", SQN: "ff9bb4d0b607", AMFField: "b9b9", NgKSI: 3 * i, AMFUEID: 1<<40 - 1 - uint64(i)<<33,
				Options: uint32(refamf.OptEnd-1) * uint32(i), UEIP: "10.45.0.2", UPFIP: "10.0.0.9", TEID: 0xffffffff, AMBRDL: 4000000000000, AMBRUL: 1, Cause5GSM: -1 + 51*i,
				NQoSRules: 1 + 5*i, NFilters: 4 * i, NFlowDescs: 3 * i, FlowParams: 3 * i, SSCMode: 1, DNN: "internet", ReleaseCause: 36})
			if variant0 >= 2 {
				sc.UEs[i].EncPrio = []int{enc, 0, 3 - enc}
				sc.UEs[i].IntPrio = []int{intg, 3 - intg}
			}
		}
		a, err := refamf.New(sc)
		if err != nil {
			t.Fatal(err)
		}
		step := func(what string, ul []byte, wantDL int) [][]byte {
			dls, v := a.Handle(ul)
			if v != nil {
				t.Fatalf("variant %d: the reference AMF rejects a conformant %s: %v", variant0, what, v)
			}
			if len(dls) != wantDL {
				t.Fatalf("variant %d: %s triggered %d downlink PDUs, expected %d", variant, what, len(dls), wantDL)
			}
			for _, d := range dls {
				if len(d) > 2048 {
					t.Fatalf("downlink PDU of %d octets", len(d))
				}
			}
			return dls
		}
		plmn := refamf.EncodePLMN(prov.MCC, prov.MNC)
		name := "gnb one"
		if variant == 1 {
			name = ""
		}
		step("NGSetupRequest", ngSetupRequest(t, plmn, []byte{0xff, 0xff, 0xff, 0xfe}, 31, name), 1)
		var k, opc [16]byte
		copy(k[:], unhex(prov.K))
		if prov.OPc != "" {
			copy(opc[:], unhex(prov.OPc))
		} else {
			var op [16]byte
			copy(op[:], unhex(prov.OP))
			opc = refcrypto.OPc(k, op)
		}
		msin0 := prov.IMSI[3+len(prov.MNC):]
		var ues []*testUE
		for i := 0; i < 2; i++ {
			msin := fmt.Sprintf("%0*d", len(msin0), atoi(msin0)+i)
			u := &testUE{ran: uint64(0xfffffffe + i), supi: prov.MCC + prov.MNC + msin, plmn: plmn, psi: 5 + 10*i*variant, enc: enc, int: intg}
			copy(u.gtp[:], []byte{10, 9, 8, 7})
			if variant == 1 {
				copy(u.gtp[:], []byte{192, 168, 0, 1})
			}
			ues = append(ues, u)
			suci := append([]byte{0x01, plmn[0], plmn[1], plmn[2], 0xf0, 0xff, 0x00, 0x00}, bcd(msin)...)
			rr := append([]byte{0x7e, 0x00, 0x41, 0x79, byte(len(suci) >> 8), byte(len(suci))}, suci...)
			rr = append(rr, 0x10, 0x01, 0x03, 0x2e, 0x04, 0xe0, 0xe0, 0x00, 0x00) // 5GMM capability; UE security capability EA0-2, IA0-2 (+EPS octets)
			dl := step("InitialUEMessage/RegistrationRequest", u.initialUE(t, rr), 1)
			amf, ar := dlNAS(t, dl[0])
			u.amf = amf
			if amf != sc.UEs[i].AMFUEID {
				t.Fatalf("AMF-UE-NGAP-ID %d in the downlink, scenario says %d", amf, sc.UEs[i].AMFUEID)
			}
			// Authentication Request: 7e 00 56 ngKSI | ABBA LV | 21 RAND | 20 10 AUTN
			if ar[2] != 0x56 || int(ar[3]) != sc.UEs[i].NgKSI || ar[4] != 2 || ar[7] != 0x21 || ar[24] != 0x20 || ar[25] != 0x10 {
				t.Fatalf("Authentication Request layout: %x", ar)
			}
			var rnd [16]byte
			copy(rnd[:], ar[8:24])
			autn := ar[26:42]
			// UE side of 5G AKA: AK from f5, SQN recovered, MAC-A verified, RES* derived
			mo := refcrypto.Milenage(k, opc, rnd, [6]byte{}, [2]byte{})
			var sqn, sx [6]byte
			for j := range sqn {
				sx[j] = autn[j]
				sqn[j] = autn[j] ^ mo.AK[j]
			}
			mo = refcrypto.Milenage(k, opc, rnd, sqn, [2]byte{autn[6], autn[7]})
			if !bytes.Equal(mo.MacA[:], autn[8:16]) || autn[6]&0x80 == 0 {
				t.Fatalf("AUTN of the reference AMF does not verify on the UE side (MAC-A %x, AUTN %x)", mo.MacA, autn)
			}
			mnc3 := snMNC
			if len(mnc3) == 2 {
				mnc3 = "0" + mnc3
			}
			u.keys = refcrypto.Derive5G(mo.CK, mo.IK, mo.Res, rnd, sx, "5G:mnc"+mnc3+".mcc"+snMCC+".3gppnetwork.org", u.supi, byte(enc), byte(intg))
			resp := append([]byte{0x7e, 0x00, 0x57, 0x2d, 0x10}, u.keys.ResStar...)
			dl = step("AuthenticationResponse", u.uplinkNAS(t, resp), 1)
			_, smc := dlNAS(t, dl[0])
			// Security Mode Command: header type 3, DL COUNT 0, MAC under the derived key; NEA0/NIA2 selected
			if smc[1] != 3 || smc[6] != 0 || u.mac(0, 1, smc[6:]) != [4]byte{smc[2], smc[3], smc[4], smc[5]} || smc[9] != 0x5d || smc[10] != byte(enc<<4|intg) {
				t.Fatalf("Security Mode Command: %x", smc)
			}
			smcpl := []byte{0x7e, 0x00, 0x5e}
			dl = step("SecurityModeComplete", u.uplinkNAS(t, u.protect(4, smcpl)), 1)
			_, ra := dlNAS(t, dl[0])
			if ra[1] != 2 || ra[6] != 1 || u.mac(1, 1, ra[6:]) != [4]byte{ra[2], ra[3], ra[4], ra[5]} {
				t.Fatalf("Registration Accept: %x", ra)
			}
			ra = append(append([]byte(nil), ra[:7]...), u.crypt(1, 1, ra[7:])...)
			if ra[9] != 0x42 {
				t.Fatalf("Registration Accept: %x", ra)
			}
			if ra[12] != 0x77 || ra[14] != 0x0b {
				t.Fatalf("Registration Accept without 5G-GUTI: %x", ra)
			}
			u.guti = ra[15:26]
			rc := u.uplinkNAS(t, u.protect(2, []byte{0x7e, 0x00, 0x43}))
			if variant == 1 {
				step("RegistrationComplete (before the context setup response)", rc, 1)
				step("InitialContextSetupResponse", u.icsResponse(t, false), 0)
			} else {
				step("InitialContextSetupResponse", u.icsResponse(t, false), 0)
				step("RegistrationComplete", rc, 1)
			}
		}
		snssai := []byte{byte(prov.SST)}
		if prov.SD != "" {
			snssai = append(snssai, unhex(prov.SD)...)
		}
		for _, u := range ues {
			sm := []byte{0x2e, byte(u.psi), 0x07, 0xc1, 0xff, 0xff, 0x91, 0xa1}
			ult := append([]byte{0x7e, 0x00, 0x67, 0x01, 0x00, byte(len(sm))}, sm...)
			ult = append(ult, 0x12, byte(u.psi), 0x81, 0x22, byte(len(snssai)))
			ult = append(ult, snssai...)
			ult = append(ult, 0x25, 0x09, 0x08, 'i', 'n', 't', 'e', 'r', 'n', 'e', 't')
			dl := step("PDUSessionEstablishmentRequest", u.uplinkNAS(t, u.protect(2, ult)), 1)
			if _, err := iewalk.ParsePDU(dl[0]); err != nil {
				t.Fatal(err)
			}
			step("PDUSessionResourceSetupResponse", u.setupResponse(t), 0)
		}
		// service request: integrity protected only (header type 1), 5G-S-TMSI of the assigned GUTI
		u0 := ues[0]
		sr := []byte{0x7e, 0x00, 0x4c, 0x10 | byte(sc.UEs[0].NgKSI), 0x00, 0x07, 0xf4, 0xff, 0xff, 0, 0, 0, 0}
		step("ServiceRequest", u0.initialUE(t, u0.protect(1, sr)), 1)
		step("InitialContextSetupResponse (service)", u0.icsResponse(t, variant == 0), 0)
		for _, u := range ues {
			sm := []byte{0x2e, byte(u.psi), 0x08, 0xd1}
			ult := append(append([]byte{0x7e, 0x00, 0x67, 0x01, 0x00, byte(len(sm))}, sm...), 0x12, byte(u.psi))
			step("PDUSessionReleaseRequest", u.uplinkNAS(t, u.protect(2, ult)), 1)
			sm = []byte{0x2e, byte(u.psi), 0x08, 0xd4}
			cpl := u.uplinkNAS(t, u.protect(2, append(append([]byte{0x7e, 0x00, 0x67, 0x01, 0x00, byte(len(sm))}, sm...), 0x12, byte(u.psi))))
			if variant == 1 {
				step("PDUSessionReleaseComplete (before the NGAP response)", cpl, 0)
				step("PDUSessionResourceReleaseResponse", u.releaseResponse(t), 0)
			} else {
				step("PDUSessionResourceReleaseResponse", u.releaseResponse(t), 0)
				step("PDUSessionReleaseComplete", cpl, 0)
			}
		}
		for i, u := range ues {
			id := append([]byte{0x01, plmn[0], plmn[1], plmn[2], 0xf0, 0xff, 0x00, 0x00}, bcd(u.supi[3+len(prov.MNC):])...)
			if variant == 1 {
				id = u.guti
			}
			dr := append([]byte{0x7e, 0x00, 0x45, byte(sc.UEs[i].NgKSI)<<4 | 0x01, byte(len(id) >> 8), byte(len(id))}, id...)
			step("DeregistrationRequest", u.uplinkNAS(t, u.protect(2, dr)), 2)
			step("UEContextReleaseComplete", u.ctxReleaseComplete(t), 0)
		}
		want := "[ngsetup register(0) register(1) establish(0) establish(1) service(0) release(0) release(1) deregister(0) deregister(1)]"
		if got := fmtEvents(a.Events); got != want {
			t.Fatalf("events %s", got)
		}
		if p := a.Pending(); len(p) != 0 {
			t.Fatalf("pending %v", p)
		}
		if v := a.CountReuse(); v != nil {
			t.Fatal(v)
		}
	}
}

func atoi(s string) int {
	n := 0
	for _, c := range s {
		n = n*10 + int(c-'0')
	}
	return n
}

// TestSelfAMFRejects: each enumerated check fires on a minimal deviation (the AMF is not vacuous).
func TestSelfAMFRejects(t *testing.T) {
	prov := refamf.Provision{MCC: "001", MNC: "01", IMSI: "00101012345", K: "465b5ce8b199b49faa5f0a2ee238a6bc", OPc: "cd63cb71954a9f4e48a5994e37a02baf", SST: 1, SD: "0a0b0c", GnbGTP: "192.168.0.1"}
	sc := refamf.Scenario{Prov: prov, UEs: []refamf.UEChoice{{RAND: "23553cbe9637a89d218ae64dae47bf35", SQN: "ff9bb4d0b607", AMFField: "b9b9", AMFUEID: 1 << 32, UEIP: "1.2.3.4", UPFIP: "5.6.7.8", Cause5GSM: -1, NQoSRules: 1}}}
	plmn := refamf.EncodePLMN("001", "01")
	other := refamf.EncodePLMN("001", "10")
	expect := func(what, key string, feed func(a *refamf.AMF) *refamf.Violation) {
		a, err := refamf.New(sc)
		if err != nil {
			t.Fatal(err)
		}
		v := feed(a)
		if v == nil || !strings.HasPrefix(v.Key, key) {
			t.Fatalf("%s: expected a violation with key %s, got %v", what, key, v)
		}
	}
	expect("wrong PLMN in NG Setup", "plmn-mismatch:mnc2", func(a *refamf.AMF) *refamf.Violation {
		_, v := a.Handle(ngSetupRequest(t, other, []byte{1, 2, 3}, 24, "x"))
		return v
	})
	expect("message before NG Setup", "before-ngsetup", func(a *refamf.AMF) *refamf.Violation {
		u := &testUE{ran: 1, plmn: plmn}
		_, v := a.Handle(u.initialUE(t, []byte{0x7e, 0, 0x41}))
		return v
	})
	expect("truncated PDU", "ngap-decode", func(a *refamf.AMF) *refamf.Violation {
		b := ngSetupRequest(t, plmn, []byte{1, 2, 3}, 24, "x")
		_, v := a.Handle(b[:len(b)-1])
		return v
	})
	reg := func(a *refamf.AMF, msin string) (*testUE, [][]byte, *refamf.Violation) {
		if _, v := a.Handle(ngSetupRequest(t, plmn, []byte{1, 2, 3}, 24, "x")); v != nil {
			t.Fatal(v)
		}
		u := &testUE{ran: 7, plmn: plmn, supi: "00101" + msin}
		suci := append([]byte{0x01, plmn[0], plmn[1], plmn[2], 0xf0, 0xff, 0x00, 0x00}, bcd(msin)...)
		rr := append([]byte{0x7e, 0x00, 0x41, 0x79, 0, byte(len(suci))}, suci...)
		rr = append(rr, 0x2e, 0x02, 0x80, 0x20)
		dl, v := a.Handle(u.initialUE(t, rr))
		return u, dl, v
	}
	expect("MSIN of the first UE differs from the configuration", "suci-msin", func(a *refamf.AMF) *refamf.Violation {
		_, _, v := reg(a, "012346")
		return v
	})
	expect("wrong RES*", "res-star", func(a *refamf.AMF) *refamf.Violation {
		u, dl, v := reg(a, "012345")
		if v != nil {
			t.Fatal(v)
		}
		u.amf, _ = dlNAS(t, dl[0])
		_, v = a.Handle(u.uplinkNAS(t, append([]byte{0x7e, 0x00, 0x57, 0x2d, 0x10}, make([]byte, 16)...)))
		return v
	})
	expect("AMF-UE-NGAP-ID truncated to 32 bits", "amf-ue-ngap-id", func(a *refamf.AMF) *refamf.Violation {
		u, _, v := reg(a, "012345")
		if v != nil {
			t.Fatal(v)
		}
		u.amf = 0
		_, v = a.Handle(u.uplinkNAS(t, append([]byte{0x7e, 0x00, 0x57, 0x2d, 0x10}, make([]byte, 16)...)))
		return v
	})
	// a UE that announces 5G-EA2, is told by the AMF to use it (the AMF's own priority list
	// prefers it), and then sends the Security Mode Complete with null ciphering
	sc.UEs[0].EncPrio, sc.UEs[0].IntPrio = []int{2, 1, 0}, []int{2, 1}
	expect("announced NEA2 is selected but not applied", "nas-", func(a *refamf.AMF) *refamf.Violation {
		if _, v := a.Handle(ngSetupRequest(t, plmn, []byte{1, 2, 3}, 24, "x")); v != nil {
			t.Fatal(v)
		}
		msin := "012345"
		u := &testUE{ran: 7, plmn: plmn, supi: "00101" + msin, int: 2}
		suci := append([]byte{0x01, plmn[0], plmn[1], plmn[2], 0xf0, 0xff, 0x00, 0x00}, bcd(msin)...)
		rr := append([]byte{0x7e, 0x00, 0x41, 0x79, 0, byte(len(suci))}, suci...)
		rr = append(rr, 0x2e, 0x02, 0xe0, 0x60)
		dl, v := a.Handle(u.initialUE(t, rr))
		if v != nil {
			t.Fatal(v)
		}
		var ar []byte
		u.amf, ar = dlNAS(t, dl[0])
		var k, opc, rnd [16]byte
		copy(k[:], unhex(prov.K))
		copy(opc[:], unhex(prov.OPc))
		copy(rnd[:], ar[8:24])
		autn := ar[26:42]
		mo := refcrypto.Milenage(k, opc, rnd, [6]byte{}, [2]byte{})
		var sqn, sx [6]byte
		for j := range sqn {
			sx[j] = autn[j]
			sqn[j] = autn[j] ^ mo.AK[j]
		}
		mo = refcrypto.Milenage(k, opc, rnd, sqn, [2]byte{autn[6], autn[7]})
		u.keys = refcrypto.Derive5G(mo.CK, mo.IK, mo.Res, rnd, sx, "5G:mnc001.mcc001.3gppnetwork.org", u.supi, 2, 2)
		dl, v = a.Handle(u.uplinkNAS(t, append([]byte{0x7e, 0x00, 0x57, 0x2d, 0x10}, u.keys.ResStar...)))
		if v != nil {
			t.Fatal(v)
		}
		if _, smc := dlNAS(t, dl[0]); smc[10] != 0x22 {
			t.Fatalf("Security Mode Command selects %02x, expected NEA2/NIA2", smc[10])
		}
		_, v = a.Handle(u.uplinkNAS(t, u.protect(4, []byte{0x7e, 0x00, 0x5e}))) // u.enc == 0: not ciphered
		return v
	})
}

// TestSelfNASHandDerived: the NAS reader against bytes derived by hand from TS 24.501.
func TestSelfNASHandDerived(t *testing.T) {
	// PLMN coding (9.11.3.4): MCC 208, MNC 93 → 02 f8 39; MCC 310, MNC 410 → 13 00 14
	if p := refamf.EncodePLMN("208", "93"); p != [3]byte{0x02, 0xf8, 0x39} {
		t.Fatalf("PLMN 208/93 → %x", p)
	}
	if p := refamf.EncodePLMN("310", "410"); p != [3]byte{0x13, 0x00, 0x14} {
		t.Fatalf("PLMN 310/410 → %x", p)
	}
	if mcc, mnc, err := refamf.DecodePLMN([]byte{0x13, 0x00, 0x14}); err != nil || mcc != "310" || mnc != "410" {
		t.Fatalf("decode 130014 → %s %s %v", mcc, mnc, err)
	}
	if p, err := iewalk.EncodePLMN("310", "410"); err != nil || p != (iewalk.PLMN{0x13, 0x00, 0x14}) {
		t.Fatalf("iewalk PLMN %x %v", p, err)
	}
	// Registration Request: initial registration, ngKSI 7 (no key), SUCI of IMSI 208 93 0000000003 (null scheme), UE security capability
	rr := unhex("7e 00 41 79 00 0d 01 02 f8 39 f0 ff 00 00 00 00 00 00 30 2e 02 80 20")
	m, err := refamf.ParsePlain5GMM(rr)
	if err != nil || m.Type != 0x41 || m.NgKSI != 7 || m.RegType != 9 || m.Identity.Type != 1 || m.Identity.MCC != "208" || m.Identity.MNC != "93" ||
		m.Identity.MSIN != "0000000003" || m.Identity.RoutingInd != "0" || m.Identity.Scheme != 0 || !bytes.Equal(m.UESecCap, []byte{0x80, 0x20}) {
		t.Fatalf("RegistrationRequest: %+v %+v %v", m, m.Identity, err)
	}
	// odd number of MSIN digits: filler 0xF in the last octet; 3-digit MNC 410
	id, err := refamf.ParseMobileIdentity(unhex("01 13 00 14 f0 ff 00 00 21 43 f5"))
	if err != nil || id.MCC != "310" || id.MNC != "410" || id.MSIN != "12345" {
		t.Fatalf("SUCI: %+v %v", id, err)
	}
	// security protected message: header type 2, MAC, SQN 5, then UL NAS TRANSPORT with N1 SM container,
	// PDU session ID 5, request type initial, S-NSSAI sst 1 sd 010203, DNN
	ul := unhex("7e 02 aa bb cc dd 05 7e 00 67 01 00 06 2e 05 01 c1 ff ff 12 05 81 22 04 01 01 02 03 25 04 03 61 62 63")
	e, err := refamf.ParseEnvelope(ul)
	if err != nil || e.HeaderType != 2 || e.SQN != 5 || e.MAC != [4]byte{0xaa, 0xbb, 0xcc, 0xdd} || len(e.Protected) != len(ul)-6 {
		t.Fatalf("envelope %+v %v", e, err)
	}
	m, err = refamf.ParsePlain5GMM(e.Plain)
	if err != nil || m.Type != 0x67 || m.PayloadType != 1 || !m.HasPSI || m.PSI != 5 || !m.HasReqType || m.ReqType != 1 || !bytes.Equal(m.SNSSAI, []byte{1, 1, 2, 3}) || string(m.DNN) != "\x03abc" {
		t.Fatalf("ULNASTransport %+v %v", m, err)
	}
	sm, err := refamf.Parse5GSM(m.Payload)
	if err != nil || sm.Type != 0xc1 || sm.SMPSI != 5 || sm.SMPTI != 1 {
		t.Fatalf("5GSM %+v %v", sm, err)
	}
	// truncated optional part
	if _, err := refamf.ParsePlain5GMM(unhex("7e 00 67 01 00 04 2e 05 01 c1 12")); err == nil {
		t.Fatal("truncated TV element accepted")
	}
	// De-registration request: normal de-registration over 3GPP access, ngKSI 2, 5G-GUTI
	dr := unhex("7e 00 45 21 00 0b f2 02 f8 39 ca fe 40 00 00 00 01")
	m, err = refamf.ParsePlain5GMM(dr)
	if err != nil || m.NgKSI != 2 || m.DeregType != 1 || m.Identity.Type != 2 || m.Identity.AMFRegion != 0xca || m.Identity.AMFSet != 0xfe<<2|1 || m.Identity.TMSI != [4]byte{0, 0, 0, 1} {
		t.Fatalf("DeregistrationRequest %+v %+v %v", m, m.Identity, err)
	}
}
