package pe

import (
	"testing"

	"verifh/refcrypto"
)

func TestSelfCrypto(t *testing.T) {
	if err := refcrypto.SelfTest(); err != nil {
		t.Fatal(err)
	}
}
