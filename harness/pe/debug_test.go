package pe

import (
	"fmt"
	"os"
	"testing"

	"pgregory.net/rapid"

	"verifh/refamf"
)

// TestDebugDump (PE_DEBUG=1 only): one full L-main conversation with its transcript, for reading.
func TestDebugDump(t *testing.T) {
	if os.Getenv("PE_DEBUG") == "" {
		t.Skip("set PE_DEBUG=1")
	}
	c := rapid.Custom(func(t *rapid.T) *peCase {
		cfg := genConfig(t, cfgOpts{maxUEs: 3, smallPSI: true})
		cfg.Reg, cfg.Pdu, cfg.Service, cfg.Release, cfg.Dereg = 2, 2, 1, 2, 2
		c := &peCase{Level: "main", Cfg: cfg}
		c.Sc = genScenario(t, cfg, 2, refamf.Policy{DistinctSUPI: true})
		c.Sc.NGSetup.BackupAMFName = os.Getenv("PE_BACKUP")
		return c
	}).Example(7)
	sp, err := c.spawnFor("debug")
	if err != nil {
		t.Fatal(err)
	}
	fmt.Println(c.Cfg.YAML())
	res := converse(sp, c.Sc, bound(c.Cfg.clamps().sleepBudget()))
	for _, e := range res.AMF.Transcript {
		fmt.Printf("%3d %-5s #%d %s\n      %s\n", e.N, e.Dir, e.Idx, e.What, e.Hex)
		for _, o := range e.Obs {
			fmt.Println("      obs:", o)
		}
	}
	fmt.Println("events:", fmtEvents(res.AMF.Events))
	fmt.Println("violation:", res.AMF.Violation)
	fmt.Printf("observed: %+v\n", res.AMF.Obs)
	fmt.Println(describe(res))
}
