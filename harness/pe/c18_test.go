package pe

// C18 — configuration file and command line reach the procedures unchanged.
//
//	(i)   TestC18_Config: config.yaml written by the harness's own emitter → Conf.GetConfiguration()
//	      in a child → every field equals the expectation keyed by the documented key names.
//	(ii)  TestC18_Wire: the real main in test mode; what the reference AMF sees on the wire for each
//	      configured value, the clamped repetition counts, and the hook's connect log.
//	(iii) TestC18_Argv: argument vectors of length 0..3; which mode starts, and that nothing else does.

import (
	"path/filepath"
	"os"
	"encoding/hex"
	"encoding/json"
	"fmt"
	"math"
	"strings"
	"testing"

	"pgregory.net/rapid"

	"verifh/ev"
	"verifh/refamf"
)

// documented key → the field of stgutg.Conf.Configuration main reads for it (stg-utg.go).
var keyField = [][2]string{
	{"amf_ngap_ip", "AmfNgapIP"}, {"amf_ngap_port", "AmfNgapPort"}, {"gnb_gtp_ip", "Gnb_gtp"}, {"stg_ngap_ip", "StgNgapIP"},
	{"stg_ngap_port", "StgNgapPort"}, {"initial_imsi", "Initial_imsi"}, {"mcc", "Mcc"}, {"mnc", "Mnc"}, {"gnb_id", "Gnb_id"},
	{"gnb_bitlength", "Gnb_bitlength"}, {"gnb_name", "Gnb_name"}, {"k", "K"}, {"opc", "OPC"}, {"op", "OP"}, {"sst", "SST"}, {"sd", "SD"},
	{"downlink_iface", "DLIface"}, {"uplink_iface", "ULIface"}, {"ue_number", "UeNumber"}, {"ue_registration", "Test_ue_registation"},
	{"ue_pdu", "Test_ue_pdu_establishment"}, {"ue_service", "Test_ue_service"}, {"ue_pdu_release", "Test_ue_pdu_release"},
	{"ue_deregistration", "Test_ue_deregistration"},
}

// shipped: the values of the file that comes with the repository (NT: differ in every key).
var shipped = emuConfig{AmfNgapIP: "192.168.61.4", AmfNgapPort: 38412, GnbGtpIP: "192.168.61.3", StgNgapIP: "192.168.61.3", StgNgapPort: 9487,
	InitialIMSI: "001010000000001", MCC: "001", MNC: "01", GnbID: "\x00\x01\x02", GnbBitLen: 24, GnbName: "open5gs",
	K: "465B5CE8B199B49FAA5F0A2EE238A6BC", OPC: "E8ED289DEBA952E4283B54E88E6183CA", OP: "E8ED289DEBA952E4283B54E88E6183CA", SST: 1, SD: "010203",
	DLIface: "enp0s8", ULIface: "enp0s9", UeNumber: 1, Reg: 10, Pdu: 10, Service: 10, Release: 10, Dereg: 10}

func (c emuConfig) asMap() map[string]interface{} {
	b, _ := json.Marshal(c)
	var m map[string]interface{}
	d := json.NewDecoder(strings.NewReader(string(b)))
	d.UseNumber()
	d.Decode(&m)
	delete(m, "plain_ips")
	delete(m, "file_syntax")
	return m
}

func differsEverywhere(c emuConfig) bool {
	a, b := c.asMap(), shipped.asMap()
	for k := range b {
		if fmt.Sprint(a[k]) == fmt.Sprint(b[k]) {
			return false
		}
	}
	return true
}

var strAlphabet = []rune{'a', 'Z', '0', '9', ' ', '"', '\'', '\\', '#', ':', '-', '{', '[', ',', '&', '*', '!', '|', '>', '%', '@', '`', '~', '\t', '\n', '\r',
	0x00, 0x01, 0x1f, 0x7f, 0x80, 0x85, 0xa0, 0xe9, 0xff, 0x20ac, 0x2028, 0xfeff, 0xfffd, 0x1f600}

func drawAnyString(t *rapid.T, label string, max int) string {
	switch rapid.IntRange(0, 9).Draw(t, label+"_kind") {
	case 0:
		return ""
	case 1:
		return fmt.Sprintf("%0*d", rapid.IntRange(1, 8).Draw(t, label+"_w"), rapid.IntRange(0, 99999).Draw(t, label+"_n")) // leading zeros
	case 2:
		return rapid.SampledFrom([]string{"true", "null", "~", "0x1f", "1e3", "012", "yes", ".inf", "2001-12-14", "<<", "=", "1_000", "0b1", "190:20:30"}).Draw(t, label+"_yaml")
	case 3:
		// values that LOOK like another notation or like something to be expanded: hex literals, environment and
		// template references (HOME, PATH, USER and PWD are defined in the child's environment), format verbs, home
		// directories, base64 — a value is a value, whatever it looks like
		pick := rapid.SampledFrom([]string{"0x%s", "0X%s", "${HOME}", "$HOME", "${PATH}", "${USER}x", "a${PWD}", "${UNDEFINED_VAR_X}", "$(id)", "`id`", "~/x", "~root",
			"%s", "%d", "%%", "{{.Name}}", "{0}", "\\x41", "\\n", "QUJD", "file:///etc/passwd", "@include", "!!str x", "&a", "*a"}).Draw(t, label+"_looks")
		if strings.Contains(pick, "%s") && strings.HasPrefix(strings.ToLower(pick), "0x") {
			n := rapid.IntRange(1, 4).Draw(t, label+"_hexoct")
			return fmt.Sprintf(pick, fmt.Sprintf("%X", drawBytesLatin1N(t, label+"_hex", n)))
		}
		return pick
	}
	n := rapid.IntRange(1, max).Draw(t, label+"_len")
	var sb strings.Builder
	for i := 0; i < n; i++ {
		if rapid.IntRange(0, 2).Draw(t, label+"_asc") == 0 {
			sb.WriteRune(strAlphabet[rapid.IntRange(0, len(strAlphabet)-1).Draw(t, label)])
		} else {
			sb.WriteRune(rune(rapid.IntRange(0x21, 0x7e).Draw(t, label+"_c")))
		}
	}
	return sb.String()
}

func drawBytesLatin1N(t *rapid.T, label string, n int) []byte {
	return rapid.SliceOfN(rapid.Byte(), n, n).Draw(t, label)
}

func drawInt(t *rapid.T, label string, lo, hi int64) int64 {
	edges := []int64{lo, hi, 0, 1, -1, 255, 256, 65535, 65536, math.MaxInt32, math.MinInt32, math.MaxInt32 + 1}
	if rapid.IntRange(0, 2).Draw(t, label+"_edge") == 0 {
		e := edges[rapid.IntRange(0, len(edges)-1).Draw(t, label+"_e")]
		if e >= lo && e <= hi {
			return e
		}
	}
	return rapid.Int64Range(lo, hi).Draw(t, label)
}

// genAnyConfig: arbitrary values for the 24 keys within the field types the documentation implies.
func genAnyConfig(t *rapid.T) emuConfig {
	var c emuConfig
	c.AmfNgapIP = drawAnyString(t, "amf_ngap_ip", 20)
	c.AmfNgapPort = drawInt(t, "amf_ngap_port", math.MinInt64, math.MaxInt64)
	c.GnbGtpIP = drawAnyString(t, "gnb_gtp_ip", 20)
	c.StgNgapIP = drawAnyString(t, "stg_ngap_ip", 20)
	c.StgNgapPort = drawInt(t, "stg_ngap_port", math.MinInt64, math.MaxInt64)
	c.InitialIMSI = drawAnyString(t, "initial_imsi", 16)
	c.MCC = drawAnyString(t, "mcc", 4)
	c.MNC = drawAnyString(t, "mnc", 4)
	c.GnbID = drawAnyString(t, "gnb_id", 5)
	if rapid.Bool().Draw(t, "gnb_id_octets") {
		c.GnbID = string(drawBytesLatin1(t, "gnb_id_b"))
	}
	c.GnbBitLen = rapid.Uint64().Draw(t, "gnb_bitlength")
	if rapid.Bool().Draw(t, "gnb_bitlength_small") {
		c.GnbBitLen = uint64(rapid.IntRange(0, 40).Draw(t, "gnb_bitlength_s"))
	}
	c.GnbName = drawAnyString(t, "gnb_name", 40)
	c.K = drawAnyString(t, "k", 34)
	c.OPC = drawAnyString(t, "opc", 34)
	c.OP = drawAnyString(t, "op", 34)
	c.SST = drawInt(t, "sst", math.MinInt32, math.MaxInt32)
	c.SD = drawAnyString(t, "sd", 8)
	c.DLIface = drawAnyString(t, "downlink_iface", 16)
	c.ULIface = drawAnyString(t, "uplink_iface", 16)
	c.UeNumber = drawInt(t, "ue_number", math.MinInt64, math.MaxInt64)
	c.Reg = drawInt(t, "ue_registration", math.MinInt64, math.MaxInt64)
	c.Pdu = drawInt(t, "ue_pdu", math.MinInt64, math.MaxInt64)
	c.Service = drawInt(t, "ue_service", math.MinInt64, math.MaxInt64)
	c.Release = drawInt(t, "ue_pdu_release", math.MinInt64, math.MaxInt64)
	c.Dereg = drawInt(t, "ue_deregistration", math.MinInt64, math.MaxInt64)
	if rapid.IntRange(0, 7).Draw(t, "same_ports") == 3 {
		c.StgNgapPort = c.AmfNgapPort
	}
	c.Syntax = drawSyntax(t)
	return c
}

// drawBytesLatin1: a gNB id typed as \x escapes; in YAML \xNN is the code point U+00NN.
func drawBytesLatin1(t *rapid.T, label string) []rune {
	n := rapid.IntRange(3, 4).Draw(t, label+"_n")
	out := make([]rune, n)
	for i := range out {
		out[i] = rune(rapid.IntRange(0, 255).Draw(t, label))
	}
	return out
}

type c18ConfigCase struct {
	Cfg    emuConfig `json:"config"`
	Decoys bool      `json:"decoy_files,omitempty"`
}

func evalC18Config(c *c18ConfigCase) ev.Verdict {
	v := ev.Verdict{NT: differsEverywhere(c.Cfg)}
	dir, err := caseDir("TestC18_Config")
	if err != nil {
		return ev.Verdict{Err: err, Key: "harness"}
	}
	defer removeAll(dir)
	if err := writeConfig(dir, c.Cfg); err != nil {
		return ev.Verdict{Err: err, Key: "harness"}
	}
	if c.Decoys {
		// other files that look like configurations lie around (a source-tree layout, editor back-ups, a conf.d
		// directory): the configuration file is ./config.yaml and nothing else
		decoy := shipped
		decoy.GnbName, decoy.MCC, decoy.MNC, decoy.InitialIMSI, decoy.SST = "decoy", "999", "99", "999990000000001", 7
		decoy.AmfNgapPort, decoy.Reg, decoy.UeNumber = 1, 9, 9
		for _, f := range []string{"src/config.yaml", "config.yml", "config.yaml.bak", "config.yaml~", ".config.yaml", "conf/config.yaml", "config/config.yaml", "config.yaml.d/00-local.yaml", "config.json"} {
			_ = os.MkdirAll(filepath.Dir(filepath.Join(dir, f)), 0755)
			_ = writeFile(filepath.Join(dir, f), decoy.YAML())
		}
		v.Classes = append(v.Classes, "decoy-configuration-files-present")
	}
	in, _ := json.Marshal(map[string]interface{}{"ops": []procOp{{Op: "config", Dir: dir}}})
	res := converse(spawn{Bin: binPath("procdriver"), Dir: dir, Stdin: in}, refamf.Scenario{Prov: refamf.Provision{MCC: "001", MNC: "01", IMSI: "001010000000001", K: shipped.K, OPc: shipped.OPC}}, bound(0))
	if res.StartErr != nil {
		return ev.Verdict{Err: res.StartErr, Key: "harness"}
	}
	if res.ExitCode != 0 || len(res.ProcLines) != 2 {
		v.Err, v.Key = fmt.Errorf("GetConfiguration did not return (exit %d)\n%s\n--- file:\n%s", res.ExitCode, tailStr(res.Stdout, 10), c.Cfg.YAML()), "config-crash"
		return v
	}
	fields, _ := res.ProcLines[0]["fields"].(map[string]interface{})
	if len(fields) != len(keyField) {
		v.Err, v.Key = fmt.Errorf("the configuration struct has %d fields, the documentation has %d keys", len(fields), len(keyField)), "config-field-count"
		return v
	}
	want := c.Cfg.asMap()
	for _, kf := range keyField {
		key, field := kf[0], kf[1]
		f, ok := fields[field].(map[string]interface{})
		if !ok {
			v.Err, v.Key = fmt.Errorf("no field %s (key %s) in the parsed configuration", field, key), "config-key:"+key
			return v
		}
		var got, exp string
		switch w := want[key].(type) {
		case string:
			exp = "s:" + hex.EncodeToString([]byte(w))
			s, _ := f["s"].(string)
			got = "s:" + s
		case json.Number:
			exp = w.String()
			if s, ok := f["i"].(string); ok {
				got = s
			} else if s, ok := f["u"].(string); ok {
				got = s
			}
		}
		if got != exp {
			v.Err, v.Key = fmt.Errorf("key %s: the file says %v, the parsed configuration (field %s) holds %v\n--- file:\n%s", key, want[key], field, f, c.Cfg.YAML()), "config-key:"+key
			return v
		}
	}
	for _, r := range c.Cfg.GnbID {
		if r >= 0x80 {
			v.Classes = append(v.Classes, "gnb_id-with-\\x80..\\xff")
			break
		}
	}
	return v
}

func TestC18_Config(t *testing.T) {
	haveBins(t, "procdriver")
	r := ev.New(t, "C18", "TestC18_Config")
	ev.Run(t, r, func(t *rapid.T) *c18ConfigCase { return &c18ConfigCase{Cfg: genAnyConfig(t), Decoys: rapid.IntRange(0, 3).Draw(t, "decoys") == 0}
	}, evalC18Config)
}

// ----------------------------------------------------------------------------------
// (ii) on the wire

func genC18Wire(t *rapid.T) *peCase {
	r := rapid.IntRange(1, 2).Draw(t, "R")
	cfg := genConfig(t, cfgOpts{maxUEs: r + 1, smallPSI: true})
	cfg.Reg = int64(r)
	cfg.Pdu = drawCount(t, "E", r)
	cfg.Service = drawCount(t, "S", r)
	cfg.Release = drawCount(t, "L", r)
	cfg.Dereg = drawCount(t, "D", r)
	cfg.UeNumber = int64(rapid.IntRange(-2, 50).Draw(t, "ue_number"))
	if rapid.IntRange(0, 3).Draw(t, "other_network") == 1 {
		// "all assignments of values to the keys": mcc and mnc need not repeat the leading digits of initial_imsi
		// (a subscriber of one network served by another). The procedures receive the IMSI and the two keys
		// separately; the subscriber's identity and the announced PLMN come from the IMSI (C11), the serving
		// network name - and with it RES* and every key below K_AUSF - from the keys mcc and mnc.
		for {
			mcc := fmt.Sprintf("%03d", rapid.IntRange(0, 999).Draw(t, "serving_mcc"))
			mnc := fmt.Sprintf("%0*d", len(cfg.MNC), rapid.IntRange(0, int(pow10(len(cfg.MNC)))-1).Draw(t, "serving_mnc"))
			if rapid.Bool().Draw(t, "serving_one_key_only") {
				if rapid.Bool().Draw(t, "serving_mcc_only") {
					mnc = cfg.MNC
				} else {
					mcc = cfg.MCC
				}
			}
			if mcc+mnc != cfg.MCC+cfg.MNC {
				cfg.MCC, cfg.MNC = mcc, mnc
				break
			}
		}
	}
	c := &peCase{Level: "main", Cfg: cfg}
	c.Sc = genScenario(t, cfg, r, refamf.Policy{})
	return c
}

func evalC18Wire(c *peCase) evalResult {
	sp, err := c.spawnFor("TestC18_Wire")
	if err != nil {
		return evalResult{V: ev.Verdict{Err: err, Key: "harness"}}
	}
	defer removeAll(sp.Dir)
	k := c.Cfg.clamps()
	res := converse(sp, c.Sc, bound(k.sleepBudget()))
	v, retry := conversationVerdict(c, res, k.expectedEvents())
	v.Classes = append(configClasses(c.Cfg), "level:main")
	v.Hash = c.hash()
	if v.Err != nil {
		return evalResult{V: v, Retry: retry}
	}
	v.NT = differsEverywhere(c.Cfg)
	fail := func(key, format string, a ...interface{}) evalResult {
		c.attach(res)
		v.Err, v.Key = fmt.Errorf(format, a...), "wire:"+key
		return evalResult{V: v}
	}
	o := res.AMF.Obs
	cfg := c.Cfg
	if o.GNBIDBits != int(cfg.GnbBitLen) || o.GNBID != hex.EncodeToString(cfg.gnbOctets()) {
		return fail("gnb_id", "NG Setup announces gNB id %s/%d bits, configured gnb_id %x gnb_bitlength %d", o.GNBID, o.GNBIDBits, cfg.gnbOctets(), cfg.GnbBitLen)
	}
	if !o.HasGNBName || o.GNBName != cfg.GnbName {
		return fail("gnb_name", "NG Setup announces RAN node name %q (present %v), configured gnb_name %q", o.GNBName, o.HasGNBName, cfg.GnbName)
	}
	prov := cfg.Provision()
	plmn := refamf.EncodePLMN(prov.MCC, prov.MNC)
	if len(o.PLMNs) != 1 || o.PLMNs[0] != hex.EncodeToString(plmn[:]) {
		return fail("plmn", "PLMN octets seen on the wire %v, the configured initial_imsi %s (with the %d MNC digits of mnc) gives %x", o.PLMNs, cfg.InitialIMSI, len(cfg.MNC), plmn)
	}
	if prov.ServingMCC != "" {
		// RES* and the NAS MACs verified (below, and by the AMF) under the serving network name of the keys mcc/mnc
		v.Classes = append(v.Classes, "mcc-mnc-name-another-network-than-the-imsi")
	}
	if len(o.SUPIs) == 0 || o.SUPIs[0] != cfg.InitialIMSI {
		return fail("initial_imsi", "first SUCI decodes to %v, configured initial_imsi %s", o.SUPIs, cfg.InitialIMSI)
	}
	if o.ResStarOK != pos(k.R) {
		return fail("k-op-opc", "%d RES* verified under the configured K/OP/OPc, %d registrations", o.ResStarOK, pos(k.R))
	}
	if len(o.SNSSAIs) != pos(k.E) || len(o.GTPAddrs) != pos(k.E)+pos(k.S) {
		return fail("counts", "S-NSSAIs seen %d / GTP addresses seen %d, expected %d / %d", len(o.SNSSAIs), len(o.GTPAddrs), pos(k.E), pos(k.E)+pos(k.S))
	}
	if cfg.SD != "" {
		sd, _ := hex.DecodeString(cfg.SD)
		want := hex.EncodeToString(append([]byte{byte(cfg.SST)}, sd...))
		for _, s := range o.SNSSAIs {
			if s != want {
				return fail("sst-sd", "S-NSSAI %s in the UL NAS TRANSPORT, configured sst %d sd %s = %s", s, cfg.SST, cfg.SD, want)
			}
		}
	} else {
		for _, s := range o.SNSSAIs {
			if len(s) < 2 || s[:2] != fmt.Sprintf("%02x", cfg.SST) {
				return fail("sst-sd", "S-NSSAI %s in the UL NAS TRANSPORT, configured sst %d", s, cfg.SST)
			}
		}
		if len(o.SNSSAIs) > 0 {
			v.Classes = append(v.Classes, "sd-empty-sent-as:"+o.SNSSAIs[0][2:])
		}
	}
	gtp := ipHex(cfg.GnbGtpIP) + "/32"
	for _, g := range o.GTPAddrs {
		if g != gtp {
			return fail("gnb_gtp_ip", "transport layer address %s in a response transfer, configured gnb_gtp_ip %s = %s", g, cfg.GnbGtpIP, gtp)
		}
	}
	wantLog := fmt.Sprintf("%q %q %d %d\n", cfg.AmfNgapIP, cfg.StgNgapIP, cfg.AmfNgapPort, cfg.StgNgapPort)
	if !res.HasConnLog || res.ConnectLog != wantLog {
		return fail("connect-args", "ConnectToAmf received %q (log present %v), configured amf_ngap_ip/stg_ngap_ip/amf_ngap_port/stg_ngap_port give %q", res.ConnectLog, res.HasConnLog, wantLog)
	}
	return evalResult{V: v}
}

func TestC18_Wire(t *testing.T) {
	haveBins(t, "stgutg_verif")
	r := ev.New(t, "C18", "TestC18_Wire")
	n := ev.N(40, 2000)
	gen := rapid.Custom(genC18Wire)
	var cases []*peCase
	if ev.Replay() == "" {
		for k := 0; k < n; k++ {
			cases = append(cases, gen.Example(int(ev.Seed())+k*15485863))
		}
	}
	runParallel(t, r, cases, evalC18Wire)
}

// ----------------------------------------------------------------------------------
// (iii) argument vectors

type c18ArgvCase struct {
	Argv0      string    `json:"argv0,omitempty"` // argv[0] if not the path of the binary
	Argv       []string  `json:"argv"`
	Cfg        emuConfig `json:"config"`
	Sc         refamf.Scenario
	Transcript []refamf.Entry `json:"transcript,omitempty"`
	Stdout     string         `json:"child_output_tail,omitempty"`
}

var argAlphabet = []string{"-t", "-T", "t", "--t", "", " -t", "-t ", "-", "--", "-tt", "-t\n", "-h",
	// what looks like -t and is not: the dashes a word processor or a rendered manual puts there, a full-width t
	"\u2013t", "\u2010t", "\u2011t", "\u2012t", "\u2212t", "\u2014t", "-\uff54", "\u00adt"}

// names the program may be started under (argv[0]): a name is not an argument
var argv0Names = []string{"", "", "", "stg-utg-test", "/usr/local/bin/stg-utg-test", "stg-utg -t", "-t", "test", "stgutg_test", "stg-utg-traffic"}

func genC18Argv(t *rapid.T) *c18ArgvCase {
	n := rapid.IntRange(0, 3).Draw(t, "argc")
	switch rapid.IntRange(0, 5).Draw(t, "argc_bias") {
	case 0:
		n = 1
	case 1:
		n = 2
	}
	c := &c18ArgvCase{Argv: []string{}, Argv0: rapid.SampledFrom(argv0Names).Draw(t, "argv0")}
	for i := 0; i < n; i++ {
		if rapid.IntRange(0, 5).Draw(t, fmt.Sprintf("arg%d_rand", i)) == 0 {
			c.Argv = append(c.Argv, drawAnyStringNoNUL(t, fmt.Sprintf("arg%d", i)))
		} else {
			c.Argv = append(c.Argv, rapid.SampledFrom(argAlphabet).Draw(t, fmt.Sprintf("arg%d", i)))
		}
	}
	if n == 1 && rapid.IntRange(0, 2).Draw(t, "exact_t") == 0 {
		c.Argv[0] = "-t"
	}
	cfg := genConfig(t, cfgOpts{maxUEs: 2, smallPSI: true})
	cfg.MNC = cfg.MNC[:2] // 2-digit MNC: the argv part is independent of the PLMN coding
	cfg.InitialIMSI = cfg.MCC + cfg.MNC + cfg.InitialIMSI[len(cfg.InitialIMSI)-5:]
	cfg.Reg = int64(rapid.IntRange(0, 1).Draw(t, "R"))
	// traffic mode is only entered as far as the interface lookups: exactly one of the names may exist
	switch rapid.IntRange(0, 1).Draw(t, "iface_case") {
	case 0:
		cfg.DLIface = "lo"
	default:
	}
	c.Cfg = cfg
	c.Sc = genScenario(t, cfg, 1, refamf.Policy{})
	return c
}

func drawAnyStringNoNUL(t *rapid.T, label string) string {
	s := drawAnyString(t, label, 6)
	return strings.ReplaceAll(s, "\x00", "0") // an argument cannot contain NUL
}

func evalC18Argv(c *c18ArgvCase) evalResult {
	v := ev.Verdict{NT: len(c.Argv) >= 2, Classes: []string{fmt.Sprintf("argc=%d", len(c.Argv))}}
	dir, err := caseDir("TestC18_Argv")
	if err != nil {
		return evalResult{V: ev.Verdict{Err: err, Key: "harness"}}
	}
	defer removeAll(dir)
	if err := writeConfig(dir, c.Cfg); err != nil {
		return evalResult{V: ev.Verdict{Err: err, Key: "harness"}}
	}
	k := c.Cfg.clamps()
	lim := bound(k.sleepBudget())
	res := converse(spawn{Bin: binPath("stgutg_verif"), Dir: dir, Args: c.Argv, Argv0: c.Argv0}, c.Sc, lim)
	if c.Argv0 != "" {
		v.Classes = append(v.Classes, "started-under-another-name")
	}
	if res.StartErr != nil {
		return evalResult{V: ev.Verdict{Err: res.StartErr, Key: "harness"}}
	}
	fail := func(key, format string, a ...interface{}) evalResult {
		c.Transcript, c.Stdout = res.AMF.Transcript, tailStr(res.Stdout, 20)
		v.Err, v.Key = fmt.Errorf("argv %q: "+format+"\n%s", append([]interface{}{c.Argv}, append(a, describe(res))...)...), "argv:"+key
		return evalResult{V: v}
	}
	if res.TimedOut {
		r := fail("hang", "the program did not end within %v", lim)
		r.Retry = true
		return r
	}
	traffic := strings.Contains(res.Stdout, "TRAFFIC MODE")
	test := strings.Contains(res.Stdout, "TEST MODE")
	usage := strings.Contains(res.Stdout, "Usage: stg-utg [-t]")
	// the same vector through GetMode in the scripted driver (real argv of that process)
	in, _ := json.Marshal(map[string]interface{}{"ops": []procOp{{Op: "mode"}}})
	mres := converse(spawn{Bin: binPath("procdriver"), Dir: dir, Stdin: in, Args: c.Argv}, c.Sc, bound(0))
	mode := -1
	if mres.StartErr == nil && len(mres.ProcLines) > 0 {
		if m, ok := mres.ProcLines[0]["mode"].(float64); ok {
			mode = int(m)
		}
	}
	switch {
	case len(c.Argv) == 0:
		v.Classes = append(v.Classes, "no-argument")
		if !traffic || test || usage {
			return fail("traffic-banner", "no argument must select traffic mode: TRAFFIC MODE=%v TEST MODE=%v usage=%v", traffic, test, usage)
		}
		if mode != 1 {
			return fail("getmode", "GetMode returned %d for an empty argument list, expected 1", mode)
		}
		// the sandbox has none of the interfaces: traffic mode ends at the first lookup that fails, before any connection
		first := strings.Contains(res.Stdout, "Error obtaining client-facing address information")
		second := strings.Contains(res.Stdout, "Error obtaining UPF-facing address information")
		if c.Cfg.DLIface == "lo" {
			v.Classes = append(v.Classes, "downlink_iface=lo")
			if first || !second {
				return fail("iface", "downlink_iface=lo exists and uplink_iface=%q does not: expected the UPF-facing lookup to fail (client-facing error %v, UPF-facing error %v)", c.Cfg.ULIface, first, second)
			}
		} else if !first {
			return fail("iface", "downlink_iface=%q does not exist: expected the client-facing lookup to fail first", c.Cfg.DLIface)
		}
		if res.HasConnLog || res.ULTotal != 0 {
			return fail("side-effect", "traffic mode without interfaces connected to the AMF (connect log %v, %d uplink PDUs)", res.HasConnLog, res.ULTotal)
		}
	case len(c.Argv) == 1 && c.Argv[0] == "-t":
		v.Classes = append(v.Classes, "exactly -t")
		if !test || traffic || usage {
			return fail("test-banner", "-t must select test mode: TRAFFIC MODE=%v TEST MODE=%v usage=%v", traffic, test, usage)
		}
		if mode != 2 {
			return fail("getmode", "GetMode returned %d for [-t], expected 2", mode)
		}
		if res.ExitCode != 0 || !strings.Contains(res.Stdout, ">> All tests finished") || res.AMF.Violation != nil || !res.HasConnLog {
			return fail("test-run", "test mode did not run to completion (exit %d, violation %v, connect log %v)", res.ExitCode, res.AMF.Violation, res.HasConnLog)
		}
	default:
		v.Classes = append(v.Classes, "anything-else")
		if traffic || test {
			return fail("mode-started", "a mode banner was printed (TRAFFIC MODE=%v TEST MODE=%v)", traffic, test)
		}
		if !usage {
			return fail("usage", "no usage text")
		}
		if mode != 0 {
			return fail("getmode", "GetMode returned %d, expected 0", mode)
		}
		if res.HasConnLog || res.ULTotal != 0 {
			return fail("side-effect", "a procedure was started (connect log %v, %d uplink PDUs)", res.HasConnLog, res.ULTotal)
		}
		if res.ExitCode != 0 {
			return fail("exit", "exit status %d, expected 0", res.ExitCode)
		}
	}
	return evalResult{V: v}
}

func TestC18_Argv(t *testing.T) {
	haveBins(t, "stgutg_verif", "procdriver")
	r := ev.New(t, "C18", "TestC18_Argv")
	n := ev.N(120, 6000)
	gen := rapid.Custom(genC18Argv)
	var cases []*c18ArgvCase
	if ev.Replay() == "" {
		for k := 0; k < n; k++ {
			cases = append(cases, gen.Example(int(ev.Seed())+k*15485863))
		}
	}
	runParallel(t, r, cases, evalC18Argv)
}
