package pe

import (
	"encoding/hex"
	"fmt"
	"strings"

	"pgregory.net/rapid"

	"verifh/gen"
	"verifh/refamf"
)

func drawBytes(t *rapid.T, n int, label string) []byte {
	return rapid.SliceOfN(rapid.Byte(), n, n).Draw(t, label)
}

func drawKeyHex(t *rapid.T, label string) string {
	var b []byte
	switch rapid.IntRange(0, 11).Draw(t, label+"_kind") {
	case 0:
		b = make([]byte, 16)
	case 1:
		b = []byte(strings.Repeat("\xff", 16))
	default:
		b = drawBytes(t, 16, label)
	}
	s := hex.EncodeToString(b)
	if rapid.Bool().Draw(t, label+"_upper") {
		s = strings.ToUpper(s)
	}
	return s
}

func drawIPv4(t *rapid.T, label string) string {
	b := drawBytes(t, 4, label)
	switch rapid.IntRange(0, 9).Draw(t, label+"_kind") {
	case 0:
		b = []byte{0, 0, 0, 0}
	case 1:
		b = []byte{255, 255, 255, 255}
	case 2:
		b = []byte{10, 0, 0, 1}
	case 3, 4:
		b = gen.SpecialIPv4(t, label+"_special")
	}
	return fmt.Sprintf("%d.%d.%d.%d", b[0], b[1], b[2], b[3])
}

const printable = "ABCDEFGHIJKLMNOPQRSTUVWXYZabcdefghijklmnopqrstuvwxyz0123456789 '()+,-./:=?"

func drawPrintable(t *rapid.T, min, max int, label string) string {
	n := rapid.IntRange(min, max).Draw(t, label+"_len")
	var sb strings.Builder
	for i := 0; i < n; i++ {
		sb.WriteByte(printable[rapid.IntRange(0, len(printable)-1).Draw(t, label)])
	}
	return sb.String()
}

func pow10(n int) int64 {
	x := int64(1)
	for i := 0; i < n; i++ {
		x *= 10
	}
	return x
}

type cfgOpts struct {
	maxUEs     int  // the MSIN leaves room for this many consecutive subscribers
	suffixBias bool // C02: last four IMSI digits just below 16 / 256 / 10000
	smallPSI   bool // keep (last four digits + UE index) within 1..255 so that D10 is not in the way
	preferMNC2 bool // C19: mostly 2-digit MNCs, so that scenarios complete on a tree that still has D18
}

// genConfig draws a configuration that is valid per the documentation: IMSI = MCC‖MNC‖MSIN
// with at most 15 digits, 128-bit hex keys, gNB id of ⌈n/8⌉ octets (each < 0x80 so that the
// YAML \x escape denotes the octet itself) with zero padding bits, PrintableString name.
func genConfig(t *rapid.T, o cfgOpts) emuConfig {
	var c emuConfig
	c.MCC = fmt.Sprintf("%03d", rapid.IntRange(0, 999).Draw(t, "mcc"))
	mnc3 := rapid.Bool().Draw(t, "mnc3")
	if o.preferMNC2 && rapid.IntRange(0, 2).Draw(t, "mnc2_bias") != 0 {
		mnc3 = false
	}
	if mnc3 {
		c.MNC = fmt.Sprintf("%03d", rapid.IntRange(0, 999).Draw(t, "mnc"))
	} else {
		c.MNC = fmt.Sprintf("%02d", rapid.IntRange(0, 99).Draw(t, "mnc"))
	}
	maxLen := 15 - 3 - len(c.MNC)
	minLen := 1
	for pow10(minLen) <= int64(o.maxUEs)+1 {
		minLen++
	}
	if o.suffixBias || o.smallPSI {
		if minLen < 4 {
			minLen = 4
		}
	}
	n := rapid.IntRange(minLen, maxLen).Draw(t, "msin_len")
	if rapid.IntRange(0, 3).Draw(t, "msin_len_max") == 0 {
		n = maxLen
	}
	limit := pow10(n) - 1 - int64(o.maxUEs)
	var msin int64
	switch {
	case o.smallPSI:
		hi := int64(rapid.IntRange(0, int(min64(limit/10000, 99999))).Draw(t, "msin_hi"))
		msin = hi*10000 + int64(rapid.IntRange(1, 255-o.maxUEs).Draw(t, "msin_lo"))
	case o.suffixBias:
		hi := int64(rapid.IntRange(0, int(min64(limit/10000, 99999))).Draw(t, "msin_hi"))
		var lo int
		carryK := 0
		switch rapid.IntRange(0, 6).Draw(t, "suffix_class") {
		case 6:
			// decimal carry: the UEs of the run cross a power of ten somewhere in the MSIN (…0999 → …1000)
			carryK = rapid.IntRange(4, max(4, n-1)).Draw(t, "carry_digits")
			lo = -rapid.IntRange(1, max(1, o.maxUEs-1)).Draw(t, "below_pow10")
		case 0:
			lo = 16 - rapid.IntRange(1, 4).Draw(t, "below16")
		case 1, 2:
			lo = 256 - rapid.IntRange(1, 4).Draw(t, "below256")
		case 3:
			lo = 10000 - rapid.IntRange(1, 4).Draw(t, "below10000")
		case 4:
			lo = rapid.IntRange(1, 250).Draw(t, "lowsuffix")
		default:
			lo = rapid.IntRange(0, 9999).Draw(t, "anysuffix")
		}
		msin = hi*10000 + int64(lo)
		if carryK > 0 {
			msin = (hi*10000/pow10(carryK))*pow10(carryK) + int64(lo)
			if msin <= 0 {
				msin = pow10(carryK) + int64(lo)
			}
		}
		if msin > limit || msin < 0 {
			msin = limit
		}
	default:
		switch rapid.IntRange(0, 7).Draw(t, "msin_kind") {
		case 0:
			msin = 0
		case 1:
			msin = limit
		case 2, 3:
			// decimal carry: the UEs of the run cross a power of ten somewhere in the MSIN (…0999 → …1000),
			// half of the time within the three most significant positions
			k := rapid.IntRange(1, max(1, n-1)).Draw(t, "carry_digits")
			if rapid.Bool().Draw(t, "carry_high") {
				k = rapid.IntRange(max(1, n-3), max(1, n-1)).Draw(t, "carry_digits_high")
			}
			msin = pow10(k) - int64(rapid.IntRange(1, max(1, o.maxUEs-1)).Draw(t, "below_pow10"))
			if k < n-1 {
				msin += pow10(k+1) * rapid.Int64Range(0, pow10(n-k-1)-1).Draw(t, "carry_head")
			}
			if msin > limit || msin < 0 {
				msin = limit
			}
		default:
			msin = rapid.Int64Range(0, limit).Draw(t, "msin")
		}
	}
	c.InitialIMSI = c.MCC + c.MNC + fmt.Sprintf("%0*d", n, msin)
	c.K = drawKeyHex(t, "k")
	c.OP = drawKeyHex(t, "op")
	if rapid.IntRange(0, 2).Draw(t, "opc_set") != 0 {
		c.OPC = drawKeyHex(t, "opc")
	}
	c.GnbBitLen = uint64(rapid.IntRange(22, 32).Draw(t, "gnb_bits"))
	if rapid.IntRange(0, 3).Draw(t, "gnb_bits_24") == 0 {
		c.GnbBitLen = 24
	}
	human := rapid.IntRange(0, 4).Draw(t, "gnb_id_human") == 3
	if human {
		c.GnbBitLen = uint64(rapid.SampledFrom([]int{32, 32, 24, 28, 30, 31, 29}).Draw(t, "gnb_bits_h"))
	}
	nb := int(c.GnbBitLen+7) / 8
	id := drawBytes(t, nb, "gnb_id")
	binary := rapid.IntRange(0, 3).Draw(t, "gnb_id_binary") == 2
	if human {
		// an id a person types: "1234", "0001", "beef", "ABCD" — octets that happen to be digits and letters a..f
		binary = false
		const hx = "0123456789abcdefABCDEF0123456789"
		for i := range id {
			id[i] = hx[int(id[i])%len(hx)]
		}
		if c.GnbBitLen%8 != 0 {
			id[nb-1] = '0' // 0x30: the low four bits are padding for 28..31 bits
		}
	}
	for i := range id {
		if !binary {
			id[i] &= 0x7f
		}
	}
	if pad := uint(nb*8) - uint(c.GnbBitLen); pad > 0 {
		id[nb-1] &^= byte(1<<pad - 1)
	}
	if binary {
		// any octets, written as a !!binary scalar
		if rapid.Bool().Draw(t, "gnb_id_high") {
			id[0] |= 0x80
		}
		c.GnbIDBin = hex.EncodeToString(id)
	} else {
		c.GnbID = string(id)
	}
	c.GnbName = drawPrintable(t, 1, 150, "gnb_name")
	if rapid.IntRange(0, 2).Draw(t, "short_name") != 0 {
		c.GnbName = drawPrintable(t, 1, 12, "gnb_name_s")
	}
	c.SST = int64(rapid.IntRange(0, 255).Draw(t, "sst"))
	if rapid.IntRange(0, 3).Draw(t, "sd_set") != 0 {
		c.SD = hex.EncodeToString(drawBytes(t, 3, "sd"))
		if rapid.Bool().Draw(t, "sd_upper") {
			c.SD = strings.ToUpper(c.SD)
		}
	}
	c.GnbGtpIP = drawIPv4(t, "gnb_gtp_ip")
	c.AmfNgapIP = drawIPv4(t, "amf_ngap_ip")
	c.StgNgapIP = drawIPv4(t, "stg_ngap_ip")
	c.AmfNgapPort = int64(rapid.IntRange(0, 65535).Draw(t, "amf_port"))
	c.StgNgapPort = int64(rapid.IntRange(0, 65535).Draw(t, "stg_port"))
	c.DLIface = drawPrintableWord(t, "dl_iface")
	c.ULIface = drawPrintableWord(t, "ul_iface")
	c.UeNumber = int64(rapid.IntRange(0, 5).Draw(t, "ue_number"))
	c.PlainIPs = rapid.Bool().Draw(t, "plain_ips")
	if rapid.IntRange(0, 5).Draw(t, "same_ports") == 3 {
		// gNB and AMF on different hosts, both on the same SCTP port (38412 on both sides is the usual deployment)
		c.StgNgapPort = c.AmfNgapPort
	}
	c.Syntax = drawSyntax(t)
	return c
}

// drawSyntax: how the configuration file is written down (see fileSyntax); half of the files are written exactly
// like the shipped one.
func drawSyntax(t *rapid.T) (s fileSyntax) {
	if rapid.Bool().Draw(t, "syntax_plain") {
		return s
	}
	s.NoFinalNewline = rapid.Bool().Draw(t, "no_final_newline")
	s.CRLF = rapid.IntRange(0, 3).Draw(t, "crlf") == 1
	s.Comments = rapid.Bool().Draw(t, "comments")
	s.DocStart = rapid.IntRange(0, 3).Draw(t, "doc_start") == 1
	s.Indent = rapid.SampledFrom([]int{0, 0, 1, 4, 8}).Draw(t, "indent")
	s.Kind = rapid.SampledFrom([]string{"", "", "", "symlink", "symlink-chain", "fifo"}).Draw(t, "file_kind")
	if rapid.Bool().Draw(t, "header_varies") {
		s.Header = rapid.IntRange(1, 7).Draw(t, "header")
	}
	if rapid.IntRange(0, 2).Draw(t, "extra_keys") == 1 {
		names := []string{"src_iface", "dst_iface", "imsi", "amf_ip", "amf_port", "gnb_ip", "plmn", "ue_count", "opc_key", "gnb-id", "GNB_NAME", "Mcc", "sst_sd", "ue_registrations"}
		n := rapid.IntRange(1, 4).Draw(t, "n_extra")
		for i := 0; i < n; i++ {
			k := rapid.SampledFrom(names).Draw(t, fmt.Sprintf("extra_key%d", i))
			dup := false
			for _, e := range s.Extra {
				dup = dup || e[0] == k
			}
			if !dup {
				s.Extra = append(s.Extra, [2]string{k, rapid.SampledFrom([]string{"enp0s8", "lo", "999", "001010000000099", "10.0.0.1", "decoy", "0", "ffffffffffffffffffffffffffffffff"}).Draw(t, fmt.Sprintf("extra_val%d", i))})
			}
		}
	}
	if rapid.Bool().Draw(t, "key_order") {
		s.Order = rapid.Permutation([]int{0, 1, 2, 3, 4, 5, 6, 7, 8, 9, 10, 11, 12, 13, 14, 15, 16, 17, 18, 19, 20, 21, 22, 23}).Draw(t, "key_order_perm")
	}
	return s
}

func drawPrintableWord(t *rapid.T, label string) string {
	const al = "abcdefghijklmnopqrstuvwxyz0123456789"
	n := rapid.IntRange(1, 10).Draw(t, label+"_len")
	var sb strings.Builder
	sb.WriteString("vf")
	for i := 0; i < n; i++ {
		sb.WriteByte(al[rapid.IntRange(0, len(al)-1).Draw(t, label)])
	}
	return sb.String()
}

var amfIDEdges = []uint64{0, 1, 127, 128, 255, 256, 65535, 65536, 1<<24 - 1, 1 << 24, 1<<32 - 1, 1 << 32, 1<<32 + 1, 1<<40 - 2, 1<<40 - 1}

func drawAMFID(t *rapid.T, label string) uint64 {
	switch rapid.IntRange(0, 3).Draw(t, label+"_kind") {
	case 0:
		return amfIDEdges[rapid.IntRange(0, len(amfIDEdges)-1).Draw(t, label+"_edge")]
	case 1:
		return rapid.Uint64Range(1<<32, 1<<40-1).Draw(t, label+"_big")
	case 2:
		return rapid.Uint64Range(0, 1<<32-1).Draw(t, label+"_small")
	}
	return rapid.Uint64Range(0, 1<<40-1).Draw(t, label)
}

var bitRateEdges = []uint64{0, 1, 255, 256, 65535, 65536, 1<<24 - 1, 1 << 24, 1<<32 - 1, 1 << 32, 1 << 40, 4000000000000}

func drawBitRate(t *rapid.T, label string) uint64 {
	if rapid.Bool().Draw(t, label+"_edge") {
		return bitRateEdges[rapid.IntRange(0, len(bitRateEdges)-1).Draw(t, label+"_e")]
	}
	return rapid.Uint64Range(0, 4000000000000).Draw(t, label)
}

func genUEChoice(t *rapid.T, k int, taken map[uint64]bool) refamf.UEChoice {
	l := fmt.Sprintf("ue%d_", k)
	var u refamf.UEChoice
	rnd := drawBytes(t, 16, l+"rand")
	switch rapid.IntRange(0, 9).Draw(t, l+"rand_kind") {
	case 0:
		rnd = make([]byte, 16)
	case 1:
		rnd = []byte(strings.Repeat("\xff", 16))
	}
	u.RAND = hex.EncodeToString(rnd)
	u.SQN = hex.EncodeToString(drawBytes(t, 6, l+"sqn"))
	u.AMFField = hex.EncodeToString(drawBytes(t, 2, l+"amf"))
	u.NgKSI = rapid.IntRange(0, 6).Draw(t, l+"ngksi")
	id := drawAMFID(t, l+"amfid")
	for taken[id] {
		id = (id + 1) & (1<<40 - 1)
	}
	taken[id] = true
	u.AMFUEID = id
	u.TMSI = rapid.Uint32().Draw(t, l+"tmsi")
	switch rapid.IntRange(0, 3).Draw(t, l+"opt_kind") {
	case 0:
		u.Options = 0
	case 1:
		u.Options = 1 << uint(rapid.IntRange(0, len(refamf.OptNames)-1).Draw(t, l+"opt_one"))
	default:
		for b := 0; b < len(refamf.OptNames); b++ {
			if rapid.IntRange(0, 2).Draw(t, l+"opt_"+refamf.OptNames[b]) == 0 {
				u.Options |= 1 << uint(b)
			}
		}
	}
	if rapid.IntRange(0, 5).Draw(t, l+"long_dl") == 0 {
		// a long downlink message (1..2 kilobytes, still below the emulator's 2048-octet receive buffer): a Mobility
		// Restriction List that forbids a few hundred tracking areas, in the Security Mode Command's transport or in
		// the Initial Context Setup Request (or both)
		u.ForbiddenTACs = rapid.IntRange(300, 520).Draw(t, l+"forbidden_tacs")
		switch rapid.IntRange(0, 2).Draw(t, l+"long_where") {
		case 0:
			u.Options |= refamf.OptDLMobilityRestr
		case 1:
			u.Options |= refamf.OptICSMobilityRestr
		default:
			u.Options |= refamf.OptDLMobilityRestr | refamf.OptICSMobilityRestr
		}
	}
	if rapid.IntRange(0, 2).Draw(t, l+"own_prio") == 0 {
		u.EncPrio = rapid.SampledFrom([][]int{{0, 1, 2}, {0, 2, 1}, {1, 0, 2}, {1, 2, 0}, {2, 0, 1}, {2, 1, 0}}).Draw(t, l+"enc_prio")
		u.IntPrio = rapid.SampledFrom([][]int{{1, 2}, {2, 1}}).Draw(t, l+"int_prio")
	}
	if rapid.IntRange(0, 35).Draw(t, l+"late_cuc") == 23 {
		u.CUCDelayMs = rapid.SampledFrom([]int{600, 600, 1100}).Draw(t, l+"cuc_delay_ms")
	}
	if rapid.IntRange(0, 4).Draw(t, l+"later_release_amf") == 2 {
		u.LaterIEs = rapid.IntRange(1, 3).Draw(t, l+"later_ies")
	}
	if rapid.IntRange(0, 23).Draw(t, l+"slow_smf") == 13 {
		u.SetupDelayMs = rapid.SampledFrom([]int{250, 250, 700}).Draw(t, l+"setup_delay_ms")
	}
	u.UEIP = drawIPv4(t, l+"ueip")
	u.UPFIP = drawIPv4(t, l+"upfip")
	u.TEID = rapid.Uint32().Draw(t, l+"teid")
	switch rapid.IntRange(0, 7).Draw(t, l+"teid_kind") {
	case 0:
		u.TEID = 0
	case 1:
		u.TEID = 0xffffffff
	case 2:
		u.TEID = 1
	}
	u.AMBRDL = drawBitRate(t, l+"ambr_dl")
	u.AMBRUL = drawBitRate(t, l+"ambr_ul")
	u.Cause5GSM = -1
	if rapid.Bool().Draw(t, l+"cause_set") {
		u.Cause5GSM = rapid.IntRange(0, 255).Draw(t, l+"cause")
	}
	u.NQoSRules = rapid.IntRange(1, 6).Draw(t, l+"nrules")
	u.NFilters = rapid.IntRange(0, 4).Draw(t, l+"nfilters")
	u.NFlowDescs = rapid.IntRange(0, 3).Draw(t, l+"nflows")
	u.FlowParams = rapid.IntRange(0, 3).Draw(t, l+"flowparams")
	u.SSCMode = rapid.IntRange(1, 3).Draw(t, l+"ssc")
	u.DNN = rapid.SampledFrom([]string{"", "internet", "ims", "internet.mnc001.mcc001.gprs"}).Draw(t, l+"dnn")
	u.ReleaseCause = rapid.SampledFrom([]int{36, 26, 39, 69}).Draw(t, l+"relcause")
	return u
}

func genNGSetupChoice(t *rapid.T) refamf.NGSetupChoice {
	backup := ""
	if rapid.IntRange(0, 3).Draw(t, "backup_amf") == 0 {
		backup = drawPrintable(t, 1, 150, "backup_amf_name")
	}
	return refamf.NGSetupChoice{
		BackupAMFName:    backup,
		RelativeCapacity: rapid.IntRange(0, 255).Draw(t, "capacity"),
		AMFRegion:        rapid.IntRange(0, 255).Draw(t, "region"),
		AMFSet:           rapid.IntRange(0, 1000).Draw(t, "set"),
		AMFPointer:       rapid.IntRange(0, 63).Draw(t, "pointer"),
		ExtraGUAMIs:      rapid.IntRange(0, 3).Draw(t, "extra_guamis"),
		ExtraSlices:      rapid.IntRange(0, 4).Draw(t, "extra_slices"),
		PLMNsBefore:      rapid.SampledFrom([]int{0, 0, 0, 1, 2, 5}).Draw(t, "plmns_before"),
		GUAMIOtherPLMN:   rapid.IntRange(0, 3).Draw(t, "guami_other_plmn") == 2,
		PLMNsAfter:       rapid.SampledFrom([]int{0, 0, 1, 3}).Draw(t, "plmns_after"),
	}
}

func genScenario(t *rapid.T, c emuConfig, nUEs int, pol refamf.Policy) refamf.Scenario {
	sc := refamf.Scenario{Prov: c.Provision(), NGSetup: genNGSetupChoice(t), Policy: pol}
	taken := map[uint64]bool{}
	for k := 0; k < nUEs; k++ {
		sc.UEs = append(sc.UEs, genUEChoice(t, k, taken))
	}
	return sc
}

// configClasses labels a configuration for the class histogram.
func configClasses(c emuConfig) []string {
	var cl []string
	cl = append(cl, fmt.Sprintf("mnc%d", len(c.MNC)))
	msin := len(c.InitialIMSI) - 3 - len(c.MNC)
	if msin%2 == 1 {
		cl = append(cl, "msin-odd")
	} else {
		cl = append(cl, "msin-even")
	}
	if len(c.InitialIMSI) == 15 {
		cl = append(cl, "imsi-15-digits")
	}
	if c.GnbBitLen != 24 {
		cl = append(cl, "gnb-bits!=24")
	}
	cl = append(cl, fmt.Sprintf("gnb-bits=%d", c.GnbBitLen))
	if c.OPC == "" {
		cl = append(cl, "op-only")
	} else {
		cl = append(cl, "opc")
	}
	if c.SD == "" {
		cl = append(cl, "sd-empty")
	}
	if len(c.GnbName) > 127 {
		cl = append(cl, "gnb-name>127")
	}
	return cl
}

func scenarioClasses(sc refamf.Scenario) []string {
	var cl []string
	if sc.NGSetup.BackupAMFName != "" {
		cl = append(cl, "opt:NGSetupResponse.BackupAMFName")
	}
	if sc.NGSetup.PLMNsBefore > 0 {
		cl = append(cl, "ngsetup-response:other-plmns-listed-first")
	}
	for _, u := range sc.UEs {
		if u.AMFUEID >= 1<<32 {
			cl = append(cl, "amf-id>=2^32")
		}
		if u.ForbiddenTACs > 0 {
			cl = append(cl, "downlink-message>1KiB")
		}
		if u.CUCDelayMs > 0 {
			cl = append(cl, "configuration-update-command-sent-late")
		}
		if u.LaterIEs > 0 {
			cl = append(cl, fmt.Sprintf("amf-adds-%d-later-release-IEs", u.LaterIEs))
		}
		if u.SetupDelayMs > 0 {
			cl = append(cl, "session-setup-request-sent-late(other-UEs-answered-first)")
		}
		if len(u.EncPrio) > 0 {
			cl = append(cl, fmt.Sprintf("amf-prefers-nea%d-nia%d", u.EncPrio[0], u.IntPrio[0]))
		}
		if u.Options&refamf.NGAPOptionMask != 0 {
			cl = append(cl, "optional-dl-ie")
		}
		for b := 0; b < len(refamf.OptNames); b++ {
			if u.Options&(1<<uint(b)) != 0 {
				cl = append(cl, "opt:"+refamf.OptNames[b])
			}
		}
		cl = append(cl, fmt.Sprintf("ngksi=%d", u.NgKSI))
	}
	return cl
}
