package pe

// C19 — fail-stop when the AMF disappears or answers garbage (level: fault_enumeration).
//
// For one scenario the fault-free conversation is run first; it yields the number of
// uplink and downlink PDUs. Then every uplink index k × "close after receiving k, before
// answering" and every downlink index j × "undecodable bytes in place of j" is run as its
// own conversation. Whether a fault is inside the claim is computed from the emulator's
// I/O program (writes and reads in main's order, reads consume the downlink PDUs in FIFO
// order), never from the decoder under test.

import (
	"fmt"
	"strings"
	"testing"

	"pgregory.net/rapid"

	"verifh/ev"
	"verifh/refamf"
)

// ioOp is one socket operation of the emulator in program order.
type ioOp struct {
	Kind  byte   // 'W' write, 'R' read whose content is decoded and checked, 'I' read whose decode result is ignored
	Proc  string // procedure the operation belongs to
	Op    int    // index of the procedure call (L-proc: index into the script)
	Sleep int    // fixed sleep (ms) the program is certain to have spent since the previous operation
}

// ioProgram: the emulator's socket operations for a script of procedures (source:
// src/stgutg/*.go — ManageNGSetup W R; RegisterUE W R W R W R W W I; EstablishPDU W R W;
// ServiceRequest W R W sleep 1 s; ReleasePDU W 100 ms W 10 ms W 1 s; DeregisterUE W 500 ms R R W;
// main sleeps 1 s after every procedure except NG Setup).
func ioProgram(script []procOp, mainSleeps bool) []ioOp {
	type step struct {
		k     byte
		sleep int // before the operation
	}
	pat := map[string][]step{
		"ngsetup":    {{'W', 0}, {'R', 0}},
		"register":   {{'W', 0}, {'R', 0}, {'W', 0}, {'R', 0}, {'W', 0}, {'R', 0}, {'W', 0}, {'W', 0}, {'I', 0}},
		"establish":  {{'W', 0}, {'R', 0}, {'W', 0}},
		"service":    {{'W', 0}, {'R', 0}, {'W', 0}},
		"release":    {{'W', 0}, {'W', 100}, {'W', 10}},
		"deregister": {{'W', 0}, {'R', 500}, {'R', 0}, {'W', 0}},
	}
	tail := map[string]int{"service": 1000, "release": 1000}
	var out []ioOp
	carry := 0
	for i, o := range script {
		for j, st := range pat[o.Op] {
			sl := st.sleep
			if j == 0 {
				sl += carry
			}
			out = append(out, ioOp{Kind: st.k, Proc: o.Op, Op: i, Sleep: sl})
		}
		carry = tail[o.Op]
		if mainSleeps && o.Op != "ngsetup" {
			carry += 1000
		}
	}
	return out
}

// faultClaim locates the fault in the I/O program. inClaim: the property demands
// fail-stop, and the verdict does not depend on how fast the harness closes the socket.
//
//   - close after uplink k: the AMF has sent dlSent downlink PDUs when it closes. The
//     emulator certainly fails at the first later operation that is a read needing a
//     downlink PDU never sent (FIFO index >= dlSent), or a write separated from uplink k by
//     at least one second of fixed sleeps (the AMF closes within milliseconds of receiving k;
//     writes that follow k immediately may still precede the close and succeed). If no such
//     operation exists, nothing certain follows the fault: outside the claim.
//   - garbage in place of downlink j: consumed by the read with FIFO index j.
//
// maxUL: uplink PDUs the emulator may have written when it has to stop (garbage), -1
// otherwise. opIdx: script index of the procedure that cannot return.
func faultClaim(prog []ioOp, f refamf.Fault, dlSent int) (inClaim bool, why string, maxUL int, opIdx int) {
	switch f.Kind {
	case "close":
		w, at := -1, -1
		for p, o := range prog {
			if o.Kind == 'W' {
				w++
				if w == f.Index {
					at = p
					break
				}
			}
		}
		if at < 0 {
			return false, "close-index-beyond-conversation", -1, -1
		}
		if at == len(prog)-1 {
			return false, "close-after-last-io", -1, -1
		}
		reads := 0
		for _, o := range prog[:at] {
			if o.Kind != 'W' {
				reads++
			}
		}
		slept := 0
		for _, o := range prog[at+1:] {
			slept += o.Sleep
			switch o.Kind {
			case 'W':
				if slept >= 1000 {
					return true, "close:write-fails:" + o.Proc, -1, o.Op
				}
			default:
				if reads >= dlSent {
					return true, "close:read-fails:" + o.Proc, -1, o.Op
				}
				reads++
			}
		}
		return false, "close-followed-only-by-immediate-writes", -1, -1
	case "close-after-dl":
		// the AMF sends downlink j and is gone (its receive side is shut down before j is sent): after the emulator
		// has read j, every write fails and every further read finds end-of-file
		r, at := -1, -1
		for p, o := range prog {
			if o.Kind != 'W' {
				r++
				if r == f.Index {
					at = p
					break
				}
			}
		}
		if at < 0 {
			return false, "close-after-dl:answer-never-read", -1, -1
		}
		if at == len(prog)-1 {
			return false, "close-after-dl:nothing-follows-the-read", -1, -1
		}
		o := prog[at+1]
		if o.Kind == 'W' {
			return true, "close-after-dl:write-fails:" + o.Proc, -1, o.Op
		}
		return true, "close-after-dl:read-fails:" + o.Proc, -1, o.Op
	case "garbage":
		r, w := -1, 0
		for _, o := range prog {
			switch o.Kind {
			case 'W':
				w++
			case 'R', 'I':
				r++
				if r == f.Index {
					if o.Kind == 'I' {
						return false, "garbage-read-but-ignored-by-design", -1, -1
					}
					return true, "garbage:" + o.Proc, w, o.Op
				}
			}
		}
		return false, "garbage-never-read", -1, -1
	}
	return false, "no-fault", -1, -1
}

func genC19Scenario(level string) func(t *rapid.T) *peCase { return genC19ScenarioN(level, 3) }

// genC19ScenarioN: up to maxR UEs. Long conversations (a dozen UEs, hundreds of internal steps) put fault points far
// from the start of the run.
func genC19ScenarioN(level string, maxR int) func(t *rapid.T) *peCase {
	return func(t *rapid.T) *peCase {
		r := rapid.IntRange(1, maxR).Draw(t, "R")
		if maxR > 3 {
			r = rapid.IntRange(maxR-2, maxR).Draw(t, "R_long")
		}
		cfg := genConfig(t, cfgOpts{maxUEs: r + 1, smallPSI: true, preferMNC2: true})
		cfg.Reg = int64(r)
		cfg.Pdu = int64(rapid.IntRange(0, r).Draw(t, "E"))
		if rapid.IntRange(0, 3).Draw(t, "E_full") != 0 {
			cfg.Pdu = int64(r)
		}
		e := int(cfg.Pdu)
		cfg.Service = int64(rapid.IntRange(0, e).Draw(t, "S"))
		cfg.Release = int64(rapid.IntRange(0, e).Draw(t, "L"))
		cfg.Dereg = int64(rapid.IntRange(0, r).Draw(t, "D"))
		if rapid.IntRange(0, 2).Draw(t, "D_full") != 0 {
			cfg.Dereg = int64(r)
		}
		if maxR > 3 {
			// keep the sleeping procedures short in long conversations
			cfg.Service, cfg.Release = int64(rapid.IntRange(0, 1).Draw(t, "S_long")), 0
			cfg.Dereg = int64(rapid.IntRange(0, 2).Draw(t, "D_long")) * int64(r) / 2
		}
		c := &peCase{Level: level, Cfg: cfg}
		c.Sc = genScenario(t, cfg, r, refamf.Policy{})
		if level == "proc" {
			c.Script = cfg.procScript(cfg.clamps())
		}
		return c
	}
}

func (c *peCase) script() []procOp {
	if c.Level == "proc" {
		return c.Script
	}
	return c.Cfg.procScript(c.Cfg.clamps())
}

func evalC19(test string) func(c *peCase) evalResult {
	return func(c *peCase) evalResult {
		sp, err := c.spawnFor(test)
		if err != nil {
			return evalResult{V: ev.Verdict{Err: err, Key: "harness"}}
		}
		defer removeAll(sp.Dir)
		k := c.Cfg.clamps()
		sleeps := k.sleepBudget()
		if c.Level == "proc" {
			sleeps = procSleepBudget(c.Script)
		}
		lim := bound(sleeps)
		prog := ioProgram(c.script(), c.Level == "main")
		f := c.Sc.Fault
		res := converse(sp, c.Sc, lim)
		inClaim, why, maxUL, opIdx := faultClaim(prog, f, res.DLAtFault)
		v := ev.Verdict{Hash: c.hash(), Classes: []string{"level:" + c.Level, "fault:" + f.Kind, why}}
		if f.Kind == "garbage" {
			v.Classes = append(v.Classes, "garbage:"+f.Garbage)
			if f.DelayMs > 0 {
				v.Classes = append(v.Classes, "garbage-arrives-late")
			}
		}
		if res.StartErr != nil {
			v.Err, v.Key = fmt.Errorf("harness: %v", res.StartErr), "harness"
			return evalResult{V: v}
		}
		fail := func(key, format string, a ...interface{}) evalResult {
			c.attach(res)
			v.Err, v.Key = fmt.Errorf(format+"\nfault: %+v (%s)\n%s", append(a, f, why, describe(res))...), key
			return evalResult{V: v}
		}
		if res.AMF.Violation != nil && !res.FaultDone {
			// the conversation itself broke before/without the fault: not a statement about fail-stop
			// (a complaint of the AMF about something the emulator sent AFTER the fault is judged below: it went on)
			v.Skip = true
			v.Classes = append(v.Classes, "conversation-broken:"+res.AMF.Violation.Key)
			return evalResult{V: v}
		}
		if f.Kind == "" {
			// the fault-free reference run of the scenario
			if res.TimedOut {
				return evalResult{V: v, Retry: true}
			}
			v.Skip = true
			return evalResult{V: v}
		}
		if !res.FaultDone {
			v.Skip = true
			v.Classes = append(v.Classes, "fault-not-reached")
			return evalResult{V: v}
		}
		if !inClaim {
			// outside the claim (nothing follows the fault, or the emulator ignores that message by design):
			// recorded, nothing asserted beyond termination within the bound
			if res.TimedOut {
				r := fail("hang", "the emulator did not terminate within %v after a fault outside the fail-stop claim", lim)
				r.Retry = true
				return r
			}
			return evalResult{V: v}
		}
		v.NT = true
		if res.TimedOut {
			r := fail("hang:"+why, "the emulator did not terminate within %v (3 x the scenario's fixed sleeps of %v + 20 s)", lim, sleeps)
			r.Retry = true
			return r
		}
		banner := strings.Contains(res.Stdout, ">> All tests finished")
		if res.ExitCode == 0 {
			return fail("exit0:"+why, "the emulator ended with exit status 0 after the fault (completion banner printed: %v)", banner)
		}
		if banner {
			return fail("banner:"+why, "the emulator printed the completion banner after the fault")
		}
		if maxUL >= 0 && res.ULTotal > maxUL {
			return fail("continued:"+why, "after consuming the undecodable answer the emulator sent %d more uplink PDU(s) (AMF received %d, at most %d precede the failing read)", res.ULTotal-maxUL, res.ULTotal, maxUL)
		}
		if c.Level == "proc" {
			for _, l := range res.ProcLines {
				if n, ok := l["n"].(float64); ok && int(n) >= opIdx {
					return fail("returned:"+why, "procedure %v (script index %d) returned although the fault hit script index %d", l["op"], int(n), opIdx)
				}
				if l["op"] == "end" {
					return fail("returned:"+why, "the script ran to its end after the fault")
				}
			}
		}
		v.Classes = append(v.Classes, fmt.Sprintf("exit=%d", res.ExitCode))
		return evalResult{V: v}
	}
}

var garbageFamilies = []string{"prefix", "choice3", "length", "oversize2048", "oversize4096", "otherproc", "otherproc", "stale-prefix", "stale-prefix", "failure-truncated", "failure-truncated", "cause-ext-enum", "frag-zero"}

// enumerateFaults runs the scenario fault-free and returns one case per (index, kind).
func enumerateFaults(t *testing.T, r *ev.Rec, test string, base *peCase, seed int) []*peCase {
	free := *base
	sp, err := free.spawnFor(test)
	if err != nil {
		r.Note("harness: %v", err)
		return nil
	}
	k := base.Cfg.clamps()
	sleeps := k.sleepBudget()
	if base.Level == "proc" {
		sleeps = procSleepBudget(base.Script)
	}
	res := converse(sp, base.Sc, bound(sleeps))
	removeAll(sp.Dir)
	want := k.expectedEvents()
	v, _ := conversationVerdict(&free, res, want)
	if v.Err != nil {
		// the scenario does not complete even without a fault (e.g. a defect C01/C02 report): nothing to enumerate
		r.Class("scenario-skipped:fault-free-run-fails:"+v.Key, 1)
		r.Note("scenario skipped, its fault-free run fails with [%s]", v.Key)
		return nil
	}
	r.Class("scenarios", 1)
	r.Class(fmt.Sprintf("scenario:R=%d,E=%d,S=%d,L=%d,D=%d", k.R, k.E, k.S, k.L, k.D), 1)
	var dlLens []int
	for _, e := range res.AMF.Transcript {
		if e.Dir == "dl" {
			dlLens = append(dlLens, len(e.Hex)/2)
		}
	}
	draw := rapid.Custom(func(rt *rapid.T) []refamf.Fault {
		var fs []refamf.Fault
		for j, n := range dlLens {
			fam := garbageFamilies[rapid.IntRange(0, len(garbageFamilies)-1).Draw(rt, fmt.Sprintf("family%d", j))]
			f := refamf.Fault{Kind: "garbage", Index: j, Garbage: fam}
			if fam == "otherproc" {
				// the first octets of an initiating message of ANOTHER procedure (any of the 52 procedure codes),
				// followed by a length that claims more than the datagram holds
				f.PrefixLen = rapid.IntRange(0, 51).Draw(rt, fmt.Sprintf("otherproc%d", j))
			}
			if fam == "failure-truncated" {
				f.PrefixLen = rapid.SampledFrom([]int{3, 4, 7, 12, 13}).Draw(rt, fmt.Sprintf("failcut%d", j))
			}
			if fam == "stale-prefix" {
				// the first 1..3 octets of the PREVIOUS downlink message: what arrives agrees with what a reused receive
				// buffer still holds from the message before, and is far too short to be an NGAP PDU
				f.PrefixLen = rapid.IntRange(1, 3).Draw(rt, fmt.Sprintf("stale%d", j))
			}
			if fam == "prefix" {
				switch rapid.IntRange(0, 3).Draw(rt, fmt.Sprintf("plen_kind%d", j)) {
				case 0:
					f.PrefixLen = n - 1
				case 1:
					f.PrefixLen = rapid.IntRange(1, 4).Draw(rt, fmt.Sprintf("plen_s%d", j))
				default:
					f.PrefixLen = rapid.IntRange(1, n-1).Draw(rt, fmt.Sprintf("plen%d", j))
				}
			}
			if rapid.IntRange(0, 4).Draw(rt, fmt.Sprintf("late%d", j)) == 2 {
				f.DelayMs = 400 // a slow peer: the undecodable answer arrives well after the request
			}
			fs = append(fs, f)
		}
		return fs
	}).Example(seed)
	var cases []*peCase
	for kk := 0; kk < res.AMF.ULCount(); kk++ {
		c := *base
		c.Sc.Fault = refamf.Fault{Kind: "close", Index: kk}
		cases = append(cases, &c)
	}
	for _, f := range draw {
		c := *base
		c.Sc.Fault = f
		cases = append(cases, &c)
	}
	// answers the emulator does not wait for (ReleasePDU goes on by the clock; the PDU SESSION RESOURCE RELEASE COMMAND is
	// only read by the next procedure): undecodable AND late, so that it arrives while the emulator is doing other things
	for _, e := range res.AMF.Transcript {
		if e.Dir == "dl" && strings.Contains(e.What, "ReleaseCommand") && e.Idx >= 0 && e.Idx < len(dlLens) {
			c := *base
			c.Sc.Fault = refamf.Fault{Kind: "garbage", Index: e.Idx, Garbage: garbageFamilies[(seed+e.Idx)%len(garbageFamilies)], PrefixLen: 3, DelayMs: 400}
			cases = append(cases, &c)
		}
	}
	// the answer to the NG SETUP REQUEST is replaced by every family in turn (these runs end at once, they cost nothing);
	// the cut of the truncated NG SETUP FAILURE varies with the scenario
	seen := map[string]bool{}
	for i, fam := range garbageFamilies {
		if seen[fam] || len(dlLens) == 0 || (len(draw) > 0 && draw[0].Garbage == fam) {
			continue
		}
		seen[fam] = true
		c := *base
		c.Sc.Fault = refamf.Fault{Kind: "garbage", Index: 0, Garbage: fam, PrefixLen: []int{3, 4, 7, 12, 13, 1, 2}[(seed+i)%7]}
		if fam == "otherproc" {
			c.Sc.Fault.PrefixLen = (seed*7 + i) % 52
		}
		cases = append(cases, &c)
	}
	for j := range dlLens {
		c := *base
		c.Sc.Fault = refamf.Fault{Kind: "close-after-dl", Index: j}
		cases = append(cases, &c)
	}
	return cases
}

func runC19(t *testing.T, test, level string, nScenarios int) {
	r := ev.New(t, "C19", test)
	var cases []*peCase
	if ev.Replay() == "" {
		gen := rapid.Custom(genC19Scenario(level))
		type out struct {
			i  int
			cs []*peCase
		}
		results := make([][]*peCase, nScenarios)
		done := make(chan out, nScenarios)
		// long conversations (9..14 UEs, several hundred internal steps): a few per run, L-proc only (no fixed sleeps in
		// registration and establishment), of different sizes so that the fault points fall on different steps
		nLong := 0
		if level == "proc" {
			nLong = 3
			if ev.Tier() == "thorough" {
				nLong = 16
			}
			if ev.NShards() > 1 {
				nLong = (nLong + ev.NShards() - 1) / ev.NShards()
			}
		}
		nShort := nScenarios
		total := nShort + nLong
		results = make([][]*peCase, total)
		done = make(chan out, total)
		for i := 0; i < total; i++ {
			go func(i int) {
				base := gen.Example(int(ev.Seed()) + i*15485863)
				if i >= nShort {
					base = rapid.Custom(genC19ScenarioN(level, 9+(i-nShort+int(ev.Seed()))%6)).Example(int(ev.Seed()) + i*15485863 + 5)
				}
				done <- out{i, enumerateFaults(t, r, test, base, int(ev.Seed())+i*32452843+17)}
			}(i)
		}
		nScenarios = total
		for i := 0; i < nScenarios; i++ {
			o := <-done
			results[o.i] = o.cs
		}
		for _, cs := range results {
			cases = append(cases, cs...)
		}
	}
	runParallel(t, r, cases, evalC19(test))
}

func TestC19_Main(t *testing.T) {
	haveBins(t, "stgutg_verif")
	runC19(t, "TestC19_Main", "main", ev.N(3, 360))
}

func TestC19_Proc(t *testing.T) {
	haveBins(t, "procdriver")
	runC19(t, "TestC19_Proc", "proc", ev.N(2, 160))
}
