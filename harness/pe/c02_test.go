package pe

// C02 — session lifecycle for N UEs: establish, service request, release, deregister.

import (
	"time"
	"strings"
	"encoding/hex"
	"fmt"
	"regexp"
	"strconv"
	"testing"

	"pgregory.net/rapid"

	"verifh/ev"
	"verifh/refamf"
)

func drawCount(t *rapid.T, label string, r int) int64 {
	switch rapid.IntRange(0, 11).Draw(t, label+"_kind") {
	case 0:
		return int64(-rapid.IntRange(1, 3).Draw(t, label+"_neg"))
	case 1:
		return 0
	case 2, 3:
		return int64(r + rapid.IntRange(1, 3).Draw(t, label+"_over"))
	case 4, 5, 6:
		return int64(r)
	}
	return int64(rapid.IntRange(0, r+3).Draw(t, label))
}

func genC02Main(maxR int) func(t *rapid.T) *peCase {
	return func(t *rapid.T) *peCase {
		r := rapid.IntRange(0, maxR).Draw(t, "R")
		if rapid.IntRange(0, 2).Draw(t, "R_ge2") != 0 && r < 2 {
			r = rapid.IntRange(2, maxR).Draw(t, "R2")
		}
		cfg := genConfig(t, cfgOpts{maxUEs: r + 1, suffixBias: true})
		cfg.Reg = int64(r)
		if rapid.IntRange(0, 14).Draw(t, "R_neg") == 0 {
			cfg.Reg = int64(-rapid.IntRange(1, 3).Draw(t, "R_negv"))
			r = 0
		}
		cfg.Pdu = drawCount(t, "E", r)
		cfg.Service = drawCount(t, "S", r)
		cfg.Release = drawCount(t, "L", r)
		cfg.Dereg = drawCount(t, "D", r)
		c := &peCase{Level: "main", Cfg: cfg}
		c.Sc = genScenario(t, cfg, r, refamf.Policy{DistinctSUPI: true})
		if e := pos(cfg.clamps().E); e >= 2 && rapid.IntRange(0, 2).Draw(t, "slow_smf_case") == 1 {
			// the SMF of one of the earlier UEs is slow: had the emulator several establishments outstanding, the
			// answers would not come back in the order of the requests
			c.Sc.UEs[rapid.IntRange(0, e-2).Draw(t, "slow_smf_ue")].SetupDelayMs = 250
		}
		return c
	}
}

var cfgLine = regexp.MustCompile(`(?m)^> (Registering UEs|PDU sessions to establish|Services to request|PDU sessions to release|Deregistering UEs): +(-?\d+)$`)

// c02NT: at least 2 UEs and 3 of the 5 procedure kinds executed, or a count larger than its prerequisite.
func c02NT(cfg emuConfig) bool {
	k := cfg.clamps()
	kinds := 0
	for _, x := range []int64{k.R, k.E, k.S, k.L, k.D} {
		if x > 0 {
			kinds++
		}
	}
	if k.R >= 2 && kinds >= 3 {
		return true
	}
	return cfg.Pdu > cfg.Reg || cfg.Service > k.E || cfg.Release > k.E || cfg.Dereg > cfg.Reg
}

func c02Classes(cfg emuConfig) []string {
	k := cfg.clamps()
	var cl []string
	add := func(name string, asked, prereq int64) {
		switch {
		case asked < 0:
			cl = append(cl, name+"<0")
		case asked > prereq:
			cl = append(cl, name+">prerequisite")
		case asked == 0:
			cl = append(cl, name+"=0")
		}
	}
	add("R", cfg.Reg, 1<<40)
	add("E", cfg.Pdu, cfg.Reg)
	add("S", cfg.Service, k.E)
	add("L", cfg.Release, k.E)
	add("D", cfg.Dereg, cfg.Reg)
	cl = append(cl, fmt.Sprintf("R=%d", k.R))
	if pos(k.L) > 0 && pos(k.D) > 0 {
		cl = append(cl, "release-then-deregister")
	}
	if pos(k.D) > 0 && pos(k.E) > pos(k.L) {
		cl = append(cl, "deregister-with-active-session")
	}
	// PDU session identity classes of the SUPI-derived identity
	suffix, _ := strconv.Atoi(cfg.InitialIMSI[len(cfg.InitialIMSI)-min(4, len(cfg.InitialIMSI)):])
	for i := 0; i < pos(k.E); i++ {
		s := (suffix + i) % 10000
		switch {
		case s > 255:
			cl = append(cl, "session-suffix>255")
		case s >= 16:
			cl = append(cl, "session-suffix-16..255")
		case s == 0:
			cl = append(cl, "session-suffix=0")
		default:
			cl = append(cl, "session-suffix-1..15")
		}
	}
	return cl
}

func evalC02Main(test string) func(c *peCase) evalResult {
	return func(c *peCase) evalResult {
		sp, err := c.spawnFor(test)
		if err != nil {
			return evalResult{V: ev.Verdict{Err: err, Key: "harness"}}
		}
		defer removeAll(sp.Dir)
		k := c.Cfg.clamps()
		res := converse(sp, c.Sc, bound(k.sleepBudget()))
		v, retry := conversationVerdict(c, res, k.expectedEvents())
		v.Classes = append(append(configClasses(c.Cfg), c02Classes(c.Cfg)...), "level:main")
		for _, cl := range scenarioClasses(c.Sc) {
			if strings.Contains(cl, "late") {
				v.Classes = append(v.Classes, cl)
			}
		}
		if res.AMF != nil {
			v.Classes = append(v.Classes, observedClasses(res.AMF)...)
		}
		v.Hash = c.hash()
		if v.Err == nil {
			// (f) the ">> Configured tests" numbers equal the clamps computed by the harness
			want := map[string]int64{"Registering UEs": k.R, "PDU sessions to establish": k.E, "Services to request": k.S, "PDU sessions to release": k.L, "Deregistering UEs": k.D}
			got := map[string]int64{}
			for _, m := range cfgLine.FindAllStringSubmatch(res.Stdout, -1) {
				n, _ := strconv.ParseInt(m[2], 10, 64)
				got[m[1]] = n
			}
			for name, w := range want {
				g, ok := got[name]
				if !ok || g != w {
					c.attach(res)
					v.Err, v.Key = fmt.Errorf("banner %q shows %d (present=%v), the clamp computed from the configuration is %d", name, g, ok, w), "banner-clamp"
				}
			}
		}
		if v.Err == nil {
			v.NT = c02NT(c.Cfg)
		}
		return evalResult{V: v, Retry: retry}
	}
}

func TestC02_Main(t *testing.T) {
	haveBins(t, "stgutg_verif")
	r := ev.New(t, "C02", "TestC02_Main")
	n := ev.N(80, 4000)
	maxR := 5
	if ev.Tier() == "thorough" {
		maxR = 10
	}
	gen := rapid.Custom(genC02Main(maxR))
	var cases []*peCase
	if ev.Replay() == "" {
		for k := 0; k < n; k++ {
			cases = append(cases, gen.Example(int(ev.Seed())+k*15485863))
		}
		if ev.Tier() == "thorough" && ev.Shard() == 0 {
			// a few long populations (up to 40 UEs) so that many UEs cross the identity boundaries
			long := rapid.Custom(genC02Main(40))
			for k := 0; k < 6; k++ {
				cases = append(cases, long.Example(int(ev.Seed())+k*32452843+1))
			}
		}
	}
	runParallel(t, r, cases, evalC02Main("TestC02_Main"))
}

// ----------------------------------------------------------------------------------
// L-proc: EstablishPDU's return values (main discards them in test mode)

func genC02Proc(t *rapid.T) *peCase {
	n := rapid.IntRange(1, 6).Draw(t, "n_ues")
	cfg := genConfig(t, cfgOpts{maxUEs: n + 1, suffixBias: true})
	k := clamps{R: int64(n), E: int64(rapid.IntRange(1, n).Draw(t, "E"))}
	if rapid.IntRange(0, 4).Draw(t, "with_later") == 0 {
		// occasionally the sleeping procedures too (≈1 s each)
		k.S = int64(rapid.IntRange(0, 1).Draw(t, "S"))
		k.L = int64(rapid.IntRange(0, 1).Draw(t, "L"))
		k.D = int64(rapid.IntRange(0, 1).Draw(t, "D"))
	}
	cfg.Reg, cfg.Pdu, cfg.Service, cfg.Release, cfg.Dereg = k.R, k.E, k.S, k.L, k.D
	c := &peCase{Level: "proc", Cfg: cfg, Script: cfg.procScript(k)}
	c.Sc = genScenario(t, cfg, n, refamf.Policy{DistinctSUPI: true})
	return c
}

func evalC02Proc(c *peCase) evalResult {
	sp, err := c.spawnFor("TestC02_Proc")
	if err != nil {
		return evalResult{V: ev.Verdict{Err: err, Key: "harness"}}
	}
	defer removeAll(sp.Dir)
	k := c.Cfg.clamps()
	// a quarter of a second per scripted operation on top of the fixed sleeps: populations of hundreds of UEs take their
	// time on a busy machine, and a budget that is hit means "inconclusive", never a violation
	res := converse(sp, c.Sc, bound(procSleepBudget(c.Script))+time.Duration(len(c.Script))*250*time.Millisecond)
	v, retry := conversationVerdict(c, res, k.expectedEvents())
	v.Classes = append(append(configClasses(c.Cfg), c02Classes(c.Cfg)...), "level:proc")
	v.Hash = c.hash()
	if v.Err != nil {
		return evalResult{V: v, Retry: retry}
	}
	v.NT = k.R >= 2
	// (e) EstablishPDU returns exactly what the SMF encoded
	seen := 0
	for _, l := range res.ProcLines {
		if l["op"] != "establish" {
			continue
		}
		seen++
		i := int(l["i"].(float64))
		ch := c.Sc.UEs[i]
		wantIP, wantUPF := ipHex(ch.UEIP), ipHex(ch.UPFIP)
		gotIP, _ := l["ip"].(string)
		gotUPF, _ := l["upf"].(string)
		gotTEID := uint32(l["teid"].(float64))
		if gotIP != wantIP || gotUPF != wantUPF || gotTEID != ch.TEID {
			c.attach(res)
			key := "establish-return"
			switch {
			case gotIP != wantIP:
				key += ":ue-ip"
			case gotTEID != ch.TEID:
				key += ":teid"
			default:
				key += ":upf-ip"
			}
			v.Err, v.Key = fmt.Errorf("EstablishPDU for UE %d returned (ip %s, teid %#x, upf %s), the network assigned (ip %s = %s, teid %#x, upf %s = %s)", i, gotIP, gotTEID, gotUPF, ch.UEIP, wantIP, ch.TEID, ch.UPFIP, wantUPF), key
			return evalResult{V: v}
		}
	}
	if seen != pos(k.E) {
		c.attach(res)
		v.Err, v.Key = fmt.Errorf("%d EstablishPDU results for %d establishments", seen, pos(k.E)), "proc-no-return"
	}
	return evalResult{V: v}
}

func ipHex(s string) string {
	var a, b, c, d int
	fmt.Sscanf(s, "%d.%d.%d.%d", &a, &b, &c, &d)
	return hex.EncodeToString([]byte{byte(a), byte(b), byte(c), byte(d)})
}

func TestC02_Proc(t *testing.T) {
	haveBins(t, "procdriver")
	r := ev.New(t, "C02", "TestC02_Proc")
	ev.Run(t, r, genC02Proc, retryOnce(evalC02Proc))
}


// ----------------------------------------------------------------------------------
// The network refuses a session. A conformant SMF may reject a PDU session (5GSM cause #26), and an AMF may return
// the request unforwarded (5GMM cause #22 with a back-off timer). Whatever the emulator then does — it may stop —
// it must not go on to request service or a release for the UE that has no session, and it must not put the same
// protected NAS message (the same NAS COUNT) on the wire twice. Exit status and completeness of the run are not
// judged here; only what the AMF sees.

func genC02Refusal(t *rapid.T) *peCase {
	r := rapid.IntRange(1, 3).Draw(t, "R")
	cfg := genConfig(t, cfgOpts{maxUEs: r + 1, suffixBias: true})
	cfg.Reg, cfg.Pdu = int64(r), int64(r)
	cfg.Service = int64(rapid.IntRange(0, r).Draw(t, "S"))
	cfg.Release = int64(rapid.IntRange(0, r).Draw(t, "L"))
	cfg.Dereg = int64(rapid.IntRange(0, r).Draw(t, "D"))
	if rapid.Bool().Draw(t, "all") {
		cfg.Service, cfg.Release, cfg.Dereg = int64(r), int64(r), int64(r)
	}
	c := &peCase{Level: "main", Cfg: cfg}
	c.Sc = genScenario(t, cfg, r, refamf.Policy{DistinctSUPI: true})
	victim := rapid.IntRange(0, r-1).Draw(t, "refused_ue")
	c.Sc.UEs[victim].Refuse = rapid.SampledFrom([]string{"reject", "congestion"}).Draw(t, "refusal")
	return c
}

func evalC02Refusal(c *peCase) evalResult {
	sp, err := c.spawnFor("TestC02_Refusal")
	if err != nil {
		return evalResult{V: ev.Verdict{Err: err, Key: "harness"}}
	}
	defer removeAll(sp.Dir)
	k := c.Cfg.clamps()
	res := converse(sp, c.Sc, bound(k.sleepBudget()))
	v := ev.Verdict{Hash: c.hash(), NT: true, Classes: append(configClasses(c.Cfg), "level:main")}
	for i, u := range c.Sc.UEs {
		if u.Refuse != "" {
			v.Classes = append(v.Classes, "refusal:"+u.Refuse, fmt.Sprintf("refused-ue=%d-of-%d", i, len(c.Sc.UEs)))
		}
	}
	if res.StartErr != nil {
		return evalResult{V: ev.Verdict{Err: fmt.Errorf("harness: %v", res.StartErr), Key: "harness"}}
	}
	a := res.AMF
	if a.Violation != nil {
		c.attach(res)
		v.Err, v.Key = fmt.Errorf("reference AMF: %s\n%s", a.Violation.Msg, describe(res)), a.Violation.Key
		return evalResult{V: v}
	}
	if cv := a.CountReuse(); cv != nil {
		c.attach(res)
		v.Err, v.Key = cv, cv.Key
		return evalResult{V: v}
	}
	if res.TimedOut {
		c.attach(res)
		v.Err, v.Key = fmt.Errorf("the emulator neither finished nor stopped within %v after the network refused a session\n%s", res.Elapsed, describe(res)), "stall"
		return evalResult{V: v, Retry: true}
	}
	v.Classes = append(v.Classes, fmt.Sprintf("after-refusal:exit=%d", res.ExitCode))
	return evalResult{V: v}
}

func TestC02_Refusal(t *testing.T) {
	haveBins(t, "stgutg_verif")
	r := ev.New(t, "C02", "TestC02_Refusal")
	n := ev.N(24, 1200)
	gen := rapid.Custom(genC02Refusal)
	var cases []*peCase
	if ev.Replay() == "" {
		for k := 0; k < n; k++ {
			cases = append(cases, gen.Example(int(ev.Seed())+k*49979687))
		}
	}
	runParallel(t, r, cases, evalC02Refusal)
}

// ----------------------------------------------------------------------------------
// Large populations: "for any number of UEs". More than 255 UE-requested 5GSM transactions in one run, so that
// anything the emulator keeps per process and puts into a one-octet field (a procedure transaction identity, a
// PDU session identity, a counter) has to wrap inside the run; the RAN-UE-NGAP-IDs and the SUPI-derived
// identities of the population cross the 256 boundary as well. Procedure level (no pauses between the UEs);
// in the thorough tier one population also goes through the real main.

func genC02Many(level string) func(t *rapid.T) *peCase {
	return func(t *rapid.T) *peCase {
		n := rapid.IntRange(256, 300).Draw(t, "n_ues")
		cfg := genConfig(t, cfgOpts{maxUEs: n + 1, suffixBias: rapid.Bool().Draw(t, "suffix_bias")})
		k := clamps{R: int64(n), E: int64(n)}
		if level == "proc" {
			// the pausing procedures for the first few UEs only (about a second each)
			k.L = int64(rapid.IntRange(0, 2).Draw(t, "L"))
			k.D = int64(rapid.IntRange(0, 2).Draw(t, "D"))
		}
		cfg.Reg, cfg.Pdu, cfg.Service, cfg.Release, cfg.Dereg = k.R, k.E, k.S, k.L, k.D
		c := &peCase{Level: level, Cfg: cfg}
		if level == "proc" {
			c.Script = cfg.procScript(k)
		}
		c.Sc = genScenario(t, cfg, n, refamf.Policy{DistinctSUPI: true})
		for i := range c.Sc.UEs {
			// nothing is sent late here: the population is the point, and 300 UEs with pauses take minutes
			c.Sc.UEs[i].CUCDelayMs, c.Sc.UEs[i].SetupDelayMs = 0, 0
		}
		return c
	}
}

func TestC02_Many(t *testing.T) {
	haveBins(t, "procdriver")
	r := ev.New(t, "C02", "TestC02_Many")
	var cases []*peCase
	if ev.Replay() == "" {
		n := 1
		if ev.Tier() == "thorough" {
			n = 6
		}
		gen := rapid.Custom(genC02Many("proc"))
		for k := 0; k < n; k++ {
			cases = append(cases, gen.Example(int(ev.Seed())+k*86028121+int(ev.Shard())*7))
		}
		if ev.Tier() == "thorough" && ev.Shard() == 0 {
			cases = append(cases, rapid.Custom(genC02Many("main")).Example(int(ev.Seed())+5))
		}
	}
	runParallel(t, r, cases, func(c *peCase) evalResult {
		var res evalResult
		if c.Level == "main" {
			res = evalC02Main("TestC02_Many")(c)
		} else {
			res = evalC02Proc(c)
		}
		res.V.Classes = append(res.V.Classes, "population>255")
		return res
	})
}
