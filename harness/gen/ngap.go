// Package gen holds the shared rapid generators. ngap.go: reflection-driven construction of
// constraint-satisfying values of any ngapType type from its `aper` struct tags.
package gen

import (
	"fmt"
	"reflect"
	"strconv"
	"strings"
	"sync"

	"free5gclib/ngap/ngapType"

	"pgregory.net/rapid"
)

// P is the harness's own reading of an `aper:"…"` tag (independent of the library's parser).
type P struct {
	Opt, SizeExt, ValExt, OpenType bool
	SLB, SUB, VLB, VUB, RefVal     *int64
	RefName                        string
}

func ParseTag(s string) (p P) {
	num := func(x string) *int64 {
		v, err := strconv.ParseInt(x, 10, 64)
		if err != nil {
			return nil
		}
		return &v
	}
	for _, part := range strings.Split(s, ",") {
		kv := strings.SplitN(part, ":", 2)
		if len(kv) == 1 {
			kv = append(kv, "")
		}
		switch kv[0] {
		case "optional":
			p.Opt = true
		case "sizeExt":
			p.SizeExt = true
		case "valueExt":
			p.ValExt = true
		case "openType":
			p.OpenType = true
		case "sizeLB":
			p.SLB = num(kv[1])
		case "sizeUB":
			p.SUB = num(kv[1])
		case "valueLB":
			p.VLB = num(kv[1])
		case "valueUB":
			p.VUB = num(kv[1])
		case "referenceFieldName":
			p.RefName = kv[1]
		case "referenceFieldValue":
			p.RefVal = num(kv[1])
		}
	}
	return
}

// StripSize removes the size parts of a tag (what a SEQUENCE OF passes on to its elements).
func StripSize(tag string) string {
	var out []string
	for _, p := range strings.Split(tag, ",") {
		if strings.HasPrefix(p, "size") || p == "" {
			continue
		}
		out = append(out, p)
	}
	return strings.Join(out, ",")
}

const (
	TBitString = "aper.BitString"
	TOctet     = "aper.OctetString"
	TEnum      = "aper.Enumerated"
)

var (
	buildMu  sync.Mutex
	buildMem = map[reflect.Type]int{}
)

// Buildable: can a value of this type be encoded at all? A union with zero alternatives
// (the many …ExtIEsValue), a zero-field struct (ProtocolIESingleContainer…ExtIEs) and
// anything that mandatorily contains one of them has no legal encoding.
func Buildable(t reflect.Type) bool {
	buildMu.Lock()
	defer buildMu.Unlock()
	return buildable(t)
}
func buildable(t reflect.Type) bool {
	if v, ok := buildMem[t]; ok {
		return v == 1
	}
	buildMem[t] = 2 // break cycles pessimistically
	ok := buildable0(t)
	if ok {
		buildMem[t] = 1
	}
	return ok
}
func buildable0(t reflect.Type) bool {
	switch t.Kind() {
	case reflect.Ptr:
		return buildable(t.Elem())
	case reflect.Slice:
		if t.String() == "aper.ObjectIdentifier" {
			return false // OBJECT IDENTIFIER is not supported by the library (documented), outside the claims
		}
		if t.Elem().Kind() == reflect.Uint8 {
			return true
		}
		return buildable(t.Elem())
	case reflect.Struct:
		if t.String() == TBitString {
			return true
		}
		if t.NumField() == 0 {
			return false
		}
		if t.Field(0).Name == "Present" {
			for i := 1; i < t.NumField(); i++ {
				if buildable(t.Field(i).Type) {
					return true
				}
			}
			return false
		}
		for i := 0; i < t.NumField(); i++ {
			fp := ParseTag(t.Field(i).Tag.Get("aper"))
			if fp.Opt {
				continue
			}
			ft := t.Field(i).Type
			if ft.Kind() == reflect.Slice && ft.Elem().Kind() != reflect.Uint8 && !buildable(ft.Elem()) {
				// a list of unbuildable elements is still buildable as the empty list if SIZE allows 0
				if fp.SLB == nil || *fp.SLB == 0 {
					continue
				}
				return false
			}
			if !buildable(ft) {
				return false
			}
		}
		return true
	}
	return true
}

// Opts steer the size of generated values.
type Opts struct {
	Budget     int  // remaining node budget; when exhausted only minimal shapes are produced
	BigLists   bool // allow 127/128/255/256/300-element lists
	MinList    int  // if > 0: lists nested inside information elements have at least this many elements
	BigString  int  // upper cap for unconstrained / large strings (octets)
	NoOptional bool
	Force      int64 // fragmentation sweep: give one string this length
}

type G struct {
	T       *rapid.T
	O       Opts
	budget  int
	forced  bool
	extSize bool // the string being sized has an extensible size constraint
	// statistics
	DirtyBits             int // BIT STRINGs whose unused trailing bits are not zero
	Shared                int // list elements that are copies of their predecessor: the pointers inside are shared (a DAG, not a tree)
	ExtOutside            int // values generated outside the root of an extensible constraint about what was built
	OptPresent, OptAbsent int
}

func New(t *rapid.T, o Opts) *G {
	if o.Budget == 0 {
		o.Budget = 600
	}
	if o.BigString == 0 {
		o.BigString = 300
	}
	return &G{T: t, O: o, budget: o.Budget}
}

// Forced reports whether the fragmentation target length was placed somewhere.
func (g *G) Forced() bool { return g.forced }

func (g *G) intn(lo, hi int, label string) int { return rapid.IntRange(lo, hi).Draw(g.T, label) }

// size picks a size within lb..ub (has=false: unconstrained) biased to boundaries.
func (g *G) size(lb, ub int64, has bool, small int64, capv int64, label string) int64 {
	if !has {
		lb, ub = 0, 1<<30
	}
	if g.O.Force > 0 && !g.forced && g.O.Force >= lb && g.O.Force <= ub && capv >= 1000 {
		// fragmentation sweep: the first string field whose constraint admits the target length gets it
		if rapid.IntRange(0, 2).Draw(g.T, label+"F") > 0 {
			g.forced = true
			return g.O.Force
		}
	}
	if has && g.extSize && capv >= ub+20 && g.budget > 0 && g.intn(0, 11, label+"X") == 0 {
		// extensible size constraint: a size above the root is a legal value (X.691 10.9 with extension bit 1)
		g.ExtOutside++
		return ub + int64(g.intn(1, 20, label+"x"))
	}
	if g.budget <= 0 {
		return lb
	}
	hi := ub
	if hi > capv {
		hi = capv
	}
	if hi < lb {
		hi = lb
	}
	var cands []int64
	add := func(x int64) {
		if x >= lb && x <= hi {
			cands = append(cands, x)
		}
	}
	add(lb)
	add(lb)
	add(lb + 1)
	add(ub)
	add(ub - 1)
	for _, x := range []int64{0, 1, 2, 3, 15, 16, 17, 127, 128, 129, 255, 256, 257} {
		add(x)
	}
	k := g.intn(0, len(cands)+3, label)
	if k < len(cands) {
		return cands[k]
	}
	top := lb + small
	if top > hi {
		top = hi
	}
	return int64(rapid.Int64Range(lb, top).Draw(g.T, label+"u"))
}

func (g *G) intVal(p P, label string) int64 {
	if p.VLB == nil || p.VUB == nil {
		if p.VLB != nil {
			return *p.VLB + int64(rapid.Int64Range(0, 1<<40).Draw(g.T, label))
		}
		return rapid.Int64Range(-(1<<40), 1<<40).Draw(g.T, label)
	}
	lb, ub := *p.VLB, *p.VUB
	if p.ValExt && ub < 1<<46 && g.intn(0, 9, label+"X") == 0 {
		// extensible INTEGER: a value above the root is legal (X.691 12.1: extension bit 1, unconstrained encoding)
		var o []int64
		for _, x := range []int64{ub + 1, ub + 2, ub + 100} {
			o = append(o, x)
		}
		for k := uint(7); k < 63; k++ {
			for _, x := range []int64{1<<k - 1, 1 << k, 1<<k + 1} {
				if x > ub {
					o = append(o, x)
				}
			}
		}
		// contents of exactly 8 octets: 2^55 .. 2^63-1 (the largest value an int64 field can hold)
		o = append(o, 1<<63-1, 1<<63-2, 1<<55, 1<<55-1)
		g.ExtOutside++
		return o[g.intn(0, len(o)-1, label+"x")]
	}
	var c []int64
	add := func(x int64) {
		if x >= lb && x <= ub {
			c = append(c, x)
		}
	}
	add(lb)
	add(ub)
	add(lb + 1)
	add(ub - 1)
	for k := uint(7); k < 48; k++ {
		add(lb + (1 << k) - 1)
		add(lb + (1 << k))
		add(lb + (1 << k) + 1)
	}
	k := g.intn(0, len(c)+len(c)/2+2, label+"k")
	if k < len(c) {
		return c[k]
	}
	return rapid.Int64Range(lb, ub).Draw(g.T, label)
}

const printable = "ABCDEFGHIJKLMNOPQRSTUVWXYZabcdefghijklmnopqrstuvwxyz0123456789 '()+,-./:=?"

func bounds(p P) (lb, ub int64, has bool) {
	if p.SLB != nil && p.SUB != nil {
		return *p.SLB, *p.SUB, true
	}
	return 0, 0, false
}

// Value builds one value of type t under tag p.
func (g *G) Value(t reflect.Type, p P, depth int) reflect.Value {
	g.budget--
	switch t.String() {
	case TBitString:
		lb, ub, has := bounds(p)
		g.extSize = p.SizeExt
		n := g.size(lb, ub, has, 40, 8*int64(g.O.BigString), "bs")
		g.extSize = false
		b := rapid.SliceOfN(rapid.Byte(), int((n+7)/8), int((n+7)/8)).Draw(g.T, "bsb")
		if n%8 != 0 {
			// the value of a BIT STRING is its first BitLength bits; callers (the emulator's own builders among
			// them) also hand over octets whose unused trailing bits are set — one case in four keeps them
			if rapid.IntRange(0, 3).Draw(g.T, "bs_dirty") != 0 || b[len(b)-1]&^(0xff<<uint(8-n%8)) == 0 {
				b[len(b)-1] &= 0xff << uint(8-n%8)
			} else {
				g.DirtyBits++
			}
		}
		if n > 0 && rapid.IntRange(0, 9).Draw(g.T, "bs_extra") == 0 {
			// more octets in Bytes than BitLength needs (a caller that cuts the string out of a longer buffer by its bit
			// length only): the octets behind the last significant one are not part of the value either
			b = append(b, rapid.SliceOfN(rapid.Byte(), 1, 3).Draw(g.T, "bs_extra_octets")...)
			g.DirtyBits++
		}
		v := reflect.New(t).Elem()
		v.Field(0).SetBytes(b)
		v.Field(1).SetUint(uint64(n))
		g.budget -= len(b) / 16
		return v
	case TOctet:
		lb, ub, has := bounds(p)
		g.extSize = p.SizeExt
		n := g.size(lb, ub, has, 12, int64(g.O.BigString), "os")
		g.extSize = false
		b := rapid.SliceOfN(rapid.Byte(), int(n), int(n)).Draw(g.T, "osb")
		v := reflect.New(t).Elem()
		if n == 0 && g.intn(0, 1, "nil_octets") == 1 {
			return v // the empty string as a nil slice
		}
		v.SetBytes(b)
		g.budget -= len(b) / 16
		return v
	case TEnum:
		v := reflect.New(t).Elem()
		if p.VLB == nil || p.VUB == nil {
			// the tag is defective (no bounds): build the first enumeration value; the
			// reference encoder reports the schema error, which the oracle turns into a finding
			_ = rapid.IntRange(0, 0).Draw(g.T, "en0")
			return v
		}
		v.SetUint(uint64(rapid.Int64Range(*p.VLB, *p.VUB).Draw(g.T, "en")))
		return v
	}
	switch t.Kind() {
	case reflect.Ptr:
		v := reflect.New(t.Elem())
		e := g.Value(t.Elem(), p, depth)
		if e.Kind() == reflect.Slice && e.IsNil() {
			// a pointer to a nil slice and a nil pointer are the same text in the JSON form of a case (null);
			// behind a pointer the empty value is always the allocated one
			e = reflect.MakeSlice(t.Elem(), 0, 0)
		}
		v.Elem().Set(e)
		return v
	case reflect.Bool:
		v := reflect.New(t).Elem()
		v.SetBool(rapid.Bool().Draw(g.T, "b"))
		return v
	case reflect.Int, reflect.Int32, reflect.Int64:
		v := reflect.New(t).Elem()
		v.SetInt(g.intVal(p, "i"))
		return v
	case reflect.String:
		lb, ub, has := bounds(p)
		g.extSize = p.SizeExt
		n := g.size(lb, ub, has, 20, int64(g.O.BigString), "st")
		g.extSize = false
		idx := rapid.SliceOfN(rapid.IntRange(0, len(printable)-1), int(n), int(n)).Draw(g.T, "stb")
		b := make([]byte, n)
		for i := range b {
			b[i] = printable[idx[i]]
		}
		v := reflect.New(t).Elem()
		v.SetString(string(b))
		return v
	case reflect.Slice:
		lb, ub, has := bounds(p)
		if !has {
			lb, ub = 0, 1<<20
		}
		n := lb
		if !Buildable(t.Elem()) {
			if lb != 0 {
				panic("generator asked for a non-empty list of unbuildable elements " + t.String())
			}
			return reflect.MakeSlice(t, 0, 0)
		}
		if g.budget > 0 {
			small := int64(2)
			if depth <= 4 {
				small = 4 // IE containers: more than a couple of IEs per message
			}
			if depth > 6 {
				small = 0
			}
			hi := lb + small
			if hi > ub {
				hi = ub
			}
			n = rapid.Int64Range(lb, hi).Draw(g.T, "ln")
			if g.O.MinList > 0 && depth > 4 {
				// list-heavy values: every list below the IE container has at least MinList elements (if its bound allows)
				if m := int64(g.O.MinList); n < m {
					n = m
					if n > ub {
						n = ub
					}
				}
			}
			if g.O.BigLists && g.budget > 100 && depth <= 8 && g.intn(0, 11, "lbig") == 0 {
				var c []int64
				for _, x := range []int64{127, 128, 129, 255, 256, 257, 300, 1023, 1024, 1025, 1500, 2048, 2049, ub} {
					if x >= lb && x <= ub && (x <= 300 || x <= 2049 && g.O.Budget >= 5000) {
						c = append(c, x)
					}
				}
				if len(c) > 0 {
					n = c[g.intn(0, len(c)-1, "lbigk")]
					g.budget = 0 // elements of a big list are minimal
				}
			}
		}
		ep := p
		ep.SLB, ep.SUB, ep.SizeExt = nil, nil, false
		if n == 0 && g.intn(0, 1, "nil_list") == 1 {
			// the empty list as most Go code writes it: a nil slice (the zero value of the field), not an allocated one
			return reflect.Zero(t)
		}
		v := reflect.MakeSlice(t, int(n), int(n))
		for i := 0; i < int(n); i++ {
			if i > 0 && n <= 64 && t.Elem().Kind() == reflect.Struct && g.intn(0, 9, "share") == 4 {
				// the same element again - as a value copy, so every pointer inside it is SHARED with its predecessor
				// (slices filled in a loop from one object): the same abstract value as two separate copies
				v.Index(i).Set(v.Index(i - 1))
				g.Shared++
				continue
			}
			v.Index(i).Set(g.Value(t.Elem(), ep, depth+1))
		}
		return v
	case reflect.Struct:
		v := reflect.New(t).Elem()
		if t.NumField() > 0 && t.Field(0).Name == "Present" {
			var alts []int
			for i := 1; i < t.NumField(); i++ {
				if Buildable(t.Field(i).Type) {
					alts = append(alts, i)
				}
			}
			if len(alts) == 0 {
				panic("generator asked to build an unbuildable union " + t.String())
			}
			j := alts[g.intn(0, len(alts)-1, "alt")]
			v.Field(0).SetInt(int64(j))
			v.Field(j).Set(g.Value(t.Field(j).Type, ParseTag(t.Field(j).Tag.Get("aper")), depth+1))
			return v
		}
		for i := 0; i < t.NumField(); i++ {
			fp := ParseTag(t.Field(i).Tag.Get("aper"))
			if fp.Opt {
				if !Buildable(t.Field(i).Type) {
					continue
				}
				if g.O.NoOptional || g.budget <= 0 || g.intn(0, 1+depth/3, "opt") != 0 {
					g.OptAbsent++
					continue
				}
				g.OptPresent++
			}
			fv := g.Value(t.Field(i).Type, fp, depth+1)
			v.Field(i).Set(fv)
			if fp.OpenType {
				SetOpenTypeRef(v, fv, fp)
			}
		}
		return v
	}
	panic("generator: unsupported kind " + t.String())
}

// SetOpenTypeRef sets the sibling identifier (Id / ProcedureCode) of an open-type field to
// the reference value of the alternative chosen in it.
func SetOpenTypeRef(parent, fv reflect.Value, fp P) {
	u := fv
	for u.Kind() == reflect.Ptr {
		u = u.Elem()
	}
	j := int(u.Field(0).Int())
	ap := ParseTag(u.Type().Field(j).Tag.Get("aper"))
	sib := parent.FieldByName(fp.RefName)
	for sib.Kind() == reflect.Struct {
		sib = sib.Field(0)
	}
	if ap.RefVal == nil {
		panic(fmt.Sprintf("schema: open type alternative %s.%s without referenceFieldValue", u.Type(), u.Type().Field(j).Name))
	}
	sib.SetInt(*ap.RefVal)
}

// ---------------------------------------------------------------------------------------
// Entry points

type Entry struct {
	Name string
	Type reflect.Type
	Tag  string
}

const PDUTag = "valueExt,valueLB:0,valueUB:2"

var containerTypes = []interface{}{
	ngapType.HandoverCommandTransfer{}, ngapType.HandoverPreparationUnsuccessfulTransfer{}, ngapType.HandoverRequestAcknowledgeTransfer{},
	ngapType.HandoverRequiredTransfer{}, ngapType.HandoverResourceAllocationUnsuccessfulTransfer{},
	ngapType.PDUSessionResourceModifyConfirmTransfer{}, ngapType.PDUSessionResourceModifyIndicationTransfer{},
	ngapType.PDUSessionResourceModifyIndicationUnsuccessfulTransfer{}, ngapType.PDUSessionResourceModifyRequestTransfer{},
	ngapType.PDUSessionResourceModifyResponseTransfer{}, ngapType.PDUSessionResourceModifyUnsuccessfulTransfer{},
	ngapType.PDUSessionResourceNotifyReleasedTransfer{}, ngapType.PDUSessionResourceNotifyTransfer{},
	ngapType.PDUSessionResourceReleaseCommandTransfer{}, ngapType.PDUSessionResourceReleaseResponseTransfer{},
	ngapType.PDUSessionResourceSetupRequestTransfer{}, ngapType.PDUSessionResourceSetupResponseTransfer{},
	ngapType.PDUSessionResourceSetupUnsuccessfulTransfer{}, ngapType.PathSwitchRequestAcknowledgeTransfer{},
	ngapType.PathSwitchRequestSetupFailedTransfer{}, ngapType.PathSwitchRequestTransfer{}, ngapType.PathSwitchRequestUnsuccessfulTransfer{},
	ngapType.SourceNGRANNodeToTargetNGRANNodeTransparentContainer{}, ngapType.TargetNGRANNodeToSourceNGRANNodeTransparentContainer{},
}

// Containers are the transfer / transparent-container types that are marshalled on their own
// (with tag "valueExt", as tglib/ngapTestpacket does).
func Containers() []Entry {
	var out []Entry
	for _, c := range containerTypes {
		t := reflect.TypeOf(c)
		out = append(out, Entry{Name: t.Name(), Type: t, Tag: "valueExt"})
	}
	return out
}

// Message identifies one of the NGAP messages: class 1..3 (initiating, successful,
// unsuccessful) and the alternative index inside the class's value union.
type Message struct {
	Class int
	Alt   int
	Name  string
}

var (
	msgOnce sync.Once
	msgs    []Message
)

// Messages lists all messages reachable from NGAP-PDU (read off the three …Value unions).
func Messages() []Message {
	msgOnce.Do(func() {
		pt := reflect.TypeOf(ngapType.NGAPPDU{})
		for c := 1; c <= 3; c++ {
			vt := pt.Field(c).Type.Elem()
			f, _ := vt.FieldByName("Value")
			ut := f.Type
			for j := 1; j < ut.NumField(); j++ {
				if Buildable(ut.Field(j).Type) {
					msgs = append(msgs, Message{Class: c, Alt: j, Name: ut.Field(j).Name})
				}
			}
		}
	})
	return msgs
}

// PDU builds an NGAP-PDU carrying message m.
func (g *G) PDU(m Message) ngapType.NGAPPDU {
	pt := reflect.TypeOf(ngapType.NGAPPDU{})
	v := reflect.New(pt).Elem()
	v.Field(0).SetInt(int64(m.Class))
	wt := pt.Field(m.Class).Type.Elem() // InitiatingMessage etc.
	w := reflect.New(wt)
	we := w.Elem()
	// ProcedureCode is set from the alternative; Criticality drawn
	for i := 0; i < wt.NumField(); i++ {
		f := wt.Field(i)
		fp := ParseTag(f.Tag.Get("aper"))
		switch f.Name {
		case "ProcedureCode":
		case "Value":
			ut := f.Type
			u := reflect.New(ut).Elem()
			u.Field(0).SetInt(int64(m.Alt))
			u.Field(m.Alt).Set(g.Value(ut.Field(m.Alt).Type, ParseTag(ut.Field(m.Alt).Tag.Get("aper")), 2))
			we.Field(i).Set(u)
			SetOpenTypeRef(we, u, fp)
		default:
			we.Field(i).Set(g.Value(f.Type, fp, 1))
		}
	}
	v.Field(m.Class).Set(w)
	return v.Interface().(ngapType.NGAPPDU)
}
