package gen

import (
	"pgregory.net/rapid"
)

var hostile = []byte{0x00, 0x01, 0x7F, 0x80, 0x81, 0xBF, 0xC0, 0xC1, 0xC2, 0xC3, 0xC4, 0xC5, 0xFE, 0xFF}

// Edit is one byte-level edit; a mutation is a short list of edits applied in order.
type Edit struct {
	Op  string `json:"op"` // trunc flip set ins del dup run
	Pos int    `json:"pos"`
	Val int    `json:"val"`
	N   int    `json:"n,omitempty"` // run: number of copies of Val inserted
}

// Mutation draws 1..max edits for an input of length n.
func Mutation(t *rapid.T, n int, max int) []Edit {
	k := rapid.IntRange(1, max).Draw(t, "nedits")
	var out []Edit
	for i := 0; i < k; i++ {
		op := rapid.SampledFrom([]string{"trunc", "flip", "flip", "set", "set", "set", "ins", "del", "dup", "run"}).Draw(t, "op")
		e := Edit{Op: op}
		if n > 0 {
			e.Pos = rapid.IntRange(0, n-1).Draw(t, "pos")
		}
		switch op {
		case "flip":
			e.Val = rapid.IntRange(0, 7).Draw(t, "bit")
		case "set", "ins":
			if rapid.Bool().Draw(t, "hostile") {
				e.Val = int(hostile[rapid.IntRange(0, len(hostile)-1).Draw(t, "h")])
			} else {
				e.Val = rapid.IntRange(0, 255).Draw(t, "v")
			}
		case "dup":
			e.Val = rapid.IntRange(1, 16).Draw(t, "len")
		case "run":
			// a run of identical hostile octets (e.g. repeated 16K-fragment headers c1..c4, ff, 80)
			e.Val = int(hostile[rapid.IntRange(0, len(hostile)-1).Draw(t, "h")])
			e.N = rapid.IntRange(2, 64).Draw(t, "runlen")
		}
		out = append(out, e)
	}
	return out
}

// Apply applies edits to a copy of b.
func Apply(b []byte, edits []Edit) []byte {
	out := append([]byte{}, b...)
	for _, e := range edits {
		n := len(out)
		if n == 0 {
			if e.Op == "ins" {
				out = append(out, byte(e.Val))
			}
			continue
		}
		p := e.Pos % n
		switch e.Op {
		case "trunc":
			out = out[:p]
		case "flip":
			out[p] ^= 1 << uint(e.Val&7)
		case "set":
			out[p] = byte(e.Val)
		case "ins":
			out = append(out[:p], append([]byte{byte(e.Val)}, out[p:]...)...)
		case "del":
			out = append(out[:p], out[p+1:]...)
		case "run":
			run := make([]byte, e.N)
			for i := range run {
				run[i] = byte(e.Val)
			}
			out = append(out[:p], append(run, out[p:]...)...)
		case "dup":
			q := p + e.Val
			if q > n {
				q = n
			}
			seg := append([]byte{}, out[p:q]...)
			out = append(out[:q], append(seg, out[q:]...)...)
		}
	}
	return out
}

// SpecialIPv4 draws an IPv4 address from the special-purpose blocks of the IANA registry (RFC 6890): an address is an
// address, whatever block it lies in — this host, private, shared (CGN), loopback, link-local, documentation, 6to4 relay,
// benchmarking, multicast, reserved, limited broadcast — including the first and last address of each block and its
// neighbours outside.
func SpecialIPv4(t *rapid.T, label string) []byte {
	blocks := [][2]uint32{{0x00000000, 8}, {0x0a000000, 8}, {0x64400000, 10}, {0x7f000000, 8}, {0xa9fe0000, 16}, {0xac100000, 12},
		{0xc0000000, 24}, {0xc0000200, 24}, {0xc0586300, 24}, {0xc0a80000, 16}, {0xc6120000, 15}, {0xc6336400, 24}, {0xcb007100, 24},
		{0xe0000000, 4}, {0xf0000000, 4}, {0xffffffff, 32}}
	b := blocks[rapid.IntRange(0, len(blocks)-1).Draw(t, label+"_block")]
	size := uint32(1) << (32 - b[1])
	var a uint32
	switch rapid.IntRange(0, 4).Draw(t, label+"_where") {
	case 0:
		a = b[0]
	case 1:
		a = b[0] + size - 1
	case 2:
		a = b[0] - 1
	case 3:
		a = b[0] + size
	default:
		a = b[0] + uint32(rapid.Uint32Range(0, size-1).Draw(t, label+"_in"))
	}
	return []byte{byte(a >> 24), byte(a >> 16), byte(a >> 8), byte(a)}
}
