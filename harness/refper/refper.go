// Package refper: independent X.691 ALIGNED PER encoder driven by the ngapType struct conventions.
package refper

import (
	"fmt"
	"reflect"
	"strconv"
	"strings"
)

type W struct {
	buf   []byte
	nbits int
	// statistics
	Unaligned int // bit fields written without alignment
	Aligns    int // alignments that actually inserted padding bits
	MaxLen    int // largest general length determinant written
	BigRange  int // constrained whole numbers with range > 64K
	MaxList   int // longest SEQUENCE OF
	OptBits   int // OPTIONAL fields present
	OpenDepth int // deepest nesting of open types
	// OutsideRoot: values written through the extension of an extensible constraint (a size or a number outside
	// the root): encodable, but not values of this version of the specification
	OutsideRoot int
	depth     int
	// fault injection (C14): the Fault.At-th structural field written is altered
	Fault *Fault
	Opps  int // structural fields written so far (extension bits, lengths, counts, indices, bitmaps, numbers)
}

// Fault makes the encoder produce a deliberately NON-conformant encoding: the At-th
// structural field (extension bit, length determinant, count, CHOICE index, optional
// bitmap bit, constrained number) is altered according to Variant; the content that
// follows is written as for the valid value.
type Fault struct {
	At      int
	Variant int
	Hit     string // what was altered (filled in by the encoder)
}

// put writes an n-bit structural field, altered if the fault is due here.
func (w *W) put(kind string, v uint64, n int) {
	w.Opps++
	if w.Fault != nil && w.Fault.At == w.Opps-1 && n > 0 {
		mask := uint64(1)<<uint(n) - 1
		if n >= 64 {
			mask = ^uint64(0)
		}
		orig := v
		switch w.Fault.Variant % 5 {
		case 0:
			v ^= 1
		case 1:
			v = mask
		case 2:
			v = 0
		case 3:
			v = (v + 1) & mask
		case 4:
			v ^= 1 << uint(n-1)
		}
		if v == orig {
			v = (orig ^ 1) & mask
		}
		if kind == "len" && w.Fault.Variant >= 15 && w.Fault.Variant < 20 {
			// a general length replaced by a run of 16K-fragment headers closed by a zero length:
			// "the list/string has k x 64K elements" claimed in k+1 octets
			k := 2 + (w.Fault.Variant-15)*9
			for i := 0; i < k; i++ {
				w.Bits(0xC4, 8)
			}
			w.Bits(0, 8)
			w.Fault.Hit = fmt.Sprintf("len/fragment-run:%dxC4", k)
			return
		}
		w.Fault.Hit = fmt.Sprintf("%s/%dbits:%d->%d", kind, n, orig, v)
		w.Bits(v, n)
		if kind == "ext-int" && v == 1 {
			// an INTEGER claimed to be outside its root: follow with a hostile length octet — and, for the last
			// three kinds, with that many content octets really present (the enclosing open-type and message
			// lengths are computed after this, so they agree with it)
			w.Align()
			h := w.Fault.Variant / 5 % 8
			ln := []uint64{0, 9, 0x80, 0xFF, 1, 17, 32, 127}[h]
			w.Bits(ln, 8)
			w.Fault.Hit += "+len"
			if h >= 5 {
				for i := uint64(0); i < ln; i++ {
					w.Bits(0x5a+i, 8)
				}
				w.Fault.Hit += fmt.Sprintf("+%d-content-octets", ln)
			}
		}
		return
	}
	w.Bits(v, n)
}

func (w *W) Bit(b uint64) {
	if w.nbits%8 == 0 {
		w.buf = append(w.buf, 0)
	}
	if b&1 == 1 {
		w.buf[len(w.buf)-1] |= 1 << uint(7-w.nbits%8)
	}
	w.nbits++
}
func (w *W) Bits(v uint64, n int) {
	for i := n - 1; i >= 0; i-- {
		w.Bit(v >> uint(i))
	}
}
func (w *W) Align() {
	if w.nbits%8 != 0 {
		w.Aligns++
	}
	for w.nbits%8 != 0 {
		w.Bit(0)
	}
}
func (w *W) Octets(b []byte) {
	for _, x := range b {
		w.Bits(uint64(x), 8)
	}
}
func (w *W) Bytes() []byte { return w.buf }

type P struct {
	opt, sizeExt, valExt, openType bool
	sLB, sUB, vLB, vUB, refVal     *int64
	refName                        string
}

func parseTag(s string) (p P) {
	num := func(x string) *int64 {
		v, err := strconv.ParseInt(x, 10, 64)
		if err != nil {
			return nil
		}
		return &v
	}
	for _, part := range strings.Split(s, ",") {
		kv := strings.SplitN(part, ":", 2)
		switch kv[0] {
		case "optional":
			p.opt = true
		case "sizeExt":
			p.sizeExt = true
		case "valueExt":
			p.valExt = true
		case "openType":
			p.openType = true
		case "sizeLB":
			p.sLB = num(kv[1])
		case "sizeUB":
			p.sUB = num(kv[1])
		case "valueLB":
			p.vLB = num(kv[1])
		case "valueUB":
			p.vUB = num(kv[1])
		case "referenceFieldName":
			p.refName = kv[1]
		case "referenceFieldValue":
			p.refVal = num(kv[1])
		}
	}
	return
}

func bitsFor(rangeMinus1 uint64) int { // bits needed to represent 0..rangeMinus1
	n := 0
	for rangeMinus1 > 0 {
		n++
		rangeMinus1 >>= 1
	}
	return n
}
func octetsFor(v uint64) int {
	n := 1
	for v > 0xff {
		n++
		v >>= 8
	}
	return n
}

// X.691 10.5 constrained whole number (aligned variant)
func (w *W) Constrained(n, lb, ub int64) error {
	if n < lb || n > ub {
		return fmt.Errorf("value %d outside %d..%d", n, lb, ub)
	}
	r := uint64(ub-lb) + 1 // range; ub-lb < 2^63 here
	v := uint64(n - lb)
	switch {
	case r == 1:
		return nil
	case r <= 255:
		w.Unaligned++
		w.put("num", v, bitsFor(r-1))
	case r == 256:
		w.Align()
		w.put("num", v, 8)
	case r <= 65536:
		w.Align()
		w.put("num", v, 16)
	default:
		w.BigRange++
		maxOct := octetsFor(r - 1)
		k := octetsFor(v)
		// length k as constrained whole number in 1..maxOct, as a bit-field
		if err := w.constrainedBitField(int64(k), 1, int64(maxOct)); err != nil {
			return err
		}
		w.Align()
		w.Bits(v, 8*k)
	}
	return nil
}
func (w *W) constrainedBitField(n, lb, ub int64) error {
	r := uint64(ub-lb) + 1
	if r == 1 {
		return nil
	}
	w.Unaligned++
	w.put("idx", uint64(n-lb), bitsFor(r-1))
	return nil
}

// X.691 10.9.3.5-8 general length determinant; returns how many units the caller may now write (fragmentation)
func (w *W) GeneralLength(n int) (now int, more bool) {
	w.Align()
	if n > w.MaxLen {
		w.MaxLen = n
	}
	switch {
	case n <= 127:
		w.put("len", uint64(n), 8)
		return n, false
	case n < 16384:
		w.put("len", 0x8000|uint64(n), 16)
		return n, false
	default:
		m := n / 16384
		if m > 4 {
			m = 4
		}
		w.Bits(0xC0|uint64(m), 8)
		return m * 16384, true
	}
}

// length determinant for a size with constraint lb..ub (ub<0 means unbounded)
// emits items via cb(from,to) in fragments
func (w *W) Sized(n int, lb, ub int64, ext bool, hasBounds bool, emit func(from, to int)) error {
	constrained := hasBounds && ub < 65536
	if ext {
		if hasBounds && int64(n) >= lb && int64(n) <= ub {
			w.put("ext-size", 0, 1)
		} else {
			w.put("ext-size", 1, 1)
			w.OutsideRoot++
			constrained = false
		}
	} else if hasBounds && (int64(n) < lb || int64(n) > ub) {
		return fmt.Errorf("size %d outside %d..%d", n, lb, ub)
	}
	if constrained {
		if lb == ub {
			emit(0, n)
			return nil
		}
		if err := w.Constrained(int64(n), lb, ub); err != nil {
			return err
		}
		emit(0, n)
		return nil
	}
	from := 0
	for {
		now, more := w.GeneralLength(n - from)
		emit(from, from+now)
		from += now
		if !more {
			return nil
		}
	}
}

func (w *W) Integer(n int64, p P) error {
	if p.vLB != nil && p.vUB != nil {
		lb, ub := *p.vLB, *p.vUB
		inRoot := n >= lb && n <= ub
		if p.valExt {
			if inRoot {
				w.put("ext-int", 0, 1)
			} else {
				w.put("ext-int", 1, 1)
				w.OutsideRoot++
				return w.unconstrainedInt(n)
			}
		}
		return w.Constrained(n, lb, ub)
	}
	if p.vLB != nil { // semi-constrained
		if n < *p.vLB {
			return fmt.Errorf("below lb")
		}
		v := uint64(n - *p.vLB)
		k := octetsFor(v)
		w.GeneralLength(k)
		w.Bits(v, 8*k)
		return nil
	}
	return w.unconstrainedInt(n)
}
func (w *W) unconstrainedInt(n int64) error {
	k := 1
	for ; k < 8; k++ {
		lo := -(int64(1) << uint(8*k-1))
		hi := (int64(1) << uint(8*k-1)) - 1
		if n >= lo && n <= hi {
			break
		}
	}
	w.GeneralLength(k)
	w.Bits(uint64(n)&((1<<uint(8*k))-1|(func() uint64 {
		if k == 8 {
			return ^uint64(0)
		}
		return 0
	})()), 8*k)
	return nil
}

func (w *W) BitString(b []byte, nbits int, p P) error {
	if nbits > 8*len(b) {
		return fmt.Errorf("bit string inconsistent")
	}
	has := p.sLB != nil && p.sUB != nil
	var lb, ub int64
	if has {
		lb, ub = *p.sLB, *p.sUB
	}
	fixed := has && lb == ub && ub < 65536 && !(p.sizeExt && int64(nbits) != ub)
	put := func(from, to int) {
		for i := from; i < to; i++ {
			w.Bit(uint64(b[i/8] >> uint(7-i%8)))
		}
	}
	if fixed {
		if int64(nbits) != ub {
			return fmt.Errorf("fixed size mismatch")
		}
		if p.sizeExt {
			w.put("ext-size", 0, 1)
		}
		if ub > 16 {
			w.Align()
		}
		put(0, nbits)
		return nil
	}
	return w.Sized(nbits, lb, ub, p.sizeExt, has, func(from, to int) {
		if to > from {
			w.Align()
		}
		put(from, to)
	})
}

func (w *W) OctetString(b []byte, p P) error {
	n := len(b)
	has := p.sLB != nil && p.sUB != nil
	var lb, ub int64
	if has {
		lb, ub = *p.sLB, *p.sUB
	}
	fixed := has && lb == ub && ub < 65536 && !(p.sizeExt && int64(n) != ub)
	if fixed {
		if int64(n) != ub {
			return fmt.Errorf("fixed size mismatch")
		}
		if p.sizeExt {
			w.put("ext-size", 0, 1)
		}
		if ub > 2 {
			w.Align()
		}
		w.Octets(b)
		return nil
	}
	return w.Sized(n, lb, ub, p.sizeExt, has, func(from, to int) {
		if to > from {
			w.Align()
		}
		w.Octets(b[from:to])
	})
}

// SchemaError: the Go type graph / tags do not describe a well-formed ASN.1 type.
type SchemaError struct{ Msg string }

func (e *SchemaError) Error() string { return "schema: " + e.Msg }

var (
	tBitString = "aper.BitString"
	tOctet     = "aper.OctetString"
	tEnum      = "aper.Enumerated"
)

func Encode(v interface{}, tag string) ([]byte, *W, error) {
	w := &W{}
	if err := w.enc(reflect.ValueOf(v), parseTag(tag)); err != nil {
		return nil, w, err
	}
	if len(w.buf) == 0 {
		w.buf = []byte{0}
	}
	return w.buf, w, nil
}

func refValueOf(v reflect.Value) (int64, error) {
	switch v.Kind() {
	case reflect.Int, reflect.Int32, reflect.Int64:
		return v.Int(), nil
	case reflect.Struct:
		return refValueOf(v.Field(0))
	}
	return 0, fmt.Errorf("bad reference field")
}

func (w *W) enc(v reflect.Value, p P) error {
	if !v.IsValid() {
		return fmt.Errorf("invalid")
	}
	if v.Kind() == reflect.Ptr || v.Kind() == reflect.Interface {
		if v.IsNil() {
			return fmt.Errorf("nil")
		}
		return w.enc(v.Elem(), p)
	}
	switch v.Type().String() {
	case tBitString:
		return w.BitString(v.Field(0).Bytes(), int(v.Field(1).Uint()), p)
	case tOctet:
		return w.OctetString(v.Bytes(), p)
	case tEnum:
		if p.vLB == nil || p.vUB == nil {
			return &SchemaError{"ENUMERATED without value bounds in its tag"}
		}
		n := int64(v.Uint())
		if n < *p.vLB || n > *p.vUB {
			return fmt.Errorf("enum value outside root")
		}
		if p.valExt {
			w.put("ext-enum", 0, 1)
		}
		return w.Constrained(n, *p.vLB, *p.vUB)
	}
	switch v.Kind() {
	case reflect.Bool:
		if v.Bool() {
			w.Bit(1)
		} else {
			w.Bit(0)
		}
		return nil
	case reflect.Int, reflect.Int32, reflect.Int64:
		return w.Integer(v.Int(), p)
	case reflect.String:
		return w.OctetString([]byte(v.String()), p) // 8-bit known-multiplier string; same alignment rule (aub*8>16)
	case reflect.Slice:
		has := p.sLB != nil && p.sUB != nil
		var lb, ub int64
		if has {
			lb, ub = *p.sLB, *p.sUB
		}
		ep := p
		ep.sLB, ep.sUB, ep.sizeExt = nil, nil, false
		if v.Len() > w.MaxList {
			w.MaxList = v.Len()
		}
		var err error
		e2 := w.Sized(v.Len(), lb, ub, p.sizeExt, has, func(from, to int) {
			for i := from; i < to && err == nil; i++ {
				err = w.enc(v.Index(i), ep)
			}
		})
		if e2 != nil {
			return e2
		}
		return err
	case reflect.Struct:
		t := v.Type()
		if t.NumField() > 0 && t.Field(0).Name == "Present" {
			present := int(v.Field(0).Int())
			if present <= 0 || present >= t.NumField() {
				return fmt.Errorf("bad Present %d", present)
			}
			ap := parseTag(t.Field(present).Tag.Get("aper"))
			if p.openType {
				if p.refVal == nil || ap.refVal == nil || *p.refVal != *ap.refVal {
					return fmt.Errorf("open type does not match its identifier")
				}
				inner := &W{depth: w.depth + 1, Fault: w.Fault, Opps: w.Opps}
				if inner.depth > w.OpenDepth {
					w.OpenDepth = inner.depth
				}
				if err := inner.enc(v.Field(present), ap); err != nil {
					return err
				}
				inner.Align()
				if len(inner.buf) == 0 {
					inner.buf = []byte{0}
				}
				w.Opps = inner.Opps
				w.Unaligned += inner.Unaligned
				w.Aligns += inner.Aligns
				w.BigRange += inner.BigRange
				w.OptBits += inner.OptBits
				w.OutsideRoot += inner.OutsideRoot
				if inner.MaxList > w.MaxList {
					w.MaxList = inner.MaxList
				}
				if inner.OpenDepth > w.OpenDepth {
					w.OpenDepth = inner.OpenDepth
				}
				if inner.MaxLen > w.MaxLen {
					w.MaxLen = inner.MaxLen
				}
				from := 0
				for {
					now, more := w.GeneralLength(len(inner.buf) - from)
					w.Octets(inner.buf[from : from+now])
					from += now
					if !more {
						break
					}
				}
				return nil
			}
			if p.vUB == nil {
				return &SchemaError{"CHOICE " + t.Name() + " without valueUB in the referring tag"}
			}
			if int(*p.vUB) != t.NumField()-2 {
				return &SchemaError{fmt.Sprintf("CHOICE %s valueUB %d but %d alternatives", t.Name(), *p.vUB, t.NumField()-1)}
			}
			if p.valExt || SpecRules && specChoiceExtensible(t) {
				w.put("ext-choice", 0, 1)
			}
			if err := w.constrainedBitField(int64(present-1), 0, *p.vUB); err != nil {
				return err
			}
			return w.enc(v.Field(present), ap)
		}
		// SEQUENCE
		if p.valExt || SpecRules && specSeqExtensible(t) {
			w.put("ext-seq", 0, 1)
		}
		fps := make([]P, t.NumField())
		for i := 0; i < t.NumField(); i++ {
			fps[i] = parseTag(t.Field(i).Tag.Get("aper"))
			if SpecRules && isNgapType(t) && t.Field(i).Type.Kind() == reflect.Ptr && !fps[i].openType {
				// the generated types hold exactly the OPTIONAL components of a SEQUENCE behind pointers
				fps[i].opt = true
			}
			if fps[i].opt {
				if v.Field(i).IsNil() {
					w.put("opt", 0, 1)
				} else {
					w.put("opt", 1, 1)
					w.OptBits++
				}
			}
		}
		for i := 0; i < t.NumField(); i++ {
			f := v.Field(i)
			if fps[i].opt && f.IsNil() {
				continue
			}
			if fps[i].openType {
				sib := v.FieldByName(fps[i].refName)
				if !sib.IsValid() {
					return &SchemaError{"open type without reference field " + fps[i].refName}
				}
				rv, err := refValueOf(sib)
				if err != nil {
					return err
				}
				fps[i].refVal = &rv
			}
			if err := w.enc(f, fps[i]); err != nil {
				return fmt.Errorf("%s.%s: %w", t.Name(), t.Field(i).Name, err)
			}
		}
		return nil
	}
	return fmt.Errorf("unsupported %s", v.Type())
}

// SpecRules switches on the structural rules of TS 38.413 that do not depend on the struct tags of the tree
// under test (set by the C03/C04 tests; the self-tests run with and without):
//   - every NGAP SEQUENCE that carries iE-Extensions, and every message (SEQUENCE of one protocolIEs /
//     privateIEs container), has an extension marker; ProtocolIE-Field-like triples and the three outcome
//     wrappers have none;
//   - no NGAP CHOICE has an extension marker except NGAP-PDU (the others carry choice-Extensions instead);
//   - the OPTIONAL components of a SEQUENCE are exactly the pointer-typed fields of the generated struct.
// With the rules on, a tag that lost or gained "valueExt"/"optional" at one use site no longer steers the
// reference: the library's bytes then differ from the reference's.
var SpecRules bool

func isNgapType(t reflect.Type) bool { return strings.HasSuffix(t.PkgPath(), "ngapType") }

func specSeqExtensible(t reflect.Type) bool {
	if !isNgapType(t) {
		return false
	}
	if _, ok := t.FieldByName("IEExtensions"); ok {
		return true
	}
	if t.NumField() == 1 && (t.Field(0).Name == "ProtocolIEs" || t.Field(0).Name == "PrivateIEs") {
		return true
	}
	return false
}

func specChoiceExtensible(t reflect.Type) bool { return isNgapType(t) && t.Name() == "NGAPPDU" }

// EncodeFault encodes v like Encode but alters the at-th structural field (see Fault).
// It returns the hostile bytes, what was altered, and the number of structural fields.
func EncodeFault(v interface{}, tag string, at, variant int) ([]byte, string, int, error) {
	w := &W{Fault: &Fault{At: at, Variant: variant}}
	if err := w.enc(reflect.ValueOf(v), parseTag(tag)); err != nil {
		return nil, "", w.Opps, err
	}
	if len(w.buf) == 0 {
		w.buf = []byte{0}
	}
	return w.buf, w.Fault.Hit, w.Opps, nil
}
