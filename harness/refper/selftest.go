package refper

import (
	"bytes"
	"encoding/hex"
	"fmt"
)

// SelfTest checks the reference encoder against encodings derived by hand from the X.691
// clause text (aligned variant). It must pass before any verdict that depends on refper.
func SelfTest() error {
	i64 := func(x int64) *int64 { return &x }
	type step func(w *W) error
	cases := []struct {
		name  string
		steps []step
		want  string
	}{
		{"10.5.7.1 range 8: 3-bit field", []step{func(w *W) error { return w.Constrained(5, 0, 7) }}, "a0"},
		{"10.5.6 range 1: no bits", []step{func(w *W) error { return w.Constrained(4, 4, 4) }, func(w *W) error { w.Bit(1); return nil }}, "80"},
		{"10.5.7.1 range 255: 8-bit field, not aligned", []step{func(w *W) error { w.Bit(1); return nil }, func(w *W) error { return w.Constrained(254, 0, 254) }}, "ff00"},
		{"10.5.7.2 range 256: one aligned octet", []step{func(w *W) error { w.Bit(1); return nil }, func(w *W) error { return w.Constrained(200, 0, 255) }}, "80c8"},
		{"10.5.7.3 range 257: two aligned octets", []step{func(w *W) error { w.Bit(1); return nil }, func(w *W) error { return w.Constrained(256, 0, 256) }}, "800100"},
		{"10.5.7.3 range 65536: two aligned octets", []step{func(w *W) error { return w.Constrained(1000, 0, 65535) }}, "03e8"},
		{"10.5.7.4 range 131072, 3 octets: 2-bit length(3)-1, aligned value", []step{func(w *W) error { return w.Constrained(70000, 0, 131071) }}, "80011170"},
		{"10.5.7.4 range 131072, value 131071", []step{func(w *W) error { return w.Constrained(131071, 0, 131071) }}, "8001ffff"},
		{"10.5.7.4 range 2^40, value 1: 3-bit length(1)-1", []step{func(w *W) error { return w.Constrained(1, 0, 1099511627775) }}, "0001"},
		{"10.5.7.4 range 2^40, value 0x0123456789", []step{func(w *W) error { return w.Constrained(0x0123456789, 0, 1099511627775) }}, "800123456789"},
		{"10.5.7.4 range 2^32, value 65536 (3 octets, 2-bit length)", []step{func(w *W) error { return w.Constrained(65536, 0, 4294967295) }}, "80010000"},
		{"10.9.3.6 length 127", []step{func(w *W) error { w.GeneralLength(127); return nil }}, "7f"},
		{"10.9.3.7 length 128", []step{func(w *W) error { w.GeneralLength(128); return nil }}, "8080"},
		{"10.9.3.7 length 16383", []step{func(w *W) error { w.GeneralLength(16383); return nil }}, "bfff"},
		{"10.9.3.8 length 16384: fragment marker c1", []step{func(w *W) error { w.GeneralLength(16384); return nil }}, "c1"},
		{"17.6 OCTET STRING SIZE(2) fixed: not aligned", []step{func(w *W) error { w.Bit(1); return nil }, func(w *W) error {
			return w.OctetString([]byte{0xAB, 0xCD}, P{sLB: i64(2), sUB: i64(2)})
		}}, "d5e680"},
		{"17.7 OCTET STRING SIZE(3) fixed: aligned, no length", []step{func(w *W) error { w.Bit(1); return nil }, func(w *W) error {
			return w.OctetString([]byte{1, 2, 3}, P{sLB: i64(3), sUB: i64(3)})
		}}, "80010203"},
		{"17.8 OCTET STRING SIZE(0..255) len 3: aligned 8-bit length, aligned contents", []step{func(w *W) error { w.Bit(1); return nil }, func(w *W) error {
			return w.OctetString([]byte{1, 2, 3}, P{sLB: i64(0), sUB: i64(255)})
		}}, "8003010203"},
		{"17.8 OCTET STRING SIZE(1..4) len 2: 2-bit length then aligned contents", []step{func(w *W) error {
			return w.OctetString([]byte{0xAA, 0xBB}, P{sLB: i64(1), sUB: i64(4)})
		}}, "40aabb"},
		{"17.8 unconstrained OCTET STRING len 130", []step{func(w *W) error { return w.OctetString(bytes.Repeat([]byte{0x11}, 130), P{}) }}, "8082" + hex.EncodeToString(bytes.Repeat([]byte{0x11}, 130))},
		{"16.9 BIT STRING SIZE(8) fixed <=16 bits: not aligned", []step{func(w *W) error { w.Bit(0); return nil }, func(w *W) error {
			return w.BitString([]byte{0xFF}, 8, P{sLB: i64(8), sUB: i64(8)})
		}}, "7f80"},
		{"16.10 BIT STRING SIZE(36) fixed >16 bits: aligned", []step{func(w *W) error { w.Bit(1); return nil }, func(w *W) error {
			return w.BitString([]byte{1, 2, 3, 4, 0x50}, 36, P{sLB: i64(36), sUB: i64(36)})
		}}, "800102030450"},
		{"16.11 BIT STRING SIZE(22..32) 24 bits after one bit: 4-bit length 2, aligned contents (GNB-ID)", []step{func(w *W) error { w.Bit(0); return nil }, func(w *W) error {
			return w.BitString([]byte{0, 1, 2}, 24, P{sLB: i64(22), sUB: i64(32)})
		}}, "10000102"},
		{"extensible size, in root: extension bit 0", []step{func(w *W) error {
			return w.OctetString([]byte("AA"), P{sLB: i64(1), sUB: i64(150), sizeExt: true})
		}}, "00804141"},
		{"12.2.6 unconstrained INTEGER -1", []step{func(w *W) error { return w.Integer(-1, P{}) }}, "01ff"},
		{"12.2.6 unconstrained INTEGER 128: two octets 0080", []step{func(w *W) error { return w.Integer(128, P{}) }}, "020080"},
		{"12.1 extensible INTEGER in root (0..4000000000000 ext): ext bit 0, 3-bit length, aligned", []step{func(w *W) error {
			return w.Integer(1000, P{vLB: i64(0), vUB: i64(4000000000000), valExt: true})
		}}, "1003e8"},
	}
	for _, c := range cases {
		w := &W{}
		for _, s := range c.steps {
			if err := s(w); err != nil {
				return fmt.Errorf("refper self-test %q: %v", c.name, err)
			}
		}
		if got := hex.EncodeToString(w.Bytes()); got != c.want {
			return fmt.Errorf("refper self-test %q: got %s want %s", c.name, got, c.want)
		}
	}
	// refusals
	w := &W{}
	if w.Constrained(8, 0, 7) == nil || w.OctetString([]byte{1}, P{sLB: i64(2), sUB: i64(2)}) == nil ||
		w.OctetString(make([]byte, 5), P{sLB: i64(1), sUB: i64(4)}) == nil {
		return fmt.Errorf("refper self-test: out-of-constraint values must be refused")
	}
	return nil
}
