package refnas

import (
	"errors"
	"fmt"
	"strings"
)

// Field-level codecs, each written from the figure / table of TS 24.501 (or the specification
// it refers to) named in its comment. Bit 8 is the most significant bit of an octet.

// ---------------------------------------------------------------------------------------
// PLMN identity: TS 24.008 10.5.1.3 octets 2-4 (used by 9.11.3.4, 9.11.3.8, 9.11.3.9 ...)
//   octet 1: MCC digit 2 | MCC digit 1
//   octet 2: MNC digit 3 | MCC digit 3      (MNC digit 3 = 1111 for a two-digit MNC)
//   octet 3: MNC digit 2 | MNC digit 1

func digit(c byte) (byte, error) {
	if c < '0' || c > '9' {
		return 0, fmt.Errorf("%q is not a decimal digit", c)
	}
	return c - '0', nil
}

func EncodePLMN(mcc, mnc string) ([3]byte, error) {
	var out [3]byte
	if len(mcc) != 3 || (len(mnc) != 2 && len(mnc) != 3) {
		return out, fmt.Errorf("PLMN: MCC must have 3 digits and MNC 2 or 3 (got %q/%q)", mcc, mnc)
	}
	var d [6]byte
	for i := 0; i < 3; i++ {
		x, err := digit(mcc[i])
		if err != nil {
			return out, err
		}
		d[i] = x
	}
	for i := 0; i < len(mnc); i++ {
		x, err := digit(mnc[i])
		if err != nil {
			return out, err
		}
		d[3+i] = x
	}
	if len(mnc) == 2 {
		d[5] = 0xF
	}
	out[0] = d[1]<<4 | d[0]
	out[1] = d[5]<<4 | d[2]
	out[2] = d[4]<<4 | d[3]
	return out, nil
}

func DecodePLMN(b []byte) (mcc, mnc string, err error) {
	if len(b) < 3 {
		return "", "", errors.New("PLMN: need 3 octets")
	}
	ds := []byte{b[0] & 0xF, b[0] >> 4, b[1] & 0xF, b[2] & 0xF, b[2] >> 4, b[1] >> 4}
	for i, x := range ds {
		if x > 9 && !(i == 5 && x == 0xF) {
			return "", "", fmt.Errorf("PLMN: digit %d is %#x", i+1, x)
		}
	}
	mcc = string([]byte{'0' + ds[0], '0' + ds[1], '0' + ds[2]})
	mnc = string([]byte{'0' + ds[3], '0' + ds[4]})
	if ds[5] != 0xF {
		mnc += string([]byte{'0' + ds[5]})
	}
	return mcc, mnc, nil
}

// bcd packs decimal digits two per octet, first digit in bits 4..1, filler 1111 in bits 8..5
// of the last octet when the number of digits is odd (TS 24.501 9.11.3.4 / TS 23.003).
func bcd(digits string) ([]byte, error) {
	out := make([]byte, 0, (len(digits)+1)/2)
	for i := 0; i < len(digits); i += 2 {
		lo, err := digit(digits[i])
		if err != nil {
			return nil, err
		}
		hi := byte(0xF)
		if i+1 < len(digits) {
			if hi, err = digit(digits[i+1]); err != nil {
				return nil, err
			}
		}
		out = append(out, hi<<4|lo)
	}
	return out, nil
}

// unbcd is the inverse; a filler is only legal in the high nibble of the last octet.
func unbcd(b []byte) (string, error) {
	var sb strings.Builder
	for i, o := range b {
		lo, hi := o&0xF, o>>4
		if lo > 9 {
			return "", fmt.Errorf("BCD: octet %d low nibble %#x", i, lo)
		}
		sb.WriteByte('0' + lo)
		if hi == 0xF && i == len(b)-1 {
			break
		}
		if hi > 9 {
			return "", fmt.Errorf("BCD: octet %d high nibble %#x", i, hi)
		}
		sb.WriteByte('0' + hi)
	}
	return sb.String(), nil
}

// ---------------------------------------------------------------------------------------
// 5GS mobile identity, TS 24.501 9.11.3.4 (value part, i.e. from octet 4 of the figures)

const (
	IDNone   = 0
	IDSUCI   = 1
	IDGUTI   = 2
	IDIMEI   = 3
	IDSTMSI  = 4
	IDIMEISV = 5
)

type MobileIdentity struct {
	Type uint8
	// SUCI (Figure 9.11.3.4.3, SUPI format IMSI)
	SUPIFormat       uint8  // 0 IMSI, 1 network specific identifier
	MCC, MNC         string // also 5G-GUTI
	RoutingIndicator string // 1..4 digits
	ProtectionScheme uint8  // 0 null scheme, 1 profile A, 2 profile B
	HomeNetworkPKI   uint8
	MSIN             string // scheme output of the null scheme
	SchemeOutput     []byte // scheme output of any other scheme
	// 5G-GUTI (Figure 9.11.3.4.1) and 5G-S-TMSI (Figure 9.11.3.4.5)
	AMFRegionID uint8
	AMFSetID    uint16 // 10 bits
	AMFPointer  uint8  // 6 bits
	TMSI        uint32
	// IMEI / IMEISV (Figure 9.11.3.4.4)
	Digits string
}

func (m *MobileIdentity) Encode() ([]byte, error) {
	switch m.Type {
	case IDSUCI:
		if m.SUPIFormat != 0 {
			return nil, errors.New("SUCI: only SUPI format IMSI is implemented")
		}
		plmn, err := EncodePLMN(m.MCC, m.MNC)
		if err != nil {
			return nil, err
		}
		if len(m.RoutingIndicator) < 1 || len(m.RoutingIndicator) > 4 {
			return nil, errors.New("SUCI: routing indicator has 1..4 digits")
		}
		ri := []byte{0xFF, 0xFF}
		for i := 0; i < len(m.RoutingIndicator); i++ {
			d, err := digit(m.RoutingIndicator[i])
			if err != nil {
				return nil, err
			}
			if i%2 == 0 {
				ri[i/2] = ri[i/2]&0xF0 | d
			} else {
				ri[i/2] = ri[i/2]&0x0F | d<<4
			}
		}
		out := []byte{m.SUPIFormat<<4 | IDSUCI, plmn[0], plmn[1], plmn[2], ri[0], ri[1], m.ProtectionScheme & 0x0F, m.HomeNetworkPKI}
		if m.ProtectionScheme == 0 {
			msin, err := bcd(m.MSIN)
			if err != nil {
				return nil, err
			}
			return append(out, msin...), nil
		}
		return append(out, m.SchemeOutput...), nil
	case IDGUTI:
		plmn, err := EncodePLMN(m.MCC, m.MNC)
		if err != nil {
			return nil, err
		}
		if m.AMFSetID > 0x3FF || m.AMFPointer > 0x3F {
			return nil, errors.New("5G-GUTI: AMF set ID has 10 bits, AMF pointer 6")
		}
		return []byte{0xF0 | IDGUTI, plmn[0], plmn[1], plmn[2], m.AMFRegionID,
			byte(m.AMFSetID >> 2), byte(m.AMFSetID&3)<<6 | m.AMFPointer,
			byte(m.TMSI >> 24), byte(m.TMSI >> 16), byte(m.TMSI >> 8), byte(m.TMSI)}, nil
	case IDSTMSI:
		if m.AMFSetID > 0x3FF || m.AMFPointer > 0x3F {
			return nil, errors.New("5G-S-TMSI: AMF set ID has 10 bits, AMF pointer 6")
		}
		return []byte{0xF0 | IDSTMSI, byte(m.AMFSetID >> 2), byte(m.AMFSetID&3)<<6 | m.AMFPointer,
			byte(m.TMSI >> 24), byte(m.TMSI >> 16), byte(m.TMSI >> 8), byte(m.TMSI)}, nil
	case IDIMEI, IDIMEISV:
		if len(m.Digits) == 0 {
			return nil, errors.New("IMEI(SV): no digits")
		}
		d1, err := digit(m.Digits[0])
		if err != nil {
			return nil, err
		}
		odd := byte(len(m.Digits) % 2)
		rest, err := bcd(m.Digits[1:])
		if err != nil {
			return nil, err
		}
		return append([]byte{d1<<4 | odd<<3 | m.Type}, rest...), nil
	case IDNone:
		return []byte{0}, nil
	}
	return nil, fmt.Errorf("mobile identity type %d not implemented", m.Type)
}

func ParseMobileIdentity(b []byte) (*MobileIdentity, error) {
	if len(b) < 1 {
		return nil, errors.New("mobile identity: empty")
	}
	m := &MobileIdentity{Type: b[0] & 7}
	switch m.Type {
	case IDSUCI:
		if b[0]&0x88 != 0 {
			return nil, fmt.Errorf("SUCI: spare bits set in octet 4 (%#x)", b[0])
		}
		m.SUPIFormat = b[0] >> 4 & 7
		if m.SUPIFormat != 0 {
			m.SchemeOutput = b[1:]
			return m, nil
		}
		if len(b) < 8 {
			return nil, fmt.Errorf("SUCI: %d octets, at least 8 needed", len(b))
		}
		var err error
		if m.MCC, m.MNC, err = DecodePLMN(b[1:4]); err != nil {
			return nil, err
		}
		ds := []byte{b[4] & 0xF, b[4] >> 4, b[5] & 0xF, b[5] >> 4}
		for i, d := range ds {
			if d == 0xF {
				for _, r := range ds[i:] {
					if r != 0xF {
						return nil, fmt.Errorf("SUCI: routing indicator digit after filler (%x %x)", b[4], b[5])
					}
				}
				break
			}
			if d > 9 {
				return nil, fmt.Errorf("SUCI: routing indicator digit %#x", d)
			}
			m.RoutingIndicator += string([]byte{'0' + d})
		}
		if m.RoutingIndicator == "" {
			return nil, errors.New("SUCI: routing indicator has no digit")
		}
		if b[6]&0xF0 != 0 {
			return nil, fmt.Errorf("SUCI: spare bits set in protection scheme octet (%#x)", b[6])
		}
		m.ProtectionScheme = b[6] & 0xF
		m.HomeNetworkPKI = b[7]
		if m.ProtectionScheme == 0 {
			if m.MSIN, err = unbcd(b[8:]); err != nil {
				return nil, fmt.Errorf("SUCI MSIN: %v", err)
			}
		} else {
			m.SchemeOutput = b[8:]
		}
		return m, nil
	case IDGUTI:
		if len(b) != 11 {
			return nil, fmt.Errorf("5G-GUTI: %d octets instead of 11", len(b))
		}
		if b[0] != 0xF0|IDGUTI {
			return nil, fmt.Errorf("5G-GUTI: octet 4 is %#x, must be 0xf2", b[0])
		}
		var err error
		if m.MCC, m.MNC, err = DecodePLMN(b[1:4]); err != nil {
			return nil, err
		}
		m.AMFRegionID = b[4]
		m.AMFSetID = uint16(b[5])<<2 | uint16(b[6]>>6)
		m.AMFPointer = b[6] & 0x3F
		m.TMSI = uint32(b[7])<<24 | uint32(b[8])<<16 | uint32(b[9])<<8 | uint32(b[10])
		return m, nil
	case IDSTMSI:
		if len(b) != 7 {
			return nil, fmt.Errorf("5G-S-TMSI: %d octets instead of 7", len(b))
		}
		m.AMFSetID = uint16(b[1])<<2 | uint16(b[2]>>6)
		m.AMFPointer = b[2] & 0x3F
		m.TMSI = uint32(b[3])<<24 | uint32(b[4])<<16 | uint32(b[5])<<8 | uint32(b[6])
		if b[0] != 0xF0|IDSTMSI {
			return m, fmt.Errorf("5G-S-TMSI: octet 4 is %#x, must be 0xf4", b[0])
		}
		return m, nil
	case IDIMEI, IDIMEISV:
		d1 := b[0] >> 4
		if d1 > 9 {
			return nil, fmt.Errorf("IMEI(SV): digit 1 is %#x", d1)
		}
		rest, err := unbcd(b[1:])
		if err != nil {
			return nil, err
		}
		m.Digits = string([]byte{'0' + d1}) + rest
		if odd := int(b[0] >> 3 & 1); odd != len(m.Digits)%2 {
			return nil, fmt.Errorf("IMEI(SV): odd/even indication %d with %d digits", odd, len(m.Digits))
		}
		return m, nil
	case IDNone:
		return m, nil
	}
	return nil, fmt.Errorf("mobile identity: type of identity %d is reserved", m.Type)
}

// ---------------------------------------------------------------------------------------
// S-NSSAI, TS 24.501 9.11.2.8 (value part): SST [SD] [mapped HPLMN SST [mapped HPLMN SD]];
// the length tells which: 1, 4, 2, 5 or 8.

type SNSSAI struct {
	SST       uint8
	SD        *[3]byte
	MappedSST *uint8
	MappedSD  *[3]byte
}

func (s *SNSSAI) Encode() ([]byte, error) {
	out := []byte{s.SST}
	if s.SD != nil {
		out = append(out, s.SD[:]...)
	}
	if s.MappedSST != nil {
		out = append(out, *s.MappedSST)
		if s.MappedSD != nil {
			if s.SD == nil {
				return nil, errors.New("S-NSSAI: mapped SD without SD has no encoding")
			}
			out = append(out, s.MappedSD[:]...)
		}
	} else if s.MappedSD != nil {
		return nil, errors.New("S-NSSAI: mapped SD without mapped SST")
	}
	return out, nil
}

func ParseSNSSAI(b []byte) (*SNSSAI, error) {
	s := &SNSSAI{}
	three := func(x []byte) *[3]byte { var a [3]byte; copy(a[:], x); return &a }
	one := func(x byte) *uint8 { return &x }
	switch len(b) {
	case 1:
		s.SST = b[0]
	case 2:
		s.SST, s.MappedSST = b[0], one(b[1])
	case 4:
		s.SST, s.SD = b[0], three(b[1:4])
	case 5:
		s.SST, s.SD, s.MappedSST = b[0], three(b[1:4]), one(b[4])
	case 8:
		s.SST, s.SD, s.MappedSST, s.MappedSD = b[0], three(b[1:4]), one(b[4]), three(b[5:8])
	default:
		return nil, fmt.Errorf("S-NSSAI: length %d is not one of 1, 2, 4, 5, 8", len(b))
	}
	return s, nil
}

// ---------------------------------------------------------------------------------------
// DNN, TS 24.501 9.11.2.1A: the value is an APN per TS 23.003 9.1 — a sequence of labels,
// each preceded by its length octet (RFC 1035 style, no terminating zero).

func EncodeDNN(dnn string) ([]byte, error) {
	var out []byte
	for _, l := range strings.Split(dnn, ".") {
		if len(l) < 1 || len(l) > 63 {
			return nil, fmt.Errorf("DNN: label %q has %d octets (1..63)", l, len(l))
		}
		out = append(out, byte(len(l)))
		out = append(out, l...)
	}
	if len(out) > 100 {
		return nil, fmt.Errorf("DNN: %d octets exceed 100", len(out))
	}
	return out, nil
}

func ParseDNN(b []byte) (string, error) {
	var labels []string
	for p := 0; p < len(b); {
		n := int(b[p])
		if n < 1 || n > 63 || p+1+n > len(b) {
			return "", fmt.Errorf("DNN: label length octet %d at offset %d of %d", n, p, len(b))
		}
		labels = append(labels, string(b[p+1:p+1+n]))
		p += 1 + n
	}
	if len(labels) == 0 {
		return "", errors.New("DNN: empty")
	}
	return strings.Join(labels, "."), nil
}

// ---------------------------------------------------------------------------------------
// UE security capability, TS 24.501 9.11.3.54 (value part, 2..8 octets):
//   octet 3: 5G-EA0 (bit 8) 128-5G-EA1 128-5G-EA2 128-5G-EA3 5G-EA4 .. 5G-EA7 (bit 1)
//   octet 4: 5G-IA0 (bit 8) 128-5G-IA1 ... 5G-IA7 (bit 1)
//   octet 5: EEA0 .. EEA7, octet 6: EIA0 .. EIA7 (optional), octets 7-10 spare

type UESecurityCapability struct {
	EA5G, IA5G uint8 // bit 8 = algorithm 0
	EEA, EIA   *uint8
	Spare      []byte
}

// AlgBit returns the mask of algorithm n (0..7) in a capability octet.
func AlgBit(n uint8) uint8 { return 0x80 >> n }

func (c *UESecurityCapability) Encode() []byte {
	out := []byte{c.EA5G, c.IA5G}
	if c.EEA != nil {
		out = append(out, *c.EEA)
		if c.EIA != nil {
			out = append(out, *c.EIA)
			out = append(out, c.Spare...)
		}
	}
	return out
}

func ParseUESecurityCapability(b []byte) (*UESecurityCapability, error) {
	if len(b) < 2 || len(b) > 8 {
		return nil, fmt.Errorf("UE security capability: %d octets (2..8)", len(b))
	}
	c := &UESecurityCapability{EA5G: b[0], IA5G: b[1]}
	if len(b) > 2 {
		x := b[2]
		c.EEA = &x
	}
	if len(b) > 3 {
		x := b[3]
		c.EIA = &x
		c.Spare = b[4:]
	}
	return c, nil
}

// ---------------------------------------------------------------------------------------
// PDU address, TS 24.501 9.11.4.10 (value part): octet 3 bits 3..1 PDU session type value
// (1 IPv4, 2 IPv6, 3 IPv4v6); IPv4: 4 octets address; IPv6: 8 octets interface identifier;
// IPv4v6: 8 octets interface identifier followed by 4 octets IPv4 address.

type PDUAddress struct {
	Type uint8
	IPv4 [4]byte
	IID  [8]byte
}

func (a *PDUAddress) Encode() ([]byte, error) {
	switch a.Type {
	case 1:
		return append([]byte{1}, a.IPv4[:]...), nil
	case 2:
		return append([]byte{2}, a.IID[:]...), nil
	case 3:
		return append(append([]byte{3}, a.IID[:]...), a.IPv4[:]...), nil
	}
	return nil, fmt.Errorf("PDU address: PDU session type value %d", a.Type)
}

func ParsePDUAddress(b []byte) (*PDUAddress, error) {
	if len(b) < 1 {
		return nil, errors.New("PDU address: empty")
	}
	a := &PDUAddress{Type: b[0] & 7}
	want := map[uint8]int{1: 5, 2: 9, 3: 13}[a.Type]
	if want == 0 || len(b) != want {
		return nil, fmt.Errorf("PDU address: type %d with %d octets", a.Type, len(b))
	}
	switch a.Type {
	case 1:
		copy(a.IPv4[:], b[1:5])
	case 2:
		copy(a.IID[:], b[1:9])
	case 3:
		copy(a.IID[:], b[1:9])
		copy(a.IPv4[:], b[9:13])
	}
	return a, nil
}

// ---------------------------------------------------------------------------------------
// Session-AMBR, TS 24.501 9.11.4.14 (value part, 6 octets): unit for downlink, session-AMBR
// for downlink (16 bits), unit for uplink, session-AMBR for uplink (16 bits).
// Unit: 1..5 = 1, 4, 16, 64, 256 kbit/s; 6..10 = 1 .. 256 Mbit/s; 11..15 Gbit/s; 16..20 Tbit/s;
// 21..25 = 1 .. 256 Pbit/s (decimal prefixes).

type SessionAMBR struct {
	DLUnit uint8
	DL     uint16
	ULUnit uint8
	UL     uint16
}

func (a *SessionAMBR) Encode() []byte {
	return []byte{a.DLUnit, byte(a.DL >> 8), byte(a.DL), a.ULUnit, byte(a.UL >> 8), byte(a.UL)}
}

func ParseSessionAMBR(b []byte) (*SessionAMBR, error) {
	if len(b) != 6 {
		return nil, fmt.Errorf("session-AMBR: %d octets instead of 6", len(b))
	}
	return &SessionAMBR{DLUnit: b[0], DL: uint16(b[1])<<8 | uint16(b[2]), ULUnit: b[3], UL: uint16(b[4])<<8 | uint16(b[5])}, nil
}

// Kbps returns the bit rate in kbit/s denoted by (unit, value), or false for unit 0 /
// reserved units.
func AMBRKbps(unit uint8, value uint16) (uint64, bool) {
	if unit < 1 || unit > 25 {
		return 0, false
	}
	k := uint64(value) << (2 * uint((unit-1)%5))
	for g := (unit - 1) / 5; g > 0; g-- {
		k *= 1000
	}
	return k, true
}

// ---------------------------------------------------------------------------------------
// Half-octet fields

// NAS key set identifier, 9.11.3.32: bit 4 TSC, bits 3..1 NAS key set identifier.
func KSI(nibble uint8) (tsc bool, ksi uint8) { return nibble&8 != 0, nibble & 7 }
func MakeKSI(tsc bool, ksi uint8) uint8 {
	n := ksi & 7
	if tsc {
		n |= 8
	}
	return n
}

// 5GS registration type, 9.11.3.7: bit 4 FOR, bits 3..1 registration type value.
func RegistrationType(nibble uint8) (followOn bool, typ uint8) { return nibble&8 != 0, nibble & 7 }

// De-registration type, 9.11.3.20: bit 4 switch off, bit 3 re-registration required,
// bits 2..1 access type.
func DeregistrationType(nibble uint8) (switchOff, reReg bool, access uint8) {
	return nibble&8 != 0, nibble&4 != 0, nibble & 3
}

// NAS security algorithms, 9.11.3.34: bits 8..5 ciphering, bits 4..1 integrity.
func SecurityAlgorithms(o uint8) (ciphering, integrity uint8) { return o >> 4, o & 0xF }
