package refnas

import (
	"fmt"
)

// Hand-written encoders / parsers for the messages on the emulator's path. They are typed
// from the message tables of TS 24.501 8.2 / 8.3 a second time, message by message, and do
// not use the generic table of tables.go; TestSelf cross-checks the two against each other
// and against byte strings derived by hand.
//
// Convention: an optional IE is a []byte holding its value part; nil = absent. A type-1 IE
// is a []byte of one octet whose low nibble is the value.

type ospec struct {
	iei uint8   // 4-bit for tv1
	f   Format  // TV1, TV, TLV, TLVE
	n   int     // TV: total length including the IEI
	dst *[]byte // where the value lives in the message struct
}

type rd struct {
	b   []byte
	p   int
	err error
}

func (r *rd) need(n int) bool {
	if r.err != nil {
		return false
	}
	if r.p+n > len(r.b) {
		r.err = fmt.Errorf("%w at offset %d (need %d more octets, have %d)", ErrTruncated, r.p, n, len(r.b)-r.p)
		return false
	}
	return true
}
func (r *rd) u8() uint8 {
	if !r.need(1) {
		return 0
	}
	r.p++
	return r.b[r.p-1]
}
func (r *rd) take(n int) []byte {
	if !r.need(n) {
		return nil
	}
	r.p += n
	return append([]byte{}, r.b[r.p-n:r.p]...)
}
func (r *rd) lv() []byte { return r.take(int(r.u8())) }
func (r *rd) lve() []byte {
	hi := r.u8()
	lo := r.u8()
	return r.take(int(hi)<<8 | int(lo))
}
func (r *rd) more() bool { return r.err == nil && r.p < len(r.b) }

func (r *rd) opts(msg string, specs []ospec) {
	for r.more() {
		t := r.b[r.p]
		var s *ospec
		for i := range specs {
			c := &specs[i]
			if (c.f == TV1 && t&0x80 != 0 && t>>4 == c.iei) || (c.f != TV1 && t == c.iei) {
				s = c
				break
			}
		}
		if s == nil {
			r.err = fmt.Errorf("%s: unknown IEI %#x at offset %d", msg, t, r.p)
			return
		}
		if *s.dst != nil {
			r.err = fmt.Errorf("%s: IE %#x repeated at offset %d", msg, t, r.p)
			return
		}
		r.p++
		switch s.f {
		case TV1:
			*s.dst = []byte{t & 0xF}
		case TV:
			*s.dst = r.take(s.n - 1)
		case TLV:
			*s.dst = r.lv()
		case TLVE:
			*s.dst = r.lve()
		}
		if *s.dst == nil && r.err == nil {
			*s.dst = []byte{}
		}
	}
}

type wr struct {
	b   []byte
	err error
}

func (w *wr) u8(x ...uint8) { w.b = append(w.b, x...) }
func (w *wr) lv(v []byte) {
	if len(v) > 255 {
		w.err = fmt.Errorf("LV value of %d octets", len(v))
		return
	}
	w.b = append(append(w.b, byte(len(v))), v...)
}
func (w *wr) lve(v []byte) {
	if len(v) > 65535 {
		w.err = fmt.Errorf("LV-E value of %d octets", len(v))
		return
	}
	w.b = append(append(w.b, byte(len(v)>>8), byte(len(v))), v...)
}
func (w *wr) opts(specs []ospec) {
	for _, s := range specs {
		v := *s.dst
		if v == nil {
			continue
		}
		switch s.f {
		case TV1:
			if len(v) != 1 || v[0] > 0xF {
				w.err = fmt.Errorf("type-1 IE %#x: value must be one nibble", s.iei)
				return
			}
			w.u8(s.iei<<4 | v[0])
		case TV:
			if len(v) != s.n-1 {
				w.err = fmt.Errorf("TV IE %#x: value must be %d octets, got %d", s.iei, s.n-1, len(v))
				return
			}
			w.u8(s.iei)
			w.u8(v...)
		case TLV:
			w.u8(s.iei)
			w.lv(v)
		case TLVE:
			w.u8(s.iei)
			w.lve(v)
		}
	}
}

func hdrMM(r *rd, name string, mt uint8) (sht uint8) {
	epd, o2, t := r.u8(), r.u8(), r.u8()
	if r.err == nil && (epd != 0x7E || t != mt) {
		r.err = fmt.Errorf("%s: header %02x %02x %02x, expected 7e .. %02x", name, epd, o2, t, mt)
	}
	if r.err == nil && o2&0xF0 != 0 {
		r.err = fmt.Errorf("%s: spare half octet of octet 2 is %#x", name, o2>>4)
	}
	return o2 & 0xF
}

func hdrSM(r *rd, name string, mt uint8) (psi, pti uint8) {
	epd := r.u8()
	psi, pti = r.u8(), r.u8()
	t := r.u8()
	if r.err == nil && (epd != 0x2E || t != mt) {
		r.err = fmt.Errorf("%s: header %02x %02x %02x %02x, expected 2e .. .. %02x", name, epd, psi, pti, t, mt)
	}
	return
}

func fin(r *rd, name string) error {
	if r.err != nil {
		return fmt.Errorf("%s: %w", name, r.err)
	}
	return nil
}

// ======================================================================= uplink

// RegistrationRequest, Table 8.2.6.1.1.
type RegistrationRequest struct {
	SHT      uint8 // security header type (octet 2 bits 4..1), 0 for a plain message
	RegType  uint8 // 5GS registration type value (3 bits)
	FOR      bool
	KSI      uint8
	TSC      bool
	Identity []byte // 5GS mobile identity, value part

	NonCurrentKSI, Cap5GMM, UESecCap, RequestedNSSAI, LastVisitedTAI, S1UENetCap, UplinkDataStatus, PDUSessionStatus,
	MICO, UEStatus, AdditionalGUTI, AllowedPDUSessionStatus, UsageSetting, RequestedDRX, EPSNASContainer, LADNIndication,
	PayloadContainer, NetworkSlicingInd, UpdateType, NASContainer []byte
}

func (m *RegistrationRequest) specs() []ospec {
	return []ospec{
		{0xC, TV1, 1, &m.NonCurrentKSI}, {0x10, TLV, 0, &m.Cap5GMM}, {0x2E, TLV, 0, &m.UESecCap}, {0x2F, TLV, 0, &m.RequestedNSSAI},
		{0x52, TV, 7, &m.LastVisitedTAI}, {0x17, TLV, 0, &m.S1UENetCap}, {0x40, TLV, 0, &m.UplinkDataStatus}, {0x50, TLV, 0, &m.PDUSessionStatus},
		{0xB, TV1, 1, &m.MICO}, {0x2B, TLV, 0, &m.UEStatus}, {0x77, TLVE, 0, &m.AdditionalGUTI}, {0x25, TLV, 0, &m.AllowedPDUSessionStatus},
		{0x18, TLV, 0, &m.UsageSetting}, {0x51, TLV, 0, &m.RequestedDRX}, {0x70, TLVE, 0, &m.EPSNASContainer}, {0x74, TLVE, 0, &m.LADNIndication},
		{0x7B, TLVE, 0, &m.PayloadContainer}, {0x9, TV1, 1, &m.NetworkSlicingInd}, {0x53, TLV, 0, &m.UpdateType}, {0x71, TLVE, 0, &m.NASContainer},
	}
}

func ParseRegistrationRequest(b []byte) (*RegistrationRequest, error) {
	m := &RegistrationRequest{}
	r := &rd{b: b}
	m.SHT = hdrMM(r, "REGISTRATION REQUEST", 0x41)
	o := r.u8() // 5GS registration type in bits 4..1, ngKSI in bits 8..5
	m.FOR, m.RegType = RegistrationType(o & 0xF)
	m.TSC, m.KSI = KSI(o >> 4)
	m.Identity = r.lve()
	r.opts("REGISTRATION REQUEST", m.specs())
	return m, fin(r, "REGISTRATION REQUEST")
}

func (m *RegistrationRequest) Encode() ([]byte, error) {
	w := &wr{}
	rt := m.RegType & 7
	if m.FOR {
		rt |= 8
	}
	w.u8(0x7E, m.SHT&0xF, 0x41, MakeKSI(m.TSC, m.KSI)<<4|rt)
	w.lve(m.Identity)
	w.opts(m.specs())
	return w.b, w.err
}

// AuthenticationResponse, Table 8.2.2.1.1.
type AuthenticationResponse struct {
	SHT      uint8
	RES, EAP []byte
}

func (m *AuthenticationResponse) specs() []ospec {
	return []ospec{{0x2D, TLV, 0, &m.RES}, {0x78, TLVE, 0, &m.EAP}}
}
func ParseAuthenticationResponse(b []byte) (*AuthenticationResponse, error) {
	m := &AuthenticationResponse{}
	r := &rd{b: b}
	m.SHT = hdrMM(r, "AUTHENTICATION RESPONSE", 0x57)
	r.opts("AUTHENTICATION RESPONSE", m.specs())
	return m, fin(r, "AUTHENTICATION RESPONSE")
}
func (m *AuthenticationResponse) Encode() ([]byte, error) {
	w := &wr{}
	w.u8(0x7E, m.SHT&0xF, 0x57)
	w.opts(m.specs())
	return w.b, w.err
}

// SecurityModeComplete, Table 8.2.26.1.1.
type SecurityModeComplete struct {
	SHT                  uint8
	IMEISV, NASContainer []byte
}

func (m *SecurityModeComplete) specs() []ospec {
	return []ospec{{0x77, TLVE, 0, &m.IMEISV}, {0x71, TLVE, 0, &m.NASContainer}}
}
func ParseSecurityModeComplete(b []byte) (*SecurityModeComplete, error) {
	m := &SecurityModeComplete{}
	r := &rd{b: b}
	m.SHT = hdrMM(r, "SECURITY MODE COMPLETE", 0x5E)
	r.opts("SECURITY MODE COMPLETE", m.specs())
	return m, fin(r, "SECURITY MODE COMPLETE")
}
func (m *SecurityModeComplete) Encode() ([]byte, error) {
	w := &wr{}
	w.u8(0x7E, m.SHT&0xF, 0x5E)
	w.opts(m.specs())
	return w.b, w.err
}

// RegistrationComplete, Table 8.2.8.1.1.
type RegistrationComplete struct {
	SHT uint8
	SOR []byte
}

func (m *RegistrationComplete) specs() []ospec { return []ospec{{0x73, TLVE, 0, &m.SOR}} }
func ParseRegistrationComplete(b []byte) (*RegistrationComplete, error) {
	m := &RegistrationComplete{}
	r := &rd{b: b}
	m.SHT = hdrMM(r, "REGISTRATION COMPLETE", 0x43)
	r.opts("REGISTRATION COMPLETE", m.specs())
	return m, fin(r, "REGISTRATION COMPLETE")
}
func (m *RegistrationComplete) Encode() ([]byte, error) {
	w := &wr{}
	w.u8(0x7E, m.SHT&0xF, 0x43)
	w.opts(m.specs())
	return w.b, w.err
}

// ULNASTransport, Table 8.2.10.1.1.
type ULNASTransport struct {
	SHT         uint8
	PayloadType uint8 // payload container type (4 bits)
	Payload     []byte

	PSI, OldPSI, RequestType, SNSSAI, DNN, AdditionalInfo []byte
}

func (m *ULNASTransport) specs() []ospec {
	return []ospec{{0x12, TV, 2, &m.PSI}, {0x59, TV, 2, &m.OldPSI}, {0x8, TV1, 1, &m.RequestType},
		{0x22, TLV, 0, &m.SNSSAI}, {0x25, TLV, 0, &m.DNN}, {0x24, TLV, 0, &m.AdditionalInfo}}
}
func ParseULNASTransport(b []byte) (*ULNASTransport, error) {
	m := &ULNASTransport{}
	r := &rd{b: b}
	m.SHT = hdrMM(r, "UL NAS TRANSPORT", 0x67)
	o := r.u8()
	if r.err == nil && o&0xF0 != 0 {
		r.err = fmt.Errorf("spare half octet next to the payload container type is %#x", o>>4)
	}
	m.PayloadType = o & 0xF
	m.Payload = r.lve()
	r.opts("UL NAS TRANSPORT", m.specs())
	return m, fin(r, "UL NAS TRANSPORT")
}
func (m *ULNASTransport) Encode() ([]byte, error) {
	w := &wr{}
	w.u8(0x7E, m.SHT&0xF, 0x67, m.PayloadType&0xF)
	w.lve(m.Payload)
	w.opts(m.specs())
	return w.b, w.err
}

// PDUSessionEstablishmentRequest, Table 8.3.1.1.1.
type PDUSessionEstablishmentRequest struct {
	PSI, PTI             uint8
	MaxRateUL, MaxRateDL uint8 // integrity protection maximum data rate, 9.11.4.7: octet 2 uplink, octet 3 downlink

	PDUType, SSCMode, Cap5GSM, MaxPacketFilters, AlwaysOnRequested, SMPDUDNContainer, EPCO []byte
}

func (m *PDUSessionEstablishmentRequest) specs() []ospec {
	return []ospec{{0x9, TV1, 1, &m.PDUType}, {0xA, TV1, 1, &m.SSCMode}, {0x28, TLV, 0, &m.Cap5GSM}, {0x55, TV, 3, &m.MaxPacketFilters},
		{0xB, TV1, 1, &m.AlwaysOnRequested}, {0x39, TLV, 0, &m.SMPDUDNContainer}, {0x7B, TLVE, 0, &m.EPCO}}
}
func ParsePDUSessionEstablishmentRequest(b []byte) (*PDUSessionEstablishmentRequest, error) {
	m := &PDUSessionEstablishmentRequest{}
	r := &rd{b: b}
	m.PSI, m.PTI = hdrSM(r, "PDU SESSION ESTABLISHMENT REQUEST", 0xC1)
	m.MaxRateUL, m.MaxRateDL = r.u8(), r.u8()
	r.opts("PDU SESSION ESTABLISHMENT REQUEST", m.specs())
	return m, fin(r, "PDU SESSION ESTABLISHMENT REQUEST")
}
func (m *PDUSessionEstablishmentRequest) Encode() ([]byte, error) {
	w := &wr{}
	w.u8(0x2E, m.PSI, m.PTI, 0xC1, m.MaxRateUL, m.MaxRateDL)
	w.opts(m.specs())
	return w.b, w.err
}

// PDUSessionRelease{Request,Complete}, Tables 8.3.12.1.1 / 8.3.15.1.1 (same layout).
type PDUSessionRelease struct {
	Complete    bool
	PSI, PTI    uint8
	Cause, EPCO []byte
}

func (m *PDUSessionRelease) specs() []ospec {
	return []ospec{{0x59, TV, 2, &m.Cause}, {0x7B, TLVE, 0, &m.EPCO}}
}
func (m *PDUSessionRelease) mt() (uint8, string) {
	if m.Complete {
		return 0xD4, "PDU SESSION RELEASE COMPLETE"
	}
	return 0xD1, "PDU SESSION RELEASE REQUEST"
}
func ParsePDUSessionRelease(b []byte, complete bool) (*PDUSessionRelease, error) {
	m := &PDUSessionRelease{Complete: complete}
	mt, name := m.mt()
	r := &rd{b: b}
	m.PSI, m.PTI = hdrSM(r, name, mt)
	r.opts(name, m.specs())
	return m, fin(r, name)
}
func (m *PDUSessionRelease) Encode() ([]byte, error) {
	w := &wr{}
	mt, _ := m.mt()
	w.u8(0x2E, m.PSI, m.PTI, mt)
	w.opts(m.specs())
	return w.b, w.err
}

// ServiceRequest, Table 8.2.16.1.1.
type ServiceRequest struct {
	SHT         uint8
	KSI         uint8
	TSC         bool
	ServiceType uint8
	STMSI       []byte // 5G-S-TMSI, value part (7 octets)

	UplinkDataStatus, PDUSessionStatus, AllowedPDUSessionStatus, NASContainer []byte
}

func (m *ServiceRequest) specs() []ospec {
	return []ospec{{0x40, TLV, 0, &m.UplinkDataStatus}, {0x50, TLV, 0, &m.PDUSessionStatus},
		{0x25, TLV, 0, &m.AllowedPDUSessionStatus}, {0x71, TLVE, 0, &m.NASContainer}}
}
func ParseServiceRequest(b []byte) (*ServiceRequest, error) {
	m := &ServiceRequest{}
	r := &rd{b: b}
	m.SHT = hdrMM(r, "SERVICE REQUEST", 0x4C)
	o := r.u8() // ngKSI in bits 4..1, service type in bits 8..5
	m.TSC, m.KSI = KSI(o & 0xF)
	m.ServiceType = o >> 4
	m.STMSI = r.lve()
	r.opts("SERVICE REQUEST", m.specs())
	return m, fin(r, "SERVICE REQUEST")
}
func (m *ServiceRequest) Encode() ([]byte, error) {
	w := &wr{}
	w.u8(0x7E, m.SHT&0xF, 0x4C, m.ServiceType<<4|MakeKSI(m.TSC, m.KSI))
	w.lve(m.STMSI)
	w.opts(m.specs())
	return w.b, w.err
}

// DeregistrationRequest (UE originating), Table 8.2.12.1.1.
type DeregistrationRequest struct {
	SHT        uint8
	SwitchOff  bool
	ReRegister bool
	AccessType uint8
	KSI        uint8
	TSC        bool
	Identity   []byte
}

func ParseDeregistrationRequest(b []byte) (*DeregistrationRequest, error) {
	m := &DeregistrationRequest{}
	r := &rd{b: b}
	m.SHT = hdrMM(r, "DEREGISTRATION REQUEST", 0x45)
	o := r.u8() // de-registration type in bits 4..1, ngKSI in bits 8..5
	m.SwitchOff, m.ReRegister, m.AccessType = DeregistrationType(o & 0xF)
	m.TSC, m.KSI = KSI(o >> 4)
	m.Identity = r.lve()
	if r.more() {
		r.err = fmt.Errorf("%d octets after the last IE", len(b)-r.p)
	}
	return m, fin(r, "DEREGISTRATION REQUEST")
}
func (m *DeregistrationRequest) Encode() ([]byte, error) {
	w := &wr{}
	dt := m.AccessType & 3
	if m.SwitchOff {
		dt |= 8
	}
	if m.ReRegister {
		dt |= 4
	}
	w.u8(0x7E, m.SHT&0xF, 0x45, MakeKSI(m.TSC, m.KSI)<<4|dt)
	w.lve(m.Identity)
	return w.b, w.err
}

// ======================================================================= downlink

// AuthenticationRequest, Table 8.2.1.1.1.
type AuthenticationRequest struct {
	SHT  uint8
	KSI  uint8
	TSC  bool
	ABBA []byte

	RAND, AUTN, EAP []byte
}

func (m *AuthenticationRequest) specs() []ospec {
	return []ospec{{0x21, TV, 17, &m.RAND}, {0x20, TLV, 0, &m.AUTN}, {0x78, TLVE, 0, &m.EAP}}
}
func ParseAuthenticationRequest(b []byte) (*AuthenticationRequest, error) {
	m := &AuthenticationRequest{}
	r := &rd{b: b}
	m.SHT = hdrMM(r, "AUTHENTICATION REQUEST", 0x56)
	o := r.u8() // ngKSI bits 4..1, spare bits 8..5
	m.TSC, m.KSI = KSI(o & 0xF)
	m.ABBA = r.lv()
	r.opts("AUTHENTICATION REQUEST", m.specs())
	return m, fin(r, "AUTHENTICATION REQUEST")
}
func (m *AuthenticationRequest) Encode() ([]byte, error) {
	w := &wr{}
	w.u8(0x7E, m.SHT&0xF, 0x56, MakeKSI(m.TSC, m.KSI))
	w.lv(m.ABBA)
	w.opts(m.specs())
	return w.b, w.err
}

// SecurityModeCommand, Table 8.2.25.1.1.
type SecurityModeCommand struct {
	SHT                 uint8
	Ciphering, Integrit uint8 // selected NAS security algorithms
	KSI                 uint8
	TSC                 bool
	ReplayedUESecCap    []byte

	IMEISVRequest, EPSAlgorithms, Additional5GSecInfo, EAP, ABBA, ReplayedS1UESecCap []byte
}

func (m *SecurityModeCommand) specs() []ospec {
	return []ospec{{0xE, TV1, 1, &m.IMEISVRequest}, {0x57, TV, 2, &m.EPSAlgorithms}, {0x36, TLV, 0, &m.Additional5GSecInfo},
		{0x78, TLVE, 0, &m.EAP}, {0x38, TLV, 0, &m.ABBA}, {0x19, TLV, 0, &m.ReplayedS1UESecCap}}
}
func ParseSecurityModeCommand(b []byte) (*SecurityModeCommand, error) {
	m := &SecurityModeCommand{}
	r := &rd{b: b}
	m.SHT = hdrMM(r, "SECURITY MODE COMMAND", 0x5D)
	m.Ciphering, m.Integrit = SecurityAlgorithms(r.u8())
	o := r.u8()
	m.TSC, m.KSI = KSI(o & 0xF)
	m.ReplayedUESecCap = r.lv()
	r.opts("SECURITY MODE COMMAND", m.specs())
	return m, fin(r, "SECURITY MODE COMMAND")
}
func (m *SecurityModeCommand) Encode() ([]byte, error) {
	w := &wr{}
	w.u8(0x7E, m.SHT&0xF, 0x5D, m.Ciphering<<4|m.Integrit&0xF, MakeKSI(m.TSC, m.KSI))
	w.lv(m.ReplayedUESecCap)
	w.opts(m.specs())
	return w.b, w.err
}

// RegistrationAccept, Table 8.2.7.1.1.
type RegistrationAccept struct {
	SHT    uint8
	Result []byte // 5GS registration result, value part (1 octet: bit 4 SMS allowed, bits 3..1 result value)

	GUTI, EquivalentPLMNs, TAIList, AllowedNSSAI, RejectedNSSAI, ConfiguredNSSAI, NetworkFeatureSupport, PDUSessionStatus,
	ReactivationResult, ReactivationErrorCause, LADNInformation, MICO, NetworkSlicingInd, ServiceAreaList, T3512,
	Non3GPPDeregTimer, T3502, EmergencyNumbers, ExtEmergencyNumbers, SOR, EAP, NSSAIInclusionMode, OperatorAccessCategories,
	NegotiatedDRX []byte
}

func (m *RegistrationAccept) specs() []ospec {
	return []ospec{
		{0x77, TLVE, 0, &m.GUTI}, {0x4A, TLV, 0, &m.EquivalentPLMNs}, {0x54, TLV, 0, &m.TAIList}, {0x15, TLV, 0, &m.AllowedNSSAI},
		{0x11, TLV, 0, &m.RejectedNSSAI}, {0x31, TLV, 0, &m.ConfiguredNSSAI}, {0x21, TLV, 0, &m.NetworkFeatureSupport},
		{0x50, TLV, 0, &m.PDUSessionStatus}, {0x26, TLV, 0, &m.ReactivationResult}, {0x72, TLVE, 0, &m.ReactivationErrorCause},
		{0x79, TLVE, 0, &m.LADNInformation}, {0xB, TV1, 1, &m.MICO}, {0x9, TV1, 1, &m.NetworkSlicingInd}, {0x27, TLV, 0, &m.ServiceAreaList},
		{0x5E, TLV, 0, &m.T3512}, {0x5D, TLV, 0, &m.Non3GPPDeregTimer}, {0x16, TLV, 0, &m.T3502}, {0x34, TLV, 0, &m.EmergencyNumbers},
		{0x7A, TLVE, 0, &m.ExtEmergencyNumbers}, {0x73, TLVE, 0, &m.SOR}, {0x78, TLVE, 0, &m.EAP}, {0xA, TV1, 1, &m.NSSAIInclusionMode},
		{0x76, TLVE, 0, &m.OperatorAccessCategories}, {0x51, TLV, 0, &m.NegotiatedDRX},
	}
}
func ParseRegistrationAccept(b []byte) (*RegistrationAccept, error) {
	m := &RegistrationAccept{}
	r := &rd{b: b}
	m.SHT = hdrMM(r, "REGISTRATION ACCEPT", 0x42)
	m.Result = r.lv()
	r.opts("REGISTRATION ACCEPT", m.specs())
	return m, fin(r, "REGISTRATION ACCEPT")
}
func (m *RegistrationAccept) Encode() ([]byte, error) {
	w := &wr{}
	w.u8(0x7E, m.SHT&0xF, 0x42)
	w.lv(m.Result)
	w.opts(m.specs())
	return w.b, w.err
}

// ConfigurationUpdateCommand, Table 8.2.19.1.1.
type ConfigurationUpdateCommand struct {
	SHT uint8

	Indication, GUTI, TAIList, AllowedNSSAI, ServiceAreaList, FullName, ShortName, LocalTimeZone, UniversalTime, DaylightSaving,
	LADNInformation, MICO, NetworkSlicingInd, ConfiguredNSSAI, RejectedNSSAI, OperatorAccessCategories, SMSIndication []byte
}

func (m *ConfigurationUpdateCommand) specs() []ospec {
	return []ospec{
		{0xD, TV1, 1, &m.Indication}, {0x77, TLVE, 0, &m.GUTI}, {0x54, TLV, 0, &m.TAIList}, {0x15, TLV, 0, &m.AllowedNSSAI},
		{0x27, TLV, 0, &m.ServiceAreaList}, {0x43, TLV, 0, &m.FullName}, {0x45, TLV, 0, &m.ShortName}, {0x46, TV, 2, &m.LocalTimeZone},
		{0x47, TV, 8, &m.UniversalTime}, {0x49, TLV, 0, &m.DaylightSaving}, {0x79, TLVE, 0, &m.LADNInformation}, {0xB, TV1, 1, &m.MICO},
		{0x9, TV1, 1, &m.NetworkSlicingInd}, {0x31, TLV, 0, &m.ConfiguredNSSAI}, {0x11, TLV, 0, &m.RejectedNSSAI},
		{0x76, TLVE, 0, &m.OperatorAccessCategories}, {0xF, TV1, 1, &m.SMSIndication},
	}
}
func ParseConfigurationUpdateCommand(b []byte) (*ConfigurationUpdateCommand, error) {
	m := &ConfigurationUpdateCommand{}
	r := &rd{b: b}
	m.SHT = hdrMM(r, "CONFIGURATION UPDATE COMMAND", 0x54)
	r.opts("CONFIGURATION UPDATE COMMAND", m.specs())
	return m, fin(r, "CONFIGURATION UPDATE COMMAND")
}
func (m *ConfigurationUpdateCommand) Encode() ([]byte, error) {
	w := &wr{}
	w.u8(0x7E, m.SHT&0xF, 0x54)
	w.opts(m.specs())
	return w.b, w.err
}

// DLNASTransport, Table 8.2.11.1.1.
type DLNASTransport struct {
	SHT         uint8
	PayloadType uint8
	Payload     []byte

	PSI, AdditionalInfo, Cause, Backoff []byte
}

func (m *DLNASTransport) specs() []ospec {
	return []ospec{{0x12, TV, 2, &m.PSI}, {0x24, TLV, 0, &m.AdditionalInfo}, {0x58, TV, 2, &m.Cause}, {0x37, TLV, 0, &m.Backoff}}
}
func ParseDLNASTransport(b []byte) (*DLNASTransport, error) {
	m := &DLNASTransport{}
	r := &rd{b: b}
	m.SHT = hdrMM(r, "DL NAS TRANSPORT", 0x68)
	o := r.u8()
	m.PayloadType = o & 0xF
	m.Payload = r.lve()
	r.opts("DL NAS TRANSPORT", m.specs())
	return m, fin(r, "DL NAS TRANSPORT")
}
func (m *DLNASTransport) Encode() ([]byte, error) {
	w := &wr{}
	w.u8(0x7E, m.SHT&0xF, 0x68, m.PayloadType&0xF)
	w.lve(m.Payload)
	w.opts(m.specs())
	return w.b, w.err
}

// PDUSessionEstablishmentAccept, Table 8.3.2.1.1.
type PDUSessionEstablishmentAccept struct {
	PSI, PTI uint8
	PDUType  uint8 // selected PDU session type (bits 4..1 of octet 5; 3 bits used)
	SSCMode  uint8 // selected SSC mode (bits 8..5 of octet 5; 3 bits used)
	QoSRules []byte
	AMBR     []byte // session-AMBR, value part (6 octets)

	Cause, PDUAddress, RQTimer, SNSSAI, AlwaysOn, MappedEPSBearers, EAP, QoSFlowDescriptions, EPCO, DNN []byte
}

func (m *PDUSessionEstablishmentAccept) specs() []ospec {
	return []ospec{{0x59, TV, 2, &m.Cause}, {0x29, TLV, 0, &m.PDUAddress}, {0x56, TV, 2, &m.RQTimer}, {0x22, TLV, 0, &m.SNSSAI},
		{0x8, TV1, 1, &m.AlwaysOn}, {0x75, TLVE, 0, &m.MappedEPSBearers}, {0x78, TLVE, 0, &m.EAP}, {0x79, TLVE, 0, &m.QoSFlowDescriptions},
		{0x7B, TLVE, 0, &m.EPCO}, {0x25, TLV, 0, &m.DNN}}
}
func ParsePDUSessionEstablishmentAccept(b []byte) (*PDUSessionEstablishmentAccept, error) {
	m := &PDUSessionEstablishmentAccept{}
	r := &rd{b: b}
	m.PSI, m.PTI = hdrSM(r, "PDU SESSION ESTABLISHMENT ACCEPT", 0xC2)
	o := r.u8()
	m.PDUType, m.SSCMode = o&0xF, o>>4
	m.QoSRules = r.lve()
	m.AMBR = r.lv()
	r.opts("PDU SESSION ESTABLISHMENT ACCEPT", m.specs())
	return m, fin(r, "PDU SESSION ESTABLISHMENT ACCEPT")
}
func (m *PDUSessionEstablishmentAccept) Encode() ([]byte, error) {
	w := &wr{}
	w.u8(0x2E, m.PSI, m.PTI, 0xC2, m.SSCMode<<4|m.PDUType&0xF)
	w.lve(m.QoSRules)
	w.lv(m.AMBR)
	w.opts(m.specs())
	return w.b, w.err
}

// PDUSessionReleaseCommand, Table 8.3.14.1.1.
type PDUSessionReleaseCommand struct {
	PSI, PTI uint8
	Cause    uint8

	Backoff, EAP, EPCO []byte
}

func (m *PDUSessionReleaseCommand) specs() []ospec {
	return []ospec{{0x37, TLV, 0, &m.Backoff}, {0x78, TLVE, 0, &m.EAP}, {0x7B, TLVE, 0, &m.EPCO}}
}
func ParsePDUSessionReleaseCommand(b []byte) (*PDUSessionReleaseCommand, error) {
	m := &PDUSessionReleaseCommand{}
	r := &rd{b: b}
	m.PSI, m.PTI = hdrSM(r, "PDU SESSION RELEASE COMMAND", 0xD3)
	m.Cause = r.u8()
	r.opts("PDU SESSION RELEASE COMMAND", m.specs())
	return m, fin(r, "PDU SESSION RELEASE COMMAND")
}
func (m *PDUSessionReleaseCommand) Encode() ([]byte, error) {
	w := &wr{}
	w.u8(0x2E, m.PSI, m.PTI, 0xD3, m.Cause)
	w.opts(m.specs())
	return w.b, w.err
}

// ServiceAccept, Table 8.2.17.1.1.
type ServiceAccept struct {
	SHT uint8

	PDUSessionStatus, ReactivationResult, ReactivationErrorCause, EAP []byte
}

func (m *ServiceAccept) specs() []ospec {
	return []ospec{{0x50, TLV, 0, &m.PDUSessionStatus}, {0x26, TLV, 0, &m.ReactivationResult},
		{0x72, TLVE, 0, &m.ReactivationErrorCause}, {0x78, TLVE, 0, &m.EAP}}
}
func ParseServiceAccept(b []byte) (*ServiceAccept, error) {
	m := &ServiceAccept{}
	r := &rd{b: b}
	m.SHT = hdrMM(r, "SERVICE ACCEPT", 0x4E)
	r.opts("SERVICE ACCEPT", m.specs())
	return m, fin(r, "SERVICE ACCEPT")
}
func (m *ServiceAccept) Encode() ([]byte, error) {
	w := &wr{}
	w.u8(0x7E, m.SHT&0xF, 0x4E)
	w.opts(m.specs())
	return w.b, w.err
}

// DeregistrationAccept (UE originating de-registration), Table 8.2.13.1.1: header only.
func EncodeDeregistrationAccept() []byte { return []byte{0x7E, 0x00, 0x46} }
func ParseDeregistrationAccept(b []byte) error {
	r := &rd{b: b}
	hdrMM(r, "DEREGISTRATION ACCEPT", 0x46)
	if r.more() {
		r.err = fmt.Errorf("%d octets after the header", len(b)-r.p)
	}
	return fin(r, "DEREGISTRATION ACCEPT")
}
