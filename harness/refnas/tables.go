// Package refnas is an independent reference for the 5GS NAS wire format of 3GPP TS 24.501
// (Release 15): (a) the message tables of clauses 8.2 / 8.3 and 9.7 typed in from the
// specification, with a generic table-driven encoder and parser (generic.go), and (b)
// hand-written field-level encoders / parsers for the messages on the emulator's path and the
// information elements they carry (fields.go, messages.go).
//
// The package uses the standard library only and must never import anything from the code
// under test. The only thing it knows about the library is the *name* of the Go field a given
// information element has to land in (column Go), so that a test can check "this IE of the
// specification is that field of the library".
package refnas

import "fmt"

// Format of an information element (TS 24.007 clause 11.2.1.1).
type Format uint8

const (
	_     Format = iota
	V            // value only, whole octets, fixed length
	HalfV        // two type-1 value parts sharing one octet (first in the table = bits 4..1, second = bits 8..5)
	LV           // one length octet + value
	LVE          // two length octets + value
	TV1          // type 1: IEI in bits 8..5, value in bits 4..1 (one octet)
	TV           // type 3: IEI octet + fixed-length value
	TLV          // type 4: IEI, one length octet, value
	TLVE         // type 6: IEI, two length octets, value
	VRest        // value only, extends to the end of the message (plain 5GS NAS message inside the security envelope)
)

func (f Format) String() string {
	switch f {
	case V:
		return "V"
	case HalfV:
		return "V(1/2+1/2)"
	case LV:
		return "LV"
	case LVE:
		return "LV-E"
	case TV1:
		return "TV(1/2)"
	case TV:
		return "TV"
	case TLV:
		return "TLV"
	case TLVE:
		return "TLV-E"
	case VRest:
		return "V(rest)"
	}
	return fmt.Sprintf("Format(%d)", uint8(f))
}

// LenWidth is the number of length octets of the format.
func (f Format) LenWidth() int {
	switch f {
	case LV, TLV:
		return 1
	case LVE, TLVE:
		return 2
	}
	return 0
}

// Overhead is the number of octets of an IE that are not value (IEI + length octets). The
// "Length" column of the message tables counts them.
func (f Format) Overhead() int {
	switch f {
	case LV:
		return 1
	case LVE:
		return 2
	case TV:
		return 1
	case TLV:
		return 2
	case TLVE:
		return 3
	case TV1:
		return 1
	}
	return 0
}

const N = -1 // "n" in the Length column: bounded only by the width of the length field

// Mand is one element of the mandatory part of a message, in table order.
type Mand struct {
	Name   string // information element as named in the table (for HalfV: the element in bits 4..1)
	Hi     string // HalfV only: the element in bits 8..5
	Fmt    Format // V, HalfV, LV, LVE, VRest
	MinLen int    // "Length" column, total octets of the element including its length octets
	MaxLen int    // N = unbounded
	Go     string // Go field (embedded type name) of the library struct that must hold it
	Fixed  int    // >=0: the element has this fixed value (EPD, message type); -1 otherwise
}

// Opt is one optional information element of a message, in table order.
type Opt struct {
	IEI    uint8  // full IEI octet; for TV1 the IEI is the high nibble only: IEI is then 0x8..0xF
	Name   string // information element as named in the table
	Fmt    Format // TV1, TV, TLV, TLVE
	MinLen int    // "Length" column, total octets including IEI and length octets
	MaxLen int    // N = unbounded
	Lens   []int  // if set: the only legal total lengths ("7, 11 or 15")
	Go     string // Go field (embedded pointer type name) of the library struct
	// Unadjudicated is non-empty when the IEI of this element differs between versions of the
	// specification that I cannot tell apart with confidence; the pair is then excluded from the
	// C09 claim. AltIEI is the other candidate value.
	Unadjudicated string
	AltIEI        uint8
}

// ValueLen returns the range of the value part (content) in octets. max is clipped to what
// the length field can express.
func (o *Opt) ValueLen() (min, max int) {
	return valueLen(o.Fmt, o.MinLen, o.MaxLen)
}
func (m *Mand) ValueLen() (min, max int) {
	return valueLen(m.Fmt, m.MinLen, m.MaxLen)
}

func valueLen(f Format, minLen, maxLen int) (int, int) {
	ov := f.Overhead()
	switch f {
	case HalfV, TV1:
		return 1, 1 // one octet on the wire (shared)
	case VRest:
		if maxLen == N {
			return minLen, 1 << 16
		}
		return minLen, maxLen
	}
	mn := minLen - ov
	var mx int
	if maxLen == N {
		switch f.LenWidth() {
		case 1:
			mx = 255
		case 2:
			mx = 65535
		default:
			mx = mn
		}
	} else {
		mx = maxLen - ov
	}
	if f.LenWidth() == 1 && mx > 255 {
		mx = 255
	}
	if f.LenWidth() == 2 && mx > 65535 {
		mx = 65535
	}
	if mn < 0 {
		mn = 0
	}
	return mn, mx
}

// MsgDef is one message of clause 8.2 (5GMM) or 8.3 (5GSM).
type MsgDef struct {
	Name   string // = name of the library's Go struct for this message
	Clause string
	Title  string // message name in the specification
	EPD    uint8  // 0x7E 5GMM, 0x2E 5GSM
	MT     uint8  // message type octet, Table 9.7.1 / 9.7.2
	HasMT  bool   // false only for the security protected 5GS NAS message (8.2.28), which has none
	Dir    string // "UL", "DL", "both"
	Mand   []Mand // complete mandatory part including the header octets
	Opts   []Opt
}

const (
	EPD5GMM uint8 = 0x7E // TS 24.007 11.2.3.1.1A: 0111 1110 5GS mobility management messages
	EPD5GSM uint8 = 0x2E // 0010 1110 5GS session management messages
)

// OptByIEI finds the optional IE for an IEI octet read from the wire (type-1 IEs are found by
// their high nibble), or nil.
func (d *MsgDef) OptByIEI(b uint8) *Opt {
	for i := range d.Opts {
		o := &d.Opts[i]
		if o.Fmt == TV1 {
			if b>>4 == o.IEI {
				return o
			}
		} else if b == o.IEI {
			return o
		}
	}
	return nil
}

func (d *MsgDef) OptByGo(name string) *Opt {
	for i := range d.Opts {
		if d.Opts[i].Go == name {
			return &d.Opts[i]
		}
	}
	return nil
}

func (d *MsgDef) OptIndex(o *Opt) int {
	for i := range d.Opts {
		if &d.Opts[i] == o {
			return i
		}
	}
	return -1
}

// ---------------------------------------------------------------------------------------
// helpers to keep the tables close to the layout of the specification

func v(name string, n int, goField string) Mand {
	return Mand{Name: name, Fmt: V, MinLen: n, MaxLen: n, Go: goField, Fixed: -1}
}
func half(lo, hi string, goField string) Mand {
	return Mand{Name: lo, Hi: hi, Fmt: HalfV, MinLen: 1, MaxLen: 1, Go: goField, Fixed: -1}
}
func lv(name string, min, max int, goField string) Mand {
	return Mand{Name: name, Fmt: LV, MinLen: min, MaxLen: max, Go: goField, Fixed: -1}
}
func lve(name string, min, max int, goField string) Mand {
	return Mand{Name: name, Fmt: LVE, MinLen: min, MaxLen: max, Go: goField, Fixed: -1}
}
func tv1(iei uint8, name string, goField string) Opt {
	return Opt{IEI: iei, Name: name, Fmt: TV1, MinLen: 1, MaxLen: 1, Go: goField}
}
func tv(iei uint8, name string, n int, goField string) Opt {
	return Opt{IEI: iei, Name: name, Fmt: TV, MinLen: n, MaxLen: n, Go: goField}
}
func tlv(iei uint8, name string, min, max int, goField string) Opt {
	return Opt{IEI: iei, Name: name, Fmt: TLV, MinLen: min, MaxLen: max, Go: goField}
}
func tlve(iei uint8, name string, min, max int, goField string) Opt {
	return Opt{IEI: iei, Name: name, Fmt: TLVE, MinLen: min, MaxLen: max, Go: goField}
}

// mm builds a 5GMM message: extended protocol discriminator, security header type + spare
// half octet, message type, then the message specific part (TS 24.501 8.2.x tables, rows 1-4).
func mm(name, clause, title string, mt uint8, dir string, midGo string, mand []Mand, opts []Opt) *MsgDef {
	hdr := []Mand{
		{Name: "Extended protocol discriminator", Fmt: V, MinLen: 1, MaxLen: 1, Go: "ExtendedProtocolDiscriminator", Fixed: int(EPD5GMM)},
		half("Security header type", "Spare half octet", "SpareHalfOctetAndSecurityHeaderType"),
		{Name: title + " message identity", Fmt: V, MinLen: 1, MaxLen: 1, Go: midGo, Fixed: int(mt)},
	}
	return &MsgDef{Name: name, Clause: clause, Title: title, EPD: EPD5GMM, MT: mt, HasMT: true, Dir: dir,
		Mand: append(hdr, mand...), Opts: opts}
}

// sm builds a 5GSM message: extended protocol discriminator, PDU session ID, PTI, message type.
func sm(name, clause, title string, mt uint8, dir string, midGo string, mand []Mand, opts []Opt) *MsgDef {
	hdr := []Mand{
		{Name: "Extended protocol discriminator", Fmt: V, MinLen: 1, MaxLen: 1, Go: "ExtendedProtocolDiscriminator", Fixed: int(EPD5GSM)},
		v("PDU session ID", 1, "PDUSessionID"),
		v("PTI", 1, "PTI"),
		{Name: title + " message identity", Fmt: V, MinLen: 1, MaxLen: 1, Go: midGo, Fixed: int(mt)},
	}
	return &MsgDef{Name: name, Clause: clause, Title: title, EPD: EPD5GSM, MT: mt, HasMT: true, Dir: dir,
		Mand: append(hdr, mand...), Opts: opts}
}

// Frequently used optional IEs (same IEI and format wherever they occur in Release 15).
func eapTLVE() Opt       { return tlve(0x78, "EAP message", 7, 1503, "EAPMessage") }
func epcoTLVE() Opt      { return tlve(0x7B, "Extended protocol configuration options", 4, 65538, "ExtendedProtocolConfigurationOptions") }
func pduStatus() Opt     { return tlv(0x50, "PDU session status", 4, 34, "PDUSessionStatus") }
func t3346() Opt         { return tlv(0x5F, "T3346 value", 3, 3, "T3346Value") }
func t3502() Opt         { return tlv(0x16, "T3502 value", 3, 3, "T3502Value") }
func backoff() Opt       { return tlv(0x37, "Back-off timer value", 3, 3, "BackoffTimerValue") }
func cause5GSMTV() Opt   { return tv(0x59, "5GSM cause", 2, "Cause5GSM") }
func cause5GMMTV() Opt   { return tv(0x58, "5GMM cause", 2, "Cause5GMM") }
func mico() Opt          { return tv1(0xB, "MICO indication", "MICOIndication") }
func nwSlicingInd() Opt  { return tv1(0x9, "Network slicing indication", "NetworkSlicingIndication") }
func nasMsgCont() Opt    { return tlve(0x71, "NAS message container", 4, N, "NASMessageContainer") }
func cause5GMMV() Mand   { return v("5GMM cause", 1, "Cause5GMM") }
func cause5GSMV() Mand   { return v("5GSM cause", 1, "Cause5GSM") }
func payloadHalf() Mand  { return half("Payload container type", "Spare half octet", "SpareHalfOctetAndPayloadContainerType") }
func payloadLVE() Mand   { return lve("Payload container", 3, 65537, "PayloadContainer") }
func ngksiSpare() Mand   { return half("ngKSI", "Spare half octet", "SpareHalfOctetAndNgksi") }
func mappedEPS(iei, alt uint8, why string) Opt {
	o := tlve(iei, "Mapped EPS bearer contexts", 7, 65538, "MappedEPSBearerContexts")
	o.Unadjudicated, o.AltIEI = why, alt
	return o
}

const mappedWhy = "Mapped EPS bearer contexts: early Release-15 versions of Tables 8.3.7.1.1 / 8.3.9.1.1 carry IEI 7F, later versions 75; " +
	"I cannot reproduce with confidence which value the version the library was generated from has"

// Messages is the table of all 45 message types, in clause order.
var Messages = []*MsgDef{
	// ------------------------------------------------------------------ 8.2 5GMM
	mm("AuthenticationRequest", "8.2.1", "Authentication request", 0x56, "DL", "AuthenticationRequestMessageIdentity",
		[]Mand{ngksiSpare(), lv("ABBA", 3, N, "ABBA")},
		[]Opt{
			tv(0x21, "Authentication parameter RAND", 17, "AuthenticationParameterRAND"),
			tlv(0x20, "Authentication parameter AUTN", 18, 18, "AuthenticationParameterAUTN"),
			eapTLVE(),
		}),
	mm("AuthenticationResponse", "8.2.2", "Authentication response", 0x57, "UL", "AuthenticationResponseMessageIdentity",
		nil,
		[]Opt{
			tlv(0x2D, "Authentication response parameter", 18, 18, "AuthenticationResponseParameter"),
			eapTLVE(),
		}),
	mm("AuthenticationResult", "8.2.3", "Authentication result", 0x5A, "DL", "AuthenticationResultMessageIdentity",
		[]Mand{ngksiSpare(), lve("EAP message", 6, 1502, "EAPMessage")},
		[]Opt{tlv(0x38, "ABBA", 4, N, "ABBA")}),
	mm("AuthenticationFailure", "8.2.4", "Authentication failure", 0x59, "UL", "AuthenticationFailureMessageIdentity",
		[]Mand{cause5GMMV()},
		[]Opt{tlv(0x30, "Authentication failure parameter", 16, 16, "AuthenticationFailureParameter")}),
	mm("AuthenticationReject", "8.2.5", "Authentication reject", 0x58, "DL", "AuthenticationRejectMessageIdentity",
		nil, []Opt{eapTLVE()}),
	mm("RegistrationRequest", "8.2.6", "Registration request", 0x41, "UL", "RegistrationRequestMessageIdentity",
		[]Mand{
			half("5GS registration type", "ngKSI", "NgksiAndRegistrationType5GS"),
			lve("5GS mobile identity", 6, N, "MobileIdentity5GS"),
		},
		[]Opt{
			tv1(0xC, "Non-current native NAS key set identifier", "NoncurrentNativeNASKeySetIdentifier"),
			tlv(0x10, "5GMM capability", 3, 15, "Capability5GMM"),
			tlv(0x2E, "UE security capability", 4, 10, "UESecurityCapability"),
			tlv(0x2F, "Requested NSSAI", 4, 74, "RequestedNSSAI"),
			tv(0x52, "Last visited registered TAI", 7, "LastVisitedRegisteredTAI"),
			tlv(0x17, "S1 UE network capability", 4, 15, "S1UENetworkCapability"),
			tlv(0x40, "Uplink data status", 4, 34, "UplinkDataStatus"),
			pduStatus(),
			mico(),
			tlv(0x2B, "UE status", 3, 3, "UEStatus"),
			tlve(0x77, "Additional GUTI", 14, 14, "AdditionalGUTI"),
			tlv(0x25, "Allowed PDU session status", 4, 34, "AllowedPDUSessionStatus"),
			tlv(0x18, "UE's usage setting", 3, 3, "UesUsageSetting"),
			tlv(0x51, "Requested DRX parameters", 3, 3, "RequestedDRXParameters"),
			tlve(0x70, "EPS NAS message container", 4, N, "EPSNASMessageContainer"),
			tlve(0x74, "LADN indication", 3, 811, "LADNIndication"),
			tlve(0x7B, "Payload container", 4, 65538, "PayloadContainer"),
			nwSlicingInd(),
			tlv(0x53, "5GS update type", 3, 3, "UpdateType5GS"),
			nasMsgCont(),
		}),
	mm("RegistrationAccept", "8.2.7", "Registration accept", 0x42, "DL", "RegistrationAcceptMessageIdentity",
		[]Mand{lv("5GS registration result", 2, 2, "RegistrationResult5GS")},
		[]Opt{
			tlve(0x77, "5G-GUTI", 14, 14, "GUTI5G"),
			tlv(0x4A, "Equivalent PLMNs", 5, 47, "EquivalentPlmns"),
			tlv(0x54, "TAI list", 9, 114, "TAIList"),
			tlv(0x15, "Allowed NSSAI", 4, 74, "AllowedNSSAI"),
			tlv(0x11, "Rejected NSSAI", 4, 42, "RejectedNSSAI"),
			tlv(0x31, "Configured NSSAI", 4, 146, "ConfiguredNSSAI"),
			tlv(0x21, "5GS network feature support", 3, 5, "NetworkFeatureSupport5GS"),
			pduStatus(),
			tlv(0x26, "PDU session reactivation result", 4, 34, "PDUSessionReactivationResult"),
			tlve(0x72, "PDU session reactivation result error cause", 5, 515, "PDUSessionReactivationResultErrorCause"),
			tlve(0x79, "LADN information", 12, 1715, "LADNInformation"),
			mico(),
			nwSlicingInd(),
			tlv(0x27, "Service area list", 6, 114, "ServiceAreaList"),
			tlv(0x5E, "T3512 value", 3, 3, "T3512Value"),
			tlv(0x5D, "Non-3GPP de-registration timer value", 3, 3, "Non3GppDeregistrationTimerValue"),
			t3502(),
			tlv(0x34, "Emergency number list", 5, 50, "EmergencyNumberList"),
			tlve(0x7A, "Extended emergency number list", 7, 65538, "ExtendedEmergencyNumberList"),
			tlve(0x73, "SOR transparent container", 20, N, "SORTransparentContainer"),
			eapTLVE(),
			tv1(0xA, "NSSAI inclusion mode", "NSSAIInclusionMode"),
			tlve(0x76, "Operator-defined access category definitions", 3, N, "OperatordefinedAccessCategoryDefinitions"),
			tlv(0x51, "Negotiated DRX parameters", 3, 3, "NegotiatedDRXParameters"),
		}),
	mm("RegistrationComplete", "8.2.8", "Registration complete", 0x43, "UL", "RegistrationCompleteMessageIdentity",
		nil, []Opt{tlve(0x73, "SOR transparent container", 20, 20, "SORTransparentContainer")}),
	mm("RegistrationReject", "8.2.9", "Registration reject", 0x44, "DL", "RegistrationRejectMessageIdentity",
		[]Mand{cause5GMMV()},
		[]Opt{t3346(), t3502(), eapTLVE()}),
	mm("ULNASTransport", "8.2.10", "UL NAS transport", 0x67, "UL", "ULNASTRANSPORTMessageIdentity",
		[]Mand{payloadHalf(), payloadLVE()},
		[]Opt{
			tv(0x12, "PDU session ID", 2, "PduSessionID2Value"),
			tv(0x59, "Old PDU session ID", 2, "OldPDUSessionID"),
			tv1(0x8, "Request type", "RequestType"),
			tlv(0x22, "S-NSSAI", 3, 10, "SNSSAI"),
			tlv(0x25, "DNN", 3, 102, "DNN"),
			tlv(0x24, "Additional information", 3, N, "AdditionalInformation"),
		}),
	mm("DLNASTransport", "8.2.11", "DL NAS transport", 0x68, "DL", "DLNASTRANSPORTMessageIdentity",
		[]Mand{payloadHalf(), payloadLVE()},
		[]Opt{
			tv(0x12, "PDU session ID", 2, "PduSessionID2Value"),
			tlv(0x24, "Additional information", 3, N, "AdditionalInformation"),
			cause5GMMTV(),
			backoff(),
		}),
	mm("DeregistrationRequestUEOriginatingDeregistration", "8.2.12", "De-registration request (UE originating de-registration)", 0x45, "UL",
		"DeregistrationRequestMessageIdentity",
		[]Mand{
			half("De-registration type", "ngKSI", "NgksiAndDeregistrationType"),
			lve("5GS mobile identity", 6, N, "MobileIdentity5GS"),
		}, nil),
	mm("DeregistrationAcceptUEOriginatingDeregistration", "8.2.13", "De-registration accept (UE originating de-registration)", 0x46, "DL",
		"DeregistrationAcceptMessageIdentity", nil, nil),
	mm("DeregistrationRequestUETerminatedDeregistration", "8.2.14", "De-registration request (UE terminated de-registration)", 0x47, "DL",
		"DeregistrationRequestMessageIdentity",
		[]Mand{half("De-registration type", "Spare half octet", "SpareHalfOctetAndDeregistrationType")},
		[]Opt{cause5GMMTV(), t3346()}),
	mm("DeregistrationAcceptUETerminatedDeregistration", "8.2.15", "De-registration accept (UE terminated de-registration)", 0x48, "UL",
		"DeregistrationAcceptMessageIdentity", nil, nil),
	mm("ServiceRequest", "8.2.16", "Service request", 0x4C, "UL", "ServiceRequestMessageIdentity",
		[]Mand{
			half("ngKSI", "Service type", "ServiceTypeAndNgksi"),
			lve("5G-S-TMSI", 9, 9, "TMSI5GS"),
		},
		[]Opt{
			tlv(0x40, "Uplink data status", 4, 34, "UplinkDataStatus"),
			pduStatus(),
			tlv(0x25, "Allowed PDU session status", 4, 34, "AllowedPDUSessionStatus"),
			nasMsgCont(),
		}),
	mm("ServiceAccept", "8.2.17", "Service accept", 0x4E, "DL", "ServiceAcceptMessageIdentity",
		nil,
		[]Opt{
			pduStatus(),
			tlv(0x26, "PDU session reactivation result", 4, 34, "PDUSessionReactivationResult"),
			tlve(0x72, "PDU session reactivation result error cause", 5, 515, "PDUSessionReactivationResultErrorCause"),
			eapTLVE(),
		}),
	mm("ServiceReject", "8.2.18", "Service reject", 0x4D, "DL", "ServiceRejectMessageIdentity",
		[]Mand{cause5GMMV()},
		[]Opt{pduStatus(), t3346(), eapTLVE()}),
	mm("ConfigurationUpdateCommand", "8.2.19", "Configuration update command", 0x54, "DL", "ConfigurationUpdateCommandMessageIdentity",
		nil,
		[]Opt{
			tv1(0xD, "Configuration update indication", "ConfigurationUpdateIndication"),
			tlve(0x77, "5G-GUTI", 14, 14, "GUTI5G"),
			tlv(0x54, "TAI list", 9, 114, "TAIList"),
			tlv(0x15, "Allowed NSSAI", 4, 74, "AllowedNSSAI"),
			tlv(0x27, "Service area list", 6, 114, "ServiceAreaList"),
			tlv(0x43, "Full name for network", 3, N, "FullNameForNetwork"),
			tlv(0x45, "Short name for network", 3, N, "ShortNameForNetwork"),
			tv(0x46, "Local time zone", 2, "LocalTimeZone"),
			tv(0x47, "Universal time and local time zone", 8, "UniversalTimeAndLocalTimeZone"),
			tlv(0x49, "Network daylight saving time", 3, 3, "NetworkDaylightSavingTime"),
			tlve(0x79, "LADN information", 3, 1715, "LADNInformation"),
			mico(),
			nwSlicingInd(),
			tlv(0x31, "Configured NSSAI", 4, 146, "ConfiguredNSSAI"),
			tlv(0x11, "Rejected NSSAI", 4, 42, "RejectedNSSAI"),
			tlve(0x76, "Operator-defined access category definitions", 3, N, "OperatordefinedAccessCategoryDefinitions"),
			tv1(0xF, "SMS indication", "SMSIndication"),
		}),
	mm("ConfigurationUpdateComplete", "8.2.20", "Configuration update complete", 0x55, "UL", "ConfigurationUpdateCompleteMessageIdentity", nil, nil),
	mm("IdentityRequest", "8.2.21", "Identity request", 0x5B, "DL", "IdentityRequestMessageIdentity",
		[]Mand{half("Identity type", "Spare half octet", "SpareHalfOctetAndIdentityType")}, nil),
	mm("IdentityResponse", "8.2.22", "Identity response", 0x5C, "UL", "IdentityResponseMessageIdentity",
		[]Mand{lve("Mobile identity", 3, N, "MobileIdentity")}, nil),
	mm("Notification", "8.2.23", "Notification", 0x65, "DL", "NotificationMessageIdentity",
		[]Mand{half("Access type", "Spare half octet", "SpareHalfOctetAndAccessType")}, nil),
	mm("NotificationResponse", "8.2.24", "Notification response", 0x66, "UL", "NotificationResponseMessageIdentity",
		nil, []Opt{pduStatus()}),
	mm("SecurityModeCommand", "8.2.25", "Security mode command", 0x5D, "DL", "SecurityModeCommandMessageIdentity",
		[]Mand{
			v("Selected NAS security algorithms", 1, "SelectedNASSecurityAlgorithms"),
			ngksiSpare(),
			lv("Replayed UE security capabilities", 3, 9, "ReplayedUESecurityCapabilities"),
		},
		[]Opt{
			tv1(0xE, "IMEISV request", "IMEISVRequest"),
			tv(0x57, "Selected EPS NAS security algorithms", 2, "SelectedEPSNASSecurityAlgorithms"),
			tlv(0x36, "Additional 5G security information", 3, 3, "Additional5GSecurityInformation"),
			eapTLVE(),
			tlv(0x38, "ABBA", 4, N, "ABBA"),
			tlv(0x19, "Replayed S1 UE security capabilities", 4, 7, "ReplayedS1UESecurityCapabilities"),
		}),
	mm("SecurityModeComplete", "8.2.26", "Security mode complete", 0x5E, "UL", "SecurityModeCompleteMessageIdentity",
		nil,
		[]Opt{
			tlve(0x77, "IMEISV", 12, 12, "IMEISV"),
			nasMsgCont(),
		}),
	mm("SecurityModeReject", "8.2.27", "Security mode reject", 0x5F, "UL", "SecurityModeRejectMessageIdentity",
		[]Mand{cause5GMMV()}, nil),
	// 8.2.28: no message type octet; the envelope is EPD, security header type + spare,
	// message authentication code (4), sequence number (1), plain 5GS NAS message (3-n).
	{Name: "SecurityProtected5GSNASMessage", Clause: "8.2.28", Title: "Security protected 5GS NAS message", EPD: EPD5GMM, HasMT: false, Dir: "both",
		Mand: []Mand{
			{Name: "Extended protocol discriminator", Fmt: V, MinLen: 1, MaxLen: 1, Go: "ExtendedProtocolDiscriminator", Fixed: int(EPD5GMM)},
			half("Security header type", "Spare half octet", "SpareHalfOctetAndSecurityHeaderType"),
			v("Message authentication code", 4, "MessageAuthenticationCode"),
			v("Sequence number", 1, "SequenceNumber"),
			{Name: "Plain 5GS NAS message", Fmt: VRest, MinLen: 3, MaxLen: N, Go: "Plain5GSNASMessage", Fixed: -1},
		}},
	mm("Status5GMM", "8.2.29", "5GMM status", 0x64, "both", "STATUSMessageIdentity5GMM",
		[]Mand{cause5GMMV()}, nil),

	// ------------------------------------------------------------------ 8.3 5GSM
	sm("PDUSessionEstablishmentRequest", "8.3.1", "PDU session establishment request", 0xC1, "UL", "PDUSESSIONESTABLISHMENTREQUESTMessageIdentity",
		[]Mand{v("Integrity protection maximum data rate", 2, "IntegrityProtectionMaximumDataRate")},
		[]Opt{
			tv1(0x9, "PDU session type", "PDUSessionType"),
			tv1(0xA, "SSC mode", "SSCMode"),
			tlv(0x28, "5GSM capability", 3, 15, "Capability5GSM"),
			tv(0x55, "Maximum number of supported packet filters", 3, "MaximumNumberOfSupportedPacketFilters"),
			tv1(0xB, "Always-on PDU session requested", "AlwaysonPDUSessionRequested"),
			tlv(0x39, "SM PDU DN request container", 3, 255, "SMPDUDNRequestContainer"),
			epcoTLVE(),
		}),
	sm("PDUSessionEstablishmentAccept", "8.3.2", "PDU session establishment accept", 0xC2, "DL", "PDUSESSIONESTABLISHMENTACCEPTMessageIdentity",
		[]Mand{
			half("Selected PDU session type", "Selected SSC mode", "SelectedSSCModeAndSelectedPDUSessionType"),
			lve("Authorized QoS rules", 6, 65538, "AuthorizedQosRules"),
			lv("Session AMBR", 7, 7, "SessionAMBR"),
		},
		[]Opt{
			cause5GSMTV(),
			{IEI: 0x29, Name: "PDU address", Fmt: TLV, MinLen: 7, MaxLen: 15, Lens: []int{7, 11, 15}, Go: "PDUAddress"},
			tv(0x56, "RQ timer value", 2, "RQTimerValue"),
			tlv(0x22, "S-NSSAI", 3, 10, "SNSSAI"),
			tv1(0x8, "Always-on PDU session indication", "AlwaysonPDUSessionIndication"),
			tlve(0x75, "Mapped EPS bearer contexts", 7, 65538, "MappedEPSBearerContexts"),
			eapTLVE(),
			tlve(0x79, "Authorized QoS flow descriptions", 6, 65538, "AuthorizedQosFlowDescriptions"),
			epcoTLVE(),
			tlv(0x25, "DNN", 3, 102, "DNN"),
		}),
	sm("PDUSessionEstablishmentReject", "8.3.3", "PDU session establishment reject", 0xC3, "DL", "PDUSESSIONESTABLISHMENTREJECTMessageIdentity",
		[]Mand{cause5GSMV()},
		[]Opt{
			backoff(),
			tv1(0xF, "Allowed SSC mode", "AllowedSSCMode"),
			eapTLVE(),
			epcoTLVE(),
		}),
	sm("PDUSessionAuthenticationCommand", "8.3.4", "PDU session authentication command", 0xC5, "DL", "PDUSESSIONAUTHENTICATIONCOMMANDMessageIdentity",
		[]Mand{lve("EAP message", 6, 1502, "EAPMessage")},
		[]Opt{epcoTLVE()}),
	sm("PDUSessionAuthenticationComplete", "8.3.5", "PDU session authentication complete", 0xC6, "UL", "PDUSESSIONAUTHENTICATIONCOMPLETEMessageIdentity",
		[]Mand{lve("EAP message", 6, 1502, "EAPMessage")},
		[]Opt{epcoTLVE()}),
	sm("PDUSessionAuthenticationResult", "8.3.6", "PDU session authentication result", 0xC7, "DL", "PDUSESSIONAUTHENTICATIONRESULTMessageIdentity",
		nil,
		[]Opt{eapTLVE(), epcoTLVE()}),
	sm("PDUSessionModificationRequest", "8.3.7", "PDU session modification request", 0xC9, "UL", "PDUSESSIONMODIFICATIONREQUESTMessageIdentity",
		nil,
		[]Opt{
			tlv(0x28, "5GSM capability", 3, 15, "Capability5GSM"),
			cause5GSMTV(),
			tv(0x55, "Maximum number of supported packet filters", 3, "MaximumNumberOfSupportedPacketFilters"),
			tv1(0xB, "Always-on PDU session requested", "AlwaysonPDUSessionRequested"),
			tv(0x13, "Integrity protection maximum data rate", 3, "IntegrityProtectionMaximumDataRate"),
			tlve(0x7A, "Requested QoS rules", 7, 65538, "RequestedQosRules"),
			tlve(0x79, "Requested QoS flow descriptions", 6, 65538, "RequestedQosFlowDescriptions"),
			mappedEPS(0x75, 0x7F, mappedWhy),
			epcoTLVE(),
		}),
	sm("PDUSessionModificationReject", "8.3.8", "PDU session modification reject", 0xCA, "DL", "PDUSESSIONMODIFICATIONREJECTMessageIdentity",
		[]Mand{cause5GSMV()},
		[]Opt{backoff(), epcoTLVE()}),
	sm("PDUSessionModificationCommand", "8.3.9", "PDU session modification command", 0xCB, "DL", "PDUSESSIONMODIFICATIONCOMMANDMessageIdentity",
		nil,
		[]Opt{
			cause5GSMTV(),
			tlv(0x2A, "Session AMBR", 8, 8, "SessionAMBR"),
			tv(0x56, "RQ timer value", 2, "RQTimerValue"),
			tv1(0x8, "Always-on PDU session indication", "AlwaysonPDUSessionIndication"),
			tlve(0x7A, "Authorized QoS rules", 7, 65538, "AuthorizedQosRules"),
			mappedEPS(0x75, 0x7F, mappedWhy),
			tlve(0x79, "Authorized QoS flow descriptions", 6, 65538, "AuthorizedQosFlowDescriptions"),
			epcoTLVE(),
		}),
	sm("PDUSessionModificationComplete", "8.3.10", "PDU session modification complete", 0xCC, "UL", "PDUSESSIONMODIFICATIONCOMPLETEMessageIdentity",
		nil, []Opt{epcoTLVE()}),
	sm("PDUSessionModificationCommandReject", "8.3.11", "PDU session modification command reject", 0xCD, "UL", "PDUSESSIONMODIFICATIONCOMMANDREJECTMessageIdentity",
		[]Mand{cause5GSMV()}, []Opt{epcoTLVE()}),
	sm("PDUSessionReleaseRequest", "8.3.12", "PDU session release request", 0xD1, "UL", "PDUSESSIONRELEASEREQUESTMessageIdentity",
		nil, []Opt{cause5GSMTV(), epcoTLVE()}),
	sm("PDUSessionReleaseReject", "8.3.13", "PDU session release reject", 0xD2, "DL", "PDUSESSIONRELEASEREJECTMessageIdentity",
		[]Mand{cause5GSMV()}, []Opt{epcoTLVE()}),
	sm("PDUSessionReleaseCommand", "8.3.14", "PDU session release command", 0xD3, "DL", "PDUSESSIONRELEASECOMMANDMessageIdentity",
		[]Mand{cause5GSMV()},
		[]Opt{backoff(), eapTLVE(), epcoTLVE()}),
	sm("PDUSessionReleaseComplete", "8.3.15", "PDU session release complete", 0xD4, "UL", "PDUSESSIONRELEASECOMPLETEMessageIdentity",
		nil, []Opt{cause5GSMTV(), epcoTLVE()}),
	sm("Status5GSM", "8.3.16", "5GSM status", 0xD6, "both", "STATUSMessageIdentity5GSM",
		[]Mand{cause5GSMV()}, nil),
}

// ByName returns the table entry of a message, or nil.
func ByName(name string) *MsgDef {
	for _, d := range Messages {
		if d.Name == name {
			return d
		}
	}
	return nil
}

// Lookup returns the message with this EPD and message type octet, or nil. The security
// protected 5GS NAS message has no message type and is never returned.
func Lookup(epd, mt uint8) *MsgDef {
	for _, d := range Messages {
		if d.HasMT && d.EPD == epd && d.MT == mt {
			return d
		}
	}
	return nil
}

// NumPairs counts the (message, optional IE) pairs of the table.
func NumPairs() (all, unadjudicated int) {
	for _, d := range Messages {
		for _, o := range d.Opts {
			all++
			if o.Unadjudicated != "" {
				unadjudicated++
			}
		}
	}
	return
}
