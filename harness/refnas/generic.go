package refnas

import (
	"errors"
	"fmt"
)

// IE is one optional information element at wire level. For a type-1 element (TV1) IEI holds
// the 4-bit identifier (0x8..0xF) and Val is one octet whose low nibble is the value.
type IE struct {
	IEI uint8
	Val []byte
}

// Value is a complete message at wire level: the value parts of the mandatory elements in
// table order (HalfV: one octet = hi<<4 | lo) and the optional elements in the order in
// which they are to appear.
type Value struct {
	Def  *MsgDef
	Mand [][]byte
	Opts []IE
}

// NewValue returns a value with the fixed header octets (EPD, message type) filled in and all
// other mandatory parts at their minimum length, zero-filled.
func NewValue(d *MsgDef) *Value {
	v := &Value{Def: d, Mand: make([][]byte, len(d.Mand))}
	for i := range d.Mand {
		m := &d.Mand[i]
		mn, _ := m.ValueLen()
		v.Mand[i] = make([]byte, mn)
		if m.Fixed >= 0 {
			v.Mand[i][0] = byte(m.Fixed)
		}
	}
	return v
}

// MandByGo returns the index of the mandatory element held by the named Go field, or -1.
func (d *MsgDef) MandByGo(name string) int {
	for i := range d.Mand {
		if d.Mand[i].Go == name {
			return i
		}
	}
	return -1
}

func putLen(out []byte, width, n int) ([]byte, error) {
	switch width {
	case 1:
		if n > 255 {
			return nil, fmt.Errorf("length %d does not fit one length octet", n)
		}
		return append(out, byte(n)), nil
	case 2:
		if n > 65535 {
			return nil, fmt.Errorf("length %d does not fit two length octets", n)
		}
		return append(out, byte(n>>8), byte(n)), nil
	}
	return out, nil
}

// EncodeIE encodes one optional element according to its table entry. iei overrides the
// table's IEI when non-zero (used only for unadjudicated elements).
func EncodeIE(o *Opt, val []byte, iei uint8) ([]byte, error) {
	if iei == 0 {
		iei = o.IEI
	}
	switch o.Fmt {
	case TV1:
		if len(val) != 1 || val[0] > 0x0F {
			return nil, fmt.Errorf("%s: type-1 value must be one nibble", o.Name)
		}
		return []byte{iei<<4 | val[0]}, nil
	case TV:
		if len(val) != o.MinLen-1 {
			return nil, fmt.Errorf("%s: TV value must be %d octets, got %d", o.Name, o.MinLen-1, len(val))
		}
		return append([]byte{iei}, val...), nil
	case TLV, TLVE:
		out, err := putLen([]byte{iei}, o.Fmt.LenWidth(), len(val))
		if err != nil {
			return nil, fmt.Errorf("%s: %v", o.Name, err)
		}
		return append(out, val...), nil
	}
	return nil, fmt.Errorf("%s: format %v is not an optional-IE format", o.Name, o.Fmt)
}

// EncodeMand encodes the mandatory part.
func (v *Value) EncodeMand() ([]byte, error) {
	d := v.Def
	if len(v.Mand) != len(d.Mand) {
		return nil, fmt.Errorf("%s: %d mandatory values for %d elements", d.Name, len(v.Mand), len(d.Mand))
	}
	var out []byte
	for i := range d.Mand {
		m := &d.Mand[i]
		val := v.Mand[i]
		switch m.Fmt {
		case V:
			if len(val) != m.MinLen {
				return nil, fmt.Errorf("%s/%s: V value must be %d octets, got %d", d.Name, m.Name, m.MinLen, len(val))
			}
			out = append(out, val...)
		case HalfV:
			if len(val) != 1 {
				return nil, fmt.Errorf("%s/%s: half-octet pair must be one octet", d.Name, m.Name)
			}
			out = append(out, val[0])
		case LV, LVE:
			var err error
			out, err = putLen(out, m.Fmt.LenWidth(), len(val))
			if err != nil {
				return nil, fmt.Errorf("%s/%s: %v", d.Name, m.Name, err)
			}
			out = append(out, val...)
		case VRest:
			out = append(out, val...)
		default:
			return nil, fmt.Errorf("%s/%s: format %v is not a mandatory format", d.Name, m.Name, m.Fmt)
		}
	}
	return out, nil
}

// Encode encodes the message: mandatory part, then the optional elements in the order given.
// Every optional element must be one of the table (found by IEI; an unadjudicated element is
// also found by its alternative IEI and then encoded with the IEI given).
func (v *Value) Encode() ([]byte, error) {
	out, err := v.EncodeMand()
	if err != nil {
		return nil, err
	}
	for _, ie := range v.Opts {
		o, iei := v.Def.findOpt(ie.IEI)
		if o == nil {
			return nil, fmt.Errorf("%s: no optional IE with IEI %#x in the table", v.Def.Name, ie.IEI)
		}
		b, err := EncodeIE(o, ie.Val, iei)
		if err != nil {
			return nil, fmt.Errorf("%s: %v", v.Def.Name, err)
		}
		out = append(out, b...)
	}
	return out, nil
}

// findOpt looks an element up by the identifier used in IE.IEI (4-bit for TV1).
func (d *MsgDef) findOpt(iei uint8) (*Opt, uint8) {
	for i := range d.Opts {
		o := &d.Opts[i]
		if o.IEI == iei {
			return o, iei
		}
	}
	for i := range d.Opts {
		o := &d.Opts[i]
		if o.Unadjudicated != "" && o.AltIEI == iei {
			return o, iei
		}
	}
	return nil, 0
}

// ParsedIE is one optional element found by the generic parser.
type ParsedIE struct {
	Opt      *Opt
	IEI      uint8 // as IE.IEI: 4-bit for TV1
	Fmt      Format
	LenWidth int
	Val      []byte
	Off      int // offset of the IEI octet in the message
}

// Parsed is the result of the generic parser.
type Parsed struct {
	Def  *MsgDef
	Mand [][]byte // value parts as in Value.Mand
	Opts []ParsedIE
}

var ErrTruncated = errors.New("message truncated")

func getLen(b []byte, p, width int) (n, np int, err error) {
	if p+width > len(b) {
		return 0, p, ErrTruncated
	}
	switch width {
	case 1:
		return int(b[p]), p + 1, nil
	case 2:
		return int(b[p])<<8 | int(b[p+1]), p + 2, nil
	}
	return 0, p, nil
}

// Identify finds the table entry for a plain 5GS NAS message from its first octets.
func Identify(b []byte) (*MsgDef, error) {
	if len(b) < 3 {
		return nil, ErrTruncated
	}
	switch b[0] {
	case EPD5GMM:
		if d := Lookup(EPD5GMM, b[2]); d != nil {
			return d, nil
		}
		return nil, fmt.Errorf("message type %#x is not a 5GMM message type of Table 9.7.1", b[2])
	case EPD5GSM:
		if len(b) < 4 {
			return nil, ErrTruncated
		}
		if d := Lookup(EPD5GSM, b[3]); d != nil {
			return d, nil
		}
		return nil, fmt.Errorf("message type %#x is not a 5GSM message type of Table 9.7.2", b[3])
	}
	return nil, fmt.Errorf("extended protocol discriminator %#x is neither 5GMM nor 5GSM", b[0])
}

// Parse parses a plain message with the table found by Identify.
func Parse(b []byte) (*Parsed, error) {
	d, err := Identify(b)
	if err != nil {
		return nil, err
	}
	return d.Parse(b)
}

// Parse parses b as this message, strictly by the table (TS 24.007 clause 11.2): the
// mandatory part in order, then optional elements identified by their IEI; an IEI octet with
// bit 8 set is a type-1 element. Unknown IEIs, fixed header octets with the wrong value and
// any truncation are errors: the parser is used on well-formed messages only.
func (d *MsgDef) Parse(b []byte) (*Parsed, error) {
	p := 0
	res := &Parsed{Def: d, Mand: make([][]byte, len(d.Mand))}
	for i := range d.Mand {
		m := &d.Mand[i]
		switch m.Fmt {
		case V:
			if p+m.MinLen > len(b) {
				return nil, fmt.Errorf("%s/%s: %w", d.Name, m.Name, ErrTruncated)
			}
			res.Mand[i] = b[p : p+m.MinLen]
			p += m.MinLen
		case HalfV:
			if p+1 > len(b) {
				return nil, fmt.Errorf("%s/%s: %w", d.Name, m.Name, ErrTruncated)
			}
			res.Mand[i] = b[p : p+1]
			p++
		case LV, LVE:
			n, np, err := getLen(b, p, m.Fmt.LenWidth())
			if err != nil {
				return nil, fmt.Errorf("%s/%s: %w", d.Name, m.Name, err)
			}
			if np+n > len(b) {
				return nil, fmt.Errorf("%s/%s: length %d exceeds the message: %w", d.Name, m.Name, n, ErrTruncated)
			}
			res.Mand[i] = b[np : np+n]
			p = np + n
		case VRest:
			res.Mand[i] = b[p:]
			p = len(b)
		}
		if m.Fixed >= 0 && res.Mand[i][0] != byte(m.Fixed) {
			return nil, fmt.Errorf("%s/%s: octet is %#x, table says %#x", d.Name, m.Name, res.Mand[i][0], m.Fixed)
		}
	}
	for p < len(b) {
		t := b[p]
		var o *Opt
		var iei uint8
		if t&0x80 != 0 {
			iei = t >> 4
			for i := range d.Opts {
				if d.Opts[i].Fmt == TV1 && d.Opts[i].IEI == iei {
					o = &d.Opts[i]
				}
			}
		} else {
			iei = t
			for i := range d.Opts {
				c := &d.Opts[i]
				if c.Fmt != TV1 && (c.IEI == iei || (c.Unadjudicated != "" && c.AltIEI == iei)) {
					o = c
				}
			}
		}
		if o == nil {
			return nil, fmt.Errorf("%s: octet %#x at offset %d is not the IEI of any optional IE of Table %s.1.1", d.Name, t, p, d.Clause)
		}
		pie := ParsedIE{Opt: o, IEI: iei, Fmt: o.Fmt, LenWidth: o.Fmt.LenWidth(), Off: p}
		switch o.Fmt {
		case TV1:
			pie.Val = []byte{t & 0x0F}
			p++
		case TV:
			n := o.MinLen - 1
			if p+1+n > len(b) {
				return nil, fmt.Errorf("%s/%s: %w", d.Name, o.Name, ErrTruncated)
			}
			pie.Val = b[p+1 : p+1+n]
			p += 1 + n
		case TLV, TLVE:
			n, np, err := getLen(b, p+1, o.Fmt.LenWidth())
			if err != nil {
				return nil, fmt.Errorf("%s/%s: %w", d.Name, o.Name, err)
			}
			if np+n > len(b) {
				return nil, fmt.Errorf("%s/%s: length %d at offset %d exceeds the message: %w", d.Name, o.Name, n, p+1, ErrTruncated)
			}
			pie.Val = b[np : np+n]
			p = np + n
		}
		res.Opts = append(res.Opts, pie)
	}
	return res, nil
}

// CheckLengths verifies every variable-length element against the Length column.
func (r *Parsed) CheckLengths() error {
	for i := range r.Def.Mand {
		m := &r.Def.Mand[i]
		if m.Fmt == LV || m.Fmt == LVE || m.Fmt == VRest {
			mn, mx := m.ValueLen()
			if n := len(r.Mand[i]); n < mn || n > mx {
				return fmt.Errorf("%s/%s: value length %d outside %d..%d", r.Def.Name, m.Name, n, mn, mx)
			}
		}
	}
	for _, ie := range r.Opts {
		if !ie.Opt.LegalValueLen(len(ie.Val)) {
			mn, mx := ie.Opt.ValueLen()
			return fmt.Errorf("%s/%s: value length %d outside %d..%d", r.Def.Name, ie.Opt.Name, len(ie.Val), mn, mx)
		}
	}
	return nil
}

// LegalValueLen reports whether n octets of value are allowed by the Length column.
func (o *Opt) LegalValueLen(n int) bool {
	if len(o.Lens) > 0 {
		for _, l := range o.Lens {
			if n == l-o.Fmt.Overhead() {
				return true
			}
		}
		return false
	}
	mn, mx := o.ValueLen()
	return n >= mn && n <= mx
}

// Find returns the first parsed element held by the named Go field, or nil.
func (r *Parsed) Find(goField string) *ParsedIE {
	for i := range r.Opts {
		if r.Opts[i].Opt.Go == goField {
			return &r.Opts[i]
		}
	}
	return nil
}
