package props

import (
	"encoding/hex"
	"testing"

	"verifh/refcrypto"
)

func hx(s string) []byte {
	b, err := hex.DecodeString(s)
	if err != nil {
		panic(err)
	}
	return b
}

func TestSelfCrypto(t *testing.T) {
	if err := refcrypto.SelfTest(); err != nil {
		t.Fatal(err)
	}
}
