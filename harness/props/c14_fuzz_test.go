package props

import (
	"encoding/hex"
	"os"
	"path/filepath"
	"testing"

	"free5gclib/ngap"
	"free5gclib/ngap/ngapType"

	"pgregory.net/rapid"

	"verifh/ev"
	"verifh/gen"
	"verifh/refper"
)

// FuzzC14Decoder: native coverage-guided fuzzing of ngap.Decoder (thorough tier only; it
// cannot be seeded — the saved crashing input is the reproducible unit and is copied to
// /verif/corpus/C14 by the driver so that the quick tier replays it).
//
// The oracle inside the target: no panic (known panic sites listed in KNOWN_FINDINGS.json are
// recovered, counted and skipped so that one shallow finding does not end the campaign).
func FuzzC14Decoder(f *testing.F) {
	r := ev.New(f, "C14", "FuzzC14Decoder")
	r.ReplayAs = "TestC14_Total"
	// corpus: canonical encodings of one small value of every message type + hostile constants + saved inputs
	ms := gen.Messages()
	for mi, m := range ms {
		m := m
		pdu := rapid.Custom(func(rt *rapid.T) ngapType.NGAPPDU {
			return gen.New(rt, gen.Opts{Budget: 80, BigString: 40}).PDU(m)
		}).Example(1000 + mi)
		if rb, _, err := refper.Encode(pdu, gen.PDUTag); err == nil && len(rb) <= 2048 {
			f.Add(rb)
		}
	}
	for _, h := range []string{"000d000d000001006e0006200000000000", "0015000400ffff00", "2015000400ffff00", "000e0005000001ffff", "00", "", "ffffffffffffffff", "000f4003000000"} {
		b, _ := hex.DecodeString(h)
		f.Add(b)
	}
	files, _ := filepath.Glob(filepath.Join(os.Getenv("VERIF_CORPUS"), "C14", "*.hex"))
	for _, fn := range files {
		if raw, err := os.ReadFile(fn); err == nil {
			if b, err := hex.DecodeString(string(trimSpace(raw))); err == nil {
				f.Add(b)
			}
		}
	}
	f.Fuzz(func(t *testing.T, b []byte) {
		if len(b) > 4096 {
			return
		}
		err, site := ev.Guard(func() error { _, e := ngap.Decoder(b); return e })
		if site != "" {
			key := "dec:panic:" + site
			if r.IsKnown(key) {
				return
			}
			r.Fail(c14Case{Kind: "native-fuzz", Hex: hex.EncodeToString(b)}, ev.Verdict{Key: key, Err: err})
			t.Fatalf("[%s] decoder panicked on %x: %v", key, b, err)
		}
	})
}
