package props

import (
	"bytes"
	"fmt"
	"reflect"
	"testing"

	"free5gclib/aper"
	"free5gclib/ngap"

	"pgregory.net/rapid"

	"verifh/ev"
	"verifh/gen"
	"verifh/refper"
)

// C04 — NGAP decode inverts encode, and re-encode reproduces the bytes.
//
// (i)  Decoder(Encoder(v)) == v for every constraint-satisfying value;
// (ii) Decoder(refper.Encode(v)) == v and Encoder(Decoder(refper.Encode(v))) == refper.Encode(v):
//      the decoder is judged on conformant input from the independent encoder, so the
//      property stays meaningful wherever C03 has a finding.

// locateDec finds the smallest sub-value whose canonical standalone encoding the library
// does not decode back to itself.
func locateDec(v reflect.Value, tag string, path string) (key, desc string) {
	for v.Kind() == reflect.Ptr {
		if v.IsNil() {
			return "", ""
		}
		v = v.Elem()
	}
	p := gen.ParseTag(tag)
	t := v.Type()
	if p.OpenType {
		j := int(v.Field(0).Int())
		if j > 0 && j < v.NumField() {
			return locateDec(v.Field(j), t.Field(j).Tag.Get("aper"), path+"."+t.Field(j).Name)
		}
		return "", ""
	}
	rb, w, rerr := refper.Encode(v.Interface(), tag)
	if rerr != nil || w.MaxLen >= 16384 {
		return "", ""
	}
	out := reflect.New(t)
	// the decoder aliases its input (decoded BIT STRINGs point into it) and the encoder
	// masks BIT STRING padding in place, so never hand out the reference copy of the bytes
	in := append([]byte{}, rb...)
	derr, _ := ev.Guard(func() error { return aper.UnmarshalWithParams(in, out.Interface(), tag) })
	ok := derr == nil && eqv(v, out.Elem(), "") == ""
	if ok {
		if b2, e2 := marshalAny(out.Elem().Interface(), tag); e2 != nil || !bytes.Equal(b2, rb) {
			ok = false
		}
	}
	if ok {
		return "", ""
	}
	if t.Kind() == reflect.Struct && t.String() != gen.TBitString {
		if t.NumField() > 0 && t.Field(0).Name == "Present" {
			j := int(v.Field(0).Int())
			if j > 0 && j < t.NumField() {
				if k, d := locateDec(v.Field(j), t.Field(j).Tag.Get("aper"), path+"."+t.Field(j).Name); k != "" {
					return k, d
				}
			}
		} else {
			for i := 0; i < t.NumField(); i++ {
				f := v.Field(i)
				if f.Kind() == reflect.Ptr && f.IsNil() {
					continue
				}
				if k, d := locateDec(f, t.Field(i).Tag.Get("aper"), path+"."+t.Field(i).Name); k != "" {
					return k, d
				}
			}
		}
	}
	if t.Kind() == reflect.Slice && t.Elem().Kind() != reflect.Uint8 {
		for i := 0; i < v.Len(); i++ {
			if k, d := locateDec(v.Index(i), gen.StripSize(tag), fmt.Sprintf("%s[%d]", path, i)); k != "" {
				return k, d
			}
		}
	}
	kind := t.Kind().String()
	switch {
	case t.String() == gen.TBitString:
		kind = "bitstring"
	case t.String() == gen.TOctet:
		kind = "octetstring"
	case t.String() == gen.TEnum:
		kind = "enumerated"
	case t.Kind() == reflect.Struct:
		kind = "struct:" + t.Name()
	case t.Kind() == reflect.Slice && t.Elem().Kind() != reflect.Uint8:
		kind = "sequence-of"
	}
	key = fmt.Sprintf("dec:%s[%s]", kind, tag)
	desc = fmt.Sprintf("%s type=%s tag=%q canonical=%x decode-error=%v value=%s", path, t, tag, trunc(rb, 32), derr, short(v.Interface()))
	return
}

func c04Oracle(c ngapCase) ev.Verdict { return c04OracleF(c, false) }

// c04OracleF: frag=true is the fragmented domain (some length determinant >= 16K, X.691 10.9.3.8):
// only values that have such a length are evaluated there, keyed "frag:".
func c04OracleF(c ngapCase, frag bool) ev.Verdict {
	v := ev.Verdict{Classes: []string{c.Entry}}
	_, tag := c.typeAndTag()
	val := c.value()
	rb, w, rerr := refper.Encode(val, tag)
	if rerr != nil {
		// schema defects are C03's business; here they are simply outside the domain
		v.Skip = true
		v.Classes = append(v.Classes, "skipped:reference-refuses")
		return v
	}
	if !frag && w.MaxLen >= 16384 {
		v.Skip = true
		v.Classes = append(v.Classes, "skipped:length>=16K")
		return v
	}
	if frag {
		if w.MaxLen < 16384 {
			v.Skip = true
			return v
		}
		v.NT = true
		v.Classes = append(v.Classes, fmt.Sprintf("maxlen/16K=%d", w.MaxLen/16384))
		if w.MaxLen%16384 == 0 {
			v.Classes = append(v.Classes, "exact-multiple-of-16K")
		}
	}
	if w.OptBits > 0 && w.Aligns > 0 && w.Unaligned > 0 {
		v.NT = true
		v.Classes = append(v.Classes, "nt:optional+unaligned-then-aligned")
	}
	if w.BigRange > 0 {
		v.NT = true
		v.Classes = append(v.Classes, "nt:int-range>64K")
	}
	if c.Ext > 0 {
		v.NT = true
		v.Classes = append(v.Classes, "nt:value-above-root-of-extensible-constraint")
	}
	if w.MaxList >= 128 {
		v.NT = true
		v.Classes = append(v.Classes, "nt:list>=128")
	}
	if w.OpenDepth >= 3 {
		v.NT = true
		v.Classes = append(v.Classes, "nt:open-type-nested>=2-below-the-PDU")
	}
	fail := func(stage string, detail string) ev.Verdict {
		key, desc := locateDec(reflect.ValueOf(val), tag, c.Entry)
		if frag {
			key, desc = "frag:dec:"+stage, ""
		}
		if key == "" {
			key = "dec:whole-value-only:" + stage
			desc = detail
		}
		v.Key = key
		v.Err = fmt.Errorf("%s: %s | %s", stage, detail, desc)
		return v
	}
	// the decoder is not only used on conformant input: earlier in the same process it has refused truncated and
	// damaged messages. What it then does with a conformant message must not depend on that history.
	for k := 0; k < c.Hostile && len(rb) > 1; k++ {
		cut := (len(rb) * (k + 1)) / (c.Hostile + 2)
		if cut < 1 {
			cut = 1
		}
		_, _, _ = libDecode(&c, append([]byte{}, rb[:cut]...))
		bad := append([]byte{}, rb...)
		bad[cut] ^= 0xff
		_, _, _ = libDecode(&c, bad)
	}
	if c.Hostile > 0 {
		v.Classes = append(v.Classes, "history:refused-inputs-before")
	}
	// (ii) canonical bytes from the independent encoder
	d2, derr, site := libDecode(&c, append([]byte{}, rb...))
	if site != "" {
		v.Key = "panic:" + site
		v.Err = fmt.Errorf("decoder panicked on a canonical encoding: %v", derr)
		return v
	}
	if derr != nil {
		return fail("canonical encoding rejected", derr.Error())
	}
	if d := eqv(reflect.ValueOf(val), reflect.ValueOf(d2), c.Entry); d != "" {
		return fail("decoded value differs from the value the bytes denote", d)
	}
	c2 := ngapCase{Entry: c.Entry, live: d2}
	b2, e2, site2 := libEncode(&c2)
	if site2 != "" {
		v.Key = "panic:" + site2
		v.Err = fmt.Errorf("re-encode panicked: %v", e2)
		return v
	}
	if e2 != nil || !bytes.Equal(b2, rb) {
		return fail("re-encoding the decoded value does not reproduce the canonical bytes", fmt.Sprintf("err=%v got %x want %x", e2, trunc(b2, 32), trunc(rb, 32)))
	}
	// results stay what they were: the decoded value and the re-encoded bytes are still held while the codec is
	// used for another (large) message; a result that a LATER call rewrites was never the value the bytes denote
	interfereNGAP()
	if d := eqv(reflect.ValueOf(val), reflect.ValueOf(d2), c.Entry); d != "" {
		v.Key = "retained:decoded-value-changed-by-a-later-call"
		v.Err = fmt.Errorf("the decoded value was right when Decoder returned and differs at %s after the codec was used for another message", d)
		return v
	}
	if !bytes.Equal(b2, rb) {
		v.Key = "retained:encoding-overwritten-by-a-later-call"
		v.Err = fmt.Errorf("the bytes Encoder returned were canonical and read %x after the codec was used for another message", trunc(b2, 32))
		return v
	}
	// (i) the library's own encoding
	lb, lerr, _ := libEncode(&c)
	if lerr != nil {
		// refusing a legal value is C03's finding, not C04's
		v.Classes = append(v.Classes, "library-encoder-refused(C03)")
		return v
	}
	if !bytes.Equal(lb, rb) {
		v.Classes = append(v.Classes, "library-bytes-differ(C03)")
		d1, derr1, site1 := libDecode(&c, append([]byte{}, lb...))
		if site1 != "" {
			v.Key = "panic:" + site1
			v.Err = fmt.Errorf("decoder panicked on the library's own encoding: %v", derr1)
			return v
		}
		if derr1 != nil {
			v.Key = "dec:own-encoding-rejected"
			v.Err = fmt.Errorf("the library cannot decode its own encoding: %v", derr1)
			return v
		}
		if d := eqv(reflect.ValueOf(val), reflect.ValueOf(d1), c.Entry); d != "" {
			v.Key = "dec:own-encoding-differs:" + pathKey(d)
			v.Err = fmt.Errorf("Decoder(Encoder(v)) != v at %s", d)
			return v
		}
	}
	return v
}

// TestC04_Fragment: values with a length determinant of 16K or more. The canonical encoding
// (fragments of 64K/48K/32K/16K items, then the rest, a zero length after an exact multiple)
// must be accepted, decoded to the value and re-encoded to the same bytes.
func TestC04_Fragment(t *testing.T) {
	r := ev.New(t, "C04", "TestC04_Fragment")
	ev.Run(t, r, func(rt *rapid.T) ngapCase { return genNgapCase(rt, true) }, func(c ngapCase) ev.Verdict { return c04OracleF(c, true) })
}

var interferers [][]byte

// interfereNGAP decodes and re-encodes unrelated messages of several sizes (DOWNLINK NAS TRANSPORT with NAS-PDUs of
// 100, 1500, 3000 and 5000 octets), the way a caller serving several UEs uses the codec.
func interfereNGAP() {
	if interferers == nil {
		for _, n := range []int{100, 1500, 3000, 5000} {
			ln := func(x int) []byte {
				if x < 128 {
					return []byte{byte(x)}
				}
				return []byte{0x80 | byte(x>>8), byte(x)}
			}
			nas := append(ln(n), bytes.Repeat([]byte{0xee}, n)...)
			ies := []byte{0x00, 0x00, 0x03, 0x00, 0x0a, 0x00, 0x02, 0x00, 0x01, 0x00, 0x55, 0x00, 0x02, 0x00, 0x01, 0x00, 0x26, 0x00}
			ies = append(append(ies, ln(len(nas))...), nas...)
			interferers = append(interferers, append(append([]byte{0x00, 0x04, 0x40}, ln(len(ies))...), ies...))
		}
	}
	for _, b := range interferers {
		b := b
		_, _ = ev.Guard(func() error {
			pdu, err := ngap.Decoder(append([]byte{}, b...))
			if err != nil {
				panic("harness: the interfering message does not decode: " + err.Error())
			}
			_, err = ngap.Encoder(*pdu)
			return err
		})
	}
}

func TestC04_RoundTrip(t *testing.T) {
	r := ev.New(t, "C04", "TestC04_RoundTrip")
	ev.Run(t, r, func(rt *rapid.T) ngapCase { return genNgapCase(rt, false) }, func(c ngapCase) ev.Verdict { return withLog(c, c04Oracle) })
}

// TestC04_Sweep: the constraint sweep of C03, decoded: every distinct constraint of the
// schema at every small value / boundary, canonical bytes -> decode -> same value -> same bytes.
func TestC04_Sweep(t *testing.T) {
	r := ev.New(t, "C04", "TestC04_Sweep")
	defer r.Flush()
	leaves := schemaLeaves()
	for li, leaf := range leaves {
		if li%ev.NShards() != ev.Shard() {
			continue
		}
		p := gen.ParseTag(leaf.Tag)
		var ns []int64
		switch leaf.Kind {
		case "int", "enum":
			if p.VLB == nil || p.VUB == nil {
				continue
			}
			ns = boundaryInts(*p.VLB, *p.VUB)
			if len(ns) > 600 { // thin out exhaustive ranges: every 7th plus the ends
				var thin []int64
				for i, x := range ns {
					if i%7 == 0 || i >= len(ns)-2 {
						thin = append(thin, x)
					}
				}
				ns = thin
			}
		case "bitstring":
			lb, ub, has := sbounds(p)
			ns = sweepSizes(lb, ub, has, 16383)
		case "octetstring", "string":
			lb, ub, has := sbounds(p)
			ns = sweepSizes(lb, ub, has, 16383)
		case "list":
			lb, ub, _ := sbounds(p)
			seen := map[int64]bool{}
			for _, x := range []int64{lb, lb + 1, 2, 3, 16, 127, 128, 129, 255, 256, 257, 1023, 1024, 1025, 1100, 2047, 2048, 2049, 4097, ub} {
				if x >= lb && x <= ub && x <= map[bool]int64{true: 4100, false: 1100}[ev.Tier() == "thorough"] && !seen[x] {
					seen[x] = true
					ns = append(ns, x)
				}
			}
		}
		for _, n := range ns {
			n := n
			leaf := leaf
			val := rapid.Custom(func(rt *rapid.T) interface{} { return buildLeaf(rt, leaf, p, n) }).Example(int(ev.Seed()) + li*1009 + int(n%100003))
			vv := ev.Verdict{NT: true, Hash: ev.HashJSON([]interface{}{leaf.Kind, leaf.Tag, leaf.Type, n}), Classes: []string{"sweep:" + leaf.Kind}}
			key, desc := locateDec(reflect.ValueOf(val), leaf.Tag, leaf.Type)
			if key != "" {
				vv.Key, vv.Err = key, fmt.Errorf("%s", desc)
			}
			cs := map[string]interface{}{"leaf": leaf, "n": n}
			if !r.Each(t, cs, vv) {
				return
			}
		}
	}
}

// TestC04_FragmentSweep: every BIT STRING / OCTET STRING / PrintableString of the schema that can be that long, at the
// lengths around the 16K fragments (complete fragments, one more unit, two fragments, a fragment of 64K): canonical
// bytes from the independent encoder -> decode -> the value -> the same bytes.
func TestC04_FragmentSweep(t *testing.T) {
	r := ev.New(t, "C04", "TestC04_FragmentSweep")
	defer r.Flush()
	for li, leaf := range schemaLeaves() {
		if li%ev.NShards() != ev.Shard() || (leaf.Kind != "bitstring" && leaf.Kind != "octetstring" && leaf.Kind != "string") {
			continue
		}
		p := gen.ParseTag(leaf.Tag)
		lb, ub, has := sbounds(p)
		for _, n := range []int64{16384, 16385, 16424, 28729, 32768, 49152, 65536, 65537} {
			if has && !p.SizeExt && (n < lb || n > ub) {
				continue
			}
			leaf, n := leaf, n
			val := rapid.Custom(func(rt *rapid.T) interface{} { return buildLeaf(rt, leaf, p, n) }).Example(int(ev.BaseSeed()%1000003) + li*977 + int(n))
			rb, _, err := refper.Encode(val, leaf.Tag)
			if err != nil {
				continue
			}
			vv := ev.Verdict{NT: true, Hash: ev.HashJSON([]interface{}{"fragsweep", leaf.Kind, leaf.Tag, leaf.Type, n}), Classes: []string{"fragment-sweep:" + leaf.Kind}}
			out := reflect.New(leaf.t)
			in := append([]byte{}, rb...)
			derr, site := ev.Guard(func() error { return aper.UnmarshalWithParams(in, out.Interface(), leaf.Tag) })
			switch {
			case site != "":
				vv.Key, vv.Err = "frag:dec:panic:"+site, fmt.Errorf("%s %q of size %d: decoder panicked: %v", leaf.Kind, leaf.Tag, n, derr)
			case derr != nil:
				vv.Key, vv.Err = "frag:dec:canonical encoding rejected", fmt.Errorf("%s %q of size %d (%d octets): %v", leaf.Kind, leaf.Tag, n, len(rb), derr)
			default:
				if d := eqv(reflect.ValueOf(val), out.Elem(), leaf.Type); d != "" {
					vv.Key, vv.Err = "frag:dec:value", fmt.Errorf("%s %q of size %d: decoded value differs: %s", leaf.Kind, leaf.Tag, n, d)
				} else if b2, e2 := marshalAny(out.Elem().Interface(), leaf.Tag); e2 != nil || !bytes.Equal(b2, rb) {
					vv.Key, vv.Err = "frag:reencode", fmt.Errorf("%s %q of size %d: re-encoding gives %d octets (err %v), canonical %d", leaf.Kind, leaf.Tag, n, len(b2), e2, len(rb))
				}
			}
			cs := map[string]interface{}{"leaf": leaf, "n": n}
			if !r.Each(t, cs, vv) {
				return
			}
		}
	}
}
