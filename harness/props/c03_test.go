package props

import (
	"bytes"
	"encoding/json"
	"errors"
	"fmt"
	"reflect"
	"sort"
	"strings"
	"testing"

	"pgregory.net/rapid"

	"verifh/ev"
	"verifh/gen"
	"verifh/refper"
)

// C03 — NGAP messages are encoded exactly as X.691 ALIGNED PER prescribes.

func c03Oracle(c ngapCase) ev.Verdict {
	v := ev.Verdict{Classes: []string{c.Entry}}
	_, tag := c.typeAndTag()
	val := c.value()
	rb, w, rerr := refper.Encode(val, tag)
	if se := (*refper.SchemaError)(nil); errors.As(rerr, &se) {
		v.NT = true
		v.Key = "schema:" + pathKey(schemaWhere(rerr)) + ":" + se.Msg
		v.Err = fmt.Errorf("the type description itself is defective, no value with this field can be encoded: %v", rerr)
		return v
	}
	if rerr != nil {
		// the generator must only produce constraint-satisfying values
		panic(fmt.Sprintf("generator produced a value the reference refuses: %v", rerr))
	}
	if w.MaxLen >= 16384 {
		v.Skip = true
		v.Classes = append(v.Classes, "skipped:length>=16K")
		return v
	}
	lb, lerr, site := libEncode(&c)
	if w.OptBits > 0 && w.Aligns > 0 && w.Unaligned > 0 {
		v.NT = true
		v.Classes = append(v.Classes, "nt:optional+unaligned-then-aligned")
	}
	if w.BigRange > 0 {
		v.NT = true
		v.Classes = append(v.Classes, "nt:int-range>64K")
	}
	if c.Ext > 0 {
		v.NT = true
		v.Classes = append(v.Classes, "nt:value-above-root-of-extensible-constraint")
	}
	if w.MaxList >= 128 {
		v.NT = true
		v.Classes = append(v.Classes, "nt:list>=128")
	}
	if w.MaxLen >= 128 {
		v.Classes = append(v.Classes, "length>=128")
	}
	if w.OpenDepth >= 3 {
		v.Classes = append(v.Classes, "open-type-depth>=3")
	}
	if c.Dirty > 0 {
		v.Classes = append(v.Classes, "bitstring:unused-trailing-bits-set")
	}
	if lerr == nil && bytes.Equal(lb, rb) {
		return v
	}
	if site != "" {
		v.Key = "panic:" + site
		v.Err = fmt.Errorf("encoder panicked: %v", lerr)
		return v
	}
	key, desc := locate(reflect.ValueOf(val), tag, c.Entry)
	if key == "" {
		key = "enc:whole-value-only"
		desc = fmt.Sprintf("library=%x (err %v) reference=%x", trunc(lb, 48), lerr, trunc(rb, 48))
	}
	v.Key = key
	v.Err = fmt.Errorf("library encoding differs from canonical ALIGNED PER: %s", desc)
	return v
}

func TestC03_Encode(t *testing.T) {
	r := ev.New(t, "C03", "TestC03_Encode")
	ev.Run(t, r, func(rt *rapid.T) ngapCase { return genNgapCase(rt, false) }, func(c ngapCase) ev.Verdict { return withLog(c, c03Oracle) })
}

// ---------------------------------------------------------------------------------------
// Fragmentation sweep: lengths >= 16K, outside the main claim, keyed separately ("frag:").

func c03FragOracle(c ngapCase) ev.Verdict {
	v := ev.Verdict{Classes: []string{c.Entry}}
	_, tag := c.typeAndTag()
	val := c.value()
	rb, w, rerr := refper.Encode(val, tag)
	if rerr != nil {
		panic(fmt.Sprintf("generator produced a value the reference refuses: %v", rerr))
	}
	if w.MaxLen < 16384 {
		v.Skip = true
		return v
	}
	v.NT = true
	v.Classes = append(v.Classes, fmt.Sprintf("maxlen/16K=%d", w.MaxLen/16384))
	lb, lerr, site := libEncode(&c)
	if lerr == nil && bytes.Equal(lb, rb) {
		return v
	}
	if site != "" {
		v.Key = "frag:panic:" + site
	} else {
		v.Key = "frag:16K-fragmentation"
	}
	v.Err = fmt.Errorf("fragmented length (largest determinant %d): library %d octets (err %v), canonical %d octets", w.MaxLen, len(lb), lerr, len(rb))
	return v
}

func TestC03_Fragment(t *testing.T) {
	r := ev.New(t, "C03", "TestC03_Fragment")
	ev.Run(t, r, func(rt *rapid.T) ngapCase { return genNgapCase(rt, true) }, c03FragOracle)
}

// ---------------------------------------------------------------------------------------
// Constraint sweep: every distinct (kind, constraint) occurring in the schema.

type leafSpec struct {
	Kind string `json:"kind"` // int enum bitstring octetstring string list
	Tag  string `json:"tag"`
	Type string `json:"type"`
	t    reflect.Type
}

var leafCache []leafSpec

func schemaLeaves() []leafSpec {
	if leafCache != nil {
		return leafCache
	}
	seenT := map[reflect.Type]bool{}
	seenL := map[string]bool{}
	var out []leafSpec
	var walk func(t reflect.Type, tag string)
	add := func(kind, tag string, t reflect.Type) {
		k := kind + "|" + tag
		if kind == "list" {
			k += "|" + t.String()
		}
		if !seenL[k] {
			seenL[k] = true
			out = append(out, leafSpec{Kind: kind, Tag: tag, Type: t.String(), t: t})
		}
	}
	walk = func(t reflect.Type, tag string) {
		for t.Kind() == reflect.Ptr {
			t = t.Elem()
		}
		switch t.String() {
		case gen.TBitString:
			add("bitstring", tag, t)
			return
		case gen.TOctet:
			add("octetstring", tag, t)
			return
		case gen.TEnum:
			add("enum", tag, t)
			return
		}
		switch t.Kind() {
		case reflect.Int, reflect.Int32, reflect.Int64:
			add("int", tag, t)
		case reflect.String:
			add("string", tag, t)
		case reflect.Slice:
			if t.String() == "aper.ObjectIdentifier" {
				return
			}
			if gen.Buildable(t.Elem()) {
				add("list", tag, t)
			}
			walk(t.Elem(), gen.StripSize(tag))
		case reflect.Struct:
			if seenT[t] {
				return
			}
			seenT[t] = true
			for i := 0; i < t.NumField(); i++ {
				if t.Field(i).Name == "Present" {
					continue
				}
				walk(t.Field(i).Type, t.Field(i).Tag.Get("aper"))
			}
		}
	}
	walk(pduType, gen.PDUTag)
	for _, e := range gen.Containers() {
		walk(e.Type, e.Tag)
	}
	sort.Slice(out, func(i, j int) bool {
		if out[i].Kind != out[j].Kind {
			return out[i].Kind < out[j].Kind
		}
		if out[i].Tag != out[j].Tag {
			return out[i].Tag < out[j].Tag
		}
		return out[i].Type < out[j].Type
	})
	leafCache = out
	return out
}

type sweepCase struct {
	Leaf leafSpec        `json:"leaf"`
	Val  json.RawMessage `json:"value"`
	N    int64           `json:"n"` // the integer value or the size swept
}

func boundaryInts(lb, ub int64) []int64 {
	var out []int64
	if ub-lb <= 4096 {
		for x := lb; x <= ub; x++ {
			out = append(out, x)
		}
		return out
	}
	seen := map[int64]bool{}
	add := func(x int64) {
		if x >= lb && x <= ub && !seen[x] {
			seen[x] = true
			out = append(out, x)
		}
	}
	for _, x := range []int64{lb, lb + 1, ub - 1, ub} {
		add(x)
	}
	for k := uint(1); k < 62; k++ {
		for d := int64(-1); d <= 1; d++ {
			add(lb + (1 << k) + d)
			add((1 << k) + d)
		}
	}
	return out
}

func sweepSizes(lb, ub int64, has bool, maxN int64) []int64 {
	if !has {
		lb, ub = 0, maxN
	}
	hi := ub
	if hi > maxN {
		hi = maxN
	}
	if hi-lb <= 300 {
		var out []int64
		for x := lb; x <= hi; x++ {
			out = append(out, x)
		}
		return out
	}
	seen := map[int64]bool{}
	var out []int64
	add := func(x int64) {
		if x >= lb && x <= hi && !seen[x] {
			seen[x] = true
			out = append(out, x)
		}
	}
	for _, x := range []int64{lb, lb + 1, lb + 2, ub - 1, ub, hi} {
		add(x)
	}
	for k := uint(1); k < 15; k++ {
		for d := int64(-1); d <= 1; d++ {
			add((1 << k) + d)
		}
	}
	return out
}

func sweepOracle(c sweepCase) ev.Verdict {
	v := ev.Verdict{NT: true, Classes: []string{"sweep:" + c.Leaf.Kind}}
	leaf := c.Leaf
	if leaf.t == nil {
		for _, l := range schemaLeaves() {
			if l.Kind == leaf.Kind && l.Tag == leaf.Tag && l.Type == leaf.Type {
				leaf.t = l.t
			}
		}
		if leaf.t == nil {
			panic("replay: leaf no longer in the schema")
		}
	}
	p := reflect.New(leaf.t)
	if err := json.Unmarshal(c.Val, p.Interface()); err != nil {
		panic(err)
	}
	val := p.Elem().Interface()
	rb, w, rerr := refper.Encode(val, leaf.Tag)
	if se := (*refper.SchemaError)(nil); errors.As(rerr, &se) {
		v.Key = "schema:" + leaf.Type + ":" + se.Msg
		v.Err = fmt.Errorf("defective type description (%s %q): %v", leaf.Kind, leaf.Tag, rerr)
		return v
	}
	if rerr != nil {
		panic(fmt.Sprintf("sweep built a value the reference refuses: %v (%s %s)", rerr, leaf.Kind, leaf.Tag))
	}
	if w.MaxLen >= 16384 {
		v.Skip = true
		return v
	}
	lb, lerr := marshalAny(val, leaf.Tag)
	if lerr == nil && bytes.Equal(lb, rb) {
		return v
	}
	kind := map[string]string{"int": "int64", "enum": "enumerated", "list": "sequence-of"}[leaf.Kind]
	if kind == "" {
		kind = leaf.Kind
	}
	v.Key = fmt.Sprintf("enc:%s[%s]", kind, leaf.Tag)
	v.Err = fmt.Errorf("%s %s n=%d: library=%x (err %v) canonical=%x", leaf.Kind, leaf.Tag, c.N, trunc(lb, 24), lerr, trunc(rb, 24))
	return v
}

// TestC03_Sweep enumerates every distinct constraint of the schema: integers exhaustively
// for ranges <= 4096 else at lb, ub and every 2^k-1/2^k/2^k+1 inside; strings and lists at
// every size when the size range is <= 300 else at the boundaries (<= 16383 / <= 2048 elements).
func TestC03_Sweep(t *testing.T) {
	r := ev.New(t, "C03", "TestC03_Sweep")
	defer r.Flush()
	leaves := schemaLeaves()
	r.Extra("distinct_constraints", len(leaves))
	kinds := map[string]int{}
	for li, leaf := range leaves {
		if li%ev.NShards() != ev.Shard() {
			continue
		}
		kinds[leaf.Kind]++
		p := gen.ParseTag(leaf.Tag)
		var ns []int64
		switch leaf.Kind {
		case "int", "enum":
			if p.VLB == nil || p.VUB == nil {
				ns = []int64{0, 1, 127, 128, 255, 256, 32767, 32768, 65535, 65536, 1 << 31}
				if p.VLB == nil {
					ns = append(ns, -1, -128, -129, -32768, -32769)
				} else {
					for i := range ns {
						ns[i] += *p.VLB
					}
				}
			} else {
				ns = boundaryInts(*p.VLB, *p.VUB)
			}
		case "bitstring":
			lb, ub, has := sbounds(p)
			ns = sweepSizes(lb, ub, has, 16383)
		case "octetstring", "string":
			lb, ub, has := sbounds(p)
			ns = sweepSizes(lb, ub, has, 16383)
		case "list":
			lb, ub, has := sbounds(p)
			ns = sweepSizes(lb, ub, has, 2048)
			if len(ns) > 40 { // lists are expensive: boundaries only
				ns = nil
				seen := map[int64]bool{}
				for _, x := range []int64{lb, lb + 1, 2, 3, 15, 16, 17, 63, 64, 127, 128, 129, 255, 256, 257, 300, 1023, 1024, 1025, 2047, 2048, 2049, 4097, ub - 1, ub} {
					if x >= lb && x <= ub && x <= 4100 && !seen[x] {
						seen[x] = true
						ns = append(ns, x)
					}
				}
			}
		}
		for _, n := range ns {
			n := n
			leaf := leaf
			val := rapid.Custom(func(rt *rapid.T) interface{} {
				return buildLeaf(rt, leaf, p, n)
			}).Example(int(ev.Seed()) + li*1009 + int(n%100003))
			b, err := json.Marshal(val)
			if err != nil {
				t.Fatal(err)
			}
			c := sweepCase{Leaf: leaf, Val: b, N: n}
			if !r.Each(t, c, ev.SafeOracle(sweepOracle, c)) {
				return
			}
		}
	}
	for k, n := range kinds {
		r.Class("constraints:"+k, int64(n))
	}
}

func sbounds(p gen.P) (int64, int64, bool) {
	if p.SLB != nil && p.SUB != nil {
		return *p.SLB, *p.SUB, true
	}
	return 0, 0, false
}

func buildLeaf(rt *rapid.T, leaf leafSpec, p gen.P, n int64) interface{} {
	_ = rapid.Bool().Draw(rt, "_") // a Custom generator must consume data
	t := leaf.t
	v := reflect.New(t).Elem()
	switch leaf.Kind {
	case "int":
		v.SetInt(n)
	case "enum":
		v.SetUint(uint64(n))
	case "bitstring":
		b := rapid.SliceOfN(rapid.Byte(), int((n+7)/8), int((n+7)/8)).Draw(rt, "b")
		if n%8 != 0 && rapid.IntRange(0, 2).Draw(rt, "dirty") != 0 {
			b[len(b)-1] &= 0xff << uint(8-n%8) // else: unused trailing bits stay set (not part of the value)
		}
		v.Field(0).SetBytes(b)
		v.Field(1).SetUint(uint64(n))
	case "octetstring":
		v.SetBytes(rapid.SliceOfN(rapid.Byte(), int(n), int(n)).Draw(rt, "b"))
	case "string":
		b := rapid.SliceOfN(rapid.ByteRange('a', 'z'), int(n), int(n)).Draw(rt, "b")
		v.SetString(string(b))
	case "list":
		g := gen.New(rt, gen.Opts{Budget: 1, NoOptional: true})
		ep := p
		ep.SLB, ep.SUB, ep.SizeExt = nil, nil, false
		s := reflect.MakeSlice(t, int(n), int(n))
		for i := 0; i < int(n); i++ {
			s.Index(i).Set(g.Value(t.Elem(), ep, 9))
		}
		v.Set(s)
	}
	return v.Interface()
}

// schemaWhere extracts the "Type.Field: Type.Field: …" chain refper wraps around an error.
func schemaWhere(err error) string {
	s := err.Error()
	if i := strings.LastIndex(s, ": schema:"); i >= 0 {
		s = s[:i]
	}
	parts := strings.Split(s, ": ")
	return parts[len(parts)-1]
}
