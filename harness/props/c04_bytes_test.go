package props

import (
	"bytes"
	"encoding/hex"
	"fmt"
	"os"
	"path/filepath"
	"reflect"
	"testing"

	"free5gclib/ngap"
	"free5gclib/ngap/ngapType"

	"pgregory.net/rapid"

	"verifh/ev"
	"verifh/gen"
	"verifh/refper"
)

// C04 from the other side: values that come OUT of the decoder.
//
// The generator of TestC04_RoundTrip builds values field by field; a decoder also produces values
// nobody would build (choices reached through damaged indexes, lists whose count was altered,
// BIT STRINGs aliasing the input, extension additions skipped, values at the edge of what the
// constraints admit). Whatever bytes the decoder ACCEPTS, the value v it returns is a value of the
// NGAP types; if it satisfies the constraints (the independent encoder accepts it) the property
// applies to it: Decoder(canonical(v)) == v and Encoder(Decoder(canonical(v))) == canonical(v),
// where canonical = refper.Encode. The bytes come from the C14 generator (mutations and structured
// faults of canonical encodings) and, in the thorough tier, from coverage-guided fuzzing.

type c04BytesCase struct {
	Kind  string     `json:"kind"`
	Entry string     `json:"entry,omitempty"`
	Edits []gen.Edit `json:"edits,omitempty"`
	Fault string     `json:"fault,omitempty"`
	Hex   string     `json:"hex"`
}

// holdsUnbuildable: does the value contain a component of a type that has no encoding at all (the alternative
// "choice-extensions" of a CHOICE and the extension containers whose information object set is empty in this
// version of TS 38.413 — zero-field structs in the library)? The decoder may produce them from damaged input;
// no conformant sender can, so they are outside "NGAP PDUs within constraints".
func holdsUnbuildable(v reflect.Value) bool {
	switch v.Kind() {
	case reflect.Ptr, reflect.Interface:
		if v.IsNil() {
			return false
		}
		return holdsUnbuildable(v.Elem())
	case reflect.Slice:
		if v.Type().Elem().Kind() == reflect.Uint8 {
			return false
		}
		for i := 0; i < v.Len(); i++ {
			if holdsUnbuildable(v.Index(i)) {
				return true
			}
		}
		return false
	case reflect.Struct:
		t := v.Type()
		if t.String() == gen.TBitString {
			return false
		}
		if !gen.Buildable(t) {
			return true
		}
		if t.NumField() > 0 && t.Field(0).Name == "Present" {
			j := int(v.Field(0).Int())
			if j <= 0 || j >= t.NumField() {
				return true
			}
			if !gen.Buildable(t.Field(j).Type) {
				return true
			}
			return holdsUnbuildable(v.Field(j))
		}
		for i := 0; i < t.NumField(); i++ {
			f := v.Field(i)
			if (f.Kind() == reflect.Ptr || f.Kind() == reflect.Slice) && f.IsNil() {
				continue
			}
			if f.Kind() == reflect.Ptr && !gen.Buildable(t.Field(i).Type) {
				return true
			}
			if holdsUnbuildable(f) {
				return true
			}
		}
	}
	return false
}

func c04BytesOracle(c c04BytesCase) ev.Verdict {
	b, err := hex.DecodeString(c.Hex)
	if err != nil {
		panic(err)
	}
	v := ev.Verdict{Classes: []string{"kind:" + c.Kind}, Hash: ev.HashBytes(b)}
	var pdu *ngapType.NGAPPDU
	derr, site := ev.Guard(func() error {
		p, e := ngap.Decoder(append([]byte{}, b...))
		pdu = p
		return e
	})
	if site != "" || derr != nil || pdu == nil {
		// refused (or a panic, which is C14's business): no value, nothing to ask
		v.Skip = true
		v.Classes = append(v.Classes, "decoder-refuses-the-bytes")
		return v
	}
	if holdsUnbuildable(reflect.ValueOf(pdu)) {
		v.Skip = true
		v.Classes = append(v.Classes, "decoded-value-holds-a-component-without-encoding")
		return v
	}
	rb, w, rerr := refper.Encode(*pdu, gen.PDUTag)
	if rerr != nil {
		v.Skip = true
		v.Classes = append(v.Classes, "decoded-value-outside-the-constraints")
		return v
	}
	if w.MaxLen >= 16384 {
		v.Skip = true
		return v
	}
	if w.OutsideRoot > 0 {
		// a size or a number outside the root of an extensible constraint: encodable (and decoded), but not a value
		// "whose fields satisfy the ASN.1 constraints of TS 38.413"; the decoder tolerating it is outside the claim
		v.Skip = true
		v.Classes = append(v.Classes, "decoded-value-outside-the-root-of-an-extensible-constraint")
		return v
	}
	v.Classes = append(v.Classes, "decoded-value-judged")
	if !bytes.Equal(rb, b) {
		// the input was not the canonical encoding of what came out of it
		v.NT = true
		v.Classes = append(v.Classes, "accepted-bytes-not-canonical")
	}
	in := append([]byte{}, rb...)
	var p2 *ngapType.NGAPPDU
	derr2, site2 := ev.Guard(func() error {
		p, e := ngap.Decoder(in)
		p2 = p
		return e
	})
	fail := func(what string) ev.Verdict {
		key, desc := locateDec(reflect.ValueOf(*pdu), gen.PDUTag, "PDU")
		if key == "" {
			key = "dec:bytes:" + what
		}
		v.Key = key
		v.Err = fmt.Errorf("%s\nvalue decoded from %x\ncanonical encoding of that value %x\n%s", what, trunc(b, 64), trunc(rb, 64), desc)
		return v
	}
	if site2 != "" || derr2 != nil || p2 == nil {
		return fail(fmt.Sprintf("the canonical encoding of a value the decoder itself produced is refused: %v %s", derr2, site2))
	}
	if d := eqv(reflect.ValueOf(pdu), reflect.ValueOf(p2), "PDU"); d != "" {
		return fail("Decoder(canonical(v)) differs from v at " + d)
	}
	var b2 []byte
	eerr, _ := ev.Guard(func() error {
		var e error
		b2, e = ngap.Encoder(*p2)
		return e
	})
	if eerr != nil || !bytes.Equal(b2, rb) {
		return fail(fmt.Sprintf("Encoder(Decoder(canonical(v))) = %x (error %v), canonical(v) = %x", trunc(b2, 64), eerr, trunc(rb, 64)))
	}
	return v
}

func TestC04_Bytes(t *testing.T) {
	r := ev.New(t, "C04", "TestC04_Bytes")
	ev.Run(t, r, func(t *rapid.T) c04BytesCase {
		c := genC14(t)
		return c04BytesCase{Kind: c.Kind, Entry: c.Entry, Edits: c.Edits, Fault: c.Fault, Hex: c.Hex}
	}, c04BytesOracle)
}

// FuzzC04Bytes: the same oracle under native coverage-guided fuzzing (thorough tier only).
func FuzzC04Bytes(f *testing.F) {
	r := ev.New(f, "C04", "FuzzC04Bytes")
	r.ReplayAs = "TestC04_Bytes"
	for mi, m := range gen.Messages() {
		m := m
		pdu := rapid.Custom(func(rt *rapid.T) ngapType.NGAPPDU {
			return gen.New(rt, gen.Opts{Budget: 80, BigString: 40}).PDU(m)
		}).Example(2000 + mi)
		if rb, _, err := refper.Encode(pdu, gen.PDUTag); err == nil && len(rb) <= 2048 {
			f.Add(rb)
		}
	}
	files, _ := filepath.Glob(filepath.Join(os.Getenv("VERIF_CORPUS"), "C04", "*.hex"))
	for _, fn := range files {
		if raw, err := os.ReadFile(fn); err == nil {
			if b, err := hex.DecodeString(string(trimSpace(raw))); err == nil {
				f.Add(b)
			}
		}
	}
	f.Fuzz(func(t *testing.T, b []byte) {
		if len(b) > 4096 {
			return
		}
		c := c04BytesCase{Kind: "native-fuzz", Hex: hex.EncodeToString(b)}
		v := c04BytesOracle(c)
		if !v.Skip {
			ev.FuzzCount("C04.decoded-values-judged")
		}
		if v.Err != nil {
			if r.IsKnown(v.Key) {
				return
			}
			r.Fail(c, v)
			t.Fatalf("[%s] %v", v.Key, v.Err)
		}
	})
}
