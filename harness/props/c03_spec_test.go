package props

import (
	"bytes"
	"encoding/json"
	"fmt"
	"reflect"
	"sort"
	"strings"
	"testing"

	"pgregory.net/rapid"

	"verifh/ev"
	"verifh/gen"
	"verifh/refper"
)

// TestC03_Spec — the encoder against an independent SCHEMA.
//
// Everywhere else in C03/C04 the constraints are the ones in the struct tags of the tree, so a
// constraint that is wrong in a tag (a size bound, a value range, a lost extension marker) is
// invisible: library and reference would both follow it. Here the reference encoder works from
// specConstraints (TS 38.413 clause 9.4, see specschema_test.go) while the library encodes the
// named type as it is declared in the tree. For every entry the values are generated from the
// SPECIFICATION's constraint:
//   - every root value / size at the boundaries (exhaustive for small ranges) must be accepted and
//     give the canonical bytes under the specification's constraint;
//   - for extensible constraints the first values above the root must give the extension encoding
//     (or be refused — the library documents no support for some extension forms — but never the
//     root encoding of a wider constraint);
//   - for non-extensible constraints lb-1 and ub+1 must be refused.
type specCase struct {
	Name string          `json:"name"` // "Type.Field"
	Spec string          `json:"spec"` // the constraint of TS 38.413 in tag notation
	N    int64           `json:"n"`    // the value / size exercised
	Mode string          `json:"mode"` // root | above-root | outside
	Val  json.RawMessage `json:"value"`
}

var typeRegistry map[string]reflect.Type

func namedTypes() map[string]reflect.Type {
	if typeRegistry != nil {
		return typeRegistry
	}
	reg := map[string]reflect.Type{}
	var walk func(t reflect.Type)
	walk = func(t reflect.Type) {
		for t.Kind() == reflect.Ptr || t.Kind() == reflect.Slice {
			if t.Kind() == reflect.Slice && t.Elem().Kind() == reflect.Uint8 {
				return
			}
			t = t.Elem()
		}
		if t.Kind() != reflect.Struct || t.PkgPath() == "" || !strings.HasSuffix(t.PkgPath(), "ngapType") {
			return
		}
		if _, ok := reg[t.Name()]; ok {
			return
		}
		reg[t.Name()] = t
		for i := 0; i < t.NumField(); i++ {
			walk(t.Field(i).Type)
		}
	}
	walk(pduType)
	for _, e := range gen.Containers() {
		walk(e.Type)
	}
	typeRegistry = reg
	return reg
}

func specKind(ft reflect.Type) string {
	for ft.Kind() == reflect.Ptr {
		ft = ft.Elem()
	}
	switch ft.String() {
	case gen.TBitString:
		return "bitstring"
	case gen.TOctet:
		return "octetstring"
	case gen.TEnum:
		return "enum"
	}
	switch ft.Kind() {
	case reflect.Int, reflect.Int32, reflect.Int64:
		return "int"
	case reflect.String:
		return "string"
	case reflect.Slice:
		return "list"
	}
	return ""
}

// specField resolves "Type.Field" in the tree: the struct type, the field index, the field's own type
// with pointers removed, and the tag the tree carries.
func specField(name string) (st reflect.Type, idx int, ft reflect.Type, treeTag string, ok bool) {
	parts := strings.SplitN(name, ".", 2)
	st, ok = namedTypes()[parts[0]]
	if !ok {
		return
	}
	f, ok2 := st.FieldByName(parts[1])
	if !ok2 {
		return st, 0, nil, "", false
	}
	ft = f.Type
	for ft.Kind() == reflect.Ptr {
		ft = ft.Elem()
	}
	return st, f.Index[0], ft, f.Tag.Get("aper"), true
}

func specOracle(c specCase) ev.Verdict {
	v := ev.Verdict{NT: true, Classes: []string{"spec:" + c.Mode}}
	st, idx, ft, treeTag, ok := specField(c.Name)
	if !ok {
		// the named type no longer exists in the tree: nothing to compare (reported as a class, not a verdict)
		v.Skip = true
		v.Classes = []string{"spec:type-not-in-tree"}
		return v
	}
	kind := specKind(ft)
	v.Classes = append(v.Classes, "spec-kind:"+kind)
	inner := reflect.New(ft)
	if err := json.Unmarshal(c.Val, inner.Interface()); err != nil {
		panic(err)
	}
	// the value as the library sees it: the named type of the tree, field set
	holder := reflect.New(st).Elem()
	hf := holder.Field(idx)
	if hf.Kind() == reflect.Ptr {
		hf.Set(reflect.New(ft))
		hf.Elem().Set(inner.Elem())
	} else {
		hf.Set(inner.Elem())
	}
	isChoice := st.NumField() > 0 && st.Field(0).Name == "Present"
	var lb []byte
	var lerr error
	if isChoice || st.NumField() != 1 {
		// a field of a CHOICE / multi-field SEQUENCE: encode the field alone under the TREE's tag
		lb, lerr = marshalAny(inner.Elem().Interface(), strings.Replace(treeTag, ",optional", "", 1))
	} else {
		lb, lerr = marshalAny(holder.Interface(), "")
	}
	spec := strings.Replace(c.Spec, ",optional", "", 1)
	rb, _, rerr := refper.Encode(inner.Elem().Interface(), spec)
	fail := func(key, format string, a ...interface{}) ev.Verdict {
		v.Key = "spec:" + c.Name + ":" + key
		v.Err = fmt.Errorf("%s (TS 38.413: %q, tree: %q) n=%d: %s", c.Name, c.Spec, treeTag, c.N, fmt.Sprintf(format, a...))
		return v
	}
	switch c.Mode {
	case "root":
		if rerr != nil {
			panic(fmt.Sprintf("spec sweep built a root value the reference refuses: %v (%s %s n=%d)", rerr, c.Name, c.Spec, c.N))
		}
		if lerr != nil {
			return fail("refused", "a value inside the constraint of TS 38.413 is refused: %v", lerr)
		}
		if !bytes.Equal(lb, rb) {
			return fail("bytes", "library %x, canonical under the specification's constraint %x", trunc(lb, 24), trunc(rb, 24))
		}
	case "above-root":
		// legal only through the extension: either the extension encoding or a refusal
		if lerr == nil && (rerr != nil || !bytes.Equal(lb, rb)) {
			return fail("above-root", "a value above the extension root is encoded as %x, the extension encoding is %x (err %v)", trunc(lb, 24), trunc(rb, 24), rerr)
		}
		if lerr != nil {
			v.Classes = append(v.Classes, "spec:above-root-refused")
		}
	case "outside":
		if lerr == nil {
			return fail("accepted", "a value outside the non-extensible constraint of TS 38.413 is put on the wire as %x", trunc(lb, 24))
		}
	}
	return v
}

func TestC03_Spec(t *testing.T) {
	r := ev.New(t, "C03", "TestC03_Spec")
	defer r.Flush()
	names := make([]string, 0, len(specConstraints))
	for k := range specConstraints {
		names = append(names, k)
	}
	sort.Strings(names)
	r.Extra("spec_entries", len(names))
	missing := 0
	for ni, name := range names {
		if ni%ev.NShards() != ev.Shard() {
			continue
		}
		spec := specConstraints[name]
		_, _, ft, _, ok := specField(name)
		if !ok {
			missing++
			r.Class("spec:type-not-in-tree", 1)
			continue
		}
		kind := specKind(ft)
		p := gen.ParseTag(spec)
		type job struct {
			n    int64
			mode string
		}
		var jobs []job
		switch kind {
		case "int", "enum":
			ns := boundaryInts(*p.VLB, *p.VUB)
			if len(ns) > 300 {
				var thin []int64
				for i, x := range ns {
					if i%13 == 0 || i >= len(ns)-3 || i < 3 {
						thin = append(thin, x)
					}
				}
				ns = thin
			}
			for _, n := range ns {
				jobs = append(jobs, job{n, "root"})
			}
			if kind == "int" {
				if p.ValExt {
					jobs = append(jobs, job{*p.VUB + 1, "above-root"}, job{*p.VUB + 2, "above-root"}, job{*p.VUB + 300, "above-root"})
				} else {
					jobs = append(jobs, job{*p.VUB + 1, "outside"}, job{*p.VLB - 1, "outside"})
				}
			} else if !p.ValExt {
				jobs = append(jobs, job{*p.VUB + 1, "outside"})
			}
		case "bitstring", "octetstring", "string":
			lb, ub, _ := sbounds(p)
			for _, n := range sweepSizes(lb, ub, true, 16383) {
				jobs = append(jobs, job{n, "root"})
			}
			if p.SizeExt {
				jobs = append(jobs, job{ub + 1, "above-root"}, job{ub + 9, "above-root"})
				if lb > 0 {
					jobs = append(jobs, job{lb - 1, "above-root"})
				}
			} else {
				if ub < 16383 {
					jobs = append(jobs, job{ub + 1, "outside"})
				}
				if lb > 0 {
					jobs = append(jobs, job{lb - 1, "outside"})
				}
			}
		case "list":
			lb, ub, _ := sbounds(p)
			seen := map[int64]bool{}
			for _, x := range []int64{lb, lb + 1, 2, 3, 7, 8, 9, 15, 16, 17, 31, 32, 33, 63, 64, 65, 127, 128, 129, 255, 256, 257, 1023, 1024, ub - 1, ub} {
				if x >= lb && x <= ub && x <= 1100 && !seen[x] {
					seen[x] = true
					jobs = append(jobs, job{x, "root"})
				}
			}
			if ub <= 1100 {
				jobs = append(jobs, job{ub + 1, "outside"})
			}
			if lb > 0 {
				jobs = append(jobs, job{lb - 1, "outside"})
			}
		default:
			continue
		}
		for _, j := range jobs {
			j := j
			if j.n < 0 && kind != "int" {
				continue
			}
			leaf := leafSpec{Kind: kind, Tag: spec, Type: ft.String(), t: ft}
			val := rapid.Custom(func(rt *rapid.T) interface{} { return buildLeaf(rt, leaf, p, j.n) }).Example(int(ev.BaseSeed()%1000003)*17 + ni*1009 + int((j.n%100003+100003)%100003))
			b, err := json.Marshal(val)
			if err != nil {
				t.Fatal(err)
			}
			c := specCase{Name: name, Spec: spec, N: j.n, Mode: j.mode, Val: b}
			vv := ev.SafeOracle(specOracle, c)
			vv.Hash = ev.HashJSON([]interface{}{name, j.n, j.mode})
			if !r.Each(t, c, vv) {
				return
			}
		}
	}
}

// ---------------------------------------------------------------------------------------
// IE identifiers: every alternative of every message's IE set, with the ProtocolIE-ID of TS 38.413.

type specIECase struct {
	Set  string          `json:"ie_set"` // e.g. DownlinkNASTransportIEs
	Alt  string          `json:"alternative"`
	ID   int64           `json:"spec_id"`
	Crit uint64          `json:"criticality"`
	Val  json.RawMessage `json:"value"`
}

func specIEOracle(c specIECase) ev.Verdict {
	v := ev.Verdict{NT: true, Classes: []string{"spec:ie-id"}}
	st := namedTypes()[c.Set]
	ie := reflect.New(st).Elem()
	ie.FieldByName("Id").Field(0).SetInt(c.ID)
	ie.FieldByName("Criticality").Field(0).SetUint(c.Crit)
	val := ie.FieldByName("Value")
	f, _ := val.Type().FieldByName(c.Alt)
	j := f.Index[0]
	val.Field(0).SetInt(int64(j))
	av := reflect.New(f.Type.Elem())
	if err := json.Unmarshal(c.Val, av.Interface()); err != nil {
		panic(err)
	}
	val.Field(j).Set(av)
	// reference: id (0..65535: two aligned octets), criticality (2 bits), open type holding the value
	altTag := f.Tag.Get("aper")
	var keep []string
	for _, part := range strings.Split(altTag, ",") {
		if !strings.HasPrefix(part, "referenceFieldValue") && part != "" {
			keep = append(keep, part)
		}
	}
	inner, _, rerr := refper.Encode(av.Elem().Interface(), strings.Join(keep, ","))
	if rerr != nil {
		v.Skip = true
		return v
	}
	if len(inner) >= 16384 {
		v.Skip = true
		return v
	}
	rb := []byte{byte(c.ID >> 8), byte(c.ID), byte(c.Crit << 6)}
	if len(inner) < 128 {
		rb = append(rb, byte(len(inner)))
	} else {
		rb = append(rb, 0x80|byte(len(inner)>>8), byte(len(inner)))
	}
	rb = append(rb, inner...)
	lb, lerr := marshalAny(ie.Interface(), "")
	if lerr != nil || !bytes.Equal(lb, rb) {
		v.Key = "spec-ie-id:" + c.Set + "." + c.Alt
		v.Err = fmt.Errorf("%s.%s with ProtocolIE-ID %d (TS 38.413 9.4.7; tree tag %q): library %x (err %v), canonical %x", c.Set, c.Alt, c.ID, altTag, trunc(lb, 24), lerr, trunc(rb, 24))
	}
	return v
}

func TestC03_SpecIEIDs(t *testing.T) {
	r := ev.New(t, "C03", "TestC03_SpecIEIDs")
	defer r.Flush()
	var sets []string
	for name, st := range namedTypes() {
		if !strings.HasSuffix(name, "IEs") || strings.Contains(name, "ExtIEs") || strings.HasPrefix(name, "ProtocolIE") {
			continue
		}
		if f, ok := st.FieldByName("Value"); !ok || !strings.HasSuffix(f.Type.Name(), "IEsValue") {
			continue
		}
		sets = append(sets, name)
	}
	sort.Strings(sets)
	r.Extra("ie_sets", len(sets))
	unknown := 0
	for si, set := range sets {
		if si%ev.NShards() != ev.Shard() {
			continue
		}
		vt, _ := namedTypes()[set].FieldByName("Value")
		for j := 1; j < vt.Type.NumField(); j++ {
			f := vt.Type.Field(j)
			id, ok := specIEID[f.Name]
			if !ok {
				unknown++
				r.Class("spec:ie-name-not-in-table", 1)
				continue
			}
			if f.Type.Kind() != reflect.Ptr || !gen.Buildable(f.Type.Elem()) {
				continue
			}
			p := gen.ParseTag(f.Tag.Get("aper"))
			for rep := 0; rep < 3; rep++ {
				ft := f.Type.Elem()
				val := rapid.Custom(func(rt *rapid.T) interface{} {
					return gen.New(rt, gen.Opts{Budget: 40, BigString: 40}).Value(ft, p, 2).Interface()
				}).Example(int(ev.BaseSeed()%1000003)*13 + si*7919 + j*101 + rep)
				b, err := json.Marshal(val)
				if err != nil {
					t.Fatal(err)
				}
				c := specIECase{Set: set, Alt: f.Name, ID: id, Crit: uint64(rep % 3), Val: b}
				vv := ev.SafeOracle(specIEOracle, c)
				vv.Hash = ev.HashJSON([]interface{}{set, f.Name, rep, string(b)})
				if !r.Each(t, c, vv) {
					return
				}
			}
		}
	}
}
