package props

import (
	"testing"

	"verifh/refper"
)

func TestSelfPER(t *testing.T) {
	if err := refper.SelfTest(); err != nil {
		t.Fatal(err)
	}
}
