package props

import (
	"strings"
	"encoding/hex"
	"bytes"
	"fmt"
	"reflect"
	"sort"
	"testing"

	"free5gclib/aper"
	"free5gclib/ngap"
	"free5gclib/ngap/ngapType"
	"tglib"
	"tglib/ngapTestpacket"

	"pgregory.net/rapid"

	"verifh/ev"
	"verifh/gen"
	"verifh/refper"
)

// C13 — gNB-side NGAP builders carry the caller's values and all mandatory IEs.
//
// A case is a history: NG Setup announces a PLMN (the builders keep it in package state),
// then any sequence of builder calls. Oracle per call: bytes -> library decoder -> value v;
// v is only trusted because the independent encoder reproduces the bytes from it
// (refper.Encode(v) == bytes), then the identifiers are read out of v by reflection.

type c13Action struct {
	Builder string  `json:"builder"`
	Amf     int64   `json:"amf"`
	Ran     int64   `json:"ran"`
	PduID   int64   `json:"pdu_id"`
	PduIDs  []int64 `json:"pdu_ids"`
	Nas     []byte  `json:"nas"`
	IP      []byte  `json:"ip"` // 4 octets
	// NG Setup
	PLMN    []byte `json:"plmn,omitempty"`
	GnbID   []byte `json:"gnb_id,omitempty"`
	GnbBits uint64 `json:"gnb_bits,omitempty"`
	Name    string `json:"name,omitempty"`
	// handover required
	TargetGNB  []byte `json:"target_gnb,omitempty"`
	TargetCell []byte `json:"target_cell,omitempty"`
	Cap        int64  `json:"cap,omitempty"`
	// TMSI: the 5G-S-TMSI argument of the INITIAL UE MESSAGE builders: 12 hexadecimal digits, AMF set id / pointer (4) and
	// 5G-TMSI (8); "" = none (what the emulator passes)
	TMSI string `json:"five_g_s_tmsi,omitempty"`
}
type c13Case struct {
	Actions []c13Action `json:"actions"`
}

type c13Spec struct {
	class, code                  int // class 1 initiating, 2 successful, 3 unsuccessful
	amf, ran, nas, pdu, pdus, ip bool
	argPLMN                      bool // PLMNs inside come from generated arguments, not from NG Setup
	msgCrit                      int  // -1: not checked
	mandatory                    []ieReq
	allowed                      []ieReq
	call                         func(a c13Action) (pdu *ngapType.NGAPPDU, b []byte, err error)
}
type ieReq struct {
	id   int64
	crit uint64 // 0 reject 1 ignore 2 notify
}

func ipString(ip []byte) string { return fmt.Sprintf("%d.%d.%d.%d", ip[0], ip[1], ip[2], ip[3]) }

func fromPDU(p ngapType.NGAPPDU) (*ngapType.NGAPPDU, []byte, error) { return &p, nil, nil }
func fromBytes(b []byte, err error) (*ngapType.NGAPPDU, []byte, error) {
	return nil, b, err
}

func sampleGuami() []ngapType.ServedGUAMIItem {
	it := ngapType.ServedGUAMIItem{}
	it.GUAMI.PLMNIdentity.Value = aper.OctetString{0x02, 0xf8, 0x39}
	it.GUAMI.AMFRegionID.Value = aper.BitString{Bytes: []byte{0xca}, BitLength: 8}
	it.GUAMI.AMFSetID.Value = aper.BitString{Bytes: []byte{0xfe, 0x00}, BitLength: 10}
	it.GUAMI.AMFPointer.Value = aper.BitString{Bytes: []byte{0x00}, BitLength: 6}
	return []ngapType.ServedGUAMIItem{it}
}
func samplePlmnSupport() []ngapType.PLMNSupportItem {
	it := ngapType.PLMNSupportItem{}
	it.PLMNIdentity.Value = aper.OctetString{0x02, 0xf8, 0x39}
	s := ngapType.SliceSupportItem{}
	s.SNSSAI.SST.Value = aper.OctetString{1}
	it.SliceSupportList.List = append(it.SliceSupportList.List, s)
	return []ngapType.PLMNSupportItem{it}
}

const (
	rej = 0
	ign = 1
)

var c13Specs = map[string]c13Spec{
	// ---- the build-and-encode wrappers the emulator uses (tglib/packet.go)
	"GetNGSetupRequest": {class: 1, code: 21, msgCrit: rej,
		mandatory: []ieReq{{27, rej}, {102, rej}, {21, ign}}, allowed: []ieReq{{82, ign}, {147, ign}},
		call: func(a c13Action) (*ngapType.NGAPPDU, []byte, error) {
			return fromBytes(tglib.GetNGSetupRequest(a.GnbID, a.PLMN, a.GnbBits, a.Name))
		}},
	"GetInitialUEMessage": {class: 1, code: 15, ran: true, nas: true, msgCrit: ign,
		mandatory: []ieReq{{85, rej}, {38, rej}, {121, rej}, {90, ign}}, allowed: []ieReq{{26, rej}, {3, ign}, {112, ign}, {0, rej}},
		call: func(a c13Action) (*ngapType.NGAPPDU, []byte, error) {
			return fromBytes(tglib.GetInitialUEMessage(a.Ran, a.Nas, ""))
		}},
	"GetInitialUEMessage(5G-S-TMSI)": {class: 1, code: 15, ran: true, nas: true, msgCrit: ign,
		mandatory: []ieReq{{85, rej}, {38, rej}, {121, rej}, {90, ign}, {26, rej}}, allowed: []ieReq{{3, ign}, {112, ign}, {0, rej}},
		call: func(a c13Action) (*ngapType.NGAPPDU, []byte, error) {
			return fromBytes(tglib.GetInitialUEMessage(a.Ran, a.Nas, a.TMSI))
		}},
	"GetUplinkNASTransport": {class: 1, code: 46, amf: true, ran: true, nas: true, msgCrit: ign,
		mandatory: []ieReq{{10, rej}, {85, rej}, {38, rej}, {121, ign}},
		call: func(a c13Action) (*ngapType.NGAPPDU, []byte, error) {
			return fromBytes(tglib.GetUplinkNASTransport(a.Amf, a.Ran, a.Nas))
		}},
	"GetInitialContextSetupResponse": {class: 2, code: 14, amf: true, ran: true, msgCrit: rej,
		mandatory: []ieReq{{10, ign}, {85, ign}}, allowed: []ieReq{{72, ign}, {55, ign}, {19, ign}},
		call: func(a c13Action) (*ngapType.NGAPPDU, []byte, error) {
			return fromBytes(tglib.GetInitialContextSetupResponse(a.Amf, a.Ran))
		}},
	"GetInitialContextSetupResponseForServiceRequest": {class: 2, code: 14, amf: true, ran: true, pdu: true, ip: true, msgCrit: rej,
		mandatory: []ieReq{{10, ign}, {85, ign}}, allowed: []ieReq{{72, ign}, {55, ign}, {19, ign}},
		call: func(a c13Action) (*ngapType.NGAPPDU, []byte, error) {
			return fromBytes(tglib.GetInitialContextSetupResponseForServiceRequest(a.Amf, a.Ran, a.PduID, ipString(a.IP)))
		}},
	"GetPDUSessionResourceSetupResponse": {class: 2, code: 29, amf: true, ran: true, pdu: true, ip: true, msgCrit: rej,
		mandatory: []ieReq{{10, ign}, {85, ign}}, allowed: []ieReq{{75, ign}, {58, ign}, {19, ign}},
		call: func(a c13Action) (*ngapType.NGAPPDU, []byte, error) {
			return fromBytes(tglib.GetPDUSessionResourceSetupResponse(a.Amf, a.Ran, a.PduID, ipString(a.IP)))
		}},
	"GetUEContextReleaseComplete": {class: 2, code: 41, amf: true, ran: true, pdus: true, msgCrit: rej,
		mandatory: []ieReq{{10, ign}, {85, ign}}, allowed: []ieReq{{121, ign}, {32, ign}, {60, rej}, {19, ign}},
		call: func(a c13Action) (*ngapType.NGAPPDU, []byte, error) {
			return fromBytes(tglib.GetUEContextReleaseComplete(a.Amf, a.Ran, a.PduIDs))
		}},
	"GetUEContextReleaseRequest": {class: 1, code: 42, amf: true, ran: true, pdus: true, msgCrit: -1,
		call: func(a c13Action) (*ngapType.NGAPPDU, []byte, error) {
			return fromBytes(tglib.GetUEContextReleaseRequest(a.Amf, a.Ran, a.PduIDs))
		}},
	"GetPDUSessionResourceReleaseResponse": {class: 2, code: 28, amf: true, ran: true, pdu: true, msgCrit: rej,
		mandatory: []ieReq{{10, ign}, {85, ign}, {70, ign}}, allowed: []ieReq{{121, ign}, {19, ign}},
		call: func(a c13Action) (*ngapType.NGAPPDU, []byte, error) {
			return fromBytes(tglib.GetPDUSessionResourceReleaseResponse(a.Amf, a.Ran, a.PduID))
		}},
	"GetPathSwitchRequest": {class: 1, code: 25, amf: true, ran: true, msgCrit: -1,
		call: func(a c13Action) (*ngapType.NGAPPDU, []byte, error) {
			return fromBytes(tglib.GetPathSwitchRequest(a.Amf, a.Ran))
		}},
	"GetHandoverRequired": {class: 1, code: 12, amf: true, ran: true, msgCrit: -1,
		call: func(a c13Action) (*ngapType.NGAPPDU, []byte, error) {
			return fromBytes(tglib.GetHandoverRequired(a.Amf, a.Ran, a.TargetGNB, a.TargetCell))
		}},
	"GetHandoverRequestAcknowledge": {class: 2, code: 13, amf: true, ran: true, msgCrit: -1,
		call: func(a c13Action) (*ngapType.NGAPPDU, []byte, error) {
			return fromBytes(tglib.GetHandoverRequestAcknowledge(a.Amf, a.Ran))
		}},
	"GetHandoverNotify": {class: 1, code: 11, amf: true, ran: true, msgCrit: -1,
		call: func(a c13Action) (*ngapType.NGAPPDU, []byte, error) {
			return fromBytes(tglib.GetHandoverNotify(a.Amf, a.Ran))
		}},
	"GetPDUSessionResourceSetupResponseForPaging": {class: 2, code: 29, amf: true, ran: true, ip: true, msgCrit: -1,
		call: func(a c13Action) (*ngapType.NGAPPDU, []byte, error) {
			return fromBytes(tglib.GetPDUSessionResourceSetupResponseForPaging(a.Amf, a.Ran, ipString(a.IP)))
		}},

	// ---- the library's Build* functions
	"BuildNGSetupRequest": {class: 1, code: 21, msgCrit: -1, call: func(a c13Action) (*ngapType.NGAPPDU, []byte, error) {
		return fromPDU(ngapTestpacket.BuildNGSetupRequest(a.PLMN))
	}},
	"BuildNGReset": {class: 1, code: 20, msgCrit: -1, call: func(a c13Action) (*ngapType.NGAPPDU, []byte, error) {
		return fromPDU(ngapTestpacket.BuildNGReset(nil))
	}},
	"BuildNGReset(partial)": {class: 1, code: 20, msgCrit: -1, call: func(a c13Action) (*ngapType.NGAPPDU, []byte, error) {
		return fromPDU(ngapTestpacket.BuildNGReset(c13ResetList(a)))
	}},
	"BuildNGResetAcknowledge": {class: 2, code: 20, msgCrit: -1, call: func(a c13Action) (*ngapType.NGAPPDU, []byte, error) {
		return fromPDU(ngapTestpacket.BuildNGResetAcknowledge())
	}},
	"BuildInitialUEMessage": {class: 1, code: 15, ran: true, nas: true, msgCrit: -1, call: func(a c13Action) (*ngapType.NGAPPDU, []byte, error) {
		return fromPDU(ngapTestpacket.BuildInitialUEMessage(a.Ran, a.Nas, ""))
	}},
	"BuildInitialUEMessage(5G-S-TMSI)": {class: 1, code: 15, ran: true, nas: true, msgCrit: -1, call: func(a c13Action) (*ngapType.NGAPPDU, []byte, error) {
		return fromPDU(ngapTestpacket.BuildInitialUEMessage(a.Ran, a.Nas, a.TMSI))
	}},
	"BuildErrorIndication": {class: 1, code: 9, msgCrit: -1, call: func(a c13Action) (*ngapType.NGAPPDU, []byte, error) {
		return fromPDU(ngapTestpacket.BuildErrorIndication())
	}},
	"BuildUEContextReleaseRequest": {class: 1, code: 42, amf: true, ran: true, pdus: true, msgCrit: -1, call: func(a c13Action) (*ngapType.NGAPPDU, []byte, error) {
		return fromPDU(ngapTestpacket.BuildUEContextReleaseRequest(a.Amf, a.Ran, a.PduIDs))
	}},
	"BuildUEContextReleaseComplete": {class: 2, code: 41, amf: true, ran: true, pdus: true, msgCrit: -1, call: func(a c13Action) (*ngapType.NGAPPDU, []byte, error) {
		return fromPDU(ngapTestpacket.BuildUEContextReleaseComplete(a.Amf, a.Ran, a.PduIDs))
	}},
	"BuildUEContextModificationResponse": {class: 2, code: 40, amf: true, ran: true, msgCrit: -1, call: func(a c13Action) (*ngapType.NGAPPDU, []byte, error) {
		return fromPDU(ngapTestpacket.BuildUEContextModificationResponse(a.Amf, a.Ran))
	}},
	"BuildUplinkNasTransport": {class: 1, code: 46, amf: true, ran: true, nas: true, msgCrit: -1, call: func(a c13Action) (*ngapType.NGAPPDU, []byte, error) {
		return fromPDU(ngapTestpacket.BuildUplinkNasTransport(a.Amf, a.Ran, a.Nas))
	}},
	"BuildInitialContextSetupResponse": {class: 2, code: 14, amf: true, ran: true, pdu: true, ip: true, msgCrit: -1, call: func(a c13Action) (*ngapType.NGAPPDU, []byte, error) {
		return fromPDU(ngapTestpacket.BuildInitialContextSetupResponse(a.Amf, a.Ran, a.PduID, ipString(a.IP), nil))
	}},
	// the optional failed-to-setup list next to the session that WAS set up: naming the same session (a contradictory
	// but in-range argument: both ids are 0..255) or another one; the session given as pduId and the GTP address
	// must still be found in the encoding
	"BuildInitialContextSetupResponse(failed list names the same session)": {class: 2, code: 14, amf: true, ran: true, pdu: true, ip: true, msgCrit: -1, call: func(a c13Action) (*ngapType.NGAPPDU, []byte, error) {
		var fl ngapType.PDUSessionResourceFailedToSetupListCxtRes
		it := ngapType.PDUSessionResourceFailedToSetupItemCxtRes{}
		it.PDUSessionID.Value = a.PduID
		it.PDUSessionResourceSetupUnsuccessfulTransfer = aper.OctetString{0x00}
		fl.List = append(fl.List, it)
		return fromPDU(ngapTestpacket.BuildInitialContextSetupResponse(a.Amf, a.Ran, a.PduID, ipString(a.IP), &fl))
	}},
	"BuildInitialContextSetupResponse(failed list names another session)": {class: 2, code: 14, amf: true, ran: true, ip: true, msgCrit: -1, call: func(a c13Action) (*ngapType.NGAPPDU, []byte, error) {
		var fl ngapType.PDUSessionResourceFailedToSetupListCxtRes
		it := ngapType.PDUSessionResourceFailedToSetupItemCxtRes{}
		it.PDUSessionID.Value = (a.PduID%256 + 256 + 1) % 256
		it.PDUSessionResourceSetupUnsuccessfulTransfer = aper.OctetString{0x00}
		fl.List = append(fl.List, it)
		return fromPDU(ngapTestpacket.BuildInitialContextSetupResponse(a.Amf, a.Ran, int64(uint8(a.PduID)), ipString(a.IP), &fl))
	}},
	"BuildInitialContextSetupFailure": {class: 3, code: 14, amf: true, ran: true, msgCrit: -1, call: func(a c13Action) (*ngapType.NGAPPDU, []byte, error) {
		return fromPDU(ngapTestpacket.BuildInitialContextSetupFailure(a.Amf, a.Ran))
	}},
	"BuildPathSwitchRequest": {class: 1, code: 25, amf: true, ran: true, msgCrit: -1, call: func(a c13Action) (*ngapType.NGAPPDU, []byte, error) {
		return fromPDU(ngapTestpacket.BuildPathSwitchRequest(a.Amf, a.Ran))
	}},
	"BuildHandoverRequestAcknowledge": {class: 2, code: 13, amf: true, ran: true, msgCrit: -1, call: func(a c13Action) (*ngapType.NGAPPDU, []byte, error) {
		return fromPDU(ngapTestpacket.BuildHandoverRequestAcknowledge(a.Amf, a.Ran))
	}},
	"BuildHandoverFailure": {class: 3, code: 13, amf: true, msgCrit: -1, call: func(a c13Action) (*ngapType.NGAPPDU, []byte, error) {
		return fromPDU(ngapTestpacket.BuildHandoverFailure(a.Amf))
	}},
	"BuildPDUSessionResourceReleaseResponse": {class: 2, code: 28, msgCrit: -1, call: func(a c13Action) (*ngapType.NGAPPDU, []byte, error) {
		return fromPDU(ngapTestpacket.BuildPDUSessionResourceReleaseResponse())
	}},
	"BuildAMFConfigurationUpdateFailure": {class: 3, code: 0, msgCrit: -1, call: func(a c13Action) (*ngapType.NGAPPDU, []byte, error) {
		return fromPDU(ngapTestpacket.BuildAMFConfigurationUpdateFailure())
	}},
	"BuildUERadioCapabilityCheckRequest": {class: 1, code: 43, amf: true, ran: true, msgCrit: -1, call: func(a c13Action) (*ngapType.NGAPPDU, []byte, error) {
		return fromPDU(ngapTestpacket.BuildUERadioCapabilityCheckRequest(a.Amf, a.Ran))
	}},
	"BuildUERadioCapabilityCheckResponse": {class: 2, code: 43, msgCrit: -1, call: func(a c13Action) (*ngapType.NGAPPDU, []byte, error) {
		return fromPDU(ngapTestpacket.BuildUERadioCapabilityCheckResponse())
	}},
	"BuildHandoverCancel": {class: 1, code: 10, msgCrit: -1, call: func(a c13Action) (*ngapType.NGAPPDU, []byte, error) {
		return fromPDU(ngapTestpacket.BuildHandoverCancel())
	}},
	"BuildLocationReportingFailureIndication": {class: 1, code: 17, msgCrit: -1, call: func(a c13Action) (*ngapType.NGAPPDU, []byte, error) {
		return fromPDU(ngapTestpacket.BuildLocationReportingFailureIndication())
	}},
	"BuildPDUSessionResourceSetupResponse": {class: 2, code: 29, amf: true, ran: true, ip: true, msgCrit: -1, call: func(a c13Action) (*ngapType.NGAPPDU, []byte, error) {
		return fromPDU(ngapTestpacket.BuildPDUSessionResourceSetupResponse(a.Amf, a.Ran, ipString(a.IP)))
	}},
	"BuildPDUSessionResourceSetupResponseForPaging": {class: 2, code: 29, amf: true, ran: true, ip: true, msgCrit: -1, call: func(a c13Action) (*ngapType.NGAPPDU, []byte, error) {
		return fromPDU(ngapTestpacket.BuildPDUSessionResourceSetupResponseForPaging(a.Amf, a.Ran, ipString(a.IP)))
	}},
	"BuildPDUSessionResourceModifyResponse": {class: 2, code: 26, amf: true, ran: true, msgCrit: -1, call: func(a c13Action) (*ngapType.NGAPPDU, []byte, error) {
		return fromPDU(ngapTestpacket.BuildPDUSessionResourceModifyResponse(a.Amf, a.Ran))
	}},
	"BuildPDUSessionResourceNotify": {class: 1, code: 30, msgCrit: -1, call: func(a c13Action) (*ngapType.NGAPPDU, []byte, error) {
		return fromPDU(ngapTestpacket.BuildPDUSessionResourceNotify())
	}},
	"BuildPDUSessionResourceModifyIndication": {class: 1, code: 27, amf: true, ran: true, msgCrit: -1, call: func(a c13Action) (*ngapType.NGAPPDU, []byte, error) {
		return fromPDU(ngapTestpacket.BuildPDUSessionResourceModifyIndication(a.Amf, a.Ran))
	}},
	"BuildUEContextModificationFailure": {class: 3, code: 40, amf: true, ran: true, msgCrit: -1, call: func(a c13Action) (*ngapType.NGAPPDU, []byte, error) {
		return fromPDU(ngapTestpacket.BuildUEContextModificationFailure(a.Amf, a.Ran))
	}},
	"BuildRRCInactiveTransitionReport": {class: 1, code: 37, msgCrit: -1, call: func(a c13Action) (*ngapType.NGAPPDU, []byte, error) {
		return fromPDU(ngapTestpacket.BuildRRCInactiveTransitionReport())
	}},
	"BuildHandoverNotify": {class: 1, code: 11, amf: true, ran: true, msgCrit: -1, call: func(a c13Action) (*ngapType.NGAPPDU, []byte, error) {
		return fromPDU(ngapTestpacket.BuildHandoverNotify(a.Amf, a.Ran))
	}},
	"BuildUplinkRanStatusTransfer": {class: 1, code: 49, amf: true, ran: true, msgCrit: -1, call: func(a c13Action) (*ngapType.NGAPPDU, []byte, error) {
		return fromPDU(ngapTestpacket.BuildUplinkRanStatusTransfer(a.Amf, a.Ran))
	}},
	"BuildNasNonDeliveryIndication": {class: 1, code: 19, amf: true, ran: true, nas: true, msgCrit: -1, call: func(a c13Action) (*ngapType.NGAPPDU, []byte, error) {
		return fromPDU(ngapTestpacket.BuildNasNonDeliveryIndication(a.Amf, a.Ran, aper.OctetString(a.Nas)))
	}},
	"BuildRanConfigurationUpdate": {class: 1, code: 35, msgCrit: -1, call: func(a c13Action) (*ngapType.NGAPPDU, []byte, error) {
		return fromPDU(ngapTestpacket.BuildRanConfigurationUpdate())
	}},
	"BuildRanConfigurationUpdateAck": {class: 2, code: 35, msgCrit: -1, call: func(a c13Action) (*ngapType.NGAPPDU, []byte, error) {
		return fromPDU(ngapTestpacket.BuildRanConfigurationUpdateAck(nil))
	}},
	"BuildRanConfigurationUpdateFailure": {class: 3, code: 35, msgCrit: -1, call: func(a c13Action) (*ngapType.NGAPPDU, []byte, error) {
		return fromPDU(ngapTestpacket.BuildRanConfigurationUpdateFailure(nil, nil))
	}},
	"BuildUplinkRanConfigurationTransfer": {class: 1, code: 48, msgCrit: -1, call: func(a c13Action) (*ngapType.NGAPPDU, []byte, error) {
		return fromPDU(ngapTestpacket.BuildUplinkRanConfigurationTransfer())
	}},
	"BuildUplinkUEAssociatedNRPPATransport": {class: 1, code: 50, msgCrit: -1, call: func(a c13Action) (*ngapType.NGAPPDU, []byte, error) {
		return fromPDU(ngapTestpacket.BuildUplinkUEAssociatedNRPPATransport())
	}},
	"BuildUplinkNonUEAssociatedNRPPATransport": {class: 1, code: 47, msgCrit: -1, call: func(a c13Action) (*ngapType.NGAPPDU, []byte, error) {
		return fromPDU(ngapTestpacket.BuildUplinkNonUEAssociatedNRPPATransport())
	}},
	"BuildLocationReport": {class: 1, code: 18, msgCrit: -1, call: func(a c13Action) (*ngapType.NGAPPDU, []byte, error) {
		return fromPDU(ngapTestpacket.BuildLocationReport())
	}},
	"BuildUERadioCapabilityInfoIndication": {class: 1, code: 44, msgCrit: -1, call: func(a c13Action) (*ngapType.NGAPPDU, []byte, error) {
		return fromPDU(ngapTestpacket.BuildUERadioCapabilityInfoIndication())
	}},
	"BuildAMFConfigurationUpdateAcknowledge": {class: 2, code: 0, msgCrit: -1, call: func(a c13Action) (*ngapType.NGAPPDU, []byte, error) {
		return fromPDU(ngapTestpacket.BuildAMFConfigurationUpdateAcknowledge())
	}},
	"BuildAMFConfigurationUpdate": {class: 1, code: 0, argPLMN: true, msgCrit: -1, call: func(a c13Action) (*ngapType.NGAPPDU, []byte, error) {
		return fromPDU(ngapTestpacket.BuildAMFConfigurationUpdate(a.Name, sampleGuami(), samplePlmnSupport(), a.Cap, nil, nil, nil))
	}},
	"BuildHandoverRequired": {class: 1, code: 12, amf: true, ran: true, msgCrit: -1, call: func(a c13Action) (*ngapType.NGAPPDU, []byte, error) {
		return fromPDU(ngapTestpacket.BuildHandoverRequired(a.Amf, a.Ran, a.TargetGNB, a.TargetCell))
	}},
	"BuildCellTrafficTrace": {class: 1, code: 2, amf: true, ran: true, msgCrit: -1, call: func(a c13Action) (*ngapType.NGAPPDU, []byte, error) {
		return fromPDU(ngapTestpacket.BuildCellTrafficTrace(a.Amf, a.Ran))
	}},
	"BuildInitialContextSetupResponseForRegistraionTest": {class: 2, code: 14, amf: true, ran: true, msgCrit: -1, call: func(a c13Action) (*ngapType.NGAPPDU, []byte, error) {
		return fromPDU(ngapTestpacket.BuildInitialContextSetupResponseForRegistraionTest(a.Amf, a.Ran))
	}},
	"BuildPDUSessionResourceSetupResponseForRegistrationTest": {class: 2, code: 29, amf: true, ran: true, pdu: true, ip: true, msgCrit: -1, call: func(a c13Action) (*ngapType.NGAPPDU, []byte, error) {
		return fromPDU(ngapTestpacket.BuildPDUSessionResourceSetupResponseForRegistrationTest(a.Amf, a.Ran, a.PduID, ipString(a.IP)))
	}},
	"BuildPDUSessionResourceReleaseResponseForReleaseTest": {class: 2, code: 28, amf: true, ran: true, pdu: true, msgCrit: -1, call: func(a c13Action) (*ngapType.NGAPPDU, []byte, error) {
		return fromPDU(ngapTestpacket.BuildPDUSessionResourceReleaseResponseForReleaseTest(a.Amf, a.Ran, a.PduID))
	}},
	"BuildNGSetupResponse": {class: 2, code: 21, argPLMN: true, msgCrit: -1, call: func(a c13Action) (*ngapType.NGAPPDU, []byte, error) {
		return fromPDU(ngapTestpacket.BuildNGSetupResponse(a.Name, sampleGuami(), samplePlmnSupport(), a.Cap))
	}},
	"BuildPDUSessionResourceModifyConfirm": {class: 2, code: 27, amf: true, ran: true, pdu: true, msgCrit: -1, call: func(a c13Action) (*ngapType.NGAPPDU, []byte, error) {
		var ok ngapType.PDUSessionResourceModifyListModCfm
		it := ngapType.PDUSessionResourceModifyItemModCfm{}
		it.PDUSessionID.Value = a.PduID
		it.PDUSessionResourceModifyConfirmTransfer = aper.OctetString{0}
		ok.List = append(ok.List, it)
		var failed ngapType.PDUSessionResourceFailedToModifyListModCfm
		ft := ngapType.PDUSessionResourceFailedToModifyItemModCfm{}
		ft.PDUSessionID.Value = a.PduID
		ft.PDUSessionResourceModifyIndicationUnsuccessfulTransfer = aper.OctetString{0}
		failed.List = append(failed.List, ft)
		return fromPDU(ngapTestpacket.BuildPDUSessionResourceModifyConfirm(a.Amf, a.Ran, ok, failed, nil))
	}},
	"BuildPDUSessionResourceReleaseCommand": {class: 1, code: 28, amf: true, ran: true, nas: true, pdu: true, msgCrit: -1, call: func(a c13Action) (*ngapType.NGAPPDU, []byte, error) {
		var l ngapType.PDUSessionResourceToReleaseListRelCmd
		it := ngapType.PDUSessionResourceToReleaseItemRelCmd{}
		it.PDUSessionID.Value = a.PduID
		it.PDUSessionResourceReleaseCommandTransfer = aper.OctetString{0}
		l.List = append(l.List, it)
		return fromPDU(ngapTestpacket.BuildPDUSessionResourceReleaseCommand(a.Amf, a.Ran, nil, a.Nas, l))
	}},
	"BuildOverloadStart": {class: 1, code: 22, msgCrit: -1, call: func(a c13Action) (*ngapType.NGAPPDU, []byte, error) {
		return fromPDU(ngapTestpacket.BuildOverloadStart(nil, nil, nil))
	}},
	"BuildOverloadStop": {class: 1, code: 23, msgCrit: -1, call: func(a c13Action) (*ngapType.NGAPPDU, []byte, error) {
		return fromPDU(ngapTestpacket.BuildOverloadStop())
	}},
}

var c13Names []string

func init() {
	for k := range c13Specs {
		c13Names = append(c13Names, k)
	}
	sort.Strings(c13Names)
}

func genID(t *rapid.T, label string, ub int64, outOfRange bool) int64 {
	if outOfRange {
		return rapid.SampledFrom([]int64{-1, ub + 1, -2, ub + 1000}).Draw(t, label+"_bad")
	}
	return rapid.OneOf(rapid.SampledFrom([]int64{0, 1, 255, 256, 65535, 65536, ub - 1, ub}),
		rapid.Int64Range(0, ub), rapid.Int64Range(0, ub)).Draw(t, label)
}

func genC13Action(t *rapid.T, i int, forceSetup bool) c13Action {
	l := fmt.Sprintf("a%d_", i)
	a := c13Action{}
	if forceSetup {
		a.Builder = "GetNGSetupRequest"
	} else {
		a.Builder = rapid.SampledFrom(c13Names).Draw(t, l+"builder")
	}
	bad := rapid.IntRange(0, 11).Draw(t, l+"bad") // 0: amf, 1: ran, 2: pdu id out of range
	a.Amf = genID(t, l+"amf", 1<<40-1, bad == 0)
	a.Ran = genID(t, l+"ran", 1<<32-1, bad == 1)
	a.PduID = genID(t, l+"pdu", 255, bad == 2)
	if rapid.Bool().Draw(t, l+"haspdus") {
		n := rapid.IntRange(1, 4).Draw(t, l+"npdus")
		for k := 0; k < n; k++ {
			a.PduIDs = append(a.PduIDs, genID(t, fmt.Sprintf("%spdus%d", l, k), 255, bad == 2 && k == 0))
		}
	}
	nl := rapid.OneOf(rapid.IntRange(0, 64), rapid.SampledFrom([]int{0, 1, 127, 128, 255, 256, 1000, 2047, 5000}), rapid.IntRange(0, 5000)).Draw(t, l+"naslen")
	a.Nas = rapid.SliceOfN(rapid.Byte(), nl, nl).Draw(t, l+"nas")
	a.IP = rapid.SliceOfN(rapid.Byte(), 4, 4).Draw(t, l+"ip")
	if rapid.IntRange(0, 2).Draw(t, l+"ip_special") == 0 {
		a.IP = gen.SpecialIPv4(t, l+"ip_s")
	}
	a.PLMN = rapid.SliceOfN(rapid.Byte(), 3, 3).Draw(t, l+"plmn")
	a.GnbBits = uint64(rapid.IntRange(22, 32).Draw(t, l+"gnbbits"))
	if bad == 3 {
		// just outside 22..32, and far outside with the low octet / low 16 / low 32 bits inside it
		a.GnbBits = rapid.SampledFrom([]uint64{21, 33, 0, 40, 256 + 24, 256 + 22, 512 + 32, 65536 + 32, 1<<32 + 24, 1<<63 + 22, 1<<64 - 1}).Draw(t, l+"gnbbits_bad")
	}
	nb := 4
	if a.GnbBits <= 40 {
		nb = int(a.GnbBits+7) / 8
	}
	a.GnbID = rapid.SliceOfN(rapid.Byte(), nb, nb).Draw(t, l+"gnbid")
	if a.GnbBits%8 != 0 && nb > 0 {
		a.GnbID[nb-1] &= 0xff << (8 - a.GnbBits%8)
	}
	nn := rapid.OneOf(rapid.IntRange(1, 20), rapid.SampledFrom([]int{1, 2, 3, 127, 128, 149, 150})).Draw(t, l+"namelen")
	if bad == 4 {
		nn = rapid.SampledFrom([]int{151, 300}).Draw(t, l+"namelen_ext") // outside the root of an extensible size: still legal
	}
	idx := rapid.SliceOfN(rapid.IntRange(0, len(printableChars)-1), nn, nn).Draw(t, l+"name")
	nm := make([]byte, nn)
	for k := range nm {
		nm[k] = printableChars[idx[k]]
	}
	a.Name = string(nm)
	tg := rapid.SampledFrom([]int{3, 4}).Draw(t, l+"tgnb")
	a.TargetGNB = rapid.SliceOfN(rapid.Byte(), tg, tg).Draw(t, l+"targetgnb")
	a.TargetCell = rapid.SliceOfN(rapid.Byte(), 5, 5).Draw(t, l+"targetcell")
	a.TargetCell[4] &= 0xf0
	a.Cap = int64(rapid.IntRange(0, 255).Draw(t, l+"cap"))
	tm := rapid.OneOf(rapid.SliceOfN(rapid.Byte(), 6, 6), rapid.Just([]byte{0xfe, 0x00, 0x00, 0x00, 0x00, 0x01}), rapid.Just([]byte{0xfe, 0x00, 0x80, 0x00, 0x00, 0x00}),
		rapid.Just([]byte{0xff, 0xc0, 0xff, 0xff, 0xff, 0xff}), rapid.Just([]byte{0, 0, 0, 0, 0, 0})).Draw(t, l+"tmsi")
	a.TMSI = hex.EncodeToString(tm)
	return a
}

const printableChars = "ABCDEFGHIJKLMNOPQRSTUVWXYZabcdefghijklmnopqrstuvwxyz0123456789 '()+,-./:=?"

func genC13(t *rapid.T) c13Case {
	n := rapid.IntRange(1, 8).Draw(t, "nactions")
	c := c13Case{}
	c.Actions = append(c.Actions, genC13Action(t, 0, true))
	var sessionBuilders []string
	for _, name := range c13Names {
		if sp := c13Specs[name]; sp.amf && sp.ran && (sp.pdus || sp.pdu) {
			sessionBuilders = append(sessionBuilders, name)
		}
	}
	for i := 1; i <= n; i++ {
		a := genC13Action(t, i, false)
		c.Actions = append(c.Actions, a)
		// the messages of ONE UE's procedures follow each other: a further message for the same UE (same AMF/RAN UE NGAP
		// ids) that names other PDU sessions, or none - a message carries the arguments of ITS call, whatever an earlier
		// message for that UE carried
		if sp := c13Specs[a.Builder]; sp.amf && sp.ran && (sp.pdus || sp.pdu) && len(sessionBuilders) > 0 && rapid.IntRange(0, 1).Draw(t, fmt.Sprintf("a%d_followup", i)) == 1 {
			f := genC13Action(t, 100+i, false)
			f.Builder = rapid.SampledFrom(sessionBuilders).Draw(t, fmt.Sprintf("a%d_followup_builder", i))
			f.Amf, f.Ran = a.Amf, a.Ran
			if rapid.Bool().Draw(t, fmt.Sprintf("a%d_followup_nolist", i)) {
				f.PduIDs = nil
			}
			c.Actions = append(c.Actions, f)
		}
	}
	if rapid.IntRange(0, 5).Draw(t, "last_bad_plmn") == 2 {
		// as the last action (the builder stores what it is given, so nothing sensible can follow): an NG Setup whose PLMN
		// identity does not have the three octets PLMNIdentity ::= OCTET STRING (SIZE(3)) has - refused, not cut or padded
		a := genC13Action(t, 200, true)
		a.Builder = rapid.SampledFrom([]string{"GetNGSetupRequest", "BuildNGSetupRequest"}).Draw(t, "bad_plmn_builder")
		l := rapid.SampledFrom([]int{0, 1, 2, 4, 6}).Draw(t, "bad_plmn_len")
		a.PLMN = rapid.SliceOfN(rapid.Byte(), l, l).Draw(t, "bad_plmn")
		c.Actions = append(c.Actions, a)
	}
	return c
}

// inRange: are all arguments this builder consumes inside their ASN.1 ranges?
// c13ResetList: the UE-associated logical NG-connections of a partial NG RESET, from the action's arguments: item k
// names a connection by both ids, by the AMF-UE-NGAP-ID alone or by the RAN-UE-NGAP-ID alone (both are OPTIONAL in
// UE-associatedLogicalNG-connectionItem), as PduIDs[k] mod 3 says.
func c13ResetList(a c13Action) *ngapType.UEAssociatedLogicalNGConnectionList {
	kinds := a.PduIDs
	if len(kinds) == 0 {
		kinds = []int64{a.PduID}
	}
	l := &ngapType.UEAssociatedLogicalNGConnectionList{}
	mod := func(x, m int64) int64 { return ((x % m) + m) % m }
	for k, kind := range kinds {
		it := ngapType.UEAssociatedLogicalNGConnectionItem{}
		if mod(kind, 3) != 2 {
			it.AMFUENGAPID = &ngapType.AMFUENGAPID{Value: mod(a.Amf+int64(k)*7, 1<<40)}
		}
		if mod(kind, 3) != 1 {
			it.RANUENGAPID = &ngapType.RANUENGAPID{Value: mod(a.Ran+int64(k)*5, 1<<32)}
		}
		l.List = append(l.List, it)
	}
	return l
}

func c13ItemString(it ngapType.UEAssociatedLogicalNGConnectionItem) string {
	o := "{"
	if it.AMFUENGAPID != nil {
		o += fmt.Sprintf("amf %d", it.AMFUENGAPID.Value)
	}
	if it.RANUENGAPID != nil {
		o += fmt.Sprintf(" ran %d", it.RANUENGAPID.Value)
	}
	return o + "}"
}

func c13InRange(a c13Action, s c13Spec) bool {
	if s.amf && (a.Amf < 0 || a.Amf > 1<<40-1) {
		return false
	}
	if s.ran && (a.Ran < 0 || a.Ran > 1<<32-1) {
		return false
	}
	if s.pdu && (a.PduID < 0 || a.PduID > 255) {
		return false
	}
	if s.pdus {
		for _, x := range a.PduIDs {
			if x < 0 || x > 255 {
				return false
			}
		}
	}
	if (a.Builder == "GetNGSetupRequest" || a.Builder == "BuildNGSetupRequest") && len(a.PLMN) != 3 {
		return false
	}
	if a.Builder == "GetNGSetupRequest" {
		// RANNodeName / AMFName are PrintableString (SIZE(1..150, ...)): extensible, so a longer
		// name is a legal value and not "out of range"; only the gNB id length is a hard bound.
		if a.GnbBits < 22 || a.GnbBits > 32 {
			return false
		}
	}
	return true
}

type collected struct {
	amf, ran, pdu []int64
	nas           [][]byte
	plmn          [][]byte
	gnb           []aper.BitString
	names         []string
	transfers     [][]byte // PDUSessionResourceSetupResponseTransfer octet strings
}

func collect(v reflect.Value, c *collected, fieldName string) {
	for v.Kind() == reflect.Ptr {
		if v.IsNil() {
			return
		}
		v = v.Elem()
	}
	switch x := v.Interface().(type) {
	case ngapType.AMFUENGAPID:
		c.amf = append(c.amf, x.Value)
		return
	case ngapType.RANUENGAPID:
		c.ran = append(c.ran, x.Value)
		return
	case ngapType.PDUSessionID:
		c.pdu = append(c.pdu, x.Value)
		return
	case ngapType.NASPDU:
		c.nas = append(c.nas, []byte(x.Value))
		return
	case ngapType.PLMNIdentity:
		c.plmn = append(c.plmn, []byte(x.Value))
		return
	case ngapType.RANNodeName:
		c.names = append(c.names, x.Value)
		return
	case ngapType.GNBID:
		if x.GNBID != nil {
			c.gnb = append(c.gnb, *x.GNBID)
		}
		return
	case aper.OctetString:
		if fieldName == "PDUSessionResourceSetupResponseTransfer" {
			c.transfers = append(c.transfers, []byte(x))
		}
		return
	case aper.BitString:
		return
	}
	switch v.Kind() {
	case reflect.Struct:
		t := v.Type()
		if t.NumField() > 0 && t.Field(0).Name == "Present" {
			j := int(v.Field(0).Int())
			if j > 0 && j < t.NumField() {
				collect(v.Field(j), c, t.Field(j).Name)
			}
			return
		}
		for i := 0; i < t.NumField(); i++ {
			collect(v.Field(i), c, t.Field(i).Name)
		}
	case reflect.Slice:
		if v.Type().Elem().Kind() == reflect.Uint8 {
			return
		}
		for i := 0; i < v.Len(); i++ {
			collect(v.Index(i), c, fieldName)
		}
	}
}

// ieList returns (id, criticality) of the top-level IEs of a decoded PDU.
func ieList(p *ngapType.NGAPPDU) (out []ieReq, class int, code int64, crit uint64) {
	v := reflect.ValueOf(*p)
	class = int(v.Field(0).Int())
	if class < 1 || class > 3 || v.Field(class).IsNil() {
		return nil, class, -1, 0
	}
	m := v.Field(class).Elem()
	code = m.FieldByName("ProcedureCode").Field(0).Int()
	crit = m.FieldByName("Criticality").Field(0).Uint()
	val := m.FieldByName("Value")
	j := int(val.Field(0).Int())
	if j <= 0 || j >= val.NumField() {
		return nil, class, code, crit
	}
	alt := val.Field(j)
	for alt.Kind() == reflect.Ptr {
		if alt.IsNil() {
			return nil, class, code, crit
		}
		alt = alt.Elem()
	}
	ies := alt.FieldByName("ProtocolIEs")
	if !ies.IsValid() {
		return nil, class, code, crit
	}
	l := ies.FieldByName("List")
	for i := 0; i < l.Len(); i++ {
		e := l.Index(i)
		out = append(out, ieReq{id: e.FieldByName("Id").Field(0).Int(), crit: e.FieldByName("Criticality").Field(0).Uint()})
	}
	return
}

func sameMultiset(a, b []int64) bool {
	if len(a) != len(b) {
		return false
	}
	x := append([]int64{}, a...)
	y := append([]int64{}, b...)
	sort.Slice(x, func(i, j int) bool { return x[i] < x[j] })
	sort.Slice(y, func(i, j int) bool { return y[i] < y[j] })
	for i := range x {
		if x[i] != y[i] {
			return false
		}
	}
	return true
}

// c13Held: what one action of the history produced — the message value a Build* function returned (not yet
// encoded by its caller) and the octets obtained for it at the time. Both are looked at again at the end of the
// history: the emulator's own callers keep such values while other messages are built.
type c13Held struct {
	builder string
	pdu     *ngapType.NGAPPDU
	bytes   []byte // as returned (may alias library memory)
	snap    []byte // private copy taken when they were returned
}

var c13Keep *[]c13Held

func c13Check(a c13Action, s c13Spec, announced []byte) (key string, err error) {
	var pdu *ngapType.NGAPPDU
	var b []byte
	var berr error
	gerr, site := ev.Guard(func() error {
		pdu, b, berr = s.call(a)
		if berr == nil && pdu != nil {
			b, berr = ngap.Encoder(*pdu)
		}
		return nil
	})
	if c13Keep != nil && site == "" && berr == nil && c13InRange(a, s) {
		*c13Keep = append(*c13Keep, c13Held{builder: a.Builder, pdu: pdu, bytes: b, snap: append([]byte{}, b...)})
	}
	in := c13InRange(a, s)
	if site != "" {
		return "panic:" + site, fmt.Errorf("%s panicked: %v", a.Builder, gerr)
	}
	if !in {
		if berr == nil {
			return "accepted-out-of-range:" + a.Builder, fmt.Errorf("%s accepted out-of-range arguments (amf=%d ran=%d pdu=%d pdus=%v gnbbits=%d namelen=%d plmn=%x) and produced %d octets",
				a.Builder, a.Amf, a.Ran, a.PduID, a.PduIDs, a.GnbBits, len(a.Name), a.PLMN, len(b))
		}
		return "", nil
	}
	if berr != nil {
		return "refused-in-range:" + a.Builder, fmt.Errorf("%s refused in-range arguments: %v", a.Builder, berr)
	}
	d, derr := ngap.Decoder(append([]byte{}, b...))
	if derr != nil {
		return "undecodable:" + a.Builder, fmt.Errorf("%s output does not decode: %v", a.Builder, derr)
	}
	rb, _, rerr := refper.Encode(*d, gen.PDUTag)
	if rerr != nil || !bytes.Equal(rb, b) {
		return "not-canonical:" + a.Builder, fmt.Errorf("%s: the independent encoder does not reproduce the bytes from the decoded value (err %v)", a.Builder, rerr)
	}
	ies, class, code, crit := ieList(d)
	if class != s.class || code != int64(s.code) {
		return "wrong-message:" + a.Builder, fmt.Errorf("%s produced class %d procedure code %d, want %d/%d", a.Builder, class, code, s.class, s.code)
	}
	if s.msgCrit >= 0 && crit != uint64(s.msgCrit) {
		return "msg-criticality:" + a.Builder, fmt.Errorf("%s message criticality %d, TS 38.413 says %d", a.Builder, crit, s.msgCrit)
	}
	var c collected
	collect(reflect.ValueOf(*d), &c, "")
	if s.amf {
		if len(c.amf) == 0 {
			return "amf-id-missing:" + a.Builder, fmt.Errorf("%s: no AMF-UE-NGAP-ID in the message", a.Builder)
		}
		for _, x := range c.amf {
			if x != a.Amf {
				return "amf-id:" + a.Builder, fmt.Errorf("%s: AMF-UE-NGAP-ID on the wire %d, argument %d", a.Builder, x, a.Amf)
			}
		}
	}
	if s.ran {
		if len(c.ran) == 0 {
			return "ran-id-missing:" + a.Builder, fmt.Errorf("%s: no RAN-UE-NGAP-ID in the message", a.Builder)
		}
		for _, x := range c.ran {
			if x != a.Ran {
				return "ran-id:" + a.Builder, fmt.Errorf("%s: RAN-UE-NGAP-ID on the wire %d, argument %d", a.Builder, x, a.Ran)
			}
		}
	}
	if strings.HasSuffix(a.Builder, "(5G-S-TMSI)") {
		want, _ := hex.DecodeString(a.TMSI)
		var got []byte
		found := 0
		if d.InitiatingMessage != nil && d.InitiatingMessage.Value.InitialUEMessage != nil {
			for _, ie := range d.InitiatingMessage.Value.InitialUEMessage.ProtocolIEs.List {
				if ie.Value.FiveGSTMSI != nil {
					found++
					got = ie.Value.FiveGSTMSI.FiveGTMSI.Value
				}
			}
		}
		if len(want) != 6 || found != 1 || !bytes.Equal(got, want[2:]) {
			return "5g-s-tmsi:" + a.Builder, fmt.Errorf("%s: 5G-TMSI on the wire %x (%d 5G-S-TMSI IEs), the argument %q names %x", a.Builder, got, found, a.TMSI, want[2:])
		}
	}
	if s.nas {
		if len(c.nas) != 1 || !bytes.Equal(c.nas[0], a.Nas) {
			return "nas-pdu:" + a.Builder, fmt.Errorf("%s: NAS-PDU on the wire differs from the argument (%d IEs, arg len %d)", a.Builder, len(c.nas), len(a.Nas))
		}
	}
	if s.pdu {
		if len(c.pdu) == 0 {
			return "pdu-id-missing:" + a.Builder, fmt.Errorf("%s: no PDU session id in the message", a.Builder)
		}
		for _, x := range c.pdu {
			if x != a.PduID {
				return "pdu-id:" + a.Builder, fmt.Errorf("%s: PDU session id on the wire %d, argument %d", a.Builder, x, a.PduID)
			}
		}
	}
	if a.Builder == "BuildNGReset(partial)" {
		want := c13ResetList(a)
		var got *ngapType.UEAssociatedLogicalNGConnectionList
		for _, ie := range d.InitiatingMessage.Value.NGReset.ProtocolIEs.List {
			if ie.Id.Value == ngapType.ProtocolIEIDResetType && ie.Value.ResetType != nil {
				got = ie.Value.ResetType.PartOfNGInterface
			}
		}
		if got == nil || len(got.List) != len(want.List) {
			return "reset-list:" + a.Builder, fmt.Errorf("%s: the message does not carry the %d connections of the argument (%+v)", a.Builder, len(want.List), got)
		}
		for k := range want.List {
			w, g := want.List[k], got.List[k]
			if (w.AMFUENGAPID == nil) != (g.AMFUENGAPID == nil) || (w.RANUENGAPID == nil) != (g.RANUENGAPID == nil) ||
				(w.AMFUENGAPID != nil && w.AMFUENGAPID.Value != g.AMFUENGAPID.Value) || (w.RANUENGAPID != nil && w.RANUENGAPID.Value != g.RANUENGAPID.Value) {
				return "reset-item:" + a.Builder, fmt.Errorf("%s: connection %d on the wire is %s, the argument named %s", a.Builder, k, c13ItemString(g), c13ItemString(w))
			}
		}
	}
	if a.Builder == "GetHandoverRequired" || a.Builder == "BuildHandoverRequired" {
		// the target gNB id and target cell are arguments too: they must be found in the Target ID and, inside the
		// source-to-target transparent container, at the head of the target NR cell identity (36 bits = the id
		// followed by the leading bits of the cell argument)
		hr := d.InitiatingMessage.Value.HandoverRequired
		want36 := append(append([]byte{}, a.TargetGNB...), a.TargetCell...)
		if len(want36) >= 5 {
			want36 = append([]byte{}, want36[:5]...)
			want36[4] &= 0xf0
		}
		seenTarget, seenContainer := false, false
		for _, ie := range hr.ProtocolIEs.List {
			switch ie.Id.Value {
			case ngapType.ProtocolIEIDTargetID:
				t := ie.Value.TargetID
				if t == nil || t.TargetRANNodeID == nil || t.TargetRANNodeID.GlobalRANNodeID.GlobalGNBID == nil || t.TargetRANNodeID.GlobalRANNodeID.GlobalGNBID.GNBID.GNBID == nil {
					return "target-id:" + a.Builder, fmt.Errorf("%s: Target ID does not name a gNB", a.Builder)
				}
				g := t.TargetRANNodeID.GlobalRANNodeID.GlobalGNBID.GNBID.GNBID
				if int(g.BitLength) != 8*len(a.TargetGNB) || !bytes.Equal(g.Bytes[:len(a.TargetGNB)], a.TargetGNB) {
					return "target-id:" + a.Builder, fmt.Errorf("%s: target gNB id on the wire %x/%d, argument %x", a.Builder, g.Bytes, g.BitLength, a.TargetGNB)
				}
				seenTarget = true
			case ngapType.ProtocolIEIDSourceToTargetTransparentContainer:
				var tc ngapType.SourceNGRANNodeToTargetNGRANNodeTransparentContainer
				raw := append([]byte{}, ie.Value.SourceToTargetTransparentContainer.Value...)
				if e := aper.UnmarshalWithParams(raw, &tc, "valueExt"); e != nil {
					return "target-container:" + a.Builder, fmt.Errorf("%s: source-to-target transparent container does not decode: %v", a.Builder, e)
				}
				if tc.TargetCellID.NRCGI == nil || tc.TargetCellID.NRCGI.NRCellIdentity.Value.BitLength != 36 || len(tc.TargetCellID.NRCGI.NRCellIdentity.Value.Bytes) < 5 {
					return "target-container:" + a.Builder, fmt.Errorf("%s: no 36-bit target NR cell identity in the transparent container", a.Builder)
				}
				got := append([]byte{}, tc.TargetCellID.NRCGI.NRCellIdentity.Value.Bytes[:5]...)
				got[4] &= 0xf0
				if !bytes.Equal(got, want36) {
					return "target-cell:" + a.Builder, fmt.Errorf("%s: target NR cell identity in the transparent container %x/36, want %x/36 = target gNB id %x followed by the leading bits of the cell argument %x", a.Builder, got, want36, a.TargetGNB, a.TargetCell)
				}
				seenContainer = true
			}
		}
		if !seenTarget || !seenContainer {
			return "target-missing:" + a.Builder, fmt.Errorf("%s: Target ID present %v, source-to-target container present %v", a.Builder, seenTarget, seenContainer)
		}
	}
	if s.pdus && !sameMultiset(c.pdu, a.PduIDs) {
		return "pdu-ids:" + a.Builder, fmt.Errorf("%s: PDU session ids on the wire %v, argument %v", a.Builder, c.pdu, a.PduIDs)
	}
	if !s.argPLMN {
		for _, p := range c.plmn {
			if !bytes.Equal(p, announced) {
				return "plmn:" + a.Builder, fmt.Errorf("%s: PLMN on the wire %x, announced at NG Setup %x", a.Builder, p, announced)
			}
		}
	}
	if s.ip {
		if len(c.transfers) == 0 {
			return "transfer-missing:" + a.Builder, fmt.Errorf("%s: no setup response transfer in the message", a.Builder)
		}
		for _, tb := range c.transfers {
			var tr ngapType.PDUSessionResourceSetupResponseTransfer
			if e := aper.UnmarshalWithParams(append([]byte{}, tb...), &tr, "valueExt"); e != nil {
				return "transfer-undecodable:" + a.Builder, fmt.Errorf("%s: transfer does not decode: %v", a.Builder, e)
			}
			if rb, _, e := refper.Encode(tr, "valueExt"); e != nil || !bytes.Equal(rb, tb) {
				return "transfer-not-canonical:" + a.Builder, fmt.Errorf("%s: transfer is not the canonical encoding of what it decodes to", a.Builder)
			}
			g := tr.QosFlowPerTNLInformation.UPTransportLayerInformation.GTPTunnel
			if g == nil || g.TransportLayerAddress.Value.BitLength != 32 || !bytes.Equal(g.TransportLayerAddress.Value.Bytes[:4], a.IP) {
				return "gtp-address:" + a.Builder, fmt.Errorf("%s: GTP transport layer address on the wire does not equal the argument %s", a.Builder, ipString(a.IP))
			}
		}
	}
	if a.Builder == "GetNGSetupRequest" {
		if len(c.gnb) != 1 || c.gnb[0].BitLength != a.GnbBits || !bytes.Equal(c.gnb[0].Bytes[:(a.GnbBits+7)/8], a.GnbID) {
			return "gnb-id", fmt.Errorf("gNB id on the wire %v, argument %x/%d", c.gnb, a.GnbID, a.GnbBits)
		}
		if len(c.names) != 1 || c.names[0] != a.Name {
			return "gnb-name", fmt.Errorf("RAN node name on the wire %q, argument %q", c.names, a.Name)
		}
	}
	if a.Builder == "BuildNGSetupRequest" {
		if len(c.plmn) == 0 {
			return "plmn-missing", fmt.Errorf("no PLMN in NG Setup Request")
		}
	}
	// mandatory IEs with the criticality of TS 38.413 §9.2 (the messages the emulator sends)
	if s.mandatory != nil {
		have := map[int64]uint64{}
		for _, ie := range ies {
			have[ie.id] = ie.crit
		}
		for _, m := range s.mandatory {
			cr, ok := have[m.id]
			if !ok {
				return fmt.Sprintf("mandatory-ie-missing:%s:%d", a.Builder, m.id), fmt.Errorf("%s: mandatory IE id %d missing", a.Builder, m.id)
			}
			if cr != m.crit {
				return fmt.Sprintf("ie-criticality:%s:%d", a.Builder, m.id), fmt.Errorf("%s: IE id %d has criticality %d, TS 38.413 says %d", a.Builder, m.id, cr, m.crit)
			}
		}
		for _, ie := range ies {
			known := false
			for _, m := range append(append([]ieReq{}, s.mandatory...), s.allowed...) {
				if m.id == ie.id {
					known = true
					if m.crit != ie.crit {
						return fmt.Sprintf("ie-criticality:%s:%d", a.Builder, ie.id), fmt.Errorf("%s: IE id %d has criticality %d, TS 38.413 says %d", a.Builder, ie.id, ie.crit, m.crit)
					}
				}
			}
			if !known {
				return fmt.Sprintf("unexpected-ie:%s:%d", a.Builder, ie.id), fmt.Errorf("%s: IE id %d is not part of this message in TS 38.413", a.Builder, ie.id)
			}
		}
	}
	return "", nil
}

func c13Oracle(c c13Case) ev.Verdict {
	v := ev.Verdict{}
	var announced []byte
	setups := 0
	var held []c13Held
	c13Keep = &held
	defer func() { c13Keep = nil }()
	for _, a := range c.Actions {
		s, ok := c13Specs[a.Builder]
		if !ok {
			panic("unknown builder " + a.Builder)
		}
		in := c13InRange(a, s)
		if a.Builder == "GetNGSetupRequest" || a.Builder == "BuildNGSetupRequest" {
			// announces the PLMN (even if the rest of the request is refused the builder has stored it)
			if announced != nil && !bytes.Equal(announced, a.PLMN) {
				v.NT = true
				v.Classes = append(v.Classes, "second-ngsetup-different-plmn")
			}
			announced = a.PLMN
			setups++
		}
		v.Classes = append(v.Classes, a.Builder)
		if !in {
			v.NT = true
			v.Classes = append(v.Classes, "out-of-range")
		} else if (s.amf && (a.Amf == 0 || a.Amf >= 1<<32)) || (s.ran && (a.Ran == 0 || a.Ran == 1<<32-1)) || (s.pdu && (a.PduID == 0 || a.PduID == 255)) || (s.nas && (len(a.Nas) == 0 || len(a.Nas) >= 128)) {
			v.NT = true
			v.Classes = append(v.Classes, "boundary-argument")
		}
		if key, err := c13Check(a, s, announced); err != nil {
			v.Key, v.Err = key, err
			return v
		}
	}
	// the messages of the history are still what they were: octets handed out earlier have not been rewritten by the
	// later builders, and a message value built earlier still encodes to the octets it encoded to then (unless a
	// later NG Setup announced another PLMN: builders read the announced PLMN when they are CALLED, and values that
	// were built before keep theirs — so only histories with one NG Setup are compared value-wise)
	for i, h := range held {
		if !bytes.Equal(h.bytes, h.snap) {
			v.Key = "retained:octets-overwritten-by-later-builders:" + h.builder
			v.Err = fmt.Errorf("action %d (%s): the octets it returned read %x… after %d later actions, they were %x…", i, h.builder, trunc(h.bytes, 24), len(held)-1-i, trunc(h.snap, 24))
			return v
		}
		if h.pdu != nil && setups <= 1 {
			var again []byte
			var aerr error
			_, _ = ev.Guard(func() error { again, aerr = ngap.Encoder(*h.pdu); return nil })
			if aerr != nil || !bytes.Equal(again, h.snap) {
				v.Key = "retained:message-value-changed-by-later-builders:" + h.builder
				v.Err = fmt.Errorf("action %d (%s): the message value it returned now encodes to %x… (err %v), it encoded to %x… when it was built (%d later actions)", i, h.builder, trunc(again, 24), aerr, trunc(h.snap, 24), len(held)-1-i)
				return v
			}
		}
	}
	return v
}

func TestC13_Builders(t *testing.T) {
	r := ev.New(t, "C13", "TestC13_Builders")
	r.Extra("builders", len(c13Names))
	ev.Run(t, r, genC13, c13Oracle)
}

// TestC13_Stubs: the two declared-but-empty builders are asserted to still be empty (they
// are excluded from the claim; if one gets implemented it must be added to the table).
func TestC13_Stubs(t *testing.T) {
	r := ev.New(t, "C13", "TestC13_Stubs")
	defer r.Flush()
	for name, p := range map[string]ngapType.NGAPPDU{"BuildAMFStatusIndication": ngapTestpacket.BuildAMFStatusIndication(), "BuildUETNLABindingReleaseRequest": ngapTestpacket.BuildUETNLABindingReleaseRequest()} {
		if p.Present != 0 {
			r.Note("%s is no longer an empty stub: add it to the C13 table", name)
		}
		r.Each(t, name, ev.Verdict{NT: true, Hash: ev.HashBytes([]byte(name))})
	}
}
