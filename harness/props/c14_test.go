package props

import (
	"encoding/hex"
	"fmt"
	"os"
	"path/filepath"
	"reflect"
	"runtime"
	"strings"
	"sync"
	"testing"
	"time"

	"free5gclib/aper"
	"free5gclib/ngap"
	"free5gclib/ngap/ngapType"

	"pgregory.net/rapid"

	"verifh/ev"
	"verifh/gen"
	"verifh/refper"
)

// C14 — NGAP decoding is total: value or error, never a panic, a hang or unbounded allocation.

type c14Case struct {
	Kind  string     `json:"kind"`            // random | prefix | mutated | hostile-count
	Entry string     `json:"entry,omitempty"` // message the input was derived from
	Edits []gen.Edit `json:"edits,omitempty"`
	Fault string     `json:"fault,omitempty"` // structural field altered by the fault-injecting encoder
	Hex   string     `json:"hex"`             // the input itself
	nIEs  int
}

var (
	allocBoundOnce sync.Once
	allocBound     uint64
	allocBoundNote string
)

// allocLimit: 2 x the largest list the schema itself allows (max sizeUB x element size),
// computed by reflection from the tree under test, but at least 16 MiB.
func allocLimit() uint64 {
	allocBoundOnce.Do(func() {
		var best uint64
		var where string
		seen := map[reflect.Type]bool{}
		var walk func(t reflect.Type, tag string)
		walk = func(t reflect.Type, tag string) {
			for t.Kind() == reflect.Ptr {
				t = t.Elem()
			}
			switch t.Kind() {
			case reflect.Slice:
				if t.Elem().Kind() == reflect.Uint8 {
					return
				}
				p := gen.ParseTag(tag)
				ub := int64(65535)
				if p.SUB != nil && *p.SUB < ub {
					ub = *p.SUB
				}
				if sz := uint64(ub) * uint64(t.Elem().Size()); sz > best {
					best, where = sz, t.String()
				}
				walk(t.Elem(), gen.StripSize(tag))
			case reflect.Struct:
				if seen[t] {
					return
				}
				seen[t] = true
				for i := 0; i < t.NumField(); i++ {
					walk(t.Field(i).Type, t.Field(i).Tag.Get("aper"))
				}
			}
		}
		walk(pduType, gen.PDUTag)
		allocBound = 2 * best
		if allocBound < 16<<20 {
			allocBound = 16 << 20
		}
		allocBoundNote = fmt.Sprintf("allocation bound %d MiB = 2 x largest schema list (%s: %d bytes)", allocBound>>20, where, best)
	})
	return allocBound
}

const c14TimeLimit = 5 * time.Second

// decodeTotal runs the decoder once under the three oracles.
func decodeTotal(r *ev.Rec, c c14Case, b []byte) (key string, err error) {
	var m0, m1 runtime.MemStats
	stop := r.Watchdog(c, "ngap.Decoder", 4*c14TimeLimit)
	runtime.ReadMemStats(&m0)
	t0 := time.Now()
	var pdu *ngapType.NGAPPDU
	derr, site := ev.Guard(func() error {
		var e error
		pdu, e = ngap.Decoder(b)
		return e
	})
	dt := time.Since(t0)
	runtime.ReadMemStats(&m1)
	stop()
	if site != "" {
		return "panic:" + site, fmt.Errorf("decoder panicked on %d octets: %v", len(b), derr)
	}
	if derr == nil && pdu == nil {
		return "nil-nil", fmt.Errorf("decoder returned neither a PDU nor an error")
	}
	// What is measured is the CUMULATIVE allocation of the call (live memory can only be smaller). It may grow with
	// what the input really holds - the smallest list element of the schema takes four bits, and decoding one element
	// leaves about 3 KiB of garbage behind (every field formats a trace line, whether it is printed or not): 8 KiB per
	// input octet - and with the schema's own list-size limit, never with what counts and lengths merely claim.
	limit := allocLimit() + uint64(len(b))*8192
	if alloc := m1.TotalAlloc - m0.TotalAlloc; alloc > limit {
		// re-measure in isolation before believing it
		runtime.GC()
		runtime.ReadMemStats(&m0)
		_, _ = ev.Guard(func() error { _, e := ngap.Decoder(b); return e })
		runtime.ReadMemStats(&m1)
		if alloc2 := m1.TotalAlloc - m0.TotalAlloc; alloc2 > limit {
			return "alloc", fmt.Errorf("decoding %d octets allocated %d MiB (bound %d MiB = %d MiB for the largest list of the schema + 8 KiB per input octet)", len(b), alloc2>>20, limit>>20, allocLimit()>>20)
		}
	}
	if dt > c14TimeLimit {
		t0 = time.Now()
		_, _ = ev.Guard(func() error { _, e := ngap.Decoder(b); return e })
		if dt2 := time.Since(t0); dt2 > c14TimeLimit {
			return "slow", fmt.Errorf("decoding %d octets took %v (bound %v)", len(b), dt2, c14TimeLimit)
		}
	}
	return "", nil
}

// countIEs: number of top-level IEs of a generated PDU, read from the generated value itself
// (never through the decoder under test; only used to classify cases).
func countIEs(pdu interface{}) int {
	v := reflect.ValueOf(pdu)
	m := v.Field(int(v.Field(0).Int()))
	if m.Kind() != reflect.Ptr || m.IsNil() {
		return 0
	}
	val := m.Elem().FieldByName("Value")
	alt := val.Field(int(val.Field(0).Int()))
	if alt.Kind() == reflect.Ptr {
		if alt.IsNil() {
			return 0
		}
		alt = alt.Elem()
	}
	ies := alt.FieldByName("ProtocolIEs")
	if !ies.IsValid() {
		return 0
	}
	return ies.FieldByName("List").Len()
}

// repeatIEs: the top-level information elements of a message (valid or already made hostile in one place) written
// r times over, with the IE count and the message length adjusted, so that whatever one hostile IE costs the decoder is
// asked for again and again inside one datagram of at most maxLen octets. Returns false if b is not framed as
// <choice><procedure code><criticality><length><0x00><IE count><IEs...> with one-/two-octet lengths.
func repeatIEs(b []byte, maxLen int) ([]byte, bool) {
	if len(b) < 8 {
		return nil, false
	}
	pos := 3
	rdLen := func() (int, bool) {
		if pos >= len(b) {
			return 0, false
		}
		if b[pos]&0x80 == 0 {
			pos++
			return int(b[pos-1]), true
		}
		if b[pos]&0x40 != 0 || pos+1 >= len(b) {
			return 0, false
		}
		n := int(b[pos]&0x3f)<<8 | int(b[pos+1])
		pos += 2
		return n, true
	}
	total, ok := rdLen()
	if !ok || pos+total > len(b) || total < 3 {
		return nil, false
	}
	body := b[pos : pos+total]
	if body[0]&0x7f != 0 && body[0] != 0 {
		// (extension bit and padding of the message SEQUENCE)
	}
	n := int(body[1])<<8 | int(body[2])
	ies := body[3:]
	if n == 0 || len(ies) == 0 {
		return nil, false
	}
	r := (maxLen - 16) / len(ies)
	if n*r > 65535 {
		r = 65535 / n
	}
	if r < 2 {
		return nil, false
	}
	nb := []byte{body[0], byte((n * r) >> 8), byte(n * r)}
	for i := 0; i < r; i++ {
		nb = append(nb, ies...)
	}
	out := append([]byte{}, b[:3]...)
	if len(nb) < 128 {
		out = append(out, byte(len(nb)))
	} else if len(nb) < 16384 {
		out = append(out, 0x80|byte(len(nb)>>8), byte(len(nb)))
	} else {
		return nil, false
	}
	return append(out, nb...), true
}

func genC14(t *rapid.T) c14Case {
	switch rapid.IntRange(0, 9).Draw(t, "kind") {
	case 0:
		n := rapid.IntRange(0, 200).Draw(t, "n")
		if rapid.IntRange(0, 9).Draw(t, "big") == 0 {
			n = rapid.IntRange(200, 4096).Draw(t, "nbig")
		}
		b := rapid.SliceOfN(rapid.Byte(), n, n).Draw(t, "bytes")
		// make random inputs get past the framing more often
		if n >= 4 && rapid.Bool().Draw(t, "frame") {
			b[0] = byte(rapid.SampledFrom([]int{0x00, 0x20, 0x40}).Draw(t, "cls"))
			b[1] = byte(rapid.IntRange(0, 51).Draw(t, "proc"))
			b[2] = byte(rapid.SampledFrom([]int{0x00, 0x40, 0x80}).Draw(t, "crit"))
		}
		return c14Case{Kind: "random", Hex: hex.EncodeToString(b)}
	case 1:
		// hostile counts: a valid frame whose IE list / inner list claims a huge size
		pc := rapid.IntRange(0, 51).Draw(t, "proc")
		cls := rapid.SampledFrom([]int{0x00, 0x20, 0x40}).Draw(t, "cls")
		tail := rapid.SliceOfN(rapid.Byte(), 0, 24).Draw(t, "tail")
		b := append([]byte{byte(cls), byte(pc), 0x00, byte(3 + len(tail)), 0x00, 0xFF, 0xFF}, tail...)
		return c14Case{Kind: "hostile-count", Hex: hex.EncodeToString(b)}
	}
	base := genNgapCase(t, false)
	for i := 0; base.Entry[:4] != "PDU/" && i < 20; i++ {
		base = genNgapCase(t, false)
	}
	if base.Entry[:4] != "PDU/" {
		t.Skip("no PDU drawn")
	}
	rb, _, err := refper.Encode(base.value(), gen.PDUTag)
	if err != nil {
		t.Skip("reference refuses")
	}
	if len(rb) > 4096 {
		rb = rb[:4096]
	}
	c := c14Case{Entry: base.Entry, nIEs: countIEs(base.value())}
	if rapid.IntRange(0, 2).Draw(t, "structured") > 0 {
		// structure-aware hostile input: the independent encoder alters one structural field
		// (extension bit, length, count, index, bitmap bit, number) and writes the rest as is
		_, w, _ := refper.Encode(base.value(), gen.PDUTag)
		at := rapid.IntRange(0, w.Opps-1).Draw(t, "at")
		variant := rapid.IntRange(0, 39).Draw(t, "variant")
		hb, hit, _, err := refper.EncodeFault(base.value(), gen.PDUTag, at, variant)
		if err != nil {
			t.Skip("fault encoder refused")
		}
		if len(hb) > 4096 {
			hb = hb[:4096]
		}
		c.Kind = "structured-fault"
		c.Fault = hit
		if rapid.IntRange(0, 3).Draw(t, "repeat") == 0 {
			if rb, ok := repeatIEs(hb, 4096); ok {
				hb = rb
				c.Kind = "structured-fault-repeated"
			}
		}
		if rapid.IntRange(0, 4).Draw(t, "also") == 0 {
			c.Edits = gen.Mutation(t, len(hb), 2)
			hb = gen.Apply(hb, c.Edits)
		}
		c.Hex = hex.EncodeToString(hb)
		return c
	}
	if rapid.IntRange(0, 3).Draw(t, "prefix") == 0 {
		c.Kind = "prefix"
		c.Edits = []gen.Edit{{Op: "trunc", Pos: rapid.IntRange(0, len(rb)-1).Draw(t, "cut")}}
	} else {
		c.Kind = "mutated"
		c.Edits = gen.Mutation(t, len(rb), 3)
	}
	c.Hex = hex.EncodeToString(gen.Apply(rb, c.Edits))
	return c
}

func TestC14_Total(t *testing.T) {
	r := ev.New(t, "C14", "TestC14_Total")
	r.Note("%s; time bound %v per call", func() string { allocLimit(); return allocBoundNote }(), c14TimeLimit)
	ev.Run(t, r, genC14, func(c c14Case) ev.Verdict {
		b, err := hex.DecodeString(c.Hex)
		if err != nil {
			panic(err)
		}
		v := ev.Verdict{Classes: []string{"kind:" + c.Kind}, Hash: ev.HashBytes(b)}
		if (c.Kind == "prefix" || c.Kind == "mutated" || c.Kind == "structured-fault" || c.Kind == "structured-fault-repeated") && c.nIEs >= 3 {
			v.NT = true
		}
		if c.Fault != "" {
			f := c.Fault
			if i := strings.IndexByte(f, '/'); i > 0 {
				f = f[:i]
			}
			v.Classes = append(v.Classes, "fault:"+f)
		}
		if c.Kind == "hostile-count" {
			v.NT = true
		}
		if ev.Replay() != "" {
			v.NT = true
		}
		v.Key, v.Err = decodeTotal(r, c, b)
		if v.Key != "" {
			v.Key = "dec:" + v.Key
		}
		return v
	})
}

// TestC14_Prefixes: EVERY strict prefix of the canonical encoding of one value of every message type.
func TestC14_Prefixes(t *testing.T) {
	r := ev.New(t, "C14", "TestC14_Prefixes")
	defer r.Flush()
	ms := gen.Messages()
	reps := ev.N(8, 64)
	for rep := 0; rep < reps; rep++ {
		for mi, m := range ms {
			if mi%ev.NShards() != ev.Shard() {
				continue
			}
			m := m
			pdu := rapid.Custom(func(rt *rapid.T) ngapType.NGAPPDU {
				return gen.New(rt, gen.Opts{Budget: 150, BigString: 60}).PDU(m)
			}).Example(int(ev.Seed()) + 7919*rep + mi)
			rb, _, err := refper.Encode(pdu, gen.PDUTag)
			if err != nil || len(rb) > 1500 {
				continue
			}
			n := countIEs(pdu)
			for cut := 0; cut < len(rb); cut++ {
				c := c14Case{Kind: "prefix", Entry: "PDU/" + m.Name, Edits: []gen.Edit{{Op: "trunc", Pos: cut}}, Hex: hex.EncodeToString(rb[:cut])}
				v := ev.Verdict{NT: n >= 3, Hash: ev.HashBytes(rb[:cut]), Classes: []string{"prefix-of:" + m.Name}}
				v.Key, v.Err = decodeTotal(r, c, rb[:cut])
				if v.Key != "" {
					v.Key = "dec:" + v.Key
				}
				if !r.Each(t, c, v) {
					return
				}
			}
		}
	}
}

// TestC14_Structural: for one generated value of every message type (several per type in the
// thorough tier) EVERY structural field the independent encoder writes (extension bits, lengths,
// counts, indices, bitmap bits, constrained numbers) is altered in turn: set to its maximum, to
// zero, and — for general length determinants — replaced by runs of 16K-fragment headers that
// claim k x 64K items in k+1 octets. Sampling one field per case (TestC14_Total) reaches a given
// length field of a given message type only rarely; this sweep reaches all of them every run.
func TestC14_Structural(t *testing.T) {
	r := ev.New(t, "C14", "TestC14_Structural")
	defer r.Flush()
	ms := gen.Messages()
	reps := 4
	if ev.Tier() == "thorough" {
		reps = 24
	}
	for rep := 0; rep < reps; rep++ {
		for mi, m := range ms {
			if (mi+rep)%ev.NShards() != ev.Shard() {
				continue
			}
			m := m
			pdu := rapid.Custom(func(rt *rapid.T) ngapType.NGAPPDU {
				return gen.New(rt, gen.Opts{Budget: 120, BigString: 40}).PDU(m)
			}).Example(int(ev.BaseSeed()%1000003)*31 + 104729*rep + mi)
			_, w, err := refper.Encode(pdu, gen.PDUTag)
			if err != nil || w.Opps > 1200 {
				continue
			}
			n := countIEs(pdu)
			for at := 0; at < w.Opps; at++ {
				for _, variant := range []int{1, 2, 16, 19, 26, 31, 36} {
					hb, hit, _, err := refper.EncodeFault(pdu, gen.PDUTag, at, variant)
					if err != nil || hit == "" {
						continue
					}
					if variant >= 15 && variant < 20 && !strings.HasPrefix(hit, "len/fragment-run") {
						continue // same alteration as variant%5 for fields that are not general lengths
					}
					if variant >= 20 && !strings.Contains(hit, "content-octets") {
						continue // only meaningful for extensible INTEGERs
					}
					if len(hb) > 4096 {
						hb = hb[:4096]
					}
					f := hit
					if i := strings.IndexByte(f, '/'); i > 0 {
						f = f[:i]
					}
					if strings.HasPrefix(hit, "len/fragment-run") {
						f = "len-fragment-run"
					}
					c := c14Case{Kind: "structured-fault", Entry: "PDU/" + m.Name, Fault: hit, Hex: hex.EncodeToString(hb)}
					v := ev.Verdict{NT: n >= 1, Hash: ev.HashBytes(hb), Classes: []string{"sweep-fault:" + f}}
					v.Key, v.Err = decodeTotal(r, c, hb)
					if v.Key != "" {
						v.Key = "dec:" + v.Key
					}
					if !r.Each(t, c, v) {
						return
					}
					if variant == 1 && (f == "len" || f == "num") {
						// the same hostile element as often as a 4 KiB datagram holds it
						if rb, ok := repeatIEs(hb, 4096); ok {
							c := c14Case{Kind: "structured-fault-repeated", Entry: "PDU/" + m.Name, Fault: hit, Hex: hex.EncodeToString(rb)}
							v := ev.Verdict{NT: true, Hash: ev.HashBytes(rb), Classes: []string{"sweep-fault-repeated:" + f}}
							v.Key, v.Err = decodeTotal(r, c, rb)
							if v.Key != "" {
								v.Key = "dec:" + v.Key
							}
							if !r.Each(t, c, v) {
								return
							}
						}
					}
				}
			}
		}
	}
}

// TestC14_LargeValid: totality also covers long VALID input. Every SEQUENCE OF of the schema whose bound allows it is
// encoded (by the independent encoder) with 1025, 2049 and 4097 elements — and once more with the last octet cut off —
// and handed to the decoder of that type: a value or an error, never a panic.
func TestC14_LargeValid(t *testing.T) {
	r := ev.New(t, "C14", "TestC14_LargeValid")
	defer r.Flush()
	for li, leaf := range schemaLeaves() {
		if li%ev.NShards() != ev.Shard() {
			continue
		}
		p := gen.ParseTag(leaf.Tag)
		lb, ub, has := sbounds(p)
		var sizes []int64
		cutsAt := []int{0, 1}
		switch leaf.Kind {
		case "list":
			if !has {
				continue
			}
			sizes = []int64{1025, 2049, 4097}
		case "bitstring":
			// strings whose length needs the fragmented form (16K and more): complete 16K fragments, a remainder,
			// and the message cut exactly behind a complete fragment (where the next length — possibly the closing
			// zero — is due)
			sizes = []int64{16384, 16385, 16424, 28729, 32768}
			cutsAt = []int{0, 1, -2049, -2050}
		case "octetstring", "string":
			sizes = []int64{16384, 16385, 20000}
			cutsAt = []int{0, 1, -16385, -16386}
		default:
			continue
		}
		for _, n := range sizes {
			if has && !p.SizeExt && (n < lb || n > ub) {
				continue
			}
			if !has && leaf.Kind == "list" {
				continue
			}
			leaf, n := leaf, n
			val := rapid.Custom(func(rt *rapid.T) interface{} { return buildLeaf(rt, leaf, p, n) }).Example(int(ev.BaseSeed()%1000003) + li*131 + int(n))
			rb, _, err := refper.Encode(val, leaf.Tag)
			if err != nil || len(rb) >= 1<<20 {
				continue
			}
			for _, cut := range cutsAt {
				keep := len(rb) - cut
				if cut < 0 {
					keep = -cut // an absolute position: right behind the first complete fragment
				}
				if keep < 1 || keep > len(rb) {
					continue
				}
				in := append([]byte{}, rb[:keep]...)
				c := c14Case{Kind: fmt.Sprintf("large-valid-%s(size %d, first %d of %d octets)", leaf.Kind, n, keep, len(rb)), Entry: leaf.Type + " " + leaf.Tag, Hex: hex.EncodeToString(trunc(in, 64))}
				v := ev.Verdict{NT: true, Hash: ev.HashBytes(in), Classes: []string{"large-valid-list"}}
				out := reflect.New(leaf.t)
				stop := r.Watchdog(c, "aper.UnmarshalWithParams", 4*c14TimeLimit)
				derr, site := ev.Guard(func() error { return aper.UnmarshalWithParams(in, out.Interface(), leaf.Tag) })
				stop()
				if site != "" {
					v.Key, v.Err = "dec:panic:"+site, fmt.Errorf("decoding a %s of size %d (the first %d of %d octets of its canonical encoding) panicked: %v", leaf.Type, n, len(in), len(rb), derr)
				} else if cut == 0 && derr != nil {
					v.Classes = append(v.Classes, "large-valid-list:refused(C04's business)")
				}
				if !r.Each(t, c, v) {
					return
				}
			}
		}
	}
}

// TestC14_Corpus replays every saved input under /verif/corpus/C14 (crashers found earlier,
// hostile constants) — the seconds-long replay tier.
func TestC14_Corpus(t *testing.T) {
	r := ev.New(t, "C14", "TestC14_Corpus")
	defer r.Flush()
	files, _ := filepath.Glob(filepath.Join(os.Getenv("VERIF_CORPUS"), "C14", "*.hex"))
	for _, f := range files {
		raw, err := os.ReadFile(f)
		if err != nil {
			continue
		}
		b, err := hex.DecodeString(string(trimSpace(raw)))
		if err != nil {
			t.Fatalf("corpus file %s is not hex", f)
		}
		c := c14Case{Kind: "corpus:" + filepath.Base(f), Hex: hex.EncodeToString(b)}
		v := ev.Verdict{NT: true, Hash: ev.HashBytes(b), Classes: []string{"corpus"}}
		v.Key, v.Err = decodeTotal(r, c, b)
		if v.Key != "" {
			v.Key = "dec:" + v.Key
		}
		if !r.Each(t, c, v) {
			return
		}
	}
}

func trimSpace(b []byte) []byte {
	for len(b) > 0 && (b[len(b)-1] == '\n' || b[len(b)-1] == ' ' || b[len(b)-1] == '\r') {
		b = b[:len(b)-1]
	}
	return b
}
