package props

import (
	"time"
	"bytes"
	"fmt"
	"io"
	"testing"

	naslogger "free5gclib/nas/logger"
	"free5gclib/nas/security"
	"github.com/sirupsen/logrus"
	"pgregory.net/rapid"

	"verifh/ev"
	"verifh/refcrypto"
)

// C07 — NEA/NIA are the 3GPP algorithms.
//
// Case: a short *sequence* of calls (history independence is part of the property), each
// call with its own key, COUNT, BEARER, DIRECTION, algorithm and message.

type c07Call struct {
	Alg     string `json:"alg"` // NEA0 NEA1 NEA2 NIA1 NIA2
	Key     []byte `json:"key"`
	Count   uint32 `json:"count"`
	Bearer  uint8  `json:"bearer"`
	Dir     uint8  `json:"dir"`
	Msg     []byte `json:"msg"`
	Refusal bool   `json:"refusal,omitempty"` // bearer/direction deliberately out of range
	// Empty: a degenerate call with an empty message (Msg nil or of length 0) - outside the property's domain
	// ("every NAS message and every MAC input is non-empty"), so whatever it returns is not judged; it must
	// return, and the calls after it are judged as always ("independent of earlier calls").
	Empty bool `json:"empty_message,omitempty"`
}
type c07Case struct {
	Calls []c07Call `json:"calls"`
}

var c07Algs = []string{"NEA0", "NEA1", "NEA2", "NIA1", "NIA2"}

func genBytes(t *rapid.T, n int, label string) []byte {
	return rapid.SliceOfN(rapid.Byte(), n, n).Draw(t, label)
}


// genPayload: message octets. Mostly uniform; one case in five structured the way real NAS contents are — long runs of
// one value (zero padding, 0xFF fillers), a few non-zero octets in a zero field, the same block repeated — so that
// whole 4/8/16-octet blocks are zero or equal to their neighbours.
func genPayload(t *rapid.T, n int, label string) []byte {
	if n == 0 {
		return []byte{}
	}
	switch rapid.IntRange(0, 9).Draw(t, label+"_shape") {
	case 0:
		b := make([]byte, n)
		fill := rapid.SampledFrom([]byte{0x00, 0x00, 0xff, 0x2b}).Draw(t, label+"_fill")
		for i := range b {
			b[i] = fill
		}
		k := rapid.IntRange(0, 6).Draw(t, label+"_marks")
		for i := 0; i < k; i++ {
			b[rapid.IntRange(0, n-1).Draw(t, label+"_markpos")] = rapid.Byte().Draw(t, label+"_mark")
		}
		if rapid.Bool().Draw(t, label+"_head") {
			b[0] = rapid.ByteRange(1, 255).Draw(t, label+"_head0")
		}
		return b
	case 1:
		blk := rapid.SliceOfN(rapid.Byte(), 1, 16).Draw(t, label+"_blk")
		b := make([]byte, n)
		for i := range b {
			b[i] = blk[i%len(blk)]
		}
		return b
	}
	return rapid.SliceOfN(rapid.Byte(), n, n).Draw(t, label)
}

func genKey(t *rapid.T, label string) []byte {
	switch rapid.IntRange(0, 9).Draw(t, label+"_kind") {
	case 0:
		return make([]byte, 16)
	case 1:
		return bytes.Repeat([]byte{0xff}, 16)
	case 2:
		k := make([]byte, 16)
		b := rapid.IntRange(0, 127).Draw(t, label+"_bit")
		k[b/8] = 0x80 >> uint(b%8)
		return k
	}
	return genBytes(t, 16, label)
}

func genCount(t *rapid.T, label string) uint32 {
	return rapid.OneOf(rapid.Just(uint32(0)), rapid.Just(uint32(1)), rapid.Just(uint32(0xff)), rapid.Just(uint32(0x100)),
		rapid.Just(uint32(0xffffff)), rapid.Just(uint32(0x1000000)), rapid.Just(uint32(0xffffffff)), rapid.Uint32(), rapid.Uint32(), rapid.Uint32()).Draw(t, label)
}

func genMsgLen(t *rapid.T, label string) int {
	switch rapid.IntRange(0, 9).Draw(t, label+"_kind") {
	case 0, 1, 2, 3, 4, 5:
		return rapid.IntRange(1, 64).Draw(t, label)
	case 6, 7:
		return rapid.IntRange(65, 300).Draw(t, label)
	case 8:
		// around block / word multiples
		return 16*rapid.IntRange(1, 40).Draw(t, label+"_b") + rapid.IntRange(-1, 1).Draw(t, label+"_d")
	}
	switch rapid.IntRange(0, 19).Draw(t, label+"_big") {
	case 0:
		// long messages (a NAS payload container is LV-E: up to 65535 octets) around the powers of two
		return (1 << uint(rapid.IntRange(12, 16).Draw(t, label+"_p"))) + rapid.IntRange(-17, 17).Draw(t, label+"_pd")
	case 1:
		return rapid.IntRange(4097, 70000).Draw(t, label+"_long")
	}
	return rapid.IntRange(301, 4096).Draw(t, label)
}

func genC07Call(t *rapid.T, i int) c07Call {
	l := fmt.Sprintf("c%d_", i)
	c := c07Call{
		Alg:    rapid.SampledFrom(c07Algs).Draw(t, l+"alg"),
		Key:    genKey(t, l+"key"),
		Count:  genCount(t, l+"count"),
		Bearer: uint8(rapid.IntRange(0, 31).Draw(t, l+"bearer")),
		Dir:    uint8(rapid.IntRange(0, 1).Draw(t, l+"dir")),
	}
	c.Msg = genPayload(t, genMsgLen(t, l+"len"), l+"msg")
	if rapid.IntRange(0, 19).Draw(t, l+"empty") == 7 {
		c.Empty = true
		c.Msg = []byte{}
		if rapid.Bool().Draw(t, l+"empty_nil") {
			c.Msg = nil
		}
		return c
	}
	if rapid.IntRange(0, 39).Draw(t, l+"refuse") == 0 {
		c.Refusal = true
		if rapid.Bool().Draw(t, l+"refuse_b") {
			c.Bearer = uint8(rapid.IntRange(32, 255).Draw(t, l+"bearer_bad"))
		} else {
			c.Dir = uint8(rapid.IntRange(2, 255).Draw(t, l+"dir_bad"))
		}
	}
	return c
}

func genC07(t *rapid.T) c07Case {
	n := rapid.IntRange(1, 6).Draw(t, "ncalls")
	if rapid.IntRange(0, 4).Draw(t, "longer") == 0 {
		n = rapid.IntRange(7, 16).Draw(t, "ncalls_long")
	}
	var c c07Case
	for i := 0; i < n; i++ {
		call := genC07Call(t, i)
		// "a function of the arguments only": calls that REPEAT the parameters of an earlier call of the
		// sequence (same algorithm, key, COUNT, BEARER, DIRECTION — or only the same key / the same IV
		// inputs) with another message of another length, in any order of lengths
		if i > 0 && !call.Refusal && !call.Empty {
			l := fmt.Sprintf("c%d_", i)
			switch rapid.IntRange(0, 5).Draw(t, l+"reuse") {
			case 0, 1, 2:
				p := c.Calls[rapid.IntRange(0, i-1).Draw(t, l+"reuse_of")]
				if !p.Refusal {
					call.Alg, call.Key, call.Count, call.Bearer, call.Dir = p.Alg, p.Key, p.Count, p.Bearer, p.Dir
					if rapid.IntRange(0, 3).Draw(t, l+"reuse_short") != 0 {
						call.Msg = genPayload(t, rapid.IntRange(1, 40).Draw(t, l+"reuse_len"), l+"reuse_msg")
					}
					if rapid.IntRange(0, 3).Draw(t, l+"reuse_otheralg") == 0 {
						call.Alg = rapid.SampledFrom(c07Algs).Draw(t, l+"reuse_alg")
					}
				}
			case 3:
				p := c.Calls[rapid.IntRange(0, i-1).Draw(t, l+"samekey_of")]
				call.Key = p.Key
			case 4:
				p := c.Calls[rapid.IntRange(0, i-1).Draw(t, l+"sameiv_of")]
				if !p.Refusal {
					call.Count, call.Bearer, call.Dir = p.Count, p.Bearer, p.Dir
				}
			}
		}
		c.Calls = append(c.Calls, call)
	}
	return c
}

func algID(a string) uint8 { return uint8(a[3] - '0') }

// withCanary returns a copy of b that sits in a larger buffer (spare capacity behind it, as when the message is a
// slice of a receive buffer) and a function telling whether the octets behind it are untouched.
func withCanary(b []byte) ([]byte, func() bool) {
	buf := make([]byte, len(b)+32)
	copy(buf, b)
	for i := len(b); i < len(buf); i++ {
		buf[i] = 0x5c ^ byte(i)
	}
	return buf[:len(b)], func() bool {
		for i := len(b); i < len(buf); i++ {
			if buf[i] != 0x5c^byte(i) {
				return false
			}
		}
		return true
	}
}

func c07One(c c07Call) (key string, err error) {
	var k [16]byte
	copy(k[:], c.Key)
	if c.Empty {
		_, _ = ev.Guard(func() error {
			if c.Alg[1] == 'E' {
				return security.NASEncrypt(algID(c.Alg), k, c.Count, c.Bearer, c.Dir, c.Msg)
			}
			_, e := security.NASMacCalculate(algID(c.Alg), k, c.Count, c.Bearer, c.Dir, c.Msg)
			return e
		})
		return "", nil
	}
	in, inOK := withCanary(c.Msg)
	defer func() {
		if err == nil && !inOK() {
			key, err = c.Alg+":wrote-behind-the-message", fmt.Errorf("%s wrote behind the %d octets of the message it was given", c.Alg, len(c.Msg))
		}
	}()
	if c.Alg[1] == 'E' {
		buf, bufOK := withCanary(c.Msg)
		defer func() {
			if err == nil && !bufOK() {
				key, err = c.Alg+":wrote-behind-the-message", fmt.Errorf("%s wrote behind the %d octets of the message it ciphers in place", c.Alg, len(c.Msg))
			}
		}()
		e := security.NASEncrypt(algID(c.Alg), k, c.Count, c.Bearer, c.Dir, buf)
		if c.Refusal {
			if e == nil {
				return "no-refusal:" + c.Alg, fmt.Errorf("%s accepted BEARER=%d DIRECTION=%d", c.Alg, c.Bearer, c.Dir)
			}
			return "", nil
		}
		if e != nil {
			return "error:" + c.Alg, fmt.Errorf("%s returned error %v", c.Alg, e)
		}
		var want []byte
		switch c.Alg {
		case "NEA0":
			want = in
		case "NEA1":
			want = refcrypto.EEA1(k, c.Count, uint32(c.Bearer), uint32(c.Dir), in, 8*len(in))
		case "NEA2":
			want = refcrypto.EEA2(k, c.Count, uint32(c.Bearer), uint32(c.Dir), in)
		}
		if !bytes.Equal(buf, want) {
			first := 0
			for first < len(want) && buf[first] == want[first] {
				first++
			}
			return fmt.Sprintf("%s:len%%4=%d", c.Alg, len(in)%4), fmt.Errorf("%s ciphertext differs from 128-E%s at octet %d of %d: got %x want %x", c.Alg, c.Alg[1:], first, len(in), tailOf(buf, first), tailOf(want, first))
		}
		// involution
		if e := security.NASEncrypt(algID(c.Alg), k, c.Count, c.Bearer, c.Dir, buf); e != nil || !bytes.Equal(buf, in) {
			return c.Alg + ":involution", fmt.Errorf("%s applied twice does not restore the input (err %v)", c.Alg, e)
		}
		return "", nil
	}
	mac, e := security.NASMacCalculate(algID(c.Alg), k, c.Count, c.Bearer, c.Dir, in)
	if c.Refusal {
		if e == nil {
			return "no-refusal:" + c.Alg, fmt.Errorf("%s accepted BEARER=%d DIRECTION=%d", c.Alg, c.Bearer, c.Dir)
		}
		return "", nil
	}
	if e != nil {
		return "error:" + c.Alg, fmt.Errorf("%s returned error %v", c.Alg, e)
	}
	var want [4]byte
	if c.Alg == "NIA1" {
		want = refcrypto.EIA1(k, c.Count, uint32(c.Bearer), uint32(c.Dir), in, 8*len(in))
	} else {
		want = refcrypto.EIA2(k, c.Count, uint32(c.Bearer), uint32(c.Dir), in)
	}
	if !bytes.Equal(mac, want[:]) {
		return fmt.Sprintf("%s:len%%8=%d", c.Alg, len(in)%8), fmt.Errorf("%s MAC %x differs from 128-E%s %x (len %d)", c.Alg, mac, c.Alg[1:], want, len(in))
	}
	if !bytes.Equal(in, c.Msg) {
		return c.Alg + ":input-modified", fmt.Errorf("%s modified its input", c.Alg)
	}
	return "", nil
}

func tailOf(b []byte, from int) []byte {
	if from > len(b) {
		from = len(b)
	}
	b = b[from:]
	if len(b) > 8 {
		b = b[:8]
	}
	return b
}

func c07Oracle(c c07Case) ev.Verdict {
	v := ev.Verdict{NT: true}
	for _, call := range c.Calls {
		cl := fmt.Sprintf("%s/len%%4=%d", call.Alg, len(call.Msg)%4)
		if call.Refusal {
			cl = call.Alg + "/refusal"
		}
		if call.Empty {
			cl = call.Alg + "/empty-message-before-later-calls"
		}
		v.Classes = append(v.Classes, cl)
		if len(call.Msg) >= 256 {
			v.Classes = append(v.Classes, "len>=256")
		}
		if key, err := c07One(call); err != nil {
			v.Err, v.Key = err, key
			return v
		}
	}
	if len(c.Calls) >= 2 {
		v.Classes = append(v.Classes, "history>=2")
	}
	seen := map[string]int{}
	for _, call := range c.Calls {
		k := fmt.Sprintf("%s|%x|%d|%d|%d", call.Alg, call.Key, call.Count, call.Bearer, call.Dir)
		if n, ok := seen[k]; ok && n != len(call.Msg) {
			v.Classes = append(v.Classes, "history:same-parameters-other-length")
		}
		seen[k] = len(call.Msg)
		if len(call.Msg) > 4096 {
			v.Classes = append(v.Classes, "len>4096")
		}
		if len(call.Msg) > 16384 {
			v.Classes = append(v.Classes, "len>16384")
		}
		for i := 8; i+8 <= len(call.Msg); i += 8 {
			if bytes.Equal(call.Msg[i:i+8], make([]byte, 8)) && !bytes.Equal(call.Msg[:i], make([]byte, i)) {
				v.Classes = append(v.Classes, "msg:zero-block-after-non-zero")
				break
			}
		}
	}
	return v
}

func TestC07_Algorithms(t *testing.T) {
	r := ev.New(t, "C07", "TestC07_Algorithms")
	ev.Run(t, r, genC07, func(c c07Case) ev.Verdict {
		// a call that never returns (a lock left behind by an earlier call) is a call that does not deliver the
		// 3GPP result; the bound is two orders of magnitude above the slowest sequence
		stop := r.Watchdog(c, "a sequence of NEA/NIA calls", 30*time.Second)
		defer stop()
		return c07Oracle(c)
	})
}

// TestC07_Lengths: message lengths 1..64 exhaustively for each algorithm (every residue
// mod 4, 8 and 16), random keys and parameters per VERIF seed.
func TestC07_Lengths(t *testing.T) {
	r := ev.New(t, "C07", "TestC07_Lengths")
	defer r.Flush()
	reps := ev.N(4, 200)
	for rep := 0; rep < reps; rep++ {
		gen := rapid.Custom(func(rt *rapid.T) []c07Call {
			var out []c07Call
			for n := 1; n <= 64; n++ {
				for _, a := range c07Algs {
					l := fmt.Sprintf("%s_%d_", a, n)
					out = append(out, c07Call{Alg: a, Key: genBytes(rt, 16, l+"k"), Count: rapid.Uint32().Draw(rt, l+"c"),
						Bearer: uint8(rapid.IntRange(0, 31).Draw(rt, l+"b")), Dir: uint8(rapid.IntRange(0, 1).Draw(rt, l+"d")), Msg: genBytes(rt, n, l+"m")})
				}
			}
			return out
		})
		calls := gen.Example(int(ev.Seed()) + rep*104729)
		if rep == 0 && ev.Shard() == 0 {
			// long messages at the powers of two (keystream generated in blocks, block counters carrying)
			long := rapid.Custom(func(rt *rapid.T) []c07Call {
				var out []c07Call
				for _, n := range []int{255, 256, 257, 4095, 4096, 4097, 4112, 8191, 8192, 8193, 16383, 16384, 16385, 16400, 32767, 32768, 32769, 65535, 65536, 65537, 70001} {
					for _, a := range c07Algs {
						l := fmt.Sprintf("L%s_%d_", a, n)
						out = append(out, c07Call{Alg: a, Key: genBytes(rt, 16, l+"k"), Count: rapid.Uint32().Draw(rt, l+"c"),
							Bearer: uint8(rapid.IntRange(0, 31).Draw(rt, l+"b")), Dir: uint8(rapid.IntRange(0, 1).Draw(rt, l+"d")), Msg: genBytes(rt, n, l+"m")})
					}
				}
				return out
			})
			calls = append(calls, long.Example(int(ev.Seed())+7)...)
		}
		for _, call := range calls {
			cs := c07Case{Calls: []c07Call{call}}
			if !r.Each(t, cs, ev.SafeOracle(c07Oracle, cs)) {
				return
			}
		}
	}
}


// TestC07_LogLevels: "a function of the arguments only" also means: not of the logging configuration. The same mixed
// calls at every logrus level of the security logger (the emulator never changes it; an integrator may).
func TestC07_LogLevels(t *testing.T) {
	r := ev.New(t, "C07", "TestC07_LogLevels")
	defer r.Flush()
	old := naslogger.SecurityLog.Logger.GetLevel()
	oldOut := naslogger.SecurityLog.Logger.Out
	naslogger.SecurityLog.Logger.SetOutput(io.Discard)
	defer func() { naslogger.SecurityLog.Logger.SetLevel(old); naslogger.SecurityLog.Logger.SetOutput(oldOut) }()
	for li, lvl := range logrus.AllLevels {
		if lvl < logrus.ErrorLevel {
			continue // panic / fatal levels only silence the logger further
		}
		naslogger.SecurityLog.Logger.SetLevel(lvl)
		calls := rapid.Custom(func(rt *rapid.T) []c07Call {
			var out []c07Call
			for i := 0; i < 40; i++ {
				c := genC07Call(rt, i)
				c.Refusal = false
				c.Bearer, c.Dir = c.Bearer%32, c.Dir%2
				out = append(out, c)
			}
			return out
		}).Example(int(ev.BaseSeed()%1000003) + 31*li)
		for _, call := range calls {
			cs := c07Case{Calls: []c07Call{call}}
			vv := ev.SafeOracle(c07Oracle, cs)
			vv.Classes = append(vv.Classes, "loglevel:"+lvl.String())
			if vv.Err != nil {
				vv.Key = "loglevel-" + lvl.String() + ":" + vv.Key
			}
			if !r.Each(t, cs, vv) {
				return
			}
		}
	}
}
