package props

import (
	"bytes"
	"encoding/json"
	"fmt"
	"io"
	"reflect"
	"strings"

	"free5gclib/aper"
	aperlogger "free5gclib/aper/logger"
	"github.com/sirupsen/logrus"
	"free5gclib/ngap"
	"free5gclib/ngap/ngapType"

	"pgregory.net/rapid"

	"verifh/ev"
	"verifh/gen"
	"verifh/refper"
)

// ngapCase is one NGAP value: a whole PDU carrying a named message, or one of the
// transfer / transparent containers that are marshalled on their own.
type ngapCase struct {
	Entry string          `json:"entry"` // "PDU/<MessageName>" or "<ContainerType>"
	Val   json.RawMessage `json:"value"`
	Ext   int             `json:"ext_outside_root,omitempty"` // values generated above the root of an extensible constraint
	Dirty int             `json:"dirty_bitstrings,omitempty"` // BIT STRINGs whose unused trailing bits are set
	// Hostile: C04 only — how many truncated / damaged variants of the encoding the decoder is given before the
	// conformant one (it must refuse or accept them; what matters is the conformant decode afterwards)
	Hostile int `json:"hostile_before,omitempty"`
	// Log: logrus level of the APER library's logger while the case is evaluated ("" = its default, info). The
	// emulator never changes it; the bytes must not depend on it all the same.
	Log string `json:"aper_log_level,omitempty"`
	// Shared: list elements that were built as copies of their predecessor, sharing the pointers inside (restored after
	// a round trip through the JSON form of the case: equal neighbours are made copies of each other again)
	Shared int `json:"shared_subobjects,omitempty"`
	live   interface{}
}

var (
	containerByName = map[string]gen.Entry{}
	pduType         = reflect.TypeOf(ngapType.NGAPPDU{})
)

func init() {
	// the reference encoder follows the structural rules of TS 38.413, not the extension / OPTIONAL flags of the tags
	refper.SpecRules = true
	for _, e := range gen.Containers() {
		containerByName[e.Name] = e
	}
}

func (c *ngapCase) typeAndTag() (reflect.Type, string) {
	if strings.HasPrefix(c.Entry, "PDU/") {
		return pduType, gen.PDUTag
	}
	e, ok := containerByName[c.Entry]
	if !ok {
		panic("unknown entry " + c.Entry)
	}
	return e.Type, e.Tag
}

// value returns the Go value (not a pointer) of the case.
func (c *ngapCase) value() interface{} {
	if c.live != nil {
		return c.live
	}
	t, _ := c.typeAndTag()
	p := reflect.New(t)
	if err := json.Unmarshal(c.Val, p.Interface()); err != nil {
		panic("case value does not parse: " + err.Error())
	}
	if c.Shared > 0 {
		shareEqualNeighbours(p.Elem())
	}
	c.live = p.Elem().Interface()
	return c.live
}

// shareEqualNeighbours: wherever an element of a list of structs equals its predecessor it becomes a copy of it, so
// that the pointers inside are shared as they were when the case was generated.
func shareEqualNeighbours(v reflect.Value) {
	switch v.Kind() {
	case reflect.Ptr, reflect.Interface:
		if !v.IsNil() {
			shareEqualNeighbours(v.Elem())
		}
	case reflect.Struct:
		for i := 0; i < v.NumField(); i++ {
			shareEqualNeighbours(v.Field(i))
		}
	case reflect.Slice:
		if v.Type().Elem().Kind() == reflect.Uint8 {
			return
		}
		for i := 0; i < v.Len(); i++ {
			if i > 0 && v.Type().Elem().Kind() == reflect.Struct && reflect.DeepEqual(v.Index(i).Interface(), v.Index(i-1).Interface()) {
				v.Index(i).Set(v.Index(i - 1))
				continue
			}
			shareEqualNeighbours(v.Index(i))
		}
	}
}

func newNgapCase(entry string, v interface{}) ngapCase {
	b, err := json.Marshal(v)
	if err != nil {
		panic(err)
	}
	return ngapCase{Entry: entry, Val: b, live: v}
}

type ngapGenStats struct{ optPresent, optAbsent int }

// genNgapCase draws an entry point and a value for it.
func genNgapCase(t *rapid.T, allowFragment bool) ngapCase {
	o := gen.Opts{}
	switch rapid.IntRange(0, 9).Draw(t, "shape") {
	case 0, 1:
		o.BigLists = true
		o.Budget = 900
	case 2:
		o.BigString = 1200
	case 3:
		o.BigString = 16383
		o.Budget = 200
	case 4:
		o.Budget = 60
	case 5:
		o.Budget = 2500
	case 6:
		// several large information elements in one PDU (each a kilobyte or more): large lists next to long strings
		o.BigLists = true
		o.BigString = 3000
		o.Budget = 9000
	}
	if allowFragment {
		o.Force = int64(rapid.SampledFrom([]int{16384, 16385, 32767, 32768, 49152, 65535, 65536, 65537, 81920}).Draw(t, "frag"))
		o.BigString = int(o.Force)
		o.Budget = 100
	}
	ms := gen.Messages()
	cs := gen.Containers()
	for try := 0; ; try++ {
		g := gen.New(t, o)
		k := rapid.IntRange(0, len(ms)+len(cs)-1).Draw(t, "entry")
		var c ngapCase
		if k < len(ms) {
			m := ms[k]
			pdu := g.PDU(m)
			c = newNgapCase("PDU/"+m.Name, pdu)
		} else {
			e := cs[k-len(ms)]
			v := g.Value(e.Type, gen.ParseTag(e.Tag), 1)
			c = newNgapCase(e.Name, v.Interface())
		}
		c.Ext = g.ExtOutside
		c.Dirty = g.DirtyBits
		c.Shared = g.Shared
		c.Log = rapid.SampledFrom([]string{"", "", "", "", "", "", "debug", "trace", "error"}).Draw(t, "aper_log_level")
		if rapid.IntRange(0, 2).Draw(t, "hostile") == 0 {
			c.Hostile = rapid.IntRange(1, 4).Draw(t, "hostile_n")
		}
		// fragmentation sweep: retry (with fresh draws) until some string got the target length
		if !allowFragment || g.Forced() || try >= 7 {
			return c
		}
	}
}

// withAperLogLevel runs f with the APER logger at the given level (output discarded) and restores it.
func withAperLogLevel(level string, f func()) {
	lg := aperlogger.AperLog.Logger
	if lv, err := logrus.ParseLevel(level); err == nil && level != "" {
		old, oldOut := lg.GetLevel(), lg.Out
		lg.SetLevel(lv)
		lg.SetOutput(io.Discard)
		defer func() { lg.SetLevel(old); lg.SetOutput(oldOut) }()
	}
	f()
}

func withLog(c ngapCase, oracle func(ngapCase) ev.Verdict) (v ev.Verdict) {
	withAperLogLevel(c.Log, func() { v = oracle(c) })
	if c.Log != "" {
		v.Classes = append(v.Classes, "aper-log-level:"+c.Log)
		if v.Err != nil {
			v.Key = "loglevel-" + c.Log + ":" + v.Key
		}
	}
	return v
}

// libEncode: the library's encoder for this entry, with panics turned into errors.
func libEncode(c *ngapCase) (b []byte, err error, site string) {
	_, tag := c.typeAndTag()
	v := c.value()
	err, site = ev.Guard(func() error {
		var e error
		if pdu, ok := v.(ngapType.NGAPPDU); ok {
			b, e = ngap.Encoder(pdu)
		} else {
			b, e = aper.MarshalWithParams(v, tag)
		}
		return e
	})
	return
}

// libDecode decodes bytes as the entry's type; returns the decoded value (not a pointer).
func libDecode(c *ngapCase, b []byte) (out interface{}, err error, site string) {
	t, tag := c.typeAndTag()
	err, site = ev.Guard(func() error {
		if t == pduType {
			p, e := ngap.Decoder(b)
			if e != nil {
				return e
			}
			out = *p
			return nil
		}
		p := reflect.New(t)
		if e := aper.UnmarshalWithParams(b, p.Interface(), tag); e != nil {
			return e
		}
		out = p.Elem().Interface()
		return nil
	})
	return
}

func marshalAny(v interface{}, tag string) (b []byte, err error) {
	err, _ = ev.Guard(func() error {
		var e error
		b, e = aper.MarshalWithParams(v, tag)
		return e
	})
	return
}

// locate finds the smallest sub-value whose standalone encodings (library vs reference)
// differ and returns a root-cause key "kind[tag]" plus a description.
func locate(v reflect.Value, tag string, path string) (key, desc string) {
	for v.Kind() == reflect.Ptr {
		if v.IsNil() {
			return "", ""
		}
		v = v.Elem()
	}
	p := gen.ParseTag(tag)
	if p.OpenType {
		// an open type cannot be encoded standalone without its reference value: descend
		j := int(v.Field(0).Int())
		if j > 0 && j < v.NumField() {
			return locate(v.Field(j), v.Type().Field(j).Tag.Get("aper"), path+"."+v.Type().Field(j).Name)
		}
		return "", ""
	}
	lb, lerr := marshalAny(v.Interface(), tag)
	rb, _, rerr := refper.Encode(v.Interface(), tag)
	same := (lerr == nil) == (rerr == nil) && (lerr != nil || bytes.Equal(lb, rb))
	if same {
		return "", ""
	}
	t := v.Type()
	if t.Kind() == reflect.Struct && t.String() != gen.TBitString {
		if t.NumField() > 0 && t.Field(0).Name == "Present" {
			j := int(v.Field(0).Int())
			if j > 0 && j < t.NumField() {
				if k, d := locate(v.Field(j), t.Field(j).Tag.Get("aper"), path+"."+t.Field(j).Name); k != "" {
					return k, d
				}
			}
		} else {
			for i := 0; i < t.NumField(); i++ {
				f := v.Field(i)
				if f.Kind() == reflect.Ptr && f.IsNil() {
					continue
				}
				if k, d := locate(f, t.Field(i).Tag.Get("aper"), path+"."+t.Field(i).Name); k != "" {
					return k, d
				}
			}
		}
	}
	if t.Kind() == reflect.Slice && t.Elem().Kind() != reflect.Uint8 {
		for i := 0; i < v.Len(); i++ {
			if k, d := locate(v.Index(i), gen.StripSize(tag), fmt.Sprintf("%s[%d]", path, i)); k != "" {
				return k, d
			}
		}
	}
	kind := t.Kind().String()
	switch t.String() {
	case gen.TBitString:
		kind = "bitstring"
	case gen.TOctet:
		kind = "octetstring"
	case gen.TEnum:
		kind = "enumerated"
	}
	if t.Kind() == reflect.Struct && t.String() != gen.TBitString {
		kind = "struct:" + t.Name()
	}
	if t.Kind() == reflect.Slice && t.Elem().Kind() != reflect.Uint8 {
		kind = "sequence-of"
	}
	key = fmt.Sprintf("enc:%s[%s]", kind, tag)
	desc = fmt.Sprintf("%s type=%s tag=%q library=%x (err %v) reference=%x (err %v) value=%s", path, t, tag, trunc(lb, 32), lerr, trunc(rb, 32), rerr, short(v.Interface()))
	return
}

func trunc(b []byte, n int) []byte {
	if len(b) > n {
		return b[:n]
	}
	return b
}

// eqv: structural equality of two decoded/constructed ngapType values. nil and empty
// slices are the same value; BIT STRINGs are compared on their significant bits.
// Returns "" when equal, else the path of the first difference.
func eqv(a, b reflect.Value, path string) string {
	if a.Kind() == reflect.Ptr || a.Kind() == reflect.Interface {
		if a.IsNil() != b.IsNil() {
			return path + " (nil vs non-nil)"
		}
		if a.IsNil() {
			return ""
		}
		return eqv(a.Elem(), b.Elem(), path)
	}
	t := a.Type()
	if t.String() == gen.TBitString {
		na, nb := a.Field(1).Uint(), b.Field(1).Uint()
		if na != nb {
			return fmt.Sprintf("%s (BitLength %d vs %d)", path, na, nb)
		}
		ba, bb := a.Field(0).Bytes(), b.Field(0).Bytes()
		nbytes := int((na + 7) / 8)
		if len(ba) < nbytes || len(bb) < nbytes {
			return path + " (bit string shorter than its BitLength)"
		}
		for i := 0; i < nbytes; i++ {
			x, y := ba[i], bb[i]
			if i == nbytes-1 && na%8 != 0 {
				m := byte(0xff << uint(8-na%8))
				x, y = x&m, y&m
			}
			if x != y {
				return fmt.Sprintf("%s (bit string octet %d)", path, i)
			}
		}
		return ""
	}
	switch a.Kind() {
	case reflect.Struct:
		for i := 0; i < t.NumField(); i++ {
			if d := eqv(a.Field(i), b.Field(i), path+"."+t.Field(i).Name); d != "" {
				return d
			}
		}
		return ""
	case reflect.Slice:
		if a.Len() != b.Len() {
			return fmt.Sprintf("%s (len %d vs %d)", path, a.Len(), b.Len())
		}
		if t.Elem().Kind() == reflect.Uint8 {
			if !bytes.Equal(a.Bytes(), b.Bytes()) {
				return path + " (octets differ)"
			}
			return ""
		}
		for i := 0; i < a.Len(); i++ {
			if d := eqv(a.Index(i), b.Index(i), fmt.Sprintf("%s[%d]", path, i)); d != "" {
				return d
			}
		}
		return ""
	case reflect.String:
		if a.String() != b.String() {
			return path + " (string differs)"
		}
	case reflect.Bool:
		if a.Bool() != b.Bool() {
			return path
		}
	case reflect.Int, reflect.Int32, reflect.Int64:
		if a.Int() != b.Int() {
			return fmt.Sprintf("%s (%d vs %d)", path, a.Int(), b.Int())
		}
	case reflect.Uint64, reflect.Uint8, reflect.Uint32:
		if a.Uint() != b.Uint() {
			return fmt.Sprintf("%s (%d vs %d)", path, a.Uint(), b.Uint())
		}
	default:
		panic("eqv: unsupported kind " + a.Kind().String())
	}
	return ""
}

// pathKey strips indices from a difference path so that it can serve as a root-cause key.
func pathKey(p string) string {
	var sb strings.Builder
	skip := false
	for _, r := range p {
		switch {
		case r == '[':
			skip = true
		case r == ']':
			skip = false
		case r == ' ':
			return lastTwo(sb.String())
		case !skip:
			sb.WriteRune(r)
		}
	}
	return lastTwo(sb.String())
}
func lastTwo(p string) string {
	parts := strings.Split(p, ".")
	if len(parts) > 3 {
		parts = parts[len(parts)-3:]
	}
	return strings.Join(parts, ".")
}

func short(v interface{}) string {
	s := fmt.Sprintf("%v", v)
	if len(s) > 160 {
		s = s[:160] + "…"
	}
	return s
}
