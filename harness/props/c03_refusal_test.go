package props

import (
	"encoding/json"
	"fmt"
	"reflect"
	"testing"

	"pgregory.net/rapid"

	"verifh/ev"
	"verifh/gen"
	"verifh/refper"
)

// Refusal part of C03: a value outside its constraints must be refused with an error —
// neither bytes nor a panic.
//
// A case is a valid value plus exactly one broken constraint. The broken value itself is
// stored (it survives JSON), together with a description of what was broken.

type refusalCase struct {
	ngapCase
	Broken string `json:"broken"` // kind of constraint broken
	Where  string `json:"where"`
}

type site struct {
	path   string
	v      reflect.Value // addressable
	tag    gen.P
	parent reflect.Value // enclosing struct (for open types / mandatory pointers)
	field  int
	kind   string
}

// collectSites walks an addressable value and lists everything whose constraint can be broken.
func collectSites(v reflect.Value, tag string, path string, out *[]site) {
	p := gen.ParseTag(tag)
	for v.Kind() == reflect.Ptr {
		if v.IsNil() {
			return
		}
		v = v.Elem()
	}
	t := v.Type()
	switch t.String() {
	case gen.TBitString, gen.TOctet:
		if p.SLB != nil && p.SUB != nil && !p.SizeExt {
			*out = append(*out, site{path: path, v: v, tag: p, kind: "size"})
		}
		return
	case gen.TEnum:
		// an extensible enumeration too: this release of TS 38.413 defines nothing behind any extension marker, so a
		// number above the last enumerator denotes no value of the type and cannot be put on the wire either
		if p.VUB != nil {
			*out = append(*out, site{path: path, v: v, tag: p, kind: "enum"})
		}
		return
	}
	switch t.Kind() {
	case reflect.Int, reflect.Int32, reflect.Int64:
		if p.VLB != nil && p.VUB != nil && !p.ValExt {
			*out = append(*out, site{path: path, v: v, tag: p, kind: "int"})
		}
	case reflect.String:
		if p.SLB != nil && p.SUB != nil && !p.SizeExt {
			*out = append(*out, site{path: path, v: v, tag: p, kind: "size"})
		}
	case reflect.Slice:
		if p.SLB != nil && p.SUB != nil && !p.SizeExt {
			*out = append(*out, site{path: path, v: v, tag: p, kind: "listsize"})
		}
		for i := 0; i < v.Len(); i++ {
			collectSites(v.Index(i), gen.StripSize(tag), fmt.Sprintf("%s[%d]", path, i), out)
		}
	case reflect.Struct:
		if t.NumField() > 0 && t.Field(0).Name == "Present" {
			j := int(v.Field(0).Int())
			if !p.OpenType {
				*out = append(*out, site{path: path, v: v, tag: p, kind: "choice"})
			}
			if j > 0 && j < t.NumField() && v.Field(j).Kind() == reflect.Ptr && !v.Field(j).IsNil() {
				*out = append(*out, site{path: path + "." + t.Field(j).Name, v: v.Field(j), tag: p, kind: "nilptr"})
			}
			if j > 0 && j < t.NumField() {
				collectSites(v.Field(j), t.Field(j).Tag.Get("aper"), path+"."+t.Field(j).Name, out)
			}
			return
		}
		for i := 0; i < t.NumField(); i++ {
			ft := t.Field(i)
			fp := gen.ParseTag(ft.Tag.Get("aper"))
			f := v.Field(i)
			if fp.OpenType {
				*out = append(*out, site{path: path + "." + ft.Name, v: f, tag: fp, parent: v, field: i, kind: "opentype"})
			}
			if f.Kind() == reflect.Ptr && !fp.Opt && !f.IsNil() {
				*out = append(*out, site{path: path + "." + ft.Name, v: f, tag: fp, parent: v, field: i, kind: "nilptr"})
			}
			collectSites(f, ft.Tag.Get("aper"), path+"."+ft.Name, out)
		}
	}
}

func setSize(v reflect.Value, n int64) {
	switch v.Type().String() {
	case gen.TBitString:
		v.Field(0).SetBytes(make([]byte, (n+7)/8))
		v.Field(1).SetUint(uint64(n))
		return
	case gen.TOctet:
		v.SetBytes(make([]byte, n))
		return
	}
	if v.Kind() == reflect.String {
		b := make([]byte, n)
		for i := range b {
			b[i] = 'a'
		}
		v.SetString(string(b))
	}
}

func genRefusal(rt *rapid.T) refusalCase {
	base := genNgapCase(rt, false)
	t, tag := base.typeAndTag()
	root := reflect.New(t)
	if err := json.Unmarshal(base.Val, root.Interface()); err != nil {
		panic(err)
	}
	var sites []site
	collectSites(root.Elem(), tag, base.Entry, &sites)
	// prefer variety of kinds: draw a kind first, then a site of that kind
	byKind := map[string][]site{}
	var kinds []string
	for _, s := range sites {
		if _, ok := byKind[s.kind]; !ok {
			kinds = append(kinds, s.kind)
		}
		byKind[s.kind] = append(byKind[s.kind], s)
	}
	if len(kinds) == 0 {
		rt.Skip("no breakable constraint in this value")
	}
	kind := kinds[rapid.IntRange(0, len(kinds)-1).Draw(rt, "kind")]
	ss := byKind[kind]
	s := ss[rapid.IntRange(0, len(ss)-1).Draw(rt, "site")]
	low := rapid.Bool().Draw(rt, "low")
	broken := kind
	switch kind {
	case "int":
		if low {
			s.v.SetInt(*s.tag.VLB - 1)
			broken = "int<lb"
		} else {
			s.v.SetInt(*s.tag.VUB + 1)
			broken = "int>ub"
		}
	case "enum":
		s.v.SetUint(uint64(*s.tag.VUB + 1 + int64(rapid.IntRange(0, 3).Draw(rt, "enumd"))))
		broken = "enum>ub"
		if s.tag.ValExt {
			broken = "extensible-enum>last-enumerator"
		}
	case "size":
		if low && *s.tag.SLB > 0 {
			setSize(s.v, *s.tag.SLB-1)
			broken = "size<lb"
		} else if *s.tag.SUB < 70000 {
			setSize(s.v, *s.tag.SUB+1)
			broken = "size>ub"
		} else {
			rt.Skip("size bound too large to exceed")
		}
	case "listsize":
		if low && *s.tag.SLB > 0 {
			s.v.Set(s.v.Slice(0, int(*s.tag.SLB-1)))
			broken = "list<lb"
		} else if *s.tag.SUB <= 1024 && s.v.Len() > 0 {
			n := int(*s.tag.SUB + 1)
			ns := reflect.MakeSlice(s.v.Type(), n, n)
			for i := 0; i < n; i++ {
				ns.Index(i).Set(s.v.Index(i % s.v.Len()))
			}
			s.v.Set(ns)
			broken = "list>ub"
		} else {
			rt.Skip("list bound too large to exceed")
		}
	case "choice":
		// a third way of leaving a CHOICE unset: the alternative was switched but Present left behind - it names an
		// alternative that is nil while the value sits in another one (needs a second pointer alternative)
		other := -1
		if cur := int(s.v.Field(0).Int()); cur > 0 && cur < s.v.NumField() && s.v.Field(cur).Kind() == reflect.Ptr {
			for j := 1; j < s.v.NumField(); j++ {
				if j != cur && s.v.Field(j).Kind() == reflect.Ptr && s.v.Field(j).IsNil() {
					other = j
					break
				}
			}
		}
		if other > 0 && rapid.IntRange(0, 2).Draw(rt, "stale_present") == 1 {
			s.v.Field(0).SetInt(int64(other))
			broken = "choice-names-a-nil-alternative"
		} else if low {
			s.v.Field(0).SetInt(0)
			broken = "choice=0"
		} else {
			s.v.Field(0).SetInt(int64(s.v.NumField()))
			broken = "choice=n+1"
		}
	case "opentype":
		// make the identifier disagree with the alternative present
		sib := s.parent.FieldByName(s.tag.RefName)
		for sib.Kind() == reflect.Struct {
			sib = sib.Field(0)
		}
		u := s.v
		cur := sib.Int()
		// another alternative's reference value, or an unused one
		var other []int64
		for j := 1; j < u.NumField(); j++ {
			ap := gen.ParseTag(u.Type().Field(j).Tag.Get("aper"))
			if ap.RefVal != nil && *ap.RefVal != cur {
				other = append(other, *ap.RefVal)
			}
		}
		other = append(other, cur+1000)
		sib.SetInt(other[rapid.IntRange(0, len(other)-1).Draw(rt, "otherid")])
		broken = "opentype-id-mismatch"
	case "nilptr":
		s.v.Set(reflect.Zero(s.v.Type()))
		broken = "nil-mandatory"
	}
	val := root.Elem().Interface()
	// sanity: the independent encoder must refuse it too, otherwise the "broken" value is in fact legal
	if _, _, rerr := refper.Encode(val, tag); rerr == nil {
		if broken == "opentype-id-mismatch" {
			// an identifier outside the table range may still be in 0..65535: reference refuses by mismatch, so this cannot happen
		}
		panic(fmt.Sprintf("refusal generator: reference accepts the value after breaking %s at %s", broken, s.path))
	}
	nc := newNgapCase(base.Entry, val)
	return refusalCase{ngapCase: nc, Broken: broken, Where: pathKey(s.path)}
}

func refusalOracle(c refusalCase) ev.Verdict {
	v := ev.Verdict{NT: true, Classes: []string{"refusal:" + c.Broken}}
	b, err, site := libEncode(&c.ngapCase)
	if site != "" {
		v.Key = "refusal:panic:" + site
		v.Err = fmt.Errorf("value with %s at %s: encoder panicked instead of returning an error: %v", c.Broken, c.Where, err)
		return v
	}
	if err == nil {
		v.Key = "refusal:accepted:" + c.Broken
		v.Err = fmt.Errorf("value with %s at %s was put on the wire (%d octets: %x…) instead of being refused", c.Broken, c.Where, len(b), trunc(b, 24))
	}
	return v
}

func TestC03_Refusal(t *testing.T) {
	r := ev.New(t, "C03", "TestC03_Refusal")
	ev.Run(t, r, genRefusal, refusalOracle)
}
