// Package refsec is the reference NAS security envelope (TS 24.501 §9.1.1/§9.3/§9.8/§9.10, §4.4.3-4.4.5,
// TS 33.501 §6.4) and the reference USIM/HSS side of UMTS/5G AKA (TS 33.102 §6.3.2-6.3.5), built on
// verifh/refcrypto only. It is used as the "conformant peer" of the emulator's UE in C06 (receiver of uplink
// messages) and C10 (AMF sending downlink messages) and as the oracle of C15 (AUTN / AUTS handling).
// Nothing in here calls the code under test.
package refsec

import (
	"bytes"
	"fmt"

	"verifh/refcrypto"
)

const (
	EPD5GMM = 0x7e
	EPD5GSM = 0x2e

	Bearer3GPP  = 1 // TS 33.501 §6.4.2.2 / Annex D: BEARER = NAS connection identifier, 0x01 for 3GPP access
	DirUplink   = 0
	DirDownlink = 1

	HTPlain              = 0
	HTIntegrity          = 1
	HTIntegrityCiphered  = 2
	HTIntegrityNew       = 3
	HTIntegrityCipherNew = 4
)

// Ctx is one 5G NAS security context (algorithm identifiers 0..3 as in TS 33.501 §5.11.1).
type Ctx struct {
	KnasEnc [16]byte
	KnasInt [16]byte
	EA, IA  uint8
}

// Ciphered reports whether a security header type carries a ciphered payload (TS 24.501 table 9.3.1).
func Ciphered(ht uint8) bool { return ht == HTIntegrityCiphered || ht == HTIntegrityCipherNew }

// NewContext reports whether a header type announces a new 5G NAS security context.
func NewContext(ht uint8) bool { return ht == HTIntegrityNew || ht == HTIntegrityCipherNew }

// Cipher applies 128-NEAx (NEA0 = identity). The result is a fresh slice.
func (c Ctx) Cipher(count uint32, dir uint32, in []byte) ([]byte, error) {
	switch c.EA {
	case 0:
		return append([]byte{}, in...), nil
	case 1:
		return refcrypto.EEA1(c.KnasEnc, count, Bearer3GPP, dir, in, 8*len(in)), nil
	case 2:
		return refcrypto.EEA2(c.KnasEnc, count, Bearer3GPP, dir, in), nil
	}
	return nil, fmt.Errorf("refsec: ciphering algorithm %d not available", c.EA)
}

// MAC computes 128-NIAx over msg (= sequence number || NAS message, TS 24.501 §4.4.3.3).
func (c Ctx) MAC(count uint32, dir uint32, msg []byte) ([4]byte, error) {
	switch c.IA {
	case 1:
		return refcrypto.EIA1(c.KnasInt, count, Bearer3GPP, dir, msg, 8*len(msg)), nil
	case 2:
		return refcrypto.EIA2(c.KnasInt, count, Bearer3GPP, dir, msg), nil
	}
	return [4]byte{}, fmt.Errorf("refsec: integrity algorithm %d not available (NIA0 is outside the properties)", c.IA)
}

// Protect builds a security protected 5GS NAS message (TS 24.501 §9.1.1, figure 9.1.1.2):
// EPD(5GMM) | security header type | MAC(4) | SQN | plain NAS message (ciphered iff the header type says so).
func (c Ctx) Protect(ht uint8, count uint32, dir uint32, plain []byte) ([]byte, error) {
	if ht < 1 || ht > 4 {
		return nil, fmt.Errorf("refsec: header type %d is not a protected type", ht)
	}
	body := append([]byte{}, plain...)
	if Ciphered(ht) {
		var err error
		if body, err = c.Cipher(count, dir, plain); err != nil {
			return nil, err
		}
	}
	sq := append([]byte{byte(count)}, body...)
	mac, err := c.MAC(count, dir, sq)
	if err != nil {
		return nil, err
	}
	out := append([]byte{EPD5GMM, ht}, mac[:]...)
	return append(out, sq...), nil
}

// Parsed is the outer structure of a security protected NAS message.
type Parsed struct {
	HT   uint8
	MAC  [4]byte
	SQN  uint8
	Body []byte // as sent (ciphered or clear)
}

func Parse(pdu []byte) (p Parsed, err error) {
	if len(pdu) < 7 {
		return p, fmt.Errorf("protected NAS message of %d octets is shorter than its 7-octet header", len(pdu))
	}
	if pdu[0] != EPD5GMM {
		return p, fmt.Errorf("outer extended protocol discriminator is 0x%02x, want 0x7e (5GMM)", pdu[0])
	}
	if pdu[1] < 1 || pdu[1] > 4 {
		return p, fmt.Errorf("security header type octet is 0x%02x, want 1..4 with a zero spare half octet", pdu[1])
	}
	p.HT = pdu[1]
	copy(p.MAC[:], pdu[2:6])
	p.SQN = pdu[6]
	p.Body = pdu[7:]
	return p, nil
}

// Open is the conformant receiver: the caller supplies the NAS COUNT it expects for this message
// (its own estimate); Open checks the header, SQN = COUNT mod 256, the MAC over SQN||body, and returns
// the plain message (deciphering iff the header type is a ciphered one).
// what names the first thing that is wrong ("" if nothing).
func (c Ctx) Open(pdu []byte, wantHT uint8, count uint32, dir uint32) (plain []byte, what string, err error) {
	p, err := Parse(pdu)
	if err != nil {
		return nil, "header", err
	}
	if p.HT != wantHT {
		return nil, "header", fmt.Errorf("security header type %d, want %d", p.HT, wantHT)
	}
	if p.SQN != byte(count) {
		return nil, "sqn", fmt.Errorf("sequence number octet 0x%02x, want NAS COUNT 0x%06x mod 256 = 0x%02x", p.SQN, count, byte(count))
	}
	mac, err := c.MAC(count, dir, pdu[6:])
	if err != nil {
		return nil, "alg", err
	}
	if mac != p.MAC {
		return nil, "mac", fmt.Errorf("MAC %x, want 128-NIA%d(COUNT 0x%06x, BEARER 1, DIRECTION %d, SQN||message) = %x", p.MAC, c.IA, count, dir, mac)
	}
	if Ciphered(p.HT) {
		plain, err = c.Cipher(count, dir, p.Body)
		if err != nil {
			return nil, "alg", err
		}
		return plain, "", nil
	}
	return append([]byte{}, p.Body...), "", nil
}

// ---------------------------------------------------------------------------------------
// AKA: what a USIM does with (RAND, AUTN) and what the HSS/UDM does with AUTS. TS 33.102 §6.3.3, §6.3.5.

// AKAResult of the reference USIM.
type AKAResult struct {
	MacOK  bool    // XMAC == MAC in AUTN
	Fresh  bool    // SQN recovered from AUTN > SQN_MS  (48-bit unsigned, big endian)
	RxSQN  [6]byte // AUTN[0:6] xor AK
	Res    [8]byte
	CK, IK [16]byte
	AK     [6]byte
	AUTS   [14]byte // (SQN_MS xor AK*) || MAC-S, MAC-S = f1*(SQN_MS, AMF=0000)
}

func cmp48(a, b [6]byte) int { return bytes.Compare(a[:], b[:]) }

// USIM evaluates an authentication token against the UE's stored sequence number.
func USIM(k, opc, rnd [16]byte, autn [16]byte, sqnMS [6]byte) (r AKAResult) {
	o := refcrypto.Milenage(k, opc, rnd, [6]byte{}, [2]byte{})
	r.Res, r.CK, r.IK, r.AK = o.Res, o.CK, o.IK, o.AK
	for i := 0; i < 6; i++ {
		r.RxSQN[i] = autn[i] ^ o.AK[i]
	}
	amf := [2]byte{autn[6], autn[7]}
	x := refcrypto.Milenage(k, opc, rnd, r.RxSQN, amf)
	r.MacOK = bytes.Equal(x.MacA[:], autn[8:16])
	r.Fresh = cmp48(r.RxSQN, sqnMS) > 0
	r.AUTS = AUTS(k, opc, rnd, sqnMS)
	return
}

// AUTN = (SQN xor AK) || AMF || MAC-A
func AUTN(k, opc, rnd [16]byte, sqn [6]byte, amf [2]byte) (a [16]byte) {
	o := refcrypto.Milenage(k, opc, rnd, sqn, amf)
	for i := 0; i < 6; i++ {
		a[i] = sqn[i] ^ o.AK[i]
	}
	a[6], a[7] = amf[0], amf[1]
	copy(a[8:], o.MacA[:])
	return
}

// AUTS = (SQN_MS xor f5*(RAND)) || f1*(SQN_MS, RAND, AMF=0x0000)   (TS 33.102 §6.3.3)
func AUTS(k, opc, rnd [16]byte, sqnMS [6]byte) (a [14]byte) {
	o := refcrypto.Milenage(k, opc, rnd, sqnMS, [2]byte{0, 0})
	for i := 0; i < 6; i++ {
		a[i] = sqnMS[i] ^ o.AKs[i]
	}
	copy(a[6:], o.MacS[:])
	return
}

// HSSCheckAUTS: the network side of re-synchronisation (TS 33.102 §6.3.5): recover SQN_MS, verify MAC-S.
func HSSCheckAUTS(k, opc, rnd [16]byte, auts [14]byte) (sqnMS [6]byte, ok bool) {
	o := refcrypto.Milenage(k, opc, rnd, [6]byte{}, [2]byte{})
	for i := 0; i < 6; i++ {
		sqnMS[i] = auts[i] ^ o.AKs[i]
	}
	x := refcrypto.Milenage(k, opc, rnd, sqnMS, [2]byte{0, 0})
	return sqnMS, bytes.Equal(x.MacS[:], auts[6:14])
}

// ---------------------------------------------------------------------------------------
// Serving network name, TS 24.501 §9.12.1: "5G:mnc<MNC>.mcc<MCC>.3gppnetwork.org", MNC always three
// digits (a two-digit MNC gets a "0" inserted on the left), 32 characters in total.
func SNN(mcc, mnc string) (string, error) {
	digits := func(s string) bool {
		for _, c := range s {
			if c < '0' || c > '9' {
				return false
			}
		}
		return true
	}
	if len(mcc) != 3 || !digits(mcc) || (len(mnc) != 2 && len(mnc) != 3) || !digits(mnc) {
		return "", fmt.Errorf("refsec: MCC %q / MNC %q are not 3 and 2|3 decimal digits", mcc, mnc)
	}
	if len(mnc) == 2 {
		mnc = "0" + mnc
	}
	return "5G:mnc" + mnc + ".mcc" + mcc + ".3gppnetwork.org", nil
}

// ---------------------------------------------------------------------------------------

// SelfTest: known answers and structural checks for everything in this file that is new with respect
// to refcrypto (whose own SelfTest must pass too).
func SelfTest() error {
	if err := refcrypto.SelfTest(); err != nil {
		return err
	}
	h := func(s string) []byte {
		var b []byte
		for i := 0; i+1 < len(s); i += 2 {
			var v byte
			fmt.Sscanf(s[i:i+2], "%02x", &v)
			b = append(b, v)
		}
		return b
	}
	k16 := func(s string) (r [16]byte) { copy(r[:], h(s)); return }
	// TS 35.208 test set 1
	k, opc, rnd := k16("465b5ce8b199b49faa5f0a2ee238a6bc"), k16("cd63cb71954a9f4e48a5994e37a02baf"), k16("23553cbe9637a89d218ae64dae47bf35")
	sqn := [6]byte{0xff, 0x9b, 0xb4, 0xd0, 0xb6, 0x07}
	amf := [2]byte{0xb9, 0xb9}
	// AUTN = (SQN^AK)||AMF||MAC-A with AK aa689c648370 and MAC-A 4a9ffac354dfafb3 (published f5/f1 outputs)
	autn := AUTN(k, opc, rnd, sqn, amf)
	if fmt.Sprintf("%x", autn) != "55f328b43577"+"b9b9"+"4a9ffac354dfafb3" {
		return fmt.Errorf("refsec AUTN set 1: %x", autn)
	}
	// AUTS[0:6] = SQN ^ AK* with AK* 451e8beca43b (published f5*)
	auts := AUTS(k, opc, rnd, sqn)
	if fmt.Sprintf("%x", auts[:6]) != "ba853f3c123c" {
		return fmt.Errorf("refsec AUTS set 1 concealed SQN: %x", auts[:6])
	}
	if got, ok := HSSCheckAUTS(k, opc, rnd, auts); !ok || got != sqn {
		return fmt.Errorf("refsec AUTS round trip: ok=%v sqn=%x", ok, got)
	}
	bad := auts
	bad[13] ^= 1
	if _, ok := HSSCheckAUTS(k, opc, rnd, bad); ok {
		return fmt.Errorf("refsec AUTS: corrupted MAC-S accepted")
	}
	// USIM: fresh / equal / stale, wrong MAC
	lower := sqn
	lower[0]-- // differs in the FIRST octet only
	if r := USIM(k, opc, rnd, autn, lower); !r.MacOK || !r.Fresh || fmt.Sprintf("%x", r.Res) != "a54211d5e3ba50bf" || r.RxSQN != sqn {
		return fmt.Errorf("refsec USIM fresh case: %+v", r)
	}
	if r := USIM(k, opc, rnd, autn, sqn); !r.MacOK || r.Fresh || r.AUTS != auts {
		return fmt.Errorf("refsec USIM equal-SQN case: %+v", r)
	}
	a2 := autn
	a2[8] ^= 0x80
	if r := USIM(k, opc, rnd, a2, lower); r.MacOK {
		return fmt.Errorf("refsec USIM: MAC corrupted in its first octet accepted")
	}
	// SNN
	if s, err := SNN("208", "93"); err != nil || s != "5G:mnc093.mcc208.3gppnetwork.org" || len(s) != 32 {
		return fmt.Errorf("refsec SNN 208/93: %q %v", s, err)
	}
	if s, err := SNN("001", "001"); err != nil || s != "5G:mnc001.mcc001.3gppnetwork.org" {
		return fmt.Errorf("refsec SNN 001/001: %q %v", s, err)
	}
	if _, err := SNN("01", "01"); err == nil {
		return fmt.Errorf("refsec SNN accepted a 2-digit MCC")
	}
	// envelope: layout and round trip for all algorithm pairs and header types, three lengths
	c := Ctx{KnasEnc: k16("d3c5d592327fb11c4035c6680af8c6d1"), KnasInt: k16("2bd6459f82c5b300952c49104881ff48")}
	for _, ea := range []uint8{0, 1, 2} {
		for _, ia := range []uint8{1, 2} {
			for ht := uint8(1); ht <= 4; ht++ {
				for _, n := range []int{3, 16, 37} {
					c.EA, c.IA = ea, ia
					plain := make([]byte, n)
					for i := range plain {
						plain[i] = byte(7*i + 1)
					}
					plain[0] = EPD5GMM
					const count = 0x01fffe
					pdu, err := c.Protect(ht, count, DirDownlink, plain)
					if err != nil {
						return err
					}
					if len(pdu) != 7+n || pdu[0] != 0x7e || pdu[1] != ht || pdu[6] != 0xfe {
						return fmt.Errorf("refsec envelope layout: %x", pdu)
					}
					clear := bytes.Equal(pdu[7:], plain)
					if wantClear := !Ciphered(ht) || ea == 0; clear != wantClear {
						return fmt.Errorf("refsec envelope ea=%d ht=%d: payload in clear=%v", ea, ht, clear)
					}
					var mac [4]byte
					if ia == 1 {
						mac = refcrypto.EIA1(c.KnasInt, count, 1, 1, pdu[6:], 8*len(pdu[6:]))
					} else {
						mac = refcrypto.EIA2(c.KnasInt, count, 1, 1, pdu[6:])
					}
					if !bytes.Equal(mac[:], pdu[2:6]) {
						return fmt.Errorf("refsec envelope MAC position/coverage")
					}
					got, what, err := c.Open(pdu, ht, count, DirDownlink)
					if err != nil || !bytes.Equal(got, plain) {
						return fmt.Errorf("refsec envelope round trip ea=%d ia=%d ht=%d: %s %v", ea, ia, ht, what, err)
					}
					if _, what, err := c.Open(pdu, ht, count, DirUplink); err == nil || what != "mac" {
						return fmt.Errorf("refsec envelope: wrong direction not noticed")
					}
					if _, what, err := c.Open(pdu, ht, count+256, DirDownlink); err == nil || what != "mac" {
						return fmt.Errorf("refsec envelope: wrong overflow not noticed")
					}
					if _, what, err := c.Open(pdu, ht, count+1, DirDownlink); err == nil || what != "sqn" {
						return fmt.Errorf("refsec envelope: wrong SQN not noticed")
					}
				}
			}
		}
	}
	// 128-EIA2 known answer reached through the envelope's MAC function (TS 33.401 C.2 set 2 uses BEARER 0x1A,
	// which the NAS envelope never uses, so only the key/count/direction plumbing can be cross-checked):
	// MAC(count, dir, m) must equal refcrypto.EIA2 with BEARER 1.
	c.IA = 2
	m := h("484583d5afe082ae")
	if got, _ := c.MAC(0x398a59b4, 1, m); got != refcrypto.EIA2(c.KnasInt, 0x398a59b4, 1, 1, m) {
		return fmt.Errorf("refsec MAC plumbing")
	}
	return nil
}
