package refcrypto

import (
	"crypto/aes"
	"crypto/hmac"
	"crypto/sha256"
)

func xor16(a, b [16]byte) (r [16]byte) {
	for i := range r {
		r[i] = a[i] ^ b[i]
	}
	return
}

// rot: cyclic left rotation by n bits (n multiple of 8 here, but done bitwise)
func rotBits(x [16]byte, n int) (r [16]byte) {
	for i := 0; i < 128; i++ {
		src := (i + n) % 128
		bit := x[src/8] >> uint(7-src%8) & 1
		r[i/8] |= bit << uint(7-i%8)
	}
	return
}

func ek(k [16]byte, in [16]byte) (out [16]byte) {
	b, _ := aes.NewCipher(k[:])
	b.Encrypt(out[:], in[:])
	return
}

func OPc(k, op [16]byte) [16]byte { return xor16(ek(k, op), op) }

type MilOut struct {
	MacA, MacS [8]byte
	Res        [8]byte
	CK, IK     [16]byte
	AK, AKs    [6]byte
}

// Milenage per TS 35.206 §4.1 with c1..c5 (0,1,2,4,8 in the last octet) and r1..r5 = 64,0,32,64,96
func Milenage(k, opc, rnd [16]byte, sqn [6]byte, amf [2]byte) (o MilOut) {
	temp := ek(k, xor16(rnd, opc))
	var in1 [16]byte
	copy(in1[0:6], sqn[:])
	copy(in1[6:8], amf[:])
	copy(in1[8:14], sqn[:])
	copy(in1[14:16], amf[:])
	c := func(v byte) (r [16]byte) { r[15] = v; return }
	out1 := xor16(ek(k, xor16(xor16(temp, rotBits(xor16(in1, opc), 64)), c(0))), opc)
	outN := func(r int, cv byte) [16]byte {
		return xor16(ek(k, xor16(rotBits(xor16(temp, opc), r), c(cv))), opc)
	}
	out2 := outN(0, 1)
	out3 := outN(32, 2)
	out4 := outN(64, 4)
	out5 := outN(96, 8)
	copy(o.MacA[:], out1[0:8])
	copy(o.MacS[:], out1[8:16])
	copy(o.Res[:], out2[8:16])
	copy(o.AK[:], out2[0:6])
	o.CK = out3
	o.IK = out4
	copy(o.AKs[:], out5[0:6])
	return
}

func KDF(key []byte, fc byte, params ...[]byte) []byte {
	s := []byte{fc}
	for _, p := range params {
		s = append(s, p...)
		s = append(s, byte(len(p)>>8), byte(len(p)))
	}
	h := hmac.New(sha256.New, key)
	h.Write(s)
	return h.Sum(nil)
}

type Keys5G struct {
	ResStar      []byte
	Kausf, Kseaf []byte
	Kamf         []byte
	KnasEnc      [16]byte
	KnasInt      [16]byte
}

// sqnXorAk = AUTN[0:6]
func Derive5G(ck, ik [16]byte, res [8]byte, rnd [16]byte, sqnXorAk [6]byte, snn string, supiDigits string, encAlg, intAlg byte) (o Keys5G) {
	key := append(append([]byte{}, ck[:]...), ik[:]...)
	o.ResStar = KDF(key, 0x6B, []byte(snn), rnd[:], res[:])[16:]
	o.Kausf = KDF(key, 0x6A, []byte(snn), sqnXorAk[:])
	o.Kseaf = KDF(o.Kausf, 0x6C, []byte(snn))
	o.Kamf = KDF(o.Kseaf, 0x6D, []byte(supiDigits), []byte{0, 0})
	copy(o.KnasEnc[:], KDF(o.Kamf, 0x69, []byte{1}, []byte{encAlg})[16:])
	copy(o.KnasInt[:], KDF(o.Kamf, 0x69, []byte{2}, []byte{intAlg})[16:])
	return
}
