package refcrypto

import (
	"bytes"
	"encoding/hex"
	"fmt"
)

type fatalT struct{}

func (fatalT) Fatalf(f string, a ...interface{}) { panic(fmt.Sprintf(f, a...)) }

func hx(s string) []byte {
	b, err := hex.DecodeString(s)
	if err != nil {
		panic(err)
	}
	return b
}
func k16(s string) (k [16]byte) { copy(k[:], hx(s)); return }

// SelfTest: the reference implementations must reproduce published known answers
// before any verdict that depends on them is believed.
func SelfTest() (err error) {
	defer func() {
		if e := recover(); e != nil {
			err = fmt.Errorf("%v", e)
		}
	}()
	t := fatalT{}
	if fmt.Sprintf("%x", SR[:4]) != "637c777b" || fmt.Sprintf("%x", SQ[:6]) != "25247367d7ae" {
		t.Fatalf("S-boxes: SR=%x SQ=%x", SR[:4], SQ[:6])
	}
	// SNOW 3G specification, test set 1
	z := NewSnow([4]uint32{0x2BD6459F, 0x82C5B300, 0x952C4910, 0x4881FF48}, [4]uint32{0xEA024714, 0xAD5C4D84, 0xDF1F9B25, 0x1C0BF45F})
	if a, b := z.Word(), z.Word(); a != 0xABEE9704 || b != 0x7AC31373 {
		t.Fatalf("snow3g set1: %08X %08X", a, b)
	}
	// UEA2 / 128-EEA1 test set 1 (253 bits)
	ck := k16("D3C5D592327FB11C4035C6680AF8C6D1")
	pt := hx("981BA6824C1BFB1AB485472029B71D808CE33E2CC3C0B5FC1F3DE8A6DC66B1F0")
	if ct := EEA1(ck, 0x398A59B4, 0x15, 1, pt, 253); !bytes.Equal(ct, hx("5D5BFE75EB04F68CE0A12377EA00B37D47C6A0BA06309155086A859C4341B378")) {
		t.Fatalf("eea1 set1: %X", ct)
	}
	// 128-EEA2 TS 33.401 C.1 test set 1 (253 bits -> compare the first 31 octets and the top 5 bits of the last)
	ct2 := EEA2(ck, 0x398A59B4, 0x15, 1, pt)
	want2 := hx("E9FED8A63D155304D71DF20BF3E82214B20ED7DAD2F233DC3C22D7BDEEED8E78")
	if !bytes.Equal(ct2[:31], want2[:31]) || ct2[31]&0xF8 != want2[31]&0xF8 {
		t.Fatalf("eea2 set1: %X", ct2)
	}
	// RFC 4493
	k := k16("2b7e151628aed2a6abf7158809cf4f3c")
	m := hx("6bc1bee22e409f96e93d7e117393172aae2d8a571e03ac9c9eb76fac45af8e5130c81c46a35ce411e5fbc1191a0a52eff69f2445df4f9b17ad2b417be66c3710")
	for n, w := range map[int]string{0: "bb1d6929e95937287fa37d129b756746", 16: "070a16b46b4d4144f79bdd9dd04a287c", 40: "dfa66747de9ae63030ca32611497c827", 64: "51f0bebf7e3b9d92fc49741779363cfe"} {
		if got := CMAC(k, m[:n]); fmt.Sprintf("%x", got) != w {
			t.Fatalf("cmac %d: %x", n, got)
		}
	}
	// 128-EIA2 TS 33.401 C.2 test set 2
	if mac := EIA2(k16("D3C5D592327FB11C4035C6680AF8C6D1"), 0x398A59B4, 0x1A, 1, hx("484583D5AFE082AE")); fmt.Sprintf("%X", mac) != "B93787E6" {
		t.Fatalf("eia2 set2: %X", mac)
	}
	// 128-EIA1 TS 33.401 C.4 test set 1
	if mac := EIA1(k16("2BD6459F82C5B300952C49104881FF48"), 0x38A6F056, 0x1F, 0, hx("3332346263393861373479"), 88); fmt.Sprintf("%X", mac) != "731F1165" {
		t.Fatalf("eia1 set1: %X", mac)
	}
	// Milenage TS 35.208 test set 1
	o := Milenage(k16("465b5ce8b199b49faa5f0a2ee238a6bc"), k16("cd63cb71954a9f4e48a5994e37a02baf"), k16("23553cbe9637a89d218ae64dae47bf35"),
		[6]byte{0xff, 0x9b, 0xb4, 0xd0, 0xb6, 0x07}, [2]byte{0xb9, 0xb9})
	chk := func(name string, got []byte, want string) {
		if fmt.Sprintf("%x", got) != want {
			t.Fatalf("milenage set1 %s: %x want %s", name, got, want)
		}
	}
	chk("f1", o.MacA[:], "4a9ffac354dfafb3")
	chk("f1*", o.MacS[:], "01cfaf9ec4e871e9")
	chk("f2", o.Res[:], "a54211d5e3ba50bf")
	chk("f3", o.CK[:], "b40ba9a3c58b2a05bbf0d987b21bf8cb")
	chk("f4", o.IK[:], "f769bcd751044604127672711c6d3441")
	chk("f5", o.AK[:], "aa689c648370")
	chk("f5*", o.AKs[:], "451e8beca43b")
	opc := OPc(k16("465b5ce8b199b49faa5f0a2ee238a6bc"), k16("cdc202d5123e20f62b6d676ac72cb318"))
	chk("opc", opc[:], "cd63cb71954a9f4e48a5994e37a02baf")
	return nil
}
