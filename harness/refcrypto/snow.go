// Package refcrypto: prototype reference crypto written from the specifications.
package refcrypto

import (
	"crypto/aes"
	"encoding/binary"
)

func mulx(v, c byte) byte {
	if v&0x80 != 0 {
		return (v << 1) ^ c
	}
	return v << 1
}
func mulxpow(v byte, i int, c byte) byte {
	for ; i > 0; i-- {
		v = mulx(v, c)
	}
	return v
}

// GF(2^8) multiply modulo poly (poly given with the x^8 term, e.g. 0x11B)
func gmul(a, b byte, poly uint16) byte {
	var r uint16
	aa := uint16(a)
	for i := 0; i < 8; i++ {
		if b&(1<<uint(i)) != 0 {
			r ^= aa << uint(i)
		}
	}
	for i := 15; i >= 8; i-- {
		if r&(1<<uint(i)) != 0 {
			r ^= poly << uint(i-8)
		}
	}
	return byte(r)
}
func gpow(a byte, e int, poly uint16) byte {
	r := byte(1)
	for i := 0; i < e; i++ {
		r = gmul(r, a, poly)
	}
	return r
}

var SR, SQ [256]byte

func init() {
	// Rijndael S-box: multiplicative inverse in GF(2^8)/0x11B then affine transform
	for x := 0; x < 256; x++ {
		var inv byte
		if x != 0 {
			inv = gpow(byte(x), 254, 0x11B)
		}
		b := inv
		res := b ^ rotl8(b, 1) ^ rotl8(b, 2) ^ rotl8(b, 3) ^ rotl8(b, 4) ^ 0x63
		SR[x] = res
	}
	// S_Q: Dickson polynomial g49(x) + 0x25 over GF(2^8)/x^8+x^6+x^5+x^3+1
	for x := 0; x < 256; x++ {
		var r byte
		for _, e := range []int{1, 9, 13, 15, 33, 41, 45, 47, 49} {
			r ^= gpow(byte(x), e, 0x169)
		}
		SQ[x] = r ^ 0x25
	}
}
func rotl8(b byte, n uint) byte { return b<<n | b>>(8-n) }

func sbox(w uint32, s *[256]byte, c byte) uint32 {
	w0, w1, w2, w3 := s[byte(w>>24)], s[byte(w>>16)], s[byte(w>>8)], s[byte(w)]
	r0 := mulx(w0, c) ^ w1 ^ w2 ^ mulx(w3, c) ^ w3
	r1 := mulx(w0, c) ^ w0 ^ mulx(w1, c) ^ w2 ^ w3
	r2 := w0 ^ mulx(w1, c) ^ w1 ^ mulx(w2, c) ^ w3
	r3 := w0 ^ w1 ^ mulx(w2, c) ^ w2 ^ mulx(w3, c)
	return uint32(r0)<<24 | uint32(r1)<<16 | uint32(r2)<<8 | uint32(r3)
}
func mulAlpha(c byte) uint32 {
	return uint32(mulxpow(c, 23, 0xA9))<<24 | uint32(mulxpow(c, 245, 0xA9))<<16 | uint32(mulxpow(c, 48, 0xA9))<<8 | uint32(mulxpow(c, 239, 0xA9))
}
func divAlpha(c byte) uint32 {
	return uint32(mulxpow(c, 16, 0xA9))<<24 | uint32(mulxpow(c, 39, 0xA9))<<16 | uint32(mulxpow(c, 6, 0xA9))<<8 | uint32(mulxpow(c, 64, 0xA9))
}

type Snow struct {
	s          [16]uint32
	r1, r2, r3 uint32
}

func (z *Snow) fsm() uint32 {
	f := (z.s[15] + z.r1) ^ z.r2
	r := z.r2 + (z.r3 ^ z.s[5])
	z.r3 = sbox(z.r2, &SQ, 0x69)
	z.r2 = sbox(z.r1, &SR, 0x1B)
	z.r1 = r
	return f
}
func (z *Snow) lfsr(f uint32) {
	v := (z.s[0] << 8) ^ mulAlpha(byte(z.s[0]>>24)) ^ z.s[2] ^ (z.s[11] >> 8) ^ divAlpha(byte(z.s[11])) ^ f
	copy(z.s[:], z.s[1:])
	z.s[15] = v
}

// NewSnow: k[0..3], iv[0..3] as in the SNOW 3G specification (k0..k3, IV0..IV3)
func NewSnow(k, iv [4]uint32) *Snow {
	z := &Snow{}
	o := uint32(0xffffffff)
	z.s[15] = k[3] ^ iv[0]
	z.s[14] = k[2]
	z.s[13] = k[1]
	z.s[12] = k[0] ^ iv[1]
	z.s[11] = k[3] ^ o
	z.s[10] = k[2] ^ o ^ iv[2]
	z.s[9] = k[1] ^ o ^ iv[3]
	z.s[8] = k[0] ^ o
	z.s[7] = k[3]
	z.s[6] = k[2]
	z.s[5] = k[1]
	z.s[4] = k[0]
	z.s[3] = k[3] ^ o
	z.s[2] = k[2] ^ o
	z.s[1] = k[1] ^ o
	z.s[0] = k[0] ^ o
	for i := 0; i < 32; i++ {
		z.lfsr(z.fsm())
	}
	z.fsm()
	z.lfsr(0)
	return z
}
func (z *Snow) Word() uint32 {
	f := z.fsm()
	w := f ^ z.s[0]
	z.lfsr(0)
	return w
}

func keyWords(key [16]byte) (k [4]uint32) {
	// K3 = first 32 bits of the key ... K0 = last
	for i := 0; i < 4; i++ {
		k[3-i] = binary.BigEndian.Uint32(key[4*i:])
	}
	return
}

// EEA1: bit-exact f8; nbits = length in bits
func EEA1(key [16]byte, count uint32, bearer, dir uint32, in []byte, nbits int) []byte {
	iv := [4]uint32{bearer<<27 | dir<<26, count, bearer<<27 | dir<<26, count}
	z := NewSnow(keyWords(key), iv)
	out := make([]byte, (nbits+7)/8)
	var ks [4]byte
	for i := 0; i < len(out); i++ {
		if i%4 == 0 {
			binary.BigEndian.PutUint32(ks[:], z.Word())
		}
		out[i] = in[i] ^ ks[i%4]
	}
	if nbits%8 != 0 {
		out[len(out)-1] &= 0xff << uint(8-nbits%8)
	}
	return out
}

func mul64(v, p, c uint64) uint64 {
	var r uint64
	for i := 0; i < 64; i++ {
		if p>>uint(i)&1 == 1 {
			x := v
			for j := 0; j < i; j++ {
				if x&(1<<63) != 0 {
					x = x<<1 ^ c
				} else {
					x <<= 1
				}
			}
			r ^= x
		}
	}
	return r
}

// EIA1: f9 with FRESH = BEARER<<27
func EIA1(key [16]byte, count uint32, bearer, dir uint32, msg []byte, nbits int) [4]byte {
	fresh := bearer << 27
	iv := [4]uint32{fresh ^ dir<<15, count ^ dir<<31, fresh, count}
	z := NewSnow(keyWords(key), iv)
	var w [5]uint32
	for i := range w {
		w[i] = z.Word()
	}
	P := uint64(w[0])<<32 | uint64(w[1])
	Q := uint64(w[2])<<32 | uint64(w[3])
	D := (nbits+63)/64 + 1
	var eval uint64
	for i := 0; i < D-1; i++ {
		var blk [8]byte
		lo := 8 * i
		if lo < len(msg) {
			copy(blk[:], msg[lo:])
		}
		m := binary.BigEndian.Uint64(blk[:])
		// mask bits beyond nbits in the last block
		if rem := nbits - 64*i; rem < 64 {
			if rem <= 0 {
				m = 0
			} else {
				m &= ^uint64(0) << uint(64-rem)
			}
		}
		eval = mul64(eval^m, P, 0x1b)
	}
	eval ^= uint64(nbits)
	eval = mul64(eval, Q, 0x1b)
	var out [4]byte
	binary.BigEndian.PutUint32(out[:], uint32(eval>>32)^w[4])
	return out
}

// EEA2: AES-128 CTR with hand-rolled counter
func EEA2(key [16]byte, count uint32, bearer, dir uint32, in []byte) []byte {
	blk, _ := aes.NewCipher(key[:])
	var ctr [16]byte
	binary.BigEndian.PutUint32(ctr[:], count)
	ctr[4] = byte(bearer<<3 | dir<<2)
	out := make([]byte, len(in))
	var ks [16]byte
	for i := range in {
		if i%16 == 0 {
			blk.Encrypt(ks[:], ctr[:])
			for j := 15; j >= 0; j-- {
				ctr[j]++
				if ctr[j] != 0 {
					break
				}
			}
		}
		out[i] = in[i] ^ ks[i%16]
	}
	return out
}

func dbl(b [16]byte) [16]byte {
	var r [16]byte
	for i := 0; i < 16; i++ {
		r[i] = b[i] << 1
		if i < 15 {
			r[i] |= b[i+1] >> 7
		}
	}
	if b[0]&0x80 != 0 {
		r[15] ^= 0x87
	}
	return r
}

// CMAC per RFC 4493
func CMAC(key [16]byte, m []byte) [16]byte {
	blk, _ := aes.NewCipher(key[:])
	var zero, l [16]byte
	blk.Encrypt(l[:], zero[:])
	k1 := dbl(l)
	k2 := dbl(k1)
	n := (len(m) + 15) / 16
	complete := n > 0 && len(m)%16 == 0
	if n == 0 {
		n = 1
	}
	var x [16]byte
	for i := 0; i < n-1; i++ {
		for j := 0; j < 16; j++ {
			x[j] ^= m[16*i+j]
		}
		blk.Encrypt(x[:], x[:])
	}
	var last [16]byte
	rest := m[16*(n-1):]
	if complete {
		copy(last[:], rest)
		for j := range last {
			last[j] ^= k1[j]
		}
	} else {
		copy(last[:], rest)
		last[len(rest)] = 0x80
		for j := range last {
			last[j] ^= k2[j]
		}
	}
	for j := 0; j < 16; j++ {
		x[j] ^= last[j]
	}
	blk.Encrypt(x[:], x[:])
	return x
}

func EIA2(key [16]byte, count uint32, bearer, dir uint32, msg []byte) [4]byte {
	m := make([]byte, 8+len(msg))
	binary.BigEndian.PutUint32(m, count)
	m[4] = byte(bearer<<3 | dir<<2)
	copy(m[8:], msg)
	t := CMAC(key, m)
	return [4]byte{t[0], t[1], t[2], t[3]}
}
