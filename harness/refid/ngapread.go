package refid

import (
	"errors"
	"fmt"
)

// Minimal, tag-independent reader for the NGAP IEs in which the gNB side repeats the PLMN
// identity (TS 38.413 §9.2.6.1 NG SETUP REQUEST, §9.3.1.16 User Location Information,
// §9.3.1.5 Global RAN Node ID, §9.3.3.5 PLMN Identity), ALIGNED PER per X.691. The ASN.1 it
// encodes, typed in from TS 38.413 §9.4:
//
//   NGAP-PDU ::= CHOICE { initiatingMessage, successfulOutcome, unsuccessfulOutcome, ... }
//   InitiatingMessage ::= SEQUENCE { procedureCode INTEGER(0..255), criticality ENUMERATED{reject,ignore,notify}, value OPEN TYPE }
//   <Message> ::= SEQUENCE { protocolIEs SEQUENCE (SIZE(0..65535)) OF ProtocolIE-Field, ... }
//   ProtocolIE-Field ::= SEQUENCE { id INTEGER(0..65535), criticality, value OPEN TYPE }
//   GlobalRANNodeID ::= CHOICE { globalGNB-ID, globalNgENB-ID, globalN3IWF-ID, choice-Extensions }
//   GlobalGNB-ID ::= SEQUENCE { pLMNIdentity OCTET STRING(SIZE(3)), gNB-ID CHOICE { gNB-ID BIT STRING(SIZE(22..32)), choice-Extensions }, iE-Extensions OPTIONAL, ... }
//   SupportedTAList ::= SEQUENCE (SIZE(1..256)) OF SEQUENCE { tAC OCTET STRING(SIZE(3)), broadcastPLMNList, iE-Extensions OPTIONAL, ... }
//   BroadcastPLMNList ::= SEQUENCE (SIZE(1..12)) OF SEQUENCE { pLMNIdentity, tAISliceSupportList, iE-Extensions OPTIONAL, ... }
//   SliceSupportList ::= SEQUENCE (SIZE(1..1024)) OF SEQUENCE { s-NSSAI SEQUENCE { sST OCTET STRING(SIZE(1)), sD OCTET STRING(SIZE(3)) OPTIONAL, iE-Extensions OPTIONAL, ... }, iE-Extensions OPTIONAL, ... }
//   UserLocationInformation ::= CHOICE { userLocationInformationEUTRA, userLocationInformationNR, userLocationInformationN3IWF, choice-Extensions }
//   UserLocationInformationNR ::= SEQUENCE { nR-CGI, tAI, timeStamp OCTET STRING(SIZE(4)) OPTIONAL, iE-Extensions OPTIONAL, ... }
//   NR-CGI ::= SEQUENCE { pLMNIdentity, nRCellIdentity BIT STRING(SIZE(36)), iE-Extensions OPTIONAL, ... }
//   TAI ::= SEQUENCE { pLMNIdentity, tAC, iE-Extensions OPTIONAL, ... }

type bitReader struct {
	b   []byte
	pos int // in bits
	err error
}

func (r *bitReader) bits(n int) uint64 {
	var v uint64
	for i := 0; i < n; i++ {
		if r.pos >= 8*len(r.b) {
			if r.err == nil {
				r.err = errors.New("truncated")
			}
			return 0
		}
		v = v<<1 | uint64(r.b[r.pos/8]>>(7-uint(r.pos%8))&1)
		r.pos++
	}
	return v
}
func (r *bitReader) align() {
	for r.pos%8 != 0 {
		if r.bits(1) != 0 && r.err == nil {
			r.err = errors.New("non-zero padding bit")
		}
	}
}
func (r *bitReader) octets(n int) []byte {
	r.align()
	if r.pos/8+n > len(r.b) {
		if r.err == nil {
			r.err = errors.New("truncated")
		}
		return make([]byte, n)
	}
	o := r.b[r.pos/8 : r.pos/8+n]
	r.pos += 8 * n
	return o
}
func (r *bitReader) length() int { // general length determinant, unfragmented forms only
	r.align()
	a := int(r.bits(8))
	if a&0x80 == 0 {
		return a
	}
	if a&0x40 != 0 {
		if r.err == nil {
			r.err = errors.New("fragmented length not supported by this reader")
		}
		return 0
	}
	return (a&0x3F)<<8 | int(r.bits(8))
}

// NGAPIE is one ProtocolIE-Field of the message's container.
type NGAPIE struct {
	ID          int
	Criticality int
	Value       []byte
}

// NGAPMessage is the outer framing of an NGAP PDU.
type NGAPMessage struct {
	Class         int // 0 initiating message, 1 successful outcome, 2 unsuccessful outcome
	ProcedureCode int
	Criticality   int
	IEs           []NGAPIE
}

// ReadNGAP walks the PDU framing and the protocol IE container.
func ReadNGAP(b []byte) (m NGAPMessage, err error) {
	r := &bitReader{b: b}
	if r.bits(1) != 0 {
		return m, errors.New("NGAP-PDU extension alternative")
	}
	m.Class = int(r.bits(2))
	r.align()
	m.ProcedureCode = int(r.bits(8))
	m.Criticality = int(r.bits(2))
	n := r.length()
	body := r.octets(n)
	if r.err != nil {
		return m, r.err
	}
	if r.pos != 8*len(b) {
		return m, fmt.Errorf("%d trailing octets after the PDU", len(b)-r.pos/8)
	}
	q := &bitReader{b: body}
	if q.bits(1) != 0 {
		return m, errors.New("message extension bit set")
	}
	q.align()
	cnt := int(q.bits(16))
	for i := 0; i < cnt; i++ {
		var ie NGAPIE
		q.align()
		ie.ID = int(q.bits(16))
		ie.Criticality = int(q.bits(2))
		l := q.length()
		ie.Value = q.octets(l)
		if q.err != nil {
			return m, fmt.Errorf("IE %d: %v", i, q.err)
		}
		m.IEs = append(m.IEs, ie)
	}
	if q.pos != 8*len(body) {
		return m, errors.New("trailing octets after the IE container")
	}
	return m, nil
}

func (m NGAPMessage) IE(id int) ([]byte, bool) {
	for _, ie := range m.IEs {
		if ie.ID == id {
			return ie.Value, true
		}
	}
	return nil, false
}

// NGAP protocol IE ids (TS 38.413 §9.4.7) used here.
const (
	IDGlobalRANNodeID         = 27
	IDSupportedTAList         = 102
	IDUserLocationInformation = 121
	IDRANNodeName             = 82
	IDNASPDU                  = 38
	IDRANUENGAPID             = 85
	IDAMFUENGAPID             = 10
)

// GlobalGNBID reads a GlobalRANNodeID value holding a globalGNB-ID.
func GlobalGNBID(v []byte) (plmn []byte, gnbID []byte, bitLen int, err error) {
	r := &bitReader{b: v}
	if r.bits(2) != 0 {
		return nil, nil, 0, errors.New("GlobalRANNodeID is not globalGNB-ID")
	}
	if r.bits(1) != 0 || r.bits(1) != 0 {
		return nil, nil, 0, errors.New("GlobalGNB-ID with extension / iE-Extensions")
	}
	plmn = r.octets(3)
	if r.bits(1) != 0 {
		return nil, nil, 0, errors.New("GNB-ID choice-Extensions")
	}
	bitLen = 22 + int(r.bits(4))
	if bitLen > 32 {
		return nil, nil, 0, errors.New("gNB-ID longer than 32 bits")
	}
	gnbID = r.octets((bitLen + 7) / 8)
	if r.err != nil {
		return nil, nil, 0, r.err
	}
	if r.pos != 8*len(v) {
		return nil, nil, 0, errors.New("trailing octets in GlobalRANNodeID")
	}
	return
}

// SupportedTA is one item of the SupportedTAList with the PLMNs it broadcasts.
type SupportedTA struct {
	TAC   []byte
	PLMNs [][]byte
}

func SupportedTAList(v []byte) (out []SupportedTA, err error) {
	r := &bitReader{b: v}
	r.align()
	n := int(r.bits(8)) + 1
	for i := 0; i < n; i++ {
		var ta SupportedTA
		if r.bits(1) != 0 || r.bits(1) != 0 {
			return nil, errors.New("SupportedTAItem with extension / iE-Extensions")
		}
		ta.TAC = r.octets(3)
		np := int(r.bits(4)) + 1
		for j := 0; j < np; j++ {
			if r.bits(1) != 0 || r.bits(1) != 0 {
				return nil, errors.New("BroadcastPLMNItem with extension / iE-Extensions")
			}
			ta.PLMNs = append(ta.PLMNs, r.octets(3))
			r.align()
			ns := int(r.bits(16)) + 1
			for k := 0; k < ns; k++ {
				if r.bits(1) != 0 || r.bits(1) != 0 {
					return nil, errors.New("SliceSupportItem with extension / iE-Extensions")
				}
				if r.bits(1) != 0 {
					return nil, errors.New("S-NSSAI extension")
				}
				hasSD := r.bits(1) == 1
				if r.bits(1) != 0 {
					return nil, errors.New("S-NSSAI iE-Extensions")
				}
				r.bits(8) // sST
				if hasSD {
					r.octets(3)
				}
			}
		}
		if r.err != nil {
			return nil, r.err
		}
		out = append(out, ta)
	}
	r.align()
	if r.pos != 8*len(v) {
		return nil, errors.New("trailing octets in SupportedTAList")
	}
	return out, nil
}

// ULINR reads a UserLocationInformation value holding userLocationInformationNR.
func ULINR(v []byte) (cgiPLMN, cell, taiPLMN, tac []byte, err error) {
	r := &bitReader{b: v}
	if r.bits(2) != 1 {
		return nil, nil, nil, nil, errors.New("UserLocationInformation is not NR")
	}
	if r.bits(1) != 0 {
		return nil, nil, nil, nil, errors.New("UserLocationInformationNR extension")
	}
	hasTS := r.bits(1) == 1
	if r.bits(1) != 0 {
		return nil, nil, nil, nil, errors.New("UserLocationInformationNR iE-Extensions")
	}
	if r.bits(1) != 0 || r.bits(1) != 0 {
		return nil, nil, nil, nil, errors.New("NR-CGI extension / iE-Extensions")
	}
	cgiPLMN = r.octets(3)
	r.align()
	c := make([]byte, 5)
	for i := 0; i < 36; i++ {
		c[i/8] |= byte(r.bits(1)) << (7 - uint(i%8))
	}
	cell = c
	if r.bits(1) != 0 || r.bits(1) != 0 {
		return nil, nil, nil, nil, errors.New("TAI extension / iE-Extensions")
	}
	taiPLMN = r.octets(3)
	tac = r.octets(3)
	if hasTS {
		r.octets(4)
	}
	if r.err != nil {
		return nil, nil, nil, nil, r.err
	}
	if r.pos != 8*len(v) {
		return nil, nil, nil, nil, errors.New("trailing octets in UserLocationInformation")
	}
	return
}
