package refid

import (
	"errors"
	"fmt"
)

// Hand-written builder (and strict table-driven parser) for what the SMF/AMF put into the
// NAS-PDU of a PDU SESSION RESOURCE SETUP REQUEST item:
//
//   security protected 5GS NAS message      TS 24.501 §9.1.1: EPD 7E | security header type | MAC (4) | SQN (1)
//     DL NAS TRANSPORT                      §8.2.11: 7E | 00 | 68 | payload container type (+spare half octet)
//                                                    | payload container LV-E | optional IEs
//       PDU SESSION ESTABLISHMENT ACCEPT    §8.3.2:  2E | PDU session id | PTI | C2
//                                                    | selected SSC mode ‖ selected PDU session type (1 octet)
//                                                    | authorized QoS rules LV-E | session AMBR LV (len 6)
//                                                    | optional IEs of Table 8.3.2.1.1

type IEFormat int

const (
	FmtTV1  IEFormat = iota // type 1: IEI in bits 8..5, value in bits 4..1
	FmtTV                   // type 3: IEI + fixed-length value
	FmtTLV                  // type 4: IEI + 1 length octet + value
	FmtTLVE                 // type 6: IEI + 2 length octets + value
)

// IESpec is one row of a TS 24.501 message table. Lengths are those of the *value* part.
type IESpec struct {
	IEI     byte
	Name    string
	Format  IEFormat
	MinVal  int
	MaxVal  int
	Release int // first release whose table has the row (15 or 16)
}

// AcceptTable is Table 8.3.2.1.1 (PDU SESSION ESTABLISHMENT ACCEPT), optional part, in table
// order. Rows up to DNN are Release 15; the rest were added in Release 16.
var AcceptTable = []IESpec{
	{0x59, "5GSM cause", FmtTV, 1, 1, 15},
	{0x29, "PDU address", FmtTLV, 5, 13, 15},
	{0x56, "RQ timer value", FmtTV, 1, 1, 15},
	{0x22, "S-NSSAI", FmtTLV, 1, 8, 15},
	{0x80, "Always-on PDU session indication", FmtTV1, 0, 0, 15},
	{0x75, "Mapped EPS bearer contexts", FmtTLVE, 4, 65535, 15},
	{0x78, "EAP message", FmtTLVE, 4, 1500, 15},
	{0x79, "Authorized QoS flow descriptions", FmtTLVE, 3, 65535, 15},
	{0x7B, "Extended protocol configuration options", FmtTLVE, 1, 65535, 15},
	{0x25, "DNN", FmtTLV, 1, 100, 15},
	{0x17, "5GSM network feature support", FmtTLV, 1, 13, 16},
	{0x18, "Serving PLMN rate control", FmtTLV, 2, 2, 16},
	{0x77, "ATSSS container", FmtTLVE, 0, 65535, 16},
	{0xC0, "Control plane only indication", FmtTV1, 0, 0, 16},
	{0x66, "IP header compression configuration", FmtTLV, 3, 255, 16},
	{0x1F, "Ethernet header compression configuration", FmtTLV, 1, 1, 16},
}

// DLNASTransportTable is Table 8.2.11.1.1, optional part (after the payload container).
var DLNASTransportTable = []IESpec{
	{0x12, "PDU session ID", FmtTV, 1, 1, 15},
	{0x24, "Additional information", FmtTLV, 1, 255, 15},
	{0x58, "5GMM cause", FmtTV, 1, 1, 15},
	{0x37, "Back-off timer value", FmtTLV, 1, 1, 15},
	{0x3A, "Lower bound timer value", FmtTLV, 1, 1, 16},
}

func posOf(table []IESpec, first byte) int {
	for i, s := range table {
		if s.Format == FmtTV1 {
			if first&0xF0 == s.IEI {
				return i
			}
		} else if first == s.IEI {
			return i
		}
	}
	return -1
}

func specOf(table []IESpec, first byte) (IESpec, bool) {
	if i := posOf(table, first); i >= 0 {
		return table[i], true
	}
	return IESpec{}, false
}

// OptIE is one optional IE instance. For FmtTV1 Value is one octet whose low nibble is used.
type OptIE struct {
	IEI   byte
	Value []byte
}

func encodeIE(table []IESpec, ie OptIE) ([]byte, error) {
	s, ok := specOf(table, ie.IEI)
	if !ok {
		return nil, fmt.Errorf("IEI %02X is not in the table", ie.IEI)
	}
	if s.Format != FmtTV1 && (len(ie.Value) < s.MinVal || len(ie.Value) > s.MaxVal) {
		return nil, fmt.Errorf("%s: value length %d outside %d..%d", s.Name, len(ie.Value), s.MinVal, s.MaxVal)
	}
	switch s.Format {
	case FmtTV1:
		v := byte(0)
		if len(ie.Value) > 0 {
			v = ie.Value[0] & 0x0F
		}
		return []byte{s.IEI | v}, nil
	case FmtTV:
		return append([]byte{s.IEI}, ie.Value...), nil
	case FmtTLV:
		return append([]byte{s.IEI, byte(len(ie.Value))}, ie.Value...), nil
	default:
		return append([]byte{s.IEI, byte(len(ie.Value) >> 8), byte(len(ie.Value))}, ie.Value...), nil
	}
}

func encodeIEs(table []IESpec, ies []OptIE, enforceOrder bool) ([]byte, error) {
	var out []byte
	last := -1
	for _, ie := range ies {
		b, err := encodeIE(table, ie)
		if err != nil {
			return nil, err
		}
		if enforceOrder {
			pos := posOf(table, ie.IEI)
			if pos <= last {
				return nil, fmt.Errorf("IE %02X out of table order or repeated", ie.IEI)
			}
			last = pos
		}
		out = append(out, b...)
	}
	return out, nil
}

// Accept is a PDU SESSION ESTABLISHMENT ACCEPT.
type Accept struct {
	PSI, PTI    byte
	SessionType byte   // selected PDU session type, 3 bits (1 = IPv4)
	SSCMode     byte   // selected SSC mode, 3 bits
	QoSRules    []byte // authorized QoS rules, value part (LV-E)
	AMBR        []byte // session-AMBR value part: unit DL, value DL (2), unit UL, value UL (2)
	IEs         []OptIE
}

// PDUAddressIPv4 is the value part of a PDU address IE of type IPv4 (TS 24.501 §9.11.4.10).
func PDUAddressIPv4(a []byte) []byte { return append([]byte{0x01}, a[:4]...) }

func (a Accept) Encode() ([]byte, error) {
	if len(a.AMBR) != 6 {
		return nil, errors.New("session-AMBR value must be 6 octets")
	}
	if len(a.QoSRules) > 65535 {
		return nil, errors.New("QoS rules too long")
	}
	out := []byte{0x2E, a.PSI, a.PTI, 0xC2, (a.SSCMode&7)<<4 | a.SessionType&7}
	out = append(out, byte(len(a.QoSRules)>>8), byte(len(a.QoSRules)))
	out = append(out, a.QoSRules...)
	out = append(out, 6)
	out = append(out, a.AMBR...)
	opt, err := encodeIEs(AcceptTable, a.IEs, true)
	if err != nil {
		return nil, err
	}
	return append(out, opt...), nil
}

// DLNASTransport builds the plain DL NAS TRANSPORT around a payload container.
func DLNASTransport(containerType byte, container []byte, opt []OptIE) ([]byte, error) {
	if len(container) < 1 || len(container) > 65535 {
		return nil, fmt.Errorf("payload container length %d", len(container))
	}
	out := []byte{0x7E, 0x00, 0x68, containerType & 0x0F, byte(len(container) >> 8), byte(len(container))}
	out = append(out, container...)
	o, err := encodeIEs(DLNASTransportTable, opt, true)
	if err != nil {
		return nil, err
	}
	return append(out, o...), nil
}

// Protect prepends the 7-octet security header. With the null ciphering algorithm (the only one
// the emulator advertises) the protected payload is the plain message itself.
func Protect(headerType byte, mac []byte, sqn byte, plain []byte) []byte {
	out := []byte{0x7E, headerType & 0x0F}
	out = append(out, mac[:4]...)
	out = append(out, sqn)
	return append(out, plain...)
}

// ParsedAccept is what the strict parser recovers.
type ParsedAccept struct {
	PSI, PTI    byte
	QoSRules    []byte
	AMBR        []byte
	IEs         []OptIE
	PDUAddrType byte
	PDUAddrIPv4 []byte
	TransportIE []OptIE
}

func parseIEs(table []IESpec, b []byte) ([]OptIE, error) {
	var out []OptIE
	for len(b) > 0 {
		s, ok := specOf(table, b[0])
		if !ok {
			return out, fmt.Errorf("unknown IEI %02X", b[0])
		}
		var val []byte
		var n int
		switch s.Format {
		case FmtTV1:
			val, n = []byte{b[0] & 0x0F}, 1
		case FmtTV:
			n = 1 + s.MinVal
			if len(b) < n {
				return out, errors.New("truncated TV")
			}
			val = b[1:n]
		case FmtTLV:
			if len(b) < 2 || len(b) < 2+int(b[1]) {
				return out, errors.New("truncated TLV")
			}
			n = 2 + int(b[1])
			val = b[2:n]
		default:
			if len(b) < 3 || len(b) < 3+(int(b[1])<<8|int(b[2])) {
				return out, errors.New("truncated TLV-E")
			}
			n = 3 + (int(b[1])<<8 | int(b[2]))
			val = b[3:n]
		}
		if s.Format != FmtTV1 && (len(val) < s.MinVal || len(val) > s.MaxVal) {
			return out, fmt.Errorf("%s: value length %d", s.Name, len(val))
		}
		id := s.IEI
		out = append(out, OptIE{IEI: id, Value: append([]byte{}, val...)})
		b = b[n:]
	}
	return out, nil
}

// ParseProtectedAccept is the specification-side extractor: it follows the formats of the tables
// and nothing else.
func ParseProtectedAccept(b []byte) (p ParsedAccept, err error) {
	if len(b) < 7+6 || b[0] != 0x7E {
		return p, errors.New("no security header")
	}
	pl := b[7:]
	if pl[0] != 0x7E || pl[1] != 0 || pl[2] != 0x68 {
		return p, errors.New("not a plain DL NAS TRANSPORT")
	}
	n := int(pl[4])<<8 | int(pl[5])
	if len(pl) < 6+n {
		return p, errors.New("payload container truncated")
	}
	c := pl[6 : 6+n]
	if p.TransportIE, err = parseIEs(DLNASTransportTable, pl[6+n:]); err != nil {
		return p, err
	}
	if len(c) < 7 || c[0] != 0x2E || c[3] != 0xC2 {
		return p, errors.New("not a PDU SESSION ESTABLISHMENT ACCEPT")
	}
	p.PSI, p.PTI = c[1], c[2]
	q := int(c[5])<<8 | int(c[6])
	if len(c) < 7+q+7 {
		return p, errors.New("QoS rules / AMBR truncated")
	}
	p.QoSRules = c[7 : 7+q]
	if c[7+q] != 6 {
		return p, errors.New("session-AMBR length is not 6")
	}
	p.AMBR = c[7+q+1 : 7+q+7]
	if p.IEs, err = parseIEs(AcceptTable, c[7+q+7:]); err != nil {
		return p, err
	}
	for _, ie := range p.IEs {
		if ie.IEI == 0x29 {
			p.PDUAddrType = ie.Value[0] & 7
			if p.PDUAddrType == 1 && len(ie.Value) == 5 {
				p.PDUAddrIPv4 = ie.Value[1:5]
			}
		}
	}
	return p, nil
}
