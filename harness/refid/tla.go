package refid

import (
	"fmt"
	"strings"
)

// TLA is the NGAP TransportLayerAddress BIT STRING of TS 38.414 §5.1 / TS 38.413 §9.3.2.4:
// 32 bits = IPv4, 128 bits = IPv6, 160 bits = IPv4 followed by IPv6.
func TLA(v4, v6 []byte) (octets []byte, bits int) {
	if v4 != nil {
		octets = append(octets, v4[:4]...)
	}
	if v6 != nil {
		octets = append(octets, v6[:16]...)
	}
	return octets, 8 * len(octets)
}

// FormatIPv4 is dotted decimal without leading zeros.
func FormatIPv4(a []byte) string {
	return fmt.Sprintf("%d.%d.%d.%d", a[0], a[1], a[2], a[3])
}

func groups(a []byte) (g [8]uint16) {
	for i := 0; i < 8; i++ {
		g[i] = uint16(a[2*i])<<8 | uint16(a[2*i+1])
	}
	return
}

func hex(gs []uint16) string {
	p := make([]string, len(gs))
	for i, x := range gs {
		p[i] = fmt.Sprintf("%x", x)
	}
	return strings.Join(p, ":")
}

// FormatIPv6 is the canonical text form of RFC 5952 §4: lower-case hex, no leading zeros,
// the longest run of two or more zero groups (the first one on a tie) replaced by "::".
func FormatIPv6(a []byte) string {
	g := groups(a)
	bestAt, bestLen := -1, 0
	for i := 0; i < 8; {
		if g[i] != 0 {
			i++
			continue
		}
		j := i
		for j < 8 && g[j] == 0 {
			j++
		}
		if j-i > bestLen && j-i >= 2 {
			bestAt, bestLen = i, j-i
		}
		i = j
	}
	if bestAt < 0 {
		return hex(g[:])
	}
	return hex(g[:bestAt]) + "::" + hex(g[bestAt+bestLen:])
}

// IPv6 text variants that RFC 4291 §2.2 allows but RFC 5952 does not recommend; valid inputs
// of a text→binary conversion. style: 0 full lower (no compression, 4 digits), 1 full upper,
// 2 no compression without leading zeros, 3 canonical but upper case, 4 "::" in place of the FIRST run of zero
// groups, 5 in place of the LAST run — "::" may stand for one or more groups (RFC 4291 §2.2 item 2), so a single
// zero group at either end gives a text with eight colons — 6 the last 32 bits in dotted-decimal (item 3).
func FormatIPv6Variant(a []byte, style int) string {
	g := groups(a)
	p := make([]string, 8)
	switch style {
	case 4, 5:
		from, n := -1, 0
		for i := 0; i < 8; i++ {
			if g[i] != 0 {
				continue
			}
			j := i
			for j < 8 && g[j] == 0 {
				j++
			}
			if from < 0 || style == 5 {
				from, n = i, j-i
			}
			i = j
		}
		if from < 0 {
			return FormatIPv6Variant(a, 2)
		}
		return hex(g[:from]) + "::" + hex(g[from+n:])
	case 6:
		for i := 0; i < 6; i++ {
			p[i] = fmt.Sprintf("%x", g[i])
		}
		return strings.Join(p[:6], ":") + ":" + FormatIPv4(a[12:16])
	case 0:
		for i := range p {
			p[i] = fmt.Sprintf("%04x", g[i])
		}
	case 1:
		for i := range p {
			p[i] = fmt.Sprintf("%04X", g[i])
		}
	case 2:
		for i := range p {
			p[i] = fmt.Sprintf("%x", g[i])
		}
	default:
		return strings.ToUpper(FormatIPv6(a))
	}
	return strings.Join(p, ":")
}

// IsIPv4Mapped reports ::ffff:a.b.c.d (RFC 4291 §2.5.5.2).
func IsIPv4Mapped(a []byte) bool {
	for i := 0; i < 10; i++ {
		if a[i] != 0 {
			return false
		}
	}
	return a[10] == 0xff && a[11] == 0xff
}
