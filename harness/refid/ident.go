// Package refid holds the reference codings used as oracles by the pd checks (C11, C12, C16,
// C17). Everything here is written from the 3GPP / IETF texts with the standard library only;
// it must never import free5gclib, tglib or stgutg.
//
//   PLMN identity            TS 24.501 §9.11.3.4 fig. 9.11.3.4.3 octets 5..7, TS 38.413 §9.3.3.5
//   SUCI, null scheme        TS 24.501 §9.11.3.4 (fig. 9.11.3.4.3 / 9.11.3.4.4), TS 23.003 §2.2B
//   S-NSSAI                  TS 24.501 §9.11.2.8
//   AMF identifier           TS 23.003 §2.10.1 (region 8 | set 10 | pointer 6 bits)
//   transport layer address  TS 38.414 §5.1 / TS 38.413 §9.3.2.4, text forms RFC 4291 / RFC 5952
//   PCO                      TS 24.008 §10.5.6.3
//   DNN                      TS 23.003 §9.1 (labels, RFC 1035 style)
package refid

import (
	"errors"
	"fmt"
)

func digit(c byte) (byte, error) {
	if c < '0' || c > '9' {
		return 0, fmt.Errorf("not a decimal digit: %q", c)
	}
	return c - '0', nil
}

func allDigits(s string) bool {
	for i := 0; i < len(s); i++ {
		if s[i] < '0' || s[i] > '9' {
			return false
		}
	}
	return true
}

// EncodePLMN returns the three PLMN octets:
//
//	octet 1 = MCC digit 2 << 4 | MCC digit 1
//	octet 2 = MNC digit 3 << 4 | MCC digit 3      (MNC digit 3 = 1111 for a 2-digit MNC)
//	octet 3 = MNC digit 2 << 4 | MNC digit 1
func EncodePLMN(mcc, mnc string) ([]byte, error) {
	if len(mcc) != 3 || (len(mnc) != 2 && len(mnc) != 3) || !allDigits(mcc) || !allDigits(mnc) {
		return nil, fmt.Errorf("bad MCC/MNC %q/%q", mcc, mnc)
	}
	d := func(s string, i int) byte { return s[i] - '0' }
	m3 := byte(0xF)
	if len(mnc) == 3 {
		m3 = d(mnc, 2)
	}
	return []byte{d(mcc, 1)<<4 | d(mcc, 0), m3<<4 | d(mcc, 2), d(mnc, 1)<<4 | d(mnc, 0)}, nil
}

// DecodePLMN inverts EncodePLMN and refuses anything that is not a BCD PLMN.
func DecodePLMN(b []byte) (mcc, mnc string, err error) {
	if len(b) != 3 {
		return "", "", errors.New("PLMN is not 3 octets")
	}
	mc := []byte{b[0] & 0xF, b[0] >> 4, b[1] & 0xF}
	mn := []byte{b[2] & 0xF, b[2] >> 4}
	if b[1]>>4 != 0xF {
		mn = append(mn, b[1]>>4)
	}
	for _, x := range append(append([]byte{}, mc...), mn...) {
		if x > 9 {
			return "", "", fmt.Errorf("non-decimal digit %X in PLMN %x", x, b)
		}
	}
	for _, x := range mc {
		mcc += string(rune('0' + x))
	}
	for _, x := range mn {
		mnc += string(rune('0' + x))
	}
	return
}

// SUCI is the decoded content of a 5GS mobile identity of type SUCI with SUPI format IMSI.
type SUCI struct {
	TypeOfIdentity   byte   // 1 = SUCI
	SupiFormat       byte   // 0 = IMSI
	SpareBits        byte   // bits 8 and 4 of octet 4 (must be 0)
	MCC, MNC         string // decimal digits
	RoutingIndicator string // 1..4 decimal digits
	SchemeID         byte   // 0 = null scheme
	SchemeSpare      byte   // bits 8..5 of the protection scheme octet (must be 0)
	KeyID            byte   // home network public key identifier
	MSIN             string // null scheme: the scheme output is the BCD MSIN
	OddFiller        bool   // last octet carried the 1111 filler in bits 8..5
}

// EncodeSUCINull builds the 5GS mobile identity *contents* (from octet 4 on, i.e. without IEI
// and length) of a null-scheme SUCI for IMSI = MCC‖MNC‖MSIN, routing indicator "0"
// (TS 23.003 §2.2B: a single digit 0 when no routing indicator is provisioned), key id 0.
func EncodeSUCINull(mcc, mnc, msin string) ([]byte, error) {
	plmn, err := EncodePLMN(mcc, mnc)
	if err != nil {
		return nil, err
	}
	if len(msin) == 0 || !allDigits(msin) {
		return nil, fmt.Errorf("bad MSIN %q", msin)
	}
	out := []byte{0x01} // spare 0 | SUPI format 000 (IMSI) | spare 0 | type of identity 001 (SUCI)
	out = append(out, plmn...)
	out = append(out, 0xF0, 0xFF) // routing indicator: digit1 = 0, digits 2..4 = 1111
	out = append(out, 0x00)       // spare 0000 | protection scheme id 0000
	out = append(out, 0x00)       // home network public key identifier
	for i := 0; i < len(msin); i += 2 {
		lo := msin[i] - '0'
		hi := byte(0xF)
		if i+1 < len(msin) {
			hi = msin[i+1] - '0'
		}
		out = append(out, hi<<4|lo)
	}
	return out, nil
}

// DecodeSUCI parses 5GS mobile identity contents of type SUCI / SUPI format IMSI.
func DecodeSUCI(b []byte) (s SUCI, err error) {
	if len(b) < 9 {
		return s, fmt.Errorf("SUCI too short: %d octets", len(b))
	}
	s.TypeOfIdentity = b[0] & 0x07
	s.SupiFormat = (b[0] >> 4) & 0x07
	s.SpareBits = b[0] & 0x88
	if s.MCC, s.MNC, err = DecodePLMN(b[1:4]); err != nil {
		return s, err
	}
	// routing indicator: digit 1 = low nibble of octet 8, digit 2 = high nibble, digit 3/4 in octet 9
	rn := []byte{b[4] & 0xF, b[4] >> 4, b[5] & 0xF, b[5] >> 4}
	end := false
	for i, x := range rn {
		switch {
		case x == 0xF:
			if i == 0 {
				return s, errors.New("routing indicator has no digit")
			}
			end = true
		case x > 9:
			return s, fmt.Errorf("routing indicator digit %X", x)
		case end:
			return s, errors.New("routing indicator digit after filler")
		default:
			s.RoutingIndicator += string(rune('0' + x))
		}
	}
	s.SchemeID = b[6] & 0x0F
	s.SchemeSpare = b[6] >> 4
	s.KeyID = b[7]
	out := b[8:]
	for i, x := range out {
		lo, hi := x&0xF, x>>4
		if lo > 9 {
			return s, fmt.Errorf("MSIN digit %X in octet %d", lo, i)
		}
		s.MSIN += string(rune('0' + lo))
		if hi == 0xF {
			if i != len(out)-1 {
				return s, errors.New("MSIN filler before the last octet")
			}
			s.OddFiller = true
		} else if hi > 9 {
			return s, fmt.Errorf("MSIN digit %X in octet %d", hi, i)
		} else {
			s.MSIN += string(rune('0' + hi))
		}
	}
	return s, nil
}

// EncodeSNSSAI returns the S-NSSAI *value part including its length octet* as
// nasConvert.SnssaiToNas produces it: length (1 = SST, 4 = SST+SD), SST, SD.
func EncodeSNSSAI(sst byte, sd []byte) []byte {
	if sd == nil {
		return []byte{1, sst}
	}
	return append([]byte{4, sst}, sd[:3]...)
}

// SplitAMFID splits the 24-bit AMF identifier: AMF region id (8) | AMF set id (10) | AMF pointer (6).
func SplitAMFID(id uint32) (region uint8, set uint16, pointer uint8) {
	return uint8(id >> 16), uint16((id >> 6) & 0x3FF), uint8(id & 0x3F)
}

// PCOUnit is one protocol / container entry of the (extended) protocol configuration options.
type PCOUnit struct {
	ID       uint16
	Contents []byte
}

// EncodePCO: octet 3 = ext 1 | spare 0000 | configuration protocol 000, then per unit id (2),
// length (1), contents.
func EncodePCO(units []PCOUnit) ([]byte, error) {
	out := []byte{0x80}
	for _, u := range units {
		if len(u.Contents) > 255 {
			return nil, errors.New("PCO unit longer than 255 octets")
		}
		out = append(out, byte(u.ID>>8), byte(u.ID), byte(len(u.Contents)))
		out = append(out, u.Contents...)
	}
	return out, nil
}

// ParsePCO is the strict inverse of EncodePCO.
func ParsePCO(b []byte) (cfgProto byte, units []PCOUnit, err error) {
	if len(b) < 1 {
		return 0, nil, errors.New("empty PCO")
	}
	if b[0]&0x80 == 0 || b[0]&0x78 != 0 {
		return 0, nil, fmt.Errorf("PCO octet 3 = %02x: ext must be 1, spare 0", b[0])
	}
	cfgProto = b[0] & 7
	b = b[1:]
	for len(b) > 0 {
		if len(b) < 3 {
			return cfgProto, units, errors.New("truncated PCO unit header")
		}
		n := int(b[2])
		if len(b) < 3+n {
			return cfgProto, units, errors.New("truncated PCO unit contents")
		}
		units = append(units, PCOUnit{ID: uint16(b[0])<<8 | uint16(b[1]), Contents: append([]byte{}, b[3:3+n]...)})
		b = b[3+n:]
	}
	return cfgProto, units, nil
}

// EncodeDNNLabels codes a dotted DNN as length-prefixed labels (TS 23.003 §9.1).
func EncodeDNNLabels(dnn string) ([]byte, error) {
	var out []byte
	start := 0
	for i := 0; i <= len(dnn); i++ {
		if i == len(dnn) || dnn[i] == '.' {
			l := i - start
			if l == 0 || l > 63 {
				return nil, fmt.Errorf("label length %d", l)
			}
			out = append(out, byte(l))
			out = append(out, dnn[start:i]...)
			start = i + 1
		}
	}
	if len(out) > 100 {
		return nil, errors.New("DNN longer than 100 octets")
	}
	return out, nil
}
