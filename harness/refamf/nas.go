package refamf

// Hand-written TS 24.501 reader for the uplink NAS messages on the emulator's path and
// hand-written builders for the downlink messages the reference AMF/SMF answers with.
// Nothing here uses the NAS library of the code under test.

import (
	"encoding/hex"
	"fmt"
	"strings"
)

// 5GMM message types (TS 24.501 Table 9.7.1)
const (
	MTRegistrationRequest   = 0x41
	MTRegistrationAccept    = 0x42
	MTRegistrationComplete  = 0x43
	MTDeregRequestUEOrig    = 0x45
	MTDeregAcceptUEOrig     = 0x46
	MTServiceRequest        = 0x4c
	MTServiceAccept         = 0x4e
	MTConfigUpdateCommand   = 0x54
	MTAuthenticationRequest = 0x56
	MTAuthenticationResp    = 0x57
	MTSecurityModeCommand   = 0x5d
	MTSecurityModeComplete  = 0x5e
	MTULNASTransport        = 0x67
	MTDLNASTransport        = 0x68
	// 5GSM (Table 9.7.2)
	MTPDUSessionEstRequest     = 0xc1
	MTPDUSessionEstAccept      = 0xc2
	MTPDUSessionReleaseRequest = 0xd1
	MTPDUSessionReleaseCommand = 0xd3
	MTPDUSessionReleaseCompl   = 0xd4
)

var mtNames = map[int]string{
	0x41: "RegistrationRequest", 0x42: "RegistrationAccept", 0x43: "RegistrationComplete", 0x45: "DeregistrationRequest(UE-orig)",
	0x46: "DeregistrationAccept(UE-orig)", 0x4c: "ServiceRequest", 0x4e: "ServiceAccept", 0x54: "ConfigurationUpdateCommand",
	0x56: "AuthenticationRequest", 0x57: "AuthenticationResponse", 0x5d: "SecurityModeCommand", 0x5e: "SecurityModeComplete",
	0x67: "ULNASTransport", 0x68: "DLNASTransport", 0xc1: "PDUSessionEstablishmentRequest", 0xc2: "PDUSessionEstablishmentAccept",
	0xd1: "PDUSessionReleaseRequest", 0xd3: "PDUSessionReleaseCommand", 0xd4: "PDUSessionReleaseComplete",
}

func MTName(t int) string {
	if n, ok := mtNames[t]; ok {
		return n
	}
	return fmt.Sprintf("message-type-0x%02x", t)
}

// Envelope is the outer layer of a NAS PDU (TS 24.501 9.1.1): plain 5GMM, or
// security-protected 5GS NAS message {EPD, security header type, MAC, SQN, plain message}.
type Envelope struct {
	HeaderType int // 0 plain, 1..4
	MAC        [4]byte
	SQN        byte
	Protected  []byte // SQN || plain message: the input of the integrity algorithm
	Plain      []byte // the inner plain NAS message
}

const EPD5GMM = 0x7e
const EPD5GSM = 0x2e

func ParseEnvelope(b []byte) (*Envelope, error) {
	if len(b) < 3 {
		return nil, fmt.Errorf("NAS PDU of %d octets", len(b))
	}
	if b[0] != EPD5GMM {
		return nil, fmt.Errorf("NAS PDU: extended protocol discriminator 0x%02x, expected 5GMM 0x7e", b[0])
	}
	if b[1]&0xf0 != 0 {
		return nil, fmt.Errorf("NAS PDU: spare half octet 0x%x not zero", b[1]>>4)
	}
	e := &Envelope{HeaderType: int(b[1] & 0x0f)}
	if e.HeaderType == 0 {
		e.Plain = b
		return e, nil
	}
	if e.HeaderType > 4 {
		return nil, fmt.Errorf("NAS PDU: security header type %d is not defined", e.HeaderType)
	}
	if len(b) < 7+3 {
		return nil, fmt.Errorf("security protected NAS PDU of %d octets", len(b))
	}
	copy(e.MAC[:], b[2:6])
	e.SQN = b[6]
	e.Protected = b[6:]
	e.Plain = b[7:]
	return e, nil
}

// OptIE is one optional information element as found on the wire.
type OptIE struct {
	IEI   int // for half-octet IEs: the IEI nibble << 4
	Value []byte
	Half  bool
}

// ieFormat gives the per-message table of the optional IEs that are NOT self-describing
// by the general rule of TS 24.007 11.2.4 (bit 8 set: half-octet TV; 0x70..0x7f: TLV-E;
// otherwise TLV): the type 3 (TV, fixed length) elements, value = total length.
type tvTable map[int]int

// walkOptional parses the optional part of a message.
func walkOptional(b []byte, tv tvTable) ([]OptIE, error) {
	var out []OptIE
	for i := 0; i < len(b); {
		iei := int(b[i])
		switch {
		case iei&0x80 != 0:
			out = append(out, OptIE{IEI: iei & 0xf0, Value: []byte{b[i] & 0x0f}, Half: true})
			i++
		case tv[iei] > 0:
			n := tv[iei]
			if i+n > len(b) {
				return out, fmt.Errorf("optional IE 0x%02x (TV, %d octets) truncated", iei, n)
			}
			out = append(out, OptIE{IEI: iei, Value: b[i+1 : i+n]})
			i += n
		case iei >= 0x70:
			if i+3 > len(b) {
				return out, fmt.Errorf("optional IE 0x%02x (TLV-E) truncated", iei)
			}
			n := int(b[i+1])<<8 | int(b[i+2])
			if i+3+n > len(b) {
				return out, fmt.Errorf("optional IE 0x%02x (TLV-E) length %d beyond the message", iei, n)
			}
			out = append(out, OptIE{IEI: iei, Value: b[i+3 : i+3+n]})
			i += 3 + n
		default:
			if i+2 > len(b) {
				return out, fmt.Errorf("optional IE 0x%02x (TLV) truncated", iei)
			}
			n := int(b[i+1])
			if i+2+n > len(b) {
				return out, fmt.Errorf("optional IE 0x%02x (TLV) length %d beyond the message", iei, n)
			}
			out = append(out, OptIE{IEI: iei, Value: b[i+2 : i+2+n]})
			i += 2 + n
		}
	}
	return out, nil
}

func findIE(l []OptIE, iei int) *OptIE {
	for i := range l {
		if l[i].IEI == iei {
			return &l[i]
		}
	}
	return nil
}

// MobileIdentity is a decoded 5GS mobile identity (TS 24.501 9.11.3.4).
type MobileIdentity struct {
	Type int // 1 SUCI, 2 5G-GUTI, 3 IMEI, 4 5G-S-TMSI, 5 IMEISV, 0 none
	Raw  []byte
	// SUCI
	SUPIFormat int
	PLMN       [3]byte
	MCC, MNC   string
	RoutingInd string
	Scheme     int
	HNKeyID    int
	MSIN       string // null scheme: scheme output as BCD digits
	// 5G-GUTI / 5G-S-TMSI
	AMFRegion  byte
	AMFSet     uint16
	AMFPointer byte
	TMSI       [4]byte
}

func bcdDigits(b []byte) (string, error) {
	var sb strings.Builder
	for i, x := range b {
		lo, hi := x&0xf, x>>4
		if lo > 9 {
			return "", fmt.Errorf("BCD digit 0x%x", lo)
		}
		sb.WriteByte('0' + lo)
		if hi == 0xf {
			if i != len(b)-1 {
				return "", fmt.Errorf("BCD filler before the last octet")
			}
			break
		}
		if hi > 9 {
			return "", fmt.Errorf("BCD digit 0x%x", hi)
		}
		sb.WriteByte('0' + hi)
	}
	return sb.String(), nil
}

// DecodePLMN returns the digit strings of a 3-octet PLMN (TS 24.501 9.11.3.4 octets 5-7).
func DecodePLMN(p []byte) (mcc, mnc string, err error) {
	d := []byte{p[0] & 0xf, p[0] >> 4, p[1] & 0xf, p[2] & 0xf, p[2] >> 4, p[1] >> 4}
	for i, x := range d {
		if x > 9 && !(i == 5 && x == 0xf) {
			return "", "", fmt.Errorf("PLMN %x: digit 0x%x", p, x)
		}
	}
	mcc = fmt.Sprintf("%d%d%d", d[0], d[1], d[2])
	mnc = fmt.Sprintf("%d%d", d[3], d[4])
	if d[5] != 0xf {
		mnc += fmt.Sprintf("%d", d[5])
	}
	return
}

// EncodePLMN: MCC digit 2|1, MNC digit 3|MCC digit 3, MNC digit 2|1.
func EncodePLMN(mcc, mnc string) [3]byte {
	n := func(c byte) byte { return c - '0' }
	var p [3]byte
	p[0] = n(mcc[1])<<4 | n(mcc[0])
	if len(mnc) == 3 {
		p[1] = n(mnc[2])<<4 | n(mcc[2])
	} else {
		p[1] = 0xf0 | n(mcc[2])
	}
	p[2] = n(mnc[1])<<4 | n(mnc[0])
	return p
}

func ParseMobileIdentity(b []byte) (*MobileIdentity, error) {
	if len(b) < 1 {
		return nil, fmt.Errorf("5GS mobile identity: empty")
	}
	m := &MobileIdentity{Type: int(b[0] & 7), Raw: b}
	switch m.Type {
	case 1: // SUCI
		m.SUPIFormat = int(b[0]>>4) & 7
		if m.SUPIFormat != 0 {
			return m, nil // network specific identifier: not decoded further
		}
		if len(b) < 8 {
			return nil, fmt.Errorf("SUCI of %d octets", len(b))
		}
		copy(m.PLMN[:], b[1:4])
		var err error
		if m.MCC, m.MNC, err = DecodePLMN(b[1:4]); err != nil {
			return nil, fmt.Errorf("SUCI: %w", err)
		}
		// routing indicator: up to 4 BCD digits, filler 0xF
		ri := []byte{b[4] & 0xf, b[4] >> 4, b[5] & 0xf, b[5] >> 4}
		for _, x := range ri {
			if x == 0xf {
				break
			}
			if x > 9 {
				return nil, fmt.Errorf("SUCI: routing indicator digit 0x%x", x)
			}
			m.RoutingInd += string('0' + x)
		}
		m.Scheme = int(b[6] & 0xf)
		m.HNKeyID = int(b[7])
		if m.Scheme == 0 {
			if m.MSIN, err = bcdDigits(b[8:]); err != nil {
				return nil, fmt.Errorf("SUCI scheme output: %w", err)
			}
		}
	case 2: // 5G-GUTI
		if len(b) != 11 {
			return nil, fmt.Errorf("5G-GUTI of %d octets", len(b))
		}
		copy(m.PLMN[:], b[1:4])
		m.MCC, m.MNC, _ = DecodePLMN(b[1:4])
		m.AMFRegion = b[4]
		m.AMFSet = uint16(b[5])<<2 | uint16(b[6]>>6)
		m.AMFPointer = b[6] & 0x3f
		copy(m.TMSI[:], b[7:11])
	case 4: // 5G-S-TMSI
		if len(b) != 7 {
			return nil, fmt.Errorf("5G-S-TMSI of %d octets", len(b))
		}
		m.AMFSet = uint16(b[1])<<2 | uint16(b[2]>>6)
		m.AMFPointer = b[2] & 0x3f
		copy(m.TMSI[:], b[3:7])
	}
	return m, nil
}

// UplinkNAS is a parsed plain uplink NAS message.
type UplinkNAS struct {
	EPD  int
	Type int
	// 5GMM common
	NgKSI int // 4 bits incl. TSC where the message carries one, else -1
	// RegistrationRequest
	RegType     int // low nibble of octet 4 (FOR + type value)
	Identity    *MobileIdentity
	UESecCap    []byte
	NASContainer []byte
	// AuthenticationResponse
	ResStar []byte
	// ServiceRequest
	ServiceType int
	// Deregistration
	DeregType int
	// ULNASTransport
	PayloadType int
	Payload     []byte
	HasPSI      bool
	PSI         int
	HasReqType  bool
	ReqType     int
	SNSSAI      []byte
	DNN         []byte
	// 5GSM
	SMPSI int
	SMPTI int
	Opt   []OptIE
}

func lvE(b []byte, at int, what string) (val []byte, next int, err error) {
	if at+2 > len(b) {
		return nil, 0, fmt.Errorf("%s: length truncated", what)
	}
	n := int(b[at])<<8 | int(b[at+1])
	if at+2+n > len(b) {
		return nil, 0, fmt.Errorf("%s: length %d beyond the message", what, n)
	}
	return b[at+2 : at+2+n], at + 2 + n, nil
}

// ParsePlain5GMM parses the plain 5GMM messages a UE sends on this path.
func ParsePlain5GMM(b []byte) (*UplinkNAS, error) {
	if len(b) < 3 {
		return nil, fmt.Errorf("plain NAS message of %d octets", len(b))
	}
	if b[0] != EPD5GMM {
		return nil, fmt.Errorf("plain NAS message: EPD 0x%02x", b[0])
	}
	if b[1] != 0 {
		return nil, fmt.Errorf("plain NAS message: security header type octet 0x%02x", b[1])
	}
	m := &UplinkNAS{EPD: EPD5GMM, Type: int(b[2]), NgKSI: -1}
	var err error
	switch m.Type {
	case MTRegistrationRequest:
		if len(b) < 6 {
			return nil, fmt.Errorf("RegistrationRequest truncated")
		}
		m.NgKSI, m.RegType = int(b[3]>>4), int(b[3]&0xf)
		id, next, err := lvE(b, 4, "5GS mobile identity")
		if err != nil {
			return nil, err
		}
		if m.Identity, err = ParseMobileIdentity(id); err != nil {
			return nil, err
		}
		if m.Opt, err = walkOptional(b[next:], tvTable{0x52: 7}); err != nil {
			return nil, fmt.Errorf("RegistrationRequest: %w", err)
		}
		if ie := findIE(m.Opt, 0x2e); ie != nil {
			m.UESecCap = ie.Value
		}
		if ie := findIE(m.Opt, 0x71); ie != nil {
			m.NASContainer = ie.Value
		}
	case MTAuthenticationResp:
		if m.Opt, err = walkOptional(b[3:], nil); err != nil {
			return nil, fmt.Errorf("AuthenticationResponse: %w", err)
		}
		if ie := findIE(m.Opt, 0x2d); ie != nil {
			m.ResStar = ie.Value
		}
	case MTSecurityModeComplete:
		if m.Opt, err = walkOptional(b[3:], nil); err != nil {
			return nil, fmt.Errorf("SecurityModeComplete: %w", err)
		}
		if ie := findIE(m.Opt, 0x71); ie != nil {
			m.NASContainer = ie.Value
		}
	case MTRegistrationComplete:
		if m.Opt, err = walkOptional(b[3:], nil); err != nil {
			return nil, fmt.Errorf("RegistrationComplete: %w", err)
		}
	case MTServiceRequest:
		if len(b) < 6 {
			return nil, fmt.Errorf("ServiceRequest truncated")
		}
		m.ServiceType, m.NgKSI = int(b[3]>>4), int(b[3]&0xf)
		id, next, err := lvE(b, 4, "5G-S-TMSI")
		if err != nil {
			return nil, err
		}
		// the identity is recorded raw; its content is deliberately not interpreted strictly
		m.Identity = &MobileIdentity{Raw: id}
		if len(id) > 0 {
			m.Identity.Type = int(id[0] & 7)
		}
		if len(id) == 7 {
			m.Identity.AMFSet = uint16(id[1])<<2 | uint16(id[2]>>6)
			m.Identity.AMFPointer = id[2] & 0x3f
			copy(m.Identity.TMSI[:], id[3:7])
		}
		if m.Opt, err = walkOptional(b[next:], nil); err != nil {
			return nil, fmt.Errorf("ServiceRequest: %w", err)
		}
	case MTDeregRequestUEOrig:
		if len(b) < 6 {
			return nil, fmt.Errorf("DeregistrationRequest truncated")
		}
		m.NgKSI, m.DeregType = int(b[3]>>4), int(b[3]&0xf)
		id, next, err := lvE(b, 4, "5GS mobile identity")
		if err != nil {
			return nil, err
		}
		if m.Identity, err = ParseMobileIdentity(id); err != nil {
			return nil, err
		}
		if next != len(b) {
			return nil, fmt.Errorf("DeregistrationRequest: %d octets after the mobile identity", len(b)-next)
		}
	case MTULNASTransport:
		if len(b) < 6 {
			return nil, fmt.Errorf("ULNASTransport truncated")
		}
		m.PayloadType = int(b[3] & 0xf)
		pl, next, err := lvE(b, 4, "payload container")
		if err != nil {
			return nil, err
		}
		m.Payload = pl
		if m.Opt, err = walkOptional(b[next:], tvTable{0x12: 2, 0x59: 2}); err != nil {
			return nil, fmt.Errorf("ULNASTransport: %w", err)
		}
		if ie := findIE(m.Opt, 0x12); ie != nil {
			m.HasPSI, m.PSI = true, int(ie.Value[0])
		}
		if ie := findIE(m.Opt, 0x80); ie != nil {
			m.HasReqType, m.ReqType = true, int(ie.Value[0]&7)
		}
		if ie := findIE(m.Opt, 0x22); ie != nil {
			m.SNSSAI = ie.Value
		}
		if ie := findIE(m.Opt, 0x25); ie != nil {
			m.DNN = ie.Value
		}
	default:
		// other message types: header only
	}
	return m, nil
}

// Parse5GSM parses the 5GSM messages a UE sends on this path (header + optional part).
func Parse5GSM(b []byte) (*UplinkNAS, error) {
	if len(b) < 4 {
		return nil, fmt.Errorf("5GSM message of %d octets", len(b))
	}
	if b[0] != EPD5GSM {
		return nil, fmt.Errorf("5GSM message: EPD 0x%02x", b[0])
	}
	m := &UplinkNAS{EPD: EPD5GSM, SMPSI: int(b[1]), SMPTI: int(b[2]), Type: int(b[3]), NgKSI: -1}
	var err error
	switch m.Type {
	case MTPDUSessionEstRequest:
		if len(b) < 6 {
			return nil, fmt.Errorf("PDUSessionEstablishmentRequest truncated")
		}
		// octets 5-6: integrity protection maximum data rate
		if m.Opt, err = walkOptional(b[6:], tvTable{0x55: 3}); err != nil {
			return nil, fmt.Errorf("PDUSessionEstablishmentRequest: %w", err)
		}
	case MTPDUSessionReleaseRequest, MTPDUSessionReleaseCompl:
		if m.Opt, err = walkOptional(b[4:], tvTable{0x59: 2}); err != nil {
			return nil, fmt.Errorf("%s: %w", MTName(m.Type), err)
		}
	}
	return m, nil
}

// ----------------------------------------------------------------------------------
// downlink builders

func tlv(iei byte, v []byte) []byte   { return append([]byte{iei, byte(len(v))}, v...) }
func tlvE(iei byte, v []byte) []byte  { return append([]byte{iei, byte(len(v) >> 8), byte(len(v))}, v...) }
func lv(v []byte) []byte              { return append([]byte{byte(len(v))}, v...) }
func lvE16(v []byte) []byte           { return append([]byte{byte(len(v) >> 8), byte(len(v))}, v...) }
func cat(parts ...[]byte) []byte {
	var out []byte
	for _, p := range parts {
		out = append(out, p...)
	}
	return out
}

// BuildAuthenticationRequest: TS 24.501 8.2.1 — ngKSI, ABBA (LV), RAND (TV 0x21), AUTN (TLV 0x20).
func BuildAuthenticationRequest(ngKSI int, abba []byte, rand [16]byte, autn [16]byte) []byte {
	return cat([]byte{EPD5GMM, 0x00, MTAuthenticationRequest, byte(ngKSI & 0xf)}, lv(abba), []byte{0x21}, rand[:], tlv(0x20, autn[:]))
}

// BuildSecurityModeCommand: TS 24.501 8.2.25 — selected algorithms, ngKSI, replayed UE
// security capabilities (LV); optional IMEISV request (0xE-), additional 5G security
// information (0x36).
func BuildSecurityModeCommand(cipher, integ int, ngKSI int, replayedCap []byte, imeisvReq bool, rinmr bool) []byte {
	b := cat([]byte{EPD5GMM, 0x00, MTSecurityModeCommand, byte(cipher<<4 | integ), byte(ngKSI & 0xf)}, lv(replayedCap))
	if imeisvReq {
		b = append(b, 0xe1)
	}
	if rinmr {
		b = append(b, 0x36, 0x01, 0x02)
	}
	return b
}

// Build5GGUTI: 5GS mobile identity of type 5G-GUTI (11 octets).
func Build5GGUTI(plmn [3]byte, region byte, set uint16, pointer byte, tmsi [4]byte) []byte {
	return cat([]byte{0xf2}, plmn[:], []byte{region, byte(set >> 2), byte(set<<6) | pointer&0x3f}, tmsi[:])
}

// NASSNSSAI: S-NSSAI value part (SST, or SST+SD).
func NASSNSSAI(sst byte, sd []byte) []byte {
	if len(sd) == 3 {
		return append([]byte{sst}, sd...)
	}
	return []byte{sst}
}

// BuildRegistrationAccept: TS 24.501 8.2.7 — 5GS registration result (LV); optional
// 5G-GUTI (0x77), TAI list (0x54), allowed NSSAI (0x15), network feature support (0x21),
// T3512 (0x5E).
func BuildRegistrationAccept(guti []byte, taiList []byte, allowed [][]byte, nwFeature bool, t3512 int) []byte {
	b := []byte{EPD5GMM, 0x00, MTRegistrationAccept, 0x01, 0x01}
	if guti != nil {
		b = append(b, tlvE(0x77, guti)...)
	}
	if taiList != nil {
		b = append(b, tlv(0x54, taiList)...)
	}
	if len(allowed) > 0 {
		var v []byte
		for _, s := range allowed {
			v = append(v, lv(s)...)
		}
		b = append(b, tlv(0x15, v)...)
	}
	if nwFeature {
		b = append(b, 0x21, 0x02, 0x01, 0x00)
	}
	if t3512 >= 0 {
		b = append(b, 0x5e, 0x01, byte(t3512))
	}
	return b
}

// BuildConfigurationUpdateCommand: TS 24.501 8.2.19 — all IEs optional.
func BuildConfigurationUpdateCommand(ack bool, guti []byte, shortName []byte) []byte {
	b := []byte{EPD5GMM, 0x00, MTConfigUpdateCommand}
	if ack {
		b = append(b, 0xd1)
	}
	if guti != nil {
		b = append(b, tlvE(0x77, guti)...)
	}
	if shortName != nil {
		b = append(b, tlv(0x45, shortName)...)
	}
	return b
}

func BuildServiceAccept(pduSessionStatus []byte) []byte {
	b := []byte{EPD5GMM, 0x00, MTServiceAccept}
	if pduSessionStatus != nil {
		b = append(b, tlv(0x50, pduSessionStatus)...)
	}
	return b
}

func BuildDeregistrationAccept() []byte { return []byte{EPD5GMM, 0x00, MTDeregAcceptUEOrig} }

// BuildDLNASTransport: TS 24.501 8.2.11 — payload container type, payload container
// (LV-E); optional PDU session ID (TV 0x12).
func BuildDLNASTransport(payloadType int, payload []byte, psi int) []byte {
	b := cat([]byte{EPD5GMM, 0x00, MTDLNASTransport, byte(payloadType & 0xf)}, lvE16(payload))
	if psi >= 0 {
		b = append(b, 0x12, byte(psi))
	}
	return b
}

// QoSRule builds one QoS rule (TS 24.501 9.11.4.13): create new QoS rule, DQR bit, n
// packet filters (match-all for the first, remote IPv4 filters after it).
func QoSRule(id int, dqr bool, nFilters int, precedence, qfi int) []byte {
	var body []byte
	op := byte(1<<5) | byte(nFilters&0xf)
	if dqr {
		op |= 1 << 4
	}
	body = append(body, op)
	for i := 0; i < nFilters; i++ {
		var comp []byte
		if i == 0 {
			comp = []byte{0x01} // match-all
		} else {
			comp = []byte{0x10, 10, byte(id), byte(i), 0, 255, 255, 255, 0} // IPv4 remote address + mask
		}
		body = append(body, 0x30|byte((i+1)&0xf), byte(len(comp)))
		body = append(body, comp...)
	}
	body = append(body, byte(precedence), byte(qfi&0x3f))
	return cat([]byte{byte(id), byte(len(body) >> 8), byte(len(body))}, body)
}

// QoSFlowDescription (TS 24.501 9.11.4.12): create new, E bit set, one parameter 5QI
// (and optionally GFBR-style padding parameters to vary the length).
func QoSFlowDescription(qfi, fiveQI, extraParams int) []byte {
	b := []byte{byte(qfi & 0x3f), 0x20, 0x40 | byte((1+extraParams)&0x3f), 0x01, 0x01, byte(fiveQI)}
	for i := 0; i < extraParams; i++ {
		b = append(b, byte(2+i%4), 0x03, 0x06, 0x00, byte(10+i)) // GFBR/MFBR UL/DL: unit + 2-octet value
	}
	return b
}

// SessionParams are the SMF's choices for one PDU session.
type SessionParams struct {
	SSCMode        int
	QoSRules       []byte
	AMBR           [6]byte
	Cause          int // 5GSM cause, -1 absent
	UEIP           [4]byte
	RQTimer        int // -1 absent
	SNSSAI         []byte
	AlwaysOn       int // -1 absent
	QoSFlowDescs   []byte
	DNN            string
	// Rel16: optional IEs a Release-16 SMF adds behind the Release-15 ones, in the order of table 8.3.2.1.1 (5GSM
	// network feature support 17, serving PLMN rate control 18, control plane only indication C-, Ethernet header
	// compression configuration 1F), already encoded
	Rel16 []byte
}

// BuildPDUSessionEstablishmentAccept: TS 24.501 8.3.2 — selected PDU session type | SSC
// mode, authorized QoS rules (LV-E), session AMBR (LV); optional IEs in table order: 5GSM
// cause (0x59), PDU address (0x29), RQ timer (0x56), S-NSSAI (0x22), always-on (0x8-),
// authorized QoS flow descriptions (0x79), DNN (0x25).
func BuildPDUSessionEstablishmentAccept(psi, pti int, p SessionParams) []byte {
	b := cat([]byte{EPD5GSM, byte(psi), byte(pti), MTPDUSessionEstAccept, byte(p.SSCMode&7)<<4 | 0x01}, lvE16(p.QoSRules), lv(p.AMBR[:]))
	if p.Cause >= 0 {
		b = append(b, 0x59, byte(p.Cause))
	}
	b = append(b, 0x29, 0x05, 0x01)
	b = append(b, p.UEIP[:]...)
	if p.RQTimer >= 0 {
		b = append(b, 0x56, byte(p.RQTimer))
	}
	if p.SNSSAI != nil {
		b = append(b, tlv(0x22, p.SNSSAI)...)
	}
	if p.AlwaysOn >= 0 {
		b = append(b, 0x80|byte(p.AlwaysOn&1))
	}
	if p.QoSFlowDescs != nil {
		b = append(b, tlvE(0x79, p.QoSFlowDescs)...)
	}
	if p.DNN != "" {
		b = append(b, tlv(0x25, EncodeDNN(p.DNN))...)
	}
	return append(b, p.Rel16...)
}

// EncodeDNN: labels, each preceded by its length (TS 23.003 9.1).
func EncodeDNN(s string) []byte {
	var out []byte
	for _, l := range strings.Split(s, ".") {
		out = append(out, byte(len(l)))
		out = append(out, l...)
	}
	return out
}

func BuildPDUSessionReleaseCommand(psi, pti, cause int) []byte {
	return []byte{EPD5GSM, byte(psi), byte(pti), MTPDUSessionReleaseCommand, byte(cause)}
}

func hx(b []byte) string { return hex.EncodeToString(b) }
