package refamf

// Downlink NGAP PDUs. The values are built with the Go types of ngapType (plain data
// structures); the bytes are produced by the independent encoder refper, never by the
// library's own encoder.

import (
	"fmt"

	"free5gclib/aper"
	"free5gclib/ngap/ngapType"

	"verifh/refper"
)

const pduTag = "valueExt,valueLB:0,valueUB:2"

func encodePDU(p ngapType.NGAPPDU) ([]byte, error) {
	b, _, err := refper.Encode(p, pduTag)
	return b, err
}

func initiating(proc int64, crit aper.Enumerated) (ngapType.NGAPPDU, *ngapType.InitiatingMessage) {
	var p ngapType.NGAPPDU
	p.Present = ngapType.NGAPPDUPresentInitiatingMessage
	p.InitiatingMessage = new(ngapType.InitiatingMessage)
	p.InitiatingMessage.ProcedureCode.Value = proc
	p.InitiatingMessage.Criticality.Value = crit
	return p, p.InitiatingMessage
}

const (
	reject = ngapType.CriticalityPresentReject
	ignore = ngapType.CriticalityPresentIgnore
)

func plmnOS(p [3]byte) ngapType.PLMNIdentity {
	return ngapType.PLMNIdentity{Value: aper.OctetString{p[0], p[1], p[2]}}
}

func ngapSNSSAI(sst byte, sd []byte) ngapType.SNSSAI {
	s := ngapType.SNSSAI{SST: ngapType.SST{Value: aper.OctetString{sst}}}
	if len(sd) == 3 {
		s.SD = &ngapType.SD{Value: aper.OctetString(append([]byte{}, sd...))}
	}
	return s
}

// guamiPLMN: the PLMN of the AMF's own identifiers.
func (a *AMF) guamiPLMN() [3]byte {
	if !a.sc.NGSetup.GUAMIOtherPLMN {
		return a.plmn
	}
	if other := [3]byte{0x99, 0xf9, 0x99}; a.plmn != other {
		return other
	}
	return [3]byte{0x00, 0xf1, 0x10}
}

func guamiOf(plmn [3]byte, region, set, pointer int) ngapType.GUAMI {
	return ngapType.GUAMI{
		PLMNIdentity: plmnOS(plmn),
		AMFRegionID:  ngapType.AMFRegionID{Value: aper.BitString{Bytes: []byte{byte(region)}, BitLength: 8}},
		AMFSetID:     ngapType.AMFSetID{Value: aper.BitString{Bytes: []byte{byte(set >> 2), byte(set<<6) & 0xc0}, BitLength: 10}},
		AMFPointer:   ngapType.AMFPointer{Value: aper.BitString{Bytes: []byte{byte(pointer<<2) & 0xfc}, BitLength: 6}},
	}
}

// NGSetupResponse: AMFName, ServedGUAMIList, RelativeAMFCapacity, PLMNSupportList.
func (a *AMF) buildNGSetupResponse() ([]byte, error) {
	var p ngapType.NGAPPDU
	p.Present = ngapType.NGAPPDUPresentSuccessfulOutcome
	p.SuccessfulOutcome = new(ngapType.SuccessfulOutcome)
	so := p.SuccessfulOutcome
	so.ProcedureCode.Value = ngapType.ProcedureCodeNGSetup
	so.Criticality.Value = reject
	so.Value.Present = ngapType.SuccessfulOutcomePresentNGSetupResponse
	so.Value.NGSetupResponse = new(ngapType.NGSetupResponse)
	l := &so.Value.NGSetupResponse.ProtocolIEs
	c := a.sc.NGSetup

	ie := ngapType.NGSetupResponseIEs{}
	ie.Id.Value = ngapType.ProtocolIEIDAMFName
	ie.Criticality.Value = reject
	ie.Value.Present = ngapType.NGSetupResponseIEsPresentAMFName
	name := a.sc.Prov.AMFName
	if name == "" {
		name = "refamf"
	}
	ie.Value.AMFName = &ngapType.AMFName{Value: name}
	l.List = append(l.List, ie)

	ie = ngapType.NGSetupResponseIEs{}
	ie.Id.Value = ngapType.ProtocolIEIDServedGUAMIList
	ie.Criticality.Value = reject
	ie.Value.Present = ngapType.NGSetupResponseIEsPresentServedGUAMIList
	gl := &ngapType.ServedGUAMIList{}
	for i := 0; i <= c.ExtraGUAMIs; i++ {
		it := ngapType.ServedGUAMIItem{GUAMI: guamiOf(a.guamiPLMN(), c.AMFRegion, (c.AMFSet+i)&0x3ff, c.AMFPointer)}
		if i == 0 && c.BackupAMFName != "" {
			it.BackupAMFName = &ngapType.AMFName{Value: c.BackupAMFName}
		}
		gl.List = append(gl.List, it)
	}
	ie.Value.ServedGUAMIList = gl
	l.List = append(l.List, ie)

	ie = ngapType.NGSetupResponseIEs{}
	ie.Id.Value = ngapType.ProtocolIEIDRelativeAMFCapacity
	ie.Criticality.Value = ignore
	ie.Value.Present = ngapType.NGSetupResponseIEsPresentRelativeAMFCapacity
	ie.Value.RelativeAMFCapacity = &ngapType.RelativeAMFCapacity{Value: int64(c.RelativeCapacity)}
	l.List = append(l.List, ie)

	ie = ngapType.NGSetupResponseIEs{}
	ie.Id.Value = ngapType.ProtocolIEIDPLMNSupportList
	ie.Criticality.Value = reject
	ie.Value.Present = ngapType.NGSetupResponseIEsPresentPLMNSupportList
	it := ngapType.PLMNSupportItem{PLMNIdentity: plmnOS(a.plmn)}
	it.SliceSupportList.List = append(it.SliceSupportList.List, ngapType.SliceSupportItem{SNSSAI: ngapSNSSAI(a.sst, a.sd)})
	for i := 0; i < c.ExtraSlices; i++ {
		it.SliceSupportList.List = append(it.SliceSupportList.List, ngapType.SliceSupportItem{SNSSAI: ngapSNSSAI(byte(2+i), nil)})
	}
	other := func(i int) ngapType.PLMNSupportItem {
		// a PLMN that differs from the gNB's in every octet
		o := ngapType.PLMNSupportItem{PLMNIdentity: plmnOS([3]byte{a.plmn[0] ^ 0x11, a.plmn[1] ^ byte(0x10+i), a.plmn[2] ^ 0x01})}
		o.SliceSupportList.List = append(o.SliceSupportList.List, ngapType.SliceSupportItem{SNSSAI: ngapSNSSAI(byte(1+i), nil)})
		return o
	}
	var items []ngapType.PLMNSupportItem
	for i := 0; i < c.PLMNsBefore; i++ {
		items = append(items, other(i))
	}
	items = append(items, it)
	for i := 0; i < c.PLMNsAfter; i++ {
		items = append(items, other(6+i))
	}
	ie.Value.PLMNSupportList = &ngapType.PLMNSupportList{List: items}
	l.List = append(l.List, ie)
	return encodePDU(p)
}

func ueAMBR(dl, ul uint64) *ngapType.UEAggregateMaximumBitRate {
	return &ngapType.UEAggregateMaximumBitRate{
		UEAggregateMaximumBitRateDL: ngapType.BitRate{Value: int64(dl)},
		UEAggregateMaximumBitRateUL: ngapType.BitRate{Value: int64(ul)},
	}
}

// DownlinkNASTransport in the IE order of TS 38.413 9.2.5.2: AMF-UE-NGAP-ID, RAN-UE-NGAP-ID,
// Old AMF, RAN Paging Priority, NAS-PDU, Mobility Restriction List, Index to RFSP, UE-AMBR,
// Allowed NSSAI. opts selects which optional IEs are present (Opt DL* bits).
func (a *AMF) buildDownlinkNASTransport(u *ue, nas []byte, opts uint32) ([]byte, error) {
	p, im := initiating(ngapType.ProcedureCodeDownlinkNASTransport, ignore)
	im.Value.Present = ngapType.InitiatingMessagePresentDownlinkNASTransport
	im.Value.DownlinkNASTransport = new(ngapType.DownlinkNASTransport)
	l := &im.Value.DownlinkNASTransport.ProtocolIEs
	add := func(id int64, crit aper.Enumerated, present int, set func(v *ngapType.DownlinkNASTransportIEsValue)) {
		ie := ngapType.DownlinkNASTransportIEs{}
		ie.Id.Value = id
		ie.Criticality.Value = crit
		ie.Value.Present = present
		set(&ie.Value)
		l.List = append(l.List, ie)
	}
	add(ngapType.ProtocolIEIDAMFUENGAPID, reject, ngapType.DownlinkNASTransportIEsPresentAMFUENGAPID, func(v *ngapType.DownlinkNASTransportIEsValue) {
		v.AMFUENGAPID = &ngapType.AMFUENGAPID{Value: int64(u.amfID)}
	})
	add(ngapType.ProtocolIEIDRANUENGAPID, reject, ngapType.DownlinkNASTransportIEsPresentRANUENGAPID, func(v *ngapType.DownlinkNASTransportIEsValue) {
		v.RANUENGAPID = &ngapType.RANUENGAPID{Value: int64(u.ranID)}
	})
	if opts&OptDLOldAMF != 0 {
		add(ngapType.ProtocolIEIDOldAMF, reject, ngapType.DownlinkNASTransportIEsPresentOldAMF, func(v *ngapType.DownlinkNASTransportIEsValue) {
			v.OldAMF = &ngapType.AMFName{Value: "old-amf.example"}
		})
	}
	if opts&OptDLRANPagingPrio != 0 {
		add(ngapType.ProtocolIEIDRANPagingPriority, ignore, ngapType.DownlinkNASTransportIEsPresentRANPagingPriority, func(v *ngapType.DownlinkNASTransportIEsValue) {
			v.RANPagingPriority = &ngapType.RANPagingPriority{Value: int64(1 + u.idx%256)}
		})
	}
	add(ngapType.ProtocolIEIDNASPDU, reject, ngapType.DownlinkNASTransportIEsPresentNASPDU, func(v *ngapType.DownlinkNASTransportIEsValue) {
		v.NASPDU = &ngapType.NASPDU{Value: nas}
	})
	if opts&OptDLMobilityRestr != 0 {
		add(ngapType.ProtocolIEIDMobilityRestrictionList, ignore, ngapType.DownlinkNASTransportIEsPresentMobilityRestrictionList, func(v *ngapType.DownlinkNASTransportIEsValue) {
			v.MobilityRestrictionList = mobilityRestrictions(a.plmn, u.ch.ForbiddenTACs)
		})
	}
	if opts&OptDLIndexToRFSP != 0 {
		add(ngapType.ProtocolIEIDIndexToRFSP, ignore, ngapType.DownlinkNASTransportIEsPresentIndexToRFSP, func(v *ngapType.DownlinkNASTransportIEsValue) {
			v.IndexToRFSP = &ngapType.IndexToRFSP{Value: int64(1 + (u.idx*37)%256)}
		})
	}
	if opts&OptDLUEAMBR != 0 {
		add(ngapType.ProtocolIEIDUEAggregateMaximumBitRate, ignore, ngapType.DownlinkNASTransportIEsPresentUEAggregateMaximumBitRate, func(v *ngapType.DownlinkNASTransportIEsValue) {
			v.UEAggregateMaximumBitRate = ueAMBR(u.ch.AMBRDL, u.ch.AMBRUL)
		})
	}
	if opts&OptDLAllowedNSSAI != 0 {
		add(ngapType.ProtocolIEIDAllowedNSSAI, reject, ngapType.DownlinkNASTransportIEsPresentAllowedNSSAI, func(v *ngapType.DownlinkNASTransportIEsValue) {
			v.AllowedNSSAI = &ngapType.AllowedNSSAI{List: []ngapType.AllowedNSSAIItem{{SNSSAI: ngapSNSSAI(a.sst, a.sd)}}}
		})
	}
	b, err := encodePDU(p)
	if err != nil {
		return nil, err
	}
	return WithLaterIEs(b, u.ch.LaterIEs, u.idx+1)
}

// InitialContextSetupRequest in the IE order of TS 38.413 9.2.2.1. The mandatory IEs are
// AMF-UE-NGAP-ID, RAN-UE-NGAP-ID, GUAMI, Allowed NSSAI, UE Security Capabilities, Security
// Key; the NAS-PDU carries the Registration Accept / Service Accept.
func (a *AMF) buildInitialContextSetupRequest(u *ue, nas []byte, opts uint32, sessions []ngapType.PDUSessionResourceSetupItemCxtReq) ([]byte, error) {
	p, im := initiating(ngapType.ProcedureCodeInitialContextSetup, reject)
	im.Value.Present = ngapType.InitiatingMessagePresentInitialContextSetupRequest
	im.Value.InitialContextSetupRequest = new(ngapType.InitialContextSetupRequest)
	l := &im.Value.InitialContextSetupRequest.ProtocolIEs
	type V = ngapType.InitialContextSetupRequestIEsValue
	add := func(id int64, crit aper.Enumerated, present int, set func(v *V)) {
		ie := ngapType.InitialContextSetupRequestIEs{}
		ie.Id.Value = id
		ie.Criticality.Value = crit
		ie.Value.Present = present
		set(&ie.Value)
		l.List = append(l.List, ie)
	}
	add(ngapType.ProtocolIEIDAMFUENGAPID, reject, ngapType.InitialContextSetupRequestIEsPresentAMFUENGAPID, func(v *V) { v.AMFUENGAPID = &ngapType.AMFUENGAPID{Value: int64(u.amfID)} })
	add(ngapType.ProtocolIEIDRANUENGAPID, reject, ngapType.InitialContextSetupRequestIEsPresentRANUENGAPID, func(v *V) { v.RANUENGAPID = &ngapType.RANUENGAPID{Value: int64(u.ranID)} })
	if opts&OptICSOldAMF != 0 {
		add(ngapType.ProtocolIEIDOldAMF, reject, ngapType.InitialContextSetupRequestIEsPresentOldAMF, func(v *V) { v.OldAMF = &ngapType.AMFName{Value: "old-amf.example"} })
	}
	if opts&OptICSUEAMBR != 0 || len(sessions) > 0 {
		add(ngapType.ProtocolIEIDUEAggregateMaximumBitRate, reject, ngapType.InitialContextSetupRequestIEsPresentUEAggregateMaximumBitRate, func(v *V) { v.UEAggregateMaximumBitRate = ueAMBR(u.ch.AMBRDL, u.ch.AMBRUL) })
	}
	g := guamiOf(a.guamiPLMN(), a.sc.NGSetup.AMFRegion, a.sc.NGSetup.AMFSet, a.sc.NGSetup.AMFPointer)
	add(ngapType.ProtocolIEIDGUAMI, reject, ngapType.InitialContextSetupRequestIEsPresentGUAMI, func(v *V) { v.GUAMI = &g })
	if len(sessions) > 0 {
		add(ngapType.ProtocolIEIDPDUSessionResourceSetupListCxtReq, reject, ngapType.InitialContextSetupRequestIEsPresentPDUSessionResourceSetupListCxtReq, func(v *V) {
			v.PDUSessionResourceSetupListCxtReq = &ngapType.PDUSessionResourceSetupListCxtReq{List: sessions}
		})
	}
	add(ngapType.ProtocolIEIDAllowedNSSAI, reject, ngapType.InitialContextSetupRequestIEsPresentAllowedNSSAI, func(v *V) {
		v.AllowedNSSAI = &ngapType.AllowedNSSAI{List: []ngapType.AllowedNSSAIItem{{SNSSAI: ngapSNSSAI(a.sst, a.sd)}}}
	})
	add(ngapType.ProtocolIEIDUESecurityCapabilities, reject, ngapType.InitialContextSetupRequestIEsPresentUESecurityCapabilities, func(v *V) {
		bs := func(x, y byte) aper.BitString { return aper.BitString{Bytes: []byte{x, y}, BitLength: 16} }
		// NGAP bitmaps start with algorithm 1 (NEA1/NIA1): the NAS octet shifted left by one
		var ea, ia byte
		if len(u.secCap) >= 2 {
			ea, ia = u.secCap[0]<<1, u.secCap[1]<<1
		}
		v.UESecurityCapabilities = &ngapType.UESecurityCapabilities{
			NRencryptionAlgorithms:             ngapType.NRencryptionAlgorithms{Value: bs(ea, 0)},
			NRintegrityProtectionAlgorithms:    ngapType.NRintegrityProtectionAlgorithms{Value: bs(ia, 0)},
			EUTRAencryptionAlgorithms:          ngapType.EUTRAencryptionAlgorithms{Value: bs(0, 0)},
			EUTRAintegrityProtectionAlgorithms: ngapType.EUTRAintegrityProtectionAlgorithms{Value: bs(0, 0)},
		}
	})
	add(ngapType.ProtocolIEIDSecurityKey, reject, ngapType.InitialContextSetupRequestIEsPresentSecurityKey, func(v *V) {
		v.SecurityKey = &ngapType.SecurityKey{Value: aper.BitString{Bytes: u.kgnb(), BitLength: 256}}
	})
	if opts&OptICSMobilityRestr != 0 {
		add(ngapType.ProtocolIEIDMobilityRestrictionList, ignore, ngapType.InitialContextSetupRequestIEsPresentMobilityRestrictionList, func(v *V) {
			v.MobilityRestrictionList = mobilityRestrictions(a.plmn, u.ch.ForbiddenTACs)
		})
	}
	if opts&OptICSIndexToRFSP != 0 {
		add(ngapType.ProtocolIEIDIndexToRFSP, ignore, ngapType.InitialContextSetupRequestIEsPresentIndexToRFSP, func(v *V) { v.IndexToRFSP = &ngapType.IndexToRFSP{Value: int64(256 - u.idx%256)} })
	}
	if opts&OptICSMaskedIMEISV != 0 {
		add(ngapType.ProtocolIEIDMaskedIMEISV, ignore, ngapType.InitialContextSetupRequestIEsPresentMaskedIMEISV, func(v *V) {
			v.MaskedIMEISV = &ngapType.MaskedIMEISV{Value: aper.BitString{Bytes: []byte{0x11, 0x11, 0x11, 0x1f, 0xff, 0xf1, 0x11, 0x11}, BitLength: 64}}
		})
	}
	add(ngapType.ProtocolIEIDNASPDU, ignore, ngapType.InitialContextSetupRequestIEsPresentNASPDU, func(v *V) { v.NASPDU = &ngapType.NASPDU{Value: nas} })
	b, err := encodePDU(p)
	if err != nil {
		return nil, err
	}
	return WithLaterIEs(b, u.ch.LaterIEs, u.idx+2)
}

func ipv4Bits(ip [4]byte) aper.BitString {
	return aper.BitString{Bytes: []byte{ip[0], ip[1], ip[2], ip[3]}, BitLength: 32}
}

// PDUSessionResourceSetupRequestTransfer (TS 38.413 9.3.4.1): PDU Session AMBR (optional,
// present for non-GBR flows), UL NG-U UP TNL Information, PDU Session Type, QoS Flow Setup
// Request List.
func (a *AMF) buildSetupRequestTransfer(u *ue) ([]byte, error) {
	var t ngapType.PDUSessionResourceSetupRequestTransfer
	type V = ngapType.PDUSessionResourceSetupRequestTransferIEsValue
	add := func(id int64, crit aper.Enumerated, present int, set func(v *V)) {
		ie := ngapType.PDUSessionResourceSetupRequestTransferIEs{}
		ie.Id.Value = id
		ie.Criticality.Value = crit
		ie.Value.Present = present
		set(&ie.Value)
		t.ProtocolIEs.List = append(t.ProtocolIEs.List, ie)
	}
	add(ngapType.ProtocolIEIDPDUSessionAggregateMaximumBitRate, reject, ngapType.PDUSessionResourceSetupRequestTransferIEsPresentPDUSessionAggregateMaximumBitRate, func(v *V) {
		v.PDUSessionAggregateMaximumBitRate = &ngapType.PDUSessionAggregateMaximumBitRate{
			PDUSessionAggregateMaximumBitRateDL: ngapType.BitRate{Value: int64(u.ch.AMBRDL)},
			PDUSessionAggregateMaximumBitRateUL: ngapType.BitRate{Value: int64(u.ch.AMBRUL)},
		}
	})
	te := []byte{byte(u.ch.TEID >> 24), byte(u.ch.TEID >> 16), byte(u.ch.TEID >> 8), byte(u.ch.TEID)}
	add(ngapType.ProtocolIEIDULNGUUPTNLInformation, reject, ngapType.PDUSessionResourceSetupRequestTransferIEsPresentULNGUUPTNLInformation, func(v *V) {
		v.ULNGUUPTNLInformation = &ngapType.UPTransportLayerInformation{
			Present: ngapType.UPTransportLayerInformationPresentGTPTunnel,
			GTPTunnel: &ngapType.GTPTunnel{
				TransportLayerAddress: ngapType.TransportLayerAddress{Value: ipv4Bits(u.upfIP)},
				GTPTEID:               ngapType.GTPTEID{Value: te},
			},
		}
	})
	add(ngapType.ProtocolIEIDPDUSessionType, reject, ngapType.PDUSessionResourceSetupRequestTransferIEsPresentPDUSessionType, func(v *V) {
		v.PDUSessionType = &ngapType.PDUSessionType{Value: ngapType.PDUSessionTypePresentIpv4}
	})
	add(ngapType.ProtocolIEIDQosFlowSetupRequestList, reject, ngapType.PDUSessionResourceSetupRequestTransferIEsPresentQosFlowSetupRequestList, func(v *V) {
		q := ngapType.QosFlowSetupRequestItem{}
		q.QosFlowIdentifier.Value = 9
		q.QosFlowLevelQosParameters.QosCharacteristics.Present = ngapType.QosCharacteristicsPresentNonDynamic5QI
		q.QosFlowLevelQosParameters.QosCharacteristics.NonDynamic5QI = &ngapType.NonDynamic5QIDescriptor{FiveQI: ngapType.FiveQI{Value: 9}}
		q.QosFlowLevelQosParameters.AllocationAndRetentionPriority.PriorityLevelARP.Value = 8
		q.QosFlowLevelQosParameters.AllocationAndRetentionPriority.PreEmptionCapability.Value = ngapType.PreEmptionCapabilityPresentShallNotTriggerPreEmption
		q.QosFlowLevelQosParameters.AllocationAndRetentionPriority.PreEmptionVulnerability.Value = ngapType.PreEmptionVulnerabilityPresentNotPreEmptable
		v.QosFlowSetupRequestList = &ngapType.QosFlowSetupRequestList{List: []ngapType.QosFlowSetupRequestItem{q}}
	})
	b, _, err := refper.Encode(t, "valueExt")
	return b, err
}

// PDUSessionResourceSetupRequest, IE order of TS 38.413 9.2.1.1 with the optional RAN
// Paging Priority and the message-level NAS-PDU absent: AMF-UE-NGAP-ID, RAN-UE-NGAP-ID,
// PDU Session Resource Setup Request List (one item: PDU Session ID, PDU Session NAS-PDU,
// S-NSSAI, transfer).
func (a *AMF) buildPDUSessionResourceSetupRequest(u *ue, psi int, nas, transfer []byte) ([]byte, error) {
	p, im := initiating(ngapType.ProcedureCodePDUSessionResourceSetup, reject)
	im.Value.Present = ngapType.InitiatingMessagePresentPDUSessionResourceSetupRequest
	im.Value.PDUSessionResourceSetupRequest = new(ngapType.PDUSessionResourceSetupRequest)
	l := &im.Value.PDUSessionResourceSetupRequest.ProtocolIEs
	ie := ngapType.PDUSessionResourceSetupRequestIEs{}
	ie.Id.Value = ngapType.ProtocolIEIDAMFUENGAPID
	ie.Criticality.Value = reject
	ie.Value.Present = ngapType.PDUSessionResourceSetupRequestIEsPresentAMFUENGAPID
	ie.Value.AMFUENGAPID = &ngapType.AMFUENGAPID{Value: int64(u.amfID)}
	l.List = append(l.List, ie)
	ie = ngapType.PDUSessionResourceSetupRequestIEs{}
	ie.Id.Value = ngapType.ProtocolIEIDRANUENGAPID
	ie.Criticality.Value = reject
	ie.Value.Present = ngapType.PDUSessionResourceSetupRequestIEsPresentRANUENGAPID
	ie.Value.RANUENGAPID = &ngapType.RANUENGAPID{Value: int64(u.ranID)}
	l.List = append(l.List, ie)
	ie = ngapType.PDUSessionResourceSetupRequestIEs{}
	ie.Id.Value = ngapType.ProtocolIEIDPDUSessionResourceSetupListSUReq
	ie.Criticality.Value = reject
	ie.Value.Present = ngapType.PDUSessionResourceSetupRequestIEsPresentPDUSessionResourceSetupListSUReq
	it := ngapType.PDUSessionResourceSetupItemSUReq{}
	it.PDUSessionID.Value = int64(psi)
	it.PDUSessionNASPDU = &ngapType.NASPDU{Value: nas}
	it.SNSSAI = ngapSNSSAI(a.sst, a.sd)
	it.PDUSessionResourceSetupRequestTransfer = transfer
	ie.Value.PDUSessionResourceSetupListSUReq = &ngapType.PDUSessionResourceSetupListSUReq{List: []ngapType.PDUSessionResourceSetupItemSUReq{it}}
	l.List = append(l.List, ie)
	b, err := encodePDU(p)
	if err != nil {
		return nil, err
	}
	return WithLaterIEs(b, u.ch.LaterIEs, u.idx+3)
}

// PDUSessionResourceReleaseCommand (TS 38.413 9.2.1.5): AMF-UE-NGAP-ID, RAN-UE-NGAP-ID,
// NAS-PDU, PDU Session Resource To Release List.
func (a *AMF) buildPDUSessionResourceReleaseCommand(u *ue, psi int, nas []byte) ([]byte, error) {
	p, im := initiating(ngapType.ProcedureCodePDUSessionResourceRelease, reject)
	im.Value.Present = ngapType.InitiatingMessagePresentPDUSessionResourceReleaseCommand
	im.Value.PDUSessionResourceReleaseCommand = new(ngapType.PDUSessionResourceReleaseCommand)
	l := &im.Value.PDUSessionResourceReleaseCommand.ProtocolIEs
	ie := ngapType.PDUSessionResourceReleaseCommandIEs{}
	ie.Id.Value = ngapType.ProtocolIEIDAMFUENGAPID
	ie.Criticality.Value = reject
	ie.Value.Present = ngapType.PDUSessionResourceReleaseCommandIEsPresentAMFUENGAPID
	ie.Value.AMFUENGAPID = &ngapType.AMFUENGAPID{Value: int64(u.amfID)}
	l.List = append(l.List, ie)
	ie = ngapType.PDUSessionResourceReleaseCommandIEs{}
	ie.Id.Value = ngapType.ProtocolIEIDRANUENGAPID
	ie.Criticality.Value = reject
	ie.Value.Present = ngapType.PDUSessionResourceReleaseCommandIEsPresentRANUENGAPID
	ie.Value.RANUENGAPID = &ngapType.RANUENGAPID{Value: int64(u.ranID)}
	l.List = append(l.List, ie)
	ie = ngapType.PDUSessionResourceReleaseCommandIEs{}
	ie.Id.Value = ngapType.ProtocolIEIDNASPDU
	ie.Criticality.Value = ignore
	ie.Value.Present = ngapType.PDUSessionResourceReleaseCommandIEsPresentNASPDU
	ie.Value.NASPDU = &ngapType.NASPDU{Value: nas}
	l.List = append(l.List, ie)
	// PDUSessionResourceReleaseCommandTransfer ::= SEQUENCE {cause Cause, iE-Extensions OPTIONAL, ...}
	tr := ngapType.PDUSessionResourceReleaseCommandTransfer{Cause: ngapType.Cause{Present: ngapType.CausePresentNas, Nas: &ngapType.CauseNas{Value: ngapType.CauseNasPresentNormalRelease}}}
	trb, _, err := refper.Encode(tr, "valueExt")
	if err != nil {
		return nil, fmt.Errorf("release command transfer: %w", err)
	}
	ie = ngapType.PDUSessionResourceReleaseCommandIEs{}
	ie.Id.Value = ngapType.ProtocolIEIDPDUSessionResourceToReleaseListRelCmd
	ie.Criticality.Value = reject
	ie.Value.Present = ngapType.PDUSessionResourceReleaseCommandIEsPresentPDUSessionResourceToReleaseListRelCmd
	it := ngapType.PDUSessionResourceToReleaseItemRelCmd{}
	it.PDUSessionID.Value = int64(psi)
	it.PDUSessionResourceReleaseCommandTransfer = trb
	ie.Value.PDUSessionResourceToReleaseListRelCmd = &ngapType.PDUSessionResourceToReleaseListRelCmd{List: []ngapType.PDUSessionResourceToReleaseItemRelCmd{it}}
	l.List = append(l.List, ie)
	return encodePDU(p)
}

// UEContextReleaseCommand (TS 38.413 9.2.2.5): UE NGAP IDs (pair), Cause (nas: deregister).
func (a *AMF) buildUEContextReleaseCommand(u *ue) ([]byte, error) {
	p, im := initiating(ngapType.ProcedureCodeUEContextRelease, reject)
	im.Value.Present = ngapType.InitiatingMessagePresentUEContextReleaseCommand
	im.Value.UEContextReleaseCommand = new(ngapType.UEContextReleaseCommand)
	l := &im.Value.UEContextReleaseCommand.ProtocolIEs
	ie := ngapType.UEContextReleaseCommandIEs{}
	ie.Id.Value = ngapType.ProtocolIEIDUENGAPIDs
	ie.Criticality.Value = reject
	ie.Value.Present = ngapType.UEContextReleaseCommandIEsPresentUENGAPIDs
	ie.Value.UENGAPIDs = &ngapType.UENGAPIDs{Present: ngapType.UENGAPIDsPresentUENGAPIDPair,
		UENGAPIDPair: &ngapType.UENGAPIDPair{AMFUENGAPID: ngapType.AMFUENGAPID{Value: int64(u.amfID)}, RANUENGAPID: ngapType.RANUENGAPID{Value: int64(u.ranID)}}}
	if u.ch.Has(OptRelCmdAMFIDOnly) {
		// TS 38.413 9.3.3.2: the AMF may name the UE by the AMF UE NGAP ID alone
		ie.Value.UENGAPIDs = &ngapType.UENGAPIDs{Present: ngapType.UENGAPIDsPresentAMFUENGAPID, AMFUENGAPID: &ngapType.AMFUENGAPID{Value: int64(u.amfID)}}
	}
	l.List = append(l.List, ie)
	ie = ngapType.UEContextReleaseCommandIEs{}
	ie.Id.Value = ngapType.ProtocolIEIDCause
	ie.Criticality.Value = ignore
	ie.Value.Present = ngapType.UEContextReleaseCommandIEsPresentCause
	ie.Value.Cause = &ngapType.Cause{Present: ngapType.CausePresentNas, Nas: &ngapType.CauseNas{Value: ngapType.CauseNasPresentDeregister}}
	l.List = append(l.List, ie)
	return encodePDU(p)
}

type ngapTypeCxtReqItem = ngapType.PDUSessionResourceSetupItemCxtReq

func cxtReqItem(psi int, sst byte, sd []byte, transfer []byte) ngapTypeCxtReqItem {
	it := ngapType.PDUSessionResourceSetupItemCxtReq{}
	it.PDUSessionID.Value = int64(psi)
	it.SNSSAI = ngapSNSSAI(sst, sd)
	it.PDUSessionResourceSetupRequestTransfer = transfer
	return it
}


// mobilityRestrictions: the serving PLMN and, optionally, n forbidden tracking areas of it.
func mobilityRestrictions(plmn [3]byte, n int) *ngapType.MobilityRestrictionList {
	m := &ngapType.MobilityRestrictionList{ServingPLMN: plmnOS(plmn)}
	if n > 0 {
		it := ngapType.ForbiddenAreaInformationItem{PLMNIdentity: plmnOS(plmn)}
		for i := 0; i < n; i++ {
			it.ForbiddenTACs.List = append(it.ForbiddenTACs.List, ngapType.TAC{Value: aper.OctetString{byte(i >> 16), byte(i >> 8), byte(i)}})
		}
		m.ForbiddenAreaInformation = &ngapType.ForbiddenAreaInformation{List: []ngapType.ForbiddenAreaInformationItem{it}}
	}
	return m
}


// WithLaterIEs appends n information elements of a later release of TS 38.413 to an encoded message: identifiers this
// release does not define (and a Release 15 node does not comprehend), criticality "ignore", 0..5 octets of value.
// New IEs are always added at the END of a message's IE list, so that is where they go. A receiver "shall ignore the
// content of the not comprehended IEs and continue with the procedure" (TS 38.413 10.3.4.1A). The message is taken
// apart by hand: triple (3 octets), length determinant of the value, the SEQUENCE preamble octet, the 16-bit count.
func WithLaterIEs(b []byte, n int, salt int) ([]byte, error) {
	if n <= 0 {
		return b, nil
	}
	if len(b) < 7 {
		return nil, fmt.Errorf("message too short to extend")
	}
	p := 3
	var l int
	switch {
	case b[p]&0x80 == 0:
		l, p = int(b[p]), p+1
	case b[p]&0xc0 == 0x80:
		l, p = int(b[p]&0x3f)<<8|int(b[p+1]), p+2
	default:
		return nil, fmt.Errorf("fragmented message value")
	}
	if p+l != len(b) || l < 3 {
		return nil, fmt.Errorf("length determinant %d does not match the %d octets that follow", l, len(b)-p)
	}
	body := append([]byte{}, b[p:]...)
	cnt := int(body[1])<<8 | int(body[2])
	for i := 0; i < n; i++ {
		id := 300 + (salt*7+i*13)%60000 // 300..60299: not assigned by the release the library implements (ids end at 150)
		vl := (salt + 3*i) % 6
		ie := []byte{byte(id >> 8), byte(id), 0x40, byte(vl)}
		for k := 0; k < vl; k++ {
			ie = append(ie, byte(0xa0+salt+k+i))
		}
		body = append(body, ie...)
		cnt++
	}
	body[1], body[2] = byte(cnt>>8), byte(cnt)
	out := append([]byte{}, b[:3]...)
	switch {
	case len(body) < 128:
		out = append(out, byte(len(body)))
	case len(body) < 16384:
		out = append(out, 0x80|byte(len(body)>>8), byte(len(body)))
	default:
		return nil, fmt.Errorf("message too long to extend")
	}
	return append(out, body...), nil
}
