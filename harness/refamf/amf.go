// Package refamf is the reference AMF/SMF used as the conformant network side of the
// conversation-level properties (C01, C02, C18, C19). It is a strictly sequential state
// machine: Handle takes one uplink NGAP PDU, validates it against the checks the
// properties enumerate (and nothing else — everything else is written into the
// transcript as an observation), and returns the downlink PDUs it triggers. Uplink NGAP
// is read with iewalk, uplink NAS with the hand-written reader in nas.go, keys and MACs
// come from refcrypto, downlink NGAP bytes from refper, downlink NAS is hand-built.
package refamf

import (
	"bytes"
	"math/big"
	"encoding/hex"
	"fmt"
	"sort"

	"verifh/iewalk"
	"verifh/refcrypto"
)

type ueState int

const (
	stAuth         ueState = iota // Authentication Request sent
	stSMC                         // Security Mode Command sent
	stRegAccept                   // Registration Accept sent (inside Initial Context Setup Request)
	stRegistered
	stDeregSent // Deregistration Accept + UE Context Release Command sent
	stDeregistered
)

type sessState int

const (
	ssInactive sessState = iota
	ssSetupSent
	ssActive
	ssReleasePending
	ssReleased
)

type ue struct {
	idx   int
	ch    UEChoice
	ranID uint64
	amfID uint64
	supi  string // digits
	state ueState

	rand     [16]byte
	autn     [16]byte
	xresStar []byte
	keys     refcrypto.Keys5G
	ck, ik   [16]byte
	res      [8]byte
	sqnXorAK [6]byte
	encAlg   int
	intAlg   int
	secCap   []byte
	suciRaw  []byte // the 5GS mobile identity of the cleartext registration request
	kamfInst int
	ulNext   uint32 // next expected uplink NAS COUNT
	dlNext   uint32
	secured  bool
	ulAtSMC  uint32

	pendingICSResp     bool // Initial Context Setup Response outstanding (registration)
	pendingRegComplete bool
	pendingSvcICS      bool // Initial Context Setup Response outstanding (service request)
	refusedOnce        bool // the network has refused (or postponed) this UE's session establishment once

	sess          sessState
	psi           int
	pti           int
	relPTI        int
	pendRelResp   bool
	pendRelCompl  bool
	ueIP, upfIP   [4]byte
	guti          []byte
	pendCtxRelCpl bool
}

func (u *ue) kgnb() []byte {
	c := u.ulAtSMC
	return refcrypto.KDF(u.keys.Kamf, 0x6e, []byte{byte(c >> 24), byte(c >> 16), byte(c >> 8), byte(c)}, []byte{0x01})
}

// AMF is one conversation's network side.
type AMF struct {
	HeldSetup map[int]bool // UEs whose PDU Session Resource Setup Request is still held back by the transport
	sc   Scenario
	plmn [3]byte
	sst  byte
	sd   []byte
	k    [16]byte
	opc  [16]byte
	gtp  [4]byte

	ngSetupDone bool
	tacs        [][3]byte
	announced   [3]byte
	ues         []*ue
	byRAN       map[uint64]*ue
	byAMF       map[uint64]*ue
	kamfSeq     int

	Transcript []Entry
	Events     []Event
	Counts     []CountUse
	Obs        Observed
	Violation  *Violation
	nUL, nDL   int
	cur        *Entry
}

// New validates the scenario and prepares the AMF.
func New(sc Scenario) (*AMF, error) {
	a := &AMF{sc: sc, byRAN: map[uint64]*ue{}, byAMF: map[uint64]*ue{}}
	p := sc.Prov
	if len(p.MCC) != 3 || (len(p.MNC) != 2 && len(p.MNC) != 3) {
		return nil, fmt.Errorf("scenario: mcc %q mnc %q", p.MCC, p.MNC)
	}
	for _, c := range p.MCC + p.MNC + p.IMSI {
		if c < '0' || c > '9' {
			return nil, fmt.Errorf("scenario: non-digit in mcc/mnc/imsi")
		}
	}
	if len(p.IMSI) <= len(p.MCC)+len(p.MNC) || len(p.IMSI) > 15 || p.IMSI[:3] != p.MCC || p.IMSI[3:3+len(p.MNC)] != p.MNC {
		return nil, fmt.Errorf("scenario: imsi %q does not start with mcc %q mnc %q (or is longer than 15 digits)", p.IMSI, p.MCC, p.MNC)
	}
	if p.ServingMCC != "" && (len(p.ServingMCC) != 3 || len(p.ServingMNC) != len(p.MNC) || digits(p.ServingMCC+p.ServingMNC).Sign() < 0) {
		return nil, fmt.Errorf("scenario: serving mcc %q mnc %q", p.ServingMCC, p.ServingMNC)
	}
	a.plmn = EncodePLMN(p.MCC, p.MNC)
	kb, err := mustHex(p.K, 16, "k")
	if err != nil {
		return nil, err
	}
	copy(a.k[:], kb)
	if p.OPc != "" {
		ob, err := mustHex(p.OPc, 16, "opc")
		if err != nil {
			return nil, err
		}
		copy(a.opc[:], ob)
	} else {
		ob, err := mustHex(p.OP, 16, "op")
		if err != nil {
			return nil, err
		}
		var op [16]byte
		copy(op[:], ob)
		a.opc = refcrypto.OPc(a.k, op)
	}
	if p.SST < 0 || p.SST > 255 {
		return nil, fmt.Errorf("scenario: sst %d", p.SST)
	}
	a.sst = byte(p.SST)
	if p.SD != "" {
		if a.sd, err = mustHex(p.SD, 3, "sd"); err != nil {
			return nil, err
		}
	}
	if p.GnbGTP != "" {
		if a.gtp, err = parseIPv4(p.GnbGTP); err != nil {
			return nil, err
		}
	}
	seen := map[uint64]bool{}
	for i, u := range sc.UEs {
		if u.AMFUEID > 1099511627775 || seen[u.AMFUEID] {
			return nil, fmt.Errorf("scenario: AMF-UE-NGAP-ID of UE %d out of range or not unique", i)
		}
		seen[u.AMFUEID] = true
		if u.NgKSI < 0 || u.NgKSI > 6 {
			return nil, fmt.Errorf("scenario: ngKSI %d", u.NgKSI)
		}
	}
	return a, nil
}

// ----------------------------------------------------------------------------------
// transcript helpers

func (a *AMF) obs(format string, args ...interface{}) {
	if a.cur != nil {
		a.cur.Obs = append(a.cur.Obs, fmt.Sprintf(format, args...))
	}
}

// ne records a deviation that the properties deliberately do not judge (DESIGN.md 3.5).
func (a *AMF) ne(label, format string, args ...interface{}) {
	a.obs("not enforced [%s]: %s", label, fmt.Sprintf(format, args...))
}

func (a *AMF) viol(key, format string, args ...interface{}) *Violation {
	v := &Violation{Key: key, Msg: fmt.Sprintf(format, args...)}
	if a.Violation == nil {
		a.Violation = v
	}
	return v
}

func (a *AMF) notePLMN(p [3]byte) {
	h := hex.EncodeToString(p[:])
	for _, x := range a.Obs.PLMNs {
		if x == h {
			return
		}
	}
	a.Obs.PLMNs = append(a.Obs.PLMNs, h)
}

// Note appends a free-form line (used by the runner for faults).
// Hold / Release: the transport tells the AMF that the setup request it produced for UE k is still held back
// (Scenario.UEs[k].SetupDelayMs) resp. has been sent now.
func (a *AMF) Hold(k int) {
	if a.HeldSetup == nil {
		a.HeldSetup = map[int]bool{}
	}
	a.HeldSetup[k] = true
}
func (a *AMF) Release(k int) { delete(a.HeldSetup, k) }

func (a *AMF) Note(dir, what string) {
	a.Transcript = append(a.Transcript, Entry{N: len(a.Transcript), Dir: dir, Idx: -1, What: what})
}

// ULCount / DLCount: PDUs handled so far.
func (a *AMF) ULCount() int { return a.nUL }
func (a *AMF) DLCount() int { return a.nDL }

// ----------------------------------------------------------------------------------

// Handle processes one uplink PDU and returns the downlink PDUs it triggers. A non-nil
// violation ends the conversation (it is also kept in a.Violation).
func (a *AMF) Handle(ul []byte) (dls [][]byte, v *Violation) {
	a.Transcript = append(a.Transcript, Entry{N: len(a.Transcript), Dir: "ul", Idx: a.nUL, Hex: hex.EncodeToString(ul)})
	a.cur = &a.Transcript[len(a.Transcript)-1]
	ulIdx := len(a.Transcript) - 1
	a.nUL++
	out, what, v := a.handle(ul)
	a.Transcript[ulIdx].What = what
	a.cur = nil
	if v != nil {
		return nil, v
	}
	for _, d := range out {
		a.Transcript = append(a.Transcript, Entry{N: len(a.Transcript), Dir: "dl", Idx: a.nDL, Hex: hex.EncodeToString(d.b), What: d.what})
		a.nDL++
		dls = append(dls, d.b)
	}
	return dls, nil
}

type dlMsg struct {
	b    []byte
	what string
}

func (a *AMF) handle(ul []byte) (out []dlMsg, what string, v *Violation) {
	p, err := iewalk.ParsePDU(ul)
	if err != nil {
		return nil, "undecodable", a.viol("ngap-decode", "uplink PDU %d does not decode as an NGAP PDU: %v", a.nUL-1, err)
	}
	what = p.Name()
	spec := p.Spec()
	if spec == nil {
		return nil, what, a.viol("ngap-unexpected:"+what, "uplink PDU %d is %s (%s, procedure code %d): not a message this AMF expects from a gNB in any state of these procedures", a.nUL-1, what, iewalk.ClassName(p.Class), p.ProcedureCode)
	}
	for _, f := range p.Check() {
		switch f.Kind {
		case "missing", "duplicate":
			return nil, what, a.viol("ngap-ie-"+f.Kind+":"+what, "%s", f.Text)
		default:
			a.ne("ngap-"+f.Kind, "%s", f.Text)
		}
	}
	if !a.ngSetupDone && spec.Name != "NGSetupRequest" {
		return nil, what, a.viol("before-ngsetup", "%s received before NG Setup", what)
	}
	switch spec.Name {
	case "NGSetupRequest":
		out, v = a.onNGSetup(p)
	case "InitialUEMessage":
		out, what, v = a.onInitialUE(p)
	case "UplinkNASTransport":
		out, what, v = a.onUplinkNAS(p)
	case "InitialContextSetupResponse":
		what, v = a.onICSResponse(p)
	case "PDUSessionResourceSetupResponse":
		what, v = a.onSetupResponse(p)
	case "PDUSessionResourceReleaseResponse":
		what, v = a.onReleaseResponse(p)
	case "UEContextReleaseComplete":
		what, v = a.onCtxReleaseComplete(p)
	}
	return out, what, v
}

// NGSetupAnswerLost: the transport replaced this AMF's answer to the NG SETUP REQUEST by something else (C19). A gNB
// that asks again is answered again (TS 38.413 8.7.1: the procedure may be re-initiated and starts from scratch).
func (a *AMF) NGSetupAnswerLost() { a.ngSetupDone = false }

func (a *AMF) onNGSetup(p *iewalk.PDU) ([]dlMsg, *Violation) {
	if a.ngSetupDone {
		return nil, a.viol("ngsetup-twice", "second NGSetupRequest on the association")
	}
	g, err := iewalk.DecodeGlobalRANNodeID(p.Find(iewalk.IDGlobalRANNodeID).Value)
	if err != nil {
		return nil, a.viol("ngap-ie-decode:GlobalRANNodeID", "GlobalRANNodeID: %v", err)
	}
	if g.Kind != 0 {
		return nil, a.viol("ngsetup-node-kind", "GlobalRANNodeID alternative %d, expected globalGNB-ID", g.Kind)
	}
	a.Obs.GNBID, a.Obs.GNBIDBits = hex.EncodeToString(g.GNBID), g.BitLen
	a.notePLMN(g.PLMN)
	if ie := p.Find(iewalk.IDRANNodeName); ie != nil {
		n, err := iewalk.DecodeRANNodeName(ie.Value)
		if err != nil {
			return nil, a.viol("ngap-ie-decode:RANNodeName", "RANNodeName: %v", err)
		}
		a.Obs.GNBName, a.Obs.HasGNBName = n, true
	}
	tas, err := iewalk.DecodeSupportedTAList(p.Find(iewalk.IDSupportedTAList).Value)
	if err != nil {
		return nil, a.viol("ngap-ie-decode:SupportedTAList", "SupportedTAList: %v", err)
	}
	if _, err := iewalk.DecodePagingDRX(p.Find(iewalk.IDDefaultPagingDRX).Value); err != nil {
		return nil, a.viol("ngap-ie-decode:DefaultPagingDRX", "DefaultPagingDRX: %v", err)
	}
	served := false
	for _, ta := range tas {
		a.tacs = append(a.tacs, ta.TAC)
		for _, bp := range ta.PLMNs {
			a.notePLMN(bp.PLMN)
			if bp.PLMN == iewalk.PLMN(a.plmn) {
				served = true
			}
			for _, s := range bp.Slices {
				a.obs("TAC %x PLMN %s slice sst=%d sd=%x(%v)", ta.TAC, bp.PLMN, s.SST, s.SD, s.HasSD)
			}
		}
	}
	key := fmt.Sprintf("plmn-mismatch:mnc%d", len(a.sc.Prov.MNC))
	if g.PLMN != iewalk.PLMN(a.plmn) {
		return nil, a.viol(key, "NG Setup: GlobalGNB-ID carries PLMN %x (%s), the configured PLMN mcc=%s mnc=%s is %x", g.PLMN[:], g.PLMN, a.sc.Prov.MCC, a.sc.Prov.MNC, a.plmn[:])
	}
	if !served {
		return nil, a.viol(key, "NG Setup: no broadcast PLMN equals the PLMN this AMF serves (mcc=%s mnc=%s, %x): a conformant AMF answers NG SETUP FAILURE (unknown PLMN)", a.sc.Prov.MCC, a.sc.Prov.MNC, a.plmn[:])
	}
	a.announced = g.PLMN
	a.ngSetupDone = true
	a.Events = append(a.Events, Event{Kind: "ngsetup", UE: -1})
	b, err := a.buildNGSetupResponse()
	if err != nil {
		return nil, a.viol("harness", "cannot encode NGSetupResponse: %v", err)
	}
	return []dlMsg{{b, "NGSetupResponse"}}, nil
}

// checkULI verifies that the user location information repeats the announced PLMN.
func (a *AMF) checkULI(p *iewalk.PDU, msg string) *Violation {
	ie := p.Find(iewalk.IDUserLocationInformation)
	if ie == nil {
		return nil
	}
	u, err := iewalk.DecodeUserLocationInformation(ie.Value)
	if err != nil {
		return a.viol("ngap-ie-decode:UserLocationInformation", "%s: UserLocationInformation: %v", msg, err)
	}
	if u.NR == nil {
		a.obs("UserLocationInformation alternative %d (not NR)", u.Kind)
		return nil
	}
	a.notePLMN(u.NR.NRCGIPLMN)
	a.notePLMN(u.NR.TAIPLMN)
	if u.NR.NRCGIPLMN != iewalk.PLMN(a.announced) || u.NR.TAIPLMN != iewalk.PLMN(a.announced) {
		return a.viol(fmt.Sprintf("plmn-mismatch:mnc%d", len(a.sc.Prov.MNC)), "%s: user location carries PLMN %x / %x, NG Setup announced %x", msg, u.NR.NRCGIPLMN[:], u.NR.TAIPLMN[:], a.announced[:])
	}
	a.obs("ULI nr-cgi=%x tac=%x", u.NR.NRCellID, u.NR.TAC)
	return nil
}

func (a *AMF) ranID(p *iewalk.PDU, msg string) (uint64, *Violation) {
	id, err := iewalk.DecodeRANUENGAPID(p.Find(iewalk.IDRANUENGAPID).Value)
	if err != nil {
		return 0, a.viol("ngap-ie-decode:RAN-UE-NGAP-ID", "%s: RAN-UE-NGAP-ID: %v", msg, err)
	}
	return id, nil
}

// ueByIDs finds the UE a UE-associated message belongs to: both identifiers must be the
// pair this AMF assigned / the gNB announced.
func (a *AMF) ueByIDs(p *iewalk.PDU, msg string) (*ue, *Violation) {
	amf, err := iewalk.DecodeAMFUENGAPID(p.Find(iewalk.IDAMFUENGAPID).Value)
	if err != nil {
		return nil, a.viol("ngap-ie-decode:AMF-UE-NGAP-ID", "%s: AMF-UE-NGAP-ID: %v", msg, err)
	}
	ran, v := a.ranID(p, msg)
	if v != nil {
		return nil, v
	}
	u := a.byAMF[amf]
	if u == nil {
		if r := a.byRAN[ran]; r != nil {
			return nil, a.viol("amf-ue-ngap-id", "%s: AMF-UE-NGAP-ID %d was never assigned; RAN-UE-NGAP-ID %d belongs to the UE that was given %d", msg, amf, ran, r.amfID)
		}
		return nil, a.viol("amf-ue-ngap-id", "%s: AMF-UE-NGAP-ID %d / RAN-UE-NGAP-ID %d identify no UE of this AMF", msg, amf, ran)
	}
	if u.ranID != ran {
		return nil, a.viol("ran-ue-ngap-id", "%s: RAN-UE-NGAP-ID %d with AMF-UE-NGAP-ID %d, but that UE announced RAN-UE-NGAP-ID %d", msg, ran, amf, u.ranID)
	}
	return u, nil
}

// unprotect verifies the security envelope of an uplink NAS message of a UE with a
// security context: header type among allowed, SQN = expected COUNT mod 256, MAC valid at
// the expected COUNT under the keys the AMF derived.
func (a *AMF) unprotect(u *ue, nas []byte, msg string, allowed ...int) (*Envelope, *Violation) {
	e, err := ParseEnvelope(nas)
	if err != nil {
		return nil, a.viol("nas-decode", "%s: %v", msg, err)
	}
	if e.HeaderType == 0 {
		return e, nil
	}
	if !u.secured && !(u.state == stSMC) {
		return nil, a.viol("nas-protected-without-context", "%s: security protected NAS message (header type %d) before any security context exists", msg, e.HeaderType)
	}
	if e.HeaderType == 3 || e.HeaderType == 4 {
		// new security context: COUNT restarts (only legal for the Security Mode Complete)
		if u.state != stSMC {
			return nil, a.viol("nas-header-type", "%s: security header type %d (new 5G NAS security context) outside the security mode control procedure", msg, e.HeaderType)
		}
		u.ulNext = 0
	}
	want := u.ulNext
	macAt := func(c uint32) [4]byte {
		if u.intAlg == 1 {
			return refcrypto.EIA1(u.keys.KnasInt, c, 1, 0, e.Protected, 8*len(e.Protected))
		}
		return refcrypto.EIA2(u.keys.KnasInt, c, 1, 0, e.Protected)
	}
	if e.SQN != byte(want) {
		why := ""
		for _, cu := range a.Counts {
			if cu.UE == u.idx && cu.Kamf == u.kamfInst && byte(cu.Count) == e.SQN && macAt(cu.Count) == e.MAC {
				why = fmt.Sprintf(" — COUNT %d was already used under this K_AMF and the MAC verifies for it: COUNT reuse", cu.Count)
			}
		}
		return nil, a.viol("nas-count", "%s: sequence number %d on the wire, expected NAS COUNT %d (previous + 1)%s", msg, e.SQN, want, why)
	}
	if m := macAt(want); m != e.MAC {
		return nil, a.viol("nas-mac", "%s: MAC %x does not verify (expected %x at COUNT %d, BEARER 1, DIRECTION uplink, NIA%d under the K_NASint this AMF derived)", msg, e.MAC, m, want, u.intAlg)
	}
	ok := false
	for _, h := range allowed {
		if h == e.HeaderType {
			ok = true
		}
	}
	if !ok {
		return nil, a.viol("nas-header-type", "%s: security header type %d, legal here: %v", msg, e.HeaderType, allowed)
	}
	a.Counts = append(a.Counts, CountUse{UE: u.idx, Kamf: u.kamfInst, Count: want})
	a.Obs.ProtectedUL++
	u.ulNext = want + 1
	if u.encAlg != 0 && (e.HeaderType == 2 || e.HeaderType == 4) {
		// the AMF selected a non-null ciphering algorithm out of what the UE announced:
		// the message is deciphered with it (TS 33.501 6.4.4; COUNT, BEARER 1, DIRECTION uplink).
		// A UE that announced the algorithm but does not apply it yields a message that
		// does not decode, which the caller reports.
		e.Plain = u.crypt(want, 0, e.Plain)
		a.obs("deciphered with NEA%d at COUNT %d", u.encAlg, want)
	}
	a.obs("protected: header type %d, COUNT %d, MAC ok", e.HeaderType, want)
	return e, nil
}

// laterNAS: the network implements a later release of TS 24.501 and appends optional information elements this
// release does not list to a 5GMM message (UEChoice.LaterIEs of them): TLV elements with identifiers 3C/3D/3E, 0..4
// octets of value, behind every element of the table. A UE ignores IEs it does not comprehend (TS 24.501 7.7.1).
func laterNAS(ch UEChoice, msg []byte, salt int) []byte {
	out := append([]byte{}, msg...)
	for i := 0; i < ch.LaterIEs; i++ {
		n := (salt + 2*i) % 5
		out = append(out, byte(0x3c+(salt+i)%3), byte(n))
		for k := 0; k < n; k++ {
			out = append(out, byte(0x10*salt+k))
		}
	}
	return out
}

// crypt applies the selected ciphering algorithm (an involution) to a NAS message.
func (u *ue) crypt(count uint32, dir uint32, in []byte) []byte {
	switch u.encAlg {
	case 1:
		return refcrypto.EEA1(u.keys.KnasEnc, count, 1, dir, in, 8*len(in))
	case 2:
		return refcrypto.EEA2(u.keys.KnasEnc, count, 1, dir, in)
	}
	return append([]byte(nil), in...)
}

func (u *ue) protect(ht int, plain []byte) []byte {
	if ht == 3 || ht == 4 {
		u.dlNext = 0
	}
	if ht == 2 || ht == 4 {
		plain = u.crypt(u.dlNext, 1, plain)
	}
	p := append([]byte{byte(u.dlNext)}, plain...)
	var mac [4]byte
	if u.intAlg == 1 {
		mac = refcrypto.EIA1(u.keys.KnasInt, u.dlNext, 1, 1, p, 8*len(p))
	} else {
		mac = refcrypto.EIA2(u.keys.KnasInt, u.dlNext, 1, 1, p)
	}
	u.dlNext++
	return append(append([]byte{EPD5GMM, byte(ht)}, mac[:]...), p...)
}

func (a *AMF) snn() string {
	mcc, mnc := a.sc.Prov.MCC, a.sc.Prov.MNC
	if a.sc.Prov.ServingMCC != "" {
		mcc, mnc = a.sc.Prov.ServingMCC, a.sc.Prov.ServingMNC
	}
	if len(mnc) == 2 {
		mnc = "0" + mnc
	}
	return "5G:mnc" + mnc + ".mcc" + mcc + ".3gppnetwork.org"
}

func (a *AMF) onInitialUE(p *iewalk.PDU) ([]dlMsg, string, *Violation) {
	const msg = "InitialUEMessage"
	ran, v := a.ranID(p, msg)
	if v != nil {
		return nil, msg, v
	}
	if v := a.checkULI(p, msg); v != nil {
		return nil, msg, v
	}
	if c, ext, err := iewalk.DecodeRRCEstablishmentCause(p.Find(iewalk.IDRRCEstablishmentCause).Value); err != nil {
		return nil, msg, a.viol("ngap-ie-decode:RRCEstablishmentCause", "%s: RRCEstablishmentCause: %v", msg, err)
	} else {
		a.obs("RRCEstablishmentCause=%d ext=%v", c, ext)
	}
	if ie := p.Find(iewalk.IDUEContextRequest); ie != nil {
		if _, err := iewalk.DecodeUEContextRequest(ie.Value); err != nil {
			return nil, msg, a.viol("ngap-ie-decode:UEContextRequest", "%s: UEContextRequest: %v", msg, err)
		}
		a.obs("UEContextRequest=requested")
	}
	if ie := p.Find(iewalk.IDFiveGSTMSI); ie != nil {
		t, err := iewalk.DecodeFiveGSTMSI(ie.Value)
		if err != nil {
			return nil, msg, a.viol("ngap-ie-decode:FiveG-S-TMSI", "%s: FiveG-S-TMSI: %v", msg, err)
		}
		a.obs("FiveG-S-TMSI set=%d pointer=%d tmsi=%x", t.AMFSetID, t.AMFPointer, t.TMSI)
	}
	nas, err := iewalk.DecodeNASPDU(p.Find(iewalk.IDNASPDU).Value)
	if err != nil {
		return nil, msg, a.viol("ngap-ie-decode:NAS-PDU", "%s: NAS-PDU: %v", msg, err)
	}
	env, err := ParseEnvelope(nas)
	if err != nil {
		return nil, msg, a.viol("nas-decode", "%s: %v", msg, err)
	}
	if len(env.Plain) < 3 {
		return nil, msg, a.viol("nas-decode", "%s: NAS message too short", msg)
	}
	mt := int(env.Plain[2])
	what := msg + "/" + MTName(mt)
	existing := a.byRAN[ran]
	switch mt {
	case MTRegistrationRequest:
		if env.HeaderType != 0 {
			return nil, what, a.viol("nas-header-type", "%s: initial Registration Request with security header type %d but no security context is shared with this AMF", what, env.HeaderType)
		}
		if existing != nil && existing.state != stDeregistered {
			return nil, what, a.viol("ran-ue-ngap-id-reuse", "%s: RAN-UE-NGAP-ID %d is still in use by UE %d", what, ran, existing.idx)
		}
		return a.onRegistrationRequest(ran, env.Plain, what)
	case MTServiceRequest:
		if existing == nil {
			return nil, what, a.viol("prerequisite:service", "%s: Service Request under RAN-UE-NGAP-ID %d, which no registered UE uses", what, ran)
		}
		return a.onServiceRequest(existing, nas, what)
	}
	return nil, what, a.viol("nas-unexpected:"+MTName(mt), "%s: this NAS message cannot start an N1 signalling connection here", what)
}

func digits(s string) *big.Int {
	n, ok := new(big.Int).SetString(s, 10)
	if !ok {
		return big.NewInt(-1)
	}
	return n
}

func (a *AMF) onRegistrationRequest(ran uint64, plain []byte, what string) ([]dlMsg, string, *Violation) {
	m, err := ParsePlain5GMM(plain)
	if err != nil {
		return nil, what, a.viol("nas-decode", "%s: %v", what, err)
	}
	idx := len(a.ues)
	if idx >= len(a.sc.UEs) {
		return nil, what, a.viol("prerequisite:register", "%s: registration of a %d. UE, the scenario provisions %d", what, idx+1, len(a.sc.UEs))
	}
	a.obs("ngKSI=%d registration type=0x%x; optional IEs outside a NAS message container: %s", m.NgKSI, m.RegType, ieiList(m.Opt))
	id := m.Identity
	if id.Type != 1 || id.SUPIFormat != 0 {
		return nil, what, a.viol("suci-type", "%s: 5GS mobile identity type %d / SUPI format %d, expected a SUCI with SUPI format IMSI", what, id.Type, id.SUPIFormat)
	}
	var p3 [3]byte
	copy(p3[:], id.PLMN[:])
	a.notePLMN(p3)
	pv := a.sc.Prov
	if id.MCC != pv.MCC || id.MNC != pv.MNC {
		return nil, what, a.viol(fmt.Sprintf("plmn-mismatch:mnc%d", len(pv.MNC)), "%s: SUCI carries PLMN %x = mcc %s mnc %s, the configured subscriber has mcc %s mnc %s (%x)", what, id.PLMN, id.MCC, id.MNC, pv.MCC, pv.MNC, a.plmn[:])
	}
	if id.Scheme != 0 {
		return nil, what, a.viol("suci-scheme", "%s: SUCI protection scheme %d: this home network provisions the null scheme only", what, id.Scheme)
	}
	a.obs("SUCI routing indicator=%q scheme=%d key id=%d msin=%s", id.RoutingInd, id.Scheme, id.HNKeyID, id.MSIN)
	msin0 := pv.IMSI[3+len(pv.MNC):]
	if len(id.MSIN) != len(msin0) {
		return nil, what, a.viol("suci-msin", "%s: SUCI MSIN %q has %d digits, subscribers of this configuration have %d (IMSI %s)", what, id.MSIN, len(id.MSIN), len(msin0), pv.IMSI)
	}
	if idx == 0 && id.MSIN != msin0 {
		return nil, what, a.viol("suci-msin", "%s: first UE presents MSIN %s, the configured IMSI %s has MSIN %s", what, id.MSIN, pv.IMSI, msin0)
	}
	// the home network provisioned one subscriber per UE of the run, upwards from the configured
	// IMSI ("initial_imsi"; CreateUE: "the UE information should have been previously stored in
	// the core database"): any other MSIN is a subscriber this network does not know
	if off := new(big.Int).Sub(digits(id.MSIN), digits(msin0)); off.Sign() < 0 || off.Cmp(big.NewInt(int64(len(a.sc.UEs)))) >= 0 {
		return nil, what, a.viol("suci-msin", "%s: UE %d presents MSIN %s: not one of the %d subscribers provisioned upwards from the configured IMSI %s (MSIN %s)", what, idx, id.MSIN, len(a.sc.UEs), pv.IMSI, msin0)
	}
	supi := id.MCC + id.MNC + id.MSIN
	if a.sc.Policy.DistinctSUPI {
		for _, o := range a.ues {
			if o.supi == supi {
				return nil, what, a.viol("supi-not-distinct", "%s: UE %d (RAN-UE-NGAP-ID %d) presents SUPI imsi-%s, which UE %d (RAN-UE-NGAP-ID %d) already uses", what, idx, ran, supi, o.idx, o.ranID)
			}
		}
	}
	if m.UESecCap == nil || len(m.UESecCap) < 2 {
		return nil, what, a.viol("no-ue-security-capability", "%s: no UE security capability: a conformant AMF rejects the registration (5GMM cause #23)", what)
	}
	u := &ue{idx: idx, ch: a.sc.UEs[idx], ranID: ran, amfID: a.sc.UEs[idx].AMFUEID, supi: supi, state: stAuth, secCap: m.UESecCap, suciRaw: append([]byte{}, m.Identity.Raw...)}
	// algorithm selection: the AMF's priority lists, restricted to what the UE advertises
	u.intAlg = -1
	intPrio, encPrio := []int{2, 1}, []int{0, 2, 1}
	if len(u.ch.IntPrio) > 0 {
		intPrio = u.ch.IntPrio
	}
	if len(u.ch.EncPrio) > 0 {
		encPrio = u.ch.EncPrio
	}
	for _, alg := range intPrio {
		if m.UESecCap[1]&(0x80>>uint(alg)) != 0 {
			u.intAlg = alg
			break
		}
	}
	u.encAlg = -1
	for _, alg := range encPrio {
		if m.UESecCap[0]&(0x80>>uint(alg)) != 0 {
			u.encAlg = alg
			break
		}
	}
	if u.intAlg < 0 || u.encAlg < 0 {
		return nil, what, a.viol("no-ue-security-capability", "%s: UE security capability %x offers no algorithm this AMF supports", what, m.UESecCap)
	}
	ch := u.ch
	rb, err1 := mustHex(ch.RAND, 16, "rand")
	sb, err2 := mustHex(ch.SQN, 6, "sqn")
	fb, err3 := mustHex(ch.AMFField, 2, "amf")
	for _, e := range []error{err1, err2, err3} {
		if e != nil {
			return nil, what, a.viol("harness", "%v", e)
		}
	}
	copy(u.rand[:], rb)
	var sqn [6]byte
	copy(sqn[:], sb)
	amf := [2]byte{fb[0] | 0x80, fb[1]} // separation bit set: 5G AKA
	mo := refcrypto.Milenage(a.k, a.opc, u.rand, sqn, amf)
	for i := 0; i < 6; i++ {
		u.sqnXorAK[i] = sqn[i] ^ mo.AK[i]
	}
	copy(u.autn[0:6], u.sqnXorAK[:])
	copy(u.autn[6:8], amf[:])
	copy(u.autn[8:16], mo.MacA[:])
	u.ck, u.ik, u.res = mo.CK, mo.IK, mo.Res
	u.keys = refcrypto.Derive5G(u.ck, u.ik, u.res, u.rand, u.sqnXorAK, a.snn(), supi, byte(u.encAlg), byte(u.intAlg))
	u.xresStar = u.keys.ResStar
	a.kamfSeq++
	u.kamfInst = a.kamfSeq
	var tm [4]byte
	tm[0], tm[1], tm[2], tm[3] = byte(ch.TMSI>>24), byte(ch.TMSI>>16), byte(ch.TMSI>>8), byte(ch.TMSI)
	u.guti = Build5GGUTI(a.guamiPLMN(), byte(a.sc.NGSetup.AMFRegion), uint16(a.sc.NGSetup.AMFSet), byte(a.sc.NGSetup.AMFPointer), tm)
	a.ues = append(a.ues, u)
	a.byRAN[ran] = u
	a.byAMF[u.amfID] = u
	a.Obs.SUPIs = append(a.Obs.SUPIs, supi)
	a.Obs.RANIDs = append(a.Obs.RANIDs, ran)
	nas := laterNAS(ch, BuildAuthenticationRequest(ch.NgKSI, []byte{0, 0}, u.rand, u.autn), 1)
	b, err := a.buildDownlinkNASTransport(u, nas, ch.Options&(OptDLOldAMF|OptDLRANPagingPrio))
	if err != nil {
		return nil, what, a.viol("harness", "cannot encode DownlinkNASTransport: %v", err)
	}
	return []dlMsg{{b, fmt.Sprintf("DownlinkNASTransport/AuthenticationRequest ue=%d", u.idx)}}, fmt.Sprintf("%s ue=%d", what, idx), nil
}

func (a *AMF) onServiceRequest(u *ue, nas []byte, what string) ([]dlMsg, string, *Violation) {
	what = fmt.Sprintf("%s ue=%d", what, u.idx)
	if u.state != stRegistered {
		return nil, what, a.viol("prerequisite:service", "%s: Service Request from a UE that is not registered (state %d)", what, u.state)
	}
	if u.refusedOnce && u.sess != ssActive {
		// (test mode requests services only for UEs with an established session: service count = min(established, ue_service))
		return nil, what, a.viol("prerequisite:service-without-session", "%s: Service Request for a UE whose PDU session the network refused (session state %d)", what, u.sess)
	}
	env, v := a.unprotect(u, nas, what, 1, 2)
	if v != nil {
		return nil, what, v
	}
	if env.HeaderType == 0 {
		return nil, what, a.viol("nas-header-type", "%s: Service Request sent without integrity protection although a security context exists", what)
	}
	m, err := ParsePlain5GMM(env.Plain)
	if err != nil {
		return nil, what, a.viol("nas-decode", "%s: %v", what, err)
	}
	a.obs("Service Request arrives in an InitialUEMessage while this AMF still holds the UE's N2 context; the UE is found by its RAN-UE-NGAP-ID and proven by the NAS MAC")
	a.obs("service type=%d ngKSI=%d (AMF assigned %d) 5G-S-TMSI raw=%x (assigned GUTI %x); optional IEs outside a NAS message container: %s", m.ServiceType, m.NgKSI, u.ch.NgKSI, m.Identity.Raw, u.guti, ieiList(m.Opt))
	if m.NgKSI != u.ch.NgKSI {
		a.ne("service-ngksi", "ngKSI %d in the Service Request, the AMF assigned %d", m.NgKSI, u.ch.NgKSI)
	}
	if len(m.Identity.Raw) != 7 || m.Identity.Type != 4 || !bytes.Equal(m.Identity.Raw[1:], u.guti[5:]) {
		a.ne("service-5g-s-tmsi", "5G-S-TMSI %x (type of identity %d) is not the one of the assigned 5G-GUTI %x", m.Identity.Raw, m.Identity.Type, u.guti)
	}
	if ie := findIE(m.Opt, 0x40); ie != nil {
		a.obs("uplink data status=%x (session identity of this UE: %d, state %d)", ie.Value, u.psi, u.sess)
		if len(ie.Value) == 2 && u.sess == ssActive && !(u.psi < 16 && ie.Value[u.psi/8]&(1<<uint(u.psi%8)) != 0) {
			a.ne("uplink-data-status", "uplink data status %x does not name the UE's active session %d", ie.Value, u.psi)
		}
	}
	if len(m.Opt) > 0 {
		a.ne("cleartext-ies", "Service Request carries optional IEs %s outside a NAS message container", ieiList(m.Opt))
	}
	var status []byte
	if u.ch.Has(OptSvcPDUStatus) {
		status = []byte{0, 0}
		if u.sess == ssActive && u.psi < 16 {
			status[u.psi/8] |= 1 << uint(u.psi%8)
		}
	}
	acc := u.protect(2, laterNAS(u.ch, BuildServiceAccept(status), 5))
	var sessions = a.svcSessions(u)
	b, err := a.buildInitialContextSetupRequest(u, acc, 0, sessions)
	if err != nil {
		return nil, what, a.viol("harness", "cannot encode InitialContextSetupRequest: %v", err)
	}
	u.pendingSvcICS = true
	return []dlMsg{{b, fmt.Sprintf("InitialContextSetupRequest/ServiceAccept ue=%d", u.idx)}}, what, nil
}

func (a *AMF) onUplinkNAS(p *iewalk.PDU) ([]dlMsg, string, *Violation) {
	const msg = "UplinkNASTransport"
	u, v := a.ueByIDs(p, msg)
	if v != nil {
		return nil, msg, v
	}
	if v := a.checkULI(p, msg); v != nil {
		return nil, msg, v
	}
	nas, err := iewalk.DecodeNASPDU(p.Find(iewalk.IDNASPDU).Value)
	if err != nil {
		return nil, msg, a.viol("ngap-ie-decode:NAS-PDU", "%s: NAS-PDU: %v", msg, err)
	}
	env0, err := ParseEnvelope(nas)
	if err != nil {
		return nil, msg, a.viol("nas-decode", "%s: %v", msg, err)
	}
	if len(env0.Plain) < 3 {
		return nil, msg, a.viol("nas-decode", "%s: NAS message too short", msg)
	}
	mt := int(env0.Plain[2])
	if u.encAlg > 0 && (env0.HeaderType == 2 || env0.HeaderType == 4) && (u.secured || u.state == stSMC) {
		// a non-null ciphering algorithm was selected: the message type is only visible after
		// deciphering at the COUNT the AMF expects (0 under a new security context)
		c := u.ulNext
		if env0.HeaderType == 4 {
			c = 0
		}
		mt = int(u.crypt(c, 0, env0.Plain)[2])
	}
	what := fmt.Sprintf("%s/%s ue=%d", msg, MTName(mt), u.idx)
	if u.state == stDeregistered || u.state == stDeregSent {
		return nil, what, a.viol("prerequisite:deregistered", "%s: NAS message from a UE that has deregistered", what)
	}
	legal := func(ok bool) *Violation {
		if !ok {
			return a.viol("nas-state:"+MTName(mt), "%s: message not legal in the UE's 5GMM state %d", what, u.state)
		}
		return nil
	}
	switch mt {
	case MTAuthenticationResp:
		if v := legal(u.state == stAuth); v != nil {
			return nil, what, v
		}
		if env0.HeaderType != 0 {
			return nil, what, a.viol("nas-header-type", "%s: protected Authentication Response before a security context exists", what)
		}
		m, err := ParsePlain5GMM(env0.Plain)
		if err != nil {
			return nil, what, a.viol("nas-decode", "%s: %v", what, err)
		}
		if !bytes.Equal(m.ResStar, u.xresStar) {
			return nil, what, a.viol("res-star", "%s: RES* %x differs from XRES* %x (K, OP/OPc of the configuration; RAND %x; serving network name %s)", what, m.ResStar, u.xresStar, u.rand, a.snn())
		}
		a.Obs.ResStarOK++
		u.state = stSMC
		smc := laterNAS(u.ch, BuildSecurityModeCommand(u.encAlg, u.intAlg, u.ch.NgKSI, u.secCap, u.ch.Has(OptSMCIMEISVReq), u.ch.Has(OptSMCRINMR)), 2)
		b, err := a.buildDownlinkNASTransport(u, u.protect(3, smc), u.ch.Options&(OptDLMobilityRestr|OptDLIndexToRFSP|OptDLUEAMBR))
		if err != nil {
			return nil, what, a.viol("harness", "cannot encode DownlinkNASTransport: %v", err)
		}
		return []dlMsg{{b, fmt.Sprintf("DownlinkNASTransport/SecurityModeCommand ue=%d", u.idx)}}, what, nil

	case MTSecurityModeComplete:
		if v := legal(u.state == stSMC); v != nil {
			return nil, what, v
		}
		if env0.HeaderType == 0 {
			return nil, what, a.viol("nas-header-type", "%s: Security Mode Complete sent plain; it must be integrity protected and ciphered with the new 5G NAS security context (header type 4)", what)
		}
		env, v := a.unprotect(u, nas, what, 4)
		if v != nil {
			return nil, what, v
		}
		m, err := ParsePlain5GMM(env.Plain)
		if err != nil {
			return nil, what, a.viol("nas-decode", "%s: %v", what, err)
		}
		if ie := findIE(m.Opt, 0x77); ie != nil {
			a.obs("IMEISV=%x", ie.Value)
		}
		if m.NASContainer != nil {
			if in, err := ParsePlain5GMM(m.NASContainer); err == nil && in.Type == MTRegistrationRequest {
				a.obs("NAS message container: RegistrationRequest, identity %x", in.Identity.Raw)
				// the container holds the COMPLETE initial message (TS 24.501 4.4.6): the cleartext IEs again, with the
				// values they had in the clear, plus the rest. This copy is the registration request the AMF acts on.
				if !bytes.Equal(in.Identity.Raw, u.suciRaw) {
					return nil, what, a.viol("container-identity", "%s: the registration request in the NAS message container names %x, the cleartext one named %x", what, in.Identity.Raw, u.suciRaw)
				}
				if in.UESecCap != nil && !bytes.Equal(in.UESecCap, u.secCap) {
					return nil, what, a.viol("container-seccap", "%s: the registration request in the NAS message container advertises UE security capability %x, the cleartext one (replayed in the Security Mode Command) %x", what, in.UESecCap, u.secCap)
				}
			} else {
				a.obs("NAS message container: %x", m.NASContainer)
			}
		}
		u.secured = true
		u.ulAtSMC = 0
		u.state = stRegAccept
		u.pendingICSResp, u.pendingRegComplete = true, true
		var tai []byte
		if u.ch.Has(OptRegAcceptTAIList) {
			tai = cat([]byte{0x00}, a.plmn[:], []byte{0, 0, 1})
		}
		var allowed [][]byte
		if u.ch.Has(OptRegAcceptNSSAI) {
			allowed = [][]byte{NASSNSSAI(a.sst, a.sd)}
		}
		t3512 := -1
		if u.ch.Has(OptRegAcceptT3512) {
			t3512 = 0x5e
		}
		ra := laterNAS(u.ch, BuildRegistrationAccept(u.guti, tai, allowed, u.ch.Has(OptRegAcceptNwFeat), t3512), 3)
		b, err := a.buildInitialContextSetupRequest(u, u.protect(2, ra), u.ch.Options, nil)
		if err != nil {
			return nil, what, a.viol("harness", "cannot encode InitialContextSetupRequest: %v", err)
		}
		return []dlMsg{{b, fmt.Sprintf("InitialContextSetupRequest/RegistrationAccept ue=%d", u.idx)}}, what, nil
	}

	// everything else needs the security context
	if !u.secured {
		return nil, what, a.viol("nas-state:"+MTName(mt), "%s: message not legal before the security mode control procedure completed (5GMM state %d)", what, u.state)
	}
	if env0.HeaderType == 0 {
		return nil, what, a.viol("nas-header-type", "%s: sent plain although a security context exists", what)
	}
	switch mt {
	case MTRegistrationComplete:
		if v := legal(u.state == stRegAccept && u.pendingRegComplete); v != nil {
			return nil, what, v
		}
		env, v := a.unprotect(u, nas, what, 2)
		if v != nil {
			return nil, what, v
		}
		if _, err := ParsePlain5GMM(env.Plain); err != nil {
			return nil, what, a.viol("nas-decode", "%s: %v", what, err)
		}
		u.pendingRegComplete = false
		u.state = stRegistered
		a.Events = append(a.Events, Event{Kind: "register", UE: u.idx})
		var guti, name []byte
		if u.ch.Has(OptCUCGUTI) {
			guti = u.guti
		}
		if u.ch.Has(OptCUCName) {
			name = []byte{0x80, 'r', 'e', 'f'}
		}
		cuc := laterNAS(u.ch, BuildConfigurationUpdateCommand(guti != nil, guti, name), 4)
		b, err := a.buildDownlinkNASTransport(u, u.protect(2, cuc), u.ch.Options&OptDLAllowedNSSAI)
		if err != nil {
			return nil, what, a.viol("harness", "cannot encode DownlinkNASTransport: %v", err)
		}
		return []dlMsg{{b, fmt.Sprintf("DownlinkNASTransport/ConfigurationUpdateCommand ue=%d", u.idx)}}, what, nil

	case MTULNASTransport:
		if v := legal(u.state == stRegistered); v != nil {
			return nil, what, v
		}
		env, v := a.unprotect(u, nas, what, 1, 2)
		if v != nil {
			return nil, what, v
		}
		return a.onULNASTransport(u, env.Plain, what)

	case MTDeregRequestUEOrig:
		if v := legal(u.state == stRegistered); v != nil {
			return nil, what, v
		}
		env, v := a.unprotect(u, nas, what, 1, 2)
		if v != nil {
			return nil, what, v
		}
		m, err := ParsePlain5GMM(env.Plain)
		if err != nil {
			return nil, what, a.viol("nas-decode", "%s: %v", what, err)
		}
		a.obs("de-registration type=0x%x ngKSI=%d (AMF assigned %d)", m.DeregType, m.NgKSI, u.ch.NgKSI)
		if m.NgKSI != u.ch.NgKSI {
			a.ne("dereg-ngksi", "ngKSI %d in the De-registration Request, the AMF assigned %d", m.NgKSI, u.ch.NgKSI)
		}
		switch m.Identity.Type {
		case 1:
			if m.Identity.SUPIFormat == 0 {
				if got := m.Identity.MCC + m.Identity.MNC + m.Identity.MSIN; got != u.supi {
					return nil, what, a.viol("supi-changed", "%s: de-registration names SUPI imsi-%s, this UE registered as imsi-%s", what, got, u.supi)
				}
			}
		case 2:
			if !bytes.Equal(m.Identity.Raw, u.guti) {
				return nil, what, a.viol("supi-changed", "%s: de-registration names 5G-GUTI %x, this UE was assigned %x", what, m.Identity.Raw, u.guti)
			}
		default:
			a.obs("de-registration identity type %d", m.Identity.Type)
		}
		var out []dlMsg
		if m.DeregType&0x8 == 0 { // not switch-off: the network answers
			b, err := a.buildDownlinkNASTransport(u, u.protect(2, BuildDeregistrationAccept()), 0)
			if err != nil {
				return nil, what, a.viol("harness", "cannot encode DownlinkNASTransport: %v", err)
			}
			out = append(out, dlMsg{b, fmt.Sprintf("DownlinkNASTransport/DeregistrationAccept ue=%d", u.idx)})
		}
		b, err := a.buildUEContextReleaseCommand(u)
		if err != nil {
			return nil, what, a.viol("harness", "cannot encode UEContextReleaseCommand: %v", err)
		}
		out = append(out, dlMsg{b, fmt.Sprintf("UEContextReleaseCommand ue=%d", u.idx)})
		u.state = stDeregSent
		u.pendCtxRelCpl = true
		if u.sess == ssActive || u.sess == ssSetupSent || u.sess == ssReleasePending {
			a.obs("session %d released implicitly by the de-registration", u.psi)
			u.sess = ssReleased
		}
		return out, what, nil
	}
	return nil, what, a.viol("nas-unexpected:"+MTName(mt), "%s: message type not handled by an AMF in these procedures", what)
}

func (a *AMF) onULNASTransport(u *ue, plain []byte, what string) ([]dlMsg, string, *Violation) {
	m, err := ParsePlain5GMM(plain)
	if err != nil {
		return nil, what, a.viol("nas-decode", "%s: %v", what, err)
	}
	if m.PayloadType != 1 {
		return nil, what, a.viol("nas-payload-type", "%s: payload container type %d, expected N1 SM information", what, m.PayloadType)
	}
	sm, err := Parse5GSM(m.Payload)
	if err != nil {
		return nil, what, a.viol("nas-decode", "%s: %v", what, err)
	}
	what = fmt.Sprintf("%s/%s", what, MTName(sm.Type))
	if !m.HasPSI {
		return nil, what, a.viol("psi-missing", "%s: UL NAS TRANSPORT carries N1 SM information without a PDU session ID", what)
	}
	if m.PSI != sm.SMPSI {
		return nil, what, a.viol("psi-inconsistent", "%s: PDU session identity %d in the UL NAS TRANSPORT header, %d in the 5GSM message", what, m.PSI, sm.SMPSI)
	}
	a.obs("PSI=%d PTI=%d request type=%d(%v) DNN=%q", sm.SMPSI, sm.SMPTI, m.ReqType, m.HasReqType, m.DNN)
	if sm.SMPSI < 1 || sm.SMPSI > 15 {
		a.ne("psi-outside-1..15", "PDU session identity %d is outside 1..15 (TS 24.007 11.2.3.1b)", sm.SMPSI)
	}
	// TS 24.501 7.3.1 d), e): a UE-requested 5GSM transaction (establishment, modification or release request)
	// whose PTI is the unassigned value 0 or the reserved value 255 is answered with 5GSM STATUS #81
	// "invalid PTI value" - the SMF does not accept the message
	if (sm.Type == MTPDUSessionEstRequest || sm.Type == MTPDUSessionReleaseRequest) && (sm.SMPTI == 0 || sm.SMPTI == 255) {
		return nil, what, a.viol("5gsm-pti", "%s: procedure transaction identity %d is %s (TS 24.007 11.2.3.1a): a conformant SMF answers a UE-requested transaction that carries it with 5GSM STATUS #81 \"invalid PTI value\" (TS 24.501 7.3.1)", what, sm.SMPTI, map[int]string{0: "the value \"no procedure transaction identity assigned\"", 255: "reserved"}[sm.SMPTI])
	}
	if m.DNN != nil && (len(m.DNN) == 0 || !labelsOK(m.DNN)) {
		a.ne("dnn-coding", "DNN %q is not coded as length-prefixed labels", m.DNN)
	}
	switch sm.Type {
	case MTPDUSessionEstRequest:
		if u.sess != ssInactive {
			return nil, what, a.viol("sm-state:establish", "%s: establishment request while the UE's session is in state %d", what, u.sess)
		}
		if m.SNSSAI != nil {
			a.Obs.SNSSAIs = append(a.Obs.SNSSAIs, hex.EncodeToString(m.SNSSAI))
			want := NASSNSSAI(a.sst, a.sd)
			if len(a.sd) == 3 && !bytes.Equal(m.SNSSAI, want) {
				return nil, what, a.viol("snssai", "%s: requested S-NSSAI %x, the configuration names sst=%d sd=%s (%x)", what, m.SNSSAI, a.sst, a.sc.Prov.SD, want)
			}
			if len(a.sd) != 3 {
				if len(m.SNSSAI) < 1 || m.SNSSAI[0] != a.sst {
					return nil, what, a.viol("snssai", "%s: requested S-NSSAI %x, the configuration names sst=%d", what, m.SNSSAI, a.sst)
				}
				a.obs("configuration has no SD; S-NSSAI on the wire: %x", m.SNSSAI)
			}
		} else {
			a.Obs.SNSSAIs = append(a.Obs.SNSSAIs, "")
			a.obs("no S-NSSAI in the UL NAS TRANSPORT")
		}
		u.psi, u.pti = sm.SMPSI, sm.SMPTI
		a.Obs.PSIs = append(a.Obs.PSIs, u.psi)
		ch := u.ch
		if ch.Refuse == "reject" || (ch.Refuse == "congestion" && !u.refusedOnce) {
			u.refusedOnce = true
			var n1 []byte
			if ch.Refuse == "reject" {
				// PDU SESSION ESTABLISHMENT REJECT (TS 24.501 8.3.3): EPD, PSI, PTI, type 0xC3, 5GSM cause #26
				n1 = BuildDLNASTransport(1, []byte{EPD5GSM, byte(u.psi), byte(u.pti), 0xc3, 26}, u.psi)
			} else {
				// the request is returned unforwarded: payload container as received, PSI, 5GMM cause #22, back-off timer
				n1 = append(BuildDLNASTransport(1, m.Payload, u.psi), 0x58, 22, 0x37, 0x01, 0x21)
			}
			b, err := a.buildDownlinkNASTransport(u, u.protect(2, n1), 0)
			if err != nil {
				return nil, what, a.viol("harness", "cannot encode DownlinkNASTransport: %v", err)
			}
			a.Events = append(a.Events, Event{Kind: "refused", UE: u.idx})
			return []dlMsg{{b, fmt.Sprintf("DownlinkNASTransport/DLNASTransport/%s ue=%d psi=%d", ch.Refuse, u.idx, u.psi)}}, what, nil
		}
		var err1, err2 error
		u.ueIP, err1 = parseIPv4(ch.UEIP)
		u.upfIP, err2 = parseIPv4(ch.UPFIP)
		if err1 != nil || err2 != nil {
			return nil, what, a.viol("harness", "%v %v", err1, err2)
		}
		sp := SessionParams{SSCMode: ch.SSCMode, Cause: ch.Cause5GSM, UEIP: u.ueIP, RQTimer: -1, AlwaysOn: -1, DNN: ch.DNN}
		nr := ch.NQoSRules
		if nr < 1 {
			nr = 1
		}
		for i := 0; i < nr; i++ {
			nf := ch.NFilters
			if i == 0 && nf < 1 {
				nf = 1
			}
			sp.QoSRules = append(sp.QoSRules, QoSRule(i+1, i == 0, nf, 255-i, 9)...)
		}
		sp.AMBR = nasAMBR(ch.AMBRDL, ch.AMBRUL)
		if ch.Has(OptAcceptRQTimer) {
			sp.RQTimer = 0x21
		}
		if ch.Has(OptAcceptSNSSAI) {
			sp.SNSSAI = NASSNSSAI(a.sst, a.sd)
		}
		if ch.Has(OptAcceptAlwaysOn) {
			sp.AlwaysOn = 0
		}
		for i := 0; i < ch.NFlowDescs; i++ {
			sp.QoSFlowDescs = append(sp.QoSFlowDescs, QoSFlowDescription(9+i, 9, ch.FlowParams)...)
		}
		if ch.LaterIEs > 0 {
			// an SMF of Release 16: further optional IEs behind those of Release 15
			k := u.idx + ch.LaterIEs
			if k&1 != 0 {
				sp.Rel16 = append(sp.Rel16, 0x17, 0x01, 0x01)
			}
			rate := [][]byte{{0x00, 0x29}, {0x22, 0xff}, {0x00, 0x64}}[k%3]
			sp.Rel16 = append(sp.Rel16, 0x18, 0x02, rate[0], rate[1])
			if k&2 != 0 {
				sp.Rel16 = append(sp.Rel16, 0xC1)
			}
			if k&4 != 0 {
				sp.Rel16 = append(sp.Rel16, 0x1F, 0x01, 0x00)
			}
		}
		acc := BuildPDUSessionEstablishmentAccept(u.psi, u.pti, sp)
		dl := u.protect(2, BuildDLNASTransport(1, acc, u.psi))
		tr, err := a.buildSetupRequestTransfer(u)
		if err != nil {
			return nil, what, a.viol("harness", "cannot encode the setup request transfer: %v", err)
		}
		b, err := a.buildPDUSessionResourceSetupRequest(u, u.psi, dl, tr)
		if err != nil {
			return nil, what, a.viol("harness", "cannot encode PDUSessionResourceSetupRequest: %v", err)
		}
		u.sess = ssSetupSent
		return []dlMsg{{b, fmt.Sprintf("PDUSessionResourceSetupRequest/DLNASTransport/PDUSessionEstablishmentAccept ue=%d psi=%d", u.idx, u.psi)}}, what, nil

	case MTPDUSessionReleaseRequest:
		if u.sess != ssActive {
			return nil, what, a.viol("sm-state:release", "%s: release request while the UE's session is in state %d (no active session)", what, u.sess)
		}
		if sm.SMPSI != u.psi {
			return nil, what, a.viol("psi-inconsistent", "%s: release of PDU session %d, the UE's session was established as %d", what, sm.SMPSI, u.psi)
		}
		cause := u.ch.ReleaseCause
		if cause <= 0 {
			cause = 36
		}
		u.relPTI = sm.SMPTI
		rc := BuildPDUSessionReleaseCommand(u.psi, sm.SMPTI, cause)
		dl := u.protect(2, BuildDLNASTransport(1, rc, u.psi))
		b, err := a.buildPDUSessionResourceReleaseCommand(u, u.psi, dl)
		if err != nil {
			return nil, what, a.viol("harness", "cannot encode PDUSessionResourceReleaseCommand: %v", err)
		}
		u.sess = ssReleasePending
		u.pendRelResp, u.pendRelCompl = true, true
		return []dlMsg{{b, fmt.Sprintf("PDUSessionResourceReleaseCommand/DLNASTransport/PDUSessionReleaseCommand ue=%d psi=%d", u.idx, u.psi)}}, what, nil

	case MTPDUSessionReleaseCompl:
		if u.sess != ssReleasePending || !u.pendRelCompl {
			return nil, what, a.viol("sm-state:release-complete", "%s: release complete while the UE's session is in state %d", what, u.sess)
		}
		if sm.SMPSI != u.psi {
			return nil, what, a.viol("psi-inconsistent", "%s: release complete for PDU session %d, the session being released is %d", what, sm.SMPSI, u.psi)
		}
		// TS 24.501 7.3.1 b): the PTI of the release complete is the one of the release command,
		// which echoed the UE's release request; anything else is answered with 5GSM STATUS #47
		if sm.SMPTI != u.relPTI {
			return nil, what, a.viol("5gsm-pti-mismatch", "%s: procedure transaction identity %d in the release complete, the release command carried %d (that of the UE's release request): 5GSM STATUS #47 \"PTI mismatch\" (TS 24.501 7.3.1)", what, sm.SMPTI, u.relPTI)
		}
		u.pendRelCompl = false
		a.finishRelease(u)
		return nil, what, nil
	}
	return nil, what, a.viol("nas-unexpected:"+MTName(sm.Type), "%s: 5GSM message type not handled in these procedures", what)
}

func (a *AMF) finishRelease(u *ue) {
	if !u.pendRelResp && !u.pendRelCompl {
		u.sess = ssReleased
		a.Events = append(a.Events, Event{Kind: "release", UE: u.idx})
	}
}

// nasAMBR: session-AMBR (TS 24.501 9.11.4.14): unit + 16-bit value per direction; the
// unit is chosen as the smallest multiple of 1 kbps * 4^k that fits.
func nasAMBR(dl, ul uint64) (o [6]byte) {
	enc := func(bps uint64) (unit byte, val uint16) {
		kbps := bps / 1000
		unit = 1 // 1 kbps
		for kbps > 0xffff && unit < 25 {
			kbps /= 4
			unit++
		}
		if kbps > 0xffff {
			kbps = 0xffff
		}
		if kbps == 0 {
			kbps = 1
		}
		return unit, uint16(kbps)
	}
	u1, v1 := enc(dl)
	u2, v2 := enc(ul)
	o = [6]byte{u1, byte(v1 >> 8), byte(v1), u2, byte(v2 >> 8), byte(v2)}
	return
}

// checkTransfer verifies the gNB's N3 endpoint in a PDUSessionResourceSetupResponseTransfer.
func (a *AMF) checkTransfer(tr []byte, what string) *Violation {
	t, err := iewalk.DecodePDUSessionResourceSetupResponseTransfer(tr)
	if err != nil {
		return a.viol("ngap-ie-decode:PDUSessionResourceSetupResponseTransfer", "%s: transfer %x: %v", what, tr, err)
	}
	a.Obs.GTPAddrs = append(a.Obs.GTPAddrs, fmt.Sprintf("%x/%d", t.Tunnel.Address, t.Tunnel.AddressLen))
	a.obs("gNB tunnel address=%x/%d TEID=%x flows=%v", t.Tunnel.Address, t.Tunnel.AddressLen, t.Tunnel.TEID, t.Flows)
	if a.sc.Prov.GnbGTP != "" {
		if t.Tunnel.AddressLen != 32 || !bytes.Equal(t.Tunnel.Address, a.gtp[:]) {
			return a.viol("gtp-address", "%s: transfer carries transport layer address %x/%d bits, the configured gNB GTP address is %s (%x)", what, t.Tunnel.Address, t.Tunnel.AddressLen, a.sc.Prov.GnbGTP, a.gtp[:])
		}
	}
	return nil
}

func (a *AMF) onICSResponse(p *iewalk.PDU) (string, *Violation) {
	const msg = "InitialContextSetupResponse"
	u, v := a.ueByIDs(p, msg)
	if v != nil {
		return msg, v
	}
	what := fmt.Sprintf("%s ue=%d", msg, u.idx)
	var items, failed []iewalk.SessionItem
	var err error
	if ie := p.Find(iewalk.IDPDUSessionResourceSetupListCxtRes); ie != nil {
		if items, err = iewalk.DecodePDUSessionResourceSetupListCxtRes(ie.Value); err != nil {
			return what, a.viol("ngap-ie-decode:PDUSessionResourceSetupListCxtRes", "%s: %v", what, err)
		}
	}
	if ie := p.Find(iewalk.IDPDUSessionResourceFailedToSetupListCxtRes); ie != nil {
		if failed, err = iewalk.DecodePDUSessionResourceFailedToSetupListCxtRes(ie.Value); err != nil {
			return what, a.viol("ngap-ie-decode:PDUSessionResourceFailedToSetupListCxtRes", "%s: %v", what, err)
		}
	}
	switch {
	case u.pendingICSResp:
		u.pendingICSResp = false
		if len(items)+len(failed) > 0 {
			a.obs("session lists in the response to a request that set up no session: %v %v", items, failed)
		}
		return what + " (registration)", nil
	case u.pendingSvcICS:
		u.pendingSvcICS = false
		if len(items) > 0 && !(u.ch.Has(OptSvcReactivate) && u.sess == ssActive) {
			a.ne("unsolicited-cxtres-list", "the response lists %d session(s) although the request carried no PDUSessionResourceSetupListCxtReq", len(items))
		}
		for _, it := range items {
			if u.sess == ssActive || u.sess == ssReleasePending {
				if it.PDUSessionID != u.psi {
					return what, a.viol("psi-inconsistent", "%s: response reports PDU session %d, the UE's session was established as %d", what, it.PDUSessionID, u.psi)
				}
			} else {
				a.obs("response reports PDU session %d although the UE has no active session", it.PDUSessionID)
			}
			if v := a.checkTransfer(it.Transfer, what); v != nil {
				return what, v
			}
		}
		if len(failed) > 0 {
			a.obs("failed-to-setup list: %v", failed)
		}
		a.Events = append(a.Events, Event{Kind: "service", UE: u.idx})
		return what + " (service request)", nil
	}
	return what, a.viol("ngap-state:InitialContextSetupResponse", "%s: no Initial Context Setup Request is outstanding for this UE", what)
}

func (a *AMF) onSetupResponse(p *iewalk.PDU) (string, *Violation) {
	const msg = "PDUSessionResourceSetupResponse"
	u, v := a.ueByIDs(p, msg)
	if v != nil {
		return msg, v
	}
	what := fmt.Sprintf("%s ue=%d", msg, u.idx)
	if u.sess != ssSetupSent {
		return what, a.viol("ngap-state:PDUSessionResourceSetupResponse", "%s: no PDU Session Resource Setup Request is outstanding (session state %d)", what, u.sess)
	}
	if a.HeldSetup[u.idx] {
		return what, a.viol("ngap-state:PDUSessionResourceSetupResponse", "%s: the PDU Session Resource Setup Request of this UE has not left the AMF yet (its SMF is slow; requests of other UEs were answered meanwhile): this response answers another UE's request", what)
	}
	var items, failed []iewalk.SessionItem
	var err error
	if ie := p.Find(iewalk.IDPDUSessionResourceSetupListSURes); ie != nil {
		if items, err = iewalk.DecodePDUSessionResourceSetupListSURes(ie.Value); err != nil {
			return what, a.viol("ngap-ie-decode:PDUSessionResourceSetupListSURes", "%s: %v", what, err)
		}
	}
	if ie := p.Find(iewalk.IDPDUSessionResourceFailedToSetupListSURes); ie != nil {
		if failed, err = iewalk.DecodePDUSessionResourceFailedToSetupListSURes(ie.Value); err != nil {
			return what, a.viol("ngap-ie-decode:PDUSessionResourceFailedToSetupListSURes", "%s: %v", what, err)
		}
	}
	if len(items)+len(failed) != 1 {
		return what, a.viol("setup-response-items", "%s: one session was requested, the response lists %d set up and %d failed", what, len(items), len(failed))
	}
	if len(failed) == 1 {
		return what, a.viol("setup-failed", "%s: the gNB reports PDU session %d as failed to set up", what, failed[0].PDUSessionID)
	}
	if items[0].PDUSessionID != u.psi {
		return what, a.viol("psi-inconsistent", "%s: NGAP response names PDU session %d, the NAS request and the setup request used %d", what, items[0].PDUSessionID, u.psi)
	}
	if v := a.checkTransfer(items[0].Transfer, what); v != nil {
		return what, v
	}
	u.sess = ssActive
	a.Events = append(a.Events, Event{Kind: "establish", UE: u.idx})
	return what, nil
}

func (a *AMF) onReleaseResponse(p *iewalk.PDU) (string, *Violation) {
	const msg = "PDUSessionResourceReleaseResponse"
	u, v := a.ueByIDs(p, msg)
	if v != nil {
		return msg, v
	}
	what := fmt.Sprintf("%s ue=%d", msg, u.idx)
	if u.sess != ssReleasePending || !u.pendRelResp {
		return what, a.viol("ngap-state:PDUSessionResourceReleaseResponse", "%s: no PDU Session Resource Release Command is outstanding (session state %d)", what, u.sess)
	}
	items, err := iewalk.DecodePDUSessionResourceReleasedListRelRes(p.Find(iewalk.IDPDUSessionResourceReleasedListRelRes).Value)
	if err != nil {
		return what, a.viol("ngap-ie-decode:PDUSessionResourceReleasedListRelRes", "%s: %v", what, err)
	}
	if len(items) != 1 || items[0].PDUSessionID != u.psi {
		return what, a.viol("psi-inconsistent", "%s: released list %v, the command named PDU session %d", what, items, u.psi)
	}
	if v := a.checkULI(p, msg); v != nil {
		return what, v
	}
	u.pendRelResp = false
	a.finishRelease(u)
	return what, nil
}

func (a *AMF) onCtxReleaseComplete(p *iewalk.PDU) (string, *Violation) {
	const msg = "UEContextReleaseComplete"
	u, v := a.ueByIDs(p, msg)
	if v != nil {
		return msg, v
	}
	what := fmt.Sprintf("%s ue=%d", msg, u.idx)
	if !u.pendCtxRelCpl {
		return what, a.viol("ngap-state:UEContextReleaseComplete", "%s: no UE Context Release Command is outstanding", what)
	}
	if ie := p.Find(iewalk.IDUserLocationInformation); ie != nil {
		if ul, err := iewalk.DecodeUserLocationInformation(ie.Value); err != nil {
			return what, a.viol("ngap-ie-decode:UserLocationInformation", "%s: UserLocationInformation: %v", what, err)
		} else if ul.NR != nil {
			a.notePLMN(ul.NR.NRCGIPLMN)
			a.notePLMN(ul.NR.TAIPLMN)
			a.obs("ULI plmn=%x/%x tac=%x", ul.NR.NRCGIPLMN[:], ul.NR.TAIPLMN[:], ul.NR.TAC)
			if !a.tacAnnounced(ul.NR.TAC) {
				a.ne("tac-not-announced", "UE Context Release Complete reports TAC %x, which NG Setup did not announce", ul.NR.TAC)
			}
			if ul.NR.NRCGIPLMN != iewalk.PLMN(a.announced) || ul.NR.TAIPLMN != iewalk.PLMN(a.announced) {
				return what, a.viol(fmt.Sprintf("plmn-mismatch:mnc%d", len(a.sc.Prov.MNC)), "%s: user location carries PLMN %x / %x, NG Setup announced %x", what, ul.NR.NRCGIPLMN[:], ul.NR.TAIPLMN[:], a.announced[:])
			}
		}
	}
	if ie := p.Find(iewalk.IDPDUSessionResourceListCxtRelCpl); ie != nil {
		l, err := iewalk.DecodePDUSessionResourceListCxtRelCpl(ie.Value)
		if err != nil {
			return what, a.viol("ngap-ie-decode:PDUSessionResourceListCxtRelCpl", "%s: %v", what, err)
		}
		a.obs("PDUSessionResourceListCxtRelCpl=%v", l)
	}
	u.pendCtxRelCpl = false
	u.state = stDeregistered
	delete(a.byRAN, u.ranID)
	delete(a.byAMF, u.amfID)
	a.Events = append(a.Events, Event{Kind: "deregister", UE: u.idx})
	return what, nil
}

// svcSessions: PDU sessions the AMF asks the gNB to re-activate with a service accept.
func (a *AMF) svcSessions(u *ue) []ngapTypeCxtReqItem {
	if !u.ch.Has(OptSvcReactivate) || u.sess != ssActive {
		return nil
	}
	tr, err := a.buildSetupRequestTransfer(u)
	if err != nil {
		return nil
	}
	return []ngapTypeCxtReqItem{cxtReqItem(u.psi, a.sst, a.sd, tr)}
}

// Pending lists what the AMF still waits for (conversation ended early / stalled).
func (a *AMF) Pending() []string {
	var out []string
	if !a.ngSetupDone {
		out = append(out, "NGSetupRequest")
	}
	for _, u := range a.ues {
		add := func(s string) { out = append(out, fmt.Sprintf("ue %d: %s", u.idx, s)) }
		switch u.state {
		case stAuth:
			add("AuthenticationResponse")
		case stSMC:
			add("SecurityModeComplete")
		}
		if u.pendingICSResp {
			add("InitialContextSetupResponse")
		}
		if u.pendingRegComplete {
			add("RegistrationComplete")
		}
		if u.pendingSvcICS {
			add("InitialContextSetupResponse(service)")
		}
		if u.sess == ssSetupSent {
			add("PDUSessionResourceSetupResponse")
		}
		if u.pendRelResp {
			add("PDUSessionResourceReleaseResponse")
		}
		if u.pendRelCompl {
			add("PDUSessionReleaseComplete")
		}
		if u.pendCtxRelCpl {
			add("UEContextReleaseComplete")
		}
	}
	sort.Strings(out)
	return out
}

// CountReuse checks invariant (d) of C02 on the recorded uses: no (UE, K_AMF, COUNT) twice.
func (a *AMF) CountReuse() *Violation {
	seen := map[CountUse]bool{}
	for _, c := range a.Counts {
		if seen[c] {
			return &Violation{Key: "nas-count", Msg: fmt.Sprintf("uplink NAS COUNT %d used twice by UE %d under one K_AMF", c.Count, c.UE)}
		}
		seen[c] = true
	}
	return nil
}

// UEInfo exposes what the runner needs to know about UE k after the conversation.
type UEInfo struct {
	SUPI   string
	RANID  uint64
	AMFID  uint64
	PSI    int
	UEIP   [4]byte
	UPFIP  [4]byte
	TEID   uint32
	Active bool
}

func (a *AMF) UE(k int) *UEInfo {
	if k < 0 || k >= len(a.ues) {
		return nil
	}
	u := a.ues[k]
	return &UEInfo{SUPI: u.supi, RANID: u.ranID, AMFID: u.amfID, PSI: u.psi, UEIP: u.ueIP, UPFIP: u.upfIP, TEID: u.ch.TEID, Active: u.sess == ssActive}
}
func (a *AMF) NumUEs() int { return len(a.ues) }

func ieiList(l []OptIE) string {
	if len(l) == 0 {
		return "none"
	}
	var out []string
	for _, ie := range l {
		out = append(out, fmt.Sprintf("0x%02x", ie.IEI))
	}
	return fmt.Sprint(out)
}

func (a *AMF) tacAnnounced(t [3]byte) bool {
	for _, x := range a.tacs {
		if x == t {
			return true
		}
	}
	return false
}

func labelsOK(b []byte) bool {
	for i := 0; i < len(b); {
		n := int(b[i])
		if n == 0 || i+1+n > len(b) {
			return false
		}
		i += 1 + n
	}
	return true
}
