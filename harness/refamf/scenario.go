package refamf

import (
	"encoding/hex"
	"fmt"
)

// Subscriber / network provisioning the AMF works from: what the operator of the core
// would have entered for the emulator's configuration file (README section 2/3).
type Provision struct {
	MCC     string `json:"mcc"`
	MNC     string `json:"mnc"`
	IMSI    string `json:"imsi"` // first UE; digits only
	K       string `json:"k"`    // hex
	OP      string `json:"op"`   // hex, used when OPc is empty
	OPc     string `json:"opc"`  // hex or ""
	SST     int    `json:"sst"`
	SD      string `json:"sd"`         // 6 hex digits or ""
	GnbGTP  string `json:"gnb_gtp_ip"` // dotted IPv4 the gNB announces for its N3 endpoint
	AMFName string `json:"amf_name"`
	// ServingMCC/ServingMNC: when set, the serving network (the serving network name of 5G AKA, TS 33.501 6.1.1.4)
	// is this one, while MCC/MNC stay the home network of the subscriber (SUCI) - which the emulator also
	// announces as its own PLMN, since it takes that from the SUCI. Same number of MNC digits as MNC.
	ServingMCC string `json:"serving_mcc,omitempty"`
	ServingMNC string `json:"serving_mnc,omitempty"`
}

// UEChoice: everything the network side decides for the k-th UE that registers.
type UEChoice struct {
	RAND     string `json:"rand"` // 16 octets hex
	SQN      string `json:"sqn"`  // 6 octets hex
	AMFField string `json:"amf"`  // 2 octets hex; separation bit is forced to 1
	NgKSI    int    `json:"ngksi"`
	AMFUEID  uint64 `json:"amf_ue_ngap_id"`
	TMSI     uint32 `json:"tmsi"`
	// optional downlink IEs (bit set): see Opt* constants
	Options uint32 `json:"options"`
	// session
	UEIP        string `json:"ue_ip"`  // dotted IPv4
	UPFIP       string `json:"upf_ip"` // dotted IPv4
	TEID        uint32 `json:"teid"`
	AMBRDL      uint64 `json:"ambr_dl"` // bit/s, NGAP PDU session AMBR
	AMBRUL      uint64 `json:"ambr_ul"`
	Cause5GSM   int    `json:"cause_5gsm"` // -1 absent
	NQoSRules   int    `json:"n_qos_rules"`
	NFilters    int    `json:"n_filters"`
	NFlowDescs  int    `json:"n_flow_descs"` // 0: IE absent
	FlowParams  int    `json:"flow_params"`
	SSCMode     int    `json:"ssc_mode"`
	DNN         string `json:"dnn"` // "" absent in the accept
	ReleaseCause int   `json:"release_cause"`
	// ForbiddenTACs: when a Mobility Restriction List is sent it forbids this many tracking areas of the serving
	// PLMN (TS 38.413 9.3.1.85: up to 4096 per PLMN); a few hundred make the message 1..2 kilobytes long
	ForbiddenTACs int `json:"forbidden_tacs,omitempty"`
	// Refuse: how the network answers this UE's PDU session establishment request. "" = the session is granted;
	// "reject" = the SMF rejects it (PDU SESSION ESTABLISHMENT REJECT, 5GSM cause #26, in a DL NAS TRANSPORT): the
	// UE has no session; "congestion" = the AMF cannot forward the request now (TS 24.501 5.4.5.3.1: DL NAS TRANSPORT
	// returning the payload container with 5GMM cause #22 and a back-off timer); should the request arrive again it
	// is treated like any uplink message (a resent copy of the protected message reuses its NAS COUNT)
	Refuse string `json:"refuse,omitempty"`
	// CUCDelayMs: the AMF starts the generic UE configuration update (the Configuration Update Command that follows
	// Registration Complete) this many milliseconds late; uplink messages that arrive in the meantime — from other
	// UEs — are answered first. The emulator waits for that message, so for the unchanged program this only makes
	// the conversation longer; nothing else in the conversation depends on time.
	CUCDelayMs int `json:"cuc_delay_ms,omitempty"`
	// SetupDelayMs: the SMF of this UE takes this long before the PDU SESSION RESOURCE SETUP REQUEST goes out; requests
	// of other UEs that arrive meanwhile are answered first (a network finishes the procedures of different UEs in
	// whatever order it likes). An emulator that waits for each answer before it asks again only sees the pause.
	SetupDelayMs int `json:"setup_delay_ms,omitempty"`
	// EncPrio / IntPrio: the AMF's own priority order of the NAS ciphering (0..2) and integrity (1..2) algorithms; it
	// selects the first one in its list that the UE announced in its security capability (TS 33.501 6.7.1). Empty:
	// NEA0, NEA2, NEA1 and NIA2, NIA1.
	EncPrio []int `json:"enc_prio,omitempty"`
	IntPrio []int `json:"int_prio,omitempty"`
	// LaterIEs: the AMF implements a later release of TS 38.413 and adds this many information elements the emulator's
	// release does not know (criticality ignore) at the end of Downlink NAS Transport, Initial Context Setup Request and
	// PDU Session Resource Setup Request.
	LaterIEs int `json:"later_release_ies,omitempty"`
}

// Optional downlink information elements, placed where TS 38.413 allows them.
const (
	OptDLOldAMF        = 1 << iota // DownlinkNASTransport (Authentication Request): Old AMF
	OptDLRANPagingPrio             // DownlinkNASTransport: RAN Paging Priority
	OptDLMobilityRestr             // DownlinkNASTransport (SMC): Mobility Restriction List
	OptDLIndexToRFSP               // DownlinkNASTransport: Index to RFSP
	OptDLUEAMBR                    // DownlinkNASTransport: UE-AMBR
	OptDLAllowedNSSAI              // DownlinkNASTransport (Configuration Update Command): Allowed NSSAI
	OptICSOldAMF                   // InitialContextSetupRequest: Old AMF
	OptICSUEAMBR                   // InitialContextSetupRequest: UE-AMBR
	OptICSMobilityRestr            // InitialContextSetupRequest: Mobility Restriction List
	OptICSIndexToRFSP              // InitialContextSetupRequest: Index to RFSP
	OptICSMaskedIMEISV             // InitialContextSetupRequest: Masked IMEISV
	OptSvcReactivate               // service request answer carries PDUSessionResourceSetupListCxtReq for the active session
	OptSMCIMEISVReq                // NAS: IMEISV request in the Security Mode Command
	OptSMCRINMR                    // NAS: additional 5G security information (RINMR)
	OptRegAcceptTAIList            // NAS: TAI list in Registration Accept
	OptRegAcceptNSSAI              // NAS: allowed NSSAI in Registration Accept
	OptRegAcceptT3512              // NAS: T3512 value
	OptRegAcceptNwFeat             // NAS: 5GS network feature support
	OptCUCGUTI                     // NAS: new GUTI in Configuration Update Command
	OptCUCName                     // NAS: short network name
	OptAcceptRQTimer               // NAS: RQ timer in the establishment accept
	OptAcceptSNSSAI                // NAS: S-NSSAI in the establishment accept
	OptAcceptAlwaysOn              // NAS: always-on indication
	OptSvcPDUStatus                // NAS: PDU session status in Service Accept
	OptRelCmdAMFIDOnly             // UE Context Release Command names the UE by its AMF-UE-NGAP-ID alone (the other alternative of UE-NGAP-IDs)
	OptEnd
)

var OptNames = []string{"DL.OldAMF", "DL.RANPagingPriority", "DL.MobilityRestrictionList", "DL.IndexToRFSP", "DL.UE-AMBR", "DL.AllowedNSSAI",
	"ICS.OldAMF", "ICS.UE-AMBR", "ICS.MobilityRestrictionList", "ICS.IndexToRFSP", "ICS.MaskedIMEISV", "Svc.SetupListCxtReq",
	"SMC.IMEISVRequest", "SMC.RINMR", "RegAccept.TAIList", "RegAccept.AllowedNSSAI", "RegAccept.T3512", "RegAccept.NetworkFeature",
	"CUC.GUTI", "CUC.ShortName", "Accept.RQTimer", "Accept.S-NSSAI", "Accept.AlwaysOn", "SvcAccept.PDUSessionStatus", "RelCmd.AMF-UE-NGAP-ID-only"}

// NGAPOptionMask: the options that are NGAP-level optional IEs (the NT rule of C01 speaks of these).
const NGAPOptionMask = OptSvcReactivate<<1 - 1

func (u UEChoice) Has(o uint32) bool { return u.Options&o != 0 }

// NGSetupChoice: what the AMF puts into the NG Setup Response.
type NGSetupChoice struct {
	RelativeCapacity int    `json:"relative_capacity"`
	AMFRegion        int    `json:"amf_region"`
	AMFSet           int    `json:"amf_set"`
	AMFPointer       int    `json:"amf_pointer"`
	ExtraGUAMIs      int    `json:"extra_guamis"`
	ExtraSlices      int    `json:"extra_slices"`
	// the AMF serves further PLMNs: so many PLMN Support Items before / after the item of the gNB's PLMN
	// (TS 38.413 gives the order of the list no meaning)
	PLMNsBefore int `json:"plmns_before,omitempty"`
	PLMNsAfter  int `json:"plmns_after,omitempty"`
	BackupAMFName    string `json:"backup_amf_name,omitempty"` // optional field of ServedGUAMIItem
	// GUAMIOtherPLMN: the AMF identifies itself (Served GUAMI List, GUAMI of the Initial Context Setup Request) with
	// the PLMN of ITS operator while it supports the gNB's PLMN (PLMN Support List) — an AMF shared between operators;
	// the two lists are separate IEs for that reason. The gNB's PLMN stays what the gNB announced.
	GUAMIOtherPLMN bool `json:"guami_of_another_plmn,omitempty"`
}

// Policy selects the property-specific checks (everything else is always on).
type Policy struct {
	DistinctSUPI bool `json:"distinct_supi"` // C02: each UE acts under its own SUPI
}

// Fault is one injected fault (C19).
type Fault struct {
	Kind string `json:"kind"` // "" none | "close" (after receiving uplink Index, before answering) | "garbage" (in place of downlink Index) | "close-after-dl" (downlink Index is sent, then the association is gone)
	Index int   `json:"index"`
	// garbage family: "prefix" (strict prefix of PrefixLen octets), "choice3" (top-level CHOICE index 3),
	// "length" (outer open-type length raised beyond the datagram)
	Garbage   string `json:"garbage,omitempty"`
	PrefixLen int    `json:"prefix_len,omitempty"`
	// DelayMs (garbage only): the undecodable answer arrives this late (a slow peer); everything the AMF sends
	// afterwards queues behind it, so only the time changes, never the order
	DelayMs int `json:"delay_ms,omitempty"`
}

// Scenario: one complete conversation from the network's point of view.
type Scenario struct {
	Prov    Provision     `json:"prov"`
	NGSetup NGSetupChoice `json:"ngsetup"`
	UEs     []UEChoice    `json:"ues"` // choice k applies to the k-th UE that starts a registration
	Policy  Policy        `json:"policy"`
	Fault   Fault         `json:"fault"`
}

func mustHex(s string, n int, what string) ([]byte, error) {
	b, err := hex.DecodeString(s)
	if err != nil || len(b) != n {
		return nil, fmt.Errorf("scenario: %s %q is not %d octets of hex", what, s, n)
	}
	return b, nil
}

func parseIPv4(s string) (out [4]byte, err error) {
	var a, b, c, d int
	if n, e := fmt.Sscanf(s, "%d.%d.%d.%d", &a, &b, &c, &d); e != nil || n != 4 {
		return out, fmt.Errorf("scenario: %q is not a dotted IPv4 address", s)
	}
	for i, x := range []int{a, b, c, d} {
		if x < 0 || x > 255 {
			return out, fmt.Errorf("scenario: %q is not a dotted IPv4 address", s)
		}
		out[i] = byte(x)
	}
	return out, nil
}

// Entry is one transcript line.
type Entry struct {
	N    int      `json:"n"`   // position in the conversation
	Dir  string   `json:"dir"` // "ul" gNB→AMF, "dl" AMF→gNB, "fault"
	Idx  int      `json:"idx"` // index among the PDUs of this direction
	Hex  string   `json:"hex,omitempty"`
	What string   `json:"what"`
	Obs  []string `json:"obs,omitempty"` // observations: recorded, never a violation
}

// Event is one completed procedure as the AMF saw it (C02: order of procedures).
type Event struct {
	Kind string `json:"kind"` // ngsetup register establish service release deregister
	UE   int    `json:"ue"`   // index of the UE in order of first appearance; -1 for ngsetup
}

// CountUse records one protected uplink NAS message (C02: no COUNT reuse under one key).
type CountUse struct {
	UE    int    `json:"ue"`
	Kamf  int    `json:"kamf_instance"`
	Count uint32 `json:"count"`
}

// Violation: the conversation broke one of the enumerated checks.
type Violation struct {
	Key string `json:"key"`
	Msg string `json:"msg"`
}

func (v *Violation) Error() string { return "[" + v.Key + "] " + v.Msg }

// Observed collects what the AMF saw of the configured values (C18) and of the sessions.
type Observed struct {
	GNBID        string   `json:"gnb_id,omitempty"` // hex, left-justified
	GNBIDBits    int      `json:"gnb_id_bits,omitempty"`
	GNBName      string   `json:"gnb_name,omitempty"`
	HasGNBName   bool     `json:"has_gnb_name,omitempty"`
	PLMNs        []string `json:"plmns,omitempty"` // every PLMN octet string seen, hex, in order, deduplicated
	SUPIs        []string `json:"supis,omitempty"` // per UE, digits
	RANIDs       []uint64 `json:"ran_ids,omitempty"`
	SNSSAIs      []string `json:"snssais,omitempty"` // hex of the S-NSSAI in UL NAS TRANSPORT (establishment)
	GTPAddrs     []string `json:"gtp_addrs,omitempty"`
	PSIs         []int    `json:"psis,omitempty"`
	ResStarOK    int      `json:"res_star_ok,omitempty"`
	ProtectedUL  int      `json:"protected_ul,omitempty"`
}
