package pd

import (
	"bytes"
	"fmt"
	"os"
	"testing"

	"pgregory.net/rapid"
	"stgutg"

	"verifh/ev"
	"verifh/refid"
)

// TestC11_Procedures: the identity the REAL procedures put on the wire. c11Oracle builds the requests "exactly as
// RegisterUE / DeregisterUE do"; here stgutg.ManageNGSetup, stgutg.RegisterUE and stgutg.DeregisterUE themselves run
// in-process on one end of a SEQPACKET socket. All downlink messages of the conversation are queued before the
// procedure is called (the emulator reads them in order, whatever it wrote), so the procedures run to their normal
// return; then the uplink messages are taken off the other end. The UE need not be a subscriber of the PLMN the gNB
// announced: "for every IMSI" the registration and the de-registration request carry the null-scheme SUCI of THAT
// IMSI, while every user-location IE keeps the PLMN announced at NG Setup.

type c11ProcCase struct {
	GnbIMSI  string `json:"gnb_imsi"` // the IMSI main hands to ManageNGSetup (its PLMN is announced)
	GnbMNC   string `json:"gnb_mnc"`
	MCC      string `json:"mcc"` // the UE
	MNC      string `json:"mnc"`
	MSIN     string `json:"msin"`
	Index    int    `json:"index"` // CreateUE(imsi, index, ...)
	SamePLMN bool   `json:"same_plmn"`
}

func genC11Proc(t *rapid.T) c11ProcCase {
	digits := func(n int, l string) string {
		d := rapid.SliceOfN(rapid.IntRange(0, 9), n, n).Draw(t, l)
		b := make([]byte, n)
		for i, x := range d {
			b[i] = byte('0' + x)
		}
		return string(b)
	}
	c := c11ProcCase{MCC: digits(3, "mcc")}
	c.MNC = digits(rapid.IntRange(2, 3).Draw(t, "mnclen"), "mnc")
	c.MSIN = digits(rapid.IntRange(2, 15-3-len(c.MNC)).Draw(t, "msinlen"), "msin")
	c.Index = rapid.IntRange(0, 3).Draw(t, "index")
	c.SamePLMN = rapid.Bool().Draw(t, "same_plmn")
	if c.SamePLMN {
		c.GnbMNC = c.MNC
		c.GnbIMSI = c.MCC + c.MNC + digits(len(c.MSIN), "gnb_msin")
	} else {
		c.GnbMNC = digits(rapid.IntRange(2, 3).Draw(t, "gnb_mnclen"), "gnb_mnc")
		c.GnbIMSI = digits(3, "gnb_mcc") + c.GnbMNC + digits(rapid.IntRange(2, 15-3-len(c.GnbMNC)).Draw(t, "gnb_msinlen"), "gnb_msin")
	}
	return c
}

// captureStdoutPD runs f with the process's standard output discarded (the procedures print progress lines).
func captureStdoutPD(f func()) string {
	old := os.Stdout
	if null, err := os.OpenFile(os.DevNull, os.O_WRONLY, 0); err == nil {
		os.Stdout = null
		defer func() { os.Stdout = old; null.Close() }()
	}
	f()
	return ""
}

// dlNAS: a DOWNLINK NAS TRANSPORT around a NAS PDU shorter than 120 octets, octet by octet (TS 38.413 9.2.5.2)
func dlNAS(nas []byte) []byte {
	ies := []byte{0x00, 0x00, 0x03, 0x00, 0x0a, 0x00, 0x02, 0x00, 0x01, 0x00, 0x55, 0x00, 0x02, 0x00, 0x01, 0x00, 0x26, 0x00, byte(len(nas) + 1), byte(len(nas))}
	ies = append(ies, nas...)
	return append([]byte{0x00, 0x04, 0x40, byte(len(ies))}, ies...)
}

func c11ProcOracle(r *ev.Rec) func(c c11ProcCase) ev.Verdict {
	return func(c c11ProcCase) (v ev.Verdict) {
		v.NT = true
		ok := func(s string, lo, hi int) bool {
			if len(s) < lo || len(s) > hi {
				return false
			}
			for _, ch := range s {
				if ch < '0' || ch > '9' {
					return false
				}
			}
			return true
		}
		if !ok(c.MCC, 3, 3) || !ok(c.MNC, 2, 3) || !ok(c.MSIN, 2, 15-3-len(c.MNC)) || !ok(c.GnbMNC, 2, 3) || !ok(c.GnbIMSI, 3+len(c.GnbMNC)+1, 15) || c.Index < 0 || c.Index > 9 {
			v.Skip = true
			return v
		}
		// CreateUE adds the index to the IMSI; keep it inside the MSIN
		msinN := 0
		for _, ch := range c.MSIN {
			msinN = msinN*10 + int(ch-'0')
			if msinN > 1<<40 {
				break
			}
		}
		lim := 1
		for i := 0; i < len(c.MSIN) && lim < 1<<40; i++ {
			lim *= 10
		}
		if msinN+c.Index >= lim {
			v.Skip = true
			return v
		}
		wantMSIN := fmt.Sprintf("%0*d", len(c.MSIN), msinN+c.Index)
		announced, err := refid.EncodePLMN(c.GnbIMSI[:3], c.GnbMNC)
		if err != nil {
			v.Skip = true
			return v
		}
		if c.SamePLMN {
			v.Classes = append(v.Classes, "ue-of-the-announced-plmn")
		} else {
			v.Classes = append(v.Classes, "ue-of-another-plmn-than-the-announced-one")
		}
		v.Classes = append(v.Classes, fmt.Sprintf("ue-mnc%d/gnb-mnc%d", len(c.MNC), len(c.GnbMNC)))
		fail := func(key, f string, a ...interface{}) ev.Verdict {
			v.Key, v.Err = key, fmt.Errorf(f, a...)
			return v
		}
		p, err := getPipe()
		if err != nil {
			panic("infrastructure: " + err.Error())
		}
		stop := r.Watchdog(c, "NG Setup, registration and de-registration against queued answers", 60e9)
		defer stop()
		q := func(b []byte) {
			if err := p.queue(b); err != nil {
				panic("infrastructure: " + err.Error())
			}
		}
		next := func() []byte {
			b, err := p.recv()
			if err != nil {
				panic("infrastructure: " + err.Error())
			}
			return b
		}
		var perr error
		var site string
		// --- NG Setup
		q(ngSetupResponse)
		perr, site = ev.Guard(func() error {
			stgutg.ManageNGSetup(p.conn, "\x00\x01\x02", "imsi-"+c.GnbIMSI, c.GnbMNC, 24, "gnb")
			return nil
		})
		if site != "" {
			return fail("proc:panic:"+site, "ManageNGSetup: %v", perr)
		}
		_ = next() // the NG SETUP REQUEST (judged by c11Wire)
		// --- registration: Authentication Request, Security Mode Command, Registration Accept, the message after it
		ue := stgutg.CreateUE(c.MCC+c.MNC+c.MSIN, c.Index, "465b5ce8b199b49faa5f0a2ee238a6bc", "e8ed289deba952e4283b54e88e6183ca", "")
		ar := append(append([]byte{0x7e, 0x00, 0x56, 0x00, 0x02, 0x00, 0x00, 0x21}, bytes.Repeat([]byte{0x11}, 16)...), append([]byte{0x20, 0x10}, bytes.Repeat([]byte{0x22}, 16)...)...)
		q(dlNAS(ar))
		q(dlNAS(append([]byte{0x7e, 0x03, 0, 0, 0, 0, 0x00}, 0x7e, 0x00, 0x5d, 0x02, 0x00, 0x02, 0x80, 0x20)))
		q(dlNAS(append([]byte{0x7e, 0x02, 0, 0, 0, 0, 0x01}, 0x7e, 0x00, 0x42, 0x01, 0x01)))
		q(dlNAS(append([]byte{0x7e, 0x02, 0, 0, 0, 0, 0x02}, 0x7e, 0x00, 0x54)))
		perr, site = ev.Guard(func() error {
			_ = captureStdoutPD(func() { stgutg.RegisterUE(ue, c.MNC, c.MCC, p.conn) })
			return nil
		})
		if site != "" {
			return fail("proc:panic:"+site, "RegisterUE: %v", perr)
		}
		first := next()
		for i := 0; i < 4; i++ {
			_ = next() // Authentication Response, Security Mode Complete, Initial Context Setup Response, Registration Complete
		}
		judge := func(what string, ngapMsg []byte, protected bool, mt byte) *ev.Verdict {
			m, err := refid.ReadNGAP(ngapMsg)
			if err != nil {
				r := fail("proc:"+what+":framing", "%s: %v: %x", what, err, ngapMsg)
				return &r
			}
			if uli, ok := m.IE(refid.IDUserLocationInformation); ok {
				cp, _, tp, _, err := refid.ULINR(uli)
				if err != nil || !bytes.Equal(cp, announced[:]) || !bytes.Equal(tp, announced[:]) {
					r := fail("proc:"+what+":ULI", "%s: user location carries PLMN %x / %x (%v), NG Setup announced %x (IMSI %s, MNC %s)", what, cp, tp, err, announced, c.GnbIMSI, c.GnbMNC)
					return &r
				}
			}
			nas, ok := m.IE(refid.IDNASPDU)
			if !ok || len(nas) < 2 {
				r := fail("proc:"+what+":NAS-PDU", "%s: no NAS-PDU", what)
				return &r
			}
			nas = nas[1:] // length determinant (all these messages are shorter than 128 octets)
			if protected {
				if len(nas) < 8 || nas[0] != 0x7e || nas[1] != 0x02 {
					r := fail("proc:"+what+":header", "%s: %x is not an integrity protected and ciphered message", what, nas)
					return &r
				}
				nas = nas[7:] // NEA0: the plain message follows the 7 header octets
			}
			if len(nas) < 6 || nas[0] != 0x7e || nas[1] != 0x00 || nas[2] != mt {
				r := fail("proc:"+what+":message", "%s: plain message %x, expected type %02x", what, nas, mt)
				return &r
			}
			idLen := int(nas[4])<<8 | int(nas[5])
			if 6+idLen > len(nas) {
				r := fail("proc:"+what+":identity", "%s: mobile identity length %d exceeds the message %x", what, idLen, nas)
				return &r
			}
			id, err := refid.DecodeSUCI(nas[6 : 6+idLen])
			if err != nil || id.TypeOfIdentity != 1 || id.SupiFormat != 0 || id.SchemeID != 0 || id.MCC != c.MCC || id.MNC != c.MNC || id.MSIN != wantMSIN {
				r := fail("proc:"+what+":identity", "%s of imsi-%s%s%s (CreateUE index %d, after NG Setup announced %x): identity %x decodes to %+v (%v), want the null-scheme SUCI of MCC %s MNC %s MSIN %s",
					what, c.MCC, c.MNC, c.MSIN, c.Index, announced, nas[6:6+idLen], id, err, c.MCC, c.MNC, wantMSIN)
				return &r
			}
			return nil
		}
		if r := judge("REGISTRATION REQUEST", first, false, 0x41); r != nil {
			return *r
		}
		// --- de-registration: the accept and the UE context release command
		q(dlNAS(append([]byte{0x7e, 0x02, 0, 0, 0, 0, 0x03}, 0x7e, 0x00, 0x46)))
		q(dlNAS(append([]byte{0x7e, 0x02, 0, 0, 0, 0, 0x04}, 0x7e, 0x00, 0x54))) // stands in for the UE CONTEXT RELEASE COMMAND: DeregisterUE decodes it and looks at nothing in it
		perr, site = ev.Guard(func() error {
			_ = captureStdoutPD(func() { stgutg.DeregisterUE(ue, c.MNC, p.conn) })
			return nil
		})
		if site != "" {
			return fail("proc:panic:"+site, "DeregisterUE: %v", perr)
		}
		dereg := next()
		_ = next() // UE CONTEXT RELEASE COMPLETE
		if r := judge("DEREGISTRATION REQUEST", dereg, true, 0x45); r != nil {
			return *r
		}
		return v
	}
}

func TestC11_Procedures(t *testing.T) {
	r := ev.New(t, "C11", "TestC11_Procedures")
	ev.Run(t, r, genC11Proc, c11ProcOracle(r))
}
