package pd

import (
	"testing"

	"verifh/ev"
)

// FuzzC12Extract: native coverage-guided fuzzing of the two extraction functions (thorough tier
// only; cannot be seeded — the saved input is the reproducible unit). Oracle inside the target:
// both calls terminate (return or panic) within the bound of TestC12_Termination; the watchdog
// writes the input as a failing case of C12 and ends the worker if one does not.
func FuzzC12Extract(f *testing.F) {
	r := ev.New(f, "C12", "FuzzC12Extract")
	r.ReplayAs = "TestC12_Termination"
	c12Rec = r
	for _, c := range c12Corpus() {
		f.Add([]byte(c.NAS), []byte(c.Transfer))
	}
	f.Fuzz(func(t *testing.T, nas, tr []byte) {
		if len(nas) > 8192 || len(tr) > 8192 {
			return
		}
		c12ArbOracle(c12Arb{Kind: "native-fuzz", NAS: HexBytes(nas), Transfer: HexBytes(tr)})
	})
}
