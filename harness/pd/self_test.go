package pd

import (
	"net"
	"bytes"
	"encoding/hex"
	"testing"

	"free5gclib/aper"
	"free5gclib/nas"
	"free5gclib/ngap"
	"free5gclib/ngap/ngapType"

	"verifh/refid"
	"verifh/refper"
)

// Known-answer tests of the reference codings in refid. The driver runs ^TestSelf before every
// check and refuses to report anything if one of them fails.

func unhex(t *testing.T, s string) []byte {
	b, err := hex.DecodeString(s)
	if err != nil {
		t.Fatalf("bad hex %q", s)
	}
	return b
}

func TestSelfPLMN(t *testing.T) {
	// published codings: 208/93 (free5GC default, 02 f8 39), 001/01 (00 f1 10), 901/70 (Open5GS
	// default, 09 f1 07), 310/410 (13 00 14), 310/260 (13 00 62); 3-digit MNC with three different
	// digits, worked by hand from TS 24.501 fig. 9.11.3.4.3: MCC 123 MNC 456 → 21 63 54
	for _, v := range []struct{ mcc, mnc, hex string }{
		{"208", "93", "02f839"}, {"001", "01", "00f110"}, {"901", "70", "09f107"},
		{"310", "410", "130014"}, {"310", "260", "130062"}, {"123", "456", "216354"}, {"000", "007", "007000"},
	} {
		got, err := refid.EncodePLMN(v.mcc, v.mnc)
		if err != nil || !bytes.Equal(got, unhex(t, v.hex)) {
			t.Fatalf("EncodePLMN(%s,%s) = %x (%v), want %s", v.mcc, v.mnc, got, err, v.hex)
		}
		mcc, mnc, err := refid.DecodePLMN(got)
		if err != nil || mcc != v.mcc || mnc != v.mnc {
			t.Fatalf("DecodePLMN(%x) = %s/%s (%v)", got, mcc, mnc, err)
		}
	}
	if _, _, err := refid.DecodePLMN([]byte{0x0a, 0xf0, 0x00}); err == nil {
		t.Fatal("DecodePLMN accepts a non-decimal digit")
	}
}

func TestSelfSUCI(t *testing.T) {
	// free5GC test subscriber imsi-2089300007487 and Open5GS/UERANSIM default imsi-901700000000001
	for _, v := range []struct{ mcc, mnc, msin, hex string }{
		{"208", "93", "00007487", "0102f839f0ff000000004778"},
		{"901", "70", "0000000001", "0109f107f0ff00000000000010"},
		{"123", "456", "789", "01216354f0ff000087f9"}, // worked by hand: odd MSIN → filler 1111 in the last high nibble
	} {
		got, err := refid.EncodeSUCINull(v.mcc, v.mnc, v.msin)
		if err != nil || !bytes.Equal(got, unhex(t, v.hex)) {
			t.Fatalf("EncodeSUCINull(%s,%s,%s) = %x (%v), want %s", v.mcc, v.mnc, v.msin, got, err, v.hex)
		}
		d, err := refid.DecodeSUCI(got)
		if err != nil || d.MCC != v.mcc || d.MNC != v.mnc || d.MSIN != v.msin || d.TypeOfIdentity != 1 || d.SupiFormat != 0 ||
			d.RoutingIndicator != "0" || d.SchemeID != 0 || d.KeyID != 0 || d.OddFiller != (len(v.msin)%2 == 1) {
			t.Fatalf("DecodeSUCI(%x) = %+v (%v)", got, d, err)
		}
	}
	// the decoder must not be lenient: filler in the wrong place, hex digit in the MSIN
	if _, err := refid.DecodeSUCI(unhex(t, "0102f839f0ff0000f04778")); err == nil {
		t.Fatal("DecodeSUCI accepts a filler before the last octet")
	}
	if _, err := refid.DecodeSUCI(unhex(t, "0102f839f0ff00000a")); err == nil {
		t.Fatal("DecodeSUCI accepts MSIN digit A")
	}
}

func TestSelfSmallCodings(t *testing.T) {
	// AMF id cafe00 (free5GC default): region ca, set 3f8, pointer 0; 020040 (Open5GS default): region 2, set 1, pointer 0
	if r, s, p := refid.SplitAMFID(0xcafe00); r != 0xca || s != 0x3f8 || p != 0 {
		t.Fatalf("SplitAMFID(cafe00) = %x %x %x", r, s, p)
	}
	if r, s, p := refid.SplitAMFID(0x020040); r != 2 || s != 1 || p != 0 {
		t.Fatalf("SplitAMFID(020040) = %x %x %x", r, s, p)
	}
	if r, s, p := refid.SplitAMFID(0x01007f); r != 1 || s != 1 || p != 0x3f {
		t.Fatalf("SplitAMFID(01007f) = %x %x %x", r, s, p)
	}
	if b := refid.EncodeSNSSAI(1, []byte{1, 2, 3}); !bytes.Equal(b, unhex(t, "0401010203")) {
		t.Fatalf("EncodeSNSSAI = %x", b)
	}
	if b := refid.EncodeSNSSAI(0xff, nil); !bytes.Equal(b, unhex(t, "01ff")) {
		t.Fatalf("EncodeSNSSAI = %x", b)
	}
	// PCO as sent by common cores: DNS server IPv4 8.8.8.8 (id 000d) and an empty request unit 000a
	units := []refid.PCOUnit{{ID: 0x000d, Contents: []byte{8, 8, 8, 8}}, {ID: 0x000a}, {ID: 0x0010, Contents: []byte{0x05, 0xdc}}}
	b, err := refid.EncodePCO(units)
	if err != nil || !bytes.Equal(b, unhex(t, "80000d0408080808000a0000100205dc")) {
		t.Fatalf("EncodePCO = %x (%v)", b, err)
	}
	_, back, err := refid.ParsePCO(b)
	if err != nil || len(back) != 3 || back[1].ID != 0x000a || len(back[1].Contents) != 0 || !bytes.Equal(back[2].Contents, []byte{5, 0xdc}) {
		t.Fatalf("ParsePCO = %+v (%v)", back, err)
	}
	if _, _, err := refid.ParsePCO(unhex(t, "80000d04080808")); err == nil {
		t.Fatal("ParsePCO accepts a truncated unit")
	}
	if d, err := refid.EncodeDNNLabels("internet"); err != nil || !bytes.Equal(d, append([]byte{8}, "internet"...)) {
		t.Fatalf("EncodeDNNLabels = %x (%v)", d, err)
	}
	if d, err := refid.EncodeDNNLabels("ims.mnc001.mcc001.gprs"); err != nil || !bytes.Equal(d, []byte("\x03ims\x06mnc001\x06mcc001\x04gprs")) {
		t.Fatalf("EncodeDNNLabels = %x (%v)", d, err)
	}
}

func TestSelfIPText(t *testing.T) {
	// RFC 5952 §4 examples and corner cases
	for _, v := range []struct{ hex, text string }{
		{"20010db8000000000000000000000001", "2001:db8::1"},
		{"20010db8000000010001000100010001", "2001:db8:0:1:1:1:1:1"}, // a single zero group is not shortened
		{"20010000000000010000000000000001", "2001:0:0:1::1"},        // the longest run wins
		{"20010db8000000000001000000000001", "2001:db8::1:0:0:1"},    // tie: the first run
		{"00000000000000000000000000000000", "::"},
		{"00000000000000000000000000000001", "::1"},
		{"fe800000000000000000000000000000", "fe80::"},
		{"00010002000300040005000600070008", "1:2:3:4:5:6:7:8"},
		{"0000000100000000000000010000abcd", "0:1::1:0:abcd"},
	} {
		if got := refid.FormatIPv6(unhex(t, v.hex)); got != v.text {
			t.Fatalf("FormatIPv6(%s) = %s, want %s", v.hex, got, v.text)
		}
	}
	if got := refid.FormatIPv4([]byte{10, 0, 200, 255}); got != "10.0.200.255" {
		t.Fatalf("FormatIPv4 = %s", got)
	}
	if got := refid.FormatIPv6Variant(unhex(t, "20010db8000000000000000000000001"), 1); got != "2001:0DB8:0000:0000:0000:0000:0000:0001" {
		t.Fatalf("FormatIPv6Variant = %s", got)
	}
	for _, v := range []struct {
		hex   string
		style int
		text  string
	}{
		{"00010002000300040005000600070000", 4, "1:2:3:4:5:6:7::"},
		{"00000002000300040005000600070008", 5, "::2:3:4:5:6:7:8"},
		{"00010000000300000000000600070008", 4, "1::3:0:0:6:7:8"},
		{"00010000000300000000000600070008", 5, "1:0:3::6:7:8"},
		{"00010002000300040005000600070008", 4, "1:2:3:4:5:6:7:8"},
		{"00010002000300040005000601020304", 6, "1:2:3:4:5:6:1.2.3.4"},
	} {
		got := refid.FormatIPv6Variant(unhex(t, v.hex), v.style)
		if got != v.text {
			t.Fatalf("FormatIPv6Variant(%s,%d) = %s, want %s", v.hex, v.style, got, v.text)
		}
		if ip := net.ParseIP(got); ip == nil || !bytes.Equal(ip.To16(), unhex(t, v.hex)) {
			t.Fatalf("FormatIPv6Variant(%s,%d) = %s is not read back by net.ParseIP: %v", v.hex, v.style, got, ip)
		}
	}
	o, n := refid.TLA([]byte{1, 2, 3, 4}, unhex(t, "20010db8000000000000000000000001"))
	if n != 160 || !bytes.Equal(o, unhex(t, "0102030420010db8000000000000000000000001")) {
		t.Fatalf("TLA = %x/%d", o, n)
	}
}

// The Accept builder against (a) a message assembled octet by octet from TS 24.501 §8.3.2 /
// §8.2.11 / §9.1.1, (b) the strict table parser, (c) the library's NAS decoder (a different
// component from the extractor under test) for the Release-15 IEs it knows.
func TestSelfAcceptBuilder(t *testing.T) {
	a := refid.Accept{PSI: 5, PTI: 1, SessionType: 1, SSCMode: 1,
		QoSRules: unhex(t, "010006310101ff01"), AMBR: unhex(t, "0603e80603e8"),
		IEs: []refid.OptIE{{IEI: 0x59, Value: []byte{0x32}}, {IEI: 0x29, Value: refid.PDUAddressIPv4([]byte{10, 60, 0, 1})},
			{IEI: 0x22, Value: unhex(t, "01010203")}, {IEI: 0x79, Value: unhex(t, "012041010109")},
			{IEI: 0x25, Value: append([]byte{8}, "internet"...)}}}
	acc, err := a.Encode()
	if err != nil {
		t.Fatal(err)
	}
	wantAcc := "2e0501c211" + "0008" + "010006310101ff01" + "06" + "0603e80603e8" + "5932" + "2905010a3c0001" + "220401010203" +
		"790006012041010109" + "250908696e7465726e6574"
	if !bytes.Equal(acc, unhex(t, wantAcc)) {
		t.Fatalf("Accept.Encode:\n got %x\nwant %s", acc, wantAcc)
	}
	dl, err := refid.DLNASTransport(1, acc, []refid.OptIE{{IEI: 0x12, Value: []byte{5}}})
	if err != nil {
		t.Fatal(err)
	}
	pdu := refid.Protect(2, []byte{0xaa, 0xbb, 0xcc, 0xdd}, 7, dl)
	want := "7e02aabbccdd07" + "7e006801" + "0039" + wantAcc + "1205"
	if !bytes.Equal(pdu, unhex(t, want)) {
		t.Fatalf("protected DL NAS TRANSPORT:\n got %x\nwant %s", pdu, want)
	}
	p, err := refid.ParseProtectedAccept(pdu)
	if err != nil || !bytes.Equal(p.PDUAddrIPv4, []byte{10, 60, 0, 1}) || len(p.IEs) != 5 || p.PSI != 5 {
		t.Fatalf("ParseProtectedAccept = %+v (%v)", p, err)
	}
	// out-of-order and unknown IEs are refused by the builder (the well-formed class is table order)
	bad := a
	bad.IEs = []refid.OptIE{{IEI: 0x29, Value: refid.PDUAddressIPv4([]byte{1, 2, 3, 4})}, {IEI: 0x59, Value: []byte{1}}}
	if _, err := bad.Encode(); err == nil {
		t.Fatal("builder accepts IEs out of table order")
	}
	// (c) the library's own 5GMM/5GSM decoder reads the same values
	m := nas.NewMessage()
	if err := m.PlainNasDecode(&dl); err != nil || m.GmmMessage == nil || m.GmmMessage.DLNASTransport == nil {
		t.Fatalf("library does not decode the DL NAS TRANSPORT: %v", err)
	}
	cont := m.GmmMessage.DLNASTransport.PayloadContainer.GetPayloadContainerContents()
	if !bytes.Equal(cont, acc) {
		t.Fatalf("payload container %x", cont)
	}
	sm := nas.NewMessage()
	if err := sm.GsmMessageDecode(&cont); err != nil || sm.GsmMessage == nil || sm.GsmMessage.PDUSessionEstablishmentAccept == nil {
		t.Fatalf("library does not decode the Accept: %v", err)
	}
	ac := sm.GsmMessage.PDUSessionEstablishmentAccept
	if ac.PDUAddress == nil || ac.Cause5GSM == nil || ac.DNN == nil || ac.SNSSAI == nil {
		t.Fatalf("library decoder misses optional IEs: %+v", ac)
	}
	if got := ac.PDUAddress.GetPDUAddressInformation(); !bytes.Equal(got[:4], []byte{10, 60, 0, 1}) {
		t.Fatalf("library sees PDU address %x", got)
	}
	if ac.Cause5GSM.GetCauseValue() != 0x32 || !bytes.Equal(ac.AuthorizedQosRules.GetQosRule(), a.QoSRules) {
		t.Fatalf("library sees cause %x / QoS rules %x", ac.Cause5GSM.GetCauseValue(), ac.AuthorizedQosRules.GetQosRule())
	}
}

// The NGAP reader against refper (the coordinator's independently written encoder) on values
// that carry a *different* PLMN in every position, so a reader that looks in the wrong place fails.
func TestSelfNGAPReader(t *testing.T) {
	// hand-derived: UserLocationInformationNR, PLMN 02f839, cell 0x000000001, TAI PLMN 13 00 14, TAC 000001
	cp, cell, tp, tac, err := refid.ULINR(unhex(t, "4002f8390000000010130014000001"))
	if err != nil || !bytes.Equal(cp, unhex(t, "02f839")) || !bytes.Equal(tp, unhex(t, "130014")) || !bytes.Equal(tac, unhex(t, "000001")) ||
		!bytes.Equal(cell, unhex(t, "0000000010")) {
		t.Fatalf("ULINR = %x %x %x %x (%v)", cp, cell, tp, tac, err)
	}
	// hand-derived (DESIGN §3.6): GlobalRANNodeID 00 00f110 10 000102 → PLMN 00f110, gNB id 000102 / 24 bits
	gp, gid, gb, err := refid.GlobalGNBID(unhex(t, "0000f11010000102"))
	if err != nil || !bytes.Equal(gp, unhex(t, "00f110")) || gb != 24 || !bytes.Equal(gid, unhex(t, "000102")) {
		t.Fatalf("GlobalGNBID = %x %x %d (%v)", gp, gid, gb, err)
	}

	var pdu ngapType.NGAPPDU
	pdu.Present = ngapType.NGAPPDUPresentInitiatingMessage
	pdu.InitiatingMessage = new(ngapType.InitiatingMessage)
	im := pdu.InitiatingMessage
	im.ProcedureCode.Value = ngapType.ProcedureCodeNGSetup
	im.Criticality.Value = ngapType.CriticalityPresentReject
	im.Value.Present = ngapType.InitiatingMessagePresentNGSetupRequest
	im.Value.NGSetupRequest = new(ngapType.NGSetupRequest)
	ies := &im.Value.NGSetupRequest.ProtocolIEs
	ie := ngapType.NGSetupRequestIEs{}
	ie.Id.Value = ngapType.ProtocolIEIDGlobalRANNodeID
	ie.Value.Present = ngapType.NGSetupRequestIEsPresentGlobalRANNodeID
	ie.Value.GlobalRANNodeID = &ngapType.GlobalRANNodeID{Present: ngapType.GlobalRANNodeIDPresentGlobalGNBID, GlobalGNBID: &ngapType.GlobalGNBID{
		PLMNIdentity: ngapType.PLMNIdentity{Value: aper.OctetString{0x11, 0x22, 0x33}},
		GNBID:        ngapType.GNBID{Present: ngapType.GNBIDPresentGNBID, GNBID: &aper.BitString{Bytes: []byte{0xde, 0xad, 0xbe, 0xe0}, BitLength: 27}}}}
	ies.List = append(ies.List, ie)
	ie = ngapType.NGSetupRequestIEs{}
	ie.Id.Value = ngapType.ProtocolIEIDSupportedTAList
	ie.Value.Present = ngapType.NGSetupRequestIEsPresentSupportedTAList
	slice := func(sd bool) ngapType.SliceSupportItem {
		s := ngapType.SliceSupportItem{SNSSAI: ngapType.SNSSAI{SST: ngapType.SST{Value: aper.OctetString{1}}}}
		if sd {
			s.SNSSAI.SD = &ngapType.SD{Value: aper.OctetString{1, 2, 3}}
		}
		return s
	}
	ie.Value.SupportedTAList = &ngapType.SupportedTAList{List: []ngapType.SupportedTAItem{
		{TAC: ngapType.TAC{Value: aper.OctetString{0, 0, 1}}, BroadcastPLMNList: ngapType.BroadcastPLMNList{List: []ngapType.BroadcastPLMNItem{
			{PLMNIdentity: ngapType.PLMNIdentity{Value: aper.OctetString{0x44, 0x55, 0x66}}, TAISliceSupportList: ngapType.SliceSupportList{List: []ngapType.SliceSupportItem{slice(true), slice(false)}}},
			{PLMNIdentity: ngapType.PLMNIdentity{Value: aper.OctetString{0x77, 0x88, 0x99}}, TAISliceSupportList: ngapType.SliceSupportList{List: []ngapType.SliceSupportItem{slice(false)}}}}}},
		{TAC: ngapType.TAC{Value: aper.OctetString{0, 0, 2}}, BroadcastPLMNList: ngapType.BroadcastPLMNList{List: []ngapType.BroadcastPLMNItem{
			{PLMNIdentity: ngapType.PLMNIdentity{Value: aper.OctetString{0xaa, 0xbb, 0xcc}}, TAISliceSupportList: ngapType.SliceSupportList{List: []ngapType.SliceSupportItem{slice(true)}}}}}}}}
	ies.List = append(ies.List, ie)
	b, _, err := refper.Encode(pdu, "valueExt,valueLB:0,valueUB:2")
	if err != nil {
		t.Fatalf("refper: %v", err)
	}
	m, err := refid.ReadNGAP(b)
	if err != nil || m.Class != 0 || m.ProcedureCode != 21 || len(m.IEs) != 2 {
		t.Fatalf("ReadNGAP = %+v (%v) on %x", m, err, b)
	}
	v, _ := m.IE(refid.IDGlobalRANNodeID)
	gp, gid, gb, err = refid.GlobalGNBID(v)
	if err != nil || !bytes.Equal(gp, []byte{0x11, 0x22, 0x33}) || gb != 27 || !bytes.Equal(gid, []byte{0xde, 0xad, 0xbe, 0xe0}) {
		t.Fatalf("GlobalGNBID = %x %x %d (%v) on %x", gp, gid, gb, err, v)
	}
	v, _ = m.IE(refid.IDSupportedTAList)
	tas, err := refid.SupportedTAList(v)
	if err != nil || len(tas) != 2 || len(tas[0].PLMNs) != 2 || !bytes.Equal(tas[0].PLMNs[1], []byte{0x77, 0x88, 0x99}) ||
		!bytes.Equal(tas[1].PLMNs[0], []byte{0xaa, 0xbb, 0xcc}) || !bytes.Equal(tas[1].TAC, []byte{0, 0, 2}) {
		t.Fatalf("SupportedTAList = %+v (%v) on %x", tas, err, v)
	}

	// UserLocationInformation with distinct PLMNs in NR-CGI and TAI, via refper
	uli := ngapType.UserLocationInformation{Present: ngapType.UserLocationInformationPresentUserLocationInformationNR,
		UserLocationInformationNR: &ngapType.UserLocationInformationNR{
			NRCGI: ngapType.NRCGI{PLMNIdentity: ngapType.PLMNIdentity{Value: aper.OctetString{1, 2, 3}},
				NRCellIdentity: ngapType.NRCellIdentity{Value: aper.BitString{Bytes: []byte{0x12, 0x34, 0x56, 0x78, 0x90}, BitLength: 36}}},
			TAI: ngapType.TAI{PLMNIdentity: ngapType.PLMNIdentity{Value: aper.OctetString{4, 5, 6}}, TAC: ngapType.TAC{Value: aper.OctetString{7, 8, 9}}}}}
	ub, _, err := refper.Encode(uli, "valueLB:0,valueUB:3")
	if err != nil {
		t.Fatalf("refper: %v", err)
	}
	cp, cell, tp, tac, err = refid.ULINR(ub)
	if err != nil || !bytes.Equal(cp, []byte{1, 2, 3}) || !bytes.Equal(tp, []byte{4, 5, 6}) || !bytes.Equal(tac, []byte{7, 8, 9}) ||
		!bytes.Equal(cell, []byte{0x12, 0x34, 0x56, 0x78, 0x90}) {
		t.Fatalf("ULINR = %x %x %x %x (%v) on %x", cp, cell, tp, tac, err, ub)
	}
}

// The transfer as built by the C12 generator and encoded by refper, against octets derived by
// hand from X.691 / TS 38.413 §9.3.4.1 (they are also what free5GC's SMF is seen to send):
// AMBR 1 Gbit/s both ways, UL NG-U tunnel 10.200.200.102 / TEID 1, PDU session type IPv4,
// one QoS flow (QFI 1, 5QI 9, ARP 8).
func TestSelfTransferEncoding(t *testing.T) {
	x := c12Transfer{AMBR: []int64{1000000000, 1000000000}, TEID: 1, UPF: HexBytes{10, 200, 200, 102},
		Flows: []c12Flow{{QFI: 1, FiveQI: 9, ARP: 8}}}
	b, err := x.build()
	want := "000004" + "0082000a0c3b9aca00303b9aca00" + "008b000a01f00ac8c86600000001" + "0086000100" + "0088000700010000091c00"
	if err != nil || !bytes.Equal(b, unhex(t, want)) {
		t.Fatalf("transfer encoding (%v):\n got %x\nwant %s", err, b, want)
	}
	// every octet-count boundary of the bit rate: 0x0c = length 4, 0x14 = length 6 for 4·10^12
	x.AMBR = []int64{4000000000000, 0}
	b, err = x.build()
	want = "000004" + "00820009" + "1403a352944000" + "0000" + "008b000a01f00ac8c86600000001" + "0086000100" + "0088000700010000091c00"
	if err != nil || !bytes.Equal(b, unhex(t, want)) {
		t.Fatalf("transfer encoding (%v):\n got %x\nwant %s", err, b, want)
	}
}

// the hand-written NG SETUP FAILURE is what the library's decoder (the one ManageNGSetup uses) reads as such
func TestSelfNGSetupFailure(t *testing.T) {
	pdu, err := ngap.Decoder(append([]byte{}, ngSetupFailure...))
	if err != nil || pdu.Present != ngapType.NGAPPDUPresentUnsuccessfulOutcome || pdu.UnsuccessfulOutcome.Value.NGSetupFailure == nil {
		t.Fatalf("NG SETUP FAILURE: %v %+v", err, pdu)
	}
	ies := pdu.UnsuccessfulOutcome.Value.NGSetupFailure.ProtocolIEs.List
	if len(ies) != 2 || ies[0].Value.Cause == nil || ies[0].Value.Cause.Present != ngapType.CausePresentMisc ||
		ies[0].Value.Cause.Misc.Value != ngapType.CauseMiscPresentControlProcessingOverload ||
		ies[1].Value.TimeToWait == nil || ies[1].Value.TimeToWait.Value != ngapType.TimeToWaitPresentV1s {
		t.Fatalf("NG SETUP FAILURE decoded as %+v", ies)
	}
	if b, err := ngap.Encoder(*pdu); err != nil || !bytes.Equal(b, ngSetupFailure) {
		t.Fatalf("re-encoded %x (%v), written %x", b, err, ngSetupFailure)
	}
}
