package pd

import (
	"encoding/hex"
	"encoding/json"
	"fmt"
	"sync"
	"syscall"

	"free5gclib/aper"
	"free5gclib/ngap"
	"free5gclib/ngap/ngapType"
	"github.com/ishidawataru/sctp"
	"pgregory.net/rapid"
	"tglib/ngapTestpacket"
)

// HexBytes is a []byte that travels through JSON as a hex string (readable replay files).
type HexBytes []byte

func (h HexBytes) MarshalJSON() ([]byte, error) { return json.Marshal(hex.EncodeToString(h)) }
func (h *HexBytes) UnmarshalJSON(b []byte) error {
	var s string
	if err := json.Unmarshal(b, &s); err != nil {
		return err
	}
	v, err := hex.DecodeString(s)
	*h = v
	return err
}

func drawBytes(t *rapid.T, n int, label string) []byte {
	return rapid.SliceOfN(rapid.Byte(), n, n).Draw(t, label)
}

func drawDigits(t *rapid.T, n int, label string) string {
	d := rapid.SliceOfN(rapid.IntRange(0, 9), n, n).Draw(t, label)
	b := make([]byte, n)
	for i, x := range d {
		b[i] = byte('0' + x)
	}
	return string(b)
}

func pow10(n int) int64 {
	v := int64(1)
	for i := 0; i < n; i++ {
		v *= 10
	}
	return v
}

// ---- an AMF-side socket for the procedures that insist on a *sctp.SCTPConn ---------------
//
// AF_UNIX/SOCK_SEQPACKET keeps message boundaries like SCTP does and sctp.SCTPConn.Read/Write
// are plain recvmsg/sendmsg (DESIGN F2). The peer end is driven synchronously: the canned
// answer is queued before the procedure is called, the request is read afterwards.

type amfPipe struct {
	conn  *sctp.SCTPConn
	peer  int
	local int
}

// recvNow: the next uplink message if one is waiting.
func (p *amfPipe) recvNow() ([]byte, bool) {
	buf := make([]byte, 65536)
	n, _, err := syscall.Recvfrom(p.peer, buf, syscall.MSG_DONTWAIT)
	if err != nil || n <= 0 {
		return nil, false
	}
	return buf[:n], true
}

// discardDownlink: drop the queued answers the procedure did not read.
func (p *amfPipe) discardDownlink() {
	buf := make([]byte, 65536)
	for {
		if n, _, err := syscall.Recvfrom(p.local, buf, syscall.MSG_DONTWAIT); err != nil || n <= 0 {
			return
		}
	}
}

var (
	pipeOnce sync.Once
	pipe     *amfPipe
	pipeErr  error
	ngSetupResponse []byte
)

func getPipe() (*amfPipe, error) {
	pipeOnce.Do(func() {
		fds, err := syscall.Socketpair(syscall.AF_UNIX, syscall.SOCK_SEQPACKET, 0)
		if err != nil {
			pipeErr = fmt.Errorf("socketpair: %v", err)
			return
		}
		pipe = &amfPipe{conn: sctp.NewSCTPConn(fds[0], nil), peer: fds[1], local: fds[0]}
		// a decodable NG SETUP RESPONSE (environment only, not part of any oracle)
		plmn := ngapType.PLMNIdentity{Value: aper.OctetString{0x02, 0xf8, 0x39}}
		guami := ngapType.ServedGUAMIItem{GUAMI: ngapType.GUAMI{PLMNIdentity: plmn,
			AMFRegionID: ngapType.AMFRegionID{Value: aper.BitString{Bytes: []byte{0xca}, BitLength: 8}},
			AMFSetID:    ngapType.AMFSetID{Value: aper.BitString{Bytes: []byte{0xfe, 0x00}, BitLength: 10}},
			AMFPointer:  ngapType.AMFPointer{Value: aper.BitString{Bytes: []byte{0x00}, BitLength: 6}}}}
		sl := ngapType.SliceSupportItem{SNSSAI: ngapType.SNSSAI{SST: ngapType.SST{Value: aper.OctetString{1}}}}
		ps := ngapType.PLMNSupportItem{PLMNIdentity: plmn, SliceSupportList: ngapType.SliceSupportList{List: []ngapType.SliceSupportItem{sl}}}
		pdu := ngapTestpacket.BuildNGSetupResponse("AMF", []ngapType.ServedGUAMIItem{guami}, []ngapType.PLMNSupportItem{ps}, 255)
		b, err := ngap.Encoder(pdu)
		if err != nil {
			pipeErr = fmt.Errorf("cannot build the canned NG SETUP RESPONSE: %v", err)
			return
		}
		if _, err := ngap.Decoder(b); err != nil {
			pipeErr = fmt.Errorf("canned NG SETUP RESPONSE does not decode: %v", err)
			return
		}
		ngSetupResponse = b
	})
	return pipe, pipeErr
}

func (p *amfPipe) queue(b []byte) error {
	_, err := syscall.Write(p.peer, b)
	return err
}

func (p *amfPipe) recv() ([]byte, error) {
	buf := make([]byte, 65536)
	n, err := syscall.Read(p.peer, buf)
	if err != nil {
		return nil, err
	}
	return buf[:n], nil
}
