package pd

import (
	"bytes"
	"fmt"
	"testing"

	"free5gclib/nas/nasMessage"
	"free5gclib/nas/nasTestpacket"
	"free5gclib/nas/security"
	"free5gclib/ngap/ngapType"
	"pgregory.net/rapid"
	"stgutg"
	"tglib"
	"tglib/ngapTestpacket"

	"verifh/ev"
	"verifh/refid"
)

// C11 over histories (added by the coordinator after a seeded change escaped the per-IMSI
// checks): the PLMN announced at NG Setup must be *repeated in every user-location IE*
// whatever subscriber identities are encoded in between (a roaming subscriber has an IMSI of
// another PLMN), and an identity that is still held (RegisterUE uses its SUCI twice, with
// network round trips in between) must still denote its IMSI when it is used again.
//
// Model: announced = PLMN of the IMSI given to the latest NG Setup; every held identity
// keeps the SUCI octets of the IMSI it was made for.

type c11hOp struct {
	Kind string `json:"kind"` // setup | identity | initialue | uplink | release | reuse
	MCC  string `json:"mcc,omitempty"`
	MNC  string `json:"mnc,omitempty"`
	MSIN string `json:"msin,omitempty"`
	Held int    `json:"held,omitempty"` // index of the held identity to reuse
}
type c11hCase struct {
	Ops []c11hOp `json:"ops"`
}

func genC11h(t *rapid.T) c11hCase {
	drawIMSI := func(op *c11hOp, l string) {
		op.MCC = drawDigits(t, 3, l+"mcc")
		op.MNC = drawDigits(t, rapid.IntRange(2, 3).Draw(t, l+"mnclen"), l+"mnc")
		op.MSIN = drawDigits(t, rapid.IntRange(1, 15-3-len(op.MNC)).Draw(t, l+"msinlen"), l+"msin")
	}
	c := c11hCase{}
	first := c11hOp{Kind: "setup"}
	drawIMSI(&first, "s")
	c.Ops = append(c.Ops, first)
	n := rapid.IntRange(2, 12).Draw(t, "n")
	for i := 0; i < n; i++ {
		l := fmt.Sprintf("o%d", i)
		op := c11hOp{Kind: rapid.SampledFrom([]string{"identity", "identity", "initialue", "uplink", "release", "reuse", "setup"}).Draw(t, l+"kind")}
		switch op.Kind {
		case "setup":
			drawIMSI(&op, l)
		case "identity":
			if rapid.IntRange(0, 4).Draw(t, l+"samedigits") == 0 {
				// the same digit string as an earlier IMSI of the history, split the other way: MCC/MNC2/MSIN and
				// MCC/MNC3/MSIN' are different subscribers of different networks with identical digits
				p := c.Ops[rapid.IntRange(0, len(c.Ops)-1).Draw(t, l+"samedigits_of")]
				switch {
				case len(p.MNC) == 2 && len(p.MSIN) >= 2:
					op.MCC, op.MNC, op.MSIN = p.MCC, p.MNC+p.MSIN[:1], p.MSIN[1:]
				case len(p.MNC) == 3 && len(p.MSIN) <= 9:
					op.MCC, op.MNC, op.MSIN = p.MCC, p.MNC[:2], p.MNC[2:]+p.MSIN
				default:
					drawIMSI(&op, l)
				}
			} else if rapid.Bool().Draw(t, l+"home") {
				// a subscriber of the announced PLMN (the common case): same MCC/MNC as the latest setup
				for j := len(c.Ops) - 1; j >= 0; j-- {
					if c.Ops[j].Kind == "setup" {
						op.MCC, op.MNC = c.Ops[j].MCC, c.Ops[j].MNC
						break
					}
				}
				op.MSIN = drawDigits(t, rapid.IntRange(1, 15-3-len(op.MNC)).Draw(t, l+"msinlen"), l+"msin")
			} else {
				drawIMSI(&op, l)
			}
		case "reuse":
			op.Held = rapid.IntRange(0, 30).Draw(t, l+"held")
		}
		c.Ops = append(c.Ops, op)
	}
	return c
}

func c11hOracle(c c11hCase) ev.Verdict {
	v := ev.Verdict{}
	var announced []byte
	type held struct {
		id   interface{ GetLen() uint16 }
		buf  func() []byte
		want []byte
		imsi string
	}
	var helds []held
	foreign, setups := 0, 0
	checkULI := func(what string, u *ngapType.UserLocationInformation) bool {
		if u == nil || u.UserLocationInformationNR == nil {
			v.Key, v.Err = "history:"+what+":ULI", fmt.Errorf("%s: no NR user location information", what)
			return false
		}
		for name, p := range map[string][]byte{"NR-CGI": u.UserLocationInformationNR.NRCGI.PLMNIdentity.Value, "TAI": u.UserLocationInformationNR.TAI.PLMNIdentity.Value} {
			if !bytes.Equal(p, announced) {
				v.Key = "history:" + what + ":" + name
				v.Err = fmt.Errorf("%s: %s PLMN %x, but NG Setup announced %x (history of %d ops)", what, name, p, announced, len(c.Ops))
				return false
			}
		}
		return true
	}
	nas := nasTestpacket.GetRegistrationComplete(nil)
	for i, op := range c.Ops {
		switch op.Kind {
		case "setup":
			imsi := op.MCC + op.MNC + op.MSIN
			want, err := refid.EncodePLMN(op.MCC, op.MNC)
			if err != nil {
				panic(err)
			}
			// exactly what ManageNGSetup does
			mobilePLMN := stgutg.EncodeSuci([]byte(imsi), len(op.MNC)).Buffer[1:4]
			set := ngapTestpacket.BuildNGSetupRequest(mobilePLMN)
			announced = want
			setups++
			g := set.InitiatingMessage.Value.NGSetupRequest.ProtocolIEs.List[0].Value.GlobalRANNodeID.GlobalGNBID
			if g == nil || !bytes.Equal(g.PLMNIdentity.Value, want) {
				v.Key, v.Err = "history:setup:GlobalGNB-ID", fmt.Errorf("op %d: NG Setup for IMSI %s announces PLMN %x, want %x", i, imsi, g.PLMNIdentity.Value, want)
				return v
			}
		case "identity":
			imsi := op.MCC + op.MNC + op.MSIN
			want, err := refid.EncodeSUCINull(op.MCC, op.MNC, op.MSIN)
			if err != nil {
				panic(err)
			}
			id := stgutg.EncodeSuci([]byte(imsi), len(op.MNC))
			if !bytes.Equal(id.Buffer, want) {
				v.Key, v.Err = "history:identity", fmt.Errorf("op %d: SUCI of IMSI %s is %x, reference %x", i, imsi, id.Buffer, want)
				return v
			}
			helds = append(helds, held{buf: func() []byte { return id.Buffer }, want: want, imsi: imsi})
			if p, _ := refid.EncodePLMN(op.MCC, op.MNC); !bytes.Equal(p, announced) {
				foreign++
			}
		case "reuse":
			if len(helds) == 0 {
				continue
			}
			h := helds[op.Held%len(helds)]
			// RegisterUE builds a second registration request from the identity it made earlier
			ue := tglib.NewRanUeContext("imsi-"+h.imsi, 1, security.AlgCiphering128NEA0, security.AlgIntegrity128NIA2)
			var mi5 = stgutg.EncodeSuci([]byte(h.imsi), 2) // placeholder of the right type, overwritten below
			mi5.Buffer = h.buf()
			mi5.Len = uint16(len(mi5.Buffer))
			reg := nasTestpacket.GetRegistrationRequest(nasMessage.RegistrationType5GSInitialRegistration, *mi5, nil, ue.GetUESecurityCapability(), ue.Get5GMMCapability(), nil, nil)
			mi, err := mobileIdentityOf(reg, 0x41)
			if err != nil || !bytes.Equal(mi, h.want) {
				v.Key = "history:held-identity-changed"
				v.Err = fmt.Errorf("op %d: the identity made earlier for IMSI %s now yields mobile identity %x (%v), want %x", i, h.imsi, mi, err, h.want)
				return v
			}
		case "initialue":
			m := ngapTestpacket.BuildInitialUEMessage(1, nas, "")
			for _, ie := range m.InitiatingMessage.Value.InitialUEMessage.ProtocolIEs.List {
				if ie.Value.Present == ngapType.InitialUEMessageIEsPresentUserLocationInformation && !checkULI("InitialUEMessage", ie.Value.UserLocationInformation) {
					return v
				}
			}
		case "uplink":
			m := ngapTestpacket.BuildUplinkNasTransport(1, 1, nas)
			for _, ie := range m.InitiatingMessage.Value.UplinkNASTransport.ProtocolIEs.List {
				if ie.Value.Present == ngapType.UplinkNASTransportIEsPresentUserLocationInformation && !checkULI("UplinkNASTransport", ie.Value.UserLocationInformation) {
					return v
				}
			}
		case "release":
			m := ngapTestpacket.BuildUEContextReleaseComplete(1, 1, nil)
			for _, ie := range m.SuccessfulOutcome.Value.UEContextReleaseComplete.ProtocolIEs.List {
				if ie.Value.Present == ngapType.UEContextReleaseCompleteIEsPresentUserLocationInformation && !checkULI("UEContextReleaseComplete", ie.Value.UserLocationInformation) {
					return v
				}
			}
		}
	}
	if foreign > 0 {
		v.NT = true
		v.Classes = append(v.Classes, "history:foreign-plmn-identity-after-setup")
	}
	if setups > 1 {
		v.NT = true
		v.Classes = append(v.Classes, "history:second-setup")
	}
	return v
}

func TestC11_History(t *testing.T) {
	r := ev.New(t, "C11", "TestC11_History")
	ev.Run(t, r, genC11h, c11hOracle)
}
