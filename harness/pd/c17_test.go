package pd

import (
	"net"
	"bytes"
	"fmt"
	"strings"
	"testing"

	"free5gclib/aper"
	"free5gclib/nas/nasConvert"
	"free5gclib/ngap/ngapConvert"
	"free5gclib/ngap/ngapType"
	"free5gclib/openapi/models"
	"free5gclib/util_3gpp"
	"pgregory.net/rapid"

	"verifh/ev"
	"verifh/gen"
	"verifh/refid"
)

// C17 — identifier conversion helpers produce the 3GPP encodings and invert exactly.
// One test per converter; every oracle is the reference coding in refid (never the library),
// plus the library inverse where the library has one (IPAddressToString, PCO UnMarshal,
// Dnn.UnmarshalBinary). PlmnIDToNas has no inverse in this tree; the reference decoder inverts it.

// ---------------------------------------------------------------- PLMN (exhaustive)

type c17Plmn struct {
	MCC string `json:"mcc"`
	MNC string `json:"mnc"`
}

func c17PlmnOracle(c c17Plmn) ev.Verdict {
	v := ev.Verdict{NT: len(c.MNC) == 3, Hash: ev.HashBytes([]byte("plmn" + c.MCC + "/" + c.MNC)), Classes: []string{fmt.Sprintf("plmn/mnc%d", len(c.MNC))}}
	want, err := refid.EncodePLMN(c.MCC, c.MNC)
	if err != nil {
		v.Skip = true
		return v
	}
	got := nasConvert.PlmnIDToNas(models.PlmnId{Mcc: c.MCC, Mnc: c.MNC})
	if !bytes.Equal(got, want) {
		v.Key, v.Err = fmt.Sprintf("PlmnIDToNas:mnc%d", len(c.MNC)), fmt.Errorf("PlmnIDToNas(%s,%s) = %x, TS 24.501 coding %x", c.MCC, c.MNC, got, want)
		return v
	}
	if mcc, mnc, err := refid.DecodePLMN(got); err != nil || mcc != c.MCC || mnc != c.MNC {
		v.Key, v.Err = "PlmnIDToNas:inverse", fmt.Errorf("PlmnIDToNas(%s,%s) = %x decodes to %s/%s (%v)", c.MCC, c.MNC, got, mcc, mnc, err)
		return v
	}
	if (len(c.MCC)+len(c.MNC))%7 == 0 || c.MNC == "00" || c.MNC == "000" { // a sample of the exhaustive sweep
		c17Interfere()
		if !bytes.Equal(got, want) {
			v.Key, v.Err = "retained:PlmnIDToNas-result-overwritten-by-later-calls", fmt.Errorf("the octets returned for %s/%s read %x after the converter was used for other PLMNs", c.MCC, c.MNC, got)
		}
	}
	return v
}

func TestC17_Plmn(t *testing.T) {
	r := ev.New(t, "C17", "TestC17_Plmn")
	defer r.Flush()
	if ev.Replay() != "" {
		ev.Run(t, r, func(*rapid.T) c17Plmn { return c17Plmn{} }, c17PlmnOracle)
		return
	}
	ns, sh := ev.NShards(), ev.Shard()
	for k := sh; k < 1000*1100; k += ns {
		c := c17Plmn{MCC: fmt.Sprintf("%03d", k/1100)}
		if j := k % 1100; j < 100 {
			c.MNC = fmt.Sprintf("%02d", j)
		} else {
			c.MNC = fmt.Sprintf("%03d", j-100)
		}
		if !r.Each(t, c, ev.SafeOracle(c17PlmnOracle, c)) {
			return
		}
	}
	r.Note("PlmnIDToNas: exhaustive over 1000 MCC x (100 two-digit + 1000 three-digit MNC)")
}

// ---------------------------------------------------------------- AMF id (exhaustive, 2^24)

type c17AmfBlock struct {
	Hi    int  `json:"hi"`    // the upper 12 bits; the block covers Hi<<12 .. Hi<<12 | 0xfff
	Upper bool `json:"upper"` // hex digits in upper case
	Only  *int `json:"only,omitempty"`
}

func c17AmfOracle(c c17AmfBlock) ev.Verdict {
	v := ev.Verdict{NT: true, Hash: ev.HashBytes([]byte(fmt.Sprintf("amf%d/%v", c.Hi, c.Upper))), Classes: []string{"amfid/block-of-4096"}}
	f := "%06x"
	if c.Upper {
		f = "%06X"
	}
	for lo := 0; lo < 4096; lo++ {
		id := uint32(c.Hi)<<12 | uint32(lo)
		reg, set, ptr := nasConvert.AmfIdToNas(fmt.Sprintf(f, id))
		wr, ws, wp := refid.SplitAMFID(id)
		if reg != wr || set != ws || ptr != wp {
			key := "AmfIdToNas:"
			switch {
			case reg != wr:
				key += "region"
			case set != ws:
				key += "set"
			default:
				key += "pointer"
			}
			v.Key, v.Err = key, fmt.Errorf("AmfIdToNas(%s) = region %#x set %#x pointer %#x, TS 23.003 split %#x / %#x / %#x", fmt.Sprintf(f, id), reg, set, ptr, wr, ws, wp)
			return v
		}
		if set > 0x3ff || ptr > 0x3f || uint32(reg)<<16|uint32(set)<<6|uint32(ptr) != id {
			v.Key, v.Err = "AmfIdToNas:inverse", fmt.Errorf("AmfIdToNas(%06x): the three parts do not recompose the identifier", id)
			return v
		}
	}
	return v
}

func TestC17_AmfId(t *testing.T) {
	r := ev.New(t, "C17", "TestC17_AmfId")
	defer r.Flush()
	if ev.Replay() != "" {
		ev.Run(t, r, func(*rapid.T) c17AmfBlock { return c17AmfBlock{} }, c17AmfOracle)
		return
	}
	ns, sh := ev.NShards(), ev.Shard()
	n := 0
	for hi := sh; hi < 4096; hi += ns {
		c := c17AmfBlock{Hi: hi, Upper: (hi/ns)%2 == 1}
		if !r.Each(t, c, ev.SafeOracle(c17AmfOracle, c)) {
			return
		}
		n += 4096
	}
	r.Class("amfid/values", int64(n))
	r.Note("AmfIdToNas: all 2^24 identifiers, in 4096 blocks of 4096 (one evaluation = one block), hex case alternating per block")
}

// ---------------------------------------------------------------- S-NSSAI (SST exhaustive × SD sampled)

type c17Snssai struct {
	SST   int    `json:"sst"`
	SD    string `json:"sd"` // "" = absent, else 6 hex digits
	Upper bool   `json:"upper,omitempty"`
}

func c17SnssaiOracle(c c17Snssai) ev.Verdict {
	v := ev.Verdict{NT: c.SD != "", Hash: ev.HashBytes([]byte(fmt.Sprintf("snssai%d/%s/%v", c.SST, c.SD, c.Upper)))}
	var sd []byte
	sdText := c.SD
	if c.SD != "" {
		var x uint32
		if _, err := fmt.Sscanf(strings.ToLower(c.SD), "%06x", &x); err != nil || len(c.SD) != 6 {
			v.Skip = true
			return v
		}
		sd = []byte{byte(x >> 16), byte(x >> 8), byte(x)}
		if c.Upper {
			sdText = strings.ToUpper(c.SD)
			v.Classes = []string{"snssai/sd-upper"}
		} else {
			sdText = strings.ToLower(c.SD)
			v.Classes = []string{"snssai/sd-lower"}
		}
	} else {
		v.Classes = []string{"snssai/no-sd"}
	}
	want := refid.EncodeSNSSAI(byte(c.SST), sd)
	got := nasConvert.SnssaiToNas(models.Snssai{Sst: int32(c.SST), Sd: sdText})
	if !bytes.Equal(got, want) {
		v.Key, v.Err = "SnssaiToNas", fmt.Errorf("SnssaiToNas(sst %d, sd %q) = %x, TS 24.501 §9.11.2.8 coding %x", c.SST, sdText, got, want)
		return v
	}
	c17Interfere()
	if !bytes.Equal(got, want) {
		v.Key, v.Err = "retained:SnssaiToNas-result-overwritten-by-later-calls", fmt.Errorf("the octets returned for sst %d sd %q read %x after the converters were used for other values", c.SST, sdText, got)
	}
	return v
}

func TestC17_Snssai(t *testing.T) {
	r := ev.New(t, "C17", "TestC17_Snssai")
	defer r.Flush()
	if ev.Replay() != "" {
		ev.Run(t, r, func(*rapid.T) c17Snssai { return c17Snssai{} }, c17SnssaiOracle)
		return
	}
	per := ev.N(48, 2000)
	sds := rapid.SliceOfN(rapid.Uint32Range(0, 1<<24-1), 256*per, 256*per).Example(int(ev.Seed()))
	edge := []uint32{0, 1, 0xffffff, 0x800000, 0x00ff00, 0xabcdef, 0x0a0b0c}
	for sst := 0; sst < 256; sst++ {
		c := c17Snssai{SST: sst}
		if !r.Each(t, c, ev.SafeOracle(c17SnssaiOracle, c)) {
			return
		}
		list := append(append([]uint32{}, edge...), sds[sst*per:(sst+1)*per]...)
		for _, sd := range list {
			for _, up := range []bool{false, true} {
				c := c17Snssai{SST: sst, SD: fmt.Sprintf("%06x", sd), Upper: up}
				if !r.Each(t, c, ev.SafeOracle(c17SnssaiOracle, c)) {
					return
				}
			}
		}
	}
}

// ---------------------------------------------------------------- transport layer address

type c17IP struct {
	V4    HexBytes `json:"v4,omitempty"` // 4 octets or absent
	V6    HexBytes `json:"v6,omitempty"` // 16 octets or absent
	Style int      `json:"style"`        // text form of the IPv6 input: -1 canonical RFC 5952, 0..6 RFC 4291 variants
}

func genIPv6(t *rapid.T) []byte {
	b := drawBytes(t, 16, "v6")
	switch rapid.IntRange(0, 9).Draw(t, "v6kind") {
	case 0: // one run of zero groups
		from := rapid.IntRange(0, 7).Draw(t, "zfrom")
		to := rapid.IntRange(from, 7).Draw(t, "zto")
		for g := from; g <= to; g++ {
			b[2*g], b[2*g+1] = 0, 0
		}
	case 1, 2: // several runs: every group zero with p = 1/2
		m := rapid.IntRange(0, 255).Draw(t, "zmask")
		for g := 0; g < 8; g++ {
			if m>>uint(g)&1 == 1 {
				b[2*g], b[2*g+1] = 0, 0
			}
		}
	case 3: // small groups (leading zeros inside a group)
		for g := 0; g < 8; g++ {
			b[2*g] = 0
			if rapid.Bool().Draw(t, "tiny") {
				b[2*g+1] &= 0x0f
			}
		}
	case 4:
		b = make([]byte, 16)
		if rapid.Bool().Draw(t, "loopback") {
			b[15] = 1
		}
	case 5: // IPv4-mapped
		copy(b, []byte{0, 0, 0, 0, 0, 0, 0, 0, 0, 0, 0xff, 0xff})
	case 6: // exactly one zero group, at either end or inside
		for g := 0; g < 8; g++ {
			b[2*g] |= 1
		}
		g := rapid.SampledFrom([]int{0, 7, 7, 0, 3}).Draw(t, "zat")
		b[2*g], b[2*g+1] = 0, 0
	}
	return b
}

func genC17IP(t *rapid.T) c17IP {
	var c c17IP
	c.Style = -1
	kind := rapid.IntRange(0, 5).Draw(t, "kind")
	if kind == 0 || kind >= 4 {
		c.V4 = rapid.OneOf(rapid.Just([]byte{0, 0, 0, 0}), rapid.Just([]byte{255, 255, 255, 255}), rapid.Just([]byte{10, 0, 0, 1}),
			rapid.SliceOfN(rapid.Byte(), 4, 4), rapid.SliceOfN(rapid.Byte(), 4, 4), rapid.Custom(func(t *rapid.T) []byte { return gen.SpecialIPv4(t, "v4s") }),
			rapid.Custom(func(t *rapid.T) []byte { return gen.SpecialIPv4(t, "v4s") })).Draw(t, "v4")
	}
	if kind >= 1 {
		c.V6 = genIPv6(t)
		if rapid.IntRange(0, 3).Draw(t, "noncanon") == 0 {
			c.Style = rapid.IntRange(0, 6).Draw(t, "style")
		}
		if c.V4 != nil && rapid.IntRange(0, 5).Draw(t, "v6_is_mapped_v4") == 2 {
			// the IPv6 address of the pair is the IPv4-mapped form of the SAME IPv4 address (::ffff:a.b.c.d): two
			// addresses all the same, 160 bits on the wire
			c.V6 = append([]byte{0, 0, 0, 0, 0, 0, 0, 0, 0, 0, 0xff, 0xff}, c.V4...)
		}
	}
	return c
}

func c17IPOracle(c c17IP) ev.Verdict {
	v := ev.Verdict{}
	if (c.V4 != nil && len(c.V4) != 4) || (c.V6 != nil && len(c.V6) != 16) || (c.V4 == nil && c.V6 == nil) {
		v.Skip = true
		return v
	}
	kind := "ipv4"
	if c.V4 != nil && c.V6 != nil {
		kind = "dual-stack"
		v.NT = true
	} else if c.V6 != nil {
		kind = "ipv6"
	}
	v.Classes = []string{"ip/" + kind}
	var t4, t6, canon6 string
	mapped := false
	if c.V4 != nil {
		t4 = refid.FormatIPv4(c.V4)
	}
	if c.V6 != nil {
		canon6 = refid.FormatIPv6(c.V6)
		t6 = canon6
		if c.Style >= 0 {
			t6 = refid.FormatIPv6Variant(c.V6, c.Style)
			v.Classes = append(v.Classes, "ip/v6-text-not-rfc5952")
		}
		if strings.Contains(canon6, "::") {
			v.Classes = append(v.Classes, "ip/v6-zero-compressed")
		}
		if mapped = refid.IsIPv4Mapped(c.V6); mapped {
			v.Classes = append(v.Classes, "ip/v6-is-ipv4-mapped")
		}
	}
	wantOct, wantBits := refid.TLA(c.V4, c.V6)

	// text → BIT STRING
	tla := ngapConvert.IPAddressToNgap(t4, t6)
	if int(tla.Value.BitLength) != wantBits || !bytes.Equal(tla.Value.Bytes, wantOct) {
		v.Key, v.Err = "IPAddressToNgap:"+kind, fmt.Errorf("IPAddressToNgap(%q,%q) = %x/%d bits, TS 38.414 coding %x/%d", t4, t6, tla.Value.Bytes, tla.Value.BitLength, wantOct, wantBits)
		return v
	}
	// BIT STRING → text (from the reference octets, so this direction does not depend on the other)
	s4, s6 := ngapConvert.IPAddressToString(ngapType.TransportLayerAddress{Value: aper.BitString{Bytes: append([]byte{}, wantOct...), BitLength: uint64(wantBits)}})
	if s4 != t4 {
		v.Key, v.Err = "IPAddressToString:"+kind+":v4", fmt.Errorf("IPAddressToString(%x/%d) IPv4 = %q, want %q", wantOct, wantBits, s4, t4)
		return v
	}
	if mapped {
		// ::ffff:a.b.c.d is not a usable N3 endpoint; Go prints it in dotted form. Only the
		// octet-level round trip is claimed for this class.
		back := ngapConvert.IPAddressToNgap(t4, s6)
		if !bytes.Equal(back.Value.Bytes, wantOct) {
			v.Key, v.Err = "IPAddressToString:"+kind+":mapped-roundtrip", fmt.Errorf("IPv4-mapped address %x does not survive BIT STRING → text %q → BIT STRING %x", wantOct, s6, back.Value.Bytes)
		}
		return v
	}
	if s6 != canon6 {
		v.Key, v.Err = "IPAddressToString:"+kind+":v6", fmt.Errorf("IPAddressToString(%x/%d) IPv6 = %q, want %q (RFC 5952)", wantOct, wantBits, s6, canon6)
		return v
	}
	// both round trips on the canonical strings
	back := ngapConvert.IPAddressToNgap(s4, s6)
	if int(back.Value.BitLength) != wantBits || !bytes.Equal(back.Value.Bytes, wantOct) {
		v.Key, v.Err = "IPAddress:roundtrip:" + kind, fmt.Errorf("BIT STRING %x → (%q,%q) → BIT STRING %x", wantOct, s4, s6, back.Value.Bytes)
		return v
	}
	r4, r6 := ngapConvert.IPAddressToString(ngapConvert.IPAddressToNgap(t4, canon6))
	if r4 != t4 || r6 != canon6 {
		v.Key, v.Err = "IPAddress:roundtrip:" + kind, fmt.Errorf("(%q,%q) → BIT STRING → (%q,%q)", t4, canon6, r4, r6)
		return v
	}
	c17Interfere()
	if int(tla.Value.BitLength) != wantBits || !bytes.Equal(tla.Value.Bytes, wantOct) {
		v.Key, v.Err = "retained:IPAddressToNgap-result-overwritten-by-later-calls", fmt.Errorf("the BIT STRING returned for (%q,%q) reads %x/%d after the converters were used for other addresses", t4, t6, tla.Value.Bytes, tla.Value.BitLength)
	}
	return v
}

func TestC17_IP(t *testing.T) {
	r := ev.New(t, "C17", "TestC17_IP")
	ev.Run(t, r, genC17IP, c17IPOracle)
}

// ---------------------------------------------------------------- PCO

type c17Unit struct {
	ID       uint16   `json:"id"`
	Contents HexBytes `json:"contents"`
}
type c17PCO struct {
	Units []c17Unit `json:"units"`
	// Proto: configuration protocol (bits 3..1 of the first octet) of the encoding handed to UnMarshal. Only 000
	// (PPP) is defined; "all other values shall be interpreted as PPP in this version of the protocol" (TS 24.008
	// 10.5.6.3), so 81..87 in front of the same units are encodings of the same list.
	Proto int `json:"configuration_protocol,omitempty"`
}

func genC17PCO(t *rapid.T) c17PCO {
	n := rapid.OneOf(rapid.IntRange(0, 6), rapid.IntRange(0, 6), rapid.IntRange(0, 40), rapid.Just(40)).Draw(t, "nunits")
	var c c17PCO
	for i := 0; i < n; i++ {
		l := rapid.OneOf(rapid.Just(0), rapid.Just(0), rapid.IntRange(1, 4), rapid.IntRange(1, 20), rapid.Just(255), rapid.IntRange(0, 255)).Draw(t, fmt.Sprintf("len%d", i))
		c.Units = append(c.Units, c17Unit{ID: rapid.Uint16().Draw(t, fmt.Sprintf("id%d", i)), Contents: drawBytes(t, l, fmt.Sprintf("c%d", i))})
	}
	if rapid.IntRange(0, 3).Draw(t, "other_protocol") == 1 {
		c.Proto = rapid.IntRange(1, 7).Draw(t, "configuration_protocol")
	}
	return c
}

func samePCO(list []*nasConvert.ProtocolOrContainerUnit, units []c17Unit) error {
	if len(list) != len(units) {
		return fmt.Errorf("%d units, want %d", len(list), len(units))
	}
	for i, u := range list {
		if u == nil || u.ProtocolOrContainerID != units[i].ID || int(u.LengthOfContents) != len(units[i].Contents) || !bytes.Equal(u.Contents, units[i].Contents) {
			return fmt.Errorf("unit %d = %+v, want id %#x contents %x", i, u, units[i].ID, []byte(units[i].Contents))
		}
	}
	return nil
}

func c17PCOOracle(c c17PCO) ev.Verdict {
	v := ev.Verdict{Classes: []string{fmt.Sprintf("pco/units=%s", bucket(len(c.Units)))}}
	var ref []refid.PCOUnit
	p := nasConvert.NewProtocolConfigurationOptions()
	zeroNotLast, big := false, false
	for i, u := range c.Units {
		if len(u.Contents) > 255 {
			v.Skip = true
			return v
		}
		ref = append(ref, refid.PCOUnit{ID: u.ID, Contents: u.Contents})
		pu := nasConvert.NewProtocolOrContainerUnit()
		pu.ProtocolOrContainerID, pu.LengthOfContents = u.ID, uint8(len(u.Contents))
		pu.Contents = append(pu.Contents, u.Contents...)
		p.ProtocolOrContainerList = append(p.ProtocolOrContainerList, pu)
		if len(u.Contents) == 0 && i != len(c.Units)-1 {
			zeroNotLast = true
		}
		if len(u.Contents) == 255 {
			big = true
		}
	}
	if zeroNotLast {
		v.NT = true
		v.Classes = append(v.Classes, "pco/zero-length-unit-not-last")
	}
	if n := len(c.Units); n > 0 && len(c.Units[n-1].Contents) == 0 {
		v.Classes = append(v.Classes, "pco/zero-length-unit-last")
	}
	if big {
		v.Classes = append(v.Classes, "pco/unit-of-255")
	}
	want, _ := refid.EncodePCO(ref)
	got := p.Marshal()
	if !bytes.Equal(got, want) {
		v.Key, v.Err = "PCO.Marshal", fmt.Errorf("Marshal = %x, TS 24.008 §10.5.6.3 layout %x", got, want)
		return v
	}
	if _, back, err := refid.ParsePCO(got); err != nil || len(back) != len(ref) {
		v.Key, v.Err = "PCO.Marshal", fmt.Errorf("reference parser on Marshal output: %v (%d units)", err, len(back))
		return v
	}
	q := nasConvert.NewProtocolConfigurationOptions()
	in := append([]byte{}, want...)
	if c.Proto != 0 && len(in) > 0 {
		in[0] = in[0]&0xf8 | byte(c.Proto&7)
		v.Classes = append(v.Classes, "pco/configuration-protocol!=000")
	}
	if err := q.UnMarshal(in); err != nil {
		v.Key, v.Err = "PCO.UnMarshal:error", fmt.Errorf("UnMarshal(%x): %v", in, err)
		return v
	}
	if err := samePCO(q.ProtocolOrContainerList, c.Units); err != nil {
		v.Key, v.Err = "PCO.UnMarshal:value", fmt.Errorf("UnMarshal(%x): %v", want, err)
		return v
	}
	q2 := nasConvert.NewProtocolConfigurationOptions()
	if err := q2.UnMarshal(p.Marshal()); err != nil || samePCO(q2.ProtocolOrContainerList, c.Units) != nil {
		v.Key, v.Err = "PCO:roundtrip", fmt.Errorf("UnMarshal(Marshal(x)) != x (%v)", err)
		return v
	}
	c17Interfere()
	if !bytes.Equal(got, want) {
		v.Key, v.Err = "retained:PCO.Marshal-result-overwritten-by-later-calls", fmt.Errorf("the octets Marshal returned (%x) read %x after the converters were used for other values", want, got)
		return v
	}
	if err := samePCO(q.ProtocolOrContainerList, c.Units); err != nil {
		v.Key, v.Err = "retained:PCO.UnMarshal-result-changed-by-later-calls", fmt.Errorf("the list UnMarshal returned changed after the converters were used for other values: %v", err)
	}
	return v
}

// c17Interfere uses every slice-returning converter for other, fixed inputs — what a caller serving several UEs or
// sessions does between obtaining a result and using it. A result that these later calls rewrite was never the
// encoding of its own argument.
func c17Interfere() {
	_, _ = ev.Guard(func() error {
		p := nasConvert.NewProtocolConfigurationOptions()
		for _, u := range []struct {
			id uint16
			c  []byte
		}{{0x000d, []byte{8, 8, 8, 8}}, {0x0010, []byte{0x05, 0x78}}, {0x000a, nil}} {
			pu := nasConvert.NewProtocolOrContainerUnit()
			pu.ProtocolOrContainerID, pu.LengthOfContents = u.id, uint8(len(u.c))
			pu.Contents = append(pu.Contents, u.c...)
			p.ProtocolOrContainerList = append(p.ProtocolOrContainerList, pu)
		}
		b := p.Marshal()
		q := nasConvert.NewProtocolConfigurationOptions()
		_ = q.UnMarshal(b)
		_ = nasConvert.PlmnIDToNas(models.PlmnId{Mcc: "999", Mnc: "999"})
		_ = nasConvert.SnssaiToNas(models.Snssai{Sst: 255, Sd: "ffffff"})
		t := ngapConvert.IPAddressToNgap("255.255.255.255", "ffff:ffff:ffff:ffff:ffff:ffff:ffff:ffff")
		_, _ = ngapConvert.IPAddressToString(t)
		d := util_3gpp.Dnn([]byte("zzzzzzzzzzzzzzzzzzzzzzzzzzzzzzzz"))
		_, _ = d.MarshalBinary()
		return nil
	})
}

func bucket(n int) string {
	switch {
	case n == 0:
		return "0"
	case n <= 3:
		return "1-3"
	case n <= 10:
		return "4-10"
	case n < 40:
		return "11-39"
	}
	return "40"
}

func TestC17_PCO(t *testing.T) {
	r := ev.New(t, "C17", "TestC17_PCO")
	ev.Run(t, r, genC17PCO, c17PCOOracle)
}

// ---------------------------------------------------------------- DNN

type c17Dnn struct {
	DNN HexBytes `json:"dnn"` // the octets handed to util_3gpp.Dnn (text of the DNN)
}

var dnnAlphabet = []byte("abcdefghijklmnopqrstuvwxyzABCDEFGHIJKLMNOPQRSTUVWXYZ0123456789-")

func genC17Dnn(t *rapid.T) c17Dnn {
	switch rapid.IntRange(0, 4).Draw(t, "kind") {
	case 0:
		return c17Dnn{DNN: []byte("internet")}
	case 1: // several labels
		n := rapid.IntRange(2, 5).Draw(t, "labels")
		var parts []string
		for i := 0; i < n; i++ {
			parts = append(parts, string(rapid.SliceOfN(rapid.SampledFrom(dnnAlphabet), 1, 15).Draw(t, fmt.Sprintf("l%d", i))))
		}
		return c17Dnn{DNN: []byte(strings.Join(parts, "."))}
	case 2: // arbitrary octets 1..100
		return c17Dnn{DNN: drawBytes(t, rapid.IntRange(1, 100).Draw(t, "n"), "raw")}
	case 3: // network identifier followed by an operator identifier (TS 23.003 9.1.2): a valid DNN like any other
		ni := string(rapid.SliceOfN(rapid.SampledFrom(dnnAlphabet), 1, 20).Draw(t, "ni"))
		if rapid.Bool().Draw(t, "ni2") {
			ni += "." + string(rapid.SliceOfN(rapid.SampledFrom(dnnAlphabet), 1, 10).Draw(t, "ni_l2"))
		}
		return c17Dnn{DNN: []byte(fmt.Sprintf("%s.mnc%03d.mcc%03d.gprs", ni, rapid.IntRange(0, 999).Draw(t, "oi_mnc"), rapid.IntRange(0, 999).Draw(t, "oi_mcc")))}
	}
	return c17Dnn{DNN: rapid.SliceOfN(rapid.SampledFrom(dnnAlphabet), 1, 63).Draw(t, "label")}
}

func c17DnnOracle(c c17Dnn) ev.Verdict {
	v := ev.Verdict{NT: true}
	if len(c.DNN) < 1 || len(c.DNN) > 100 {
		v.Skip = true
		return v
	}
	d := util_3gpp.Dnn(append([]byte{}, c.DNN...))
	got, err := d.MarshalBinary()
	if err != nil {
		v.Key, v.Err = "Dnn.MarshalBinary:error", err
		return v
	}
	if len(got) != len(c.DNN)+1 || int(got[0]) != len(c.DNN) || !bytes.Equal(got[1:], c.DNN) {
		v.Key, v.Err = "Dnn.MarshalBinary", fmt.Errorf("MarshalBinary(%q) = %x, want length octet + value", c.DNN, got)
		return v
	}
	single := !bytes.Contains(c.DNN, []byte(".")) && len(c.DNN) <= 63
	if single {
		v.Classes = []string{"dnn/single-label"}
		if want, err := refid.EncodeDNNLabels(string(c.DNN)); err == nil && !bytes.Equal(got, want) {
			v.Key, v.Err = "Dnn.MarshalBinary", fmt.Errorf("MarshalBinary(%q) = %x, TS 23.003 label coding %x", c.DNN, got, want)
			return v
		}
	} else {
		// The helper prefixes one length octet and does not split at dots, so a multi-label DNN is
		// not in TS 23.003 §9.1 label form. C17's statement does not list the DNN coding; recorded
		// as an observation (class count), only the round trip is asserted.
		v.Classes = []string{"dnn/multi-label-or-raw(observation: single length prefix, not per-label coding)"}
	}
	var e util_3gpp.Dnn
	if err := e.UnmarshalBinary(got); err != nil || !bytes.Equal(e, c.DNN) {
		v.Key, v.Err = "Dnn:roundtrip", fmt.Errorf("UnmarshalBinary(MarshalBinary(%q)) = %q (%v)", c.DNN, []byte(e), err)
	}
	return v
}

func TestC17_Dnn(t *testing.T) {
	r := ev.New(t, "C17", "TestC17_Dnn")
	ev.Run(t, r, genC17Dnn, c17DnnOracle)
}

// ---------------------------------------------------------------- PCO built with the Add… helpers
//
// The model form of an option list is usually not assembled by hand but with the helpers (the emulator's own PDU
// session request does so). A drawn sequence of helper calls must give the list of TS 24.008 containers named by
// the calls — in call order, one container per call, repeated kinds included — and Marshal/UnMarshal on it as before.

type c17PCOCall struct {
	Kind string   `json:"kind"` // v4req v6req ipalloc dns4 dns6 mtu
	IP   HexBytes `json:"ip,omitempty"`
	MTU  uint16   `json:"mtu,omitempty"`
}
type c17PCOHelpers struct {
	Calls []c17PCOCall `json:"calls"`
}

func genC17PCOHelpers(t *rapid.T) c17PCOHelpers {
	var c c17PCOHelpers
	n := rapid.IntRange(0, 12).Draw(t, "ncalls")
	if rapid.IntRange(0, 3).Draw(t, "long") == 2 {
		// "option lists of any length": the list goes into the EXTENDED protocol configuration options IE (two length
		// octets), so lists beyond the 251/253 octets of the TS 24.008 IE are lists like any other
		n = rapid.IntRange(13, 160).Draw(t, "ncalls_long")
	}
	for i := 0; i < n; i++ {
		k := c17PCOCall{Kind: rapid.SampledFrom([]string{"v4req", "v6req", "ipalloc", "dns4", "dns4", "dns6", "dns6", "mtu"}).Draw(t, "kind")}
		switch k.Kind {
		case "dns4":
			k.IP = rapid.SliceOfN(rapid.Byte(), 4, 4).Draw(t, "ip4")
		case "dns6":
			k.IP = rapid.SliceOfN(rapid.Byte(), 16, 16).Draw(t, "ip6")
			if len(k.IP) == 16 && bytes.Equal(k.IP[:12], []byte{0, 0, 0, 0, 0, 0, 0, 0, 0, 0, 0xff, 0xff}) {
				k.IP[0] = 0x20 // (an IPv4-mapped address is an IPv4 address to Go's net package: kept out of the v6 helper's domain)
			}
		case "mtu":
			k.MTU = uint16(rapid.IntRange(0, 65535).Draw(t, "mtu"))
		}
		c.Calls = append(c.Calls, k)
	}
	return c
}

func c17PCOHelpersOracle(c c17PCOHelpers) ev.Verdict {
	v := ev.Verdict{NT: len(c.Calls) >= 2, Classes: []string{fmt.Sprintf("pco-helpers/calls=%s", bucket(len(c.Calls)))}}
	p := nasConvert.NewProtocolConfigurationOptions()
	var want []refid.PCOUnit
	seen := map[string]bool{}
	for i, k := range c.Calls {
		var err error
		switch k.Kind {
		case "v4req":
			p.AddDNSServerIPv4AddressRequest()
			want = append(want, refid.PCOUnit{ID: 0x000d})
		case "v6req":
			p.AddDNSServerIPv6AddressRequest()
			want = append(want, refid.PCOUnit{ID: 0x0003})
		case "ipalloc":
			p.AddIPAddressAllocationViaNASSignallingUL()
			want = append(want, refid.PCOUnit{ID: 0x000a})
		case "dns4":
			if len(k.IP) != 4 {
				v.Skip = true
				return v
			}
			err = p.AddDNSServerIPv4Address(net.IP(append([]byte{}, k.IP...)))
			want = append(want, refid.PCOUnit{ID: 0x000d, Contents: k.IP})
		case "dns6":
			if len(k.IP) != 16 {
				v.Skip = true
				return v
			}
			err = p.AddDNSServerIPv6Address(net.IP(append([]byte{}, k.IP...)))
			want = append(want, refid.PCOUnit{ID: 0x0003, Contents: k.IP})
		case "mtu":
			err = p.AddIPv4LinkMTU(k.MTU)
			want = append(want, refid.PCOUnit{ID: 0x0010, Contents: []byte{byte(k.MTU >> 8), byte(k.MTU)}})
		default:
			v.Skip = true
			return v
		}
		if err != nil {
			v.Key, v.Err = "PCO.Add:error", fmt.Errorf("call %d (%s): %v", i, k.Kind, err)
			return v
		}
		if seen[k.Kind] {
			v.Classes = append(v.Classes, "pco-helpers/same-kind-twice")
			v.NT = true
		}
		seen[k.Kind] = true
	}
	wantBytes, _ := refid.EncodePCO(want)
	if len(wantBytes) > 251 {
		v.Classes = append(v.Classes, "pco-helpers/list-longer-than-251-octets")
	}
	got := p.Marshal()
	if !bytes.Equal(got, wantBytes) {
		v.Key, v.Err = "PCO.Add:list", fmt.Errorf("after %d helper calls Marshal = %x, the containers the calls name are %x", len(c.Calls), got, wantBytes)
		return v
	}
	q := nasConvert.NewProtocolConfigurationOptions()
	if err := q.UnMarshal(append([]byte{}, got...)); err != nil || len(q.ProtocolOrContainerList) != len(want) {
		v.Key, v.Err = "PCO.Add:roundtrip", fmt.Errorf("UnMarshal(Marshal(list built with helpers)): %v, %d units, want %d", err, len(q.ProtocolOrContainerList), len(want))
	}
	return v
}

func TestC17_PCOHelpers(t *testing.T) {
	r := ev.New(t, "C17", "TestC17_PCOHelpers")
	ev.Run(t, r, genC17PCOHelpers, c17PCOHelpersOracle)
}
