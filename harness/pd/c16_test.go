package pd

import (
	"bytes"
	"fmt"
	"strings"
	"testing"

	"free5gclib/nas/security"
	"pgregory.net/rapid"
	"stgutg"
	"tglib"

	"verifh/ev"
)

// C16 — emulated UEs have distinct identities derived from the configured IMSI.
//
// One case is one *population*: an initial IMSI, a UE count N and the credential strings; the
// oracle calls stgutg.CreateUE(imsi, i, K, OPC, OP) for i = 0..N−1 exactly as the loops of
// stg-utg.go do and looks at the whole population. Nothing is required of *how* the per-UE
// identity is derived from (IMSI, index) beyond what the property states.

type c16Case struct {
	MCC  string `json:"mcc"`
	MNC  string `json:"mnc"`
	MSIN string `json:"msin"`
	N    int    `json:"n"`
	K    string `json:"k"`
	OPC  string `json:"opc"`
	OP   string `json:"op"`
	// Prior: credential sets (K, OPc, OP) of UEs created earlier in the same process (another
	// run / another configuration). Added after a seeded change that cached subscriptions by
	// concatenated key: what one UE carries must not depend on UEs created before it.
	Prior [][3]string `json:"prior,omitempty"`
}

func genHexKey(t *rapid.T, label string) string {
	b := drawBytes(t, 16, label)
	s := fmt.Sprintf("%x", b)
	switch rapid.IntRange(0, 3).Draw(t, label+"_case") {
	case 0:
		return strings.ToUpper(s)
	case 1: // mixed case
		r := []byte(s)
		for i := range r {
			if i%3 == 0 {
				r[i] = strings.ToUpper(string(r[i]))[0]
			}
		}
		return string(r)
	}
	return s
}

func genC16(t *rapid.T) c16Case {
	c := c16Case{MCC: drawDigits(t, 3, "mcc")}
	c.MNC = drawDigits(t, rapid.IntRange(2, 3).Draw(t, "mnclen"), "mnc")
	c.N = rapid.OneOf(rapid.Just(1), rapid.Just(2), rapid.Just(2), rapid.Just(10), rapid.IntRange(2, 300), rapid.IntRange(2, 300),
		rapid.Just(1000), rapid.Just(10000), rapid.IntRange(1, 10000)).Draw(t, "n")
	maxLen := 15 - 3 - len(c.MNC)
	minLen := 1
	for pow10(minLen) < int64(c.N) {
		minLen++
	}
	l := rapid.IntRange(minLen, maxLen).Draw(t, "msinlen")
	room := pow10(l) - int64(c.N) // largest start value that does not exhaust the MSIN digits
	var start int64
	switch rapid.IntRange(0, 5).Draw(t, "startkind") {
	case 0:
		start = 0
	case 1:
		start = room // the last UE gets MSIN 9…9
	case 2: // MSIN ending in 0…0
		z := rapid.IntRange(1, l).Draw(t, "zeros")
		start = rapid.Int64Range(0, room).Draw(t, "start") / pow10(z) * pow10(z)
	case 3: // the population crosses a power of ten (…9998, …9999, …0000)
		e := rapid.IntRange(1, l).Draw(t, "edge")
		start = pow10(e) - 1 - int64(rapid.IntRange(0, c.N-1).Draw(t, "before"))
		if start < 0 || start > room {
			start = room
		}
	default:
		start = rapid.Int64Range(0, room).Draw(t, "start")
	}
	c.MSIN = fmt.Sprintf("%0*d", l, start)
	if rapid.IntRange(0, 9).Draw(t, "binary_boundary") == 0 {
		// the IMSI read as ONE number crosses a power of two (2^31, 2^32, 2^53, 2^63 would be the places where an
		// implementation that converts the digits to a machine integer may wrap or lose precision); populations large
		// enough that identifiers derived from that number can collide across the boundary
		c.N = rapid.SampledFrom([]int{2, 300, 7300, 9000, 10000}).Draw(t, "bb_n")
		bit := uint(rapid.SampledFrom([]int{31, 32, 32, 33, 40, 48}).Draw(t, "bb_bit"))
		mult := rapid.Int64Range(1, (999999999999999>>bit)).Draw(t, "bb_mult")
		first := mult<<bit - int64(rapid.IntRange(1, c.N-1).Draw(t, "bb_before"))
		digits := fmt.Sprintf("%015d", first)
		if first > 0 && len(digits) == 15 {
			mncLen := rapid.IntRange(2, 3).Draw(t, "bb_mnclen")
			msin := digits[3+mncLen:]
			var v int64
			fmt.Sscanf(msin, "%d", &v)
			if v+int64(c.N) <= pow10(len(msin)) {
				c.MCC, c.MNC, c.MSIN = digits[:3], digits[3:3+mncLen], msin
			}
		}
	}
	c.K = genHexKey(t, "k")
	switch rapid.IntRange(0, 3).Draw(t, "cred") {
	case 0:
		c.OPC, c.OP = genHexKey(t, "opc"), ""
	case 1:
		c.OPC, c.OP = "", genHexKey(t, "op")
	case 2:
		c.OPC, c.OP = genHexKey(t, "opc"), genHexKey(t, "op")
	default: // "all K/OP/OPc strings": the context must carry whatever was configured
		c.K = rapid.StringN(0, 40, 80).Draw(t, "kstr")
		c.OPC = rapid.StringN(0, 40, 80).Draw(t, "opcstr")
		c.OP = rapid.StringN(0, 40, 80).Draw(t, "opstr")
	}
	for i, n := 0, rapid.IntRange(0, 3).Draw(t, "nprior"); i < n; i++ {
		var p [3]string
		switch rapid.IntRange(0, 4).Draw(t, "priorkind") {
		case 0: // same K, OPc and OP swapped
			p = [3]string{c.K, c.OP, c.OPC}
		case 1: // same K, the concatenation OPc||OP split elsewhere
			cat := c.OPC + c.OP
			k := rapid.IntRange(0, len(cat)).Draw(t, "split")
			p = [3]string{c.K, cat[:k], cat[k:]}
		case 2: // same OPc/OP, another K
			p = [3]string{genHexKey(t, "pk"), c.OPC, c.OP}
		case 3: // K and OPc exchanged
			p = [3]string{c.OPC, c.K, c.OP}
		default:
			p = [3]string{genHexKey(t, "pk"), genHexKey(t, "popc"), genHexKey(t, "pop")}
		}
		c.Prior = append(c.Prior, p)
	}
	return c
}

// expected UE security capability contents (TS 24.501 §9.11.3.54): octet 3 bit 8 = 5G-EA0 …
// bit 5 = 128-5G-EA3; octet 4 bit 8 = 5G-IA0 … bit 5 = 128-5G-IA3.
func wantCapability(ciph, integ uint8) []byte { return []byte{0x80 >> ciph, 0x80 >> integ} }

func c16CheckCapability(ue *tglib.RanUeContext) (string, error) {
	cap := ue.GetUESecurityCapability()
	want := wantCapability(ue.CipheringAlg, ue.IntegrityAlg)
	if cap == nil || cap.Iei != 0x2E || int(cap.Len) != len(cap.Buffer) || len(cap.Buffer) < 2 ||
		cap.Buffer[0] != want[0] || cap.Buffer[1] != want[1] {
		return "GetUESecurityCapability:bits", fmt.Errorf("context uses NEA%d/NIA%d but advertises %+v, want contents %x", ue.CipheringAlg, ue.IntegrityAlg, cap, want)
	}
	for _, x := range cap.Buffer[2:] {
		if x != 0 {
			return "GetUESecurityCapability:bits", fmt.Errorf("context uses NEA%d/NIA%d but advertises extra EPS bits %x", ue.CipheringAlg, ue.IntegrityAlg, cap.Buffer)
		}
	}
	return "", nil
}

func c16Oracle(c c16Case) (v ev.Verdict) {
	imsi := c.MCC + c.MNC + c.MSIN
	v = ev.Verdict{NT: c.N >= 2}
	if len(imsi) > 15 || len(c.MSIN) < 1 || c.N < 1 || c.N > 10000 {
		v.Skip = true
		return v
	}
	var priors []*tglib.RanUeContext
	authenticated := false
	credsOf := func(ue *tglib.RanUeContext) (k, opc, op string) {
		a := ue.AuthenticationSubs
		if a.PermanentKey != nil {
			k = a.PermanentKey.PermanentKeyValue
		}
		if a.Opc != nil {
			opc = a.Opc.OpcValue
		}
		if a.Milenage != nil && a.Milenage.Op != nil {
			op = a.Milenage.Op.OpValue
		}
		return
	}
	for pi, p := range c.Prior {
		ue := stgutg.CreateUE(imsi, 0, p[0], p[1], p[2])
		priors = append(priors, ue)
		a := ue.AuthenticationSubs
		if a.PermanentKey == nil || a.PermanentKey.PermanentKeyValue != p[0] || a.Opc == nil || a.Opc.OpcValue != p[1] ||
			a.Milenage == nil || a.Milenage.Op == nil || a.Milenage.Op.OpValue != p[2] {
			v.Key, v.Err = "CreateUE:credentials-of-earlier-ue", fmt.Errorf("prior UE %d created with (K=%q, OPc=%q, OP=%q) carries %+v / %+v / %+v", pi, p[0], p[1], p[2], a.PermanentKey, a.Opc, a.Milenage)
			return v
		}
	}
	if len(c.Prior) > 0 {
		v.Classes = append(v.Classes, "prior-ues-with-other-credentials")
	}
	var start int64
	fmt.Sscanf(c.MSIN, "%d", &start)
	if start+int64(c.N) > pow10(len(c.MSIN)) {
		v.Skip = true // beyond exhaustion of the MSIN digits: outside the property
		return v
	}
	v.Classes = []string{fmt.Sprintf("mnc%d", len(c.MNC)), fmt.Sprintf("imsilen=%02d", len(imsi))}
	switch {
	case c.N == 1:
		v.Classes = append(v.Classes, "n=1")
	case c.N <= 10:
		v.Classes = append(v.Classes, "n=2..10")
	case c.N < 1000:
		v.Classes = append(v.Classes, "n=11..999")
	case c.N < 10000:
		v.Classes = append(v.Classes, "n=1000..9999")
	default:
		v.Classes = append(v.Classes, "n=10000")
	}
	if imsi[0] == '0' {
		v.Classes = append(v.Classes, "imsi-leading-zero")
	}
	if start+int64(c.N) == pow10(len(c.MSIN)) {
		v.Classes = append(v.Classes, "msin-up-to-9..9")
	}
	if strings.HasSuffix(c.MSIN, "0") {
		v.Classes = append(v.Classes, "msin-ends-in-0")
	}
	if start/10000 != (start+int64(c.N)-1)/10000 {
		v.Classes = append(v.Classes, "crosses-10^4")
	}
	if c.OPC == "" {
		v.Classes = append(v.Classes, "op-only")
	}

	// a UE that exists keeps its credentials: UEs made earlier with other credentials are looked at again after the
	// population below has been created (and the first UEs of the population after all the others)
	var firstOfPopulation []*tglib.RanUeContext
	defer func() {
		if v.Err != nil {
			return
		}
		for pi, ue := range priors {
			if k, opc, op := credsOf(ue); k != c.Prior[pi][0] || opc != c.Prior[pi][1] || op != c.Prior[pi][2] {
				v.Key = "CreateUE:credentials-changed-by-later-ues"
				v.Err = fmt.Errorf("UE created earlier with (K=%q, OPc=%q, OP=%q) carries (K=%q, OPc=%q, OP=%q) after %d UEs with other credentials were created", c.Prior[pi][0], c.Prior[pi][1], c.Prior[pi][2], k, opc, op, c.N)
				return
			}
		}
		// "each UE carries the configured K and OP/OPc" - also once it has used them: where the configured strings are
		// credentials the derivation accepts (32 hexadecimal digits; OPc, or OP alone), the UEs run one authentication
		// (as RegisterUE makes them) before their credentials are looked at again
		hex32 := func(x string) bool {
			if len(x) != 32 {
				return false
			}
			for _, ch := range x {
				if !(ch >= '0' && ch <= '9' || ch >= 'a' && ch <= 'f' || ch >= 'A' && ch <= 'F') {
					return false
				}
			}
			return true
		}
		if hex32(c.K) && ((hex32(c.OPC) && (c.OP == "" || hex32(c.OP))) || (c.OPC == "" && hex32(c.OP))) && len(c.MCC) == 3 && (len(c.MNC) == 2 || len(c.MNC) == 3) {
			mnc3 := c.MNC
			if len(mnc3) == 2 {
				mnc3 = "0" + mnc3
			}
			for i, ue := range firstOfPopulation {
				var autn [16]byte
				autn[0], autn[15] = byte(i), 0x5a
				rnd := bytes.Repeat([]byte{byte(0x30 + i)}, 16)
				if _, site := ev.Guard(func() error {
					ue.DeriveRESstarAndSetKey(ue.AuthenticationSubs, autn, rnd, "5G:mnc"+mnc3+".mcc"+c.MCC+".3gppnetwork.org", c.MNC, c.MCC)
					return nil
				}); site != "" {
					break
				}
				authenticated = true
			}
		}
		for _, ue := range firstOfPopulation {
			if k, opc, op := credsOf(ue); k != c.K || opc != c.OPC || op != c.OP {
				if authenticated {
					v.Key = "CreateUE:credentials-changed-by-authenticating"
					v.Err = fmt.Errorf("a UE configured with (K=%q, OPc=%q, OP=%q) carries (K=%q, OPc=%q, OP=%q) after one authentication", c.K, c.OPC, c.OP, k, opc, op)
					return
				}
				v.Key = "CreateUE:credentials-changed-by-later-ues"
				v.Err = fmt.Errorf("a UE of the population (K=%q, OPc=%q, OP=%q) carries (K=%q, OPc=%q, OP=%q) after the later UEs were created", c.K, c.OPC, c.OP, k, opc, op)
				return
			}
		}
	}()
	supis := make(map[string]int, c.N)
	ranIDs := make(map[int64]int, c.N)
	prefix := "imsi-" + c.MCC + c.MNC
	for i := 0; i < c.N; i++ {
		ue := stgutg.CreateUE(imsi, i, c.K, c.OPC, c.OP)
		if ue == nil {
			v.Key, v.Err = "CreateUE:nil", fmt.Errorf("CreateUE(%s,%d) returned nil", imsi, i)
			return v
		}
		s := ue.Supi
		digits := strings.TrimPrefix(s, "imsi-")
		ok := strings.HasPrefix(s, "imsi-") && len(digits) > 0
		for _, ch := range digits {
			if ch < '0' || ch > '9' {
				ok = false
			}
		}
		if !ok {
			v.Key, v.Err = "CreateUE:supi-format", fmt.Errorf("UE %d of %d from IMSI %s: SUPI %q is not imsi-<decimal digits>", i, c.N, imsi, s)
			return v
		}
		if len(digits) != len(imsi) {
			v.Key, v.Err = "CreateUE:supi-digits", fmt.Errorf("UE %d of %d from IMSI %s: SUPI %q has %d digits, configured %d", i, c.N, imsi, s, len(digits), len(imsi))
			return v
		}
		if !strings.HasPrefix(s, prefix) {
			v.Key, v.Err = "CreateUE:supi-plmn", fmt.Errorf("UE %d of %d from IMSI %s: SUPI %q left the PLMN %s/%s", i, c.N, imsi, s, c.MCC, c.MNC)
			return v
		}
		if j, dup := supis[s]; dup {
			v.Key, v.Err = "CreateUE:same-supi", fmt.Errorf("UEs %d and %d of %d from IMSI %s have the same SUPI %q", j, i, c.N, imsi, s)
			return v
		}
		supis[s] = i
		if j, dup := ranIDs[ue.RanUeNgapId]; dup {
			v.Key, v.Err = "CreateUE:same-ran-ue-ngap-id", fmt.Errorf("UEs %d and %d of %d from IMSI %s have the same RAN-UE-NGAP-ID %d", j, i, c.N, imsi, ue.RanUeNgapId)
			return v
		}
		ranIDs[ue.RanUeNgapId] = i
		if i < 3 {
			firstOfPopulation = append(firstOfPopulation, ue)
		}
		if ue.RanUeNgapId < 0 || ue.RanUeNgapId > 1<<32-1 {
			v.Key, v.Err = "CreateUE:ran-ue-ngap-id-range", fmt.Errorf("UE %d: RAN-UE-NGAP-ID %d outside 0..2^32-1", i, ue.RanUeNgapId)
			return v
		}
		a := ue.AuthenticationSubs
		if a.PermanentKey == nil || a.PermanentKey.PermanentKeyValue != c.K {
			v.Key, v.Err = "CreateUE:K", fmt.Errorf("UE %d: permanent key %+v, configured %q", i, a.PermanentKey, c.K)
			return v
		}
		if a.Opc == nil || a.Opc.OpcValue != c.OPC {
			v.Key, v.Err = "CreateUE:OPc", fmt.Errorf("UE %d: OPc %+v, configured %q", i, a.Opc, c.OPC)
			return v
		}
		if a.Milenage == nil || a.Milenage.Op == nil || a.Milenage.Op.OpValue != c.OP {
			v.Key, v.Err = "CreateUE:OP", fmt.Errorf("UE %d: OP %+v, configured %q", i, a.Milenage, c.OP)
			return v
		}
		if i < 3 || i == c.N-1 {
			if k, err := c16CheckCapability(ue); err != nil {
				v.Key, v.Err = k, err
				return v
			}
		}
	}
	// all 4×4 algorithm pairs
	for ci := uint8(0); ci < 4; ci++ {
		for ii := uint8(0); ii < 4; ii++ {
			ue := tglib.NewRanUeContext("imsi-"+imsi, int64(c.N), ci, ii)
			if ue.CipheringAlg != ci || ue.IntegrityAlg != ii {
				v.Key, v.Err = "NewRanUeContext:algs", fmt.Errorf("NewRanUeContext(%d,%d) stores NEA%d/NIA%d", ci, ii, ue.CipheringAlg, ue.IntegrityAlg)
				return v
			}
			if k, err := c16CheckCapability(ue); err != nil {
				v.Key, v.Err = k, err
				return v
			}
		}
	}
	return v
}

var _ = security.AlgCiphering128NEA0

func TestC16_Populations(t *testing.T) {
	r := ev.New(t, "C16", "TestC16_Populations")
	ev.Run(t, r, genC16, c16Oracle)
}

// TestC16_Fixed: the populations the property names (N = 1, 2, 10, 1000, 10000) for a few
// hand-picked initial IMSIs, so that they are exercised in every run whatever the seed.
func TestC16_Fixed(t *testing.T) {
	r := ev.New(t, "C16", "TestC16_Fixed")
	defer r.Flush()
	if ev.Replay() != "" {
		ev.Run(t, r, func(*rapid.T) c16Case { return c16Case{} }, c16Oracle)
		return
	}
	k, opc := "465B5CE8B199B49FAA5F0A2EE238A6BC", "E8ED289DEBA952E4283B54E88E6183CA"
	for _, im := range []struct{ mcc, mnc, msin string }{
		{"208", "93", "0000000001"}, // the shipped configuration
		{"001", "01", "0000"},       // leading zeros, 4-digit MSIN: 10 000 UEs fill it exactly
		{"999", "999", "999989999"}, // 3-digit MNC, 15 digits; sized below so that the last UE gets …9
		{"310", "410", "000009990"},
		{"000", "00", "00000"},
	} {
		for _, n := range []int{1, 2, 10, 1000, 10000} {
			c := c16Case{MCC: im.mcc, MNC: im.mnc, MSIN: im.msin, N: n, K: k, OPC: opc}
			if im.mcc == "999" {
				c.MSIN = fmt.Sprintf("%09d", pow10(9)-int64(n))
			}
			if ev.Shard() != 0 {
				continue
			}
			if !r.Each(t, c, ev.SafeOracle(c16Oracle, c)) {
				return
			}
		}
	}
}
