package pd

import (
	"bytes"
	"fmt"
	"strings"
	"testing"

	"free5gclib/nas/nasConvert"
	"free5gclib/nas/nasMessage"
	"free5gclib/nas/nasTestpacket"
	"free5gclib/nas/security"
	"free5gclib/ngap"
	"free5gclib/ngap/ngapType"
	"free5gclib/openapi/models"
	"pgregory.net/rapid"
	"stgutg"
	"tglib"
	"tglib/ngapTestpacket"

	"verifh/ev"
	"verifh/refid"
)

// C11 — subscriber and PLMN identities are encoded per TS 24.501 / TS 38.413.
//
// One case is one IMSI (MCC, MNC, MSIN). The oracle runs the emulator's own call sequence:
//   EncodeSuci(imsi, len(mnc))                                    (ue.go RegisterUE / DeregisterUE)
//   GetRegistrationRequest / GetDeregistrationRequest(suci)       (the mobile identity IE)
//   mobilePLMN := EncodeSuci(...).Buffer[1:4] → BuildNGSetupRequest(mobilePLMN) stores it in the
//   package variable ngapTestpacket.TestPlmn                      (ngsetup.go ManageNGSetup)
//   BuildInitialUEMessage / BuildUplinkNasTransport / BuildUEContextReleaseComplete read TestPlmn
// and, for Wire cases, the real stgutg.ManageNGSetup over a SEQPACKET socket followed by the
// tglib.Get* wrappers, whose octets are read with the hand-written reader in refid (and,
// as a second opinion, with ngap.Decoder).

type c11Case struct {
	K      int      `json:"k,omitempty"` // index in the exhaustive sweep
	MCC    string   `json:"mcc"`
	MNC    string   `json:"mnc"`
	MSIN   string   `json:"msin"`
	Wire   bool     `json:"wire,omitempty"`
	GnbID  HexBytes `json:"gnb_id,omitempty"`
	BitLen int      `json:"gnb_bitlength,omitempty"`
	Name   string   `json:"gnb_name,omitempty"`
	RanID  int64    `json:"ran_ue_ngap_id,omitempty"`
	AmfID  int64    `json:"amf_ue_ngap_id,omitempty"`
	// Refused: the AMF answers the first NG SETUP REQUEST(s) with NG SETUP FAILURE (cause misc, Time to wait 1 s —
	// an AMF that is starting up or overloaded, TS 38.413 8.7.1.3) before the NG SETUP RESPONSE. Whether the gNB
	// asks again is its business; EVERY request it sends announces the PLMN of the configuration.
	Refused int `json:"ng_setup_refused,omitempty"`
}

// NG SETUP FAILURE, octet by octet: unsuccessfulOutcome, procedure 21, reject, 13 octets: 2 IEs: Cause (15, ignore)
// = misc/control-processing-overload, TimeToWait (107, ignore) = v1s
var ngSetupFailure = []byte{0x40, 0x15, 0x00, 0x0d, 0x00, 0x00, 0x02, 0x00, 0x0f, 0x40, 0x01, 0x80, 0x00, 0x6b, 0x40, 0x01, 0x00}

func c11Fail(key, format string, a ...interface{}) (string, error) {
	return key, fmt.Errorf(format, a...)
}

// mobile identity of a plain REGISTRATION REQUEST / DEREGISTRATION REQUEST (UE originating):
// EPD | security header | message type | one octet (ngKSI ‖ type) | 5GS mobile identity LV-E
func mobileIdentityOf(msg []byte, msgType byte) ([]byte, error) {
	if len(msg) < 6 || msg[0] != 0x7E || msg[1] != 0x00 || msg[2] != msgType {
		return nil, fmt.Errorf("not a plain 5GMM message of type %02x: % x", msgType, msg[:min(len(msg), 8)])
	}
	n := int(msg[4])<<8 | int(msg[5])
	if len(msg) < 6+n {
		return nil, fmt.Errorf("mobile identity length %d exceeds the message", n)
	}
	return msg[6 : 6+n], nil
}

func c11Check(c c11Case) (string, error) {
	imsi := c.MCC + c.MNC + c.MSIN
	wantPLMN, err := refid.EncodePLMN(c.MCC, c.MNC)
	if err != nil {
		return "", nil
	}
	mncClass := fmt.Sprintf("mnc%d", len(c.MNC))

	// --- the SUCI
	suci := stgutg.EncodeSuci([]byte(imsi), len(c.MNC))
	if int(suci.Len) != len(suci.Buffer) {
		return c11Fail("EncodeSuci:len", "Len %d but %d octets", suci.Len, len(suci.Buffer))
	}
	d, err := refid.DecodeSUCI(suci.Buffer)
	if err != nil {
		return c11Fail("EncodeSuci:undecodable:"+mncClass, "reference decoder rejects the SUCI %x of IMSI %s: %v", suci.Buffer, imsi, err)
	}
	if d.TypeOfIdentity != 1 || d.SupiFormat != 0 || d.SpareBits != 0 {
		return c11Fail("EncodeSuci:octet4", "IMSI %s: first octet %02x is not SUPI format IMSI / type SUCI", imsi, suci.Buffer[0])
	}
	if d.MCC != c.MCC || d.MNC != c.MNC {
		return c11Fail("EncodeSuci:plmn:"+mncClass, "IMSI %s (MCC %s MNC %s): SUCI octets 1..3 = %x decode to MCC %s MNC %s; TS 24.501 coding is %x",
			imsi, c.MCC, c.MNC, suci.Buffer[1:4], d.MCC, d.MNC, wantPLMN)
	}
	if d.RoutingIndicator != "0" {
		return c11Fail("EncodeSuci:routing", "IMSI %s: routing indicator %q, want \"0\"", imsi, d.RoutingIndicator)
	}
	if d.SchemeID != 0 || d.SchemeSpare != 0 || d.KeyID != 0 {
		return c11Fail("EncodeSuci:scheme", "IMSI %s: scheme %d spare %d key id %d, want null scheme / 0", imsi, d.SchemeID, d.SchemeSpare, d.KeyID)
	}
	if d.MSIN != c.MSIN {
		return c11Fail("EncodeSuci:msin:"+mncClass, "IMSI %s: MSIN decodes to %q, want %q (SUCI %x)", imsi, d.MSIN, c.MSIN, suci.Buffer)
	}
	if d.OddFiller != (len(c.MSIN)%2 == 1) {
		return c11Fail("EncodeSuci:filler", "IMSI %s: filler %v for an MSIN of %d digits", imsi, d.OddFiller, len(c.MSIN))
	}
	wantSUCI, _ := refid.EncodeSUCINull(c.MCC, c.MNC, c.MSIN)
	if !bytes.Equal(suci.Buffer, wantSUCI) {
		return c11Fail("EncodeSuci:octets", "IMSI %s: SUCI %x, reference %x", imsi, suci.Buffer, wantSUCI)
	}
	if !bytes.Equal(suci.Buffer[1:4], wantPLMN) {
		return c11Fail("EncodeSuci:plmn:"+mncClass, "IMSI %s: SUCI octets 1..3 = %x, TS 24.501 PLMN coding = %x", imsi, suci.Buffer[1:4], wantPLMN)
	}

	// --- the library's own PLMN conversion
	if got := nasConvert.PlmnIDToNas(models.PlmnId{Mcc: c.MCC, Mnc: c.MNC}); !bytes.Equal(got, wantPLMN) {
		return c11Fail("PlmnIDToNas:"+mncClass, "PlmnIDToNas(%s,%s) = %x, reference %x", c.MCC, c.MNC, got, wantPLMN)
	}

	// --- the mobile identity in the requests (built exactly as RegisterUE / DeregisterUE do)
	ue := tglib.NewRanUeContext("imsi-"+imsi, c.RanID, security.AlgCiphering128NEA0, security.AlgIntegrity128NIA2)
	id5gs := stgutg.EncodeSuci([]byte(strings.TrimPrefix(ue.Supi, "imsi-")), len(c.MNC))
	reg := nasTestpacket.GetRegistrationRequest(nasMessage.RegistrationType5GSInitialRegistration, *id5gs, nil,
		ue.GetUESecurityCapability(), nil, nil, nil)
	mi, err := mobileIdentityOf(reg, 0x41)
	if err != nil {
		return c11Fail("RegistrationRequest:layout", "%v", err)
	}
	if !bytes.Equal(mi, wantSUCI) {
		return c11Fail("RegistrationRequest:suci", "IMSI %s: registration request carries mobile identity %x, want %x", imsi, mi, wantSUCI)
	}
	reg2 := nasTestpacket.GetRegistrationRequest(nasMessage.RegistrationType5GSInitialRegistration, *id5gs, nil,
		ue.GetUESecurityCapability(), ue.Get5GMMCapability(), nil, nil)
	if mi, err = mobileIdentityOf(reg2, 0x41); err != nil || !bytes.Equal(mi, wantSUCI) {
		return c11Fail("RegistrationRequest:suci", "IMSI %s: registration request (with 5GMM capability) carries %x (%v), want %x", imsi, mi, err, wantSUCI)
	}
	dereg := nasTestpacket.GetDeregistrationRequest(nasMessage.AccessType3GPP, 0, 0x04, *id5gs)
	if mi, err = mobileIdentityOf(dereg, 0x45); err != nil {
		return c11Fail("DeregistrationRequest:layout", "%v", err)
	}
	if !bytes.Equal(mi, wantSUCI) {
		return c11Fail("DeregistrationRequest:suci", "IMSI %s: deregistration request carries mobile identity %x, want %x", imsi, mi, wantSUCI)
	}

	// --- the PLMN in the gNB-side messages, as the builders store it
	mobilePLMN := stgutg.EncodeSuci([]byte(strings.TrimPrefix("imsi-"+imsi, "imsi-")), len(c.MNC)).Buffer[1:4]
	set := ngapTestpacket.BuildNGSetupRequest(mobilePLMN)
	for _, ie := range set.InitiatingMessage.Value.NGSetupRequest.ProtocolIEs.List {
		switch ie.Value.Present {
		case ngapType.NGSetupRequestIEsPresentGlobalRANNodeID:
			if g := ie.Value.GlobalRANNodeID.GlobalGNBID; g == nil || !bytes.Equal(g.PLMNIdentity.Value, wantPLMN) {
				return c11Fail("BuildNGSetupRequest:GlobalGNB-ID", "IMSI %s: GlobalGNB-ID PLMN %x, want %x", imsi, g.PLMNIdentity.Value, wantPLMN)
			}
		case ngapType.NGSetupRequestIEsPresentSupportedTAList:
			for _, ta := range ie.Value.SupportedTAList.List {
				for _, bp := range ta.BroadcastPLMNList.List {
					if !bytes.Equal(bp.PLMNIdentity.Value, wantPLMN) {
						return c11Fail("BuildNGSetupRequest:broadcastPLMN", "IMSI %s: broadcast PLMN %x, want %x", imsi, bp.PLMNIdentity.Value, wantPLMN)
					}
				}
			}
		}
	}
	uli := func(what string, u *ngapType.UserLocationInformation) (string, error) {
		if u == nil || u.UserLocationInformationNR == nil {
			return c11Fail(what+":ULI", "no NR user location information")
		}
		if p := u.UserLocationInformationNR.NRCGI.PLMNIdentity.Value; !bytes.Equal(p, wantPLMN) {
			return c11Fail(what+":NR-CGI", "IMSI %s: NR-CGI PLMN %x, want %x", imsi, p, wantPLMN)
		}
		if p := u.UserLocationInformationNR.TAI.PLMNIdentity.Value; !bytes.Equal(p, wantPLMN) {
			return c11Fail(what+":TAI", "IMSI %s: TAI PLMN %x, want %x", imsi, p, wantPLMN)
		}
		return "", nil
	}
	ium := ngapTestpacket.BuildInitialUEMessage(c.RanID, reg, "")
	for _, ie := range ium.InitiatingMessage.Value.InitialUEMessage.ProtocolIEs.List {
		if ie.Value.Present == ngapType.InitialUEMessageIEsPresentUserLocationInformation {
			if k, e := uli("BuildInitialUEMessage", ie.Value.UserLocationInformation); e != nil {
				return k, e
			}
		}
	}
	unt := ngapTestpacket.BuildUplinkNasTransport(c.AmfID, c.RanID, dereg)
	for _, ie := range unt.InitiatingMessage.Value.UplinkNASTransport.ProtocolIEs.List {
		if ie.Value.Present == ngapType.UplinkNASTransportIEsPresentUserLocationInformation {
			if k, e := uli("BuildUplinkNasTransport", ie.Value.UserLocationInformation); e != nil {
				return k, e
			}
		}
	}
	rel := ngapTestpacket.BuildUEContextReleaseComplete(c.AmfID, c.RanID, nil)
	for _, ie := range rel.SuccessfulOutcome.Value.UEContextReleaseComplete.ProtocolIEs.List {
		if ie.Value.Present == ngapType.UEContextReleaseCompleteIEsPresentUserLocationInformation {
			if k, e := uli("BuildUEContextReleaseComplete", ie.Value.UserLocationInformation); e != nil {
				return k, e
			}
		}
	}
	if !c.Wire {
		return "", nil
	}
	return c11Wire(c, imsi, wantPLMN, reg, dereg)
}

// c11JudgeNGSetupRequest: one NG SETUP REQUEST as the AMF sees it.
func c11JudgeNGSetupRequest(c c11Case, imsi string, wantPLMN, req []byte) (string, error) {
	m, err := refid.ReadNGAP(req)
	if err != nil || m.Class != 0 || m.ProcedureCode != 21 {
		return c11Fail("NGSetupRequest:framing", "not an NG SETUP REQUEST (%v): %x", err, req)
	}
	v, ok := m.IE(refid.IDGlobalRANNodeID)
	if !ok {
		return c11Fail("NGSetupRequest:GlobalRANNodeID", "IE missing")
	}
	gp, gid, gbits, err := refid.GlobalGNBID(v)
	if err != nil {
		return c11Fail("NGSetupRequest:GlobalRANNodeID", "%v: %x", err, v)
	}
	if !bytes.Equal(gp, wantPLMN) {
		return c11Fail("NGSetupRequest:GlobalGNB-ID", "IMSI %s: GlobalGNB-ID PLMN on the wire %x, want %x", imsi, gp, wantPLMN)
	}
	if gbits != c.BitLen || !bytes.Equal(gid, c.GnbID) {
		return c11Fail("NGSetupRequest:gNB-ID", "gNB id %x/%d on the wire, configured %x/%d", gid, gbits, []byte(c.GnbID), c.BitLen)
	}
	v, ok = m.IE(refid.IDSupportedTAList)
	if !ok {
		return c11Fail("NGSetupRequest:SupportedTAList", "IE missing")
	}
	tas, err := refid.SupportedTAList(v)
	if err != nil || len(tas) == 0 {
		return c11Fail("NGSetupRequest:SupportedTAList", "%v: %x", err, v)
	}
	for _, ta := range tas {
		if len(ta.PLMNs) == 0 {
			return c11Fail("NGSetupRequest:broadcastPLMN", "no broadcast PLMN")
		}
		for _, bp := range ta.PLMNs {
			if !bytes.Equal(bp, wantPLMN) {
				return c11Fail("NGSetupRequest:broadcastPLMN", "IMSI %s: broadcast PLMN on the wire %x, want %x", imsi, bp, wantPLMN)
			}
		}
	}
	// second opinion: the library decoder sees the same
	if pdu, err := ngap.Decoder(req); err != nil {
		return c11Fail("NGSetupRequest:decoder", "ngap.Decoder rejects the emulator's NG SETUP REQUEST: %v", err)
	} else {
		for _, ie := range pdu.InitiatingMessage.Value.NGSetupRequest.ProtocolIEs.List {
			if ie.Value.Present == ngapType.NGSetupRequestIEsPresentGlobalRANNodeID &&
				!bytes.Equal(ie.Value.GlobalRANNodeID.GlobalGNBID.PLMNIdentity.Value, wantPLMN) {
				return c11Fail("NGSetupRequest:decoder", "ngap.Decoder and the reference reader disagree on the GlobalGNB-ID PLMN")
			}
		}
	}
	return "", nil
}

// c11Wire: the real ManageNGSetup on a socket, then the Get* wrappers; octets read by refid.
func c11Wire(c c11Case, imsi string, wantPLMN, reg, dereg []byte) (string, error) {
	p, err := getPipe()
	if err != nil {
		panic("infrastructure: " + err.Error())
	}
	for i := 0; i < c.Refused; i++ {
		if err := p.queue(ngSetupFailure); err != nil {
			panic("infrastructure: " + err.Error())
		}
	}
	if err := p.queue(ngSetupResponse); err != nil {
		panic("infrastructure: " + err.Error())
	}
	// as main does: ManageNGSetup(conn, c.Configuration.Gnb_id, "imsi-"+initial_imsi, mnc, bitlength, name)
	stgutg.ManageNGSetup(p.conn, string(c.GnbID), "imsi-"+imsi, c.MNC, uint64(c.BitLen), c.Name)
	req, err := p.recv()
	if err != nil {
		panic("infrastructure: " + err.Error())
	}
	if k, err := c11JudgeNGSetupRequest(c, imsi, wantPLMN, req); err != nil {
		return k, err
	}
	if c.Refused > 0 {
		// whatever else the gNB sent (requests repeated after the refusals), and the answers it did not read
		for n := 2; ; n++ {
			more, ok := p.recvNow()
			if !ok {
				break
			}
			if k, err := c11JudgeNGSetupRequest(c, imsi, wantPLMN, more); err != nil {
				return k + ":after-ng-setup-failure", fmt.Errorf("message %d of the gNB after %d NG SETUP FAILURE(s): %v", n, c.Refused, err)
			}
		}
		p.discardDownlink()
	}

	wireULI := func(what string, b []byte, e error, class, proc int) (string, error) {
		if e != nil {
			return c11Fail(what+":encode", "%v", e)
		}
		m, err := refid.ReadNGAP(b)
		if err != nil || m.Class != class || m.ProcedureCode != proc {
			return c11Fail(what+":framing", "unexpected framing (%v) class %d procedure %d: %x", err, m.Class, m.ProcedureCode, b)
		}
		v, ok := m.IE(refid.IDUserLocationInformation)
		if !ok {
			return c11Fail(what+":ULI", "UserLocationInformation missing")
		}
		cp, _, tp, _, err := refid.ULINR(v)
		if err != nil {
			return c11Fail(what+":ULI", "%v: %x", err, v)
		}
		if !bytes.Equal(cp, wantPLMN) {
			return c11Fail(what+":NR-CGI", "IMSI %s: NR-CGI PLMN on the wire %x, want %x", imsi, cp, wantPLMN)
		}
		if !bytes.Equal(tp, wantPLMN) {
			return c11Fail(what+":TAI", "IMSI %s: TAI PLMN on the wire %x, want %x", imsi, tp, wantPLMN)
		}
		return "", nil
	}
	b, e := tglib.GetInitialUEMessage(c.RanID, reg, "")
	if k, err := wireULI("InitialUEMessage", b, e, 0, 15); err != nil {
		return k, err
	}
	if m, err := refid.ReadNGAP(b); err == nil { // the NAS-PDU IE carries the registration request, hence the SUCI
		if v, ok := m.IE(refid.IDNASPDU); !ok || len(v) < 1 || !bytes.Equal(v[len(v)-len(reg):], reg) {
			return c11Fail("InitialUEMessage:NAS-PDU", "NAS-PDU IE does not carry the registration request")
		}
	}
	b, e = tglib.GetUplinkNASTransport(c.AmfID, c.RanID, dereg)
	if k, err := wireULI("UplinkNASTransport", b, e, 0, 46); err != nil {
		return k, err
	}
	b, e = tglib.GetUEContextReleaseComplete(c.AmfID, c.RanID, nil)
	if k, err := wireULI("UEContextReleaseComplete", b, e, 1, 41); err != nil {
		return k, err
	}
	return "", nil
}

func c11Oracle(c c11Case) ev.Verdict {
	v := ev.Verdict{Hash: ev.HashBytes([]byte(c.MCC + "/" + c.MNC + "/" + c.MSIN + fmt.Sprint(c.Wire, c.BitLen, c.RanID, c.AmfID, c.Name, []byte(c.GnbID), c.Refused)))}
	if len(c.MCC) != 3 || (len(c.MNC) != 2 && len(c.MNC) != 3) || len(c.MSIN) < 1 || len(c.MCC)+len(c.MNC)+len(c.MSIN) > 15 {
		v.Skip = true
		return v
	}
	v.NT = len(c.MNC) == 3 || len(c.MSIN)%2 == 1
	v.Classes = []string{fmt.Sprintf("mnc%d", len(c.MNC)), fmt.Sprintf("msinlen=%02d", len(c.MSIN))}
	if len(c.MSIN)%2 == 1 {
		v.Classes = append(v.Classes, "msin-odd")
	} else {
		v.Classes = append(v.Classes, "msin-even")
	}
	if len(c.MNC) == 3 && c.MNC[0] != c.MNC[2] {
		v.Classes = append(v.Classes, "mnc3:digit1!=digit3")
	}
	if c.Wire {
		v.Classes = append(v.Classes, "wire(ManageNGSetup+Get*)", fmt.Sprintf("gnb-bits=%d", c.BitLen))
		if c.Refused > 0 {
			v.Classes = append(v.Classes, "wire:ng-setup-refused-first")
		}
	}
	v.Key, v.Err = c11Check(c)
	return v
}

func defaultWire(c *c11Case) {
	c.GnbID, c.BitLen, c.Name, c.RanID, c.AmfID = HexBytes{0x00, 0x01, 0x02}, 24, "stgutg-gnb", 1, 1
}

// TestC11_Sweep: every MCC × every 2-digit and 3-digit MNC (1000 × 1100), MSIN length cycling
// through 1..(15−3−len(MNC)), MSIN digits from a rapid-drawn pool seeded per shard.
func TestC11_Sweep(t *testing.T) {
	r := ev.New(t, "C11", "TestC11_Sweep")
	defer r.Flush()
	if p := ev.Replay(); p != "" {
		ev.Run(t, r, func(*rapid.T) c11Case { return c11Case{} }, c11Oracle)
		return
	}
	const poolN = 1 << 14
	pool := rapid.SliceOfN(rapid.IntRange(0, 9), poolN, poolN).Example(int(ev.Seed()))
	wireEvery := 97
	if ev.Tier() == "thorough" {
		wireEvery = 11
	}
	ns, sh := ev.NShards(), ev.Shard()
	total := 1000 * 1100
	n := 0
	for k := sh; k < total; k += ns {
		mcc, j := k/1100, k%1100
		c := c11Case{K: k, MCC: fmt.Sprintf("%03d", mcc)}
		if j < 100 {
			c.MNC = fmt.Sprintf("%02d", j)
		} else {
			c.MNC = fmt.Sprintf("%03d", j-100)
		}
		i := k / ns
		maxLen := 15 - 3 - len(c.MNC)
		l := 1 + i%maxLen
		off := (i * 31) % (poolN - 16)
		ms := make([]byte, l)
		for x := range ms {
			ms[x] = byte('0' + pool[off+x])
		}
		c.MSIN = string(ms)
		if i%wireEvery == 0 {
			c.Wire = true
			defaultWire(&c)
			c.BitLen = 22 + i/wireEvery%11
			c.GnbID = make(HexBytes, (c.BitLen+7)/8)
			for x := range c.GnbID {
				c.GnbID[x] = byte(pool[off+x]*16 + pool[off+x+1])
			}
			if c.BitLen%8 != 0 {
				c.GnbID[len(c.GnbID)-1] &= 0xFF << uint(8-c.BitLen%8)
			}
			c.RanID = int64(i % 10000)
			c.AmfID = int64(i) * 1000003 % (1 << 40)
			if i/wireEvery%5 == 3 {
				c.Refused = 1 + i/wireEvery/5%2
			}
		}
		if !r.Each(t, c, ev.SafeOracle(c11Oracle, c)) {
			return
		}
		n++
	}
	r.Extra("plmn_pairs_in_this_shard", n)
	r.Note("exhaustive over MCC 000..999 x MNC 00..99 and 000..999 (1 100 000 PLMNs, split over the shards by k mod nshards)")
}

var printable = []rune("ABCDEFGHIJKLMNOPQRSTUVWXYZabcdefghijklmnopqrstuvwxyz0123456789 '()+,-./:=?")

func genC11(t *rapid.T) c11Case {
	c := c11Case{MCC: drawDigits(t, 3, "mcc")}
	c.MNC = drawDigits(t, rapid.IntRange(2, 3).Draw(t, "mnclen"), "mnc")
	maxLen := 15 - 3 - len(c.MNC)
	l := rapid.IntRange(1, maxLen).Draw(t, "msinlen")
	switch rapid.IntRange(0, 5).Draw(t, "msinkind") {
	case 0:
		c.MSIN = strings.Repeat("0", l)
	case 1:
		c.MSIN = strings.Repeat("9", l)
	default:
		c.MSIN = drawDigits(t, l, "msin")
	}
	c.Wire = true
	c.BitLen = rapid.IntRange(22, 32).Draw(t, "bitlen")
	c.GnbID = drawBytes(t, (c.BitLen+7)/8, "gnbid")
	if c.BitLen%8 != 0 {
		c.GnbID[len(c.GnbID)-1] &= 0xFF << uint(8-c.BitLen%8)
	}
	c.Name = string(rapid.SliceOfN(rapid.SampledFrom(printable), 1, 150).Draw(t, "name"))
	c.RanID = rapid.OneOf(rapid.Just(int64(0)), rapid.Just(int64(1<<32-1)), rapid.Int64Range(0, 1<<32-1)).Draw(t, "ranid")
	c.AmfID = rapid.OneOf(rapid.Just(int64(0)), rapid.Just(int64(1<<40-1)), rapid.Just(int64(1<<32)), rapid.Int64Range(0, 1<<40-1)).Draw(t, "amfid")
	if rapid.IntRange(0, 4).Draw(t, "refused_first") == 2 {
		c.Refused = rapid.IntRange(1, 2).Draw(t, "refused")
	}
	return c
}

// TestC11_Rapid: drawn IMSIs (all-0 / all-9 / random MSINs of every length) and drawn gNB
// parameters, always through the real ManageNGSetup and the Get* wrappers.
func TestC11_Rapid(t *testing.T) {
	r := ev.New(t, "C11", "TestC11_Rapid")
	ev.Run(t, r, genC11, c11Oracle)
}
