package pd

import (
	"bytes"
	"fmt"
	"net"
	"testing"
	"time"

	"free5gclib/aper"
	"free5gclib/ngap/ngapType"
	"pgregory.net/rapid"
	"stgutg"

	"verifh/ev"
	"verifh/refid"
	"verifh/refper"
)

// C12 — UE address, TEID and UPF address are extracted exactly from the setup request; on any
// input the extraction terminates.
//
// Well-formed class (TestC12_WellFormed): one case = the two octet strings of one
// PDUSessionResourceSetupItemSUReq as a conformant core would build them:
//   * NAS-PDU: security header (7 octets) ‖ DL NAS TRANSPORT ‖ PDU SESSION ESTABLISHMENT ACCEPT,
//     built by refid from TS 24.501 §8.3.2 / §8.2.11 with the optional IEs of Table 8.3.2.1.1
//     (Release 15 and 16 rows) present/absent *in table order* — so the only optional IE that can
//     precede the PDU address is the 5GSM cause — with drawn lengths;
//   * PDUSessionResourceSetupRequestTransfer: an ngapType value with the IEs of TS 38.413
//     §9.3.4.1 in specification order, encoded by refper (not by the library).
// Arbitrary class (TestC12_Termination): random octets, mutations and prefixes of well-formed
// inputs, well-formed messages with an IE the extractor's table does not know, permuted IEs.

type c12IE struct {
	IEI   byte     `json:"iei"`
	Value HexBytes `json:"value"`
}

type c12Accept struct {
	SHT      byte     `json:"security_header_type"`
	MAC      HexBytes `json:"mac"`
	SQN      byte     `json:"sqn"`
	PSI      byte     `json:"psi"`
	PTI      byte     `json:"pti"`
	SSC      byte     `json:"ssc_mode"`
	QoSRules HexBytes `json:"qos_rules"`
	AMBR     HexBytes `json:"session_ambr"`
	Cause    *byte    `json:"cause,omitempty"` // 5GSM cause, the only optional IE the table puts before the PDU address
	UEIP     HexBytes `json:"ue_ipv4"`
	After    []c12IE  `json:"after_pdu_address,omitempty"` // later rows of Table 8.3.2.1.1, in table order
	// Later: information elements of a later release of TS 24.501 than the tables here know (Release 17 appended the
	// service-level-AA container and the received MBS container, for instance), behind every element of the table.
	// Coded by the general rules of TS 24.007 11.2.4: IEI 8x..Fx = one octet, 70..7F = TLV-E, otherwise TLV. A receiver
	// ignores what it does not comprehend (TS 24.501 7.7.1); the address in front of them is what the network encoded.
	Later []c12IE `json:"later_release_ies,omitempty"`
	DLOpt    []c12IE  `json:"dl_nas_transport_optional,omitempty"`
}

type c12Flow struct {
	QFI      int64    `json:"qfi"`
	Dynamic  bool     `json:"dynamic_5qi,omitempty"`
	FiveQI   int64    `json:"five_qi"`
	Prio     *int64   `json:"priority_level,omitempty"`
	ARP      int64    `json:"arp"`
	PreCap   uint64   `json:"pre_emption_capability"`
	PreVul   uint64   `json:"pre_emption_vulnerability"`
	GBR      []int64  `json:"gbr,omitempty"` // MFBR DL, MFBR UL, GFBR DL, GFBR UL
	Reflect  bool     `json:"reflective,omitempty"`
	ERABID   *int64   `json:"erab_id,omitempty"`
}

type c12Tunnel struct {
	V4   HexBytes `json:"v4,omitempty"`
	V6   HexBytes `json:"v6,omitempty"`
	TEID uint32   `json:"teid"`
}

type c12Transfer struct {
	AMBR        []int64    `json:"session_ambr,omitempty"` // DL, UL (bit/s) or absent
	TEID        uint32     `json:"teid"`
	UPF         HexBytes   `json:"upf_ipv4"`
	Additional  *c12Tunnel `json:"additional_ul_tnl,omitempty"`
	// AdditionalList: the Additional UL NG-U UP TNL Information (IE 126) in the form later versions of TS 38.413 give
	// it: a list (SIZE(1..3)) of items holding one UP transport layer information each, instead of the single value the
	// library's type still has. IE 139 in front of it is what the network encoded, whatever IE 126 looks like.
	AdditionalList []c12Tunnel `json:"additional_ul_tnl_list,omitempty"`
	NoFwd       bool       `json:"data_forwarding_not_possible,omitempty"`
	SessionType uint64     `json:"pdu_session_type"`
	SecInd      []uint64   `json:"security_indication,omitempty"` // integrity, confidentiality[, max rate]
	NetInst     *int64     `json:"network_instance,omitempty"`
	Flows       []c12Flow  `json:"qos_flows"`
	Crit        []uint64   `json:"criticalities,omitempty"` // per IE, default reject
}

type c12Case struct {
	Accept   c12Accept   `json:"accept"`
	Transfer c12Transfer `json:"transfer"`
	// Later: the emulator keeps the values of every UE while it establishes the sessions of the following UEs; so
	// many further extractions (of another, fixed session) happen before the reported values are looked at again
	Later int `json:"later_sessions,omitempty"`
}

// ---------------------------------------------------------------- builders

func (a c12Accept) build() ([]byte, error) { return a.buildL(true) }

func (a c12Accept) buildL(withLater bool) ([]byte, error) {
	acc := refid.Accept{PSI: a.PSI, PTI: a.PTI, SessionType: 1, SSCMode: a.SSC, QoSRules: a.QoSRules, AMBR: a.AMBR}
	if a.Cause != nil {
		acc.IEs = append(acc.IEs, refid.OptIE{IEI: 0x59, Value: []byte{*a.Cause}})
	}
	acc.IEs = append(acc.IEs, refid.OptIE{IEI: 0x29, Value: refid.PDUAddressIPv4(a.UEIP)})
	for _, ie := range a.After {
		acc.IEs = append(acc.IEs, refid.OptIE{IEI: ie.IEI, Value: ie.Value})
	}
	b, err := acc.Encode()
	if err != nil {
		return nil, err
	}
	if withLater {
		for _, ie := range a.Later {
			switch {
			case ie.IEI&0x80 != 0:
				if len(ie.Value) != 1 {
					return nil, fmt.Errorf("later-release type-1 element needs one half octet")
				}
				b = append(b, ie.IEI&0xF0|ie.Value[0]&0x0F)
			case ie.IEI >= 0x70:
				b = append(append(b, ie.IEI, byte(len(ie.Value)>>8), byte(len(ie.Value))), ie.Value...)
			default:
				if len(ie.Value) > 255 {
					return nil, fmt.Errorf("later-release TLV element longer than 255 octets")
				}
				b = append(append(b, ie.IEI, byte(len(ie.Value))), ie.Value...)
			}
		}
		if len(b) > 65535 {
			return nil, fmt.Errorf("payload container too long")
		}
	}
	var opt []refid.OptIE
	for _, ie := range a.DLOpt {
		opt = append(opt, refid.OptIE{IEI: ie.IEI, Value: ie.Value})
	}
	dl, err := refid.DLNASTransport(1, b, opt)
	if err != nil {
		return nil, err
	}
	if len(a.MAC) != 4 {
		return nil, fmt.Errorf("MAC must be 4 octets")
	}
	return refid.Protect(a.SHT, a.MAC, a.SQN, dl), nil
}

func tunnel(v4, v6 []byte, teid uint32) *ngapType.UPTransportLayerInformation {
	oct, bits := refid.TLA(v4, v6)
	return &ngapType.UPTransportLayerInformation{Present: ngapType.UPTransportLayerInformationPresentGTPTunnel,
		GTPTunnel: &ngapType.GTPTunnel{
			TransportLayerAddress: ngapType.TransportLayerAddress{Value: aper.BitString{Bytes: oct, BitLength: uint64(bits)}},
			GTPTEID:               ngapType.GTPTEID{Value: aper.OctetString{byte(teid >> 24), byte(teid >> 16), byte(teid >> 8), byte(teid)}}}}
}

func (x c12Transfer) value() (ngapType.PDUSessionResourceSetupRequestTransfer, error) {
	var t ngapType.PDUSessionResourceSetupRequestTransfer
	n := 0
	add := func(id int64, present int, set func(v *ngapType.PDUSessionResourceSetupRequestTransferIEsValue)) {
		ie := ngapType.PDUSessionResourceSetupRequestTransferIEs{}
		ie.Id.Value = id
		ie.Criticality.Value = ngapType.CriticalityPresentReject
		if n < len(x.Crit) {
			ie.Criticality.Value = aper.Enumerated(x.Crit[n] % 3)
		}
		n++
		ie.Value.Present = present
		set(&ie.Value)
		t.ProtocolIEs.List = append(t.ProtocolIEs.List, ie)
	}
	if len(x.AMBR) == 2 {
		add(ngapType.ProtocolIEIDPDUSessionAggregateMaximumBitRate, ngapType.PDUSessionResourceSetupRequestTransferIEsPresentPDUSessionAggregateMaximumBitRate,
			func(v *ngapType.PDUSessionResourceSetupRequestTransferIEsValue) {
				v.PDUSessionAggregateMaximumBitRate = &ngapType.PDUSessionAggregateMaximumBitRate{
					PDUSessionAggregateMaximumBitRateDL: ngapType.BitRate{Value: x.AMBR[0]}, PDUSessionAggregateMaximumBitRateUL: ngapType.BitRate{Value: x.AMBR[1]}}
			})
	}
	if len(x.UPF) != 4 {
		return t, fmt.Errorf("UPF address must be IPv4")
	}
	add(ngapType.ProtocolIEIDULNGUUPTNLInformation, ngapType.PDUSessionResourceSetupRequestTransferIEsPresentULNGUUPTNLInformation,
		func(v *ngapType.PDUSessionResourceSetupRequestTransferIEsValue) { v.ULNGUUPTNLInformation = tunnel(x.UPF, nil, x.TEID) })
	if a := x.Additional; a != nil {
		add(ngapType.ProtocolIEIDAdditionalULNGUUPTNLInformation, ngapType.PDUSessionResourceSetupRequestTransferIEsPresentAdditionalULNGUUPTNLInformation,
			func(v *ngapType.PDUSessionResourceSetupRequestTransferIEsValue) {
				var v4, v6 []byte
				if len(a.V4) == 4 {
					v4 = a.V4
				}
				if len(a.V6) == 16 {
					v6 = a.V6
				}
				v.AdditionalULNGUUPTNLInformation = tunnel(v4, v6, a.TEID)
			})
	}
	if x.NoFwd {
		add(ngapType.ProtocolIEIDDataForwardingNotPossible, ngapType.PDUSessionResourceSetupRequestTransferIEsPresentDataForwardingNotPossible,
			func(v *ngapType.PDUSessionResourceSetupRequestTransferIEsValue) {
				v.DataForwardingNotPossible = &ngapType.DataForwardingNotPossible{Value: 0}
			})
	}
	add(ngapType.ProtocolIEIDPDUSessionType, ngapType.PDUSessionResourceSetupRequestTransferIEsPresentPDUSessionType,
		func(v *ngapType.PDUSessionResourceSetupRequestTransferIEsValue) {
			v.PDUSessionType = &ngapType.PDUSessionType{Value: aper.Enumerated(x.SessionType % 5)}
		})
	if len(x.SecInd) >= 2 {
		add(ngapType.ProtocolIEIDSecurityIndication, ngapType.PDUSessionResourceSetupRequestTransferIEsPresentSecurityIndication,
			func(v *ngapType.PDUSessionResourceSetupRequestTransferIEsValue) {
				s := &ngapType.SecurityIndication{}
				s.IntegrityProtectionIndication.Value = aper.Enumerated(x.SecInd[0] % 3)
				s.ConfidentialityProtectionIndication.Value = aper.Enumerated(x.SecInd[1] % 3)
				if len(x.SecInd) >= 3 {
					s.MaximumIntegrityProtectedDataRate = &ngapType.MaximumIntegrityProtectedDataRate{Value: aper.Enumerated(x.SecInd[2] % 2)}
				}
				v.SecurityIndication = s
			})
	}
	if x.NetInst != nil {
		add(ngapType.ProtocolIEIDNetworkInstance, ngapType.PDUSessionResourceSetupRequestTransferIEsPresentNetworkInstance,
			func(v *ngapType.PDUSessionResourceSetupRequestTransferIEsValue) {
				v.NetworkInstance = &ngapType.NetworkInstance{Value: *x.NetInst}
			})
	}
	if len(x.Flows) < 1 || len(x.Flows) > 64 {
		return t, fmt.Errorf("QoS flow list size %d", len(x.Flows))
	}
	add(ngapType.ProtocolIEIDQosFlowSetupRequestList, ngapType.PDUSessionResourceSetupRequestTransferIEsPresentQosFlowSetupRequestList,
		func(v *ngapType.PDUSessionResourceSetupRequestTransferIEsValue) {
			l := &ngapType.QosFlowSetupRequestList{}
			for _, f := range x.Flows {
				it := ngapType.QosFlowSetupRequestItem{}
				it.QosFlowIdentifier.Value = f.QFI
				q := &it.QosFlowLevelQosParameters
				if f.Dynamic {
					q.QosCharacteristics.Present = ngapType.QosCharacteristicsPresentDynamic5QI
					d := &ngapType.Dynamic5QIDescriptor{}
					d.PriorityLevelQos.Value = 1 + f.FiveQI%127
					d.PacketDelayBudget.Value = f.FiveQI * 4
					d.PacketErrorRate.PERScalar, d.PacketErrorRate.PERExponent = f.FiveQI%10, f.ARP%10
					d.FiveQI = &ngapType.FiveQI{Value: f.FiveQI}
					q.QosCharacteristics.Dynamic5QI = d
				} else {
					q.QosCharacteristics.Present = ngapType.QosCharacteristicsPresentNonDynamic5QI
					nd := &ngapType.NonDynamic5QIDescriptor{FiveQI: ngapType.FiveQI{Value: f.FiveQI}}
					if f.Prio != nil {
						nd.PriorityLevelQos = &ngapType.PriorityLevelQos{Value: *f.Prio}
					}
					q.QosCharacteristics.NonDynamic5QI = nd
				}
				q.AllocationAndRetentionPriority.PriorityLevelARP.Value = f.ARP
				q.AllocationAndRetentionPriority.PreEmptionCapability.Value = aper.Enumerated(f.PreCap % 2)
				q.AllocationAndRetentionPriority.PreEmptionVulnerability.Value = aper.Enumerated(f.PreVul % 2)
				if len(f.GBR) == 4 {
					q.GBRQosInformation = &ngapType.GBRQosInformation{MaximumFlowBitRateDL: ngapType.BitRate{Value: f.GBR[0]}, MaximumFlowBitRateUL: ngapType.BitRate{Value: f.GBR[1]},
						GuaranteedFlowBitRateDL: ngapType.BitRate{Value: f.GBR[2]}, GuaranteedFlowBitRateUL: ngapType.BitRate{Value: f.GBR[3]}}
				}
				if f.Reflect {
					q.ReflectiveQosAttribute = &ngapType.ReflectiveQosAttribute{Value: 0}
				}
				if f.ERABID != nil {
					it.ERABID = &ngapType.ERABID{Value: *f.ERABID}
				}
				l.List = append(l.List, it)
			}
			v.QosFlowSetupRequestList = l
		})
	return t, nil
}

type c12TNLItem struct {
	NGUUPTNLInformation ngapType.UPTransportLayerInformation             `aper:"valueLB:0,valueUB:1"`
	IEExtensions        *ngapType.ProtocolExtensionContainerGTPTunnelExtIEs `aper:"optional"`
}

func (x c12Transfer) build() ([]byte, error) {
	y := x
	if len(x.AdditionalList) > 0 {
		y.Additional = nil
	}
	v, err := y.value()
	if err != nil {
		return nil, err
	}
	b, _, err := refper.Encode(v, "valueExt")
	if err != nil || len(x.AdditionalList) == 0 {
		return b, err
	}
	if len(x.AdditionalList) > 3 {
		return nil, fmt.Errorf("at most three additional tunnels")
	}
	var items []c12TNLItem
	for _, a := range x.AdditionalList {
		var v4, v6 []byte
		if len(a.V4) == 4 {
			v4 = a.V4
		}
		if len(a.V6) == 16 {
			v6 = a.V6
		}
		if v4 == nil && v6 == nil {
			return nil, fmt.Errorf("additional tunnel without an address")
		}
		items = append(items, c12TNLItem{NGUUPTNLInformation: *tunnel(v4, v6, a.TEID)})
	}
	val, _, err := refper.Encode(items, "valueExt,sizeLB:1,sizeUB:3")
	if err != nil {
		return nil, err
	}
	if len(val) > 127 {
		return nil, fmt.Errorf("list value too long for this builder")
	}
	ie := append([]byte{0x00, 126, 0x00, byte(len(val))}, val...) // id 126, criticality reject, length, value
	// take the transfer apart: preamble octet, 16-bit count, then id(2) criticality(1) length value per IE
	if len(b) < 3 {
		return nil, fmt.Errorf("transfer too short")
	}
	cnt := int(b[1])<<8 | int(b[2])
	p := 3
	at := -1
	for i := 0; i < cnt; i++ {
		if p+4 > len(b) {
			return nil, fmt.Errorf("transfer does not parse")
		}
		id := int(b[p])<<8 | int(b[p+1])
		l, q := int(b[p+3]), p+4
		if b[p+3]&0x80 != 0 {
			if b[p+3]&0x40 != 0 || p+5 > len(b) {
				return nil, fmt.Errorf("fragmented IE")
			}
			l, q = int(b[p+3]&0x3f)<<8|int(b[p+4]), p+5
		}
		p = q + l
		if id == 139 {
			at = p
		}
	}
	if p != len(b) || at < 0 {
		return nil, fmt.Errorf("transfer does not parse to its end (or has no IE 139)")
	}
	out := append([]byte{b[0], byte((cnt + 1) >> 8), byte(cnt + 1)}, b[3:at]...)
	out = append(out, ie...)
	return append(out, b[at:]...), nil
}

// ---------------------------------------------------------------- generators

// fill: n octets made of a short drawn pattern (content is opaque to the extractor; the pattern
// is drawn so that octets that look like IEIs (29, 59, 7B …) occur inside values).
func fill(t *rapid.T, n int, label string) []byte {
	if n == 0 {
		return []byte{}
	}
	pat := rapid.SliceOfN(rapid.OneOf(rapid.Byte(), rapid.SampledFrom([]byte{0x29, 0x59, 0x00, 0xff, 0x7b, 0x25, 0x80})), 1, 24).Draw(t, label)
	out := make([]byte, n)
	for i := range out {
		out[i] = pat[i%len(pat)]
	}
	return out
}

var bitRateEdges = []int64{0, 1, 255, 256, 65535, 65536, 1<<24 - 1, 1 << 24, 1<<32 - 1, 1 << 32, 1<<40 - 1, 1 << 40, 4000000000000 - 1, 4000000000000}

func genBitRate(t *rapid.T, label string) int64 {
	return rapid.OneOf(rapid.SampledFrom(bitRateEdges), rapid.Int64Range(0, 4000000000000), rapid.Int64Range(0, 1<<33)).Draw(t, label)
}

func genIEValueLen(t *rapid.T, s refid.IESpec, label string) int {
	max := s.MaxVal
	if max > 3000 {
		max = 3000
	}
	switch s.IEI {
	case 0x22: // S-NSSAI: the legal contents lengths
		return rapid.SampledFrom([]int{1, 2, 4, 5, 8}).Draw(t, label)
	}
	if s.MinVal == s.MaxVal {
		return s.MinVal
	}
	return rapid.OneOf(rapid.Just(s.MinVal), rapid.Just(s.MinVal+1), rapid.Just(max), rapid.IntRange(s.MinVal, min(max, 40)),
		rapid.IntRange(s.MinVal, max), rapid.Just(min(max, 255)), rapid.Just(min(max, 256))).Draw(t, label)
}


func genAccept(t *rapid.T) c12Accept {
	a := c12Accept{
		SHT: rapid.SampledFrom([]byte{2, 2, 2, 2, 1, 4}).Draw(t, "sht"),
		MAC: drawBytes(t, 4, "mac"), SQN: rapid.Byte().Draw(t, "sqn"),
		PSI: byte(rapid.OneOf(rapid.IntRange(1, 15), rapid.IntRange(0, 255)).Draw(t, "psi")),
		PTI: byte(rapid.IntRange(0, 255).Draw(t, "pti")),
		SSC: byte(rapid.IntRange(1, 3).Draw(t, "ssc")),
	}
	ql := rapid.OneOf(rapid.IntRange(4, 40), rapid.IntRange(41, 254), rapid.Just(255), rapid.Just(256), rapid.Just(257), rapid.IntRange(258, 1000),
		rapid.IntRange(1001, 4000), rapid.Just(4000), rapid.IntRange(0, 3), rapid.SampledFrom([]int{511, 512, 513, 1023, 1024, 2047, 2048, 3999})).Draw(t, "qoslen")
	a.QoSRules = fill(t, ql, "qos")
	a.AMBR = drawBytes(t, 6, "ambr")
	if rapid.Bool().Draw(t, "has_cause") {
		c := rapid.OneOf(rapid.Byte(), rapid.SampledFrom([]byte{0x29, 0x59, 0x32, 0x33, 0x00, 0xff})).Draw(t, "cause")
		a.Cause = &c
	}
	a.UEIP = rapid.OneOf(rapid.SliceOfN(rapid.Byte(), 4, 4), rapid.Just([]byte{10, 45, 0, 1}), rapid.Just([]byte{0x29, 0x05, 0x01, 0x29}),
		rapid.Just([]byte{0, 0, 0, 0}), rapid.Just([]byte{255, 255, 255, 255})).Draw(t, "ueip")
	density := rapid.SampledFrom([]int{0, 3, 5, 10}).Draw(t, "density") // 0 = none, 10 = every IE present
	budget := 60000 - len(a.QoSRules)
	for i, s := range refid.AcceptTable {
		if s.IEI == 0x59 || s.IEI == 0x29 {
			continue
		}
		if rapid.IntRange(1, 10).Draw(t, fmt.Sprintf("p%d", i)) > density {
			continue
		}
		ie := c12IE{IEI: s.IEI}
		if s.Format == refid.FmtTV1 {
			ie.Value = []byte{byte(rapid.IntRange(0, 15).Draw(t, fmt.Sprintf("v%d", i)))}
		} else {
			n := genIEValueLen(t, s, fmt.Sprintf("l%d", i))
			if n > budget {
				n = s.MinVal
			}
			budget -= n
			ie.Value = fill(t, n, fmt.Sprintf("v%d", i))
		}
		a.After = append(a.After, ie)
	}
	if rapid.IntRange(0, 3).Draw(t, "later_release") == 2 {
		n := rapid.IntRange(1, 3).Draw(t, "later_n")
		for i := 0; i < n; i++ {
			l := fmt.Sprintf("later%d_", i)
			iei := rapid.SampledFrom([]byte{0x72, 0x71, 0x74, 0x7A, 0x30, 0x1E, 0x61, 0x4B, 0xA0, 0xD0, 0xF0}).Draw(t, l+"iei")
			ie := c12IE{IEI: iei}
			switch {
			case iei&0x80 != 0:
				ie.Value = []byte{byte(rapid.IntRange(0, 15).Draw(t, l+"nibble"))}
			case iei >= 0x70:
				ie.Value = fill(t, rapid.OneOf(rapid.IntRange(0, 40), rapid.IntRange(200, 600)).Draw(t, l+"len"), l+"v")
			default:
				ie.Value = fill(t, rapid.OneOf(rapid.IntRange(0, 20), rapid.Just(255)).Draw(t, l+"len"), l+"v")
			}
			a.Later = append(a.Later, ie)
		}
	}
	for i, s := range refid.DLNASTransportTable {
		p := 3
		if s.IEI == 0x12 { // PDU session ID accompanies N1 SM information in practice
			p = 8
		}
		if rapid.IntRange(1, 10).Draw(t, fmt.Sprintf("dp%d", i)) > p {
			continue
		}
		n := s.MinVal
		if s.MaxVal > s.MinVal {
			n = rapid.IntRange(s.MinVal, s.MaxVal).Draw(t, fmt.Sprintf("dl%d", i))
		}
		a.DLOpt = append(a.DLOpt, c12IE{IEI: s.IEI, Value: fill(t, n, fmt.Sprintf("dv%d", i))})
	}
	return a
}

func genTransfer(t *rapid.T) c12Transfer {
	x := c12Transfer{}
	if rapid.IntRange(0, 9).Draw(t, "has_ambr") < 7 {
		x.AMBR = []int64{genBitRate(t, "ambr_dl"), genBitRate(t, "ambr_ul")}
	}
	x.TEID = rapid.OneOf(rapid.Uint32(), rapid.SampledFrom([]uint32{0, 1, 0xffffffff, 0x008b0000, 0x0000008b, 0x80000000})).Draw(t, "teid")
	x.UPF = rapid.OneOf(rapid.SliceOfN(rapid.Byte(), 4, 4), rapid.Just([]byte{10, 200, 200, 102}), rapid.Just([]byte{0, 0x8b, 0, 0x8b}),
		rapid.Just([]byte{0, 0, 0, 0}), rapid.Just([]byte{255, 255, 255, 255})).Draw(t, "upf")
	if rapid.IntRange(0, 3).Draw(t, "has_add") == 0 {
		a := &c12Tunnel{TEID: rapid.Uint32().Draw(t, "add_teid")}
		k := rapid.IntRange(0, 2).Draw(t, "add_kind")
		if k != 1 {
			a.V4 = drawBytes(t, 4, "add_v4")
		}
		if k != 0 {
			a.V6 = drawBytes(t, 16, "add_v6")
		}
		x.Additional = a
	}
	if x.Additional == nil && rapid.IntRange(0, 3).Draw(t, "has_add_list") == 1 {
		n := rapid.IntRange(1, 3).Draw(t, "add_list_n")
		for i := 0; i < n; i++ {
			x.AdditionalList = append(x.AdditionalList, c12Tunnel{V4: drawBytes(t, 4, fmt.Sprintf("addl_v4_%d", i)), TEID: rapid.Uint32().Draw(t, fmt.Sprintf("addl_teid_%d", i))})
		}
	}
	x.NoFwd = rapid.IntRange(0, 3).Draw(t, "nofwd") == 0
	x.SessionType = uint64(rapid.SampledFrom([]int{0, 0, 0, 2}).Draw(t, "stype"))
	if rapid.IntRange(0, 2).Draw(t, "has_sec") == 0 {
		x.SecInd = []uint64{uint64(rapid.IntRange(0, 2).Draw(t, "si")), uint64(rapid.IntRange(0, 2).Draw(t, "sc"))}
		if rapid.Bool().Draw(t, "has_rate") {
			x.SecInd = append(x.SecInd, uint64(rapid.IntRange(0, 1).Draw(t, "rate")))
		}
	}
	if rapid.IntRange(0, 3).Draw(t, "has_ni") == 0 {
		ni := rapid.OneOf(rapid.Int64Range(1, 256), rapid.SampledFrom([]int64{1, 2, 255, 256})).Draw(t, "ni")
		x.NetInst = &ni
	}
	nf := rapid.OneOf(rapid.Just(1), rapid.IntRange(1, 4), rapid.IntRange(1, 64), rapid.Just(64)).Draw(t, "nflows")
	for i := 0; i < nf; i++ {
		l := fmt.Sprintf("f%d_", i)
		f := c12Flow{QFI: int64(rapid.IntRange(0, 63).Draw(t, l+"qfi")), FiveQI: int64(rapid.IntRange(0, 255).Draw(t, l+"5qi")),
			ARP: int64(rapid.IntRange(1, 15).Draw(t, l+"arp")), PreCap: uint64(rapid.IntRange(0, 1).Draw(t, l+"cap")), PreVul: uint64(rapid.IntRange(0, 1).Draw(t, l+"vul"))}
		switch rapid.IntRange(0, 5).Draw(t, l+"kind") {
		case 0:
			f.Dynamic = true
		case 1:
			p := int64(rapid.IntRange(1, 127).Draw(t, l+"prio"))
			f.Prio = &p
		case 2:
			f.GBR = []int64{genBitRate(t, l+"g0"), genBitRate(t, l+"g1"), genBitRate(t, l+"g2"), genBitRate(t, l+"g3")}
		}
		f.Reflect = rapid.IntRange(0, 4).Draw(t, l+"refl") == 0
		if rapid.IntRange(0, 4).Draw(t, l+"has_erab") == 0 {
			e := int64(rapid.IntRange(0, 15).Draw(t, l+"erab"))
			f.ERABID = &e
		}
		x.Flows = append(x.Flows, f)
	}
	if rapid.IntRange(0, 4).Draw(t, "odd_crit") == 0 {
		for i := 0; i < 8; i++ {
			x.Crit = append(x.Crit, uint64(rapid.IntRange(0, 2).Draw(t, fmt.Sprintf("crit%d", i))))
		}
	}
	return x
}

func genC12(t *rapid.T) c12Case {
	c := c12Case{Accept: genAccept(t), Transfer: genTransfer(t)}
	switch rapid.IntRange(0, 19).Draw(t, "later_kind") {
	case 0, 1, 2, 3, 4, 5:
		c.Later = rapid.IntRange(1, 4).Draw(t, "later")
	case 6:
		c.Later = rapid.SampledFrom([]int{255, 256, 257, 300, 1023, 1025}).Draw(t, "later_many")
	case 7:
		c.Later = rapid.IntRange(5, 1200).Draw(t, "later_any")
	}
	return c
}

// ---------------------------------------------------------------- calling the extractors safely

type wdRec interface {
	Watchdog(c interface{}, what string, d time.Duration) func()
}

var c12Rec wdRec // the *ev.Rec of the running test (for the watchdog)

const c12Bound = 5 * time.Second // ≥ 10^6 × the normal cost of one call (a few µs)

func callNAS(c interface{}, b []byte) (ip net.IP, err error, site string) {
	if c12Rec != nil {
		defer c12Rec.Watchdog(c, "DecodePDUSessionNASPDU", c12Bound)()
	}
	err, site = ev.Guard(func() error { ip = stgutg.DecodePDUSessionNASPDU(b); return nil })
	return
}

func callTransfer(c interface{}, b []byte) (teid uint32, ip net.IP, err error, site string) {
	if c12Rec != nil {
		defer c12Rec.Watchdog(c, "DecodePDUSessionResourceSetupRequestTransfer", c12Bound)()
	}
	err, site = ev.Guard(func() error { teid, ip = stgutg.DecodePDUSessionResourceSetupRequestTransfer(b); return nil })
	return
}

// ---------------------------------------------------------------- well-formed oracle

func octetsOf(v int64) int {
	n := 1
	for v > 0xff {
		n++
		v >>= 8
	}
	return n
}

func c12Oracle(c c12Case) ev.Verdict {
	v := ev.Verdict{}
	a, x := c.Accept, c.Transfer
	if len(a.UEIP) != 4 || len(x.UPF) != 4 || len(a.QoSRules) > 4000 {
		v.Skip = true
		return v
	}
	nas, err := a.build()
	if err != nil {
		v.Skip = true // not a message the tables allow (only reachable from a hand-edited replay file)
		v.Classes = []string{"skipped: " + err.Error()}
		return v
	}
	tr, err := x.build()
	if err != nil {
		v.Skip = true
		v.Classes = []string{"skipped: " + err.Error()}
		return v
	}
	// the specification-side parser must find the same address in what was just built
	known := nas
	if len(a.Later) > 0 {
		for _, ie := range a.Later {
			for _, s := range refid.AcceptTable {
				if s.IEI == ie.IEI || (ie.IEI&0x80 != 0 && s.IEI == ie.IEI&0xF0) {
					v.Skip = true // not a later-release element: the table knows this IEI
					return v
				}
			}
		}
		if known, err = a.buildL(false); err != nil {
			v.Skip = true
			return v
		}
		v.Classes = append(v.Classes, "accept/later-release-IEs-behind-the-table")
	}
	if p, err := refid.ParseProtectedAccept(known); err != nil || !bytes.Equal(p.PDUAddrIPv4, a.UEIP) {
		panic(fmt.Sprintf("harness error: reference parser disagrees with reference builder: %v", err))
	}

	bigRate := false
	for _, r := range x.AMBR {
		v.Classes = append(v.Classes, fmt.Sprintf("ambr-octets=%d", octetsOf(r)))
		if r >= 1<<32 {
			bigRate = true
		}
	}
	if len(x.AMBR) == 0 {
		v.Classes = append(v.Classes, "transfer/no-ambr(139 first)")
	} else {
		v.Classes = append(v.Classes, "transfer/ambr-before-139")
	}
	if bigRate {
		v.Classes = append(v.Classes, "transfer/bitrate>=2^32")
	}
	if x.Additional != nil {
		v.Classes = append(v.Classes, "transfer/additional-tnl")
	}
	if len(x.AdditionalList) > 0 {
		v.Classes = append(v.Classes, "transfer/additional-tnl-as-a-list(later version of TS 38.413)")
	}
	if len(x.Flows) >= 16 {
		v.Classes = append(v.Classes, "transfer/flows>=16(2-octet open type length)")
	}
	if a.Cause != nil {
		v.Classes = append(v.Classes, "accept/cause-before-pdu-address")
	} else {
		v.Classes = append(v.Classes, "accept/pdu-address-first")
	}
	switch q := len(a.QoSRules); {
	case q < 4:
		v.Classes = append(v.Classes, "accept/qos<4(below table minimum)")
	case q < 256:
		v.Classes = append(v.Classes, "accept/qos<256")
	default:
		v.Classes = append(v.Classes, "accept/qos>=256")
	}
	r16 := false
	for _, ie := range a.After {
		v.Classes = append(v.Classes, fmt.Sprintf("accept/after:%02X", ie.IEI))
		for _, s := range refid.AcceptTable {
			if s.IEI == ie.IEI && s.Release == 16 {
				r16 = true
			}
		}
	}
	if r16 {
		v.Classes = append(v.Classes, "accept/has-release16-ie")
	}
	v.Classes = append(v.Classes, fmt.Sprintf("accept/sht=%d", a.SHT), fmt.Sprintf("accept/after-count=%s", bucket(len(a.After))))
	// NT: the walk has to step over the one IE that may precede the PDU address and the QoS-rule
	// length needs both octets, or an aggregate bit rate needs more than 4 octets.
	v.NT = (a.Cause != nil && len(a.QoSRules) >= 256) || bigRate

	ip, err, site := callNAS(c, nas)
	if err != nil {
		v.Key, v.Err = "DecodePDUSessionNASPDU:"+site, fmt.Errorf("well-formed NAS-PDU (%d octets, QoS rules %d): %v", len(nas), len(a.QoSRules), err)
		return v
	}
	if !bytes.Equal(ip, a.UEIP) {
		key := "DecodePDUSessionNASPDU:wrong-ip"
		if ip == nil {
			key = "DecodePDUSessionNASPDU:no-ip"
		}
		v.Key, v.Err = key, fmt.Errorf("UE address %v extracted, the network encoded %v (QoS rules %d octets, cause present %v, NAS-PDU %d octets)",
			ip, net.IP(a.UEIP), len(a.QoSRules), a.Cause != nil, len(nas))
		return v
	}
	teid, upf, err, site := callTransfer(c, tr)
	if err != nil {
		v.Key, v.Err = "DecodeTransfer:"+site, fmt.Errorf("well-formed transfer %x: %v", tr, err)
		return v
	}
	if teid != x.TEID {
		v.Key, v.Err = "DecodeTransfer:wrong-teid", fmt.Errorf("TEID %#08x extracted, the network encoded %#08x (transfer %x)", teid, x.TEID, tr)
		return v
	}
	if !bytes.Equal(upf, x.UPF) {
		v.Key, v.Err = "DecodeTransfer:wrong-upf", fmt.Errorf("UPF address %v extracted, the network encoded %v (transfer %x)", upf, net.IP(x.UPF), tr)
		return v
	}
	if c.Later > 0 {
		other := c12Corpus()[0]
		for i := 0; i < c.Later; i++ {
			_, _, _ = callNAS(c, other.NAS)
			_, _, _, _ = callTransfer(c, other.Transfer)
		}
		v.Classes = append(v.Classes, "retained/later-sessions="+bucket(c.Later))
		if !bytes.Equal(ip, a.UEIP) || !bytes.Equal(upf, x.UPF) {
			v.Key = "retained:reported-values-changed-by-later-extractions"
			v.Err = fmt.Errorf("after %d further sessions were extracted the values reported for this session read UE %v / UPF %v, the network encoded %v / %v", c.Later, ip, upf, net.IP(a.UEIP), net.IP(x.UPF))
			return v
		}
	}
	return v
}

func TestC12_WellFormed(t *testing.T) {
	r := ev.New(t, "C12", "TestC12_WellFormed")
	c12Rec = r
	ev.Run(t, r, genC12, c12Oracle)
}

// ---------------------------------------------------------------- arbitrary inputs: termination

type c12Arb struct {
	Kind        string   `json:"kind"`
	NAS         HexBytes `json:"nas_pdu"`
	Transfer    HexBytes `json:"transfer"`
	AllPrefixes bool     `json:"all_prefixes,omitempty"`
}

var hostile = []byte{0x00, 0x01, 0x7f, 0x80, 0xbf, 0xc0, 0xff, 0x29, 0x59, 0x7b, 0x8b}

func mutate(t *rapid.T, b []byte, label string) []byte {
	out := append([]byte{}, b...)
	n := rapid.IntRange(1, 3).Draw(t, label+"_n")
	for i := 0; i < n && len(out) > 0; i++ {
		l := fmt.Sprintf("%s_%d_", label, i)
		// positions are biased towards the front, where the headers and length fields are
		pos := rapid.OneOf(rapid.IntRange(0, min(len(out)-1, 40)), rapid.IntRange(0, len(out)-1)).Draw(t, l+"pos")
		switch rapid.IntRange(0, 5).Draw(t, l+"op") {
		case 0:
			out[pos] ^= 1 << uint(rapid.IntRange(0, 7).Draw(t, l+"bit"))
		case 1:
			out[pos] = rapid.SampledFrom(hostile).Draw(t, l+"const")
		case 2:
			out[pos] = rapid.Byte().Draw(t, l+"byte")
		case 3: // delete a run
			k := rapid.IntRange(1, 8).Draw(t, l+"del")
			if pos+k > len(out) {
				k = len(out) - pos
			}
			out = append(out[:pos], out[pos+k:]...)
		case 4: // insert a run
			ins := rapid.SliceOfN(rapid.OneOf(rapid.Byte(), rapid.SampledFrom(hostile)), 1, 8).Draw(t, l+"ins")
			out = append(out[:pos], append(ins, out[pos:]...)...)
		case 5: // truncate
			out = out[:pos]
		}
	}
	return out
}

// acceptWithForeignIE: a well-formed message except for one IE, placed before the PDU address,
// whose IEI the extractor's table does not contain (formatted per TS 24.007 §11.2.4).
func acceptWithForeignIE(t *rapid.T, a c12Accept) []byte {
	known := map[byte]bool{}
	for _, s := range refid.AcceptTable {
		known[s.IEI] = true
	}
	iei := rapid.Byte().Filter(func(b byte) bool { return !known[b] && b&0xF0 != 0x80 && b&0xF0 != 0xC0 }).Draw(t, "foreign_iei")
	var ie []byte
	switch {
	case iei&0x80 != 0:
		ie = []byte{iei}
	case iei&0xF0 == 0x70:
		v := fill(t, rapid.IntRange(0, 300).Draw(t, "foreign_len"), "foreign_val")
		ie = append([]byte{iei, byte(len(v) >> 8), byte(len(v))}, v...)
	default:
		v := fill(t, rapid.IntRange(0, 40).Draw(t, "foreign_len"), "foreign_val")
		ie = append([]byte{iei, byte(len(v))}, v...)
	}
	acc := []byte{0x2E, a.PSI, a.PTI, 0xC2, a.SSC<<4 | 1, byte(len(a.QoSRules) >> 8), byte(len(a.QoSRules))}
	acc = append(acc, a.QoSRules...)
	acc = append(acc, 6)
	acc = append(acc, a.AMBR...)
	acc = append(acc, ie...)
	acc = append(acc, 0x29, 5, 1)
	acc = append(acc, a.UEIP...)
	dl, _ := refid.DLNASTransport(1, acc, nil)
	return refid.Protect(a.SHT, a.MAC, a.SQN, dl)
}

func genC12Arb(t *rapid.T) c12Arb {
	var c c12Arb
	kind := rapid.IntRange(0, 9).Draw(t, "kind")
	switch {
	case kind <= 1:
		c.Kind = "random"
		c.NAS = rapid.SliceOfN(rapid.OneOf(rapid.Byte(), rapid.SampledFrom(hostile)), 0, 120).Draw(t, "nas")
		c.Transfer = rapid.SliceOfN(rapid.OneOf(rapid.Byte(), rapid.SampledFrom(hostile)), 0, 80).Draw(t, "tr")
	case kind == 2:
		c.Kind = "random-after-valid-header"
		body := rapid.SliceOfN(rapid.OneOf(rapid.Byte(), rapid.SampledFrom(hostile)), 0, 100).Draw(t, "body")
		acc := append([]byte{0x2E, 1, 1, 0xC2, 0x11, 0, 0, 6, 1, 0, 1, 1, 0, 1}, body...)
		dl, _ := refid.DLNASTransport(1, acc, nil)
		c.NAS = refid.Protect(2, []byte{0, 0, 0, 0}, 0, dl)
		c.Transfer = append([]byte{0, 0, byte(rapid.IntRange(0, 5).Draw(t, "cnt"))}, rapid.SliceOfN(rapid.Byte(), 0, 60).Draw(t, "trbody")...)
	case kind == 3:
		c.Kind = "foreign-iei-before-pdu-address"
		c.NAS = acceptWithForeignIE(t, genAccept(t))
		tr, _ := genTransfer(t).build()
		c.Transfer = tr
	case kind == 4:
		c.Kind = "all-prefixes"
		a := genAccept(t)
		if len(a.QoSRules) > 300 {
			a.QoSRules = a.QoSRules[:300]
		}
		for i := range a.After {
			if len(a.After[i].Value) > 200 && a.After[i].IEI != 0x22 {
				a.After[i].Value = a.After[i].Value[:200]
			}
		}
		c.NAS, _ = a.build()
		c.Transfer, _ = genTransfer(t).build()
		c.AllPrefixes = true
	default:
		c.Kind = "mutated"
		base, _ := genAccept(t).build()
		c.NAS = mutate(t, base, "mn")
		tr, _ := genTransfer(t).build()
		c.Transfer = mutate(t, tr, "mt")
	}
	return c
}

func c12ArbOracle(c c12Arb) ev.Verdict {
	v := ev.Verdict{NT: c.Kind != "random", Classes: []string{"arbitrary/" + c.Kind}}
	nasIn, trIn := [][]byte{c.NAS}, [][]byte{c.Transfer}
	if c.AllPrefixes {
		nasIn, trIn = nil, nil
		for i := 0; i <= len(c.NAS); i++ {
			nasIn = append(nasIn, c.NAS[:i])
		}
		for i := 0; i <= len(c.Transfer); i++ {
			trIn = append(trIn, c.Transfer[:i])
		}
	}
	// One watchdog per function and case: the calls of a case together cost microseconds, the
	// bound stays 5 s. A call that returns or panics has terminated; only a call that does neither
	// fails the case (the watchdog then writes this case and ends the process).
	panics := 0
	func() {
		if c12Rec != nil {
			defer c12Rec.Watchdog(c, "DecodePDUSessionNASPDU", c12Bound)()
		}
		for _, b := range nasIn {
			in := append([]byte{}, b...)
			if err, _ := ev.Guard(func() error { stgutg.DecodePDUSessionNASPDU(in); return nil }); err != nil {
				panics++
			}
		}
	}()
	func() {
		if c12Rec != nil {
			defer c12Rec.Watchdog(c, "DecodePDUSessionResourceSetupRequestTransfer", c12Bound)()
		}
		for _, b := range trIn {
			in := append([]byte{}, b...)
			if err, _ := ev.Guard(func() error { stgutg.DecodePDUSessionResourceSetupRequestTransfer(in); return nil }); err != nil {
				panics++
			}
		}
	}()
	if panics > 0 {
		v.Classes = append(v.Classes, "arbitrary/terminated-by-panic")
	} else {
		v.Classes = append(v.Classes, "arbitrary/returned")
	}
	return v
}

// c12Corpus: small hand-made inputs, evaluated first in every run so that a termination failure
// is reported with a readable case rather than with whatever random input met it first.
func c12Corpus() []c12Arb {
	hdr := []byte{0x2E, 5, 1, 0xC2, 0x11, 0x00, 0x04, 1, 0, 1, 1, 0x06, 0x06, 0x03, 0xE8, 0x06, 0x03, 0xE8}
	wrap := func(opt ...byte) HexBytes {
		dl, _ := refid.DLNASTransport(1, append(append([]byte{}, hdr...), opt...), []refid.OptIE{{IEI: 0x12, Value: []byte{5}}})
		return refid.Protect(2, []byte{1, 2, 3, 4}, 0, dl)
	}
	tr := HexBytes{0x00, 0x00, 0x01, 0x00, 0x8b, 0x00, 0x0a, 0x01, 0xf0, 10, 200, 200, 102, 0, 0, 0, 1}
	addr := []byte{0x29, 0x05, 0x01, 10, 45, 0, 1}
	return []c12Arb{
		{Kind: "corpus/well-formed", NAS: wrap(addr...), Transfer: tr},
		{Kind: "corpus/no-pdu-address", NAS: wrap(0x59, 0x32), Transfer: tr},
		{Kind: "corpus/pdu-address-after-dnn(out of order)", NAS: wrap(append([]byte{0x25, 0x09, 8, 'i', 'n', 't', 'e', 'r', 'n', 'e', 't'}, addr...)...), Transfer: tr},
		{Kind: "corpus/foreign-tlv-iei-before-pdu-address", NAS: wrap(append([]byte{0x30, 0x01, 0xAA}, addr...)...), Transfer: tr},
		{Kind: "corpus/foreign-tlve-iei-before-pdu-address", NAS: wrap(append([]byte{0x7C, 0x00, 0x01, 0xAA}, addr...)...), Transfer: tr},
		{Kind: "corpus/foreign-type1-iei-before-pdu-address", NAS: wrap(append([]byte{0x91}, addr...)...), Transfer: tr},
		{Kind: "corpus/empty", NAS: HexBytes{}, Transfer: HexBytes{}},
		{Kind: "corpus/transfer-without-139", NAS: wrap(addr...), Transfer: HexBytes{0x00, 0x00, 0x01, 0x00, 0x86, 0x00, 0x01, 0x00}},
	}
}

func TestC12_Termination(t *testing.T) {
	r := ev.New(t, "C12", "TestC12_Termination")
	c12Rec = r
	if ev.Replay() == "" {
		for i, c := range c12Corpus() {
			if i > 0 && ev.Shard() != 0 {
				break // every shard records the always-terminating first case, shard 0 the whole corpus
			}
			r.Trace(c)
			if !r.Each(t, c, ev.SafeOracle(c12ArbOracle, c)) {
				r.Flush()
				return
			}
		}
	}
	ev.Run(t, r, genC12Arb, c12ArbOracle)
}

// TestC12_LengthSweep: termination at every length indicator. After the mandatory part of a well-formed PDU SESSION
// ESTABLISHMENT ACCEPT (inside its protected DL NAS TRANSPORT), one optional IE header is written and the message ends:
// every IEI (quick: the IEIs of Table 8.3.2.1.1 and their neighbours; thorough: all 256) x every one-octet length and
// every two-octet length indicator 0..65535, once cut off right behind the length and once followed by 40 octets.
func TestC12_LengthSweep(t *testing.T) {
	r := ev.New(t, "C12", "TestC12_LengthSweep")
	defer r.Flush()
	c12Rec = r
	hdr := []byte{0x2E, 5, 1, 0xC2, 0x11, 0x00, 0x04, 1, 0, 1, 1, 0x06, 0x06, 0x03, 0xE8, 0x06, 0x03, 0xE8}
	var ieis []int
	if ev.Tier() == "thorough" {
		for i := 0; i < 256; i++ {
			ieis = append(ieis, i)
		}
	} else {
		seen := map[int]bool{}
		for _, s := range refid.AcceptTable {
			for _, d := range []int{-1, 0, 1} {
				if x := int(s.IEI) + d; x >= 0 && x < 256 && !seen[x] {
					seen[x] = true
					ieis = append(ieis, x)
				}
			}
		}
	}
	tail := bytes.Repeat([]byte{0x29, 0x05, 0x01, 10, 45, 0, 1, 0x00}, 5)
	for k, iei := range ieis {
		if k%ev.NShards() != ev.Shard() {
			continue
		}
		build := func(l int, two bool, withTail bool) HexBytes {
			opt := []byte{byte(iei), byte(l)}
			if two {
				opt = []byte{byte(iei), byte(l >> 8), byte(l)}
			}
			if withTail {
				opt = append(opt, tail...)
			}
			dl, _ := refid.DLNASTransport(1, append(append([]byte{}, hdr...), opt...), nil)
			return refid.Protect(2, []byte{1, 2, 3, 4}, 0, dl)
		}
		// one watchdog per IEI and form: 2 x 65536 calls of microseconds each against a bound of 5 s per CALL is
		// a bound of 5 s for the whole batch here (a hang of any one call trips it)
		for _, form := range []struct {
			two bool
			n   int
		}{{false, 256}, {true, 65536}} {
			c := c12Arb{Kind: fmt.Sprintf("length-sweep iei=%#02x two-octet-length=%v", iei, form.two)}
			stop := r.Watchdog(c, "DecodePDUSessionNASPDU", 6*c12Bound)
			for l := 0; l < form.n; l++ {
				for _, wt := range []bool{false, true} {
					in := build(l, form.two, wt)
					c.NAS = in
					r.Trace(c)
					_, _ = ev.Guard(func() error { stgutg.DecodePDUSessionNASPDU(in); return nil })
				}
			}
			stop()
			v := ev.Verdict{NT: true, Hash: ev.HashJSON([]interface{}{"sweep", iei, form.two}), Classes: []string{"length-sweep"}}
			c.NAS = nil
			if !r.Each(t, c, v) {
				return
			}
		}
	}
}
