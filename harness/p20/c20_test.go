package p20

import (
	"bytes"
	"encoding/hex"
	"encoding/json"
	"fmt"
	"io"
	"os"
	"os/exec"
	"path/filepath"
	"regexp"
	"runtime"
	"strings"
	"sync"
	"sync/atomic"
	"testing"

	aperlogger "free5gclib/aper/logger"
	naslogger "free5gclib/nas/logger"
	"github.com/sirupsen/logrus"

	"free5gclib/aper"
	"free5gclib/milenage"
	"free5gclib/nas"
	"free5gclib/nas/nasMessage"
	"free5gclib/nas/nasTestpacket"
	"free5gclib/nas/security"
	"free5gclib/ngap"
	"free5gclib/ngap/ngapType"
	"free5gclib/openapi/models"
	"tglib"

	"pgregory.net/rapid"

	"verifh/ev"
	"verifh/gen"
	"verifh/refamf"
	"verifh/refcrypto"
	"verifh/refper"
)

// C20 — codecs and security functions are safe to use concurrently for different UEs.
//
// A case is G scripts of operations, one per goroutine; every goroutine owns its UE context,
// keys and messages. The scripts are first run one after the other (expected results), then
// concurrently from a start barrier. Oracles: (a) every concurrent result equals the
// sequential one, and the reference value for pure crypto operations; (b) the binary is built
// with -race and the race detector's log must not grow during the case.

type c20Op struct {
	Kind string `json:"kind"` // ngap-enc ngap-dec nas-plain protect unprotect encrypt mac derive
	Seed uint64 `json:"seed"`
	Alg  int    `json:"alg"` // ciphering / integrity algorithm id for encrypt, mac, protect
	Len  int    `json:"len"`
}
type c20Case struct {
	Procs   int       `json:"gomaxprocs"`
	Scripts [][]c20Op `json:"scripts"`
}

var c20Kinds = []string{"ngap-enc", "ngap-dec", "nas-plain", "protect", "unprotect", "encrypt", "mac", "derive", "ngap-enc-big", "ngap-dec-big", "alg-direct", "ngap-dec-lists", "aes-burst", "ngap-dec-later", "ngap-dec-cut", "tg-build", "ue-burst", "shared-inputs"}

// Inputs that all UEs of an operator have in common and that every goroutine only READS: the subscription record made
// from the configured K and OPc (each UE gets a by-value copy: the pointers inside are shared), and one set of f-function
// arguments (TS 35.208 test set 1). A function that only reads its arguments can be handed the same memory by any
// number of goroutines.
var (
	sharedK    = []byte{0x46, 0x5b, 0x5c, 0xe8, 0xb1, 0x99, 0xb4, 0x9f, 0xaa, 0x5f, 0x0a, 0x2e, 0xe2, 0x38, 0xa6, 0xbc}
	sharedOPc  = []byte{0xcd, 0x63, 0xcb, 0x71, 0x95, 0x4a, 0x9f, 0x4e, 0x48, 0xa5, 0x99, 0x4e, 0x37, 0xa0, 0x2b, 0xaf}
	sharedRAND = []byte{0x23, 0x55, 0x3c, 0xbe, 0x96, 0x37, 0xa8, 0x9d, 0x21, 0x8a, 0xe6, 0x4d, 0xae, 0x47, 0xbf, 0x35}
	sharedSQN  = []byte{0xff, 0x9b, 0xb4, 0xd0, 0xb6, 0x07}
	sharedAMF  = []byte{0xb9, 0xb9}
	sharedSubs = tglib.GetAuthSubscription("465b5ce8b199b49faa5f0a2ee238a6bc", "cd63cb71954a9f4e48a5994e37a02baf", "")
)

func genC20(t *rapid.T) c20Case {
	g := rapid.SampledFrom([]int{2, 2, 4, 8, 8, 16, 64}).Draw(t, "goroutines")
	c := c20Case{Procs: rapid.SampledFrom([]int{1, 2, 2, 16, 16}).Draw(t, "gomaxprocs")}
	maxOps := 60
	if g >= 16 {
		maxOps = 24
	}
	longBias := 1 // of 12
	if rapid.IntRange(0, 3).Draw(t, "long_case") == 0 {
		longBias = 8
		maxOps = maxOps / 2
	}
	storm := ""
	if rapid.IntRange(0, 5).Draw(t, "storm") == 0 {
		// every goroutine does the same kind of work for the whole case (64 decoders of list-heavy messages at once,
		// 64 direct cipher calls at once, ...): load that adds up across goroutines
		storm = rapid.SampledFrom([]string{"ngap-dec-lists", "ngap-dec-lists", "alg-direct", "ngap-dec", "ngap-enc", "aes-burst", "aes-burst", "derive", "ngap-dec-later", "ngap-dec-later", "ngap-dec-cut", "ngap-dec-cut", "tg-build", "tg-build", "ue-burst", "ue-burst", "ue-burst", "shared-inputs", "shared-inputs"}).Draw(t, "storm_kind")
		g = 64
		maxOps = 6
	}
	for i := 0; i < g; i++ {
		n := rapid.IntRange(min(8, maxOps-2), maxOps).Draw(t, fmt.Sprintf("n%d", i))
		var s []c20Op
		// a goroutine tends to stay with a few kinds (like a UE that is registering), which
		// makes simultaneous use of the same primitive by two goroutines likely
		fav := rapid.SampledFrom(c20Kinds).Draw(t, fmt.Sprintf("fav%d", i))
		for k := 0; k < n; k++ {
			kind := fav
			if rapid.IntRange(0, 2).Draw(t, "other") == 0 {
				kind = rapid.SampledFrom(c20Kinds).Draw(t, "kind")
			}
			if storm != "" {
				kind = storm
			}
			// message sizes: mostly signalling-sized; in "long" cases mostly kilobytes (payload containers, NAS-PDUs of
			// 2..20 KB), so that two goroutines are inside a long operation at the same time
			ln := rapid.IntRange(1, 200).Draw(t, "len")
			if rapid.IntRange(0, 11).Draw(t, "len_long") < longBias {
				ln = rapid.IntRange(2000, 20000).Draw(t, "len_kb")
			}
			s = append(s, c20Op{Kind: kind, Seed: rapid.Uint64().Draw(t, "seed"), Alg: rapid.IntRange(0, 2).Draw(t, "alg"), Len: ln})
		}
		c.Scripts = append(c.Scripts, s)
	}
	return c
}

// splitmix64: content derived from the op's drawn seed
type sm struct{ x uint64 }

func (s *sm) next() uint64 {
	s.x += 0x9E3779B97F4A7C15
	z := s.x
	z = (z ^ (z >> 30)) * 0xBF58476D1CE4E5B9
	z = (z ^ (z >> 27)) * 0x94D049BB133111EB
	return z ^ (z >> 31)
}
func (s *sm) bytes(n int) []byte {
	b := make([]byte, n)
	for i := range b {
		b[i] = byte(s.next())
	}
	return b
}

type ueState struct {
	ue  *tglib.RanUeContext
	dl  uint32 // downlink count used by the fake sender
	idx int
}

func newUE(i int, seed uint64) *ueState {
	r := &sm{x: seed ^ uint64(i)*7919}
	ue := tglib.NewRanUeContext(fmt.Sprintf("imsi-2089300%08d", i), int64(i+1), security.AlgCiphering128NEA0, security.AlgIntegrity128NIA2)
	copy(ue.KnasEnc[:], r.bytes(16))
	copy(ue.KnasInt[:], r.bytes(16))
	return &ueState{ue: ue, idx: i}
}

var pduCache sync.Map // seed -> ngapType.NGAPPDU (values are immutable once built; each use copies via re-generation)

func pduFor(seed uint64) ngapType.NGAPPDU {
	ms := gen.Messages()
	m := ms[int(seed%uint64(len(ms)))]
	return rapid.Custom(func(rt *rapid.T) ngapType.NGAPPDU {
		return gen.New(rt, gen.Opts{Budget: 120, BigString: 80}).PDU(m)
	}).Example(int(seed % (1 << 30)))
}

func plainNAS(r *sm, ln int) []byte {
	if ln > 200 {
		// a long message: SECURITY MODE COMPLETE with a NAS message container (TLV-E) of ln octets
		return nasTestpacket.GetSecurityModeComplete(r.bytes(ln))
	}
	switch r.next() % 6 {
	case 0:
		return nasTestpacket.GetRegistrationComplete(nil)
	case 1:
		return nasTestpacket.GetServiceRequest(nasMessage.ServiceTypeData)
	case 2:
		return nasTestpacket.GetUlNasTransport_PduSessionEstablishmentRequest(uint8(r.next()), nasMessage.ULNASTransportRequestTypeInitialRequest, "internet", &models.Snssai{Sst: int32(r.next() % 256), Sd: "010203"})
	case 3:
		return nasTestpacket.GetAuthenticationResponse(r.bytes(16), "")
	case 4:
		return nasTestpacket.GetUlNasTransport_PduSessionReleaseRequest(uint8(r.next()))
	}
	return nasTestpacket.GetSecurityModeComplete(r.bytes(int(r.next() % 60)))
}

// runOp executes one operation for one UE and returns a digest of its observable result.
func runOp(u *ueState, op c20Op) (res string) {
	defer func() {
		if e := recover(); e != nil {
			res = fmt.Sprintf("panic@%s:%v", ev.PanicSite(3), e)
		}
	}()
	r := &sm{x: op.Seed}
	switch op.Kind {
	case "ngap-enc":
		b, err := ngap.Encoder(pduFor(op.Seed))
		return fmt.Sprintf("%x|%v", b, err)
	case "ngap-dec", "ngap-dec-later":
		pdu := pduFor(op.Seed)
		rb, _, err := refper.Encode(pdu, gen.PDUTag)
		if err != nil || len(rb) >= 16384 {
			return "skip"
		}
		if (op.Seed%5 == 1 || op.Kind == "ngap-dec-later") && len(rb) < 12000 {
			// a peer of a later release: one or two information elements with identifiers this release does not know (and
			// that no other message of the run carries) behind the known ones
			if ext, err := refamf.WithLaterIEs(rb, 1+int(op.Seed>>8%2), int(op.Seed>>16%1000000)); err == nil {
				if _, derr := ngap.Decoder(ext); derr != nil {
					return "decerr(later-release IEs):" + derr.Error()
				}
				return "ok(later-release IEs):" + hex.EncodeToString(rb[:min(len(rb), 16)])
			}
		}
		d, derr := ngap.Decoder(append([]byte{}, rb...))
		if derr != nil {
			return "decerr:" + derr.Error()
		}
		b2, _, e2 := refper.Encode(*d, gen.PDUTag)
		if e2 != nil || !bytes.Equal(b2, rb) {
			return "decoded-value-differs"
		}
		return "ok:" + hex.EncodeToString(rb[:min(len(rb), 16)])
	case "ngap-dec-cut":
		// a message that arrives cut short (a peer that died mid-send, a reassembly gone wrong): the decoder's refusal —
		// error value and text — is a result like any other and belongs to the call that produced it
		pdu := pduFor(op.Seed)
		rb, _, err := refper.Encode(pdu, gen.PDUTag)
		if err != nil || len(rb) >= 16384 || len(rb) < 4 {
			return "skip"
		}
		out := ""
		var kept []error
		x := &sm{x: op.Seed ^ 0xc07}
		for rep := 0; rep < 4; rep++ {
			cut := 1 + int(x.next()%uint64(len(rb)-1))
			if rep == 0 && len(rb) > 8 {
				cut = len(rb) - 1 - int(x.next()%4)
			}
			in := append([]byte{}, rb[:cut]...)
			switch {
			case rep == 1:
				// ... in the first octets: procedure code, criticality, the length of the value
				in = append([]byte{}, rb[:1+int(x.next()%4)]...)
			case rep >= 2 && rb[3] < 128 && len(rb) == 4+int(rb[3]) && rb[3] > 2:
				// ... or a sender that closed the message early: the outer length agrees with what arrives, the content
				// ends at some field of some information element
				l := 1 + int(x.next()%uint64(rb[3]-1))
				in = append([]byte{}, rb[:4+l]...)
				in[3] = byte(l)
				cut = -l
			}
			_, derr := ngap.Decoder(in)
			if derr == nil {
				out += fmt.Sprintf("|%d:accepted", cut)
				continue
			}
			kept = append(kept, derr)
			out += fmt.Sprintf("|%d:%s", cut, derr.Error())
		}
		// the errors read the same afterwards as when they were returned
		for _, e := range kept {
			out += "|" + e.Error()
		}
		return out
	case "tg-build":
		// the messages a gNB sends for a UE, made by the builders the emulator uses (build + encode in one call)
		amfID, ranID := int64(r.next()%(1<<40)), int64(r.next()%(1<<32))
		var b []byte
		var err error
		switch op.Seed % 9 {
		case 0:
			b, err = tglib.GetInitialUEMessage(ranID, plainNAS(r, op.Len%200+1), "")
		case 1:
			b, err = tglib.GetUplinkNASTransport(amfID, ranID, plainNAS(r, op.Len))
		case 2:
			b, err = tglib.GetInitialContextSetupResponse(amfID, ranID)
		case 3:
			b, err = tglib.GetPDUSessionResourceSetupResponse(amfID, ranID, int64(1+r.next()%15), fmt.Sprintf("10.%d.%d.%d", r.next()%256, r.next()%256, r.next()%256))
		case 4:
			b, err = tglib.GetUEContextReleaseComplete(amfID, ranID, []int64{int64(1 + r.next()%15)})
		case 5:
			b, err = tglib.GetUEContextReleaseRequest(amfID, ranID, []int64{int64(1 + r.next()%15)})
		case 6:
			b, err = tglib.GetPDUSessionResourceReleaseResponse(amfID, ranID, int64(1+r.next()%15))
		case 7:
			b, err = tglib.GetHandoverNotify(amfID, ranID)
		default:
			b, err = tglib.GetPathSwitchRequest(amfID, ranID)
		}
		return fmt.Sprintf("%x|%v", b, err)
	case "ngap-enc-big", "ngap-dec-big":
		// DOWNLINK NAS TRANSPORT whose NAS-PDU has op.Len octets (above 16K the open types are fragmented)
		var pdu ngapType.NGAPPDU
		pdu.Present = ngapType.NGAPPDUPresentInitiatingMessage
		pdu.InitiatingMessage = new(ngapType.InitiatingMessage)
		im := pdu.InitiatingMessage
		im.ProcedureCode.Value = ngapType.ProcedureCodeDownlinkNASTransport
		im.Criticality.Value = ngapType.CriticalityPresentIgnore
		im.Value.Present = ngapType.InitiatingMessagePresentDownlinkNASTransport
		im.Value.DownlinkNASTransport = new(ngapType.DownlinkNASTransport)
		add := func(id int64, set func(*ngapType.DownlinkNASTransportIEs)) {
			ie := ngapType.DownlinkNASTransportIEs{}
			ie.Id.Value = id
			ie.Criticality.Value = ngapType.CriticalityPresentReject
			set(&ie)
			im.Value.DownlinkNASTransport.ProtocolIEs.List = append(im.Value.DownlinkNASTransport.ProtocolIEs.List, ie)
		}
		add(ngapType.ProtocolIEIDAMFUENGAPID, func(ie *ngapType.DownlinkNASTransportIEs) {
			ie.Value.Present = ngapType.DownlinkNASTransportIEsPresentAMFUENGAPID
			ie.Value.AMFUENGAPID = &ngapType.AMFUENGAPID{Value: int64(r.next() % (1 << 40))}
		})
		add(ngapType.ProtocolIEIDRANUENGAPID, func(ie *ngapType.DownlinkNASTransportIEs) {
			ie.Value.Present = ngapType.DownlinkNASTransportIEsPresentRANUENGAPID
			ie.Value.RANUENGAPID = &ngapType.RANUENGAPID{Value: int64(r.next() % (1 << 32))}
		})
		add(ngapType.ProtocolIEIDNASPDU, func(ie *ngapType.DownlinkNASTransportIEs) {
			ie.Value.Present = ngapType.DownlinkNASTransportIEsPresentNASPDU
			ie.Value.NASPDU = &ngapType.NASPDU{Value: r.bytes(op.Len)}
		})
		rb, _, rerr := refper.Encode(pdu, gen.PDUTag)
		if rerr != nil {
			return "skip"
		}
		if op.Kind == "ngap-enc-big" {
			b, err := ngap.Encoder(pdu)
			if err != nil || !bytes.Equal(b, rb) {
				return fmt.Sprintf("WRONG-ENCODING of a DOWNLINK NAS TRANSPORT with a %d-octet NAS-PDU (err %v): differs from the canonical encoding at octet %d", op.Len, err, firstDiff(b, rb))
			}
			return "ok"
		}
		d, derr := ngap.Decoder(append([]byte{}, rb...))
		if derr != nil {
			return "decerr:" + derr.Error()
		}
		b2, _, e2 := refper.Encode(*d, gen.PDUTag)
		if e2 != nil || !bytes.Equal(b2, rb) {
			return "decoded-value-differs"
		}
		return "ok"
	case "nas-plain":
		p := plainNAS(r, op.Len)
		m := nas.NewMessage()
		if err := m.PlainNasDecode(&p); err != nil {
			return "err:" + err.Error()
		}
		b, err := m.PlainNasEncode()
		return fmt.Sprintf("%x|%v", b, err)
	case "protect":
		u.ue.CipheringAlg = uint8(op.Alg)
		u.ue.IntegrityAlg = uint8(1 + op.Seed%2)
		p := plainNAS(r, op.Len)
		b, err := tglib.EncodeNasPduWithSecurity(u.ue, p, nas.SecurityHeaderTypeIntegrityProtectedAndCiphered, true, false)
		return fmt.Sprintf("%x|%v|%d", b, err, u.ue.ULCount.Get())
	case "unprotect":
		// a downlink message protected by the library's own primitives (sequentially, inside this op)
		u.ue.CipheringAlg = uint8(op.Alg)
		u.ue.IntegrityAlg = uint8(1 + op.Seed%2)
		p := nasTestpacket.GetConfigurationUpdateComplete() // any plain 5GMM message serves as payload
		if op.Len > 200 {
			p = plainNAS(r, op.Len)
		}
		u.dl++
		payload := append([]byte{}, p...)
		if err := security.NASEncrypt(u.ue.CipheringAlg, u.ue.KnasEnc, u.dl, security.Bearer3GPP, security.DirectionDownlink, payload); err != nil {
			return "err:" + err.Error()
		}
		payload = append([]byte{byte(u.dl)}, payload...)
		mac, err := security.NASMacCalculate(u.ue.IntegrityAlg, u.ue.KnasInt, u.dl, security.Bearer3GPP, security.DirectionDownlink, payload)
		if err != nil {
			return "err:" + err.Error()
		}
		msg := append([]byte{0x7e, 0x02}, append(mac, payload...)...)
		m, derr := tglib.NASDecode(u.ue, nas.GetSecurityHeaderType(msg), msg)
		if derr != nil || m == nil || m.GmmMessage == nil {
			return fmt.Sprintf("decode:%v", derr)
		}
		return fmt.Sprintf("type=%d|dl=%d", m.GmmHeader.GetMessageType(), u.ue.DLCount.Get())
	case "encrypt":
		var k [16]byte
		copy(k[:], r.bytes(16))
		cnt, br, dir := uint32(r.next()), uint8(r.next()%32), uint8(r.next()%2)
		msg := r.bytes(op.Len)
		buf := append([]byte{}, msg...)
		if err := security.NASEncrypt(uint8(op.Alg), k, cnt, br, dir, buf); err != nil {
			return "err:" + err.Error()
		}
		var want []byte
		switch op.Alg {
		case 0:
			want = msg
		case 1:
			want = refcrypto.EEA1(k, cnt, uint32(br), uint32(dir), msg, 8*len(msg))
		case 2:
			want = refcrypto.EEA2(k, cnt, uint32(br), uint32(dir), msg)
		}
		if !bytes.Equal(buf, want) {
			return fmt.Sprintf("WRONG-CIPHERTEXT alg=%d %x", op.Alg, buf[:min(8, len(buf))])
		}
		return "ok"
	case "mac":
		var k [16]byte
		copy(k[:], r.bytes(16))
		cnt, br, dir := uint32(r.next()), uint8(r.next()%32), uint8(r.next()%2)
		msg := r.bytes(op.Len)
		alg := 1 + op.Alg%2
		mac, err := security.NASMacCalculate(uint8(alg), k, cnt, br, dir, msg)
		if err != nil {
			return "err:" + err.Error()
		}
		var want [4]byte
		if alg == 1 {
			want = refcrypto.EIA1(k, cnt, uint32(br), uint32(dir), msg, 8*len(msg))
		} else {
			want = refcrypto.EIA2(k, cnt, uint32(br), uint32(dir), msg)
		}
		if !bytes.Equal(mac, want[:]) {
			return fmt.Sprintf("WRONG-MAC alg=%d %x", alg, mac)
		}
		return "ok"
	case "alg-direct":
		// the exported algorithm functions themselves (not through NASEncrypt / NASMacCalculate)
		var k [16]byte
		copy(k[:], r.bytes(16))
		cnt, br, dir := uint32(r.next()), uint8(r.next()%32), uint8(r.next()%2)
		msg := r.bytes(op.Len)
		switch op.Alg + int(op.Seed%2)*3 {
		case 0, 3:
			out, err := security.NEA1(k, cnt, uint32(br), uint32(dir), append([]byte{}, msg...), uint32(8*len(msg)))
			if err != nil || !bytes.Equal(out, refcrypto.EEA1(k, cnt, uint32(br), uint32(dir), msg, 8*len(msg))) {
				return fmt.Sprintf("WRONG NEA1 (direct call) err=%v", err)
			}
		case 1:
			out, err := security.NEA2(k, cnt, br, dir, append([]byte{}, msg...))
			if err != nil || !bytes.Equal(out, refcrypto.EEA2(k, cnt, uint32(br), uint32(dir), msg)) {
				return fmt.Sprintf("WRONG NEA2 (direct call) err=%v", err)
			}
		case 2, 5:
			mac, err := security.NIA1(k, cnt, br, uint32(dir), msg, uint64(8*len(msg)))
			want := refcrypto.EIA1(k, cnt, uint32(br), uint32(dir), msg, 8*len(msg))
			if err != nil || !bytes.Equal(mac, want[:]) {
				return fmt.Sprintf("WRONG NIA1 (direct call) err=%v", err)
			}
		default:
			mac, err := security.NIA2(k, cnt, br, dir, msg)
			want := refcrypto.EIA2(k, cnt, uint32(br), uint32(dir), msg)
			if err != nil || !bytes.Equal(mac, want[:]) {
				return fmt.Sprintf("WRONG NIA2 (direct call) err=%v", err)
			}
		}
		return "ok"
	case "ngap-dec-lists":
		// a list-heavy message (deep nesting over many elements), decoded. The canonical bytes are prepared once per
		// seed (during the sequential phase), so that in the concurrent phase this operation is decoding only.
		var rb []byte
		if v, ok := pduCache.Load(op.Seed); ok {
			rb = v.([]byte)
		} else {
			// NG SETUP REQUEST with a Supported TA List of nTA tracking areas x nPLMN broadcast PLMNs x nSlice slices:
			// lists nested four deep under the IE container, a few hundred leaf items
			x := &sm{x: op.Seed}
			nTA, nPLMN, nSlice := 2+int(x.next()%3), 2+int(x.next()%5), 4+int(x.next()%5)
			var pdu ngapType.NGAPPDU
			pdu.Present = ngapType.NGAPPDUPresentInitiatingMessage
			pdu.InitiatingMessage = new(ngapType.InitiatingMessage)
			im := pdu.InitiatingMessage
			im.ProcedureCode.Value = ngapType.ProcedureCodeNGSetup
			im.Criticality.Value = ngapType.CriticalityPresentReject
			im.Value.Present = ngapType.InitiatingMessagePresentNGSetupRequest
			im.Value.NGSetupRequest = new(ngapType.NGSetupRequest)
			{
				ie := ngapType.NGSetupRequestIEs{}
				ie.Id.Value = ngapType.ProtocolIEIDGlobalRANNodeID
				ie.Criticality.Value = ngapType.CriticalityPresentReject
				ie.Value.Present = ngapType.NGSetupRequestIEsPresentGlobalRANNodeID
				ie.Value.GlobalRANNodeID = new(ngapType.GlobalRANNodeID)
				ie.Value.GlobalRANNodeID.Present = ngapType.GlobalRANNodeIDPresentGlobalGNBID
				ie.Value.GlobalRANNodeID.GlobalGNBID = new(ngapType.GlobalGNBID)
				ie.Value.GlobalRANNodeID.GlobalGNBID.PLMNIdentity.Value = x.bytes(3)
				ie.Value.GlobalRANNodeID.GlobalGNBID.GNBID.Present = ngapType.GNBIDPresentGNBID
				ie.Value.GlobalRANNodeID.GlobalGNBID.GNBID.GNBID = &aper.BitString{Bytes: x.bytes(3), BitLength: 24}
				im.Value.NGSetupRequest.ProtocolIEs.List = append(im.Value.NGSetupRequest.ProtocolIEs.List, ie)
			}
			{
				ie := ngapType.NGSetupRequestIEs{}
				ie.Id.Value = ngapType.ProtocolIEIDSupportedTAList
				ie.Criticality.Value = ngapType.CriticalityPresentReject
				ie.Value.Present = ngapType.NGSetupRequestIEsPresentSupportedTAList
				ie.Value.SupportedTAList = new(ngapType.SupportedTAList)
				for a := 0; a < nTA; a++ {
					ta := ngapType.SupportedTAItem{}
					ta.TAC.Value = x.bytes(3)
					for b := 0; b < nPLMN; b++ {
						bp := ngapType.BroadcastPLMNItem{}
						bp.PLMNIdentity.Value = x.bytes(3)
						for c := 0; c < nSlice; c++ {
							sl := ngapType.SliceSupportItem{}
							sl.SNSSAI.SST.Value = x.bytes(1)
							sl.SNSSAI.SD = &ngapType.SD{Value: x.bytes(3)}
							bp.TAISliceSupportList.List = append(bp.TAISliceSupportList.List, sl)
						}
						ta.BroadcastPLMNList.List = append(ta.BroadcastPLMNList.List, bp)
					}
					ie.Value.SupportedTAList.List = append(ie.Value.SupportedTAList.List, ta)
				}
				im.Value.NGSetupRequest.ProtocolIEs.List = append(im.Value.NGSetupRequest.ProtocolIEs.List, ie)
			}
			{
				ie := ngapType.NGSetupRequestIEs{}
				ie.Id.Value = ngapType.ProtocolIEIDDefaultPagingDRX
				ie.Criticality.Value = ngapType.CriticalityPresentIgnore
				ie.Value.Present = ngapType.NGSetupRequestIEsPresentDefaultPagingDRX
				ie.Value.DefaultPagingDRX = &ngapType.PagingDRX{Value: ngapType.PagingDRXPresentV128}
				im.Value.NGSetupRequest.ProtocolIEs.List = append(im.Value.NGSetupRequest.ProtocolIEs.List, ie)
			}
			b, _, err := refper.Encode(pdu, gen.PDUTag)
			if err != nil || len(b) >= 16384 {
				b = nil
			}
			pduCache.Store(op.Seed, b)
			rb = b
		}
		if rb == nil {
			return "skip"
		}
		// decoded several times in a row: most of this operation's time is spent inside the decoder, so that with 64
		// goroutines dozens of decodes are in progress at any moment
		for rep := 0; rep < 3; rep++ {
			d, derr := ngap.Decoder(append([]byte{}, rb...))
			if derr != nil {
				return "decerr:" + derr.Error()
			}
			if rep == 0 {
				b2, _, e2 := refper.Encode(*d, gen.PDUTag)
				if e2 != nil || !bytes.Equal(b2, rb) {
					return "decoded-value-differs"
				}
			}
		}
		return "ok"
	case "shared-inputs":
		out := ""
		for i := 0; i < 8; i++ {
			switch (op.Seed + uint64(i)) % 4 {
			case 0:
				macA, macS := make([]byte, 8), make([]byte, 8)
				err := milenage.F1(sharedOPc, sharedK, sharedRAND, sharedSQN, sharedAMF, macA, macS)
				out += fmt.Sprintf("|f1:%x:%x:%v", macA, macS, err)
			case 1:
				res, ck, ik, ak, aks := make([]byte, 8), make([]byte, 16), make([]byte, 16), make([]byte, 6), make([]byte, 6)
				err := milenage.F2345(sharedOPc, sharedK, sharedRAND, res, ck, ik, ak, aks)
				out += fmt.Sprintf("|f2345:%x:%x:%x:%x:%x:%v", res, ck, ik, ak, aks, err)
			case 2:
				autn, ik, ck, ak, res := make([]byte, 16), make([]byte, 16), make([]byte, 16), make([]byte, 6), make([]byte, 8)
				rl := uint(8)
				milenage.MilenageGenerate(sharedOPc, sharedAMF, sharedK, sharedSQN, sharedRAND, autn, ik, ck, ak, res, &rl)
				out += fmt.Sprintf("|gen:%x:%x", autn, res)
			default:
				// the UE's own context, its own by-value copy of the operator's subscription record
				ue := tglib.NewRanUeContext(u.ue.Supi, int64(u.idx+1), uint8(op.Alg), 2)
				subs := sharedSubs
				var autn [16]byte
				copy(autn[:], r.bytes(16))
				rs := ue.DeriveRESstarAndSetKey(subs, autn, sharedRAND, "5G:mnc093.mcc208.3gppnetwork.org", "93", "208")
				out += fmt.Sprintf("|derive:%x:%x", rs, ue.Kamf)
			}
		}
		return out
	case "ue-burst":
		// what one UE does for minutes on end: message after message under ITS OWN two keys (the same keys call after
		// call, unlike aes-burst), while the other goroutines do the same under theirs
		for i := 0; i < 64; i++ {
			cnt, dir := uint32(r.next()), uint8(r.next()%2)
			msg := r.bytes(1 + int(r.next()%48))
			switch (op.Alg + i/16) % 4 {
			case 0:
				buf := append([]byte{}, msg...)
				if err := security.NASEncrypt(2, u.ue.KnasEnc, cnt, 1, dir, buf); err != nil || !bytes.Equal(buf, refcrypto.EEA2(u.ue.KnasEnc, cnt, 1, uint32(dir), msg)) {
					return fmt.Sprintf("WRONG-CIPHERTEXT NEA2 (UE burst, call %d) err=%v", i, err)
				}
			case 1:
				mac, err := security.NASMacCalculate(2, u.ue.KnasInt, cnt, 1, dir, msg)
				want := refcrypto.EIA2(u.ue.KnasInt, cnt, 1, uint32(dir), msg)
				if err != nil || !bytes.Equal(mac, want[:]) {
					return fmt.Sprintf("WRONG-MAC NIA2 (UE burst, call %d) err=%v", i, err)
				}
			case 2:
				buf := append([]byte{}, msg...)
				if err := security.NASEncrypt(1, u.ue.KnasEnc, cnt, 1, dir, buf); err != nil || !bytes.Equal(buf, refcrypto.EEA1(u.ue.KnasEnc, cnt, 1, uint32(dir), msg, 8*len(msg))) {
					return fmt.Sprintf("WRONG-CIPHERTEXT NEA1 (UE burst, call %d) err=%v", i, err)
				}
			default:
				mac, err := security.NASMacCalculate(1, u.ue.KnasInt, cnt, 1, dir, msg)
				want := refcrypto.EIA1(u.ue.KnasInt, cnt, 1, uint32(dir), msg, 8*len(msg))
				if err != nil || !bytes.Equal(mac, want[:]) {
					return fmt.Sprintf("WRONG-MAC NIA1 (UE burst, call %d) err=%v", i, err)
				}
			}
		}
		return "ok"
	case "aes-burst":
		// many short 128-NEA2 / 128-NIA2 operations in a row, every one under a key of its own (what a gNB serving many UEs
		// does): windows of a few instructions are only ever hit by volume
		for i := 0; i < 48; i++ {
			var k [16]byte
			copy(k[:], r.bytes(16))
			cnt, br, dir := uint32(r.next()), uint8(r.next()%32), uint8(r.next()%2)
			msg := r.bytes(1 + int(r.next()%40))
			if i%2 == 0 {
				buf := append([]byte{}, msg...)
				if err := security.NASEncrypt(2, k, cnt, br, dir, buf); err != nil || !bytes.Equal(buf, refcrypto.EEA2(k, cnt, uint32(br), uint32(dir), msg)) {
					return fmt.Sprintf("WRONG-CIPHERTEXT NEA2 (burst, call %d) err=%v", i, err)
				}
			} else {
				mac, err := security.NASMacCalculate(2, k, cnt, br, dir, msg)
				want := refcrypto.EIA2(k, cnt, uint32(br), uint32(dir), msg)
				if err != nil || !bytes.Equal(mac, want[:]) {
					return fmt.Sprintf("WRONG-MAC NIA2 (burst, call %d) err=%v", i, err)
				}
			}
		}
		return "ok"
	case "derive":
		ue := tglib.NewRanUeContext(u.ue.Supi, 1, uint8(op.Alg), uint8(1+op.Seed%2))
		subs := tglib.GetAuthSubscription(hex.EncodeToString(r.bytes(16)), hex.EncodeToString(r.bytes(16)), "")
		if op.Seed%3 == 0 {
			// the operator key given as OP (another one for every UE), no OPc
			subs = tglib.GetAuthSubscription(hex.EncodeToString(r.bytes(16)), "", hex.EncodeToString(r.bytes(16)))
		}
		var autn [16]byte
		copy(autn[:], r.bytes(16))
		res := ue.DeriveRESstarAndSetKey(subs, autn, r.bytes(16), "5G:mnc093.mcc208.3gppnetwork.org", "93", "208")
		return fmt.Sprintf("%x|%x|%x|%x", res, ue.Kamf, ue.KnasEnc, ue.KnasInt)
	}
	panic("unknown op " + op.Kind)
}

func firstDiff(a, b []byte) int {
	for i := 0; i < len(a) && i < len(b); i++ {
		if a[i] != b[i] {
			return i
		}
	}
	return min(len(a), len(b))
}

var raceRe = regexp.MustCompile(`(?m)^\s+((?:free5gclib|tglib|stgutg)[^\s(]*)\(`)

// raceLogSize / raceLogKey read the race detector's log files (GORACE log_path=<dir>/race).
func raceLog() (int64, string) {
	files, _ := filepath.Glob(filepath.Join(ev.WorkDir(), "racelog", "race.*"))
	var n int64
	key := ""
	for _, f := range files {
		if st, err := os.Stat(f); err == nil {
			n += st.Size()
		}
		if key == "" {
			if b, err := os.ReadFile(f); err == nil {
				if m := raceRe.FindSubmatch(b); m != nil {
					key = string(m[1])
				}
			}
		}
	}
	return n, key
}

func c20Oracle(c c20Case) ev.Verdict {
	v := ev.Verdict{}
	g := len(c.Scripts)
	snow := 0
	dec := 0
	for _, s := range c.Scripts {
		usesSnow, usesDec := false, false
		for _, op := range s {
			if (op.Kind == "encrypt" && op.Alg == 1) || (op.Kind == "mac" && op.Alg%2 == 0) || ((op.Kind == "protect" || op.Kind == "unprotect") && (op.Alg == 1 || op.Seed%2 == 0)) {
				usesSnow = true
			}
			if op.Kind == "ngap-dec" {
				usesDec = true
			}
		}
		if usesSnow {
			snow++
		}
		if usesDec {
			dec++
		}
	}
	if snow >= 2 {
		v.NT = true
		v.Classes = append(v.Classes, "nt:>=2-goroutines-snow3g")
	}
	if g >= 8 && dec >= 8 {
		v.NT = true
		v.Classes = append(v.Classes, "nt:>=8-goroutines-decoding")
	}
	v.Classes = append(v.Classes, fmt.Sprintf("goroutines=%d", g), fmt.Sprintf("gomaxprocs=%d", c.Procs))

	// sequential reference run (fresh UE state)
	seqSeed := uint64(0x5eed)
	want := make([][]string, g)
	for i, s := range c.Scripts {
		u := newUE(i, seqSeed)
		for _, op := range s {
			want[i] = append(want[i], runOp(u, op))
		}
	}
	for i := range want {
		for k, w := range want[i] {
			if strings.HasPrefix(w, "WRONG-") || strings.HasPrefix(w, "panic@") {
				// wrong even without concurrency: some other property's business; outside this case's claim
				v.Skip = true
				v.Classes = append(v.Classes, "skipped:sequentially-wrong:"+c.Scripts[i][k].Kind)
				return v
			}
		}
	}
	before, _ := raceLog()
	old := runtime.GOMAXPROCS(c.Procs)
	got := make([][]string, g)
	var wg sync.WaitGroup
	start := make(chan struct{})
	for i := range c.Scripts {
		wg.Add(1)
		go func(i int) {
			defer wg.Done()
			u := newUE(i, seqSeed)
			<-start
			for _, op := range c.Scripts[i] {
				got[i] = append(got[i], runOp(u, op))
			}
		}(i)
	}
	close(start)
	wg.Wait()
	runtime.GOMAXPROCS(old)
	for i := range want {
		for k := range want[i] {
			if got[i][k] != want[i][k] {
				op := c.Scripts[i][k]
				v.Key = fmt.Sprintf("diverged:%s/alg%d", op.Kind, op.Alg)
				v.Err = fmt.Errorf("goroutine %d op %d (%s alg %d): concurrent result %.80s differs from sequential %.80s", i, k, op.Kind, op.Alg, got[i][k], want[i][k])
				return v
			}
		}
	}
	if after, key := raceLog(); after > before {
		v.Key = "race:" + key
		v.Err = fmt.Errorf("the race detector reported a data race during this case (first repo frame %s); see %s", key, filepath.Join(ev.WorkDir(), "racelog"))
		return v
	}
	return v
}

func TestC20_Concurrent(t *testing.T) {
	r := ev.New(t, "C20", "TestC20_Concurrent")
	if !raceEnabled {
		r.Note("binary built WITHOUT -race: only the result comparison is active")
	}
	ev.Run(t, r, genC20, c20Oracle)
}

func TestSelfCrypto(t *testing.T) {
	if err := refcrypto.SelfTest(); err != nil {
		t.Fatal(err)
	}
	if err := refper.SelfTest(); err != nil {
		t.Fatal(err)
	}
}

// ---------------------------------------------------------------------------------------
// Cold start. TestC20_Concurrent computes its expected results first, in the same process — by the time the goroutines
// start, everything that initialises itself on first use (tables, caches, loggers' call-site maps) is warm. Here every
// case runs in a FRESH process (this test binary re-executed) that does the concurrent phase first and the sequential
// one afterwards, optionally with the libraries' loggers at debug level.

type c20ColdCase struct {
	C   c20Case `json:"case"`
	Log string  `json:"log_level,omitempty"` // logrus level of the APER and NAS loggers in the child ("" = default)
}

func genC20Cold(t *rapid.T) c20ColdCase {
	g := rapid.SampledFrom([]int{4, 8, 16, 16}).Draw(t, "goroutines")
	cc := c20ColdCase{C: c20Case{Procs: rapid.SampledFrom([]int{1, 4, 16}).Draw(t, "gomaxprocs")}}
	cc.Log = rapid.SampledFrom([]string{"", "", "debug", "trace"}).Draw(t, "log_level")
	// all goroutines begin with the same kind of operation: the first use of that code in the process is concurrent
	first := rapid.SampledFrom(c20Kinds).Draw(t, "first_kind")
	firstAlg := rapid.IntRange(0, 2).Draw(t, "first_alg")
	for i := 0; i < g; i++ {
		n := rapid.IntRange(2, 8).Draw(t, fmt.Sprintf("n%d", i))
		var s []c20Op
		for k := 0; k < n; k++ {
			kind, alg := first, firstAlg
			if k > 0 {
				kind, alg = rapid.SampledFrom(c20Kinds).Draw(t, "kind"), rapid.IntRange(0, 2).Draw(t, "alg")
			}
			s = append(s, c20Op{Kind: kind, Seed: rapid.Uint64().Draw(t, "seed"), Alg: alg, Len: rapid.IntRange(1, 300).Draw(t, "len")})
		}
		cc.C.Scripts = append(cc.C.Scripts, s)
	}
	return cc
}

type c20ColdVerdict struct {
	Key string `json:"key"`
	Err string `json:"err"`
}

func TestC20_ColdChild(t *testing.T) {
	path := os.Getenv("C20_COLD_CASE")
	if path == "" {
		t.Skip("helper process of TestC20_Cold")
	}
	var cc c20ColdCase
	raw, err := os.ReadFile(path)
	if err != nil {
		t.Fatal(err)
	}
	if err := json.Unmarshal(raw, &cc); err != nil {
		t.Fatal(err)
	}
	if lv, err := logrus.ParseLevel(cc.Log); err == nil && cc.Log != "" {
		for _, lg := range []*logrus.Logger{aperlogger.AperLog.Logger, naslogger.SecurityLog.Logger} {
			lg.SetLevel(lv)
			lg.SetOutput(io.Discard)
		}
	}
	c := cc.C
	seqSeed := uint64(len(c.Scripts))*1000003 + uint64(c.Procs)
	g := len(c.Scripts)
	got := make([][]string, g)
	runtime.GOMAXPROCS(c.Procs)
	var wg sync.WaitGroup
	start := make(chan struct{})
	for i := range c.Scripts {
		wg.Add(1)
		go func(i int) {
			defer wg.Done()
			u := newUE(i, seqSeed)
			<-start
			for _, op := range c.Scripts[i] {
				got[i] = append(got[i], runOp(u, op))
			}
		}(i)
	}
	close(start) // the FIRST use of the libraries in this process
	wg.Wait()
	out := c20ColdVerdict{}
	for i := range c.Scripts {
		u := newUE(i, seqSeed)
		for k, op := range c.Scripts[i] {
			want := runOp(u, op)
			if out.Key == "" && got[i][k] != want {
				out.Key = fmt.Sprintf("cold-start:diverged:%s/alg%d", op.Kind, op.Alg)
				out.Err = fmt.Sprintf("goroutine %d op %d (%s alg %d): the result of the concurrent first use %.80s differs from the sequential result %.80s", i, k, op.Kind, op.Alg, got[i][k], want)
			}
		}
	}
	b, _ := json.Marshal(out)
	if err := os.WriteFile(path+".out", b, 0644); err != nil {
		t.Fatal(err)
	}
}

var coldSeq int64

func c20ColdOracle(cc c20ColdCase) ev.Verdict {
	v := ev.Verdict{NT: true, Classes: []string{"cold-start", fmt.Sprintf("cold:first=%s", cc.C.Scripts[0][0].Kind), "cold:log=" + cc.Log, fmt.Sprintf("gomaxprocs=%d", cc.C.Procs)}}
	dir := filepath.Join(ev.WorkDir(), "c20cold")
	_ = os.MkdirAll(dir, 0755)
	path := filepath.Join(dir, fmt.Sprintf("case-%d-%d.json", os.Getpid(), atomic.AddInt64(&coldSeq, 1)))
	raw, _ := json.Marshal(cc)
	if err := os.WriteFile(path, raw, 0644); err != nil {
		panic(err)
	}
	defer os.Remove(path)
	defer os.Remove(path + ".out")
	before, _ := raceLog()
	cmd := exec.Command(os.Args[0], "-test.run", "^TestC20_ColdChild$", "-test.timeout", "120s")
	cmd.Env = append(os.Environ(), "C20_COLD_CASE="+path)
	cmd.Dir = filepath.Dir(os.Args[0])
	outb, err := cmd.CombinedOutput()
	res, rerr := os.ReadFile(path + ".out")
	if rerr != nil {
		// the child died: a fatal error of the Go runtime (concurrent map writes, ...) or a crash in library code
		msg := string(outb)
		key := "cold-start:process-death"
		for _, marker := range []string{"concurrent map writes", "concurrent map read and map write", "concurrent map iteration and map write"} {
			if strings.Contains(msg, marker) {
				key = "cold-start:fatal:" + marker
			}
		}
		if len(msg) > 1500 {
			msg = msg[:1500]
		}
		v.Key, v.Err = key, fmt.Errorf("the fresh process died during the concurrent first use (exit: %v):\n%s", err, msg)
		return v
	}
	var cv c20ColdVerdict
	_ = json.Unmarshal(res, &cv)
	if cv.Key != "" {
		v.Key, v.Err = cv.Key, fmt.Errorf("%s", cv.Err)
		return v
	}
	if after, key := raceLog(); after > before {
		v.Key = "race:" + key
		v.Err = fmt.Errorf("the race detector reported a data race in the fresh process (first repo frame %s)", key)
	}
	return v
}

func TestC20_Cold(t *testing.T) {
	r := ev.New(t, "C20", "TestC20_Cold")
	ev.Run(t, r, genC20Cold, c20ColdOracle)
}
