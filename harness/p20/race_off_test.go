//go:build !race

package p20

const raceEnabled = false
