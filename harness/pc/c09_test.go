package pc

// C09 — the NAS wire layout follows the TS 24.501 message tables.
//
// Part (i), this file: every (message, optional IE) pair and every mandatory part, both
// directions, against the refnas tables:
//   library-encoded bytes  --generic table parser-->  same elements (IEI, format, width, value)
//   table-encoded bytes    --PlainNasDecode-------->  the expected Go field with the expected contents
// plus the message-type dispatch of Table 9.7 and the value constants the emulator passes.
// Part (ii) is in c09_onpath_test.go.

import (
	"bytes"
	"fmt"
	"reflect"
	"sort"
	"testing"

	"free5gclib/nas/nasMessage"
	"pgregory.net/rapid"

	"verifh/ev"
	"verifh/refnas"
)

type c09PairCase struct {
	Kind string   `json:"kind"` // structure | constant | mandatory | pair
	Pair string   `json:"pair"` // "<Message>/<GoField>"
	W    wireCase `json:"w"`
}

// extractVal reads the value part out of an IE struct of the library.
func extractVal(f reflect.Value, sh shape, fm refnas.Format) []byte {
	switch {
	case sh.hasBuf:
		return f.FieldByName("Buffer").Bytes()
	case sh.octet == 1:
		x := byte(f.FieldByName("Octet").Uint())
		if fm == refnas.TV1 {
			x &= 0x0F
		}
		return []byte{x}
	case sh.octet == 2:
		o := f.FieldByName("Octet")
		n := o.Len()
		if sh.lenBits != 0 {
			if l := int(f.FieldByName("Len").Uint()); l < n {
				n = l
			}
		}
		out := make([]byte, n)
		for i := range out {
			out[i] = byte(o.Index(i).Uint())
		}
		return out
	}
	return nil
}

func c09PairOracle(c c09PairCase) ev.Verdict {
	vd := ev.Verdict{NT: true, Classes: []string{"kind:" + c.Kind}}
	fail := func(key, format string, a ...interface{}) ev.Verdict {
		vd.Key, vd.Err = key, fmt.Errorf(format, a...)
		return vd
	}
	switch c.Kind {
	case "structure":
		b := bindingOf(c.W.Msg)
		if b == nil {
			return fail("structure:"+c.W.Msg, "message not in table")
		}
		if len(b.issues) > 0 {
			return fail("structure:"+c.W.Msg, "Go type and Table %s.1.1 disagree: %v", b.def.Clause, b.issues)
		}
		return vd
	case "constant":
		for _, k := range emulatorConstants {
			if k.name == c.Pair && k.lib != k.spec {
				return fail("constant:"+k.name, "%s is %#x in the library, %#x in %s", k.name, k.lib, k.spec, k.where)
			}
		}
		return vd
	}
	b, v, err := c.W.value()
	if err != nil {
		return fail("structure:"+c.W.Msg, "%v", err)
	}
	msg := c.W.Msg
	vd.Classes = append(vd.Classes, "msg:"+msg)
	for _, o := range c.W.Opts {
		if k := b.optIndexByIEI(o.IEI); k >= 0 {
			vd.Classes = append(vd.Classes, "fmt:"+b.def.Opts[k].Fmt.String())
			if b.def.Opts[k].Unadjudicated != "" {
				return ev.Verdict{Skip: true, Classes: []string{"unadjudicated:" + msg + "/" + b.def.Opts[k].Go}}
			}
		}
	}
	sp, ref, err := b.spans(v)
	if err != nil {
		return fail("harness:"+msg, "reference encoder: %v", err)
	}
	vd.Hash = ev.HashBytes(ref)
	// every layout failure is keyed by its root cause: the first element (table order) at
	// which a prefix of the message stops round-tripping through the library (see attribute)
	plainFail := fail
	fail = func(key, format string, a ...interface{}) ev.Verdict {
		if len(key) > 7 && key[:7] == "layout:" {
			if f := attribute(b, v); f != "" {
				key = "layout:" + msg + "/" + f
			}
		}
		return plainFail(key, format, a...)
	}

	// library -> wire -> table parser
	m, err := b.build(v)
	if err != nil {
		return fail("layout:"+msg+"/"+pairField(c.Pair), "the Go type cannot hold a value the table allows: %v", err)
	}
	enc, err := b.encode(m)
	if err != nil {
		return fail("encode-error:"+msg, "PlainNasEncode: %v", err)
	}
	encSnap := append([]byte{}, enc...)
	who, at := culprit(sp, ref, enc)
	p, err := b.def.Parse(enc)
	if err != nil {
		return fail("layout:"+msg+"/"+who, "library encoding does not parse by Table %s.1.1: %v; first difference from the table encoding at offset %d (%s): library %s table %s",
			b.def.Clause, err, at, who, short(enc[min(at, len(enc)):]), short(ref[min(at, len(ref)):]))
	}
	for i := range b.def.Mand {
		if !bytes.Equal(p.Mand[i], v.Mand[i]) {
			return fail("layout:"+msg+"/"+b.def.Mand[i].Go, "mandatory element %q (%v): library put %s on the wire for value %s",
				b.def.Mand[i].Name, b.def.Mand[i].Fmt, short(p.Mand[i]), short(v.Mand[i]))
		}
	}
	if len(p.Opts) != len(v.Opts) {
		return fail("layout:"+msg+"/"+who, "library encoding carries %d optional IEs by the table, %d were set (first byte difference at %d, %s)", len(p.Opts), len(v.Opts), at, who)
	}
	for _, want := range v.Opts {
		k := b.optIndexByIEI(want.IEI)
		od := &b.def.Opts[k]
		got := p.Find(od.Go)
		if got == nil {
			return fail("layout:"+msg+"/"+od.Go, "IE %q (IEI %#x %v) not found in the library encoding %s", od.Name, od.IEI, od.Fmt, short(enc))
		}
		if got.IEI != od.IEI || !bytes.Equal(got.Val, want.Val) {
			return fail("layout:"+msg+"/"+od.Go, "IE %q: library encoding has IEI %#x value %s, expected IEI %#x value %s", od.Name, got.IEI, short(got.Val), od.IEI, short(want.Val))
		}
	}
	if !bytes.Equal(enc, ref) {
		vd.Classes = append(vd.Classes, "note:library-order-differs-from-table")
	}

	// table -> wire -> library
	dec, err := b.decode(ref)
	if err != nil {
		return fail("dispatch:"+msg, "PlainNasDecode refuses the table encoding %s: %v", short(ref), err)
	}
	if b.dispatchable() {
		if err := b.onlyHolder(dec); err != nil {
			return fail("dispatch:"+msg, "message type %#x (Table 9.7): %v", b.def.MT, err)
		}
	}
	in := b.inner(dec).Elem()
	for i := range b.def.Mand {
		if b.def.Mand[i].Fmt == refnas.VRest {
			continue
		}
		got := extractVal(in.Field(b.mandIdx[i]), b.mandSh[i], b.def.Mand[i].Fmt)
		if !bytes.Equal(got, v.Mand[i]) {
			return fail("layout:"+msg+"/"+b.def.Mand[i].Go, "mandatory element %q: Go field %s holds %s after decoding, the wire has %s",
				b.def.Mand[i].Name, b.def.Mand[i].Go, short(got), short(v.Mand[i]))
		}
	}
	if d := diffMsg(m, dec); d != "" {
		return fail("layout:"+msg+"/"+fieldOfPath(d, msg), "decoding the table encoding %s does not give the expected struct: %s", short(ref), d)
	}
	// the message keeps the layout it was given: the bytes are still held (not yet sent) while the codec is used for
	// other messages
	interfere()
	if !bytes.Equal(enc, encSnap) {
		return plainFail("retained:encoding-overwritten-by-a-later-call", "the bytes PlainNasEncode returned (%s) read %s after the codec was used for other messages", short(encSnap), short(enc))
	}
	return vd
}

func pairField(p string) string {
	for i := len(p) - 1; i >= 0; i-- {
		if p[i] == '/' {
			return p[i+1:]
		}
	}
	return p
}

// Values the emulator passes to the constructors by name (src/stgutg/*.go, tglib): the
// library constant against the value in the specification.
var emulatorConstants = []struct {
	name      string
	lib, spec uint8
	where     string
}{
	{"Epd5GSMobilityManagementMessage", nasMessage.Epd5GSMobilityManagementMessage, 0x7E, "TS 24.007 11.2.3.1.1A"},
	{"Epd5GSSessionManagementMessage", nasMessage.Epd5GSSessionManagementMessage, 0x2E, "TS 24.007 11.2.3.1.1A"},
	{"RegistrationType5GSInitialRegistration", nasMessage.RegistrationType5GSInitialRegistration, 1, "TS 24.501 9.11.3.7"},
	{"AccessType3GPP", nasMessage.AccessType3GPP, 1, "TS 24.501 9.11.3.11 / 9.11.3.20"},
	{"ServiceTypeSignalling", nasMessage.ServiceTypeSignalling, 0, "TS 24.501 9.11.3.50"},
	{"ServiceTypeData", nasMessage.ServiceTypeData, 1, "TS 24.501 9.11.3.50"},
	{"ServiceTypeMobileTerminatedServices", nasMessage.ServiceTypeMobileTerminatedServices, 2, "TS 24.501 9.11.3.50"},
	{"ULNASTransportRequestTypeInitialRequest", nasMessage.ULNASTransportRequestTypeInitialRequest, 1, "TS 24.501 9.11.3.47"},
	{"ULNASTransportRequestTypeExistingPduSession", nasMessage.ULNASTransportRequestTypeExistingPduSession, 2, "TS 24.501 9.11.3.47"},
	{"PayloadContainerTypeN1SMInfo", nasMessage.PayloadContainerTypeN1SMInfo, 1, "TS 24.501 9.11.3.40"},
	{"MobileIdentity5GSTypeSuci", nasMessage.MobileIdentity5GSTypeSuci, 1, "TS 24.501 9.11.3.4"},
	{"MobileIdentity5GSTypeImeisv", nasMessage.MobileIdentity5GSTypeImeisv, 5, "TS 24.501 9.11.3.4"},
	{"SupiFormatImsi", nasMessage.SupiFormatImsi, 0, "TS 24.501 9.11.3.4"},
	{"TypeOfSecurityContextFlagNative", nasMessage.TypeOfSecurityContextFlagNative, 0, "TS 24.501 9.11.3.32"},
	{"PDUSessionTypeIPv4", nasMessage.PDUSessionTypeIPv4, 1, "TS 24.501 9.11.4.11"},
}

func TestC09_Tables(t *testing.T) {
	r := ev.New(t, "C09", "TestC09_Tables")
	if ev.Replay() != "" { // ./check C09 --replay FILE: evaluate the saved case only
		ev.Run(t, r, func(*rapid.T) c09PairCase { return c09PairCase{} }, c09PairOracle)
		return
	}
	defer r.Flush()
	allPairs, _ := refnas.NumPairs()
	exercised := map[string]bool{}
	mandEx := map[string]bool{}
	var unadj []string
	defer func() {
		r.Extra("pairs_total", allPairs)
		r.Extra("pairs_exercised", len(exercised))
		r.Extra("pairs_unadjudicated", unadj)
		r.Extra("pairs_claimed", allPairs-len(unadj))
		r.Extra("mandatory_elements_exercised", len(mandEx))
		r.Extra("message_types", len(allBindings()))
		var missing []string
		for _, b := range allBindings() {
			for i := range b.def.Opts {
				p := b.def.Name + "/" + b.def.Opts[i].Go
				if !exercised[p] && b.def.Opts[i].Unadjudicated == "" {
					missing = append(missing, p)
				}
			}
		}
		sort.Strings(missing)
		if len(missing) > 12 {
			missing = append(missing[:12], fmt.Sprintf("… and %d more (the sweep stopped early)", len(missing)-12))
		}
		r.Extra("pairs_not_exercised", missing)
	}()
	each := func(c c09PairCase) bool { return r.Each(t, c, ev.SafeOracle(c09PairOracle, c)) }

	for _, b := range allBindings() {
		if !each(c09PairCase{Kind: "structure", Pair: b.def.Name, W: wireCase{Msg: b.def.Name}}) {
			return
		}
	}
	for _, k := range emulatorConstants {
		if !each(c09PairCase{Kind: "constant", Pair: k.name}) {
			return
		}
	}
	for _, b := range usable() {
		for i := range b.def.Opts {
			if o := &b.def.Opts[i]; o.Unadjudicated != "" {
				unadj = append(unadj, fmt.Sprintf("%s/%s (IEI %#x or %#x; library uses %#x): %s", b.def.Name, o.Go, o.IEI, o.AltIEI, b.effIEI[i], o.Unadjudicated))
				r.Note("unadjudicated, outside the claim: %s/%s — table candidates %#x / %#x, the library uses %#x. %s", b.def.Name, o.Go, o.IEI, o.AltIEI, b.effIEI[i], o.Unadjudicated)
			}
		}
	}
	reps := ev.N(80, 8000)
	seed := int(ev.Seed() % 1000003)
	for rep := 0; rep < reps; rep++ {
		for mi, b := range usable() {
			bb := b
			// the mandatory part on its own
			mc := rapid.Custom(func(rt *rapid.T) wireCase {
				return wireCase{Msg: bb.def.Name, Mand: drawMand(rt, bb)}
			}).Example(seed*7907 + rep*15485863 + mi*1009)
			if !each(c09PairCase{Kind: "mandatory", Pair: b.def.Name, W: mc}) {
				return
			}
			for i := range b.def.Mand {
				mandEx[b.def.Name+"/"+b.def.Mand[i].Go+"#"+fmt.Sprint(i)] = true
			}
			for k := range b.def.Opts {
				kk, rr := k, rep
				pair := b.def.Name + "/" + b.def.Opts[k].Go
				wc := rapid.Custom(func(rt *rapid.T) wireCase {
					c := wireCase{Msg: bb.def.Name, Mand: drawMand(rt, bb)}
					var in []bool
					switch {
					case rr%4 <= 1:
						in = make([]bool, len(bb.def.Opts)) // the IE on its own
					default:
						in = drawSubset(rt, len(bb.def.Opts))
					}
					in[kk] = true
					for j, present := range in {
						if !present || (j != kk && bb.def.Opts[j].Unadjudicated != "") {
							continue
						}
						lk := 0
						if j == kk {
							lk = map[int]int{0: 1, 1: 2}[rr%4] // rep 0: minimum length, rep 1: maximum, else drawn
						}
						c.Opts = append(c.Opts, drawOpt(rt, bb, j, lk))
					}
					return c
				}).Example(seed*7907 + rep*15485863 + mi*1009 + k + 1)
				if !each(c09PairCase{Kind: "pair", Pair: pair, W: wc}) {
					return
				}
				if b.def.Opts[k].Unadjudicated == "" {
					exercised[pair] = true
				}
			}
		}
	}
}
