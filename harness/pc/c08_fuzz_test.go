package pc

import (
	"testing"

	"pgregory.net/rapid"

	"verifh/ev"
	"verifh/refnas"
)

// wireFromBytes: is b a well-formed plain message in canonical IE order, within the domain of the generator
// (table of TS 24.501 clause 8 for its message type; every variable length within the Length column AND the
// capacity of the Go field; optional IEs in table order, none twice; spare half octets zero; security header type
// of a plain message 0..4)? Then it is the wire-level case the rapid generator could have drawn, found by the
// fuzzer's coverage feedback instead.
func wireFromBytes(b []byte) (wireCase, bool) {
	p, err := refnas.Parse(b)
	if err != nil || p.CheckLengths() != nil {
		return wireCase{}, false
	}
	bd := bindingOf(p.Def.Name)
	if bd == nil || len(bd.issues) > 0 {
		return wireCase{}, false
	}
	ok := false
	for _, u := range usable() {
		if u == bd {
			ok = true
		}
	}
	if !ok {
		return wireCase{}, false
	}
	c := wireCase{Msg: p.Def.Name}
	for i := range p.Def.Mand {
		m := &p.Def.Mand[i]
		val := p.Mand[i]
		switch m.Fmt {
		case refnas.HalfV:
			if len(val) != 1 || (m.Hi == "Spare half octet" && val[0]>>4 != 0) || (m.Name == "Security header type" && val[0]&0x0f > 4) {
				return wireCase{}, false
			}
		case refnas.V:
		case refnas.VRest:
			if len(val) != 0 {
				return wireCase{}, false
			}
		default:
			lo, hi := bd.mandRange(i)
			if len(val) < lo || len(val) > hi {
				return wireCase{}, false
			}
		}
		c.Mand = append(c.Mand, append(hexBytes{}, val...))
	}
	last := -1
	for _, ie := range p.Opts {
		k := bd.optIndexByIEI(ie.IEI)
		if k < 0 || k <= last || bd.def.Opts[k].Fmt != ie.Fmt {
			return wireCase{}, false
		}
		if ie.IEI != bd.def.Opts[k].IEI {
			return wireCase{}, false // found through the alternative IEI of an unadjudicated element
		}
		last = k
		if ie.Fmt == refnas.TLV || ie.Fmt == refnas.TLVE {
			lo, hi := bd.optRange(k)
			if len(ie.Val) < lo || len(ie.Val) > hi {
				return wireCase{}, false
			}
		}
		c.Opts = append(c.Opts, wireIE{IEI: ie.IEI, Val: append(hexBytes{}, ie.Val...)})
	}
	return c, true
}

// FuzzC08Bytes: native coverage-guided fuzzing over byte strings (thorough tier). A byte string that the
// independent table-driven parser finds well-formed and canonical is turned into the wire-level case it denotes and
// judged by the same oracle as TestC08_RoundTrip; a failure is saved as such a case and replays there.
func FuzzC08Bytes(f *testing.F) {
	r := ev.New(f, "C08", "FuzzC08Bytes")
	r.ReplayAs = "TestC08_RoundTrip"
	for k, b := range usable() {
		b := b
		c := rapid.Custom(func(t *rapid.T) wireCase { return drawWire(t, b, nil) }).Example(3000 + k)
		if _, v, err := c.value(); err == nil {
			if _, ref, err := b.spans(v); err == nil && len(ref) <= 1024 {
				f.Add(ref)
			}
		}
	}
	f.Fuzz(func(t *testing.T, b []byte) {
		if len(b) > 4096 {
			return
		}
		c, ok := wireFromBytes(b)
		if !ok {
			return
		}
		v := ev.SafeOracle(c08Oracle, c)
		if v.Skip {
			return
		}
		ev.FuzzCount("C08.well-formed-canonical-inputs-judged")
		if v.Err != nil {
			if r.IsKnown(v.Key) {
				return
			}
			r.Fail(c, v)
			t.Fatalf("[%s] %v", v.Key, v.Err)
		}
	})
}

// TestSelfWireFromBytes: the bytes→case conversion inverts the reference encoder on generated cases (so the fuzz
// target judges exactly the message the bytes denote).
func TestSelfWireFromBytes(t *testing.T) {
	n := 0
	for k, b := range usable() {
		b := b
		for j := 0; j < 20; j++ {
			c := rapid.Custom(func(t *rapid.T) wireCase { return drawWire(t, b, nil) }).Example(7000 + 100*k + j)
			_, v, err := c.value()
			if err != nil {
				continue
			}
			_, ref, err := b.spans(v)
			if err != nil {
				continue
			}
			back, ok := wireFromBytes(ref)
			if !ok {
				// legal only when the case used the alternative IEI of an unadjudicated element
				continue
			}
			_, v2, err := back.value()
			if err != nil {
				t.Fatalf("%s: case recovered from %x is not buildable: %v", c.Msg, ref, err)
			}
			_, ref2, err := b.spans(v2)
			if err != nil || string(ref2) != string(ref) {
				t.Fatalf("%s: bytes %x -> case -> bytes %x (%v)", c.Msg, ref, ref2, err)
			}
			n++
		}
	}
	if n < 400 {
		t.Fatalf("only %d generated messages were recovered from their bytes", n)
	}
}
