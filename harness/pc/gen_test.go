package pc

// Generator of wire-level NAS messages from the refnas tables (DESIGN §4 gen.NASMessage):
// message type, mandatory fields, a subset of the optional IEs, IE lengths from
// {min, min+1, max-1, max, uniform} within both the table and the Go field's capacity, random
// contents, and a permutation of the optional part.

import (
	"fmt"
	"strings"

	"pgregory.net/rapid"

	"verifh/refnas"
)

type wireIE struct {
	IEI uint8    `json:"iei"` // table IEI (4-bit for type-1 IEs)
	Val hexBytes `json:"val"`
}

type wireCase struct {
	Msg  string     `json:"msg"`
	Mand []hexBytes `json:"mand"`           // value parts of the mandatory elements, table order
	Opts []wireIE   `json:"opts"`           // optional IEs present, table order
	Perm []int      `json:"perm,omitempty"` // order in which Opts are sent in the permuted variant
	// Prev: another message of the same type that the SAME nas.Message value received just before this one (a receiver
	// object kept per UE); what is decoded into it afterwards must be this message and nothing of the earlier one
	Prev *wireCase `json:"received_before,omitempty"`
	Twin bool      `json:"framing_twin,omitempty"` // derived by framingTwin from another well-formed message of the same length
	Log  string    `json:"nas_log_level,omitempty"` // logrus level of the NAS library's logger while the case runs ("" = default)
}

func (c *wireCase) value() (*binding, *refnas.Value, error) {
	b := bindingOf(c.Msg)
	if b == nil {
		return nil, nil, fmt.Errorf("no message %q in the table", c.Msg)
	}
	if len(b.issues) > 0 {
		return b, nil, fmt.Errorf("table and Go type of %s disagree structurally: %v", c.Msg, b.issues)
	}
	if len(c.Mand) != len(b.def.Mand) {
		return b, nil, fmt.Errorf("%s: case has %d mandatory values, table %d", c.Msg, len(c.Mand), len(b.def.Mand))
	}
	v := &refnas.Value{Def: b.def}
	for _, m := range c.Mand {
		v.Mand = append(v.Mand, []byte(m))
	}
	for _, o := range c.Opts {
		v.Opts = append(v.Opts, refnas.IE{IEI: o.IEI, Val: []byte(o.Val)})
	}
	return b, v, nil
}

// expand turns a 64-bit seed into n octets (splitmix64); all randomness still comes from
// the rapid draw of the seed, long values just do not cost one draw per octet.
func expand(seed uint64, n int) []byte {
	out := make([]byte, n)
	x := seed
	for i := 0; i < n; i += 8 {
		x += 0x9E3779B97F4A7C15
		z := x
		z = (z ^ (z >> 30)) * 0xBF58476D1CE4E5B9
		z = (z ^ (z >> 27)) * 0x94D049BB133111EB
		z ^= z >> 31
		for k := 0; k < 8 && i+k < n; k++ {
			out[i+k] = byte(z >> (8 * uint(k)))
		}
	}
	return out
}

func mix64(x uint64) uint64 {
	x += 0x9E3779B97F4A7C15
	x = (x ^ (x >> 30)) * 0xBF58476D1CE4E5B9
	x = (x ^ (x >> 27)) * 0x94D049BB133111EB
	return x ^ (x >> 31)
}

// drawIndex: an (almost) uniform index from several biased byte draws.
func drawIndex(t *rapid.T, n int, label string) int {
	bs := rapid.SliceOfN(rapid.Byte(), 6, 6).Draw(t, label)
	var x uint64
	for _, b := range bs {
		x = x<<8 | uint64(b)
	}
	return int(mix64(x) % uint64(n))
}

// drawStructured: n octets that are themselves well structured, the way the contents of list-valued IEs are (an
// NSSAI is a chain of length-prefixed S-NSSAIs of 1, 2, 4, 5 or 8 octets; TAI lists, PLMN lists, QoS rules and
// container lists are chains of LV / TLV / fixed-size entries). Uniform octets practically never form such a chain,
// so a codec that looks INTO a value it should carry opaquely is only seen with these.
func drawStructured(t *rapid.T, n int, label string) []byte {
	out := make([]byte, 0, n)
	kind := rapid.IntRange(0, 3).Draw(t, label+"_chain")
	seed := rapid.Uint64().Draw(t, label+"_chain_seed")
	fill := expand(seed, n)
	lens := []int{1, 2, 4, 5, 8}
	for i := 0; len(out) < n; i++ {
		rest := n - len(out)
		x := mix64(seed + uint64(i))
		switch kind {
		case 0, 1: // LV chain; kind 0 with the S-NSSAI lengths only (and as many entries as fit), kind 1 with any small length
			l := lens[int(x%5)]
			if kind == 0 && x>>8&3 != 0 {
				l = 1
			}
			if kind == 1 {
				l = int(x % 12)
			}
			if l > rest-1 {
				l = rest - 1
			}
			out = append(out, byte(l))
			out = append(out, fill[len(out):len(out)+l]...)
		case 2: // TLV chain
			if rest == 1 {
				out = append(out, byte(x))
				break
			}
			l := int(x >> 8 % 10)
			if l > rest-2 {
				l = rest - 2
			}
			out = append(out, byte(x), byte(l))
			out = append(out, fill[len(out):len(out)+l]...)
		default: // fixed-size records of 3..7 octets, the first octet counting them down
			l := 3 + int(seed%5)
			if l > rest {
				l = rest
			}
			rec := append([]byte{byte(rest / l)}, fill[len(out)+1:len(out)+l]...)
			out = append(out, rec[:l]...)
		}
	}
	return out[:n]
}

// semanticValue: a value that MEANS something for the element of that name — a real IMEI with its check digit, the
// reserved tracking area codes, a 5G-GUTI, an IMEISV, a SUCI — of a length between lo and hi, or nil. Uniform octets
// never form them; a codec that treats some well-known value specially (drops a "deleted" TAI, zeroes a check
// digit) is only seen with these. The codec itself has to carry every one of them unchanged.
func semanticValue(t *rapid.T, name string, lo, hi int, label string) []byte {
	var cands [][]byte
	bcd := func(first byte, digits string) []byte {
		// identity digit 1 in the high nibble of octet 1, then two digits per octet, filler F
		out := []byte{first | (digits[0]-'0')<<4}
		for i := 1; i < len(digits); i += 2 {
			hi := byte(0xf)
			if i+1 < len(digits) {
				hi = digits[i+1] - '0'
			}
			out = append(out, hi<<4|(digits[i]-'0'))
		}
		return out
	}
	switch {
	case strings.Contains(name, "TAI") && !strings.Contains(name, "list"):
		for _, tac := range [][]byte{{0xff, 0xff, 0xfe}, {0xff, 0xff, 0xff}, {0x00, 0x00, 0x00}, {0x00, 0x00, 0x01}} {
			cands = append(cands, append([]byte{0x02, 0xf8, 0x39}, tac...), append([]byte{0x00, 0xf1, 0x10}, tac...))
		}
	case strings.Contains(strings.ToLower(name), "mobile identity") || name == "IMEISV" || strings.Contains(name, "GUTI") || name == "PEI":
		cands = append(cands,
			bcd(0x0b, "490154203237518"),  // IMEI (type 011, odd number of digits), valid check digit 8
			bcd(0x0b, "356938035643809"),  // IMEI, check digit 9
			bcd(0x0b, "490154203237510"),  // IMEI whose last digit is 0
			bcd(0x05, "4901542032375186"), // IMEISV (type 101, even)
			[]byte{0xf2, 0x02, 0xf8, 0x39, 0xca, 0xfe, 0x00, 0x00, 0x00, 0x00, 0x01}, // 5G-GUTI
			[]byte{0xf4, 0xfe, 0x00, 0x00, 0x00, 0x00, 0x01},                         // 5G-S-TMSI
			[]byte{0x01, 0x02, 0xf8, 0x39, 0xf0, 0xff, 0x00, 0x00, 0x00, 0x00, 0x00, 0x00, 0x10}, // SUCI, null scheme
			[]byte{0x00}) // no identity
	default:
		return nil
	}
	var fit [][]byte
	for _, c := range cands {
		if len(c) >= lo && len(c) <= hi {
			fit = append(fit, c)
		}
	}
	if len(fit) == 0 || rapid.IntRange(0, 3).Draw(t, label+"_semantic") != 1 {
		return nil
	}
	return append([]byte{}, fit[rapid.IntRange(0, len(fit)-1).Draw(t, label+"_semantic_k")]...)
}

func drawBytes(t *rapid.T, n int, label string) []byte {
	if n >= 4 && rapid.IntRange(0, 7).Draw(t, label+"_structured") == 3 {
		return drawStructured(t, n, label)
	}
	if n <= 24 {
		return rapid.SliceOfN(rapid.Byte(), n, n).Draw(t, label)
	}
	switch rapid.IntRange(0, 9).Draw(t, label+"_fill") {
	case 0:
		return make([]byte, n)
	case 1:
		b := make([]byte, n)
		for i := range b {
			b[i] = 0xFF
		}
		return b
	}
	return expand(rapid.Uint64().Draw(t, label+"_seed"), n)
}

// drawLen picks a value length in lo..hi: the boundaries and their neighbours, or uniform
// (mostly short so that messages stay small; the boundary classes of 16-bit lengths are
// thinned because one such IE is 64 KiB).
func drawLen(t *rapid.T, lo, hi int, label string) int {
	if lo >= hi {
		return lo
	}
	k := rapid.IntRange(0, 11).Draw(t, label+"_k")
	if hi > 4096 && (k == 2 || k == 3) && rapid.IntRange(0, 3).Draw(t, label+"_big") != 0 {
		k = 6
	}
	switch k {
	case 0:
		return lo
	case 1:
		return lo + 1
	case 2:
		return hi - 1
	case 3:
		return hi
	case 4:
		// around the one-octet / two-octet length boundary and other powers of two
		c := rapid.SampledFrom([]int{127, 128, 255, 256, 257, 1023, 1024}).Draw(t, label+"_p")
		if c >= lo && c <= hi {
			return c
		}
		return lo
	case 5:
		u := hi
		if u > 2000 {
			u = 2000
		}
		return rapid.IntRange(lo, u).Draw(t, label)
	}
	u := hi
	if u > lo+40 {
		u = lo + 40
	}
	return rapid.IntRange(lo, u).Draw(t, label)
}

// legalLens lists the legal value lengths of an optional IE when the table enumerates them.
func legalLens(o *refnas.Opt, lo, hi int) []int {
	var out []int
	for _, l := range o.Lens {
		n := l - o.Fmt.Overhead()
		if n >= lo && n <= hi {
			out = append(out, n)
		}
	}
	return out
}

func drawMand(t *rapid.T, b *binding) []hexBytes {
	out := make([]hexBytes, len(b.def.Mand))
	for i := range b.def.Mand {
		m := &b.def.Mand[i]
		l := fmt.Sprintf("m%d", i)
		switch {
		case m.Fixed >= 0:
			out[i] = hexBytes{byte(m.Fixed)}
		case m.Fmt == refnas.HalfV:
			lo := uint8(rapid.IntRange(0, 15).Draw(t, l+"_lo"))
			hi := uint8(rapid.IntRange(0, 15).Draw(t, l+"_hi"))
			if m.Hi == "Spare half octet" {
				hi = 0 // spare bits are sent as zero (TS 24.501 9.x "spare")
			}
			if m.Name == "Security header type" {
				lo = uint8(rapid.IntRange(0, 4).Draw(t, l+"_sht"))
			}
			out[i] = hexBytes{hi<<4 | lo}
		case m.Fmt == refnas.V:
			out[i] = drawBytes(t, m.MinLen, l)
		default:
			lo, hi := b.mandRange(i)
			if sv := semanticValue(t, m.Name, lo, hi, l); sv != nil {
				out[i] = sv
			} else {
				out[i] = drawBytes(t, drawLen(t, lo, hi, l+"_len"), l)
			}
		}
	}
	return out
}

func drawOpt(t *rapid.T, b *binding, k int, lenKind int) wireIE {
	o := &b.def.Opts[k]
	l := fmt.Sprintf("o%d", k)
	switch o.Fmt {
	case refnas.TV1:
		return wireIE{IEI: o.IEI, Val: hexBytes{byte(rapid.IntRange(0, 15).Draw(t, l+"_nib"))}}
	case refnas.TV:
		if sv := semanticValue(t, o.Name, o.MinLen-1, o.MinLen-1, l); sv != nil {
			return wireIE{IEI: o.IEI, Val: sv}
		}
		return wireIE{IEI: o.IEI, Val: drawBytes(t, o.MinLen-1, l)}
	}
	lo, hi := b.optRange(k)
	if len(o.Lens) == 0 {
		if sv := semanticValue(t, o.Name, lo, hi, l); sv != nil {
			return wireIE{IEI: o.IEI, Val: sv}
		}
	}
	var n int
	if ls := legalLens(o, lo, hi); len(o.Lens) > 0 {
		n = rapid.SampledFrom(ls).Draw(t, l+"_len")
	} else {
		switch lenKind {
		case 1:
			n = lo
		case 2:
			n = hi
		default:
			n = drawLen(t, lo, hi, l+"_len")
		}
	}
	return wireIE{IEI: o.IEI, Val: drawBytes(t, n, l)}
}

// drawSubset chooses which optional IEs are present.
func drawSubset(t *rapid.T, k int) []bool {
	in := make([]bool, k)
	if k == 0 {
		return in
	}
	// simpler modes have smaller numbers so that shrinking moves towards them
	switch mode := rapid.IntRange(0, 9).Draw(t, "subset_mode"); mode {
	case 0: // none
	case 1: // exactly one
		in[rapid.IntRange(0, k-1).Draw(t, "subset_one")] = true
	case 8: // all but one
		for i := range in {
			in[i] = true
		}
		in[rapid.IntRange(0, k-1).Draw(t, "subset_but")] = false
	case 9: // all
		for i := range in {
			in[i] = true
		}
	default:
		pct := []int{15, 50, 50, 50, 85, 85}[mode-2]
		for i := range in {
			in[i] = rapid.IntRange(0, 99).Draw(t, fmt.Sprintf("in%d", i)) < pct
		}
	}
	return in
}

func drawWire(t *rapid.T, b *binding, in []bool) wireCase {
	c := wireCase{Msg: b.def.Name, Mand: drawMand(t, b)}
	if in == nil {
		in = drawSubset(t, len(b.def.Opts))
	}
	for k, present := range in {
		if present {
			c.Opts = append(c.Opts, drawOpt(t, b, k, 0))
		}
	}
	if n := len(c.Opts); n >= 2 {
		idx := make([]int, n)
		for i := range idx {
			idx[i] = i
		}
		switch rapid.IntRange(0, 3).Draw(t, "perm_kind") {
		case 0: // reversed
			for i := range idx {
				c.Perm = append(c.Perm, n-1-i)
			}
		case 1: // last first
			c.Perm = append([]int{n - 1}, idx[:n-1]...)
		default:
			c.Perm = rapid.Permutation(idx).Draw(t, "perm")
		}
	}
	return c
}

func genWire(t *rapid.T) wireCase {
	bs := usable()
	// rapid's integer generators favour small values; the message type is therefore taken from
	// a mixed 64-bit draw so that all 45 types get the same share of the cases
	b := bs[drawIndex(t, len(bs), "msg")]
	c := drawWire(t, b, nil)
	c.Log = rapid.SampledFrom([]string{"", "", "", "", "", "", "", "debug", "trace", "error"}).Draw(t, "nas_log_level")
	if rapid.IntRange(0, 5).Draw(t, "twin") == 0 {
		if tw, ok := framingTwin(b, c, rapid.IntRange(1, 3).Draw(t, "twin_k"), rapid.IntRange(0, 7).Draw(t, "twin_at")); ok {
			tw.Log = c.Log
			return tw
		}
	}
	if len(b.def.Opts) > 0 && rapid.IntRange(0, 3).Draw(t, "reused_receiver") == 0 {
		p := drawWire(t, b, nil)
		p.Perm = nil
		c.Prev = &p
	}
	return c
}

// usable lists the bindings whose Go type matches the table structurally (the others are
// reported by TestC09_Tables; nothing can be generated for them).
func usable() []*binding {
	var out []*binding
	for _, b := range allBindings() {
		if len(b.issues) == 0 {
			out = append(out, b)
		}
	}
	return out
}


// framingTwin derives from a well-formed message another well-formed message of the SAME length that shares almost all
// of its octets but is framed differently: one variable-length element (the last mandatory LV/LV-E element or an
// optional TLV/TLV-E IE) is made k octets longer, so that it swallows the first k octets of what followed, and the
// displaced remainder becomes the value of one optional TLV-E (or TLV) IE that the table allows later in the message.
// All octets that were IEIs and length fields of the original — except the few rewritten ones — are now CONTENT at the
// same offsets. A decoder that recognises a message by octets at fixed offsets is led astray by such twins; a decoder
// that follows the length fields is not.
func framingTwin(b *binding, c wireCase, k int, at int) (wireCase, bool) {
	_, v, err := c.value()
	if err != nil {
		return c, false
	}
	sp, ref, err := b.spans(v)
	if err != nil || len(sp) != len(b.def.Mand)+len(v.Opts) {
		return c, false
	}
	// candidates: index into sp of a growable element
	type cand struct{ spi int }
	var cands []cand
	lastMand := len(b.def.Mand) - 1
	if lastMand >= 0 && (b.def.Mand[lastMand].Fmt == refnas.LV || b.def.Mand[lastMand].Fmt == refnas.LVE) {
		cands = append(cands, cand{lastMand})
	}
	for i, o := range v.Opts {
		j := b.optIndexByIEI(o.IEI)
		if j >= 0 && (b.def.Opts[j].Fmt == refnas.TLV || b.def.Opts[j].Fmt == refnas.TLVE) && b.def.Opts[j].Unadjudicated == "" {
			cands = append(cands, cand{len(b.def.Mand) + i})
		}
	}
	if len(cands) == 0 {
		return c, false
	}
	e := cands[at%len(cands)].spi
	tail := ref[sp[e].to:]
	if len(tail) < k+3 {
		return c, false
	}
	tw := wireCase{Msg: c.Msg, Twin: true}
	for i := range c.Mand {
		tw.Mand = append(tw.Mand, append(hexBytes{}, c.Mand[i]...))
	}
	lastOptTable := -1
	if e < len(b.def.Mand) {
		lo, hi := b.mandRange(e)
		nl := len(tw.Mand[e]) + k
		if nl < lo || nl > hi {
			return c, false
		}
		tw.Mand[e] = append(tw.Mand[e], tail[:k]...)
	} else {
		oi := e - len(b.def.Mand)
		for i := 0; i <= oi; i++ {
			tw.Opts = append(tw.Opts, wireIE{IEI: c.Opts[i].IEI, Val: append(hexBytes{}, c.Opts[i].Val...)})
		}
		j := b.optIndexByIEI(c.Opts[oi].IEI)
		lo, hi := b.optRange(j)
		nl := len(tw.Opts[oi].Val) + k
		if nl < lo || nl > hi || len(legalLens(&b.def.Opts[j], lo, hi)) > 0 {
			return c, false
		}
		tw.Opts[oi].Val = append(tw.Opts[oi].Val, tail[:k]...)
		for i := 0; i <= oi; i++ {
			if t := b.optIndexByIEI(c.Opts[i].IEI); t > lastOptTable {
				lastOptTable = t
			}
		}
	}
	// the wrapper: a later optional IE with a length field that can hold the remainder
	rest := tail[k:]
	for x := lastOptTable + 1; x < len(b.def.Opts); x++ {
		o := &b.def.Opts[x]
		if (o.Fmt != refnas.TLVE && o.Fmt != refnas.TLV) || o.Unadjudicated != "" {
			continue
		}
		n := len(rest) - o.Fmt.Overhead()
		lo, hi := b.optRange(x)
		if n < lo || n > hi || (o.Fmt == refnas.TLV && n > 255) || len(legalLens(o, lo, hi)) > 0 {
			continue
		}
		tw.Opts = append(tw.Opts, wireIE{IEI: o.IEI, Val: append(hexBytes{}, rest[o.Fmt.Overhead():]...)})
		// the twin must really be well-formed and of the same length
		if _, tv, err := tw.value(); err == nil {
			if _, tref, err := b.spans(tv); err == nil && len(tref) == len(ref) {
				return tw, true
			}
		}
		tw.Opts = tw.Opts[:len(tw.Opts)-1]
	}
	return c, false
}
